// Command c13 is the correspondence harness and property oracle for C13 (a
// failed or interrupted filter update never weakens or corrupts filtering).
//
// It drives the real filterstorage.Default and hashprefix.Filter against an
// in-process HTTP server with a fault injector per URL and round, compares
// what is served from memory and what lies in the cache directory with the
// Lean model after every round, and checks the property itself on the same
// observations without consulting the model.
package main

import (
	"bytes"
	"compress/gzip"
	"context"
	"encoding/hex"
	"encoding/json"
	"errors"
	"fmt"
	"io"
	"log"
	"math/rand/v2"
	"net/http"
	"net/http/httptest"
	"net/url"
	"os"
	"path/filepath"
	"sort"
	"strconv"
	"strings"
	"sync"
	"time"

	"github.com/AdguardTeam/AdGuardDNS/internal/agdcache"
	"github.com/AdguardTeam/AdGuardDNS/internal/agdtime"
	"github.com/AdguardTeam/AdGuardDNS/internal/filter"
	"github.com/AdguardTeam/AdGuardDNS/internal/filter/filterstorage"
	"github.com/AdguardTeam/AdGuardDNS/internal/filter/hashprefix"
	"github.com/AdguardTeam/AdGuardDNS/verifh/hlib"
	"github.com/AdguardTeam/golibs/logutil/slogutil"
	"github.com/c2h5oh/datasize"
)

// nopErrColl ignores collected errors.
type nopErrColl struct{}

func (nopErrColl) Collect(_ context.Context, _ error) {}

const (
	staleness   = time.Hour
	longTimeout = 5 * time.Second
	fastTimeout = 120 * time.Millisecond
	hashMax     = 96 * 1024
)

// keyNames are the valid rule-list keys.  They sit on the boundaries of what
// filter.NewID accepts and next to each other as file names: two keys that
// differ only in case, one with the smallest and the largest allowed byte
// ('!' and '~'), and one of exactly filter.MaxIDLen (128) bytes.
var keyNames = []string{"", "LISTA", "lista", "listc!~", "listd" + strings.Repeat("~", 123)}

// reservedKeys are valid IDs that are not the name of a cache file of a rule
// list's own: the directory and its parent, the index files, and the files of
// the safe-search and hash-prefix filters, which live in the same directory.
// An index entry with such a key is an invalid entry.
var reservedKeys = []string{"services.json", "filters.json", ".", "..", "general_safe_search", "youtube_safe_search", "adult_blocking", "safe_browsing", "newly_registered_domains"}

// content is one complete document the server can offer or that can lie in a
// cache file.
type content struct {
	id     int
	kind   string // rl, idx, svc, hash, junk, empty
	body   []byte
	nrules int
	// idx
	jsonOK  bool
	entries []entry
	// svc
	svcOK    bool
	svcEmpty bool
	// svcEntries are the elements of blocked_services as the model names
	// them: n = null, b = invalid id, o = a service that converts.
	svcEntries []string
	svcJSON    bool
	// hash
	hashOK bool
}

type entry struct {
	keyStr string
	key    int
	keyOk  bool
	// reserved: keyStr is a valid ID but one of reservedKeys, so that the
	// entry is invalid (keyOk is false for the oracle: no list of that name
	// may ever be loaded or stored).
	reserved bool
	null     bool
	urlStr string
	urlOk  bool
	url    int
	// raw, when not empty, is the JSON text of the element: a value of the
	// wrong JSON type, as a whole (a string, an array, a number, true) or in
	// one of its properties (filterKey or downloadUrl a number).  Such an
	// element is an invalid entry of the index; keyStr and urlStr are what is
	// left of it (the properties of the right type).
	raw string
}

// mistypedKinds are the ways an element of "filters" can have the wrong JSON
// type.
var mistypedKinds = []string{"keynum", "urlnum", "keybool", "urlarr", "str", "arr", "num", "true", "keynull-urlobj"}

// mistypedEntry builds an entry of the wrong JSON type.  k is the key that the
// entry names when its filterKey is intact (urlnum, urlarr), u the URL it
// carries when its downloadUrl is intact.
func (w *world) mistypedEntry(kind string, k, u int) entry {
	switch kind {
	case "keynum":
		return entry{urlStr: w.listURL(u), raw: fmt.Sprintf(`{"filterKey":%d,"downloadUrl":%s}`, 7+k, jsonQuote(w.listURL(u)))}
	case "keybool":
		return entry{urlStr: w.listURL(u), raw: fmt.Sprintf(`{"downloadUrl":%s,"filterKey":false}`, jsonQuote(w.listURL(u)))}
	case "urlnum":
		return entry{keyStr: keyNames[k], key: k, keyOk: true, raw: fmt.Sprintf(`{"filterKey":%s,"downloadUrl":17}`, jsonQuote(keyNames[k]))}
	case "urlarr":
		return entry{keyStr: keyNames[k], key: k, keyOk: true, raw: fmt.Sprintf(`{"downloadUrl":[%s],"filterKey":%s}`, jsonQuote(w.listURL(u)), jsonQuote(keyNames[k]))}
	case "str":
		return entry{raw: jsonQuote(keyNames[k])}
	case "arr":
		return entry{raw: fmt.Sprintf(`[%s,%s]`, jsonQuote(keyNames[k]), jsonQuote(w.listURL(u)))}
	case "num":
		return entry{raw: strconv.Itoa(u)}
	case "true":
		return entry{raw: "true"}
	default: // keynull-urlobj: a null key is an empty key, the URL an object
		return entry{raw: fmt.Sprintf(`{"filterKey":null,"downloadUrl":{"href":%s}}`, jsonQuote(w.listURL(u)))}
	}
}

// plan is what the server does with one URL during one round.
type plan struct {
	kind   string // ok okchunked connerr timeouthdr status empty cutcl cutchunked timeoutbody cancelctx
	status int
	c      *content
	cut    int
}

func (p *plan) faulty(max int) bool {
	switch p.kind {
	case "ok":
		return len(p.c.body) == 0 || len(p.c.body) > max
	case "okchunked", "okgzip":
		// A chunked body of exactly max bytes is accepted or refused depending
		// on whether the terminating chunk is already buffered when the last
		// data is read; the generators never produce it.
		return len(p.c.body) == 0 || len(p.c.body) > max
	default:
		return true
	}
}

// faultClass is the stable class name used in signatures.
func (p *plan) faultClass(max int) string {
	switch p.kind {
	case "ok", "okchunked", "okgzip":
		switch n := len(p.c.body); {
		case n == 0:
			return "empty-body"
		case n > max:
			return "oversized-body"
		default:
			return "none"
		}
	case "status":
		return "status-" + strconv.Itoa(p.status)
	default:
		return p.kind
	}
}

// token is the model's encoding of the response.
func (p *plan) token() string {
	switch p.kind {
	case "connerr", "timeouthdr", "cancelctx":
		return "g"
	case "ok":
		return fmt.Sprintf("200:%d:0:1", p.c.id)
	case "okchunked", "okgzip":
		// okgzip: the limit and the emptiness test apply to the decoded
		// document, which is what the model knows.
		return fmt.Sprintf("200:%d:0:0", p.c.id)
	case "status":
		return fmt.Sprintf("%d:%d:0:1", p.status, p.c.id)
	default: // cutcl cutchunked timeoutbody
		return fmt.Sprintf("200:%d:1:0", p.c.id)
	}
}

// world is the server side and the bookkeeping of one case.
type world struct {
	keyNums map[string]int
	r    *hlib.Result
	srv  *httptest.Server
	base string

	mu sync.Mutex
	// cancelRound cancels the context of the refresh that is running.
	cancelRound context.CancelFunc
	plans       map[string]*plan
	reqs     map[string]int
	dir      string
	snapOn   bool
	snaps    []string
	snapRoot string
	// startFiles are the cache files present when the current round began;
	// snapStart remembers them per snapshot.
	startFiles []string
	snapStart  [][]string

	contents              []*content
	byBody                map[string]*content
	nextID                int
	emptyStr              string
	maxSnaps, maxRestarts int
	stale                 time.Duration
}

// newEmpty registers the empty document of a case.
func (w *world) newEmpty() *content {
	c := w.add(&content{kind: "empty"})
	w.emptyStr = strconv.Itoa(c.id)

	return c
}

func (w *world) handle(rw http.ResponseWriter, rq *http.Request) {
	w.mu.Lock()
	p := w.plans[rq.URL.Path]
	w.reqs[rq.URL.Path]++
	w.mu.Unlock()
	w.snapshot()
	if p == nil {
		http.NotFound(rw, rq)

		return
	}
	switch p.kind {
	case "connerr":
		hj, ok := rw.(http.Hijacker)
		if !ok {
			panic("no hijacker")
		}
		conn, _, err := hj.Hijack()
		if err == nil {
			_ = conn.Close()
		}
	case "timeouthdr":
		<-rq.Context().Done()
	case "cancelctx":
		// The deadline of the whole refresh expires while this request is in
		// flight.
		w.mu.Lock()
		cancel := w.cancelRound
		w.mu.Unlock()
		if cancel != nil {
			cancel()
		}
		<-rq.Context().Done()
	case "cancelbody":
		// The deadline of the whole refresh expires (or the process is told
		// to stop) in the middle of this transfer: a part of the body has
		// arrived, the rest never does.
		_, _ = rw.Write(p.c.body[:p.cut])
		rw.(http.Flusher).Flush()
		w.snapshot()
		w.mu.Lock()
		cancel := w.cancelRound
		w.mu.Unlock()
		if cancel != nil {
			cancel()
		}
		w.snapshot()
		<-rq.Context().Done()
	case "status":
		rw.WriteHeader(p.status)
		_, _ = rw.Write(p.c.body)
	case "ok":
		rw.Header().Set("Content-Length", strconv.Itoa(len(p.c.body)))
		_, _ = rw.Write(p.c.body)
	case "okchunked":
		half := len(p.c.body) / 2
		_, _ = rw.Write(p.c.body[:half])
		rw.(http.Flusher).Flush()
		w.snapshot()
		_, _ = rw.Write(p.c.body[half:])
	case "okgzip":
		// The document with Content-Encoding: gzip, as a CDN sends it to a
		// client that did not ask for identity: what is stored and served
		// must be the document, not its compressed form, and the size limit
		// applies to the document.
		z := gzipBytes(p.c.body)
		rw.Header().Set("Content-Encoding", "gzip")
		rw.Header().Set("Content-Length", strconv.Itoa(len(z)))
		_, _ = rw.Write(z[:len(z)/2])
		rw.(http.Flusher).Flush()
		w.snapshot()
		_, _ = rw.Write(z[len(z)/2:])
	case "cutgzip":
		// A gzip stream that ends early although the HTTP framing is intact
		// (the origin handed the CDN a truncated object): a truncated
		// transfer that only the content coding reveals.
		z := gzipBytes(p.c.body)
		z = z[:gzipCut(len(z), p.cut, len(p.c.body))]
		rw.Header().Set("Content-Encoding", "gzip")
		rw.Header().Set("Content-Length", strconv.Itoa(len(z)))
		_, _ = rw.Write(z)
	case "cutcl":
		rw.Header().Set("Content-Length", strconv.Itoa(len(p.c.body)))
		_, _ = rw.Write(p.c.body[:p.cut])
		rw.(http.Flusher).Flush()
		w.snapshot()
		panic(http.ErrAbortHandler)
	case "cutchunked":
		_, _ = rw.Write(p.c.body[:p.cut])
		rw.(http.Flusher).Flush()
		w.snapshot()
		panic(http.ErrAbortHandler)
	case "timeoutbody":
		_, _ = rw.Write(p.c.body[:p.cut])
		rw.(http.Flusher).Flush()
		w.snapshot()
		<-rq.Context().Done()
	default:
		panic("bad plan kind " + p.kind)
	}
}

// gzipBytes is the gzip coding of b.
func gzipBytes(b []byte) []byte {
	buf := &bytes.Buffer{}
	zw := gzip.NewWriter(buf)
	_, _ = zw.Write(b)
	_ = zw.Close()

	return buf.Bytes()
}

// gzipCut maps a cut position within a document of n bytes to a cut position
// within its gzip coding of zn bytes: always at least one byte short, never
// less than nothing.
func gzipCut(zn, cut, n int) int {
	if n <= 0 {
		return 0
	}
	c := cut * zn / n
	if c >= zn {
		c = zn - 1
	}

	return c
}

// snapshot copies the cache directory as a process killed at this instant
// would leave it.
func (w *world) snapshot() {
	w.mu.Lock()
	defer w.mu.Unlock()
	if !w.snapOn || len(w.snaps) >= w.maxSnaps {
		return
	}
	dst := filepath.Join(w.snapRoot, fmt.Sprintf("snap%d", len(w.snaps)))
	hlib.Must(os.MkdirAll(dst, 0o755))
	ents, err := os.ReadDir(w.dir)
	hlib.Must(err)
	for _, e := range ents {
		if e.IsDir() {
			continue
		}
		b, rerr := os.ReadFile(filepath.Join(w.dir, e.Name()))
		if rerr != nil {
			// Temporary files can vanish between ReadDir and ReadFile.
			continue
		}
		hlib.Must(os.WriteFile(filepath.Join(dst, e.Name()), b, 0o644))
	}
	w.snaps = append(w.snaps, dst)
	w.snapStart = append(w.snapStart, w.startFiles)
}

func (w *world) add(c *content) *content {
	w.nextID++
	c.id = w.nextID
	w.contents = append(w.contents, c)

	return c
}

// finish registers the body of c once it has been built.
func (w *world) finish(c *content) *content {
	if len(c.body) > 0 {
		if _, dup := w.byBody[string(c.body)]; !dup {
			w.byBody[string(c.body)] = c
		}
	}

	return c
}

// markers: every rule-list, service and hash content carries a first and a
// last probe host derived from its id, so that a truncated or mixed document is
// distinguishable from every complete one.
func first(id int) string { return fmt.Sprintf("c%d-first.probe", id) }
func last(id int) string  { return fmt.Sprintf("c%d-last.probe", id) }

// newRL builds a rule-list content of exactly size bytes (at least ~50).
func (w *world) newRL(size int) *content {
	c := w.add(&content{kind: "rl"})
	f := "||" + first(c.id) + "^\n"
	l := "||" + last(c.id) + "^\n"
	b := &strings.Builder{}
	b.WriteString(f)
	c.nrules = 2
	rem := size - len(f) - len(l)
	for i := 0; rem >= 64; i++ {
		line := fmt.Sprintf("||c%d-f%d.probe^\n", c.id, i)
		b.WriteString(line)
		rem -= len(line)
		c.nrules++
	}
	if rem >= 2 {
		b.WriteString("!" + strings.Repeat("x", rem-2) + "\n")
	} else if rem == 1 {
		b.WriteString("\n")
	}
	b.WriteString(l)
	c.body = []byte(b.String())

	return w.finish(c)
}

func (w *world) newJunk(kind string, body string) *content {
	c := w.add(&content{kind: kind, body: []byte(body)})

	return w.finish(c)
}

var badKeys = []string{"", "bad key", "bad/key", "kéy", strings.Repeat("k", 129), "tab\tkey"}

// badKeysAt are invalid filter keys by the position they take once loadIndex
// has sorted the index by key: position p sorts after keyNames[p] and before
// keyNames[p+1] (0: before every valid key, len(keyNames)-1: after all of
// them).  Code that walks the sorted entries meets them at that place.
var badKeysAt = [][]string{
	{"", "BAD KEY", "A/b", "K\u00e9y", strings.Repeat("A", 129), "LIST A"},
	{"LISTA x", "LISTA/", "bad key", "k\u00e9y", strings.Repeat("k", 129), "LISTA\x7f"},
	{"lista x", "lista/x", "lista\tq", "listb ", "listb\u00e9"},
	{"listc!~\n", "listc/sub", "listc~ z", "listd/x", "listd "},
	{"zz/bad", "tab\tkey", "listd" + strings.Repeat("~", 124), strings.Repeat("z", 200), "liste\x7f"},
}

func init() {
	// The labels of the pools follow the documented rules for IDs (1 to 128
	// printable, non-blank ASCII bytes without a slash), not the code.
	idRule := func(k string) bool {
		if len(k) < 1 || len(k) > 128 {
			return false
		}
		for i := 0; i < len(k); i++ {
			if k[i] < '!' || k[i] > '~' || k[i] == '/' {
				return false
			}
		}

		return true
	}
	for _, k := range keyNames[1:] {
		if !idRule(k) {
			panic(fmt.Sprintf("keyNames: %q is not a valid id", k))
		}
	}
	for _, k := range reservedKeys {
		if !idRule(k) {
			panic(fmt.Sprintf("reservedKeys: %q is not a valid id", k))
		}
	}
	for _, pool := range badKeysAt {
		for _, k := range pool {
			if idRule(k) {
				panic(fmt.Sprintf("badKeysAt: %q is a valid id by the rules", k))
			}
		}
	}
	// The positions are what the pool is for: check them once.
	for p, pool := range badKeysAt {
		for _, k := range pool {
			if (p > 0 && !(keyNames[p] < k)) || (p+1 < len(keyNames) && !(k < keyNames[p+1])) {
				panic(fmt.Sprintf("badKeysAt[%d]: %q is out of place", p, k))
			}
		}
	}
}
var badURLs = []string{"", "ftp://example.org/list.txt", "http://", "/relative/path", "://bad", "file:///etc/passwd", "http://[::1"}

// newIdx builds an index content from entries.  shape: ok, notjson, trunc,
// wrongtype, nofilters.
func (w *world) newIdx(es []entry, shape string) *content {
	c := w.add(&content{kind: "idx", jsonOK: true, entries: es})
	b := &strings.Builder{}
	b.WriteString(`{"filters":[`)
	for i, e := range es {
		if i > 0 {
			b.WriteString(",")
		}
		if e.null {
			b.WriteString("null")

			continue
		}
		if e.raw != "" {
			b.WriteString(e.raw)

			continue
		}
		fmt.Fprintf(b, `{"filterKey":%s,"downloadUrl":%s,"x":%d}`, jsonQuote(e.keyStr), jsonQuote(e.urlStr), c.id)
	}
	b.WriteString(`]}`)
	body := b.String()
	switch shape {
	case "notjson":
		body = fmt.Sprintf("<html><body>captive portal %d</body></html>", c.id)
		c.jsonOK = false
	case "trunc":
		body = body[:len(body)/2]
		c.jsonOK = false
	case "wrongtype":
		body = fmt.Sprintf(`{"filters":{"filterKey":"lista","n":%d}}`, c.id)
		c.jsonOK = false
	case "nofilters":
		body = fmt.Sprintf(`{"version":%d}`, c.id)
		c.entries = nil
	}
	if !c.jsonOK {
		c.entries = nil
	}
	c.body = []byte(body)

	return w.finish(c)
}

// keyNum is the number the model knows a key string by: the index in
// keyNames for the valid keys, a number of its own above 100 for every other
// string.
func (w *world) keyNum(e entry) int {
	for k := 1; k < len(keyNames); k++ {
		if e.keyStr == keyNames[k] {
			return k
		}
	}
	if w.keyNums == nil {
		w.keyNums = map[string]int{}
	}
	n, ok := w.keyNums[e.keyStr]
	if !ok {
		n = 101 + len(w.keyNums)
		w.keyNums[e.keyStr] = n
	}

	return n
}

// reservedEntry is an entry whose key is a valid ID but the name of another
// file in the cache directory, with a healthy URL.
func (g *gen) reservedEntry(i int) entry {
	u := 1 + g.rng.IntN(6)

	return entry{keyStr: reservedKeys[i%len(reservedKeys)], reserved: true, urlStr: g.w.listURL(u), urlOk: true, url: u}
}

// jsonQuote is s as a JSON string literal.
func jsonQuote(s string) string {
	b, err := json.Marshal(s)
	hlib.Must(err)

	return string(b)
}

func (w *world) listURL(u int) string { return fmt.Sprintf("%s/u/%d", w.base, u) }

// newSvc builds a blocked-service index.  shape: ok, notjson, badid, empty,
// norules.
func (w *world) newSvc(shape string) *content {
	c := w.add(&content{kind: "svc", svcOK: true, svcJSON: true, svcEntries: []string{"o", "o"}})
	rules := fmt.Sprintf(`"||%s^","||c%d-mid.probe^","||%s^"`, first(c.id), c.id, last(c.id))
	body := fmt.Sprintf(`{"blocked_services":[{"id":"svc1","rules":[%s]},{"id":"svc2","rules":["||svc2-%d.probe^"]}]}`, rules, c.id)
	switch shape {
	case "notjson":
		body = fmt.Sprintf("<html>service portal %d</html>", c.id)
		c.svcOK, c.svcJSON, c.svcEntries = false, false, nil
	case "badid":
		body = fmt.Sprintf(`{"blocked_services":[{"id":"svc1","rules":[%s]},{"id":"bad id","rules":["||x%d.probe^"]}]}`, rules, c.id)
		c.svcOK, c.svcEntries = false, []string{"o", "b"}
	case "empty":
		body = fmt.Sprintf(`{"blocked_services":[],"v":%d}`, c.id)
		c.svcEmpty, c.svcEntries = true, nil
	case "null":
		// A null element after a valid one.
		body = fmt.Sprintf(`{"blocked_services":[{"id":"svc1","rules":[%s]},null],"v":%d}`, rules, c.id)
		c.svcOK, c.svcEntries = false, []string{"o", "n"}
	case "nullfirst":
		body = fmt.Sprintf(`{"blocked_services":[null,{"id":"svc1","rules":[%s]}],"v":%d}`, rules, c.id)
		c.svcOK, c.svcEntries = false, []string{"n", "o"}
	case "nullonly":
		body = fmt.Sprintf(`{"blocked_services":[null],"v":%d}`, c.id)
		c.svcOK, c.svcEntries = false, []string{"n"}
	case "badidnull":
		// An element with an invalid id before a null one.
		body = fmt.Sprintf(`{"blocked_services":[{"id":"bad id","rules":["||x%d.probe^"]},{"id":"svc1","rules":[%s]},null]}`, c.id, rules)
		c.svcOK, c.svcEntries = false, []string{"b", "o", "n"}
	case "norules":
		body = fmt.Sprintf(`{"blocked_services":[{"id":"svc1","rules":[%s]},{"id":"svc3","rules":[]}],"v":%d}`, rules, c.id)
	}
	c.body = []byte(body)

	return w.finish(c)
}

// newSvcFrom builds a blocked-service index from element tokens (o = a
// service that converts, the first of which is svc1 with the marker rules;
// b = a service with an invalid id; n = null).
func (w *world) newSvcFrom(tokens []string) *content {
	c := w.add(&content{kind: "svc", svcOK: true, svcJSON: true, svcEntries: tokens})
	parts := []string{}
	nOK := 0
	for i, t := range tokens {
		switch t {
		case "n":
			parts = append(parts, "null")
			c.svcOK = false
		case "b":
			parts = append(parts, fmt.Sprintf(`{"id":"bad id %d","rules":["||x%d.probe^"]}`, i, c.id))
			c.svcOK = false
		default:
			nOK++
			if nOK == 1 {
				parts = append(parts, fmt.Sprintf(`{"id":"svc1","rules":["||%s^","||%s^"]}`, first(c.id), last(c.id)))
			} else {
				parts = append(parts, fmt.Sprintf(`{"id":"svc%d","rules":["||svc%d-%d.probe^"]}`, nOK, nOK, c.id))
			}
		}
	}
	if nOK == 0 && c.svcOK {
		c.svcEmpty = true
	}
	c.body = []byte(fmt.Sprintf(`{"blocked_services":[%s],"v":%d}`, strings.Join(parts, ","), c.id))

	return w.finish(c)
}

// newHash builds a hash-prefix host list.  shape: ok, longline.
func (w *world) newHash(size int, shape string) *content {
	c := w.add(&content{kind: "hash", hashOK: true})
	b := &strings.Builder{}
	b.WriteString(first(c.id) + "\n")
	if shape == "longline" {
		b.WriteString(strings.Repeat("a", 70*1024) + ".probe\n")
		c.hashOK = false
	}
	for i := 0; b.Len() < size-40; i++ {
		fmt.Fprintf(b, "c%d-h%d.probe\n", c.id, i)
	}
	b.WriteString("# comment\n")
	b.WriteString(last(c.id) + "\n")
	c.body = []byte(b.String())

	return w.finish(c)
}

// roundSpec describes one refresh round.
type roundSpec struct {
	// extraFailed: a safe-search download of the round failed (wired
	// campaign), which makes the round fail legitimately.
	extraFailed bool
	restart     bool
	// maxes: the process restarts with other size limits (index, rule
	// lists, services); nil = unchanged.  Only looked at on a restart.
	maxes *[3]int
	idxFresh bool
	svcFresh bool
	fresh    map[int]bool
	idx      *plan
	svc      *plan
	urls     map[int]*plan
}

type caseSpec struct {
	// wired: the storage is built by the real builder of internal/cmd, with
	// the safe-search and hash-prefix filters in the same cache directory.
	wired      bool
	name       string
	rlMax      int
	idxMax     int
	svcMax     int
	svcEnabled bool
	timeouts   bool
	seedIdx    *content
	seedSvc    *content
	seedRL     map[int]*content
	rounds     []*roundSpec
}

// obs is what is observable after a round.
type obs struct {
	ok bool
	// panicked: the refresh did not return but panicked.
	panicked bool
	idxDisk string
	svcMem  string
	svcDisk string
	rlMem   map[int]string
	rlDisk  map[int]string
}

func (o *obs) String() string {
	keys := map[int]struct{}{}
	for k := range o.rlMem {
		keys[k] = struct{}{}
	}
	for k := range o.rlDisk {
		keys[k] = struct{}{}
	}
	ks := make([]int, 0, len(keys))
	for k := range keys {
		ks = append(ks, k)
	}
	sort.Ints(ks)
	parts := []string{}
	for _, k := range ks {
		parts = append(parts, fmt.Sprintf("%d:%s/%s", k, dash(o.rlMem[k]), dash(o.rlDisk[k])))
	}

	okStr := b2s(o.ok)
	if o.panicked {
		okStr = "p"
	}

	return fmt.Sprintf("ok=%s idx=%s svc=%s/%s rl=%s", okStr, dash(o.idxDisk), dash(o.svcMem), dash(o.svcDisk), strings.Join(parts, ","))
}

func dash(s string) string {
	if s == "" {
		return "-"
	}

	return s
}

func b2s(b bool) string {
	if b {
		return "1"
	}

	return "0"
}

func (w *world) newStorage(cs *caseSpec) *filterstorage.Default {
	idxURL, _ := url.Parse(w.base + "/idx")
	svcURL, _ := url.Parse(w.base + "/svc")
	to := longTimeout
	if cs.timeouts {
		to = fastTimeout
	}
	c := &filterstorage.Config{
		BaseLogger: slogutil.NewDiscardLogger(),
		Logger:     slogutil.NewDiscardLogger(),
		BlockedServices: &filterstorage.ConfigBlockedServices{
			IndexURL:            svcURL,
			IndexMaxSize:        datasize.ByteSize(cs.svcMax),
			IndexRefreshTimeout: to,
			IndexStaleness:      w.stale,
			ResultCacheCount:    10,
			ResultCacheEnabled:  true,
			Enabled:             cs.svcEnabled,
		},
		Custom:     &filterstorage.ConfigCustom{CacheCount: 10},
		HashPrefix: &filterstorage.ConfigHashPrefix{},
		RuleLists: &filterstorage.ConfigRuleLists{
			IndexURL:            idxURL,
			IndexMaxSize:        datasize.ByteSize(cs.idxMax),
			MaxSize:             datasize.ByteSize(cs.rlMax),
			IndexRefreshTimeout: to,
			IndexStaleness:      w.stale,
			RefreshTimeout:      to,
			Staleness:           w.stale,
			ResultCacheCount:    10,
			ResultCacheEnabled:  true,
		},
		SafeSearchGeneral: &filterstorage.ConfigSafeSearch{ID: filter.IDGeneralSafeSearch, Enabled: false},
		SafeSearchYouTube: &filterstorage.ConfigSafeSearch{ID: filter.IDYoutubeSafeSearch, Enabled: false},
		CacheManager:      agdcache.EmptyManager{},
		Clock:             agdtime.SystemClock{},
		ErrColl:           nopErrColl{},
		Metrics:           filter.EmptyMetrics{},
		CacheDir:          w.dir,
	}
	s, err := filterstorage.New(c)
	hlib.Must(err)

	return s
}

// diskID names the content of a cache file: "" when absent, the content id
// when it equals a complete known document, "corrupt" otherwise.
func (w *world) diskID(dir, name string) string {
	b, err := os.ReadFile(filepath.Join(dir, name))
	if err != nil {
		return ""
	}
	if len(b) == 0 {
		return w.emptyStr
	}
	if c, ok := w.byBody[string(b)]; ok {
		return strconv.Itoa(c.id)
	}

	return "corrupt"
}

// rlMemID names the content a rule list serves: the id of the one content
// whose first and last markers both match and whose rule count matches;
// "corrupt:..." otherwise.
func (w *world) rlMemID(s *filterstorage.Default, key string) string {
	found := []string{}
	for _, c := range w.contents {
		if c.kind != "rl" {
			continue
		}
		f := s.VerifC13RuleListMatch(key, first(c.id))
		l := s.VerifC13RuleListMatch(key, last(c.id))
		switch {
		case f && l:
			if n := s.VerifC13RuleListRulesCount(key); n != c.nrules {
				found = append(found, fmt.Sprintf("corrupt:rules=%d/%d", n, c.nrules))
			} else {
				found = append(found, strconv.Itoa(c.id))
			}
		case f || l:
			found = append(found, "corrupt:partial")
		}
	}
	if len(found) == 1 {
		return found[0]
	}
	if len(found) == 0 {
		return "corrupt:nomarker"
	}

	return "corrupt:mixed"
}

func (w *world) svcMemID(s *filterstorage.Default) string {
	found := []string{}
	for _, c := range w.contents {
		if c.kind != "svc" {
			continue
		}
		f := s.VerifC13ServiceMatch("svc1", first(c.id))
		l := s.VerifC13ServiceMatch("svc1", last(c.id))
		switch {
		case f && l:
			found = append(found, strconv.Itoa(c.id))
		case f || l:
			found = append(found, "corrupt:partial")
		}
	}
	if len(found) == 1 {
		return found[0]
	}
	if len(found) == 0 {
		return ""
	}

	return "corrupt:mixed"
}

func (w *world) observe(s *filterstorage.Default, ok bool) *obs {
	o := &obs{ok: ok, rlMem: map[int]string{}, rlDisk: map[int]string{}}
	o.idxDisk = w.diskID(w.dir, "filters.json")
	o.svcDisk = w.diskID(w.dir, "services.json")
	o.svcMem = w.svcMemID(s)
	inMem := map[string]bool{}
	for _, id := range s.VerifC13RuleListIDs() {
		inMem[id] = true
	}
	for k := 1; k < len(keyNames); k++ {
		if d := w.diskID(w.dir, keyNames[k]); d != "" {
			o.rlDisk[k] = d
		}
		if inMem[keyNames[k]] {
			o.rlMem[k] = w.rlMemID(s, keyNames[k])
			delete(inMem, keyNames[k])
		}
	}
	for id := range inMem {
		if contains(reservedKeys, id) {
			w.r.Violate("reserved-key-loaded-as-list", "a rule list named after another file of the cache directory is served: "+strconv.Quote(id), nil)

			continue
		}
		w.r.Violate("unexpected-list-id", "rule list with an id that no index named: "+strconv.Quote(id), nil)
	}

	return o
}

func setFresh(path string, fresh bool) {
	t := time.Now()
	if !fresh {
		t = t.Add(-2 * staleness)
	}
	_ = os.Chtimes(path, t, t)
}

func (w *world) usable(disk string, acceptStale, fresh bool) bool {
	return disk != "" && disk != w.emptyStr && (acceptStale || fresh)
}

// runCase runs one case on the real code, asks the model, and checks the
// property.
func runCase(r *hlib.Result, m *hlib.Model, w *world, cs *caseSpec, caseNo int) {
	dir, err := os.MkdirTemp("", "c13-case")
	hlib.Must(err)
	defer os.RemoveAll(dir)
	w.dir = filepath.Join(dir, "cache")
	w.snapRoot = filepath.Join(dir, "snaps")
	hlib.Must(os.MkdirAll(w.dir, 0o755))
	w.snaps, w.snapStart = nil, nil

	lines := []string{fmt.Sprintf("cfg %d %d %d %s 1 1 1 1", cs.idxMax, cs.rlMax, cs.svcMax, b2s(cs.svcEnabled))}
	declared := map[int]bool{}
	declare := func(c *content) {
		if c == nil || declared[c.id] {
			return
		}
		declared[c.id] = true
		lines = append(lines, fmt.Sprintf("len %d %d", c.id, len(c.body)))
		switch c.kind {
		case "idx":
			// As decoded and in document order: key strings and what
			// net/url makes of the URLs.  Sorting (compare), validation
			// (NewID, validate, reserved keys) are the model's business.
			parts := []string{}
			for _, e := range c.entries {
				if e.null {
					parts = append(parts, "n")

					continue
				}
				tag := "o"
				if e.raw != "" {
					// Wrong JSON type: what is left of the element.
					tag = "t"
				}
				parts = append(parts, fmt.Sprintf(tag+":%d:%s:%s:%s:%d", w.keyNum(e), hex.EncodeToString([]byte(e.keyStr)), b2s(e.urlStr == ""), b2s(e.urlOk), e.url))
			}
			lines = append(lines, strings.TrimSpace(fmt.Sprintf("rawdoc %d %s %s", c.id, b2s(c.jsonOK), strings.Join(parts, " "))))
		case "svc":
			lines = append(lines, strings.TrimSpace(fmt.Sprintf("svcdoc %d %s %s", c.id, b2s(c.svcJSON), strings.Join(c.svcEntries, " "))))
		}
	}
	// A cache file that holds something else than an index is not an index.
	// Seeds.
	if cs.seedIdx != nil {
		declare(cs.seedIdx)
		hlib.Must(os.WriteFile(filepath.Join(w.dir, "filters.json"), cs.seedIdx.body, 0o644))
		lines = append(lines, fmt.Sprintf("disk idx %d", cs.seedIdx.id))
	}
	if cs.seedSvc != nil {
		declare(cs.seedSvc)
		hlib.Must(os.WriteFile(filepath.Join(w.dir, "services.json"), cs.seedSvc.body, 0o644))
		lines = append(lines, fmt.Sprintf("disk svc %d", cs.seedSvc.id))
	}
	for _, k := range sortedInts(cs.seedRL) {
		c := cs.seedRL[k]
		declare(c)
		hlib.Must(os.WriteFile(filepath.Join(w.dir, keyNames[k]), c.body, 0o644))
		lines = append(lines, fmt.Sprintf("disk rl %d %d", k, c.id))
	}

	var s *filterstorage.Default
	var prev *obs
	type roundRec struct {
		lineIdx int
		real    string
	}
	recs := []roundRec{}
	canon := []string{cs.name}
	nontrivial := false
	sawFault, sawApplied := false, false
	discarded := false

	for ri, rs := range cs.rounds {
		acceptStale := rs.restart || s == nil
		if acceptStale {
			if s != nil {
				lines = append(lines, "restart")
			}
			if rs.maxes != nil {
				cs.idxMax, cs.rlMax, cs.svcMax = rs.maxes[0], rs.maxes[1], rs.maxes[2]
				lines = append(lines, fmt.Sprintf("max %d %d %d", cs.idxMax, cs.rlMax, cs.svcMax))
				r.Count("restart_with_other_size_limits")
			}
			s = w.newStorage(cs)
			r.Count("round_initial")
		} else {
			r.Count("round_refresh")
		}
		if prev == nil {
			prev = w.observe(s, true)
		} else if acceptStale {
			// Memory of the new process is empty.
			prev = &obs{ok: true, idxDisk: prev.idxDisk, svcDisk: prev.svcDisk, rlMem: map[int]string{}, rlDisk: prev.rlDisk}
		}

		// A chunked body of exactly the size limit is accepted or refused
		// depending on timing (see plan.faulty); after a change of the limits
		// an older document can happen to have that length: send it with
		// Content-Length framing instead.
		unchunk := func(p *plan, max int) {
			if p != nil && (p.kind == "okchunked" || p.kind == "okgzip") && len(p.c.body) == max {
				p.kind = "ok"
			}
		}
		unchunk(rs.idx, cs.idxMax)
		unchunk(rs.svc, cs.svcMax)
		for _, p := range rs.urls {
			unchunk(p, cs.rlMax)
		}
		// Install the plans.
		w.mu.Lock()
		w.plans = map[string]*plan{"/idx": rs.idx, "/svc": rs.svc}
		for u, p := range rs.urls {
			w.plans[fmt.Sprintf("/u/%d", u)] = p
		}
		w.reqs = map[string]int{}
		w.snapOn = true
		w.startFiles = nil
		if ents, rerr := os.ReadDir(w.dir); rerr == nil {
			for _, e := range ents {
				if !strings.HasPrefix(e.Name(), ".") {
					w.startFiles = append(w.startFiles, e.Name())
				}
			}
		}
		w.mu.Unlock()

		declare(rs.idx.c)
		declare(rs.svc.c)
		for _, u := range sortedInts(rs.urls) {
			declare(rs.urls[u].c)
			lines = append(lines, fmt.Sprintf("resp %d %s", u, rs.urls[u].token()))
		}
		setFresh(filepath.Join(w.dir, "filters.json"), rs.idxFresh)
		setFresh(filepath.Join(w.dir, "services.json"), rs.svcFresh)
		for k := 1; k < len(keyNames); k++ {
			setFresh(filepath.Join(w.dir, keyNames[k]), rs.fresh[k])
			lines = append(lines, fmt.Sprintf("fresh %d %s", k, b2s(rs.fresh[k])))
		}
		cancelURL := -1
		for _, u := range sortedInts(rs.urls) {
			if k := rs.urls[u].kind; k == "cancelctx" || k == "cancelbody" {
				cancelURL = u
			}
		}
		if cancelURL >= 0 {
			lines = append(lines, fmt.Sprintf("roundc %s %s %s %s %s %d", b2s(acceptStale), b2s(rs.idxFresh), rs.idx.token(), b2s(rs.svcFresh), rs.svc.token(), cancelURL))
		} else {
			lines = append(lines, fmt.Sprintf("round %s %s %s %s %s", b2s(acceptStale), b2s(rs.idxFresh), rs.idx.token(), b2s(rs.svcFresh), rs.svc.token()))
		}

		nTimeouts := 0
		for _, p := range w.plans {
			if p != nil && (p.kind == "timeouthdr" || p.kind == "timeoutbody") {
				nTimeouts++
			}
		}
		ctx, cancel := context.WithTimeout(context.Background(), 30*time.Second)
		w.mu.Lock()
		w.cancelRound = cancel
		w.mu.Unlock()
		start := time.Now()
		var rerr error
		panicked := false
		func() {
			defer func() {
				if p := recover(); p != nil {
					sig := "panic-in-refresh"
					if c := w.contentByID(w.diskID(w.dir, "services.json")); c != nil && contains(c.svcEntries, "n") {
						// The stored blocked-service index has a null element.
						sig += ":null-service-entry"
					}
					r.Violate(sig, fmt.Sprintf("case %d (%s) round %d: the refresh panicked instead of returning: %v; services.json now holds %q", caseNo, cs.name, ri, p, readShort(filepath.Join(w.dir, "services.json"))),
						map[string]any{"case": caseNo, "case_name": cs.name, "round": ri, "ops": lines, "services_document_offered": docOf(rs.svc)})
					rerr = fmt.Errorf("panic: %v", p)
					panicked = true
				}
			}()
			if acceptStale {
				rerr = s.RefreshInitial(ctx)
			} else {
				rerr = s.Refresh(ctx)
			}
		}()
		took := time.Since(start)
		cancel()
		if took > time.Second && os.Getenv("VERIF_C13_SLOW") != "" {
			fmt.Fprintf(os.Stderr, "slow round %d of %s: %v %s timeouts=%v err=%v\n", ri, cs.name, took, planSummary(rs, cs), cs.timeouts, rerr)
		}
		w.mu.Lock()
		w.snapOn = false
		reqs := w.reqs
		w.mu.Unlock()
		if (cs.timeouts && took > time.Duration(nTimeouts)*fastTimeout+fastTimeout*2/3) || (!cs.timeouts && took > longTimeout*3/5) {
			// Scheduling jitter may have turned a good download into a
			// time-out; the verdicts of this case are not trustworthy.
			discarded = true
			r.Count("case_discarded_slow")

			break
		}

		cur := w.observe(s, rerr == nil)
		cur.panicked = panicked
		recs = append(recs, roundRec{lineIdx: len(lines) - 1, real: cur.String()})
		canon = append(canon, fmt.Sprintf("%s|%s|%s|%v", lines[len(lines)-1], planSummary(rs, cs), cur.String(), rs.fresh))

		replay := map[string]any{"case": caseNo, "case_name": cs.name, "round": ri, "ops": lines, "before": prev.String(), "after": cur.String(), "plans": planSummary(rs, cs), "err": fmt.Sprint(rerr)}
		if rs.idx.c != nil && len(rs.idx.c.body) <= 4096 {
			// The ops name keys and URLs by number; the document shows the
			// actual strings (and with them the sort order of the entries).
			replay["index_document_offered"] = string(rs.idx.c.body)
		}
		f, a := oracle(r, w, cs, rs, acceptStale, prev, cur, reqs, replay)
		sawFault = sawFault || f
		sawApplied = sawApplied || a
		prev = cur
	}

	if !discarded {
		// Kill points: every snapshot must hold only complete documents, and a
		// process restarted on it must come up.
		w.checkSnapshots(r, cs, caseNo, lines)

		if os.Getenv("VERIF_C13_SLOW") != "" {
			_ = os.WriteFile(fmt.Sprintf("/tmp/c13lines-%d.txt", caseNo), []byte(strings.Join(lines, "\n")+"\n"), 0o644)
		}
		answers := m.Batch(lines)
		r.ModelOps += len(lines)
		for _, rec := range recs {
			if w.canonModel(answers[rec.lineIdx]) != rec.real {
				r.Disagree("c13-round", fmt.Sprintf("case %d (%s): model %q, implementation %q", caseNo, cs.name, answers[rec.lineIdx], rec.real),
					map[string]any{"case": caseNo, "ops": lines[:rec.lineIdx+1]})

				break
			}
		}
		for i, a := range answers {
			if a == "bad-op" {
				r.Disagree("c13-bad-op", "model rejected "+lines[i], nil)

				break
			}
		}
		nontrivial = sawFault && sawApplied
		r.Case(strings.Join(canon, ";"), nontrivial)
		r.Traces++
		if nontrivial {
			r.Sample(map[string]any{"campaign": "storage", "case": cs.name, "ops": tail(lines, 14), "last": recs[len(recs)-1].real}, 6)
		}
	}
}

// canonModel rewrites the model's answer where the real observation is
// coarser: a blocked-service index without services serves nothing, which is
// indistinguishable from no index at all.
func (w *world) canonModel(ans string) string {
	f := strings.Fields(ans)
	for i, t := range f {
		if rest, ok := strings.CutPrefix(t, "svc="); ok {
			mem, disk, _ := strings.Cut(rest, "/")
			if c := w.contentByID(mem); c != nil && c.svcEmpty {
				f[i] = "svc=-/" + disk
			}
		}
	}
	if len(f) == 4 && strings.HasPrefix(f[3], "rl=") {
		return strings.Join(f, " ")
	}

	return ans
}

func contains(ss []string, t string) bool {
	for _, x := range ss {
		if x == t {
			return true
		}
	}

	return false
}

func readShort(path string) string {
	b, err := os.ReadFile(path)
	if err != nil {
		return ""
	}
	if len(b) > 300 {
		b = b[:300]
	}

	return string(b)
}

func docOf(p *plan) string {
	if p == nil || p.c == nil || len(p.c.body) > 2048 {
		return ""
	}

	return string(p.c.body)
}

func tail(s []string, n int) []string {
	if len(s) <= n {
		return s
	}

	return s[len(s)-n:]
}

func sortedInts[V any](m map[int]V) []int {
	ks := make([]int, 0, len(m))
	for k := range m {
		ks = append(ks, k)
	}
	sort.Ints(ks)

	return ks
}

func planSummary(rs *roundSpec, cs *caseSpec) string {
	parts := []string{"idx=" + rs.idx.faultClass(cs.idxMax), "svc=" + rs.svc.faultClass(cs.svcMax)}
	for _, u := range sortedInts(rs.urls) {
		parts = append(parts, fmt.Sprintf("u%d=%s", u, rs.urls[u].faultClass(cs.rlMax)))
	}

	return strings.Join(parts, " ")
}

func (w *world) contentByID(id string) *content {
	n, err := strconv.Atoi(id)
	if err != nil {
		return nil
	}
	for _, c := range w.contents {
		if c.id == n {
			return c
		}
	}

	return nil
}

// oracle checks the property on one round of the real code: prev → cur under
// the round's plans.  It does not look at the model.  It reports whether a
// fault was exercised and whether a new content was applied.
func oracle(r *hlib.Result, w *world, cs *caseSpec, rs *roundSpec, acceptStale bool, prev, cur *obs, reqs map[string]int, replay map[string]any) (sawFault, sawApplied bool) {
	viol := func(sig, what string) {
		r.Violate(sig, what+fmt.Sprintf(" [before %s; after %s; plans %s]", prev, cur, planSummary(rs, cs)), replay)
	}
	// O1: completeness of everything served and stored.
	for k, v := range cur.rlMem {
		if strings.HasPrefix(v, "corrupt") {
			viol("corrupt-list-in-memory", fmt.Sprintf("rule list %s serves %s", keyNames[k], v))
		}
	}
	if strings.HasPrefix(cur.svcMem, "corrupt") {
		viol("corrupt-services-in-memory", "blocked services serve "+cur.svcMem)
	}
	for k, v := range cur.rlDisk {
		if v == "corrupt" || (v == w.emptyStr && prev.rlDisk[k] != w.emptyStr) {
			viol("corrupt-cache-file:rule-list", fmt.Sprintf("cache file of %s is neither the previous nor a complete offered document", keyNames[k]))
		}
	}
	if cur.idxDisk == "corrupt" || (cur.idxDisk == w.emptyStr && prev.idxDisk != w.emptyStr) {
		viol("corrupt-cache-file:index", "filters.json is neither the previous nor a complete offered document")
	}
	if cur.svcDisk == "corrupt" || (cur.svcDisk == w.emptyStr && prev.svcDisk != w.emptyStr) {
		viol("corrupt-cache-file:services", "services.json is neither the previous nor a complete offered document")
	}

	offered := func(p *plan, max int) string {
		if p == nil || p.faulty(max) {
			return ""
		}

		return strconv.Itoa(p.c.id)
	}

	// The index document that governs this round, if any: the file after the
	// round when the round got a usable index.
	idxRequested := reqs["/idx"] > 0
	idxFaulty := rs.idx.faulty(cs.idxMax)
	if idxRequested {
		r.Count("idx_dl:" + rs.idx.faultClass(cs.idxMax))
	} else {
		r.Count("idx_cached")
	}
	// O5: a faulty index download changes nothing anywhere.
	if idxRequested && idxFaulty {
		sawFault = true
		if prev.String() != (&obs{ok: prev.ok, panicked: prev.panicked, idxDisk: cur.idxDisk, svcMem: cur.svcMem, svcDisk: cur.svcDisk, rlMem: cur.rlMem, rlDisk: cur.rlDisk}).String() {
			viol("index-fault-changed-state:"+rs.idx.faultClass(cs.idxMax), "a failed index download changed what is served or stored")
		}
		if cur.ok {
			viol("index-fault-not-reported", "Refresh returned nil although the index download failed")
		}
	}
	// O7: the files of the cache directory belong to one list each: a
	// document offered for a rule list never lands in an index file, and no
	// list named after another file of the directory is loaded or stored.
	if c := w.contentByID(cur.idxDisk); c != nil && c.kind == "rl" && cur.idxDisk != prev.idxDisk {
		viol("cache-file-overwritten-by-other-list:index", "filters.json now holds the document of a rule list")
	}
	if c := w.contentByID(cur.svcDisk); c != nil && c.kind == "rl" && cur.svcDisk != prev.svcDisk {
		viol("cache-file-overwritten-by-other-list:services", "services.json now holds the document of a rule list")
	}
	for _, name := range reservedKeys {
		if name == "services.json" || name == "filters.json" || name == "." || name == ".." || cs.wired {
			// (In the wired campaign these files belong to their filters and
			// are checked there.)
			continue
		}
		if _, err := os.Stat(filepath.Join(w.dir, name)); err == nil {
			viol("cache-file-overwritten-by-other-list:"+name, "a rule list from the index was stored under the file name of the "+name+" filter")
		}
	}
	if cur.idxDisk != prev.idxDisk && cur.idxDisk != offered(rs.idx, cs.idxMax) {
		viol("cache-file-not-old-or-new:index", "filters.json is neither the previous nor the newly offered document")
	}

	// Services.
	svcRequested := reqs["/svc"] > 0
	if svcRequested {
		r.Count("svc_dl:" + rs.svc.faultClass(cs.svcMax))
		if rs.svc.faulty(cs.svcMax) {
			sawFault = true
			if cur.svcMem != prev.svcMem || cur.svcDisk != prev.svcDisk {
				viol("failed-services-changed:"+rs.svc.faultClass(cs.svcMax), "a failed blocked-service download changed what is served or stored")
			}
		}
	}
	if cur.svcDisk != prev.svcDisk && cur.svcDisk != offered(rs.svc, cs.svcMax) {
		viol("cache-file-not-old-or-new:services", "services.json is neither the previous nor the newly offered document")
	}
	if cur.svcMem != prev.svcMem {
		okNew := false
		for _, cand := range []string{prev.svcDisk, offered(rs.svc, cs.svcMax)} {
			c := w.contentByID(cand)
			if c != nil && c.kind == "svc" && c.svcOK && ((c.svcEmpty && cur.svcMem == "") || (!c.svcEmpty && cur.svcMem == cand)) {
				okNew = true
			}
		}
		if !okNew {
			viol("services-not-old-or-new", "blocked services serve neither the previous nor a newly offered complete document")
		} else {
			sawApplied = true
		}
	}

	// O6: a process (re)started on complete cache files comes up from them,
	// whatever the servers do and whatever size limits it is configured with.
	if acceptStale {
		idxC, svcC := w.contentByID(prev.idxDisk), w.contentByID(prev.svcDisk)
		idxGood := idxC != nil && idxC.kind == "idx" && idxC.jsonOK
		svcGood := !cs.svcEnabled || (svcC != nil && svcC.kind == "svc" && svcC.svcOK)
		// ... unless the start itself was cancelled from outside.
		cancelled := false
		for u, p := range rs.urls {
			if (p.kind == "cancelctx" || p.kind == "cancelbody") && reqs[fmt.Sprintf("/u/%d", u)] > 0 {
				cancelled = true
			}
		}
		if cancelled {
			r.Count("restart_cancelled")
		}
		if idxGood && svcGood && !cancelled {
			r.Count("restart_on_complete_cache")
			if len(idxC.body) > cs.idxMax || (cs.svcEnabled && len(svcC.body) > cs.svcMax) {
				r.Count("restart_on_complete_cache:index_longer_than_new_limit")
			}
			if !cur.ok {
				viol("restart-fails-on-complete-cache", "RefreshInitial failed although filters.json and services.json hold complete, valid documents")
			}
			if idxRequested || (cs.svcEnabled && reqs["/svc"] > 0) {
				viol("restart-ignores-complete-cache", "RefreshInitial downloaded an index although its cache file holds a complete document")
			}
		}
	}

	// Rule lists.  The governing index is the one in the file after the round.
	var gov *content
	if c := w.contentByID(cur.idxDisk); c != nil && c.kind == "idx" && c.jsonOK {
		gov = c
	}
	for k := 1; k < len(keyNames); k++ {
		var ents []entry
		if gov != nil {
			for _, e := range gov.entries {
				if e.keyOk && e.key == k {
					ents = append(ents, e)
				}
			}
		}
		nReq, allFaulty, offeredSet := 0, true, map[string]bool{}
		validURLs := map[int]bool{}
		hasInvalidEntry := false
		for _, e := range ents {
			if !e.urlOk {
				hasInvalidEntry = true

				continue
			}
			validURLs[e.url] = true
			p := rs.urls[e.url]
			nReq += reqs[fmt.Sprintf("/u/%d", e.url)]
			if p != nil && !p.faulty(cs.rlMax) {
				allFaulty = false
				offeredSet[strconv.Itoa(p.c.id)] = true
			}
		}
		pm, cm := prev.rlMem[k], cur.rlMem[k]
		pd, cd := prev.rlDisk[k], cur.rlDisk[k]

		// Disk: previous or a complete document offered this round.
		if cd != pd && !offeredSet[cd] {
			viol("cache-file-not-old-or-new:rule-list", fmt.Sprintf("cache file of %s is neither the previous nor the newly offered document", keyNames[k]))
		}
		// O2: a list whose every download attempt failed keeps memory and disk.
		if nReq > 0 && allFaulty && len(validURLs) > 0 && !w.usable(pd, acceptStale, rs.fresh[k]) {
			sawFault = true
			cls := []string{}
			for _, u := range sortedInts(validURLs) {
				if p := rs.urls[u]; p != nil {
					cls = append(cls, p.faultClass(cs.rlMax))
				}
			}
			r.Count("rl_fault:" + strings.Join(cls, "+"))
			if cm != pm || cd != pd {
				viol("failed-list-changed:"+strings.Join(cls, "+"), fmt.Sprintf("rule list %s changed although its download failed (memory %s→%s, file %s→%s)", keyNames[k], dash(pm), dash(cm), dash(pd), dash(cd)))
			}
		}
		// O3: memory is the previous, the previously stored, or the newly
		// offered complete document; a list may vanish only when a successful
		// round's index does not name it.
		if hasInvalidEntry && len(validURLs) == 0 && pm != "" && cm == pm {
			// Kept although the index offers nothing usable for it; count in
			// which neighbourhood of other invalid entries this was seen.
			r.Count("rl_kept_with_invalid_entry")
			before, after := false, false
			for _, e := range gov.entries {
				if !e.null && !e.keyOk {
					before = before || e.keyStr < keyNames[k]
					after = after || e.keyStr > keyNames[k]
				}
			}
			if before {
				r.Count("rl_kept_with_invalid_entry:invalid_key_sorted_before")
			}
			if after {
				r.Count("rl_kept_with_invalid_entry:invalid_key_sorted_after")
			}
		}
		switch {
		case cm == pm:
		case cm == "":
			switch {
			case !cur.ok:
				viol("list-dropped:round-failed", fmt.Sprintf("rule list %s vanished in a round that returned an error", keyNames[k]))
			case hasInvalidEntry && len(validURLs) == 0:
				viol("list-dropped:invalid-index-entry", fmt.Sprintf("rule list %s (serving %s) vanished because its index entry has an invalid URL; index in key order: %s", keyNames[k], pm, entriesInKeyOrder(gov)))
			case len(ents) > 0:
				viol("list-dropped:named-by-index", fmt.Sprintf("rule list %s vanished although the index names it; index in key order: %s", keyNames[k], entriesInKeyOrder(gov)))
			default:
				r.Count("rl_removed_by_index")
			}
		case cm == pd && w.usable(pd, acceptStale, rs.fresh[k]):
			sawApplied = true
			r.Count("rl_from_cache")
		case offeredSet[cm]:
			sawApplied = true
			r.Count("rl_downloaded")
		default:
			viol("list-not-old-or-new", fmt.Sprintf("rule list %s serves %s: neither previous (%s), cached (%s) nor newly offered", keyNames[k], cm, dash(pm), dash(pd)))
		}
		// O4: valid entries of the index are applied when the round succeeds.
		// Of several valid entries for one key (duplicates) the first one in
		// document order — which the stable sort by key keeps — decides: its
		// document when the download succeeds, else the previous list when
		// there is one; only when there is neither, the next entry is tried.
		if cur.ok && len(validURLs) >= 1 {
			sig := ""
			if len(validURLs) > 1 {
				sig = ":duplicate-keys"
				r.Count("o4_duplicate_keys_checked")
			}
			switch {
			case w.usable(pd, acceptStale, rs.fresh[k]):
				if cm != pd {
					viol("valid-entry-not-applied:cache"+sig, fmt.Sprintf("rule list %s does not serve its cached document %s", keyNames[k], pd))
				}
			default:
				for _, e := range ents {
					if !e.urlOk {
						continue
					}
					p := rs.urls[e.url]
					if p == nil || p.faulty(cs.rlMax) {
						if pm != "" {
							// Kept as the previous list (checked by O2/O3);
							// later duplicates are not looked at.
							break
						}

						continue
					}
					if cm != strconv.Itoa(p.c.id) || cd != cm {
						viol("valid-entry-not-applied:download"+sig, fmt.Sprintf("rule list %s does not serve the offered document %d (memory %s, file %s); index in key order: %s", keyNames[k], p.c.id, dash(cm), dash(cd), entriesInKeyOrder(gov)))
					}
					if gov != nil && len(gov.entries) > len(ents) {
						r.Count("applied_next_to_other_entries")
					}

					break
				}
			}
		}
	}
	// O8: a round that has a usable index — a JSON document whose "filters"
	// is an array, whatever its elements are — and a usable service index, and
	// that nobody cancelled, succeeds: invalid elements are skipped, they do
	// not make the round (and with it every valid entry) fail.
	if gov != nil && !cur.ok && !cur.panicked {
		svcFine := !cs.svcEnabled
		if c := w.contentByID(cur.svcDisk); c != nil && c.kind == "svc" && c.svcOK && !(svcRequested && rs.svc.faulty(cs.svcMax)) {
			svcFine = true
		}
		cancelled := (svcRequested && (rs.svc.kind == "cancelctx" || rs.svc.kind == "cancelbody")) || (idxRequested && idxFaulty) || rs.extraFailed
		for u, p := range rs.urls {
			if (p.kind == "cancelctx" || p.kind == "cancelbody") && reqs[fmt.Sprintf("/u/%d", u)] > 0 {
				cancelled = true
			}
		}
		if svcFine && !cancelled {
			cls := "other"
			for _, e := range gov.entries {
				if e.raw != "" {
					cls = "mistyped-entry"
				}
			}
			viol("index-refused:"+cls, "the round failed although the index is a JSON document with valid entries, the services are usable and nothing was cancelled: the valid entries were not applied; index in key order: "+entriesInKeyOrder(gov))
		}
	}
	// A round that reports an error must not have changed the rule lists.
	if !cur.ok {
		r.Count("round_err")
	} else {
		r.Count("round_ok")
	}

	return sawFault, sawApplied
}

// entriesInKeyOrder renders the entries of an index document in the order
// loadIndex puts them into (stable by key, null entries last), marking what
// is invalid about each.
func sortedEntries(in []entry) []entry {
	es := append([]entry(nil), in...)
	sort.SliceStable(es, func(i, j int) bool {
		if es[i].null || es[j].null {
			return !es[i].null && es[j].null
		}

		return es[i].keyStr < es[j].keyStr
	})

	return es
}

func entriesInKeyOrder(c *content) string {
	if c == nil {
		return "-"
	}
	es := sortedEntries(c.entries)
	parts := []string{}
	for _, e := range es {
		switch {
		case e.null:
			parts = append(parts, "null")
		case e.raw != "":
			parts = append(parts, "mistyped("+e.raw+")")
		case !e.keyOk:
			k := e.keyStr
			if len(k) > 16 {
				k = k[:16] + "..."
			}
			parts = append(parts, strconv.Quote(k)+"(invalid key)")
		case !e.urlOk:
			parts = append(parts, e.keyStr+"(invalid url "+strconv.Quote(e.urlStr)+")")
		default:
			parts = append(parts, e.keyStr)
		}
	}

	return strings.Join(parts, " ")
}

// checkSnapshots checks every kill-point snapshot of the case.
func (w *world) checkSnapshots(r *hlib.Result, cs *caseSpec, caseNo int, lines []string) {
	restarts := 0
	for i, dir := range w.snaps {
		r.Count("killpoint_snapshots")
		ents, err := os.ReadDir(dir)
		hlib.Must(err)
		garbageIdx := false
		if i < len(w.snapStart) {
			for _, name := range w.snapStart[i] {
				if _, serr := os.Stat(filepath.Join(dir, name)); serr != nil {
					r.Violate("killpoint-cache-file-missing:"+fileClass(name), fmt.Sprintf("case %d: a process killed at snapshot %d finds %s gone although it existed before the round", caseNo, i, name),
						map[string]any{"case": caseNo, "case_name": cs.name, "ops": lines, "snapshot": i, "file": name})
				}
			}
		}
		for _, e := range ents {
			name := e.Name()
			if strings.HasPrefix(name, ".") {
				r.Count("killpoint_tempfile_present")

				continue
			}
			id := w.diskID(dir, name)
			if id == "corrupt" {
				r.Violate("killpoint-incomplete-cache-file:"+fileClass(name), fmt.Sprintf("case %d: a process killed at snapshot %d leaves %s incomplete", caseNo, i, name),
					map[string]any{"case": caseNo, "case_name": cs.name, "ops": lines, "snapshot": i, "file": name})
			}
			if name == "filters.json" {
				if c := w.contentByID(id); c == nil || !c.jsonOK {
					garbageIdx = true
				}
			}
		}
		// Restart on a few snapshots: with every server answer healthy the
		// process must come up and serve complete lists.
		if restarts >= w.maxRestarts || i%3 != 0 {
			continue
		}
		restarts++
		save := w.dir
		w.dir = dir
		w.mu.Lock()
		w.plans = map[string]*plan{}
		w.mu.Unlock()
		idx := w.newIdx([]entry{{keyStr: keyNames[1], key: 1, keyOk: true, urlStr: w.listURL(1), urlOk: true, url: 1}}, "ok")
		w.mu.Lock()
		w.plans["/idx"] = &plan{kind: "ok", c: idx}
		w.plans["/svc"] = &plan{kind: "ok", c: w.newSvc("ok")}
		for u := 1; u <= 6; u++ {
			w.plans[fmt.Sprintf("/u/%d", u)] = &plan{kind: "ok", c: w.newRL(100)}
		}
		w.reqs = map[string]int{}
		w.mu.Unlock()
		s := w.newStorage(&caseSpec{rlMax: 4096, idxMax: 4096, svcMax: 4096, svcEnabled: cs.svcEnabled})
		ctx, cancel := context.WithTimeout(context.Background(), 20*time.Second)
		func() {
			defer func() {
				if p := recover(); p != nil {
					r.Violate("killpoint-restart-panics", fmt.Sprintf("case %d: RefreshInitial on kill-point snapshot %d panics: %v", caseNo, i, p),
						map[string]any{"case": caseNo, "case_name": cs.name, "ops": lines, "snapshot": i})
					err = fmt.Errorf("panic: %v", p)
				}
			}()
			err = s.RefreshInitial(ctx)
		}()
		cancel()
		if errors.Is(err, context.DeadlineExceeded) {
			// Every answer is healthy and every download is bounded by the
			// client time-out, so only a stalled machine gets here: the
			// verdict must not depend on that.  Start once more with a long
			// deadline; a real hang still fails.
			r.Count("restart_retried_after_stall")
			s = w.newStorage(&caseSpec{rlMax: 4096, idxMax: 4096, svcMax: 4096, svcEnabled: cs.svcEnabled})
			ctx, cancel = context.WithTimeout(context.Background(), 2*time.Minute)
			err = s.RefreshInitial(ctx)
			cancel()
		}
		o := w.observe(s, err == nil)
		switch {
		case err != nil && garbageIdx:
			// The stored index is a complete download that is not an index
			// document; see props/C13.json (partial).
			r.Count("restart_failed_on_complete_nonindex_document")
		case err != nil && svcGarbage(w, dir):
			r.Count("restart_failed_on_complete_nonservice_document")
		case err != nil:
			r.Violate("killpoint-restart-fails", fmt.Sprintf("case %d: RefreshInitial on kill-point snapshot %d fails: %v", caseNo, i, err),
				map[string]any{"case": caseNo, "case_name": cs.name, "ops": lines, "snapshot": i})
		default:
			r.Count("restart_ok")
			for k, v := range o.rlMem {
				if strings.HasPrefix(v, "corrupt") {
					r.Violate("killpoint-restart-serves-corrupt-list", fmt.Sprintf("case %d: after a restart on snapshot %d list %s serves %s", caseNo, i, keyNames[k], v),
						map[string]any{"case": caseNo, "case_name": cs.name, "ops": lines, "snapshot": i})
				}
			}
		}
		w.dir = save
	}
}

func svcGarbage(w *world, dir string) bool {
	id := w.diskID(dir, "services.json")
	if id == "" {
		return false
	}
	c := w.contentByID(id)

	return c == nil || c.kind != "svc" || !c.svcOK
}

func fileClass(name string) string {
	switch name {
	case "filters.json":
		return "index"
	case "services.json":
		return "services"
	case "hashes.txt":
		return "hash-list"
	default:
		return "rule-list"
	}
}

// ---- generators ----

var statuses = []int{201, 204, 206, 304, 400, 403, 404, 500, 503}

// faultKinds are the fault kinds of the statement (plus "body at the limit").
var faultKinds = []string{"connerr", "status", "empty", "oversize", "cutcl", "cutchunked", "cutgzip", "cancelctx", "cancelbody", "timeouthdr", "timeoutbody"}

// mkFault builds a faulty plan of the given kind around a complete content
// generator.
func (w *world) mkFault(rng *rand.Rand, kind string, max int, mk func(size int) *content, junk *content, empty *content) *plan {
	switch kind {
	case "connerr", "timeouthdr", "cancelctx":
		return &plan{kind: kind}
	case "status":
		c := junk
		if rng.IntN(2) == 0 {
			// A perfectly good document behind a bad status.
			c = mk(0)
		}

		return &plan{kind: "status", status: statuses[rng.IntN(len(statuses))], c: c}
	case "empty":
		k := "ok"
		if rng.IntN(2) == 0 {
			k = "okchunked"
		}

		return &plan{kind: k, c: empty}
	case "oversize":
		k := "ok"
		if rng.IntN(2) == 0 {
			k = "okchunked"
		}
		sizes := []int{max + 1, max + 2, max + 100, 3 * max}
		if rng.IntN(3) == 0 {
			// Small on the wire, over the limit once decoded.
			k = "okgzip"
		}

		return &plan{kind: k, c: mk(sizes[rng.IntN(len(sizes))])}
	default: // cutcl cutchunked timeoutbody
		c := mk(0)
		cut := rng.IntN(len(c.body))
		if rng.IntN(4) == 0 {
			cut = len(c.body) - 1
		}

		return &plan{kind: kind, c: c, cut: cut}
	}
}

type gen struct {
	w     *world
	rng   *rand.Rand
	cs    *caseSpec
	junk  *content
	empty *content
}

func (g *gen) rlSize(want int) int {
	if want > 0 {
		return want
	}
	switch g.rng.IntN(6) {
	case 0:
		return g.cs.rlMax - 1
	case 1:
		return g.cs.rlMax
	case 2:
		return 60
	default:
		return 60 + g.rng.IntN(g.cs.rlMax-60)
	}
}

func (g *gen) mkRL(size int) *content {
	if size == 0 {
		size = g.rlSize(0)
		if size >= g.cs.rlMax {
			size = g.cs.rlMax - 1
		}
	}

	return g.w.newRL(size)
}

func (g *gen) goodEntry(k, u int) entry {
	return entry{keyStr: keyNames[k], key: k, keyOk: true, urlStr: g.w.listURL(u), urlOk: true, url: u}
}

// badKeyEntry is an entry whose key is not a valid ID and that sorts at
// position pos (see badKeysAt).
func (g *gen) badKeyEntry(pos int) entry {
	pool := badKeysAt[pos]

	return entry{keyStr: pool[g.rng.IntN(len(pool))], urlStr: g.w.listURL(1 + g.rng.IntN(6))}
}

// badURLEntry is an entry with the valid key k and an invalid download URL.
func (g *gen) badURLEntry(k int) entry {
	return entry{keyStr: keyNames[k], key: k, keyOk: true, urlStr: badURLs[g.rng.IntN(len(badURLs))]}
}

// genEntriesDense builds a partially invalid index with SEVERAL invalid
// entries of different kinds at once: every key is independently absent,
// valid, named only by an invalid-URL entry, or named by both; invalid-key
// entries are placed at every sort position relative to the valid keys
// independently; null entries are sprinkled in.  Mistakes in the loops over
// the (sorted) index entries — leaving a loop early, skipping the first or
// last entry, handling only the first invalid entry — need such a document.
func (g *gen) genEntriesDense() (es []entry) {
	rng := g.rng
	for k := 1; k < len(keyNames); k++ {
		u := k
		if rng.IntN(8) == 0 {
			u = 1 + rng.IntN(6)
		}
		switch rng.IntN(6) {
		case 0:
		case 1, 2:
			es = append(es, g.goodEntry(k, u))
		case 3, 4:
			es = append(es, g.badURLEntry(k))
			g.w.r.Count("gen_key_only_invalid_url")
		default:
			es = append(es, g.goodEntry(k, u), g.badURLEntry(k))
		}
	}
	for pos := range badKeysAt {
		if rng.IntN(3) == 0 {
			es = append(es, g.badKeyEntry(pos))
			g.w.r.Count(fmt.Sprintf("gen_bad_key_at_sort_pos_%d", pos))
		}
	}
	for rng.IntN(3) == 0 {
		es = append(es, entry{null: true})
	}
	for rng.IntN(3) == 0 {
		es = append(es, g.reservedEntry(rng.IntN(len(reservedKeys))))
		g.w.r.Count("gen_reserved_key_entry")
	}
	for rng.IntN(3) == 0 {
		es = append(es, g.mistyped())
	}
	rng.Shuffle(len(es), func(i, j int) { es[i], es[j] = es[j], es[i] })

	return es
}

// mistyped is a random element of the wrong JSON type.
func (g *gen) mistyped() entry {
	kind := mistypedKinds[g.rng.IntN(len(mistypedKinds))]
	g.w.r.Count("gen_mistyped_entry:" + kind)

	return g.w.mistypedEntry(kind, 1+g.rng.IntN(len(keyNames)-1), 1+g.rng.IntN(6))
}

// genEntries builds the entries of an index document.
func (g *gen) genEntries() (es []entry, shape string) {
	rng := g.rng
	if rng.IntN(4) == 0 {
		g.w.r.Count("gen_index_dense_invalid")

		return g.genEntriesDense(), "ok"
	}
	for k := 1; k < len(keyNames); k++ {
		if rng.IntN(4) == 0 {
			continue
		}
		u := k
		if rng.IntN(8) == 0 {
			u = 1 + rng.IntN(6)
		}
		es = append(es, g.goodEntry(k, u))
	}
	// Invalid entries and duplicates.
	for rng.IntN(3) == 0 {
		switch rng.IntN(7) {
		case 6:
			es = append(es, g.mistyped())
		case 5:
			es = append(es, g.reservedEntry(rng.IntN(len(reservedKeys))))
			g.w.r.Count("gen_reserved_key_entry")
		case 0:
			es = append(es, entry{null: true})
		case 1:
			if rng.IntN(2) == 0 {
				es = append(es, g.badKeyEntry(rng.IntN(len(badKeysAt))))
			} else {
				es = append(es, entry{keyStr: badKeys[rng.IntN(len(badKeys))], urlStr: g.w.listURL(1 + rng.IntN(6))})
			}
		case 2:
			k := 1 + rng.IntN(len(keyNames)-1)
			es = append(es, entry{keyStr: keyNames[k], key: k, keyOk: true, urlStr: badURLs[rng.IntN(len(badURLs))]})
		case 3:
			// Replace the valid entry of a key by an invalid one.
			k := 1 + rng.IntN(len(keyNames)-1)
			out := es[:0:0]
			for _, e := range es {
				if e.key != k {
					out = append(out, e)
				}
			}
			es = append(out, entry{keyStr: keyNames[k], key: k, keyOk: true, urlStr: badURLs[rng.IntN(len(badURLs))]})
		default:
			k := 1 + rng.IntN(len(keyNames)-1)
			es = append(es, g.goodEntry(k, 1+rng.IntN(6)))
		}
	}
	rng.Shuffle(len(es), func(i, j int) { es[i], es[j] = es[j], es[i] })
	shape = "ok"
	switch rng.IntN(16) {
	case 0:
		shape = "notjson"
	case 1:
		shape = "trunc"
	case 2:
		shape = "wrongtype"
	case 3:
		shape = "nofilters"
	}

	return es, shape
}

func (g *gen) idxFault(kind string) *plan {
	mk := func(size int) *content {
		es, _ := g.genEntries()
		c := g.w.newIdx(es, "ok")
		if size > len(c.body) {
			// Pad with entries that are valid JSON so that the document is
			// complete and only too long.
			for len(c.body) < size {
				es = append(es, entry{keyStr: "pad" + strconv.Itoa(len(es)), urlStr: "http://pad.example/" + strings.Repeat("p", 40)})
				c2 := g.w.newIdx(es, "ok")
				c = c2
			}
		}

		return c
	}
	return g.w.mkFault(g.rng, kind, g.cs.idxMax, mk, g.junk, g.empty)
}

func (g *gen) svcFault(kind string) *plan {
	mk := func(size int) *content {
		c := g.w.newSvc("ok")
		if size > len(c.body) {
			c = g.w.add(&content{kind: "svc", svcOK: true, svcJSON: true, svcEntries: []string{"o"}})
			c.body = []byte(fmt.Sprintf(`{"blocked_services":[{"id":"svc1","rules":["||%s^","||%s^","%s"]}]}`, first(c.id), last(c.id), strings.Repeat("#", size)))
			g.w.finish(c)
		}

		return c
	}
	return g.w.mkFault(g.rng, kind, g.cs.svcMax, mk, g.junk, g.empty)
}

func (g *gen) rlFault(kind string) *plan {
	return g.w.mkFault(g.rng, kind, g.cs.rlMax, g.mkRL, g.junk, g.empty)
}

func (g *gen) pickFault() string {
	for {
		k := faultKinds[g.rng.IntN(len(faultKinds))]
		if (k == "timeouthdr" || k == "timeoutbody") && !g.cs.timeouts {
			continue
		}
		if k == "cancelctx" || k == "cancelbody" {
			// At most one per round: placed by randomCase itself.
			continue
		}

		return k
	}
}

func okKind(rng *rand.Rand) string {
	switch rng.IntN(6) {
	case 0, 1:
		return "okchunked"
	case 2:
		return "okgzip"
	}

	return "ok"
}

// svcShapes are the blocked-service index documents of the random campaign.
var svcShapes = []string{"ok", "ok", "ok", "ok", "ok", "ok", "notjson", "badid", "empty", "norules", "null", "nullfirst", "nullonly", "badidnull"}

// randomCase generates a random history.
func randomCase(w *world, rng *rand.Rand, no int) *caseSpec {
	cs := &caseSpec{name: fmt.Sprintf("random-%d", no), idxMax: 1500, svcMax: 1200, svcEnabled: rng.IntN(5) != 0}
	cs.rlMax = []int{200, 400, 1000}[rng.IntN(3)]
	cs.timeouts = rng.IntN(25) == 0
	init3 := [3]int{cs.idxMax, cs.rlMax, cs.svcMax}
	g := &gen{w: w, rng: rng, cs: cs}
	g.junk = w.newJunk("junk", fmt.Sprintf("<html>error page %d</html>", no))
	g.empty = w.newEmpty()

	// Seeds: cache files from an earlier life.
	if rng.IntN(4) == 0 {
		es, shape := g.genEntries()
		cs.seedIdx = w.newIdx(es, shape)
		cs.seedRL = map[int]*content{}
		for k := 1; k < len(keyNames); k++ {
			switch rng.IntN(4) {
			case 0:
				cs.seedRL[k] = g.mkRL(0)
			case 1:
				if rng.IntN(3) == 0 {
					cs.seedRL[k] = g.empty
				}
			}
		}
		if rng.IntN(2) == 0 {
			cs.seedSvc = w.newSvc([]string{"ok", "ok", "notjson", "empty", "null", "nullonly"}[rng.IntN(6)])
		}
	}

	faultP := []int{0, 15, 30, 50}[rng.IntN(4)]
	nRounds := 3 + rng.IntN(8)
	var curIdx, curSvc *content
	curRL := map[int]*content{}
	for i := 0; i < nRounds; i++ {
		rs := &roundSpec{fresh: map[int]bool{}, urls: map[int]*plan{}}
		rs.restart = i > 0 && rng.IntN(6) == 0
		if rs.restart && rng.IntN(2) == 0 {
			// The operator changed the size limits; files cached under the
			// old ones may be longer than the new ones allow to download.
			rs.maxes = &[3]int{[]int{1500, 300, 120}[rng.IntN(3)], []int{200, 400, 1000, 90}[rng.IntN(4)], []int{1200, 150}[rng.IntN(2)]}
			cs.idxMax, cs.rlMax, cs.svcMax = rs.maxes[0], rs.maxes[1], rs.maxes[2]
		}
		rs.idxFresh = rng.IntN(3) == 0
		rs.svcFresh = rng.IntN(3) == 0
		for k := 1; k < len(keyNames); k++ {
			rs.fresh[k] = rng.IntN(4) == 0
		}
		// Index.
		if curIdx == nil || rng.IntN(3) == 0 {
			es, shape := g.genEntries()
			curIdx = w.newIdx(es, shape)
		}
		if rng.IntN(100) < faultP {
			rs.idx = g.idxFault(g.pickFault())
		} else {
			rs.idx = &plan{kind: okKind(rng), c: curIdx}
		}
		// Services.
		if curSvc == nil || rng.IntN(3) == 0 {
			curSvc = w.newSvc(svcShapes[rng.IntN(len(svcShapes))])
		}
		if rng.IntN(100) < faultP {
			rs.svc = g.svcFault(g.pickFault())
		} else {
			rs.svc = &plan{kind: okKind(rng), c: curSvc}
		}
		// Lists.
		for u := 1; u <= 6; u++ {
			if curRL[u] == nil || rng.IntN(2) == 0 {
				curRL[u] = g.mkRL(0)
			}
			switch {
			case rng.IntN(100) < faultP:
				rs.urls[u] = g.rlFault(g.pickFault())
			case rng.IntN(12) == 0:
				// Exactly at the limit with Content-Length framing.
				rs.urls[u] = &plan{kind: "ok", c: g.w.newRL(cs.rlMax)}
			default:
				rs.urls[u] = &plan{kind: okKind(rng), c: curRL[u]}
			}
		}
		if rng.IntN(10) == 0 {
			// The context of the whole round is cancelled while one of the
			// downloads is in flight.
			ck := "cancelctx"
			if rng.IntN(2) == 0 {
				// ... in the middle of the body.
				ck = "cancelbody"
			}
			switch p := rng.IntN(8); {
			case p == 0:
				rs.idx = g.idxFault(ck)
			case p == 1:
				rs.svc = g.svcFault(ck)
			default:
				rs.urls[1+rng.IntN(6)] = g.rlFault(ck)
			}
			w.r.Count("gen_round_with_context_cancellation:" + ck)
			w.r.Count("gen_round_with_context_cancellation")
		}
		cs.rounds = append(cs.rounds, rs)
	}
	// The limits the first process starts with.
	cs.idxMax, cs.rlMax, cs.svcMax = init3[0], init3[1], init3[2]

	return cs
}

// gridCases enumerates every fault kind at every position (index, each list,
// services) in every round of a short history whose other downloads are all
// healthy and always stale.
func gridCases(w *world, rng *rand.Rand, nRounds int, withTimeouts bool, each func(*caseSpec)) {
	positions := []string{"idx", "u1", "u2", "u3", "svc"}
	for _, kind := range faultKinds {
		isTO := kind == "timeouthdr" || kind == "timeoutbody"
		if isTO && !withTimeouts {
			continue
		}
		for _, pos := range positions {
			for fr := 0; fr < nRounds; fr++ {
				cs := &caseSpec{name: fmt.Sprintf("grid-%s-%s-r%d", kind, pos, fr), idxMax: 1500, svcMax: 1200, rlMax: 400, svcEnabled: true, timeouts: isTO}
				g := &gen{w: w, rng: rng, cs: cs}
				g.junk = w.newJunk("junk", "<html>grid error page</html>")
				g.empty = w.newEmpty()
				es := []entry{g.goodEntry(1, 1), g.goodEntry(2, 2), g.goodEntry(3, 3)}
				for i := 0; i < nRounds; i++ {
					rs := &roundSpec{fresh: map[int]bool{}, urls: map[int]*plan{}}
					rs.idx = &plan{kind: "ok", c: w.newIdx(es, "ok")}
					rs.svc = &plan{kind: "ok", c: w.newSvc("ok")}
					for u := 1; u <= 3; u++ {
						rs.urls[u] = &plan{kind: okKind(rng), c: g.mkRL(0)}
					}
					if i == fr {
						switch pos {
						case "idx":
							rs.idx = g.idxFault(kind)
						case "svc":
							rs.svc = g.svcFault(kind)
						default:
							u := int(pos[1] - '0')
							rs.urls[u] = g.rlFault(kind)
						}
					}
					cs.rounds = append(cs.rounds, rs)
				}
				each(cs)
			}
		}
	}
}

// directedCases are fixed scenarios that are run on every check.
func directedCases(w *world, rng *rand.Rand, thorough bool, each func(*caseSpec)) {
	mk := func(name string) (*caseSpec, *gen) {
		cs := &caseSpec{name: name, idxMax: 1500, svcMax: 1200, rlMax: 400, svcEnabled: true}
		g := &gen{w: w, rng: rng, cs: cs}
		g.junk = w.newJunk("junk", "<html>directed error page</html>")
		g.empty = w.newEmpty()

		return cs, g
	}
	round := func(g *gen, es []entry, shape string) *roundSpec {
		rs := &roundSpec{fresh: map[int]bool{}, urls: map[int]*plan{}}
		rs.idx = &plan{kind: "ok", c: g.w.newIdx(es, shape)}
		rs.svc = &plan{kind: "ok", c: g.w.newSvc("ok")}
		for u := 1; u <= 6; u++ {
			rs.urls[u] = &plan{kind: "ok", c: g.mkRL(0)}
		}

		return rs
	}
	// An index entry of a served list turns invalid (every invalid-URL shape).
	for i, bad := range badURLs {
		cs, g := mk(fmt.Sprintf("directed-entry-turns-invalid-%d", i))
		good := []entry{g.goodEntry(1, 1), g.goodEntry(2, 2)}
		broken := []entry{g.goodEntry(1, 1), {keyStr: keyNames[2], key: 2, keyOk: true, urlStr: bad}}
		cs.rounds = []*roundSpec{round(g, good, "ok"), round(g, broken, "ok"), round(g, good, "ok")}
		each(cs)
	}
	// Keys that are valid IDs but the names of other files of the cache
	// directory, next to valid entries: the valid ones are applied, the other
	// files stay what they are, a restart comes up.
	for i, name := range reservedKeys {
		cs, g := mk("directed-reserved-key-" + name)
		es := []entry{g.goodEntry(1, 1), g.reservedEntry(i), g.goodEntry(3, 3)}
		r3 := round(g, es, "ok")
		r3.restart = true
		cs.rounds = []*roundSpec{round(g, es, "ok"), round(g, es, "ok"), r3}
		each(cs)
	}
	// Every document order of one partially invalid index (a valid entry, a
	// served list whose URL turned invalid, a reserved key, an invalid key, a
	// null): exhaustive over the 120 permutations in the thorough tier, every
	// fifth one otherwise.  The outcome must not depend on the order.
	{
		perm := []int{0, 1, 2, 3, 4}
		var perms [][]int
		var rec func(k int)
		rec = func(k int) {
			if k == len(perm) {
				perms = append(perms, append([]int(nil), perm...))

				return
			}
			for i := k; i < len(perm); i++ {
				perm[k], perm[i] = perm[i], perm[k]
				rec(k + 1)
				perm[k], perm[i] = perm[i], perm[k]
			}
		}
		rec(0)
		for pi, pm := range perms {
			if !thorough && pi%5 != 0 {
				continue
			}
			cs, g := mk(fmt.Sprintf("directed-document-order-%d", pi))
			good := []entry{g.goodEntry(2, 2), g.goodEntry(3, 3)}
			pool := []entry{g.goodEntry(2, 2), {keyStr: keyNames[3], key: 3, keyOk: true, urlStr: badURLs[pi%len(badURLs)]},
				g.reservedEntry(pi), g.badKeyEntry(pi % len(badKeysAt)), {null: true}}
			mixed := []entry{}
			for _, i := range pm {
				mixed = append(mixed, pool[i])
			}
			cs.rounds = []*roundSpec{round(g, good, "ok"), round(g, mixed, "ok")}
			each(cs)
			w.r.Count("directed_document_order")
		}
	}
	// An element of the wrong JSON type next to valid entries (every kind x
	// first, middle, last in the document): the index is a partially invalid
	// one, so the new documents of the valid entries are applied, a served
	// list whose entry is the broken one stays, and a restart on the stored
	// index comes up.
	for _, kind := range mistypedKinds {
		for pos := 0; pos < 3; pos++ {
			cs, g := mk(fmt.Sprintf("directed-mistyped-%s-pos%d", kind, pos))
			good := []entry{g.goodEntry(1, 1), g.goodEntry(2, 2), g.goodEntry(3, 3)}
			bad := w.mistypedEntry(kind, 2, 2)
			mixed := []entry{g.goodEntry(1, 4), g.goodEntry(3, 3)}
			mixed = append(mixed[:pos:pos], append([]entry{bad}, mixed[pos:]...)...)
			r3 := round(g, mixed, "ok")
			r3.restart = true
			cs.rounds = []*roundSpec{round(g, good, "ok"), round(g, mixed, "ok"), r3, round(g, good, "ok")}
			each(cs)
			w.r.Count("directed_mistyped_entry")
		}
	}
	// Invalid keys and null entries next to valid ones.
	for i, bad := range badKeys {
		cs, g := mk(fmt.Sprintf("directed-invalid-key-%d", i))
		es := []entry{{null: true}, {keyStr: bad, urlStr: w.listURL(4)}, g.goodEntry(1, 1), g.goodEntry(3, 3)}
		cs.rounds = []*roundSpec{round(g, es, "ok"), round(g, es, "ok")}
		each(cs)
	}
	// Several invalid entries at once: an invalid-key entry at every sort
	// position (or none) x every non-empty set of served lists whose entries
	// lose their URL, next to valid entries whose new documents must still be
	// applied; then the index recovers.
	for pos := -1; pos < len(badKeysAt); pos++ {
		for set := 1; set < 1<<(len(keyNames)-1); set++ {
			cs, g := mk(fmt.Sprintf("directed-multi-invalid-pos%d-set%x", pos, set))
			good, broken := []entry{}, []entry{}
			for k := 1; k < len(keyNames); k++ {
				good = append(good, g.goodEntry(k, k))
				if set&(1<<(k-1)) != 0 {
					broken = append(broken, entry{keyStr: keyNames[k], key: k, keyOk: true, urlStr: badURLs[(set+k+pos+1)%len(badURLs)]})
				} else {
					broken = append(broken, g.goodEntry(k, k))
				}
			}
			if pos >= 0 {
				pool := badKeysAt[pos]
				broken = append(broken, entry{keyStr: pool[set%len(pool)], urlStr: w.listURL(5)})
			}
			if set%3 == 0 {
				broken = append(broken, entry{null: true})
			}
			rng.Shuffle(len(broken), func(i, j int) { broken[i], broken[j] = broken[j], broken[i] })
			cs.rounds = []*roundSpec{round(g, good, "ok"), round(g, broken, "ok"), round(g, good, "ok")}
			each(cs)
		}
	}
	// Two invalid-key entries around the entries of served lists of which
	// one or two have an invalid URL.
	for p1 := 0; p1 < len(badKeysAt); p1++ {
		for p2 := p1; p2 < len(badKeysAt); p2++ {
			cs, g := mk(fmt.Sprintf("directed-two-invalid-keys-%d-%d", p1, p2))
			good := []entry{g.goodEntry(1, 1), g.goodEntry(2, 2), g.goodEntry(3, 3), g.goodEntry(4, 4)}
			b1, b2 := 1+(p1+p2)%4, 1+(p1*2+p2+1)%4
			broken := []entry{g.badKeyEntry(p1), g.badKeyEntry(p2)}
			for k := 1; k < len(keyNames); k++ {
				if k == b1 || k == b2 {
					broken = append(broken, g.badURLEntry(k))
				} else {
					broken = append(broken, g.goodEntry(k, k))
				}
			}
			rng.Shuffle(len(broken), func(i, j int) { broken[i], broken[j] = broken[j], broken[i] })
			cs.rounds = []*roundSpec{round(g, good, "ok"), round(g, broken, "ok")}
			each(cs)
		}
	}
	// A complete document that is not an index.
	for _, shape := range []string{"notjson", "trunc", "wrongtype", "nofilters"} {
		cs, g := mk("directed-index-" + shape)
		es := []entry{g.goodEntry(1, 1), g.goodEntry(2, 2)}
		cs.rounds = []*roundSpec{round(g, es, "ok"), round(g, es, shape), round(g, es, "ok")}
		cs.rounds[2].idxFresh = true
		each(cs)
	}
	// Duplicated keys: first one wins; a failing first one falls through.
	{
		cs, g := mk("directed-duplicates")
		es := []entry{g.goodEntry(1, 1), g.goodEntry(1, 2), g.goodEntry(2, 3), g.goodEntry(2, 4)}
		r0, r1 := round(g, es, "ok"), round(g, es, "ok")
		r0.urls[3] = g.rlFault("status")
		r1.urls[1] = g.rlFault("cutcl")
		cs.rounds = []*roundSpec{r0, r1}
		each(cs)
	}
	// Services fail after the lists were downloaded.
	for _, shape := range []string{"notjson", "badid", "null", "nullfirst", "nullonly", "badidnull"} {
		cs, g := mk("directed-services-" + shape)
		es := []entry{g.goodEntry(1, 1), g.goodEntry(2, 2)}
		r1 := round(g, es, "ok")
		r1.svc = &plan{kind: "ok", c: w.newSvc(shape)}
		r2 := round(g, es, "ok")
		r2.fresh = map[int]bool{1: true, 2: true}
		r2.idxFresh = true
		cs.rounds = []*roundSpec{round(g, es, "ok"), r1, r2}
		each(cs)
	}
	// A blocked-service index with a null element is stored (it is a complete
	// download), refused, and met again by the next process.
	for _, shape := range []string{"null", "nullfirst", "nullonly", "badidnull"} {
		cs, g := mk("directed-services-restart-on-" + shape)
		es := []entry{g.goodEntry(1, 1), g.goodEntry(2, 2)}
		r1 := round(g, es, "ok")
		r1.svc = &plan{kind: okKind(rng), c: w.newSvc(shape)}
		r2 := round(g, es, "ok")
		r2.restart = true
		cs.rounds = []*roundSpec{round(g, es, "ok"), r1, r2, round(g, es, "ok")}
		each(cs)
	}
	// Thorough: every blocked-service index of one to three elements over
	// {converts, invalid id, null}: offered to a running process, then met in
	// the cache file by the next one.
	if thorough {
		toks := []string{"o", "b", "n"}
		var seqs [][]string
		for n := 1; n <= 3; n++ {
			total := 1
			for i := 0; i < n; i++ {
				total *= 3
			}
			for x := 0; x < total; x++ {
				seq, y := []string{}, x
				for i := 0; i < n; i++ {
					seq = append(seq, toks[y%3])
					y /= 3
				}
				seqs = append(seqs, seq)
			}
		}
		for _, seq := range seqs {
			cs, g := mk("directed-services-elements-" + strings.Join(seq, ""))
			es := []entry{g.goodEntry(1, 1), g.goodEntry(2, 2)}
			r1 := round(g, es, "ok")
			r1.svc = &plan{kind: okKind(rng), c: w.newSvcFrom(seq)}
			r2 := round(g, es, "ok")
			r2.restart = true
			cs.rounds = []*roundSpec{round(g, es, "ok"), r1, r2, round(g, es, "ok")}
			each(cs)
		}
		w.r.Notes = append(w.r.Notes, "services: every blocked-service index of 1..3 elements over {converts, invalid id, null} (39) enumerated, each offered to a running process and then met by a restarted one")
	}
	// The next process is configured with smaller size limits than the cached
	// files have: it must come up from the complete files all the same, with
	// the servers down or up.
	for _, down := range []bool{true, false} {
		cs, g := mk(fmt.Sprintf("directed-restart-smaller-limits-down=%v", down))
		cs.rlMax = 1000
		es := []entry{g.goodEntry(1, 1), g.goodEntry(2, 2), g.goodEntry(3, 3)}
		r0 := round(g, es, "ok")
		for u := 1; u <= 3; u++ {
			r0.urls[u] = &plan{kind: okKind(rng), c: w.newRL(600 + 100*u)}
		}
		r1 := round(g, es, "ok")
		r1.restart = true
		r1.maxes = &[3]int{60, 90, 60}
		r1.fresh = map[int]bool{1: true}
		if down {
			r1.idx, r1.svc = &plan{kind: "connerr"}, &plan{kind: "connerr"}
			for u := range r1.urls {
				r1.urls[u] = &plan{kind: "connerr"}
			}
		}
		cs.rounds = []*roundSpec{r0, r1}
		each(cs)
	}
	// The context of the round is cancelled (the deadline of the refresh
	// worker expires) while list k is being downloaded: lists before it in key
	// order have been stored, nothing may be lost or swapped in half.
	for k := 1; k < len(keyNames); k++ {
		for vi, svcOn := range []bool{true, false, true} {
			cs, g := mk(fmt.Sprintf("directed-cancel-at-list-%d-svc=%v-%d", k, svcOn, vi))
			cs.svcEnabled = svcOn
			es := []entry{g.goodEntry(1, 1), g.goodEntry(2, 2), g.goodEntry(3, 3), g.goodEntry(4, 4)}
			if k%2 == 0 {
				es = append(es, g.badURLEntry(1+k%4), g.badKeyEntry(k))
			}
			rng.Shuffle(len(es), func(i, j int) { es[i], es[j] = es[j], es[i] })
			r1 := round(g, es, "ok")
			r1.urls[k] = &plan{kind: "cancelctx"}
			if vi == 2 {
				// In the middle of the body.
				r1.urls[k] = g.rlFault("cancelbody")
			}
			cs.rounds = []*roundSpec{round(g, es, "ok"), r1, round(g, es, "ok")}
			each(cs)
		}
	}
	// Body sizes around the limit, both framings.
	for _, d := range []int{-1, 0, 1} {
		for _, kind := range []string{"ok", "okchunked"} {
			if d == 0 && kind == "okchunked" {
				continue
			}
			cs, g := mk(fmt.Sprintf("directed-limit%+d-%s", d, kind))
			es := []entry{g.goodEntry(1, 1)}
			r1 := round(g, es, "ok")
			r1.urls[1] = &plan{kind: kind, c: w.newRL(cs.rlMax + d)}
			cs.rounds = []*roundSpec{round(g, es, "ok"), r1}
			each(cs)
		}
	}
}

func main() {
	if spec := os.Getenv("VERIF_C13_CHILD"); spec != "" {
		childMain(spec)

		return
	}
	o := hlib.ParseFlags()
	r := hlib.NewResult("C13", o)
	r.Rule = "storage: histories of refresh rounds of the real filterstorage.Default (rule-list index, four rule lists, " +
		"blocked-service index) against an HTTP fault injector per URL and round (connection reset, time-out before and " +
		"inside the body, nine non-200 statuses, empty body, body over and at the size limit in both framings, Content-Length " +
		"and chunked transfers cut short, invalid/duplicate/null index entries — also several at once: invalid keys at every " +
		"sort position relative to the valid keys x every set of served lists whose entry lost its URL —, documents that are not JSON); after every round " +
		"what each list serves (probe hosts + rule count) and the bytes of every cache file are compared with the model and " +
		"checked by the property oracle; cache directories are copied at request arrival and mid-body (kill points) and " +
		"restarted on; valid keys sit on the boundaries of filter.NewID (128 bytes, '!' and '~', two keys differing only in case), invalid pools next to them " +
		"(129 bytes, DEL, blank, slash, non-ASCII, reserved file names); the model gets every index as decoded, in document order, and validates and sorts it itself; " +
		"hash: the same for hashprefix.Filter; life: healthy downloads onto a failing disk (write(2) on the temporary file fails at the first, a middle, the last byte; rename(2) fails), then restart and a healing round, and groups of simultaneous refreshes of one storage and one hash filter under a reader of the cache directory; the injector also sends gzip-coded bodies (complete, truncated inside intact framing, over the limit once decoded); observer: a concurrent reader of the cache path during replacements of a 6 MiB list; a case is non-trivial when at least one download failed and at " +
		"least one new document was applied; distinct = distinct (plans, observations) histories"
	m := hlib.StartModel(o.Model, "C13")
	defer m.Close()

	w := &world{r: r, byBody: map[string]*content{}, stale: staleness, maxSnaps: 12, maxRestarts: 1}
	if o.Thorough() {
		w.maxSnaps, w.maxRestarts = 40, 3
	}
	w.srv = httptest.NewServer(http.HandlerFunc(w.handle))
	w.srv.Config.ErrorLog = log.New(io.Discard, "", 0)
	defer w.srv.Close()
	w.base = w.srv.URL

	caseNo := 0
	run := func(cs *caseSpec) {
		// Contents are per case: forget the old ones.
		caseNo++
		t := time.Now()
		runCase(r, m, w, cs, caseNo)
		if d := time.Since(t); d > 3*time.Second && os.Getenv("VERIF_C13_SLOW") != "" {
			fmt.Fprintf(os.Stderr, "slow case %d %s: %v\n", caseNo, cs.name, d)
		}
	}
	fresh := func() {
		w.contents = nil
		w.byBody = map[string]*content{}
		w.nextID = 0
	}
	each := func(cs *caseSpec) { run(cs); fresh() }

	if os.Getenv("VERIF_C13_ONLY") == "observer" {
		observerCampaign(o, r, w)
		r.Finish()

		return
	}
	if os.Getenv("VERIF_C13_ONLY") == "life" {
		lifeCampaign(o, r, m, w)
		r.Finish()

		return
	}
	if os.Getenv("VERIF_C13_ONLY") == "kill" {
		// Debugging aid: only the SIGKILL campaign.
		killCampaign(o, r, w)
		r.Finish()

		return
	}
	t0 := time.Now()
	phase := func(name string) {
		r.Notes = append(r.Notes, fmt.Sprintf("phase %s: %.1fs, %d cases so far", name, time.Since(t0).Seconds(), r.Evaluations))
		t0 = time.Now()
	}
	rng := o.Rand("directed")
	onlyRandom := os.Getenv("VERIF_C13_ONLY") == "random" // debugging aid: what the random campaign finds alone
	if !onlyRandom {
		directedCases(w, rng, o.Thorough(), each)
	}
	phase("directed")
	rng = o.Rand("grid")
	if onlyRandom {
	} else if o.Thorough() {
		gridCases(w, rng, 3, true, each)
		r.Exhaustive = true
		r.Notes = append(r.Notes, "grid: every fault kind (9) x every position (index, 3 lists, services) x every round of a 3-round history enumerated")
	} else {
		gridCases(w, rng, 2, false, each)
		r.Notes = append(r.Notes, "grid: every fault kind except time-outs (7, with the cancellation of the round's context) x every position (index, 3 lists, services) x every round of a 2-round history enumerated")
	}
	phase("grid")
	rng = o.Rand("storage")
	n := 220
	if o.Thorough() {
		n = 2000
	}
	for i := 0; i < n; i++ {
		cs := randomCase(w, rng, i)
		each(cs)
	}

	phase("random")
	hashCampaign(o, r, m, w)
	phase("wired")
	wiredCampaign(o, r, m, w)
	phase("hash")
	observerCampaign(o, r, w)
	phase("observer")
	lifeCampaign(o, r, m, w)
	phase("life")
	if o.Thorough() {
		killCampaign(o, r, w)
		phase("sigkill")
	}

	r.Finish()
}

// ---- hash-prefix filter ----

func hashCampaign(o *hlib.Opts, r *hlib.Result, m *hlib.Model, w *world) {
	rng := o.Rand("hash")
	n := 40
	if o.Thorough() {
		n = 300
	}
	for i := 0; i < n; i++ {
		w.contents = nil
		w.byBody = map[string]*content{}
		w.nextID = 0
		runHashCase(r, m, w, rng, i)
	}
}

// observerCampaign is the kill-point oracle for the instants no request marks:
// while a filter replaces a LARGE cache file round after round (healthy
// downloads and transfers cut short alternating), a concurrent reader opens
// and reads the cache path as fast as it can.  Whatever it reads is what a
// process killed at that instant would have left, so it must be one of the
// complete documents ever offered — never a truncated, empty or half-written
// file, and once the file exists it must not vanish.  With an atomic rename the
// reader cannot see anything else, whatever the timing; a replacement that
// truncates and rewrites the file in place, or removes it first, is seen with
// high probability because writing a file of this size takes as long as
// reading it.
func observerCampaign(o *hlib.Opts, r *hlib.Result, w *world) {
	rng := o.Rand("observer")
	rounds, size := 8, 6<<20
	if o.Thorough() {
		rounds = 40
	}
	w.contents, w.byBody, w.nextID = nil, map[string]*content{}, 0
	dir, err := os.MkdirTemp("", "c13-observer")
	hlib.Must(err)
	defer os.RemoveAll(dir)
	w.dir = filepath.Join(dir, "cache")
	hlib.Must(os.MkdirAll(w.dir, 0o755))
	w.snaps, w.snapStart, w.snapRoot = nil, nil, ""
	path := filepath.Join(w.dir, "hashes.txt")

	mkBig := func(no int) *content {
		c := w.add(&content{kind: "hash", hashOK: true})
		b := &strings.Builder{}
		b.Grow(size + 64)
		fmt.Fprintf(b, "%s\n", first(c.id))
		for i := 0; b.Len() < size+rng.IntN(4096); i++ {
			fmt.Fprintf(b, "h%d-%d.observer.example\n", no, i)
		}
		fmt.Fprintf(b, "%s\n", last(c.id))
		c.body = []byte(b.String())

		return w.finish(c)
	}
	var mu sync.Mutex
	complete := [][]byte{}
	stop := make(chan struct{})
	done := make(chan struct{})
	reads, bad := 0, ""
	go func() {
		defer close(done)
		seen := false
		for {
			select {
			case <-stop:
				return
			default:
			}
			b, err := os.ReadFile(path)
			reads++
			if err != nil {
				if seen && errors.Is(err, os.ErrNotExist) && bad == "" {
					bad = "the cache file vanished"
				}

				continue
			}
			seen = true
			mu.Lock()
			ok := false
			for _, c := range complete {
				if len(c) == len(b) && string(c) == string(b) {
					ok = true
				}
			}
			mu.Unlock()
			if !ok && bad == "" {
				bad = fmt.Sprintf("the cache file held %d bytes that equal no complete document ever offered", len(b))
			}
		}
	}()
	u, _ := url.Parse(w.base + "/hash")
	strg, err := hashprefix.NewStorage("")
	hlib.Must(err)
	f, err := hashprefix.NewFilter(&hashprefix.FilterConfig{
		Logger: slogutil.NewDiscardLogger(), CacheManager: agdcache.EmptyManager{}, Hashes: strg, URL: u,
		ErrColl: nopErrColl{}, Metrics: filter.EmptyMetrics{}, ID: filter.IDSafeBrowsing, CachePath: path,
		ReplacementHost: "repl.example", Staleness: w.stale, CacheTTL: time.Minute, RefreshTimeout: longTimeout,
		CacheCount: 10, MaxSize: datasize.ByteSize(4 * size),
	})
	hlib.Must(err)
	kinds := []string{}
	for i := 0; i < rounds; i++ {
		c := mkBig(i)
		pl := &plan{kind: "ok", c: c}
		switch {
		case i%4 == 1:
			pl.kind = "okchunked"
		case i%4 == 3:
			pl.kind, pl.cut = []string{"cutcl", "cutchunked"}[rng.IntN(2)], len(c.body)/2+rng.IntN(len(c.body)/4)
		}
		kinds = append(kinds, pl.kind)
		if !pl.faulty(4 * size) {
			mu.Lock()
			complete = append(complete, c.body)
			mu.Unlock()
		}
		w.mu.Lock()
		w.plans = map[string]*plan{"/hash": pl}
		w.reqs = map[string]int{}
		w.mu.Unlock()
		setFresh(path, false)
		ctx, cancel := context.WithTimeout(context.Background(), 4*longTimeout)
		err = f.Refresh(ctx)
		cancel()
		if (err == nil) == pl.faulty(4*size) {
			r.Violate("observer-round-verdict:"+pl.kind, fmt.Sprintf("observer round %d (%s): Refresh returned %v", i, pl.kind, err),
				map[string]any{"campaign": "observer", "round": i, "plans": kinds})
		}
		r.Count("observer_round:" + pl.kind)
	}
	close(stop)
	<-done
	r.Count("observer_reads_total")
	if reads < 2*rounds {
		r.Count("observer_too_few_reads")
	}
	r.Notes = append(r.Notes, fmt.Sprintf("observer: %d reads of the cache path during %d replacements of a %d MiB list", reads, rounds, size>>20))
	r.Case(fmt.Sprintf("observer %v", kinds), true)
	if bad != "" {
		r.Violate("observer-saw-incomplete-cache-file", "a reader of the cache path concurrent with the refreshes: "+bad,
			map[string]any{"campaign": "observer", "plans": kinds, "size": size, "how": "VERIF_C13_ONLY=observer re-runs only this campaign"})
	}
}

func newHashFilter(w *world, path string, strg *hashprefix.Storage, to time.Duration) *hashprefix.Filter {
	u, _ := url.Parse(w.base + "/hash")
	f, err := hashprefix.NewFilter(&hashprefix.FilterConfig{
		Logger:          slogutil.NewDiscardLogger(),
		CacheManager:    agdcache.EmptyManager{},
		Hashes:          strg,
		URL:             u,
		ErrColl:         nopErrColl{},
		Metrics:         filter.EmptyMetrics{},
		ID:              filter.IDSafeBrowsing,
		CachePath:       path,
		ReplacementHost: "repl.example",
		Staleness:       w.stale,
		CacheTTL:        time.Minute,
		RefreshTimeout:  to,
		CacheCount:      10,
		MaxSize:         datasize.ByteSize(hashMax),
	})
	hlib.Must(err)

	return f
}

func (w *world) hashMemID(strg *hashprefix.Storage) string {
	found := []string{}
	for _, c := range w.contents {
		if c.kind != "hash" {
			continue
		}
		f, l := strg.Matches(first(c.id)), strg.Matches(last(c.id))
		switch {
		case f && l:
			found = append(found, strconv.Itoa(c.id))
		case f || l:
			found = append(found, "corrupt:partial")
		}
	}
	if len(found) == 1 {
		return found[0]
	}
	if len(found) == 0 {
		return ""
	}

	return "corrupt:mixed"
}

func runHashCase(r *hlib.Result, m *hlib.Model, w *world, rng *rand.Rand, no int) {
	dir, err := os.MkdirTemp("", "c13-hash")
	hlib.Must(err)
	defer os.RemoveAll(dir)
	w.dir = dir
	w.snapRoot = filepath.Join(dir, "snaps")
	w.dir = filepath.Join(dir, "cache")
	hlib.Must(os.MkdirAll(w.dir, 0o755))
	w.snaps, w.snapStart, w.startFiles = nil, nil, nil
	path := filepath.Join(w.dir, "hashes.txt")
	timeouts := rng.IntN(10) == 0
	to := longTimeout
	if timeouts {
		to = fastTimeout
	}
	cs := &caseSpec{timeouts: timeouts}
	g := &gen{w: w, rng: rng, cs: cs}
	g.junk = w.newJunk("junk", "<html>hash error page</html>")
	g.empty = w.newEmpty()
	mk := func(size int) *content {
		if size == 0 {
			size = 100 + rng.IntN(3000)
		}

		return w.newHash(size, "ok")
	}

	lines := []string{"cfg 0 0 0 0 1 1"}
	declared := map[int]bool{}
	declare := func(c *content) {
		if c != nil && !declared[c.id] {
			declared[c.id] = true
			lines = append(lines, fmt.Sprintf("len %d %d", c.id, len(c.body)), fmt.Sprintf("hashok %d %s", c.id, b2s(c.hashOK)))
		}
	}
	strg, err := hashprefix.NewStorage("")
	hlib.Must(err)
	f := newHashFilter(w, path, strg, to)
	var cur *content
	pm, pd := "", ""
	type rec struct {
		idx  int
		real string
	}
	recs := []rec{}
	canon := []string{}
	sawFault, sawApplied := false, false
	nRounds := 3 + rng.IntN(7)
	for i := 0; i < nRounds; i++ {
		restart := i == 0 || rng.IntN(8) == 0
		if restart && i > 0 {
			strg, _ = hashprefix.NewStorage("")
			f = newHashFilter(w, path, strg, to)
			lines = append(lines, "hrestart")
			pm = ""
		}
		fresh := rng.IntN(4) == 0
		var p *plan
		switch {
		case rng.IntN(3) == 0:
			k := g.pickFault()
			p = w.mkFault(rng, k, hashMax, mk, g.junk, g.empty)
		case rng.IntN(10) == 0:
			p = &plan{kind: okKind(rng), c: w.newHash(80*1024, "longline")}
		default:
			if cur == nil || rng.IntN(2) == 0 {
				cur = mk(0)
			}
			p = &plan{kind: okKind(rng), c: cur}
		}
		declare(p.c)
		w.mu.Lock()
		w.plans = map[string]*plan{"/hash": p}
		w.reqs = map[string]int{}
		w.snapOn = true
		w.mu.Unlock()
		setFresh(path, fresh)
		lines = append(lines, fmt.Sprintf("hash %d %s %s %s", hashMax, b2s(restart), b2s(fresh), p.token()))
		ctx, cancel := context.WithTimeout(context.Background(), 30*time.Second)
		start := time.Now()
		var rerr error
		if restart {
			rerr = f.RefreshInitial(ctx)
		} else {
			rerr = f.Refresh(ctx)
		}
		took := time.Since(start)
		cancel()
		w.mu.Lock()
		w.snapOn = false
		requested := w.reqs["/hash"] > 0
		w.mu.Unlock()
		if timeouts && took > fastTimeout+fastTimeout*2/3 {
			r.Count("case_discarded_slow")

			return
		}
		cm, cd := w.hashMemID(strg), w.diskID(w.dir, "hashes.txt")
		real := fmt.Sprintf("ok=%s mem=%s disk=%s", b2s(rerr == nil), dash(cm), dash(cd))
		recs = append(recs, rec{idx: len(lines) - 1, real: real})
		canon = append(canon, lines[len(lines)-1]+"|"+p.faultClass(hashMax)+"|"+real)

		replay := map[string]any{"case_name": fmt.Sprintf("hash-%d", no), "ops": lines, "before": pm + "/" + pd, "after": real}
		viol := func(sig, what string) {
			r.Violate(sig, fmt.Sprintf("%s [before mem=%s disk=%s; after %s; plan %s]", what, dash(pm), dash(pd), real, p.faultClass(hashMax)), replay)
		}
		faulty := p.faulty(hashMax)
		offered := ""
		if !faulty {
			offered = strconv.Itoa(p.c.id)
		}
		if strings.HasPrefix(cm, "corrupt") {
			viol("corrupt-hash-list-in-memory", "hash filter serves "+cm)
		}
		if cd == "corrupt" || (cd == w.emptyStr && pd != w.emptyStr) {
			viol("corrupt-cache-file:hash-list", "hash cache file is neither the previous nor a complete offered document")
		}
		if requested {
			r.Count("hash_dl:" + p.faultClass(hashMax))
		} else {
			r.Count("hash_cached")
		}
		if requested && faulty {
			sawFault = true
			if cm != pm || cd != pd {
				viol("failed-hash-list-changed:"+p.faultClass(hashMax), "the hash list changed although its download failed")
			}
			if rerr == nil {
				viol("hash-fault-not-reported", "Refresh returned nil although the download failed")
			}
		}
		if cd != pd && cd != offered {
			viol("cache-file-not-old-or-new:hash-list", "hash cache file is neither the previous nor the newly offered document")
		}
		if cm != pm {
			if (cm == offered && requested) || (cm == pd && w.usable(pd, restart, fresh)) {
				sawApplied = true
			} else {
				viol("hash-list-not-old-or-new", "hash filter serves neither the previous, the cached nor the newly offered document")
			}
		}
		if rerr == nil && requested && !faulty && p.c.hashOK && (cm != offered || cd != offered) {
			viol("hash-download-not-applied", "a complete valid hash list was downloaded but is not served")
		}
		pm, pd = cm, cd
	}
	// Kill points.
	for i, sd := range w.snaps {
		r.Count("killpoint_snapshots")
		if id := w.diskID(sd, "hashes.txt"); id == "corrupt" {
			r.Violate("killpoint-incomplete-cache-file:hash-list", fmt.Sprintf("hash case %d: a process killed at snapshot %d leaves the hash list incomplete", no, i),
				map[string]any{"case_name": fmt.Sprintf("hash-%d", no), "ops": lines, "snapshot": i})
		}
	}
	answers := m.Batch(lines)
	r.ModelOps += len(lines)
	for _, rc := range recs {
		if answers[rc.idx] != rc.real {
			r.Disagree("c13-hash-round", fmt.Sprintf("hash case %d: model %q, implementation %q", no, answers[rc.idx], rc.real), map[string]any{"ops": lines[:rc.idx+1]})

			break
		}
	}
	r.Case("hash;"+strings.Join(canon, ";"), sawFault && sawApplied)
	r.Traces++
	if sawFault && sawApplied {
		r.Sample(map[string]any{"campaign": "hash", "ops": tail(lines, 8), "last": recs[len(recs)-1].real}, 9)
	}
}
