package main

import (
	"context"
	"fmt"
	"io"
	"log"
	"math/rand/v2"
	"net/http"
	"net/http/httptest"
	"os"
	"os/signal"
	"path/filepath"
	"sort"
	"strings"
	"sync"
	"syscall"
	"time"

	"github.com/AdguardTeam/AdGuardDNS/internal/filter/hashprefix"
	"github.com/AdguardTeam/AdGuardDNS/verifh/hlib"
)

// ---- file-system faults and concurrent rounds (fifth deepening) ----
//
// Two classes of runs that the storage campaigns do not contain:
//
//   - fsfault: the download is healthy, but the disk is not — the write into
//     the temporary file fails part-way (EFBIG through RLIMIT_FSIZE, which is
//     what a full disk or a quota looks like to write(2)).  The statement
//     demands the same as for a failed download: list and cache file stay.
//
//   - concurrent: two refresh rounds of the same storage (or hash filter) run
//     at the same time — the periodic agdservice.RefreshWorker and a refresh
//     asked for through the debug API (websvc, builder.debugRefrs) are not
//     serialised by anything —, with cut transfers among them.  Every cache
//     file and every served list must at every instant be one complete
//     document that a server offered.

// withFileSizeLimit runs f with the soft RLIMIT_FSIZE of the process set to
// limit bytes.  SIGXFSZ is ignored for the duration, so that write(2) returns
// EFBIG.  It returns false when the limit cannot be set.
func withFileSizeLimit(limit uint64, f func()) (ok bool) {
	var old syscall.Rlimit
	if err := syscall.Getrlimit(syscall.RLIMIT_FSIZE, &old); err != nil {
		return false
	}
	signal.Ignore(syscall.SIGXFSZ)
	lim := old
	lim.Cur = limit
	if err := syscall.Setrlimit(syscall.RLIMIT_FSIZE, &lim); err != nil {
		return false
	}
	defer func() { _ = syscall.Setrlimit(syscall.RLIMIT_FSIZE, &old) }()
	f()

	return true
}

// tempFilesIn counts the files a refresh left in dir whose names are those of
// renameio's temporary files.
func tempFilesIn(dir string) (n int) {
	ents, _ := os.ReadDir(dir)
	for _, e := range ents {
		if strings.HasPrefix(e.Name(), ".") {
			n++
		}
	}

	return n
}

// fsOutcome is what one fsfault case observed, in the model's words.
type fsOutcome struct {
	name          string
	fault, healed string
}

func fsFaultCampaign(o *hlib.Opts, r *hlib.Result, m *hlib.Model, w *world) {
	outs := []*fsOutcome{}
	defer func() {
		// Correspondence with the small-step model of the replacement: a
		// failed Write leaves the cache path alone and the temporary file is
		// removed; the healthy download afterwards replaces the file.
		lines := []string{}
		for range outs {
			lines = append(lines, "fsf write 1 0 1 1", "fsf none 1 0 0 1")
		}
		if len(lines) == 0 {
			return
		}
		ans := m.Batch(lines)
		for i, oc := range outs {
			if ans[2*i] != oc.fault || ans[2*i+1] != oc.healed {
				r.Disagree("fsfault-model", fmt.Sprintf("fsfault %s: real [%s; %s] model [%s; %s]", oc.name, oc.fault, oc.healed, ans[2*i], ans[2*i+1]),
					map[string]any{"campaign": "fsfault", "case": oc.name})
			}
		}
	}()
	rng := o.Rand("fsfault")
	reps := 1
	if o.Thorough() {
		reps = 6
	}
	for rep := 0; rep < reps; rep++ {
		for _, target := range []string{"idx", "u1", "u2", "u3", "svc", "hash"} {
			for _, where := range []string{"first-byte", "middle", "last-byte"} {
				if oc := runFsFaultCase(r, w, rng, target, where); oc != nil {
					outs = append(outs, oc)
				}
			}
		}
	}
}

func runFsFaultCase(r *hlib.Result, w *world, rng *rand.Rand, target, where string) (oc *fsOutcome) {
	w.contents, w.byBody, w.nextID = nil, map[string]*content{}, 0
	dir, err := os.MkdirTemp("", "c13-fsfault")
	hlib.Must(err)
	defer os.RemoveAll(dir)
	w.dir = filepath.Join(dir, "cache")
	tmp := filepath.Join(dir, "tmp")
	hlib.Must(os.MkdirAll(w.dir, 0o755))
	hlib.Must(os.MkdirAll(tmp, 0o755))
	oldTmp, hadTmp := os.LookupEnv("TMPDIR")
	// renameio asks os.TempDir() at every download: the temporary files of
	// this case are in a directory of its own, where leftovers can be counted.
	hlib.Must(os.Setenv("TMPDIR", tmp))
	defer func() {
		if hadTmp {
			_ = os.Setenv("TMPDIR", oldTmp)
		} else {
			_ = os.Unsetenv("TMPDIR")
		}
	}()
	w.snapOn, w.snaps, w.snapStart, w.snapRoot = false, nil, nil, ""

	cs := &caseSpec{name: "fsfault-" + target + "-" + where, rlMax: 1 << 20, idxMax: 1 << 20, svcMax: 1 << 20, svcEnabled: true}
	g := &gen{w: w, rng: rng, cs: cs}
	es := []entry{g.goodEntry(1, 1), g.goodEntry(2, 2), g.goodEntry(3, 3)}
	hashPath := filepath.Join(w.dir, "hashes.txt")
	files := map[string]string{"idx": "filters.json", "svc": "services.json", "u1": keyNames[1], "u2": keyNames[2], "u3": keyNames[3], "hash": "hashes.txt"}
	paths := map[string]string{"idx": "/idx", "svc": "/svc", "u1": "/u/1", "u2": "/u/2", "u3": "/u/3", "hash": "/hash"}
	mkAll := func() map[string]*plan {
		return map[string]*plan{
			"/idx": {kind: "ok", c: w.newIdx(es, "ok")}, "/svc": {kind: okKind(rng), c: w.newSvc("ok")},
			"/u/1": {kind: okKind(rng), c: w.newRL(600 + rng.IntN(3000))}, "/u/2": {kind: okKind(rng), c: w.newRL(600 + rng.IntN(3000))},
			"/u/3": {kind: okKind(rng), c: w.newRL(600 + rng.IntN(3000))}, "/hash": {kind: okKind(rng), c: w.newHash(2000+rng.IntN(3000), "ok")},
		}
	}
	install := func(pl map[string]*plan) {
		w.mu.Lock()
		w.plans, w.reqs = pl, map[string]int{}
		w.mu.Unlock()
	}
	strg, err := hashprefix.NewStorage("")
	hlib.Must(err)
	s := w.newStorage(cs)
	hf := newHashFilter(w, hashPath, strg, longTimeout)
	ctx := context.Background()
	state := func(ok bool) string {
		return w.observe(s, ok).String() + " hash=" + dash(w.hashMemID(strg)) + "/" + dash(w.diskID(w.dir, "hashes.txt"))
	}
	replay := map[string]any{"campaign": "fsfault", "target": target, "where": where, "how": "VERIF_C13_ONLY=life re-runs only the fsfault and concurrent campaigns"}

	// Round 0: everything healthy.
	install(mkAll())
	err0 := s.RefreshInitial(ctx)
	if err0 == nil {
		err0 = hf.RefreshInitial(ctx)
	}
	if err0 != nil {
		r.Violate("fsfault-setup", "healthy first round fails: "+err0.Error(), replay)

		return nil
	}
	before := state(true)
	beforeFile, _ := os.ReadFile(filepath.Join(w.dir, files[target]))

	// Round 1: new healthy documents everywhere; only the target's cache file
	// is stale, and its temporary file cannot grow beyond limit bytes.
	pl := mkAll()
	install(pl)
	for k, f := range files {
		setFresh(filepath.Join(w.dir, f), k != target)
	}
	body := pl[paths[target]].c.body
	var limit uint64
	switch where {
	case "first-byte":
		limit = 0
	case "middle":
		limit = uint64(1 + rng.IntN(len(body)-2))
	default:
		limit = uint64(len(body) - 1)
	}
	replay["limit"], replay["size"] = limit, len(body)
	var errS, errH error
	if !withFileSizeLimit(limit, func() {
		errS = s.Refresh(ctx)
		errH = hf.Refresh(ctx)
	}) {
		r.Count("fsfault_rlimit_unavailable")

		return nil
	}
	w.mu.Lock()
	asked := w.reqs[paths[target]]
	w.mu.Unlock()
	after := state(errS == nil)
	r.Count("fsfault:" + target + ":" + where)
	if asked == 0 {
		r.Violate("fsfault-no-download:"+target, "the stale list was not downloaded: "+after, replay)
	}
	// O-F1: nothing changes — neither what any list serves nor any cache
	// file — and the failure is reported where the statement's other faults
	// are: index and services fail the round, a hash list its refresh, a rule
	// list keeps its previous list in a round that succeeds.
	norm := func(s string) string { return s[strings.Index(s, " "):] }
	if norm(after) != norm(before) {
		r.Violate("fsfault-changed-state:"+fileClass(files[target]),
			fmt.Sprintf("the write of the temporary file of %s failed after %d of %d bytes (file size limit): before [%s] after [%s]", target, limit, len(body), before, after), replay)
	}
	switch target {
	case "idx", "svc":
		if errS == nil {
			r.Violate("fsfault-not-reported:"+target, "the round reports success although the document could not be stored: "+after, replay)
		}
	case "hash":
		if errH == nil {
			r.Violate("fsfault-not-reported:hash", "the hash refresh reports success although the document could not be stored", replay)
		}
	default:
		if errS != nil {
			r.Violate("fsfault-round-failed:rule-list", "a rule list that cannot be stored fails the whole round: "+errS.Error(), replay)
		}
	}
	oc = &fsOutcome{name: target + "-" + where, fault: "path=old tmp=none"}
	if w.diskID(w.dir, files[target]) != w.diskIDBytes(beforeFile) {
		oc.fault = "path=other tmp=none"
	}
	if n := tempFilesIn(tmp) + tempFilesIn(w.dir); n > 0 {
		// Not demanded by the statement; counted, and compared with the model.
		r.Count("fsfault_tempfile_left")
		oc.fault = strings.Replace(oc.fault, "tmp=none", "tmp=left", 1)
	}

	// A restart on this directory, every server unreachable, serves what was
	// served before.
	install(map[string]*plan{})
	strg2, err := hashprefix.NewStorage("")
	hlib.Must(err)
	s2 := w.newStorage(cs)
	hf2 := newHashFilter(w, hashPath, strg2, longTimeout)
	errR := s2.RefreshInitial(ctx)
	if errR == nil {
		errR = hf2.RefreshInitial(ctx)
	}
	rst := w.observe(s2, errR == nil).String() + " hash=" + dash(w.hashMemID(strg2)) + "/" + dash(w.diskID(w.dir, "hashes.txt"))
	if errR != nil || norm(rst) != norm(before) {
		r.Violate("fsfault-restart:"+fileClass(files[target]), fmt.Sprintf("restart after the failed write (err %v): before [%s] restart [%s]", errR, before, rst), replay)
	}

	// Round 2: the disk has room again: the list recovers with the document
	// now offered.
	pl2 := mkAll()
	install(pl2)
	for _, f := range files {
		setFresh(filepath.Join(w.dir, f), false)
	}
	errS = s.Refresh(ctx)
	errH = hf.Refresh(ctx)
	final := state(errS == nil)
	want := fmt.Sprintf("%d", pl2[paths[target]].c.id)
	var got, gotDisk string
	fo := w.observe(s, true)
	switch target {
	case "idx":
		got, gotDisk = fo.idxDisk, fo.idxDisk
	case "svc":
		got, gotDisk = fo.svcMem, fo.svcDisk
	case "hash":
		got, gotDisk = w.hashMemID(strg), w.diskID(w.dir, "hashes.txt")
	default:
		k := int(target[1] - '0')
		got, gotDisk = fo.rlMem[k], fo.rlDisk[k]
	}
	if errS != nil || errH != nil || got != want || gotDisk != want {
		r.Violate("fsfault-no-recovery:"+fileClass(files[target]), fmt.Sprintf("healthy round after the fault (errors %v, %v): %s serves %s / stores %s, offered %s [%s]", errS, errH, target, got, gotDisk, want, final), replay)
	}
	oc.healed = "path=other tmp=none"
	if gotDisk == want {
		oc.healed = "path=new tmp=none"
	}
	if tempFilesIn(tmp)+tempFilesIn(w.dir) > 0 {
		oc.healed = strings.Replace(oc.healed, "tmp=none", "tmp=left", 1)
	}
	r.Case("fsfault "+target+" "+where+" "+before+" -> "+after, true)
	r.Evaluations++

	return oc
}

// diskIDBytes names the bytes b like diskID names the contents of a file.
func (w *world) diskIDBytes(b []byte) string {
	if c, ok := w.byBody[string(b)]; ok {
		return fmt.Sprintf("%d", c.id)
	}

	return "corrupt"
}

// runRenameFaultCase makes rename(2) inside CloseAtomicallyReplace fail: a
// non-empty directory with an old mtime stands where the cache file of target
// should be (the refreshable finds it stale without reading it, downloads, and
// cannot replace it).  That is an operator's mistake and not a state the
// statement speaks about — what is checked is only that the failure stays
// local (no list changes what it serves, no other file changes, the failure is
// reported) and that the file system is left as the model's replaceFails trace
// leaves it: cache path untouched, the temporary file still there.
func runRenameFaultCase(r *hlib.Result, m *hlib.Model, w *world, rng *rand.Rand, target string) {
	w.contents, w.byBody, w.nextID = nil, map[string]*content{}, 0
	dir, err := os.MkdirTemp("", "c13-renfault")
	hlib.Must(err)
	defer os.RemoveAll(dir)
	w.dir = filepath.Join(dir, "cache")
	tmp := filepath.Join(dir, "tmp")
	hlib.Must(os.MkdirAll(w.dir, 0o755))
	hlib.Must(os.MkdirAll(tmp, 0o755))
	oldTmp, hadTmp := os.LookupEnv("TMPDIR")
	hlib.Must(os.Setenv("TMPDIR", tmp))
	defer func() {
		if hadTmp {
			_ = os.Setenv("TMPDIR", oldTmp)
		} else {
			_ = os.Unsetenv("TMPDIR")
		}
	}()
	w.snapOn, w.snaps, w.snapStart, w.snapRoot = false, nil, nil, ""
	cs := &caseSpec{name: "renamefault-" + target, rlMax: 1 << 20, idxMax: 1 << 20, svcMax: 1 << 20, svcEnabled: true}
	g := &gen{w: w, rng: rng, cs: cs}
	es := []entry{g.goodEntry(1, 1), g.goodEntry(2, 2)}
	files := map[string]string{"idx": "filters.json", "svc": "services.json", "u1": keyNames[1], "u2": keyNames[2], "hash": "hashes.txt"}
	mkAll := func() map[string]*plan {
		return map[string]*plan{
			"/idx": {kind: "ok", c: w.newIdx(es, "ok")}, "/svc": {kind: "ok", c: w.newSvc("ok")},
			"/u/1": {kind: "ok", c: w.newRL(900)}, "/u/2": {kind: okKind(rng), c: w.newRL(1200)},
			"/hash": {kind: "ok", c: w.newHash(2500, "ok")},
		}
	}
	install := func(pl map[string]*plan) {
		w.mu.Lock()
		w.plans, w.reqs = pl, map[string]int{}
		w.mu.Unlock()
	}
	strg, err := hashprefix.NewStorage("")
	hlib.Must(err)
	s := w.newStorage(cs)
	hf := newHashFilter(w, filepath.Join(w.dir, "hashes.txt"), strg, longTimeout)
	ctx := context.Background()
	replay := map[string]any{"campaign": "renamefault", "target": target}
	install(mkAll())
	err0 := s.RefreshInitial(ctx)
	if err0 == nil {
		err0 = hf.RefreshInitial(ctx)
	}
	if err0 != nil {
		r.Violate("fsfault-setup", "healthy first round fails: "+err0.Error(), replay)

		return
	}
	mem := func() string {
		o := w.observe(s, true)
		parts := []string{dash(o.svcMem), dash(w.hashMemID(strg))}
		for k := 1; k <= 2; k++ {
			parts = append(parts, dash(o.rlMem[k]))
		}
		for k, f := range files {
			if k != target {
				parts = append(parts, k+"="+dash(w.diskID(w.dir, f)))
			}
		}
		sort.Strings(parts[4:])

		return strings.Join(parts, " ")
	}
	before := mem()
	install(mkAll())
	for k, f := range files {
		setFresh(filepath.Join(w.dir, f), k != target)
	}
	tp := filepath.Join(w.dir, files[target])
	hlib.Must(os.Remove(tp))
	hlib.Must(os.MkdirAll(tp, 0o755))
	hlib.Must(os.WriteFile(filepath.Join(tp, "x"), []byte("x"), 0o644))
	setFresh(tp, false)
	errS := s.Refresh(ctx)
	errH := hf.Refresh(ctx)
	after := mem()
	r.Count("renamefault:" + target)
	if after != before {
		r.Violate("fsfault-changed-state:rename", fmt.Sprintf("rename(2) over the cache path of %s failed: before [%s] after [%s]", target, before, after), replay)
	}
	reported := errS != nil
	switch target {
	case "hash":
		reported = errH != nil
	case "u1", "u2":
		reported = errS == nil
	}
	if !reported {
		r.Violate("fsfault-not-reported:rename", fmt.Sprintf("rename(2) over the cache path of %s failed, storage round: %v, hash refresh: %v", target, errS, errH), replay)
	}
	real := "path=old tmp=none"
	if fi, serr := os.Stat(tp); serr != nil || !fi.IsDir() {
		real = "path=other tmp=none"
	}
	if tempFilesIn(tmp)+tempFilesIn(w.dir) > 0 {
		real = strings.Replace(real, "tmp=none", "tmp=left", 1)
	}
	if ans := m.Batch([]string{"fsf replace 1 0 0 1"}); ans[0] != real {
		r.Disagree("fsfault-model", fmt.Sprintf("renamefault %s: real [%s] model [%s]", target, real, ans[0]), replay)
	}
	r.Case("renamefault "+target+" "+before, true)
	r.Evaluations++
}

// concurrentCampaign runs pairs of simultaneous refreshes.
func concurrentCampaign(o *hlib.Opts, r *hlib.Result, w *world) {
	rng := o.Rand("concurrent")
	pairs := 14
	if o.Thorough() {
		pairs = 120
	}
	w.contents, w.byBody, w.nextID = nil, map[string]*content{}, 0
	dir, err := os.MkdirTemp("", "c13-conc")
	hlib.Must(err)
	defer os.RemoveAll(dir)
	w.dir = filepath.Join(dir, "cache")
	hlib.Must(os.MkdirAll(w.dir, 0o755))
	w.snapOn, w.snaps, w.snapStart, w.snapRoot = false, nil, nil, ""
	saveStale := w.stale
	w.stale = time.Nanosecond
	defer func() { w.stale = saveStale }()

	cs := &caseSpec{name: "concurrent", rlMax: 1 << 20, idxMax: 1 << 20, svcMax: 1 << 20, svcEnabled: true}
	g := &gen{w: w, rng: rng, cs: cs}
	cutting := false
	var srng sync.Mutex // guards rng inside the handler together with w.mu
	mux := http.NewServeMux()
	mux.HandleFunc("/", func(rw http.ResponseWriter, rq *http.Request) {
		w.mu.Lock()
		srng.Lock()
		var c *content
		switch p := rq.URL.Path; {
		case p == "/idx":
			c = w.newIdx([]entry{g.goodEntry(1, 1), g.goodEntry(2, 2), g.goodEntry(3, 3)}, "ok")
		case p == "/svc":
			c = w.newSvc("ok")
		case p == "/hash":
			c = w.newHash(3000+rng.IntN(20000), "ok")
		default:
			c = w.newRL(1500 + rng.IntN(20000))
		}
		cut := cutting && rng.IntN(5) == 0
		pieces := 2 + rng.IntN(5)
		pause := time.Duration(rng.IntN(300)) * time.Microsecond
		srng.Unlock()
		w.mu.Unlock()
		body := c.body
		step := len(body)/pieces + 1
		for i := 0; i < len(body); i += step {
			if cut && i > 0 {
				panic(http.ErrAbortHandler)
			}
			_, _ = rw.Write(body[i:min(i+step, len(body))])
			rw.(http.Flusher).Flush()
			time.Sleep(pause)
		}
	})
	ts := httptest.NewServer(mux)
	ts.Config.ErrorLog = log.New(io.Discard, "", 0)
	defer ts.Close()
	saveBase := w.base
	w.base = ts.URL
	defer func() { w.base = saveBase }()

	names := []string{"filters.json", "services.json", keyNames[1], keyNames[2], keyNames[3], "hashes.txt"}
	// A reader of the cache files, as a process started at that instant
	// would be.
	stop, done := make(chan struct{}), make(chan struct{})
	reads, bad := 0, ""
	go func() {
		defer close(done)
		seen := map[string]bool{}
		for {
			select {
			case <-stop:
				return
			default:
			}
			for _, name := range names {
				b, rerr := os.ReadFile(filepath.Join(w.dir, name))
				reads++
				if rerr != nil {
					if seen[name] && bad == "" {
						bad = name + " vanished"
					}

					continue
				}
				seen[name] = true
				w.mu.Lock()
				_, ok := w.byBody[string(b)]
				w.mu.Unlock()
				if !ok && bad == "" {
					bad = fmt.Sprintf("%s held %d bytes that equal no complete document ever offered", name, len(b))
				}
			}
		}
	}()

	strg, err := hashprefix.NewStorage("")
	hlib.Must(err)
	s := w.newStorage(cs)
	hf := newHashFilter(w, filepath.Join(w.dir, "hashes.txt"), strg, longTimeout)
	ctx := context.Background()
	replay := map[string]any{"campaign": "concurrent", "how": "VERIF_C13_ONLY=life re-runs only the fsfault and concurrent campaigns"}
	err0 := s.RefreshInitial(ctx)
	if err0 == nil {
		err0 = hf.RefreshInitial(ctx)
	}
	if err0 != nil {
		r.Violate("concurrent-setup", "healthy first round fails: "+err0.Error(), replay)
		close(stop)
		<-done

		return
	}
	w.mu.Lock()
	cutting = true
	w.mu.Unlock()
	for i := 0; i < pairs; i++ {
		var wg sync.WaitGroup
		n := 2 + i%2
		for j := 0; j < n; j++ {
			wg.Add(2)
			go func() { defer wg.Done(); _ = s.Refresh(ctx) }()
			go func() { defer wg.Done(); _ = hf.Refresh(ctx) }()
		}
		wg.Wait()
		w.mu.Lock()
		ob := w.observe(s, true)
		hm, hd := w.hashMemID(strg), w.diskID(w.dir, "hashes.txt")
		w.mu.Unlock()
		replay["pair"] = i
		line := ob.String() + " hash=" + dash(hm) + "/" + dash(hd)
		if strings.Contains(line, "corrupt") {
			r.Violate("concurrent-rounds:corrupt", fmt.Sprintf("after %d simultaneous rounds (pair %d) a list or cache file is no complete document ever offered: %s", n, i, line), replay)
		}
		for k := 1; k <= 3; k++ {
			if ob.rlMem[k] == "" || ob.rlDisk[k] == "" {
				r.Violate("concurrent-rounds:list-dropped", fmt.Sprintf("after %d simultaneous rounds (pair %d) list %d, named by every index, is gone: %s", n, i, k, line), replay)
			}
		}
		if ob.svcMem == "" || hm == "" {
			r.Violate("concurrent-rounds:list-dropped", fmt.Sprintf("after %d simultaneous rounds (pair %d) the services or hashes are gone: %s", n, i, line), replay)
		}
		r.Count(fmt.Sprintf("concurrent_rounds:%d", n))
		r.Evaluations++
	}
	close(stop)
	<-done
	if bad != "" {
		r.Violate("concurrent-rounds:observer-saw-incomplete-cache-file", "a reader of the cache directory during simultaneous rounds: "+bad, replay)
	}
	r.Notes = append(r.Notes, fmt.Sprintf("concurrent: %d groups of 2-3 simultaneous rounds of one storage and one hash filter, %d reads of the cache files meanwhile", pairs, reads))
	r.Case(fmt.Sprintf("concurrent %d", pairs), true)
}

func lifeCampaign(o *hlib.Opts, r *hlib.Result, m *hlib.Model, w *world) {
	saveDir := w.dir
	fsFaultCampaign(o, r, m, w)
	for _, target := range []string{"idx", "u1", "u2", "svc", "hash"} {
		runRenameFaultCase(r, m, w, o.Rand("renamefault"), target)
	}
	concurrentCampaign(o, r, w)
	w.dir = saveDir
	w.contents, w.byBody, w.nextID = nil, map[string]*content{}, 0
}
