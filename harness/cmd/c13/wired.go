package main

// The "wired" campaign: the filter storage, both safe-search filters and the
// three hash-prefix filters as the real builder of internal/cmd makes them from
// a configuration file and the environment (cmd.VerifC13Build runs
// builder.initHashPrefixFilters and builder.initFilterStorage, which include
// the initial refreshes), all in ONE cache directory, refreshed through the
// refreshers the builder registers.  Checked: the property for every one of
// the ten downloads (index, service index, three rule lists, two safe-search
// lists, three hash lists), that every list has a cache file of its own, that
// the configured max_size reaches every download in bytes (a body of exactly
// max_size is taken, one byte more is refused), and that a restart with every
// server down comes up from the cache files with every list serving its own
// document.  The storage part and the safe-search filters are compared with
// the model (refreshFull), the hash-prefix filters with refreshHash.

import (
	"context"
	"fmt"
	"math/rand/v2"
	"os"
	"path/filepath"
	"sort"
	"strconv"
	"strings"
	"sync"
	"time"

	"github.com/AdguardTeam/AdGuardDNS/internal/cmd"
	"github.com/AdguardTeam/AdGuardDNS/internal/filter/filterstorage"
	"github.com/AdguardTeam/AdGuardDNS/verifh/hlib"
)

const wiredMax = 2048

// single is one of the lists with a fixed name and one cache file.
type single struct {
	name string // also the file name in the cache directory
	path string // URL path
	kind string // "rl" (safe search) or "hash"
	slot int    // model slot of a hash filter
	refr string // ID of the refresher that refreshes it
}

var singles = []single{
	{name: "general_safe_search", path: "/ssg", kind: "rl", refr: "filters/storage"},
	{name: "youtube_safe_search", path: "/ssy", kind: "rl", refr: "filters/storage"},
	{name: "adult_blocking", path: "/h/adult", kind: "hash", slot: 0, refr: "filters/hashprefix/adult_blocking"},
	{name: "newly_registered_domains", path: "/h/nrd", kind: "hash", slot: 1, refr: "filters/hashprefix/newly_registered_domains"},
	{name: "safe_browsing", path: "/h/sb", kind: "hash", slot: 2, refr: "filters/hashprefix/safe_browsing"},
}

func wiredYAML(sizeText string) []byte {
	return []byte(`
filters:
    response_ttl: 5m
    custom_filter_cache_size: 16
    safe_search_cache_size: 16
    refresh_interval: 1h
    refresh_timeout: 5s
    index_refresh_timeout: 5s
    rule_list_refresh_timeout: 5s
    max_size: ` + sizeText + `
    rule_list_cache:
        enabled: true
        size: 16
    ede_enabled: true
    sde_enabled: true
safe_browsing:
    block_host: 'sb.example'
    cache_size: 16
    cache_ttl: 1h
    refresh_interval: 1h
    refresh_timeout: 5s
adult_blocking:
    block_host: 'ab.example'
    cache_size: 16
    cache_ttl: 1h
    refresh_interval: 1h
    refresh_timeout: 5s
`)
}

// wiredObs is what the single lists serve and store.
type wiredObs struct {
	mem, disk map[string]string
}

func (w *world) wiredObserve(wd *cmd.VerifC13Wired) *wiredObs {
	o := &wiredObs{mem: map[string]string{}, disk: map[string]string{}}
	var s *filterstorage.Default
	if wd != nil {
		s = wd.VerifC13Storage()
	}
	for _, x := range singles {
		o.disk[x.name] = w.diskID(w.dir, x.name)
		found := []string{}
		for _, c := range w.contents {
			if c.kind != "rl" && c.kind != "hash" {
				continue
			}
			var f, l bool
			switch {
			case wd == nil:
			case x.kind == "hash":
				f, l = wd.VerifC13HashMatches(x.name, first(c.id)), wd.VerifC13HashMatches(x.name, last(c.id))
			case s != nil:
				gen := x.name == "general_safe_search"
				f, l = s.VerifC13SafeSearchMatch(gen, first(c.id)), s.VerifC13SafeSearchMatch(gen, last(c.id))
				if f && l && s.VerifC13SafeSearchRulesCount(gen) != c.nrules {
					found = append(found, "corrupt:rules")

					continue
				}
			}
			switch {
			case f && l:
				found = append(found, strconv.Itoa(c.id))
			case f || l:
				found = append(found, "corrupt:partial")
			}
		}
		switch len(found) {
		case 0:
			o.mem[x.name] = ""
		case 1:
			o.mem[x.name] = found[0]
		default:
			o.mem[x.name] = "corrupt:mixed"
		}
	}

	return o
}

func (o *wiredObs) String() string {
	parts := []string{}
	for _, x := range singles {
		parts = append(parts, fmt.Sprintf("%s=%s/%s", x.name, dash(o.mem[x.name]), dash(o.disk[x.name])))
	}

	return strings.Join(parts, " ")
}

func wiredCampaign(o *hlib.Opts, r *hlib.Result, m *hlib.Model, w *world) {
	rng := o.Rand("wired")
	n := 10
	if o.Thorough() {
		n = 80
	}
	for i := 0; i < n; i++ {
		runWiredCase(r, m, w, rng, i)
		w.contents = nil
		w.byBody = map[string]*content{}
		w.nextID = 0
	}
}

var wiredFaults = []string{"connerr", "status", "empty", "oversize", "cutcl", "cutchunked"}

func runWiredCase(r *hlib.Result, m *hlib.Model, w *world, rng *rand.Rand, no int) {
	dir, err := os.MkdirTemp("", "c13-wired")
	hlib.Must(err)
	defer os.RemoveAll(dir)
	w.dir = filepath.Join(dir, "cache")
	hlib.Must(os.MkdirAll(w.dir, 0o755))
	w.snaps, w.snapStart, w.startFiles = nil, nil, nil
	w.mu.Lock()
	w.snapOn = false
	w.mu.Unlock()

	sizeText := []string{"2KB", "2048B", "2048"}[no%3]
	cs := &caseSpec{name: fmt.Sprintf("wired-%d-max_size=%s", no, sizeText), idxMax: wiredMax, rlMax: wiredMax, svcMax: wiredMax, svcEnabled: true, wired: true}
	g := &gen{w: w, rng: rng, cs: cs}
	g.junk = w.newJunk("junk", "<html>wired error page</html>")
	g.empty = w.newEmpty()
	es := []entry{g.goodEntry(1, 1), g.goodEntry(2, 2), g.goodEntry(3, 3)}
	if no%2 == 1 {
		es = append(es, w.mistypedEntry(mistypedKinds[no%len(mistypedKinds)], 2, 2), g.reservedEntry(no))
	}

	env := &cmd.VerifC13Env{
		FilterCachePath:        w.dir,
		FilterIndexURL:         w.base + "/idx",
		BlockedServiceIndexURL: w.base + "/svc",
		GeneralSafeSearchURL:   w.base + "/ssg",
		YoutubeSafeSearchURL:   w.base + "/ssy",
		AdultBlockingURL:       w.base + "/h/adult",
		SafeBrowsingURL:        w.base + "/h/sb",
		NewRegDomainsURL:       w.base + "/h/nrd",
	}

	lines := []string{fmt.Sprintf("cfg %d %d %d 1 1 1 1 1", wiredMax, wiredMax, wiredMax)}
	declared := map[int]bool{}
	declare := func(c *content) {
		if c == nil || declared[c.id] {
			return
		}
		declared[c.id] = true
		lines = append(lines, fmt.Sprintf("len %d %d", c.id, len(c.body)))
		switch c.kind {
		case "idx":
			parts := []string{}
			for _, e := range c.entries {
				if e.null {
					parts = append(parts, "n")

					continue
				}
				tag := "o"
				if e.raw != "" {
					tag = "t"
				}
				parts = append(parts, fmt.Sprintf(tag+":%d:%x:%s:%s:%d", w.keyNum(e), []byte(e.keyStr), b2s(e.urlStr == ""), b2s(e.urlOk), e.url))
			}
			lines = append(lines, strings.TrimSpace(fmt.Sprintf("rawdoc %d %s %s", c.id, b2s(c.jsonOK), strings.Join(parts, " "))))
		case "svc":
			lines = append(lines, strings.TrimSpace(fmt.Sprintf("svcdoc %d %s %s", c.id, b2s(c.svcJSON), strings.Join(c.svcEntries, " "))))
		case "hash":
			lines = append(lines, fmt.Sprintf("hashok %d %s", c.id, b2s(c.hashOK)))
		}
	}

	// mkPlan: a healthy plan with a new document of the right kind, sometimes
	// exactly max_size bytes long, or a fault.
	mkPlan := func(kind string, faultP int) *plan {
		mk := func(size int) *content {
			switch kind {
			case "idx":
				return w.newIdx(es, "ok")
			case "svc":
				return w.newSvc("ok")
			case "hash":
				if size == 0 {
					size = 200 + rng.IntN(1500)
				}

				return w.newHash(size, "ok")
			default:
				if size == 0 {
					size = 100 + rng.IntN(wiredMax-100)
					if rng.IntN(4) == 0 {
						size = wiredMax
						r.Count("wired_body_of_exactly_max_size")
					}
				}

				return w.newRL(size)
			}
		}
		if rng.IntN(100) < faultP {
			fk := wiredFaults[rng.IntN(len(wiredFaults))]
			if fk == "oversize" && (kind == "idx" || kind == "svc") {
				fk = "status"
			}
			if fk == "oversize" {
				// One byte more than max_size.
				c := mk(wiredMax + 1)
				if kind == "hash" {
					c = w.newHash(wiredMax+200, "ok")
				}
				r.Count("wired_fault:oversize")

				return &plan{kind: "ok", c: c}
			}
			r.Count("wired_fault:" + fk)

			return w.mkFault(rng, fk, wiredMax, mk, g.junk, g.empty)
		}

		pl := &plan{kind: "ok", c: mk(0)}
		if len(pl.c.body) < wiredMax && rng.IntN(3) == 0 {
			// As a CDN sends it: gzip-coded.
			pl.kind = "okgzip"
			r.Count("wired_okgzip")
		}

		return pl
	}

	// exact: a healthy document of exactly n bytes (JSON documents are padded
	// with blanks, which encoding/json ignores).
	exact := func(kind string, n int) *plan {
		var c *content
		switch kind {
		case "idx":
			c = w.newIdx(es, "ok")
		case "svc":
			c = w.newSvc("ok")
		case "hash":
			c = w.newHash(n-100, "ok")
		default:
			return &plan{kind: "ok", c: w.newRL(n)}
		}
		if pad := n - len(c.body); kind == "hash" && pad == 1 {
			c.body = append([]byte("\n"), c.body...)
		} else if kind == "hash" && pad >= 2 {
			// A comment line of its own.
			c.body = append([]byte("#"+strings.Repeat("x", pad-2)+"\n"), c.body...)
		}
		for len(c.body) < n {
			c.body = append(c.body, ' ')
		}
		w.byBody[string(c.body)] = c

		return &plan{kind: "ok", c: c}
	}

	var wd *cmd.VerifC13Wired
	var prev *obs
	var prevX *wiredObs
	type rec struct {
		lineIdx int
		real    string
	}
	recs := []rec{}
	nRounds := 3 + rng.IntN(3)
	sawFault, sawApplied := false, false
	for ri := 0; ri < nRounds; ri++ {
		initial := ri == 0 || (ri == nRounds-1) || (rng.IntN(5) == 0 && !(no < 3 && ri <= 2))
		allDown := initial && ri > 0
		faultP := 35
		if initial {
			faultP = 0
		}
		rs := &roundSpec{fresh: map[int]bool{}, urls: map[int]*plan{}, restart: initial && ri > 0}
		plans := map[string]*plan{}
		if allDown {
			// A restart while every server is unreachable.
			rs.idx, rs.svc = &plan{kind: "connerr"}, &plan{kind: "connerr"}
			for u := 1; u <= 3; u++ {
				rs.urls[u] = &plan{kind: "connerr"}
			}
			for _, x := range singles {
				plans[x.path] = &plan{kind: "connerr"}
			}
			r.Count("wired_restart_with_every_server_down")
		} else if no < 3 && (ri == 1 || ri == 2) {
			// Directed: every download one byte over max_size (round 1: all
			// refused), then every download of exactly max_size (round 2: all
			// taken) — the configured size reaches every component in bytes.
			n := wiredMax + 1
			if ri == 2 {
				n = wiredMax
			}
			rs.idx, rs.svc = exact("idx", n), exact("svc", n)
			for u := 1; u <= 3; u++ {
				rs.urls[u] = exact("rl", n)
			}
			for _, x := range singles {
				plans[x.path] = exact(x.kind, n)
			}
			r.Count(fmt.Sprintf("wired_directed_every_download_of_%d_bytes", n))
		} else {
			rs.idx, rs.svc = mkPlan("idx", faultP), mkPlan("svc", faultP)
			for u := 1; u <= 3; u++ {
				rs.urls[u] = mkPlan("rl", faultP)
			}
			for _, x := range singles {
				plans[x.path] = mkPlan(x.kind, faultP)
			}
		}
		w.mu.Lock()
		w.plans = map[string]*plan{"/idx": rs.idx, "/svc": rs.svc}
		for u, p := range rs.urls {
			w.plans[fmt.Sprintf("/u/%d", u)] = p
		}
		for path, p := range plans {
			w.plans[path] = p
		}
		w.reqs = map[string]int{}
		w.mu.Unlock()

		// Every cache file is stale.
		if ents, rerr := os.ReadDir(w.dir); rerr == nil {
			for _, e := range ents {
				setFresh(filepath.Join(w.dir, e.Name()), false)
			}
		}
		if prev == nil {
			prev = &obs{ok: true, rlMem: map[int]string{}, rlDisk: map[int]string{}}
			prevX = w.wiredObserve(nil)
		} else if initial {
			lines = append(lines, "restart")
			prev = &obs{ok: true, idxDisk: prev.idxDisk, svcDisk: prev.svcDisk, rlMem: map[int]string{}, rlDisk: prev.rlDisk}
			prevX = &wiredObs{mem: map[string]string{}, disk: prevX.disk}
		}

		declare(rs.idx.c)
		declare(rs.svc.c)
		for _, u := range sortedInts(rs.urls) {
			declare(rs.urls[u].c)
			lines = append(lines, fmt.Sprintf("resp %d %s", u, rs.urls[u].token()))
		}
		for k := 1; k < len(keyNames); k++ {
			lines = append(lines, fmt.Sprintf("fresh %d 0", k))
		}
		for _, x := range singles {
			declare(plans[x.path].c)
		}

		// Run: the builder on an initial round, the registered refreshers
		// otherwise (hash-prefix filters first, as at start-up).
		ctx, cancel := context.WithTimeout(context.Background(), 30*time.Second)
		start := time.Now()
		errs := map[string]error{}
		if initial {
			var berr error
			wd, berr = cmd.VerifC13Build(ctx, wiredYAML(sizeText), env, nopErrColl{})
			for _, x := range singles {
				errs[x.refr] = berr
			}
			errs["filters/storage"] = berr
			if berr == nil {
				want := []string{"filters/hashprefix/adult_blocking", "filters/hashprefix/newly_registered_domains", "filters/hashprefix/safe_browsing", "filters/storage"}
				if got := wd.VerifC13RefresherIDs(); strings.Join(got, ",") != strings.Join(want, ",") {
					r.Violate("wired-refresher-missing", fmt.Sprintf("the builder registered the refreshers %v, want %v", got, want), nil)
				}
			}
		} else {
			ids := []string{"filters/hashprefix/adult_blocking", "filters/hashprefix/newly_registered_domains", "filters/hashprefix/safe_browsing", "filters/storage"}
			if no%2 == 1 {
				// As in production, where every one of them has a refresh
				// worker of its own on the same cache directory: all at once.
				var wg sync.WaitGroup
				var emu sync.Mutex
				for _, id := range ids {
					wg.Add(1)
					go func() {
						defer wg.Done()
						e := wd.VerifC13Refresh(ctx, id)
						emu.Lock()
						errs[id] = e
						emu.Unlock()
					}()
				}
				wg.Wait()
				r.Count("wired_round_refreshers_simultaneous")
			} else {
				for _, id := range ids {
					errs[id] = wd.VerifC13Refresh(ctx, id)
				}
			}
		}
		cancel()
		if time.Since(start) > 3*time.Second {
			r.Count("case_discarded_slow")

			return
		}
		w.mu.Lock()
		reqs := w.reqs
		w.mu.Unlock()

		// Model lines: the hash filters, then the storage with safe search.
		hashIdx := map[string]int{}
		for _, x := range singles {
			if x.kind != "hash" {
				continue
			}
			lines = append(lines, fmt.Sprintf("hashs %d %d %s 0 %s", x.slot, wiredMax, b2s(initial), plans[x.path].token()))
			hashIdx[x.name] = len(lines) - 1
		}
		lines = append(lines, fmt.Sprintf("ssround %s 0 %s 0 %s %d 1 0 %s 1 0 %s", b2s(initial), rs.idx.token(), rs.svc.token(), wiredMax, plans["/ssg"].token(), plans["/ssy"].token()))
		ssIdx := len(lines) - 1

		var s *filterstorage.Default
		if wd != nil {
			s = wd.VerifC13Storage()
		}
		stErr := errs["filters/storage"]
		var cur *obs
		if s != nil {
			cur = w.observe(s, stErr == nil)
		} else {
			cur = &obs{ok: false, idxDisk: w.diskID(w.dir, "filters.json"), svcDisk: w.diskID(w.dir, "services.json"), rlMem: map[int]string{}, rlDisk: map[int]string{}}
			for k := 1; k < len(keyNames); k++ {
				if d := w.diskID(w.dir, keyNames[k]); d != "" {
					cur.rlDisk[k] = d
				}
			}
		}
		curX := w.wiredObserve(wd)
		recs = append(recs, rec{ssIdx, cur.String() + fmt.Sprintf(" ssg=%s/%s ssy=%s/%s", dash(curX.mem["general_safe_search"]), dash(curX.disk["general_safe_search"]), dash(curX.mem["youtube_safe_search"]), dash(curX.disk["youtube_safe_search"]))})
		for _, x := range singles {
			if x.kind == "hash" {
				recs = append(recs, rec{hashIdx[x.name], fmt.Sprintf("ok=%s mem=%s disk=%s", b2s(errs[x.refr] == nil), dash(curX.mem[x.name]), dash(curX.disk[x.name]))})
			}
		}

		replay := map[string]any{"case": no, "case_name": cs.name, "round": ri, "initial": initial, "ops": lines, "before": prev.String() + " " + prevX.String(), "after": cur.String() + " " + curX.String(), "max_size": sizeText, "errors": fmt.Sprint(errs)}
		if rs.idx.c != nil {
			replay["index_document_offered"] = string(rs.idx.c.body)
		}

		// The single lists.
		offeredBy := map[string]string{}
		for path, p := range plans {
			if p.c != nil && !p.faulty(wiredMax) {
				offeredBy[strconv.Itoa(p.c.id)] = path
			}
		}
		for u, p := range rs.urls {
			if p.c != nil && !p.faulty(wiredMax) {
				offeredBy[strconv.Itoa(p.c.id)] = fmt.Sprintf("/u/%d", u)
			}
		}
		ssFailed := false
		for _, x := range singles {
			p := plans[x.path]
			requested := reqs[x.path] > 0
			offered := ""
			if !p.faulty(wiredMax) {
				offered = strconv.Itoa(p.c.id)
			}
			pm, pd, cm, cd := prevX.mem[x.name], prevX.disk[x.name], curX.mem[x.name], curX.disk[x.name]
			viol := func(sig, what string) {
				r.Violate(sig+":"+x.name, fmt.Sprintf("case %s round %d: %s [%s: memory %s -> %s, file %s -> %s; plan %s; before %s; after %s]", cs.name, ri, what, x.name, dash(pm), dash(cm), dash(pd), dash(cd), p.faultClass(wiredMax), prevX, curX), replay)
			}
			if strings.HasPrefix(cm, "corrupt") || cd == "corrupt" {
				viol("corrupt-list", "an incomplete or mixed document is served or stored")
			}
			if cd != pd && cd != offered {
				if other, ok := offeredBy[cd]; ok && other != x.path {
					viol("cache-file-overwritten-by-other-list", "the cache file holds the document offered at "+other)
				} else {
					viol("cache-file-not-old-or-new", "the cache file is neither the previous nor the newly offered document")
				}
			}
			if cm != pm && cm != offered && cm != pd {
				viol("list-not-old-or-new", "the list serves neither its previous, its stored nor its newly offered document")
			}
			if requested && p.faulty(wiredMax) {
				sawFault = true
				if x.kind == "rl" {
					ssFailed = true
				}
				if cm != pm || cd != pd {
					viol("failed-list-changed", "the download failed ("+p.faultClass(wiredMax)+") but the list changed")
				}
			}
			if requested && offered != "" && errs[x.refr] == nil {
				if cm != offered || cd != offered {
					viol("valid-entry-not-applied", "the refresh succeeded but the complete offered document is not served and stored")
				} else {
					sawApplied = true
					if len(p.c.body) == wiredMax {
						r.Count("wired_body_of_exactly_max_size_applied")
					}
				}
			}
			if !initial && !requested && (x.kind == "hash" || stErr == nil) {
				viol("list-not-refreshed", "its cache file is stale but the registered refreshers did not ask its server")
			}
			if allDown {
				if errs[x.refr] != nil {
					viol("restart-fails-on-complete-cache", "the start with every server down failed: "+fmt.Sprint(errs[x.refr]))
				} else if cm != pd || cd != pd {
					viol("restart-serves-other-document", "after a restart with every server down the list does not serve its own stored document")
				}
			}
		}
		if ri == 0 {
			for id, e := range errs {
				if e != nil {
					r.Violate("wired-initial-start-fails", fmt.Sprintf("case %s: the first start with every server healthy failed (%s): %v", cs.name, id, e), replay)
				}
			}
		}
		// The storage part, by the oracle of the other campaigns.
		rs.extraFailed = ssFailed
		if s != nil || allDown {
			f, a := oracle(r, w, cs, rs, initial, prev, cur, reqs, replay)
			sawFault, sawApplied = sawFault || f, sawApplied || a
		}
		prev, prevX = cur, curX
		r.Count("wired_rounds")
	}

	answers := m.Batch(lines)
	r.ModelOps += len(lines)
	sort.Slice(recs, func(i, j int) bool { return recs[i].lineIdx < recs[j].lineIdx })
	for _, rc := range recs {
		if got := w.canonModel(answers[rc.lineIdx]); got != rc.real {
			r.Disagree("c13-wired", fmt.Sprintf("case %s: line %q: model %q, implementation %q", cs.name, lines[rc.lineIdx], answers[rc.lineIdx], rc.real), map[string]any{"ops": lines[:rc.lineIdx+1]})

			break
		}
	}
	r.Case(cs.name+";"+strings.Join(lines, ";"), sawFault && sawApplied)
	r.Traces++
	if sawFault && sawApplied {
		r.Sample(map[string]any{"campaign": "wired", "case": cs.name, "ops": tail(lines, 10)}, 2)
	}
}
