package main

import (
	"bufio"
	"context"
	"fmt"
	"io"
	"log"
	"net/http"
	"net/http/httptest"
	"os"
	"os/exec"
	"path/filepath"
	"strings"
	"time"

	"github.com/AdguardTeam/AdGuardDNS/internal/filter/hashprefix"
	"github.com/AdguardTeam/AdGuardDNS/verifh/hlib"
)

// childMain is the body of the process that gets killed: it refreshes a
// storage and a hash filter in a loop, every cache file always being stale.
func childMain(spec string) {
	parts := strings.Split(spec, "|")
	w := &world{dir: parts[0], base: parts[1], stale: time.Nanosecond, byBody: map[string]*content{}}
	cs := &caseSpec{rlMax: 1 << 20, idxMax: 1 << 20, svcMax: 1 << 20, svcEnabled: true}
	s := w.newStorage(cs)
	strg, err := hashprefix.NewStorage("")
	hlib.Must(err)
	hf := newHashFilter(w, filepath.Join(w.dir, "hashes.txt"), strg, longTimeout)
	ctx := context.Background()
	err = s.RefreshInitial(ctx)
	if err == nil {
		err = hf.RefreshInitial(ctx)
	}
	if err != nil {
		fmt.Printf("init err: %v\n", err)
	} else {
		n := 0
		for _, id := range s.VerifC13RuleListIDs() {
			if s.VerifC13RuleListRulesCount(id) > 0 {
				n++
			}
		}
		fmt.Printf("init ok lists=%d\n", n)
	}
	for {
		_ = s.Refresh(ctx)
		_ = hf.Refresh(ctx)
	}
}

// killCampaign SIGKILLs a refreshing child process at random instants and
// checks the cache directory it leaves behind and the next start on it.
func killCampaign(o *hlib.Opts, r *hlib.Result, w *world) {
	rng := o.Rand("kill")
	w.contents = nil
	w.byBody = map[string]*content{}
	w.nextID = 0
	dir, err := os.MkdirTemp("", "c13-kill")
	hlib.Must(err)
	defer os.RemoveAll(dir)
	cache := filepath.Join(dir, "cache")
	tmp := filepath.Join(dir, "tmp")
	hlib.Must(os.MkdirAll(cache, 0o755))
	hlib.Must(os.MkdirAll(tmp, 0o755))

	cs := &caseSpec{rlMax: 1 << 20}
	g := &gen{w: w, rng: rng, cs: cs}
	// seeded is set (under w.mu) once a first child has filled the cache
	// directory from healthy downloads; only then transfers are cut as well.
	seeded := false
	mux := http.NewServeMux()
	mux.HandleFunc("/", func(rw http.ResponseWriter, rq *http.Request) {
		w.mu.Lock()
		var c *content
		switch p := rq.URL.Path; {
		case p == "/idx":
			c = w.newIdx([]entry{g.goodEntry(1, 1), g.goodEntry(2, 2), g.goodEntry(3, 3)}, "ok")
		case p == "/svc":
			c = w.newSvc("ok")
		case p == "/hash":
			c = w.newHash(2000+rng.IntN(4000), "ok")
		default:
			c = w.newRL(1500 + rng.IntN(6000))
		}
		cut := seeded && rng.IntN(6) == 0
		pieces := 2 + rng.IntN(5)
		pause := time.Duration(rng.IntN(400)) * time.Microsecond
		w.mu.Unlock()
		body := c.body
		step := len(body)/pieces + 1
		for i := 0; i < len(body); i += step {
			if cut && i > 0 {
				panic(http.ErrAbortHandler)
			}
			_, _ = rw.Write(body[i:min(i+step, len(body))])
			rw.(http.Flusher).Flush()
			time.Sleep(pause)
		}
	})
	ts := httptest.NewServer(mux)
	ts.Config.ErrorLog = log.New(io.Discard, "", 0)
	defer ts.Close()
	saveBase := w.base
	w.base = ts.URL
	defer func() { w.base = saveBase }()

	exe, err := os.Executable()
	hlib.Must(err)
	kills := 400
	initsChecked := 0
	for i := 0; i < kills; i++ {
		cmd := exec.Command(exe)
		cmd.Env = append(os.Environ(), "VERIF_C13_CHILD="+cache+"|"+ts.URL, "TMPDIR="+tmp)
		out, perr := cmd.StdoutPipe()
		hlib.Must(perr)
		hlib.Must(cmd.Start())
		initCh := make(chan string, 1)
		go func() {
			line, _ := bufio.NewReader(out).ReadString('\n')
			initCh <- strings.TrimSpace(line)
		}()
		var initLine string
		if i > 0 && rng.IntN(2) == 0 {
			// Kill at a random instant from process start (also during the
			// initial refresh).
			time.Sleep(time.Duration(2+rng.IntN(60)) * time.Millisecond)
			select {
			case initLine = <-initCh:
			default:
			}
			r.Count("sigkill_from_start")
		} else {
			select {
			case initLine = <-initCh:
			case <-time.After(20 * time.Second):
				initLine = "init err: no init line within 20 s"
			}
			time.Sleep(time.Duration(rng.IntN(12000)) * time.Microsecond)
			r.Count("sigkill_after_init")
		}
		_ = cmd.Process.Kill()
		_, _ = cmd.Process.Wait()
		w.mu.Lock()
		seeded = true
		w.mu.Unlock()

		replay := map[string]any{"campaign": "sigkill", "kill": i, "how": "thorough tier, same seed"}
		if initLine != "" {
			initsChecked++
			switch {
			case strings.HasPrefix(initLine, "init err"):
				r.Violate("sigkill-restart-fails", fmt.Sprintf("kill %d: the process started on the directory left by the previous kill fails: %s", i, initLine), replay)
			case i > 0 && initLine != "init ok lists=3":
				r.Violate("sigkill-restart-incomplete", fmt.Sprintf("kill %d: restart reports %q", i, initLine), replay)
			}
		}
		ents, rerr := os.ReadDir(cache)
		hlib.Must(rerr)
		// The first child filled the directory; no file may ever vanish.
		for _, name := range []string{"filters.json", "services.json", keyNames[1], keyNames[2], keyNames[3], "hashes.txt"} {
			if _, serr := os.Stat(filepath.Join(cache, name)); serr != nil {
				r.Violate("sigkill-cache-file-missing", fmt.Sprintf("kill %d: %s is gone", i, name), replay)
			}
		}
		w.mu.Lock()
		for _, e := range ents {
			name := e.Name()
			if strings.HasPrefix(name, ".") || e.IsDir() {
				r.Count("sigkill_tempfile_present")

				continue
			}
			b, ferr := os.ReadFile(filepath.Join(cache, name))
			hlib.Must(ferr)
			r.Count("sigkill_files_checked")
			if _, ok := w.byBody[string(b)]; !ok {
				cls := "rule-list"
				switch name {
				case "filters.json":
					cls = "index"
				case "services.json":
					cls = "services"
				case "hashes.txt":
					cls = "hash-list"
				}
				r.Violate("sigkill-incomplete-cache-file:"+cls, fmt.Sprintf("kill %d: %s (%d bytes) equals no complete document ever offered", i, name, len(b)), replay)
			}
		}
		w.mu.Unlock()
		r.Count("sigkill_kills")
	}
	r.Notes = append(r.Notes, fmt.Sprintf("sigkill: %d kills, %d restarts checked", kills, initsChecked))
	r.Evaluations += kills
}
