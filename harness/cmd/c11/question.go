package main

// Questions as clients send them, through the whole production stack: the three
// real hash-prefix filters behind a real filterstorage.Default (the flags of
// the filtering group decide which of them a question meets), behind
// dnssvc.NewHandlers.  What is on the path here and nowhere else in this
// harness: agdnet.NormalizeDomain (ratelimitmw.newRequestInfo), mainmw's
// reqInfoToFltReq, filterstorage's setSafeBrowsing/setParental and the order in
// which the composite filter asks the three filters.

import (
	"context"
	"encoding/json"
	"fmt"
	"math/rand/v2"
	"net/netip"
	"net/url"
	"os"
	"path/filepath"
	"strings"
	"time"

	"github.com/AdguardTeam/AdGuardDNS/internal/access"
	"github.com/AdguardTeam/AdGuardDNS/internal/agd"
	"github.com/AdguardTeam/AdGuardDNS/internal/agdcache"
	"github.com/AdguardTeam/AdGuardDNS/internal/agdpasswd"
	"github.com/AdguardTeam/AdGuardDNS/internal/agdtest"
	"github.com/AdguardTeam/AdGuardDNS/internal/agdtime"
	"github.com/AdguardTeam/AdGuardDNS/internal/dnsmsg"
	"github.com/AdguardTeam/AdGuardDNS/internal/filter"
	"github.com/AdguardTeam/AdGuardDNS/internal/filter/filterstorage"
	"github.com/AdguardTeam/AdGuardDNS/verifh/hlib"
	"github.com/AdguardTeam/AdGuardDNS/verifh/hlib/stack"
	"github.com/AdguardTeam/golibs/logutil/slogutil"
	"github.com/miekg/dns"
	"golang.org/x/net/publicsuffix"
)

// groupFlags are the switches of a filtering group that concern the three
// hash-prefix lists.
type groupFlags struct {
	sbOn, danger, newReg, parOn, adult bool
}

func (g groupFlags) String() string {
	b := func(x bool) byte {
		if x {
			return '1'
		}

		return '0'
	}

	return string([]byte{b(g.sbOn), b(g.danger), b(g.newReg), b(g.parOn), b(g.adult)})
}

// enabled lists the storages a question meets, in the order in which the
// documentation of the composite filter promises to ask them: dangerous
// domains (0), adult content (1), newly registered domains (2).
func (g groupFlags) enabled() (l []int) {
	if g.sbOn && g.danger {
		l = append(l, 0)
	}
	if g.parOn && g.adult {
		l = append(l, 1)
	}
	if g.sbOn && g.newReg {
		l = append(l, 2)
	}

	return l
}

// qstack is the production stack with one profile per combination of switches;
// a question reaches a profile through the linked IP it comes from.
type qstack struct {
	st     *stack.Stack
	flags  []groupFlags
	remote []netip.Addr
	// envOn, when not nil, says which of the three lists the builder was told
	// to create at all (the *_ENABLED environment switches); the stack then
	// comes from the builder in internal/cmd (wiring campaign).
	envOn *[3]bool
	// listed, when not nil, replaces the lists of the runner's env.
	listed *[3]map[string]int
	// grp is the group's filter configuration as the builder made it.
	grp *filter.ConfigGroup
}

// enabledFor lists the storages a question of profile or group k meets.
func (q *qstack) enabledFor(k int) (l []int) {
	for _, i := range q.flags[k].enabled() {
		if q.envOn == nil || q.envOn[i] {
			l = append(l, i)
		}
	}

	return l
}

// envString spells envOn for the model.
func (q *qstack) envString() string {
	b := []byte("000")
	for i, on := range q.envOn {
		if on {
			b[i] = '1'
		}
	}

	return string(b)
}

var allGroupFlags = []groupFlags{
	{true, true, true, true, true},
	{true, true, false, false, false},
	{false, false, false, true, true},
	{true, false, true, false, false},
	{false, true, true, true, true},   // safe browsing switched off as a whole
	{true, true, true, false, true},   // parental control switched off as a whole
	{true, false, false, true, false}, // both on, every list off
	{true, true, false, true, true},
}

const farStale = 10000 * time.Hour

// newQStacks builds the filter storage over e's three filters and the stack with
// one profile per flag combination.
func newQStacks(e *env) (q *qstack) {
	dir := filepath.Join(e.dir, "fs")
	hlib.Must(os.MkdirAll(filepath.Join(dir, "cache"), 0o755))
	idx, _ := json.Marshal(map[string]any{"filters": []any{}})
	hlib.Must(os.WriteFile(filepath.Join(dir, "index.json"), idx, 0o644))
	hlib.Must(os.WriteFile(filepath.Join(dir, "services.json"), []byte(`{"blocked_services":[]}`), 0o644))
	fs, err := filterstorage.New(&filterstorage.Config{
		BaseLogger: slogutil.NewDiscardLogger(),
		Logger:     slogutil.NewDiscardLogger(),
		BlockedServices: &filterstorage.ConfigBlockedServices{
			IndexURL:            &url.URL{Scheme: "file", Path: filepath.Join(dir, "services.json")},
			IndexMaxSize:        1 << 20,
			IndexRefreshTimeout: time.Second,
			IndexStaleness:      farStale,
			ResultCacheCount:    16,
		},
		Custom:     &filterstorage.ConfigCustom{CacheCount: 16},
		HashPrefix: &filterstorage.ConfigHashPrefix{Adult: e.flt[1], Dangerous: e.flt[0], NewlyRegistered: e.flt[2]},
		RuleLists: &filterstorage.ConfigRuleLists{
			IndexURL:            &url.URL{Scheme: "file", Path: filepath.Join(dir, "index.json")},
			IndexMaxSize:        1 << 20,
			MaxSize:             1 << 20,
			IndexRefreshTimeout: time.Second,
			IndexStaleness:      farStale,
			RefreshTimeout:      time.Second,
			Staleness:           farStale,
			ResultCacheCount:    16,
		},
		SafeSearchGeneral: &filterstorage.ConfigSafeSearch{ID: filter.IDGeneralSafeSearch, Enabled: false},
		SafeSearchYouTube: &filterstorage.ConfigSafeSearch{ID: filter.IDYoutubeSafeSearch, Enabled: false},
		CacheManager:      agdcache.EmptyManager{},
		Clock:             agdtime.SystemClock{},
		ErrColl:           &agdtest.ErrorCollector{OnCollect: func(context.Context, error) {}},
		Metrics:           filter.EmptyMetrics{},
		CacheDir:          filepath.Join(dir, "cache"),
	})
	hlib.Must(err)
	hlib.Must(fs.RefreshInitial(context.Background()))
	q = &qstack{flags: allGroupFlags}
	profs := map[netip.Addr]*agd.Profile{}
	devs := map[netip.Addr]*agd.Device{}
	for k, g := range allGroupFlags {
		ip := netip.AddrFrom4([4]byte{10, 11, 0, byte(k + 1)})
		q.remote = append(q.remote, ip)
		id := fmt.Sprintf("prof%d", k)
		devs[ip] = &agd.Device{Auth: &agd.AuthSettings{PasswordHash: agdpasswd.AllowAuthenticator{}}, ID: agd.DeviceID("dev" + id),
			LinkedIP: ip, FilteringEnabled: true}
		profs[ip] = &agd.Profile{
			FilterConfig: &filter.ConfigClient{
				Custom:       &filter.ConfigCustom{ID: id, UpdateTime: time.Unix(1700000000, 0)},
				Parental:     &filter.ConfigParental{Enabled: g.parOn, AdultBlockingEnabled: g.adult},
				RuleList:     &filter.ConfigRuleList{},
				SafeBrowsing: &filter.ConfigSafeBrowsing{Enabled: g.sbOn, DangerousDomainsEnabled: g.danger, NewlyRegisteredDomainsEnabled: g.newReg},
			},
			Access: access.EmptyProfile{}, BlockingMode: &dnsmsg.BlockingModeNullIP{}, Ratelimiter: agd.GlobalRatelimiter{},
			ID: agd.ProfileID(id), DeviceIDs: []agd.DeviceID{devs[ip].ID}, FilteredResponseTTL: 10 * time.Second,
			FilteringEnabled: true, QueryLogEnabled: true,
		}
	}
	pdb := stack.NotFoundProfileDB()
	pdb.OnProfileByLinkedIP = func(_ context.Context, ip netip.Addr) (*agd.Profile, *agd.Device, error) {
		if p, ok := profs[ip]; ok {
			return p, devs[ip], nil
		}

		return nil, nil, fmt.Errorf("verif: %w", errNotFound)
	}
	q.st = stack.New(&stack.Config{
		FilterStorage: fs,
		HashMatcher:   e.matcher,
		ProfileDB:     pdb,
		Servers:       []*agd.Server{stack.NewServer("dns", agd.ProtoDNS, true)},
	})

	return q
}

var errNotFound = notFoundErr{}

type notFoundErr struct{}

func (notFoundErr) Error() string { return "device not found" }
func (notFoundErr) Is(target error) bool {
	return target != nil && strings.Contains(target.Error(), "not found")
}

// spellings of a host as a question name: the case of the letters is the
// client's business (and 0x20 randomisation's).
func spell(rng *rand.Rand, host string) string {
	b := []byte(host)
	switch rng.IntN(4) {
	case 0:
		return strings.ToUpper(host)
	case 1:
		for i := range b {
			if rng.IntN(2) == 0 {
				b[i] = strings.ToUpper(string(b[i]))[0]
			}
		}
	case 2:
		if len(b) > 0 {
			b[0] = strings.ToUpper(string(b[0]))[0]
		}
	}

	return string(b)
}

// opQuestion sends the question through stack q and checks the verdict
// recorded in the query log against the lists and q's flags.
func (c *runner) opQuestion(q *qstack, k int, qname string, qt uint16) {
	flags := q.flags[k]
	req := &dns.Msg{}
	req.SetQuestion(dns.Fqdn(qname), qt)
	req.Id = 4711
	_, _ = q.st.Effects.TakeLog()
	var out stack.Outcome
	var perr any
	func() {
		defer func() { perr = recover() }()
		out = q.st.Serve(c.ctx, &stack.Req{
			Server: q.st.Servers[0], Msg: req,
			Remote: netip.AddrPortFrom(q.remote[k], 5353), Local: netip.MustParseAddrPort("192.0.2.1:53"),
		})
	}()
	rep := c.replayWith("question", flags.String(), qname, qt)
	entries, _ := q.st.Effects.TakeLog()
	line := fmt.Sprintf("question %s %s %d", flags.String(), hx(dns.Fqdn(qname)), qt)
	if perr != nil || out.Err != nil || out.Resp == nil || len(entries) != 1 {
		c.r.Violate("question-failed", fmt.Sprintf("question %q type %d flags %s: panic %v err %v resp %v log entries %d",
			qname, qt, flags, perr, out.Err, out.Resp, len(entries)), rep)
		c.add(line, "failed", -1)

		return
	}
	gotList, gotRule := "", ""
	switch res := entries[0].RequestResult.(type) {
	case nil:
	case *filter.ResultModifiedRequest:
		gotList, gotRule = string(res.List), string(res.Rule)
	case *filter.ResultModifiedResponse:
		gotList, gotRule = string(res.List), string(res.Rule)
	default:
		gotList = fmt.Sprintf("%T", res)
	}
	c.judgeQuestion(q, k, qname, qt, gotList, gotRule, rep, line)
}

// judgeQuestion is the oracle for the verdict (list and rule) on a question.
func (c *runner) judgeQuestion(q *qstack, k int, qname string, qt uint16, gotList, gotRule string, rep map[string]any, line string) {
	flags := q.flags[k]
	listed := [3]map[string]int{c.e.listed[0], c.e.listed[1], c.e.listed[2]}
	if q.envOn != nil {
		listed = *q.listed
	}
	enabled := q.enabledFor(k)
	// Property oracle: the host is the question name in lower case without the
	// final dot; it is dangerous / adult / newly registered exactly when that
	// list is switched on for the group and lists the host or a parent.
	host := strings.ToLower(strings.TrimSuffix(dns.Fqdn(qname), "."))
	c.emitPS(host)
	filterable := qt == dns.TypeA || qt == dns.TypeAAAA || qt == dns.TypeHTTPS
	cands := oracleCandidates(host)
	wantList, wantRules := "", []string(nil)
	for _, i := range enabled {
		var l []string
		for _, s := range cands {
			if _, ok := listed[i][s]; ok && s != "" {
				l = append(l, s)
			}
		}
		if filterable && len(l) > 0 {
			wantList, wantRules = string(filterIDs[i]), l

			break
		}
	}
	switch {
	case gotList != wantList && gotList != "" && wantList == "":
		sig := "question-treated-as-listed-without-listed-parent"
		if !filterable {
			sig = "question-matched-non-address-qtype"
		}
		c.r.Violate(sig, fmt.Sprintf("question %q type %d flags %s: treated as %s (rule %q), but no enabled list has the host or a parent",
			qname, qt, flags, gotList, gotRule), rep)
	case gotList != wantList && gotList == "":
		if !c.interiorOnly(host, enabled, listed) {
			c.r.Violate("question-not-treated-as-listed", fmt.Sprintf("question %q type %d flags %s: not filtered although list %s has %q",
				qname, qt, flags, wantList, wantRules), rep)
		}
	case gotList != wantList:
		if !c.interiorOnly(host, enabled, listed) {
			c.r.Violate("question-attributed-to-wrong-list", fmt.Sprintf("question %q type %d flags %s: treated as %s (rule %q), the first enabled list with a listed parent is %s %q",
				qname, qt, flags, gotList, gotRule, wantList, wantRules), rep)
		}
	case gotList != "" && !slicesContains(wantRules, gotRule):
		c.r.Violate("question-rule-not-a-listed-parent", fmt.Sprintf("question %q type %d flags %s: rule %q is not among the listed parents %q of list %s",
			qname, qt, flags, gotRule, wantRules, wantList), rep)
	}
	real := "none"
	if gotList != "" {
		real = fmt.Sprintf("list %d rule %s", listIndex(gotList), hx(gotRule))
		c.flag("question.listed:" + gotList)
	} else if len(enabled) == 0 {
		c.flag("question.nothing_enabled")
	} else {
		c.flag("question.none")
	}
	if qname != strings.ToLower(qname) {
		c.r.Count("question.mixed_case")
	}
	c.add(line, real, -1)
}

func listIndex(id string) int {
	for i, f := range filterIDs {
		if string(f) == id {
			return i
		}
	}

	return -1
}

// interiorOnly: the expectation rests on a name the code cannot see as a
// candidate because of the public suffix package's answer for names between two
// private rules (known finding, reported by opFilter under its own signature).
func (c *runner) interiorOnly(host string, enabled []int, listed [3]map[string]int) bool {
	seen := map[string]bool{}
	for _, s := range oracleCandidatesWith(host, publicsuffix.PublicSuffix) {
		seen[s] = true
	}
	for _, s := range oracleCandidates(host) {
		if seen[s] {
			continue
		}
		for _, i := range enabled {
			if _, ok := listed[i][s]; ok {
				return true
			}
		}
	}

	return false
}

// questionCampaign: the same hosts in up to three lists, asked in the
// spelling of a client, under every combination of the group's switches.
func questionCampaign(c *runner, rng *rand.Rand, q *qstack, n int) {
	for ; n > 0; n-- {
		c.add("psclear", "ok", -1)
		c.psSet = map[string]bool{}
		var hosts []string
		for len(hosts) < 3+rng.IntN(4) {
			if h := genHost(rng); validQName(h) && h == strings.ToLower(h) && !strings.ContainsAny(h, "\\\x00") {
				hosts = append(hosts, h)
			}
		}
		for i := 0; i < 3; i++ {
			// Each list gets its own choice of parents of the same hosts, so
			// that a host is in one, two or all three lists.
			text, _ := genList(rng, hosts, c)
			if rng.IntN(5) == 0 {
				text = ""
			}
			c.opReset(i, text)
		}
		for _, h := range hosts {
			for k := 1 + rng.IntN(3); k > 0; k-- {
				k := rng.IntN(len(q.flags))
				name := spell(rng, h)
				if rng.IntN(3) == 0 {
					name = spell(rng, labelPool[rng.IntN(len(labelPool))]+"."+h)
				}
				if !validQName(name) {
					continue
				}
				c.opQuestion(q, k, name, genQT(rng))
			}
		}
		c.finish("question")
	}
}
