// Command c11 is the correspondence harness and property oracle for C11
// (safe-browsing lookups: hash storage, hashable subdomains, hash-prefix TXT
// queries).
package main

import (
	"context"
	"crypto/sha256"
	"encoding/hex"
	"fmt"
	"math/rand/v2"
	"net/netip"
	"net/url"
	"os"
	"path/filepath"
	"sort"
	"strings"
	"time"

	"github.com/AdguardTeam/AdGuardDNS/internal/agd"
	"github.com/AdguardTeam/AdGuardDNS/internal/agdcache"
	"github.com/AdguardTeam/AdGuardDNS/internal/agdtest"
	"github.com/AdguardTeam/AdGuardDNS/internal/dnsmsg"
	"github.com/AdguardTeam/AdGuardDNS/internal/filter"
	"github.com/AdguardTeam/AdGuardDNS/internal/filter/hashprefix"
	"github.com/AdguardTeam/AdGuardDNS/verifh/hlib"
	"github.com/AdguardTeam/AdGuardDNS/verifh/hlib/stack"
	"github.com/AdguardTeam/golibs/logutil/slogutil"
	"github.com/miekg/dns"
	"golang.org/x/net/publicsuffix"
)

// Suffixes of the production matcher (internal/cmd/builder.go).
var txtSuffixes = []string{filter.GeneralTXTSuffix, filter.AdultBlockingTXTSuffix}

// env is the real code under test: three storages behind three filters and a
// matcher behind the production middleware stack.
type env struct {
	dir      string
	strg     [3]*hashprefix.Storage
	flt      [3]*hashprefix.Filter
	paths    [3]string
	listed   [3]map[string]int // the oracle's own idea of each list
	msgs     *dnsmsg.Constructor
	matcher  *hashprefix.Matcher
	sufs     []string
	sufStore []int
	st       *stack.Stack
}

var filterIDs = [3]filter.ID{filter.IDSafeBrowsing, filter.IDAdultBlocking, filter.IDNewRegDomains}
var replHosts = [3]string{"192.0.2.1", "repl.example", "2001:db8::1"}

func newEnv(dir string, sufs []string, sufStore []int) (e *env) {
	e = &env{dir: dir, sufs: sufs, sufStore: sufStore}
	cloner := agdtest.NewCloner()
	var err error
	e.msgs, err = dnsmsg.NewConstructor(&dnsmsg.ConstructorConfig{
		Cloner:              cloner,
		BlockingMode:        &dnsmsg.BlockingModeNullIP{},
		StructuredErrors:    agdtest.NewSDEConfig(true),
		FilteredResponseTTL: 10 * time.Second,
		EDEEnabled:          true,
	})
	hlib.Must(err)
	for i := range e.strg {
		e.strg[i], err = hashprefix.NewStorage("")
		hlib.Must(err)
		e.paths[i] = filepath.Join(dir, fmt.Sprintf("list%d.txt", i))
		hlib.Must(os.WriteFile(e.paths[i], nil, 0o600))
		e.flt[i], err = hashprefix.NewFilter(&hashprefix.FilterConfig{
			Logger:          slogutil.NewDiscardLogger(),
			Cloner:          cloner,
			CacheManager:    agdcache.EmptyManager{},
			Hashes:          e.strg[i],
			URL:             &url.URL{Scheme: "file", Path: e.paths[i]},
			ErrColl:         &agdtest.ErrorCollector{OnCollect: func(context.Context, error) {}},
			Metrics:         filter.EmptyMetrics{},
			ID:              filterIDs[i],
			CachePath:       e.paths[i] + ".cache",
			ReplacementHost: replHosts[i],
			Staleness:       time.Hour,
			CacheTTL:        time.Hour,
			RefreshTimeout:  time.Second,
			CacheCount:      64,
			MaxSize:         1 << 24,
		})
		hlib.Must(err)
		e.listed[i] = map[string]int{}
	}
	m := map[string]*hashprefix.Storage{}
	for k, s := range sufs {
		m[s] = e.strg[sufStore[k]]
	}
	e.matcher = hashprefix.NewMatcher(m)
	e.st = stack.New(&stack.Config{HashMatcher: e.matcher})

	return e
}

// --- independent oracle definitions (no model, no code under test) ---

// oracleListed is the property's notion of "in the list": lines, minus blank
// lines and comments.
func oracleListed(text string) (set map[string]int, tooLong bool) {
	set = map[string]int{}
	for _, l := range strings.Split(text, "\n") {
		if len(l) >= 65536 {
			tooLong = true
		}
		l = strings.TrimSuffix(l, "\r")
		if l == "" || l[0] == '#' {
			continue
		}
		set[l]++
	}

	return set, tooLong
}

// oracleICANNSuffix returns the ICANN public suffix of host according to the
// public suffix list, if it has one.
func oracleICANNSuffix(host string) (suf string, ok bool) {
	suf, ok = publicsuffix.PublicSuffix(host)
	for !ok {
		i := strings.IndexByte(suf, '.')
		if i < 0 {
			return "", false
		}
		suf, ok = publicsuffix.PublicSuffix(suf[i+1:])
	}

	return suf, true
}

// oracleCandidates: the host and its parents, at most four labels, strictly
// below the ICANN public suffix; longest first.
func oracleCandidates(host string) (cands []string) {
	if host == "" {
		return nil
	}
	labels := strings.Split(host, ".")
	suf, hasSuf := oracleICANNSuffix(host)
	sufLabels := len(strings.Split(suf, "."))
	for k := min(4, len(labels)); k >= 1; k-- {
		if hasSuf && k <= sufLabels {
			break
		}
		cands = append(cands, strings.Join(labels[len(labels)-k:], "."))
	}

	return cands
}

func isHexStr(s string) bool {
	for _, c := range []byte(s) {
		if !(c >= '0' && c <= '9' || c >= 'a' && c <= 'f' || c >= 'A' && c <= 'F') {
			return false
		}
	}

	return true
}

// oraclePrefixes: well-formed = every dot-separated piece is 4 or 8 hex
// characters; the requested prefix is its first four characters.
func oraclePrefixes(s string) (prefs map[string]bool, ok bool) {
	prefs = map[string]bool{}
	if s == "" {
		return prefs, true
	}
	for _, p := range strings.Split(s, ".") {
		if (len(p) != 4 && len(p) != 8) || !isHexStr(p) {
			return nil, false
		}
		prefs[strings.ToLower(p[:4])] = true
	}

	return prefs, true
}

func oracleHashes(set map[string]int, prefs map[string]bool) (want map[string]bool) {
	want = map[string]bool{}
	for n := range set {
		sum := sha256.Sum256([]byte(n))
		h := hex.EncodeToString(sum[:])
		if prefs[h[:4]] {
			want[h] = true
		}
	}

	return want
}

func sameSet(got []string, want map[string]bool) bool {
	seen := map[string]bool{}
	for _, g := range got {
		if !want[g] {
			return false
		}
		seen[g] = true
	}

	return len(seen) == len(want)
}

// --- plumbing ---

func hx(s string) string {
	if s == "" {
		return "-"
	}

	return hex.EncodeToString([]byte(s))
}

func hxList(l []string) string {
	if len(l) == 0 {
		return "-"
	}
	o := make([]string, len(l))
	for i, s := range l {
		o[i] = hx(s)
	}

	return strings.Join(o, " ")
}

// sortedWords sorts the space-separated words of a model answer from position
// from on (hash order across prefixes depends on Go map iteration).
func sortedWords(ans string, from int) string {
	w := strings.Fields(ans)
	if len(w) <= from {
		return ans
	}
	sort.Strings(w[from:])

	return strings.Join(w, " ")
}

type step struct {
	line string
	real string
	sort int // -1: compare verbatim; otherwise sort words from this index
}

type runner struct {
	o     *hlib.Opts
	r     *hlib.Result
	m     *hlib.Model
	e     *env
	steps []step
	psSet map[string]bool
	ctx   context.Context
	flags map[string]bool
}

func (c *runner) add(line, real string, sortFrom int) {
	c.steps = append(c.steps, step{line: line, real: real, sort: sortFrom})
}

func (c *runner) replay() []string {
	out := make([]string, 0, len(c.steps))
	for _, s := range c.steps {
		if len(s.line) > 400 {
			out = append(out, s.line[:400]+"…")
		} else {
			out = append(out, s.line)
		}
	}
	if len(out) > 60 {
		out = out[len(out)-60:]
	}

	return out
}

// finish sends the case to the model and compares.
func (c *runner) finish(kind string) {
	lines := make([]string, len(c.steps))
	for i, s := range c.steps {
		lines[i] = s.line
	}
	c.m.ResetLog()
	answers := c.m.Batch(lines)
	for i, s := range c.steps {
		got := answers[i]
		real := s.real
		if s.sort >= 0 {
			got, real = sortedWords(got, s.sort), sortedWords(real, s.sort)
		}
		if got != real {
			ctxLines := []string{}
			for j := max(0, i-6); j <= i; j++ {
				l := lines[j]
				if len(l) > 300 {
					l = l[:300] + "…"
				}
				ctxLines = append(ctxLines, l)
			}
			c.r.Disagree("model-vs-impl:"+strings.Fields(s.line)[0],
				fmt.Sprintf("op %q: implementation %q, model %q", trunc(s.line), trunc(real), trunc(got)),
				map[string]any{"ops_tail": ctxLines, "note": "byte strings are hex; full history = resets before this op"})

			break
		}
	}
	c.r.ModelOps += len(lines)
	c.r.Traces++
	canon := strings.Join(lines, "\n")
	nontrivial := true
	for _, f := range c.flagsNeeded(kind) {
		if !c.flags[f] {
			nontrivial = false
		}
	}
	c.r.Case(canon, nontrivial)
	if nontrivial {
		c.r.Sample(map[string]any{"kind": kind, "ops": c.replaySample()}, 6)
	}
	c.steps = c.steps[:0]
	c.flags = map[string]bool{}
}

func (c *runner) flagsNeeded(kind string) []string {
	switch kind {
	case "list":
		return []string{"filter.matched", "filter.none", "matches.true", "matches.false"}
	case "txt":
		return []string{"txt.answer"}
	case "boundary":
		return []string{"filter.matched", "filter.none"}
	default:
		return nil
	}
}

func (c *runner) replaySample() []string {
	out := []string{}
	for i, s := range c.steps {
		if i >= 12 {
			break
		}
		out = append(out, trunc(s.line)+" => "+trunc(s.real))
	}

	return out
}

func trunc(s string) string {
	if len(s) > 240 {
		return s[:240] + "…"
	}

	return s
}

func (c *runner) flag(f string) {
	c.flags[f] = true
	c.r.Count(f)
}

// --- operations: each runs the real code, the property oracle, and records the
// model line ---

func (c *runner) opReset(i int, text string) {
	hlib.Must(os.WriteFile(c.e.paths[i], []byte(text), 0o600))
	err := c.e.flt[i].Refresh(c.ctx)
	real := "err"
	set, tooLong := oracleListed(text)
	if err == nil {
		n := 0
		for _, k := range set {
			n += k
		}
		real = fmt.Sprintf("ok %d", n)
		c.e.listed[i] = set
		c.flag("reset.ok")
		if tooLong {
			c.r.Count("reset.ok_but_oracle_too_long")
		}
	} else {
		c.flag("reset.err")
	}
	c.add(fmt.Sprintf("reset %d %s", i, hx(text)), real, -1)
}

func (c *runner) opMatches(i int, host string) {
	got := c.e.strg[i].Matches(host)
	_, want := c.e.listed[i][host]
	if got != want {
		c.r.Violate("storage-matches-not-iff-listed",
			fmt.Sprintf("Storage.Matches(%q) = %v but listed = %v", host, got, want), c.replayWith("matches", host))
	}
	real := "0"
	if got {
		real = "1"
		c.flag("matches.true")
	} else {
		c.flag("matches.false")
	}
	c.add(fmt.Sprintf("matches %d %s", i, hx(host)), real, -1)
}

func (c *runner) replayWith(op string, args ...any) map[string]any {
	return map[string]any{"op": op, "args": args, "history_hex_ops": c.replay()}
}

func (c *runner) opHashes(i int, prefs []string) {
	ps := make([]hashprefix.Prefix, len(prefs))
	pm := map[string]bool{}
	for k, p := range prefs {
		_, err := hex.Decode(ps[k][:], []byte(p))
		hlib.Must(err)
		pm[p] = true
	}
	got := c.e.strg[i].Hashes(ps)
	want := oracleHashes(c.e.listed[i], pm)
	if !sameSet(got, want) {
		c.r.Violate("storage-hashes-not-exact",
			fmt.Sprintf("Storage.Hashes(%v) = %v, want set %v", prefs, got, hlib.SortedKeys(want)), c.replayWith("hashes", prefs))
	}
	switch len(want) {
	case 0:
		c.flag("hashes.0")
	case 1:
		c.flag("hashes.1")
	default:
		c.flag("hashes.2+")
	}
	real := "-"
	if len(got) > 0 {
		real = strings.Join(got, " ")
	}
	c.add(fmt.Sprintf("hashes %d %s", i, strings.Join(prefs, " ")), real, 0)
}

func (c *runner) opPrefixes(s string) {
	got, err := hashprefix.VerifC11PrefixesFromStr(s)
	want, ok := oraclePrefixes(s)
	c.checkPrefixOracle("prefixes", s, got, err, want, ok)
	real := "err"
	if err == nil {
		l := make([]string, len(got))
		for k, p := range got {
			l[k] = hex.EncodeToString(p[:])
		}
		real = "-"
		if len(l) > 0 {
			real = strings.Join(l, " ")
		}
		c.flag("prefixes.ok")
	} else {
		c.flag("prefixes.err")
	}
	c.add("prefixes "+hx(s), real, 0)
}

func (c *runner) checkPrefixOracle(op, s string, got []hashprefix.Prefix, err error, want map[string]bool, ok bool) {
	if ok && err != nil {
		c.r.Violate("wellformed-prefix-refused", fmt.Sprintf("prefix string %q refused: %v", s, err), c.replayWith(op, s))
	} else if !ok && err == nil {
		sig := "malformed-prefix-accepted"
		if legacyTailOnly(s) {
			sig = "malformed-legacy-prefix-accepted"
		}
		c.r.Violate(sig, fmt.Sprintf("malformed prefix string %q accepted as %x", s, got), c.replayWith(op, s))
	} else if ok {
		gs := map[string]bool{}
		for _, p := range got {
			gs[hex.EncodeToString(p[:])] = true
		}
		if len(gs) != len(want) {
			c.r.Violate("prefix-set-wrong", fmt.Sprintf("prefix string %q parsed as %x", s, got), c.replayWith(op, s))
		}
		for p := range want {
			if !gs[p] {
				c.r.Violate("prefix-set-wrong", fmt.Sprintf("prefix string %q parsed as %x", s, got), c.replayWith(op, s))
			}
		}
	}
}

// legacyTailOnly: the only thing wrong with s is a non-hex tail of an
// eight-character piece (the defect fixed by a7f0f3a).
func legacyTailOnly(s string) bool {
	bad := false
	for _, p := range strings.Split(s, ".") {
		switch {
		case len(p) == 4 && isHexStr(p):
		case len(p) == 8 && isHexStr(p):
		case len(p) == 8 && isHexStr(p[:4]):
			bad = true
		default:
			return false
		}
	}

	return bad
}

// emitPS sends the PublicSuffix table entries the model may need for host.
func (c *runner) emitPS(host string) {
	d := host
	for {
		if !c.psSet[d] {
			c.psSet[d] = true
			suf, icann := publicsuffix.PublicSuffix(d)
			ic := 0
			if icann {
				ic = 1
			}
			c.add(fmt.Sprintf("ps %s %s %d", hx(d), hx(suf), ic), "ok", -1)
		}
		i := strings.IndexByte(d, '.')
		if i < 0 {
			break
		}
		d = d[i+1:]
	}
}

func (c *runner) opSubs(host string) {
	c.emitPS(host)
	got := hashprefix.VerifC11HashableSubdomains(host)
	want := oracleCandidates(host)
	// The empty name can never be listed; ignore it on both sides.
	if strings.Join(dropEmpty(got), " ") != strings.Join(dropEmpty(want), " ") {
		sig := "hashable-subdomains-wrong"
		if _, ok := oracleICANNSuffix(host); ok {
			if s, icann := publicsuffix.PublicSuffix(host); !icann && s != "" {
				sig = "private-suffix-hashes-public-suffix"
			}
		}
		c.r.Violate(sig, fmt.Sprintf("hashableSubdomains(%q) = %q, property says %q", host, got, want), c.replayWith("subs", host))
	}
	c.r.Count(fmt.Sprintf("subs.len=%d", len(got)))
	c.add("subs "+hx(host), hxList(got), -1)
}

func dropEmpty(l []string) (o []string) {
	for _, s := range l {
		if s != "" {
			o = append(o, s)
		}
	}

	return o
}

func (c *runner) opFilterable(qt uint16) {
	got := hashprefix.VerifC11IsFilterable(qt)
	want := qt == dns.TypeA || qt == dns.TypeAAAA || qt == dns.TypeHTTPS
	if got != want {
		c.r.Violate("filterable-qtype-wrong", fmt.Sprintf("isFilterable(%d) = %v", qt, got), c.replayWith("filterable", qt))
	}
	real := "0"
	if got {
		real = "1"
	}
	c.add(fmt.Sprintf("filterable %d", qt), real, -1)
}

// opFilter runs Filter.FilterRequest.  host must be usable as a DNS question
// name only as far as dns.Fqdn goes: the filter looks at req.Host.
func (c *runner) opFilter(i int, host string, qt uint16) {
	c.emitPS(host)
	req := &dns.Msg{}
	req.SetQuestion(dns.Fqdn(host), qt)
	var rule string
	matched := false
	var ferr error
	func() {
		defer func() {
			if p := recover(); p != nil {
				ferr = fmt.Errorf("panic: %v", p)
			}
		}()
		res, err := c.e.flt[i].FilterRequest(c.ctx, &filter.Request{
			DNS: req, Messages: c.e.msgs, Host: host, QType: qt, QClass: dns.ClassINET,
			RemoteIP: netip.MustParseAddr("192.0.2.7"),
		})
		ferr = err
		switch res := res.(type) {
		case nil:
		case *filter.ResultModifiedRequest:
			matched, rule = true, string(res.Rule)
		case *filter.ResultModifiedResponse:
			matched, rule = true, string(res.Rule)
		default:
			ferr = fmt.Errorf("unexpected result %T", res)
		}
	}()
	if ferr != nil {
		c.r.Violate("filter-request-failed", fmt.Sprintf("FilterRequest(%q, %d) on list %d: %v", host, qt, i, ferr), c.replayWith("filter", i, host, qt))
	}
	// Property oracle.
	filterable := qt == dns.TypeA || qt == dns.TypeAAAA || qt == dns.TypeHTTPS
	var listedCand []string
	for _, s := range oracleCandidates(host) {
		if _, ok := c.e.listed[i][s]; ok && s != "" {
			listedCand = append(listedCand, s)
		}
	}
	want := filterable && len(listedCand) > 0
	if matched && !want {
		sig := "filter-matched-without-listed-parent"
		if !filterable {
			sig = "filter-matched-non-address-qtype"
		} else if _, ok := c.e.listed[i][rule]; ok {
			if s, icann := publicsuffix.PublicSuffix(rule); icann && s == rule {
				sig = "filter-matched-by-public-suffix-entry"
			} else if len(strings.Split(rule, ".")) > 4 {
				sig = "filter-matched-beyond-four-labels"
			}
		}
		c.r.Violate(sig, fmt.Sprintf("host %q qtype %d treated as listed (rule %q) on list %d, but no parent of at most four labels below the public suffix is listed",
			host, qt, rule, i), c.replayWith("filter", i, host, qt))
	} else if !matched && want && ferr == nil {
		c.r.Violate("filter-missed-listed-parent", fmt.Sprintf("host %q qtype %d not treated as listed on list %d although %q is listed",
			host, qt, i, listedCand), c.replayWith("filter", i, host, qt))
	}
	real := "none"
	switch {
	case matched:
		real = "rule " + hx(rule)
		c.flag("filter.matched")
	case !filterable:
		c.flag("filter.unfilterable")
	default:
		c.flag("filter.none")
	}
	c.add(fmt.Sprintf("filter %d %s %d", i, hx(host), qt), real, -1)
}

func (c *runner) opMatcherCfg() {
	parts := []string{"matcher"}
	for k, s := range c.e.sufs {
		parts = append(parts, hx(s), fmt.Sprint(c.e.sufStore[k]))
	}
	c.add(strings.Join(parts, " "), "ok", -1)
}

// sufOf returns the index of the configured suffix host ends with.
func (c *runner) sufOf(host string) int {
	for k, s := range c.e.sufs {
		if strings.HasSuffix(host, s) {
			return k
		}
	}

	return -1
}

func (c *runner) opMBP(host string) {
	got, matched, err := c.e.matcher.MatchByPrefix(c.ctx, host)
	k := c.sufOf(host)
	real := "nomatch"
	switch {
	case err != nil:
		real = "err"
	case matched:
		real = "ok -"
		if len(got) > 0 {
			real = "ok " + strings.Join(got, " ")
		}
	}
	if k < 0 {
		if matched || err != nil {
			c.r.Violate("non-hash-query-not-passed", fmt.Sprintf("MatchByPrefix(%q) = matched %v err %v", host, matched, err), c.replayWith("mbp", host))
		}
		c.flag("mbp.nomatch")
	} else {
		pstr := strings.TrimSuffix(host, c.e.sufs[k])
		want, ok := oraclePrefixes(pstr)
		switch {
		case !ok && err == nil:
			sig := "malformed-prefix-accepted"
			if legacyTailOnly(pstr) {
				sig = "malformed-legacy-prefix-accepted"
			}
			c.r.Violate(sig, fmt.Sprintf("MatchByPrefix(%q): malformed prefix answered with %v", host, got), c.replayWith("mbp", host))
		case ok && err != nil:
			c.r.Violate("wellformed-prefix-refused", fmt.Sprintf("MatchByPrefix(%q): %v", host, err), c.replayWith("mbp", host))
		case ok:
			if !matched || !sameSet(got, oracleHashes(c.e.listed[c.e.sufStore[k]], want)) {
				c.r.Violate("prefix-query-hashes-not-exact", fmt.Sprintf("MatchByPrefix(%q) = %v (matched %v), want %v", host, got, matched,
					hlib.SortedKeys(oracleHashes(c.e.listed[c.e.sufStore[k]], want))), c.replayWith("mbp", host))
			}
		}
		if err != nil {
			c.flag("mbp.err")
		} else {
			c.flag("mbp.ok")
		}
	}
	c.add("mbp "+hx(host), real, 1)
}

// opTXT sends a question through the production middleware stack.
func (c *runner) opTXT(qname string, qt uint16) {
	req := &dns.Msg{}
	req.SetQuestion(dns.Fqdn(qname), qt)
	req.Id = 4242
	host := strings.ToLower(strings.TrimSuffix(dns.Fqdn(qname), "."))
	before := c.e.st.Effects.Upstream.Load()
	var out stack.Outcome
	var perr any
	func() {
		defer func() { perr = recover() }()
		out = c.e.st.Serve(c.ctx, &stack.Req{
			Server: c.e.st.Servers[0], Msg: req,
			Remote: netip.MustParseAddrPort("192.0.2.7:5353"), Local: netip.MustParseAddrPort("192.0.2.1:53"),
		})
	}()
	ups := c.e.st.Effects.Upstream.Load() - before
	rep := c.replayWith("txt", qname, qt)
	if perr != nil || out.Err != nil || out.Resp == nil {
		c.r.Violate("txt-query-failed", fmt.Sprintf("question %q type %d: panic %v err %v resp %v", qname, qt, perr, out.Err, out.Resp), rep)
		c.add(fmt.Sprintf("txt %s %d", hx(host), qt), "failed", -1)

		return
	}
	resp := out.Resp
	var txts []string
	isTXTAnswer := false
	if ups == 0 && resp.Rcode == dns.RcodeSuccess && len(resp.Answer) == 1 {
		if t, ok := resp.Answer[0].(*dns.TXT); ok {
			isTXTAnswer, txts = true, t.Txt
		}
	}
	real := "?"
	switch {
	case ups == 1:
		real = "pass"
	case ups == 0 && resp.Rcode == dns.RcodeRefused:
		real = "refused"
	case isTXTAnswer:
		real = "txt -"
		if len(txts) > 0 {
			real = "txt " + strings.Join(txts, " ")
		}
	default:
		real = fmt.Sprintf("other rcode=%d ups=%d", resp.Rcode, ups)
	}
	k := c.sufOf(host)
	switch {
	case qt != dns.TypeTXT || k < 0:
		if real != "pass" {
			c.r.Violate("non-hash-query-not-passed", fmt.Sprintf("question %q type %d is not a hash-prefix query but was answered %q", qname, qt, trunc(real)), rep)
		}
		c.flag("txt.pass")
	default:
		pstr := strings.TrimSuffix(host, c.e.sufs[k])
		want, ok := oraclePrefixes(pstr)
		switch {
		case !ok && ups > 0:
			c.r.Violate("malformed-prefix-forwarded", fmt.Sprintf("TXT %q: malformed prefix forwarded upstream", qname), rep)
		case !ok && real != "refused":
			sig := "malformed-prefix-accepted"
			if legacyTailOnly(pstr) {
				sig = "malformed-legacy-prefix-accepted"
			}
			c.r.Violate(sig, fmt.Sprintf("TXT %q: malformed prefix answered %q instead of REFUSED", qname, trunc(real)), rep)
		case ok && !isTXTAnswer:
			c.r.Violate("wellformed-prefix-refused", fmt.Sprintf("TXT %q: answered %q", qname, trunc(real)), rep)
		case ok:
			wh := oracleHashes(c.e.listed[c.e.sufStore[k]], want)
			if !sameSet(txts, wh) {
				c.r.Violate("prefix-query-hashes-not-exact", fmt.Sprintf("TXT %q answered %v, want %v", qname, txts, hlib.SortedKeys(wh)), rep)
			}
			if len(wh) > 0 {
				c.flag("txt.answer")
			} else {
				c.flag("txt.answer_empty")
			}
		}
		if !ok {
			c.flag("txt.refused")
		}
	}
	c.add(fmt.Sprintf("txt %s %d", hx(host), qt), real, 1)
}

// --- generators ---

var bases = []string{
	"example.com", "test.co.uk", "foo.blogspot.com", "bucket.s3.amazonaws.com", "city.kawasaki.jp",
	"x.y.kawasaki.jp", "school.pvt.k12.ma.us", "host.lan", "com", "co.uk", "blogspot.com", "lan",
	"example.org", "github.io", "user.github.io", "a.b.c.compute.amazonaws.com", "kawasaki.jp", "k12.ma.us",
}

var labelPool = []string{"a", "b", "www", "x", "cdn"}

func genHost(rng *rand.Rand) string {
	h := bases[rng.IntN(len(bases))]
	for k := rng.IntN(6); k > 0; k-- {
		h = labelPool[rng.IntN(len(labelPool))] + "." + h
	}
	if rng.IntN(25) == 0 {
		// Malformed stream: names the DNS layer would not hand over, but the
		// filter API accepts.
		switch rng.IntN(6) {
		case 0:
			h += "."
		case 1:
			h = "." + h
		case 2:
			h = strings.Replace(h, ".", "..", 1)
		case 3:
			h = ""
		case 4:
			h = strings.ToUpper(h)
		default:
			h = "a\\.b." + h + "\x00\xff"
		}
	}

	return h
}

func suffixesOf(h string) (out []string) {
	for {
		out = append(out, h)
		i := strings.IndexByte(h, '.')
		if i < 0 {
			return out
		}
		h = h[i+1:]
	}
}

// genList builds a list text around the given hosts: some of their parents,
// decoys, comments, blank lines, CRLF, duplicates.
func genList(rng *rand.Rand, hosts []string, c *runner) (text string, names []string) {
	var lines []string
	for _, h := range hosts {
		if rng.IntN(3) == 0 {
			continue
		}
		sufs := suffixesOf(h)
		names = append(names, sufs[rng.IntN(len(sufs))])
	}
	for k := rng.IntN(4); k > 0; k-- {
		names = append(names, genHost(rng))
	}
	for _, n := range names {
		if n == "" {
			continue
		}
		lines = append(lines, n)
		switch rng.IntN(12) {
		case 0:
			lines = append(lines, "# "+n)
			c.r.Count("list.comment")
		case 1:
			lines = append(lines, "")
			c.r.Count("list.blank")
		case 2:
			lines = append(lines, n)
			c.r.Count("list.duplicate")
		case 3:
			lines = append(lines, "#"+genHost(rng))
			c.r.Count("list.comment")
		case 4:
			lines = append(lines, " "+n, n+" ")
			c.r.Count("list.spaces")
		}
	}
	rng.Shuffle(len(lines), func(i, j int) { lines[i], lines[j] = lines[j], lines[i] })
	nl := "\n"
	if rng.IntN(4) == 0 {
		nl = "\r\n"
		c.r.Count("list.crlf")
	}
	text = strings.Join(lines, nl)
	if rng.IntN(2) == 0 && text != "" {
		text += nl
	}
	if rng.IntN(10) == 0 {
		text += "\r"
	}

	return text, names
}

var qtypes = []uint16{dns.TypeA, dns.TypeAAAA, dns.TypeHTTPS, dns.TypeTXT, dns.TypeCNAME, dns.TypeNS, dns.TypeANY, dns.TypeSVCB, dns.TypeMX}

func genQT(rng *rand.Rand) uint16 {
	if rng.IntN(3) > 0 {
		return qtypes[rng.IntN(3)]
	}

	return qtypes[rng.IntN(len(qtypes))]
}

func prefixOf(name string) string {
	sum := sha256.Sum256([]byte(name))

	return hex.EncodeToString(sum[:2])
}

func fullHash(name string) string {
	sum := sha256.Sum256([]byte(name))

	return hex.EncodeToString(sum[:])
}

// genPrefixStr: mostly valid, with a malformed stream.
func genPrefixStr(rng *rand.Rand, names []string) string {
	n := 1 + rng.IntN(3)
	parts := make([]string, n)
	for i := range parts {
		var p string
		if len(names) > 0 && rng.IntN(3) > 0 {
			nm := names[rng.IntN(len(names))]
			p = prefixOf(nm)
			if rng.IntN(4) == 0 {
				p = fullHash(nm)[:8] // legacy
			}
		} else {
			p = fmt.Sprintf("%04x", rng.IntN(65536))
		}
		parts[i] = p
	}
	if rng.IntN(3) == 0 {
		i := rng.IntN(n)
		p := parts[i]
		switch rng.IntN(9) {
		case 0:
			p = p[:3]
		case 1:
			p += "a"
		case 2:
			p = p[:3] + "g"
		case 3:
			p = (p + "0000")[:4] + "zzzz"
		case 4:
			p = (p + "0000")[:7] + "x"
		case 5:
			p = (p + "00000000")[:8] + "0"
		case 6:
			p = "x" + p[1:]
		case 7:
			p = p[:2] + "-" + p[3:]
		default:
			p = (p + "0000")[:6]
		}
		parts[i] = p
	}

	return strings.Join(parts, ".")
}

// --- campaigns ---

// listCampaign: random lists, resets and lookups on the storages and filters.
func listCampaign(c *runner, rng *rand.Rand, n int) {
	for ; n > 0; n-- {
		c.add("psclear", "ok", -1)
		c.psSet = map[string]bool{}
		hosts := make([]string, 3+rng.IntN(6))
		for i := range hosts {
			hosts[i] = genHost(rng)
		}
		for round := 1 + rng.IntN(3); round > 0; round-- {
			i := rng.IntN(3)
			text, names := genList(rng, hosts, c)
			c.opReset(i, text)
			for _, h := range hosts {
				j := i
				if rng.IntN(6) == 0 {
					j = rng.IntN(3)
				}
				c.opFilter(j, h, genQT(rng))
				if rng.IntN(3) == 0 {
					// Same question again: served from the result cache.
					c.opFilter(j, h, genQT(rng))
				}
				if rng.IntN(2) == 0 {
					c.opSubs(h)
				}
				if rng.IntN(2) == 0 {
					s := suffixesOf(h)
					c.opMatches(j, s[rng.IntN(len(s))])
				}
			}
			for _, nm := range names {
				switch rng.IntN(5) {
				case 0:
					c.opMatches(i, nm)
				case 1:
					c.opMatches(i, "# "+nm)
				case 2:
					c.opMatches(i, nm+"\r")
				case 3:
					c.opFilter(i, "www."+nm, genQT(rng))
				}
			}
			for k := rng.IntN(3); k > 0; k-- {
				var prefs []string
				seen := map[string]bool{}
				for q := rng.IntN(4); q > 0; q-- {
					p := fmt.Sprintf("%04x", rng.IntN(65536))
					if len(names) > 0 && rng.IntN(4) > 0 {
						p = prefixOf(names[rng.IntN(len(names))])
					}
					if !seen[p] {
						seen[p] = true
						prefs = append(prefs, p)
					}
				}
				c.opHashes(i, prefs)
			}
		}
		c.opFilterable(uint16(rng.IntN(70)))
		c.finish("list")
	}
}

// txtCampaign: hash-prefix queries through Matcher and the middleware stack.
func txtCampaign(c *runner, rng *rand.Rand, n int) {
	for ; n > 0; n-- {
		c.opMatcherCfg()
		var allNames [3][]string
		for _, i := range c.e.sufStore {
			hosts := make([]string, 2+rng.IntN(5))
			for k := range hosts {
				hosts[k] = genHost(rng)
			}
			text, names := genList(rng, hosts, c)
			c.opReset(i, text)
			allNames[i] = names
		}
		for q := 6 + rng.IntN(8); q > 0; q-- {
			k := rng.IntN(len(c.e.sufs))
			pstr := genPrefixStr(rng, allNames[c.e.sufStore[k]])
			suf := c.e.sufs[k]
			switch rng.IntN(12) {
			case 0:
				suf = strings.TrimPrefix(suf, ".") // "abcdsb.dns…": one label, not a hash query
			case 1:
				suf = ".sb.dns.adguard.org"
			case 2:
				suf += ".example"
			}
			host := pstr + suf
			c.opMBP(host)
			qt := uint16(dns.TypeTXT)
			if rng.IntN(6) == 0 {
				qt = genQT(rng)
			}
			if rng.IntN(5) == 0 {
				host = strings.ToUpper(host)
			}
			if validQName(host) {
				c.opTXT(host, qt)
			}
		}
		// Direct API only: empty prefix string, empty pieces.
		for _, s := range []string{"", ".", "abcd.", ".abcd", "abcd..abcd"} {
			if rng.IntN(3) == 0 {
				c.opMBP(s + c.e.sufs[0])
			}
		}
		c.finish("txt")
	}
}

func validQName(h string) bool {
	if len(h) > 250 || h == "" {
		return false
	}
	for _, l := range strings.Split(h, ".") {
		if l == "" || len(l) > 63 {
			return false
		}
	}

	return true
}

// boundaryCampaign: exhaustive over (base, depth, which single parent is
// listed, question type): the cut-offs at four labels and at the public suffix.
func boundaryCampaign(c *runner) {
	qts := []uint16{dns.TypeA, dns.TypeAAAA, dns.TypeHTTPS, dns.TypeTXT, dns.TypeCNAME}
	for _, base := range bases {
		c.add("psclear", "ok", -1)
		c.psSet = map[string]bool{}
		for depth := 0; depth <= 5; depth++ {
			host := base
			for k := 0; k < depth; k++ {
				host = fmt.Sprintf("l%d.%s", depth-k, host)
			}
			c.opSubs(host)
			for _, listedName := range suffixesOf(host) {
				c.opReset(0, listedName+"\n")
				for _, qt := range qts {
					c.opFilter(0, host, qt)
				}
			}
		}
		c.finish("boundary")
	}
	c.r.Count("boundary.exhaustive_done")
}

// prefixCampaign: prefixesFromStr on random strings and, in the thorough
// tier, on every string up to a length over a small alphabet.
func prefixCampaign(c *runner, rng *rand.Rand, n int, exhaustive bool) {
	for i := 0; i < n; i++ {
		c.opPrefixes(genPrefixStr(rng, nil))
	}
	for _, s := range []string{"", "abcd", "ABCD", "abcD.ABCd", "abcdzzzz", "abcdef01", "abcdef0g", "ab\x00d", "abcd.", ".", "abcd.abcd", "abcdef012", "abc"} {
		c.opPrefixes(s)
	}
	c.finish("prefixes")
	if exhaustive {
		alpha := []byte("af0.gA")
		var rec func(s []byte, left int)
		rec = func(s []byte, left int) {
			c.opPrefixes(string(s))
			if len(c.steps) >= 5000 {
				c.finish("prefixes")
			}
			if left == 0 {
				return
			}
			for _, ch := range alpha {
				rec(append(s, ch), left-1)
			}
		}
		rec(nil, 6)
		// Eight- and nine-character pieces: vary the last five positions.
		var rec2 func(s []byte, left int)
		rec2 = func(s []byte, left int) {
			if left == 0 {
				c.opPrefixes(string(s))
				c.opPrefixes(string(s) + "0")

				return
			}
			for _, ch := range alpha {
				rec2(append(s, ch), left-1)
			}
		}
		rec2([]byte("0af"), 5)
		c.finish("prefixes")
		c.r.Count("prefixes.exhaustive_done")
	}
}

// tooLongCase: the scanner limit; a failed reset must leave the old list in
// force.
func tooLongCase(c *runner) {
	c.add("psclear", "ok", -1)
	c.psSet = map[string]bool{}
	c.opReset(1, "example.com\n")
	c.opFilter(1, "www.example.com", dns.TypeA)
	c.opReset(1, "example.org\n"+strings.Repeat("a", 65536)+"\n")
	c.opFilter(1, "www.example.com", dns.TypeA)
	c.opFilter(1, "www.example.org", dns.TypeA)
	c.opReset(1, "example.org\n"+strings.Repeat("a", 65535)+"\n")
	c.opFilter(1, "www.example.com", dns.TypeA)
	c.opFilter(1, "www.example.org", dns.TypeA)
	c.opReset(1, "example.net\r\n"+strings.Repeat("b", 65535))
	c.opFilter(1, "www.example.net", dns.TypeAAAA)
	c.opReset(1, "")
	c.opFilter(1, "www.example.net", dns.TypeAAAA)
	c.finish("toolong")
}

func main() {
	o := hlib.ParseFlags()
	r := hlib.NewResult("C11", o)
	r.Rule = "list: random list texts (comments, blanks, CRLF, duplicates, padded names) reset through Filter.Refresh, then " +
		"Storage.Matches/Hashes, hashableSubdomains and Filter.FilterRequest on hosts of 1-9 labels over ICANN, private, wildcard, " +
		"exception and unknown suffixes, compared with the Lean model and with an independent set/label oracle; txt: prefix strings " +
		"(valid, legacy, malformed) through Matcher.MatchByPrefix and the production middleware stack; boundary: exhaustive " +
		"base x depth x listed-parent x qtype grid; a list case is non-trivial when it has a listed and an unlisted verdict and a " +
		"true and a false Matches; distinct = distinct op logs"
	m := hlib.StartModel(o.Model, "C11")
	defer m.Close()

	dir, err := os.MkdirTemp("", "agdverif-c11-")
	hlib.Must(err)
	defer func() { _ = os.RemoveAll(dir) }()

	e := newEnv(dir, txtSuffixes, []int{0, 1})
	c := &runner{o: o, r: r, m: m, e: e, ctx: context.Background(), flags: map[string]bool{}, psSet: map[string]bool{}}

	nList, nTxt, nPref := 1500, 800, 4000
	if o.Thorough() {
		nList, nTxt, nPref = 20000, 10000, 40000
	}
	boundaryCampaign(c)
	tooLongCase(c)
	listCampaign(c, o.Rand("list"), nList)
	txtCampaign(c, o.Rand("txt"), nTxt)
	prefixCampaign(c, o.Rand("prefixes"), nPref, o.Thorough())

	// A matcher with a single, different suffix and the third storage.
	e2 := newEnv(dir, []string{".hp.example"}, []int{2})
	c2 := &runner{o: o, r: r, m: m, e: e2, ctx: c.ctx, flags: map[string]bool{}, psSet: map[string]bool{}}
	txtCampaign(c2, o.Rand("txt2"), nTxt/4)

	r.Exhaustive = o.Thorough()
	r.Notes = append(r.Notes, "hash order across prefixes depends on Go map iteration: hash and prefix lists are compared sorted",
		"the filters' result cache is in the loop (repeated questions, refresh between lists); its own properties are C12's")
	r.Finish()
}

var _ = agd.ProtoDNS
