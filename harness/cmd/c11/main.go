// Command c11 is the correspondence harness and property oracle for C11
// (safe-browsing lookups: hash storage, hashable subdomains, hash-prefix TXT
// queries).
package main

import (
	"context"
	"crypto/sha256"
	"encoding/hex"
	"encoding/json"
	"fmt"
	"math/rand/v2"
	"net/netip"
	"net/url"
	"os"
	"os/exec"
	"path/filepath"
	"sort"
	"strings"
	"sync"
	"sync/atomic"
	"time"

	"github.com/AdguardTeam/AdGuardDNS/internal/agd"
	"github.com/AdguardTeam/AdGuardDNS/internal/agdcache"
	"github.com/AdguardTeam/AdGuardDNS/internal/agdtest"
	"github.com/AdguardTeam/AdGuardDNS/internal/dnsmsg"
	"github.com/AdguardTeam/AdGuardDNS/internal/filter"
	"github.com/AdguardTeam/AdGuardDNS/internal/filter/hashprefix"
	"github.com/AdguardTeam/AdGuardDNS/verifh/hlib"
	"github.com/AdguardTeam/AdGuardDNS/verifh/hlib/stack"
	"github.com/AdguardTeam/golibs/logutil/slogutil"
	"github.com/miekg/dns"
	"golang.org/x/net/publicsuffix"
)

// Suffixes of the production matcher (internal/cmd/builder.go).
var txtSuffixes = []string{filter.GeneralTXTSuffix, filter.AdultBlockingTXTSuffix}

// env is the real code under test: three storages behind three filters and a
// matcher behind the production middleware stack.
type env struct {
	dir      string
	strg     [4]*hashprefix.Storage // 0..2 behind the filters, 3 driven directly
	flt      [3]*hashprefix.Filter
	paths    [3]string
	listed   [4]map[string]int // the oracle's own idea of each list
	mtrc     *countMetrics
	msgs     *dnsmsg.Constructor
	matcher  *hashprefix.Matcher
	sufs     []string
	sufStore []int
	st       *stack.Stack
}

// countMetrics records the rule count Filter.refresh reports, the only place
// where the count returned by Storage.Reset surfaces.
type countMetrics struct {
	count map[string]int
	errs  map[string]error
}

// SetFilterStatus implements the [filter.Metrics] interface for *countMetrics.
func (m *countMetrics) SetFilterStatus(_ context.Context, id string, _ time.Time, n int, err error) {
	m.count[id], m.errs[id] = n, err
}

// direct is the index of the storage that is not behind a filter.
const direct = 3

var filterIDs = [3]filter.ID{filter.IDSafeBrowsing, filter.IDAdultBlocking, filter.IDNewRegDomains}
var replHosts = [3]string{"192.0.2.1", "repl.example", "2001:db8::1"}

func newEnv(dir string, sufs []string, sufStore []int) (e *env) {
	e = &env{dir: dir, sufs: sufs, sufStore: sufStore, mtrc: &countMetrics{count: map[string]int{}, errs: map[string]error{}}}
	cloner := agdtest.NewCloner()
	var err error
	e.msgs, err = dnsmsg.NewConstructor(&dnsmsg.ConstructorConfig{
		Cloner:              cloner,
		BlockingMode:        &dnsmsg.BlockingModeNullIP{},
		StructuredErrors:    agdtest.NewSDEConfig(true),
		FilteredResponseTTL: 10 * time.Second,
		EDEEnabled:          true,
	})
	hlib.Must(err)
	e.strg[direct], err = hashprefix.NewStorage("")
	hlib.Must(err)
	e.listed[direct] = map[string]int{}
	for i := range e.flt {
		e.strg[i], err = hashprefix.NewStorage("")
		hlib.Must(err)
		e.paths[i] = filepath.Join(dir, fmt.Sprintf("list%d.txt", i))
		hlib.Must(os.WriteFile(e.paths[i], nil, 0o600))
		e.flt[i], err = hashprefix.NewFilter(&hashprefix.FilterConfig{
			Logger:          slogutil.NewDiscardLogger(),
			Cloner:          cloner,
			CacheManager:    agdcache.EmptyManager{},
			Hashes:          e.strg[i],
			URL:             &url.URL{Scheme: "file", Path: e.paths[i]},
			ErrColl:         &agdtest.ErrorCollector{OnCollect: func(context.Context, error) {}},
			Metrics:         e.mtrc,
			ID:              filterIDs[i],
			CachePath:       e.paths[i] + ".cache",
			ReplacementHost: replHosts[i],
			Staleness:       time.Hour,
			CacheTTL:        time.Hour,
			RefreshTimeout:  time.Second,
			CacheCount:      64,
			MaxSize:         1 << 24,
		})
		hlib.Must(err)
		e.listed[i] = map[string]int{}
	}
	m := map[string]*hashprefix.Storage{}
	for k, s := range sufs {
		m[s] = e.strg[sufStore[k]]
	}
	e.matcher = hashprefix.NewMatcher(m)
	e.st = stack.New(&stack.Config{HashMatcher: e.matcher})

	return e
}

// --- independent oracle definitions (no model, no code under test) ---

// oracleListed is the property's notion of "in the list": lines, minus blank
// lines and comments.
func oracleListed(text string) (set map[string]int, tooLong bool) {
	set = map[string]int{}
	for _, l := range strings.Split(text, "\n") {
		if len(l) >= 65536 {
			tooLong = true
		}
		l = strings.TrimSuffix(l, "\r")
		if l == "" || l[0] == '#' {
			continue
		}
		set[l]++
	}

	return set, tooLong
}

// pslLookup is the oracle's reading of the public suffix list.  It is
// publicsuffix.PublicSuffix with one correction.  The package computes the
// icann result from the last node of its table that the name reaches, also when
// that node is not a rule but only lies on the way to a longer rule; such nodes
// count as ICANN.  So for a name that is, or lies below, an unlisted name between
// a private rule and a longer private rule (dualstack.us-east-1.amazonaws.com
// between us-east-1.amazonaws.com and s3.dualstack.us-east-1.amazonaws.com;
// jelastic.vps-host.net) it returns the private rule with icann = true.  Asked
// about the rule's own name the package ends on the rule's node and answers
// correctly, which is what the correction uses.  (Checked against the rule list
// of golang.org/x/net v0.32.0 for every rule, every parent of a rule and two
// labels below each: no other difference in the suffix or the section, bar the
// ruleless TLD "za", which has no dot and so never matters here.)
func pslLookup(name string) (suf string, icann bool) {
	suf, icann = publicsuffix.PublicSuffix(name)
	if icann && isPrivateRuleName(suf) {
		icann = false
	}

	return suf, icann
}

// isPrivateRuleName: the list, asked about name itself, says name is a public
// suffix of the private section (an unmanaged TLD has no dot).
func isPrivateRuleName(name string) bool {
	if !strings.Contains(name, ".") {
		return false
	}
	s, icann := publicsuffix.PublicSuffix(name)

	return !icann && s == name
}

// lookupFunc is pslLookup or, to reconstruct what the code under test can see,
// publicsuffix.PublicSuffix.
type lookupFunc func(name string) (suf string, icann bool)

// oracleICANNSuffix returns the ICANN public suffix of host according to the
// public suffix list, if it has one.
func oracleICANNSuffix(host string, lookup lookupFunc) (suf string, ok bool) {
	suf, ok = lookup(host)
	for !ok {
		i := strings.IndexByte(suf, '.')
		if i < 0 {
			return "", false
		}
		suf, ok = lookup(suf[i+1:])
	}

	return suf, true
}

// oracleICANNSuffixByParents is a second definition of the same thing that
// does not follow the private suffixes at all: drop labels of the host itself
// until the public suffix list answers with an ICANN rule.  (A private rule
// only wins over the ICANN rule matching the same name while the name has more
// labels than the ICANN rule, so the first ICANN answer on the way up is the
// answer of the ICANN section alone.)  The two definitions are compared on
// every well-formed host; the code under test resembles only the first.
func oracleICANNSuffixByParents(host string) (suf string, ok bool) {
	for _, t := range suffixesOf(host) {
		if s, icann := pslLookup(t); icann {
			return s, true
		}
	}

	return "", false
}

// suffixShape describes how the public suffix list sees host; it is used for
// coverage accounting and signatures only, never for a verdict.
type suffixShape struct {
	// hops is the number of private rules between the host and its ICANN
	// suffix: 0 for example.com, 1 for foo.blogspot.com, 2 for
	// x.go.dyndns.org (go.dyndns.org and dyndns.org are both private rules).
	hops int
	// gap: some private rule on the way is not the direct parent of the
	// previous one (x.w.r.appspot.com: *.r.appspot.com, then appspot.com).
	gap bool
	// icannLabels is the number of labels of the ICANN suffix, 0 if none.
	icannLabels int
}

func shapeOf(host string) (sh suffixShape) {
	suf, icann := pslLookup(host)
	for !icann {
		sh.hops++
		i := strings.IndexByte(suf, '.')
		if i < 0 {
			// Not a rule at all: the implicit "*" of an unmanaged TLD.
			return suffixShape{}
		}
		parent := suf[i+1:]
		suf, icann = pslLookup(parent)
		if !icann && suf != parent {
			sh.gap = true
		}
	}
	sh.icannLabels = len(strings.Split(suf, "."))

	return sh
}

func (sh suffixShape) String() string {
	g := ""
	if sh.gap {
		g = "+gap"
	}

	return fmt.Sprintf("private-hops=%d%s/icann-labels=%d", min(sh.hops, 3), g, min(sh.icannLabels, 3))
}

// oracleCandidates: the host and its parents, at most four labels, strictly
// below the ICANN public suffix; longest first.
func oracleCandidates(host string) (cands []string) {
	return oracleCandidatesWith(host, pslLookup)
}

// oracleCandidatesWith is oracleCandidates over another reading of the list.
func oracleCandidatesWith(host string, lookup lookupFunc) (cands []string) {
	if host == "" {
		return nil
	}
	labels := strings.Split(host, ".")
	suf, hasSuf := oracleICANNSuffix(host, lookup)
	sufLabels := len(strings.Split(suf, "."))
	for k := min(4, len(labels)); k >= 1; k-- {
		if hasSuf && k <= sufLabels {
			break
		}
		cands = append(cands, strings.Join(labels[len(labels)-k:], "."))
	}

	return cands
}

func isHexStr(s string) bool {
	for _, c := range []byte(s) {
		if !(c >= '0' && c <= '9' || c >= 'a' && c <= 'f' || c >= 'A' && c <= 'F') {
			return false
		}
	}

	return true
}

// oraclePrefixes: well-formed = every dot-separated piece is 4 or 8 hex
// characters; the requested prefix is its first four characters.
func oraclePrefixes(s string) (prefs map[string]bool, ok bool) {
	prefs = map[string]bool{}
	if s == "" {
		return prefs, true
	}
	for _, p := range strings.Split(s, ".") {
		if (len(p) != 4 && len(p) != 8) || !isHexStr(p) {
			return nil, false
		}
		prefs[strings.ToLower(p[:4])] = true
	}

	return prefs, true
}

func oracleHashes(set map[string]int, prefs map[string]bool) (want map[string]bool) {
	want = map[string]bool{}
	for n := range set {
		sum := sha256.Sum256([]byte(n))
		h := hex.EncodeToString(sum[:])
		if prefs[h[:4]] {
			want[h] = true
		}
	}

	return want
}

func sameSet(got []string, want map[string]bool) bool {
	seen := map[string]bool{}
	for _, g := range got {
		if !want[g] {
			return false
		}
		seen[g] = true
	}

	return len(seen) == len(want)
}

// --- plumbing ---

func hx(s string) string {
	if s == "" {
		return "-"
	}

	return hex.EncodeToString([]byte(s))
}

func hxList(l []string) string {
	if len(l) == 0 {
		return "-"
	}
	o := make([]string, len(l))
	for i, s := range l {
		o[i] = hx(s)
	}

	return strings.Join(o, " ")
}

// sortedWords sorts the space-separated words of a model answer from position
// from on (hash order across prefixes depends on Go map iteration).
func sortedWords(ans string, from int) string {
	w := strings.Fields(ans)
	if len(w) <= from {
		return ans
	}
	sort.Strings(w[from:])

	return strings.Join(w, " ")
}

type step struct {
	line string
	real string
	sort int // -1: compare verbatim; otherwise sort words from this index
}

type runner struct {
	o     *hlib.Opts
	r     *hlib.Result
	m     *hlib.Model
	e     *env
	steps []step
	psSet map[string]bool
	ctx   context.Context
	flags map[string]bool
}

func (c *runner) add(line, real string, sortFrom int) {
	c.steps = append(c.steps, step{line: line, real: real, sort: sortFrom})
}

func (c *runner) replay() []string {
	out := make([]string, 0, len(c.steps))
	for _, s := range c.steps {
		if len(s.line) > 400 {
			out = append(out, s.line[:400]+"…")
		} else {
			out = append(out, s.line)
		}
	}
	if len(out) > 60 {
		out = out[len(out)-60:]
	}

	return out
}

// finish sends the case to the model and compares.
func (c *runner) finish(kind string) {
	lines := make([]string, len(c.steps))
	for i, s := range c.steps {
		lines[i] = s.line
	}
	c.m.ResetLog()
	answers := c.m.Batch(lines)
	for i, s := range c.steps {
		got := answers[i]
		real := s.real
		if s.sort >= 0 {
			got, real = sortedWords(got, s.sort), sortedWords(real, s.sort)
		}
		if got != real {
			ctxLines := []string{}
			for j := max(0, i-6); j <= i; j++ {
				l := lines[j]
				if len(l) > 300 {
					l = l[:300] + "…"
				}
				ctxLines = append(ctxLines, l)
			}
			c.r.Disagree("model-vs-impl:"+strings.Fields(s.line)[0],
				fmt.Sprintf("op %q: implementation %q, model %q", trunc(s.line), trunc(real), trunc(got)),
				map[string]any{"ops_tail": ctxLines, "note": "byte strings are hex; full history = resets before this op"})

			break
		}
	}
	c.r.ModelOps += len(lines)
	c.r.Traces++
	canon := strings.Join(lines, "\n")
	nontrivial := true
	for _, f := range c.flagsNeeded(kind) {
		if !c.flags[f] {
			nontrivial = false
		}
	}
	c.r.Case(canon, nontrivial)
	if nontrivial {
		c.r.Sample(map[string]any{"kind": kind, "ops": c.replaySample()}, 6)
	}
	c.steps = c.steps[:0]
	c.flags = map[string]bool{}
}

func (c *runner) flagsNeeded(kind string) []string {
	switch kind {
	case "list":
		return []string{"filter.matched", "filter.none", "matches.true", "matches.false"}
	case "txt":
		return []string{"txt.answer"}
	case "question":
		return []string{"question.none"}
	case "boundary", "suffixrule":
		return []string{"filter.matched", "filter.none"}
	default:
		return nil
	}
}

func (c *runner) replaySample() []string {
	out := []string{}
	for i, s := range c.steps {
		if i >= 12 {
			break
		}
		out = append(out, trunc(s.line)+" => "+trunc(s.real))
	}

	return out
}

func trunc(s string) string {
	if len(s) > 240 {
		return s[:240] + "…"
	}

	return s
}

func (c *runner) flag(f string) {
	c.flags[f] = true
	c.r.Count(f)
}

// --- operations: each runs the real code, the property oracle, and records the
// model line ---

// opReset replaces list i: through Filter.Refresh for the storages behind the
// filters, through Storage.Reset for the direct one.
func (c *runner) opReset(i int, text string) {
	var err error
	var got int
	if i == direct {
		got, err = c.e.strg[i].Reset(text)
	} else {
		hlib.Must(os.WriteFile(c.e.paths[i], []byte(text), 0o600))
		err = c.e.flt[i].Refresh(c.ctx)
		got = c.e.mtrc.count[string(filterIDs[i])]
	}
	real := "err"
	set, tooLong := oracleListed(text)
	if err == nil {
		n := 0
		for _, k := range set {
			n += k
		}
		if got != n {
			c.r.Violate("reset-count-wrong", fmt.Sprintf("Reset of list %d counted %d names, the text has %d", i, got, n), c.replayWith("reset", i, text))
		}
		if tooLong {
			// Not part of the property; the model comparison reports it.
			c.r.Count("reset.ok_but_oracle_too_long")
		}
		real = fmt.Sprintf("ok %d", got)
		c.e.listed[i] = set
		c.flag("reset.ok")
	} else {
		if !tooLong {
			c.r.Violate("reset-failed", fmt.Sprintf("Reset of list %d failed: %v", i, err), c.replayWith("reset", i, text))
		}
		c.flag("reset.err")
	}
	c.add(fmt.Sprintf("reset %d %s", i, hx(text)), real, -1)
}

// opNew replaces the direct storage by NewStorage(text).
func (c *runner) opNew(text string) {
	st, err := hashprefix.NewStorage(text)
	set, tooLong := oracleListed(text)
	real := "ok"
	if err != nil {
		real = "err"
		if !tooLong {
			c.r.Violate("reset-failed", fmt.Sprintf("NewStorage failed: %v", err), c.replayWith("new", text))
		}
		st, err = hashprefix.NewStorage("")
		hlib.Must(err)
		set = map[string]int{}
		c.flag("new.err")
	} else {
		c.flag("new.ok")
	}
	c.e.strg[direct], c.e.listed[direct] = st, set
	c.add(fmt.Sprintf("new %d %s", direct, hx(text)), real, -1)
}

func (c *runner) opMatches(i int, host string) {
	got := c.e.strg[i].Matches(host)
	_, want := c.e.listed[i][host]
	if got != want {
		c.r.Violate("storage-matches-not-iff-listed",
			fmt.Sprintf("Storage.Matches(%q) = %v but listed = %v", host, got, want), c.replayWith("matches", host))
	}
	real := "0"
	if got {
		real = "1"
		c.flag("matches.true")
	} else {
		c.flag("matches.false")
	}
	c.add(fmt.Sprintf("matches %d %s", i, hx(host)), real, -1)
}

// opMatchAny runs Storage.MatchesAny, the one look at the list a question gets:
// the first of the hosts that is a name of the list.
func (c *runner) opMatchAny(i int, hosts []string) {
	got := c.e.strg[i].MatchesAny(hosts)
	want := ""
	for _, h := range hosts {
		if _, ok := c.e.listed[i][h]; ok {
			want = h

			break
		}
	}
	if got != want {
		c.r.Violate("storage-first-match-wrong",
			fmt.Sprintf("Storage.MatchesAny(%q) = %q, the first listed one is %q", hosts, got, want), c.replayWith("matchany", i, hosts))
	}
	real := "none"
	if got != "" {
		real = "rule " + hx(got)
		c.flag("matchany.some")
	} else {
		c.flag("matchany.none")
	}
	line := fmt.Sprintf("matchany %d", i)
	for _, h := range hosts {
		line += " " + hx(h)
	}
	c.add(line, real, -1)
}

func (c *runner) replayWith(op string, args ...any) map[string]any {
	return map[string]any{"op": op, "args": args, "history_hex_ops": c.replay()}
}

func (c *runner) opHashes(i int, prefs []string) {
	ps := make([]hashprefix.Prefix, len(prefs))
	pm := map[string]bool{}
	for k, p := range prefs {
		_, err := hex.Decode(ps[k][:], []byte(p))
		hlib.Must(err)
		pm[p] = true
	}
	got := c.e.strg[i].Hashes(ps)
	want := oracleHashes(c.e.listed[i], pm)
	if !sameSet(got, want) {
		c.r.Violate("storage-hashes-not-exact",
			fmt.Sprintf("Storage.Hashes(%v) = %v, want set %v", prefs, got, hlib.SortedKeys(want)), c.replayWith("hashes", prefs))
	}
	switch len(want) {
	case 0:
		c.flag("hashes.0")
	case 1:
		c.flag("hashes.1")
	default:
		c.flag("hashes.2+")
	}
	real := "-"
	if len(got) > 0 {
		real = strings.Join(got, " ")
	}
	c.add(fmt.Sprintf("hashes %d %s", i, strings.Join(prefs, " ")), real, 0)
}

func (c *runner) opPrefixes(s string) {
	got, err := hashprefix.VerifC11PrefixesFromStr(s)
	want, ok := oraclePrefixes(s)
	c.checkPrefixOracle("prefixes", s, got, err, want, ok)
	real := "err"
	if err == nil {
		l := make([]string, len(got))
		for k, p := range got {
			l[k] = hex.EncodeToString(p[:])
		}
		real = "-"
		if len(l) > 0 {
			real = strings.Join(l, " ")
		}
		c.flag("prefixes.ok")
	} else {
		c.flag("prefixes.err")
	}
	c.add("prefixes "+hx(s), real, 0)
}

func (c *runner) checkPrefixOracle(op, s string, got []hashprefix.Prefix, err error, want map[string]bool, ok bool) {
	if ok && err != nil {
		c.r.Violate("wellformed-prefix-refused", fmt.Sprintf("prefix string %q refused: %v", s, err), c.replayWith(op, s))
	} else if !ok && err == nil {
		sig := "malformed-prefix-accepted"
		if legacyTailOnly(s) {
			sig = "malformed-legacy-prefix-accepted"
		}
		c.r.Violate(sig, fmt.Sprintf("malformed prefix string %q accepted as %x", s, got), c.replayWith(op, s))
	} else if ok {
		gs := map[string]bool{}
		for _, p := range got {
			gs[hex.EncodeToString(p[:])] = true
		}
		if len(gs) != len(want) {
			c.r.Violate("prefix-set-wrong", fmt.Sprintf("prefix string %q parsed as %x", s, got), c.replayWith(op, s))
		}
		for p := range want {
			if !gs[p] {
				c.r.Violate("prefix-set-wrong", fmt.Sprintf("prefix string %q parsed as %x", s, got), c.replayWith(op, s))
			}
		}
	}
}

// legacyTailOnly: the only thing wrong with s is a non-hex tail of an
// eight-character piece (the defect fixed by a7f0f3a).
func legacyTailOnly(s string) bool {
	bad := false
	for _, p := range strings.Split(s, ".") {
		switch {
		case len(p) == 4 && isHexStr(p):
		case len(p) == 8 && isHexStr(p):
		case len(p) == 8 && isHexStr(p[:4]):
			bad = true
		default:
			return false
		}
	}

	return bad
}

// emitPS sends the PublicSuffix table entries the model may need for host.
func (c *runner) emitPS(host string) {
	d := host
	for {
		if !c.psSet[d] {
			c.psSet[d] = true
			suf, icann := publicsuffix.PublicSuffix(d)
			ic := 0
			if icann {
				ic = 1
			}
			c.add(fmt.Sprintf("ps %s %s %d", hx(d), hx(suf), ic), "ok", -1)
		}
		i := strings.IndexByte(d, '.')
		if i < 0 {
			break
		}
		d = d[i+1:]
	}
}

// sigInteriorName is the signature of the recorded finding: a private rule that
// the package reports with icann = true (see pslLookup) is taken for the ICANN
// suffix, so it and its parents below the real ICANN suffix are not looked up.
const sigInteriorName = "private-rule-reported-icann-parents-not-hashed"

func (c *runner) opSubs(host string) {
	c.emitPS(host)
	got := hashprefix.VerifC11HashableSubdomains(host)
	want := oracleCandidates(host)
	c.checkSuffixDefs(host)
	wantRaw := oracleCandidatesWith(host, publicsuffix.PublicSuffix)
	quirk := strings.Join(dropEmpty(want), " ") != strings.Join(dropEmpty(wantRaw), " ")
	if quirk {
		c.flag("psl.private_rule_reported_icann")
	}
	// The empty name can never be listed; ignore it on both sides.
	if g, w := dropEmpty(got), dropEmpty(want); strings.Join(g, " ") != strings.Join(w, " ") {
		sig := "hashable-subdomains-wrong"
		if _, ok := oracleICANNSuffix(host, pslLookup); ok {
			if s, icann := pslLookup(host); !icann && s != "" {
				switch {
				case quirk && strings.Join(g, " ") == strings.Join(dropEmpty(wantRaw), " "):
					// Exactly what follows from believing the icann result of
					// the package where pslLookup does not; nothing else gets
					// this signature.
					sig = sigInteriorName
				case len(g) < len(w) && shapeOf(host).hops >= 2:
					sig = "nested-private-suffix-parent-not-hashed"
				case len(g) < len(w):
					sig = "private-suffix-parent-not-hashed"
				default:
					sig = "private-suffix-hashes-public-suffix"
				}
			}
		}
		c.r.Violate(sig, fmt.Sprintf("hashableSubdomains(%q) = %q, property says %q", host, got, want), c.replayWith("subs", host))
	}
	c.r.Count(fmt.Sprintf("subs.len=%d", len(got)))
	if validQName(host) {
		c.r.Count("subs.shape:" + shapeOf(host).String())
	}
	c.add("subs "+hx(host), hxList(got), -1)
}

// checkSuffixDefs compares the two definitions of "the ICANN public suffix of
// host" the oracle has.  A difference is a defect of the oracle (or of the
// public suffix package), not of the code under test.
func (c *runner) checkSuffixDefs(host string) {
	if !validQName(host) {
		return
	}
	s1, ok1 := oracleICANNSuffix(host, pslLookup)
	s2, ok2 := oracleICANNSuffixByParents(host)
	if s1 != s2 || ok1 != ok2 {
		c.r.Disagree("oracle-icann-suffix-definitions-differ",
			fmt.Sprintf("host %q: via private suffixes %q/%v, via the host's parents %q/%v", host, s1, ok1, s2, ok2), nil)
	}
}

// isPrivateSuffixName: name is an entry of the private section of the public
// suffix list (an unmanaged TLD is not an entry of anything).
func isPrivateSuffixName(name string) bool {
	return validQName(name) && isPrivateRuleName(name)
}

func slicesContains(l []string, x string) bool {
	for _, s := range l {
		if s == x {
			return true
		}
	}

	return false
}

func dropEmpty(l []string) (o []string) {
	for _, s := range l {
		if s != "" {
			o = append(o, s)
		}
	}

	return o
}

func (c *runner) opFilterable(qt uint16) {
	got := hashprefix.VerifC11IsFilterable(qt)
	want := qt == dns.TypeA || qt == dns.TypeAAAA || qt == dns.TypeHTTPS
	if got != want {
		c.r.Violate("filterable-qtype-wrong", fmt.Sprintf("isFilterable(%d) = %v", qt, got), c.replayWith("filterable", qt))
	}
	real := "0"
	if got {
		real = "1"
	}
	c.add(fmt.Sprintf("filterable %d", qt), real, -1)
}

// opFilter runs Filter.FilterRequest.  host must be usable as a DNS question
// name only as far as dns.Fqdn goes: the filter looks at req.Host.
func (c *runner) opFilter(i int, host string, qt uint16) {
	c.emitPS(host)
	req := &dns.Msg{}
	req.SetQuestion(dns.Fqdn(host), qt)
	var rule string
	matched := false
	var ferr error
	func() {
		defer func() {
			if p := recover(); p != nil {
				ferr = fmt.Errorf("panic: %v", p)
			}
		}()
		res, err := c.e.flt[i].FilterRequest(c.ctx, &filter.Request{
			DNS: req, Messages: c.e.msgs, Host: host, QType: qt, QClass: dns.ClassINET,
			RemoteIP: netip.MustParseAddr("192.0.2.7"),
		})
		ferr = err
		switch res := res.(type) {
		case nil:
		case *filter.ResultModifiedRequest:
			matched, rule = true, string(res.Rule)
		case *filter.ResultModifiedResponse:
			matched, rule = true, string(res.Rule)
		default:
			ferr = fmt.Errorf("unexpected result %T", res)
		}
	}()
	if ferr != nil {
		c.r.Violate("filter-request-failed", fmt.Sprintf("FilterRequest(%q, %d) on list %d: %v", host, qt, i, ferr), c.replayWith("filter", i, host, qt))
	}
	// Property oracle.
	filterable := qt == dns.TypeA || qt == dns.TypeAAAA || qt == dns.TypeHTTPS
	var listedCand []string
	for _, s := range oracleCandidates(host) {
		if _, ok := c.e.listed[i][s]; ok && s != "" {
			listedCand = append(listedCand, s)
		}
	}
	want := filterable && len(listedCand) > 0
	wantRaw := false
	for _, s := range oracleCandidatesWith(host, publicsuffix.PublicSuffix) {
		if _, ok := c.e.listed[i][s]; ok && s != "" && filterable {
			wantRaw = true
		}
	}
	if matched && !want {
		sig := "filter-matched-without-listed-parent"
		if !filterable {
			sig = "filter-matched-non-address-qtype"
		} else if _, ok := c.e.listed[i][rule]; ok {
			if s, icann := publicsuffix.PublicSuffix(rule); icann && s == rule {
				sig = "filter-matched-by-public-suffix-entry"
			} else if len(strings.Split(rule, ".")) > 4 {
				sig = "filter-matched-beyond-four-labels"
			}
		}
		c.r.Violate(sig, fmt.Sprintf("host %q qtype %d treated as listed (rule %q) on list %d, but no parent of at most four labels below the public suffix is listed",
			host, qt, rule, i), c.replayWith("filter", i, host, qt))
	} else if !matched && want && ferr == nil {
		sig := "filter-missed-listed-parent"
		if !wantRaw {
			sig = sigInteriorName
		}
		for _, lc := range listedCand {
			if !wantRaw {
				break
			}
			if isPrivateSuffixName(lc) {
				// The listed name is itself an entry of the private section:
				// a registrable domain (dyndns.org, blogspot.com) that its
				// owner offers sub-registrations under.
				sig = "filter-missed-listed-private-suffix-domain"
			}
		}
		c.r.Violate(sig, fmt.Sprintf("host %q qtype %d not treated as listed on list %d although %q is listed",
			host, qt, i, listedCand), c.replayWith("filter", i, host, qt))
	}
	if matched && want && !slicesContains(listedCand, rule) {
		c.r.Violate("filter-rule-not-a-listed-parent", fmt.Sprintf("host %q qtype %d on list %d: reported rule %q is not one of the listed parents %q",
			host, qt, i, rule, listedCand), c.replayWith("filter", i, host, qt))
	}
	real := "none"
	switch {
	case matched:
		real = "rule " + hx(rule)
		c.flag("filter.matched")
		if isPrivateSuffixName(rule) {
			c.flag("filter.matched_by_private_suffix_domain")
			if ps, icann := pslLookup(host); !icann && strings.HasSuffix(ps, "."+rule) {
				// The host's own public suffix is a longer private rule
				// registered below the listed one (go.dyndns.org below
				// dyndns.org).
				c.flag("filter.matched_by_outer_private_suffix_domain")
			}
		}
	case !filterable:
		c.flag("filter.unfilterable")
	default:
		c.flag("filter.none")
	}
	c.add(fmt.Sprintf("filter %d %s %d", i, hx(host), qt), real, -1)
}

func (c *runner) opMatcherCfg() {
	parts := []string{"matcher"}
	for k, s := range c.e.sufs {
		parts = append(parts, hx(s), fmt.Sprint(c.e.sufStore[k]))
	}
	c.add(strings.Join(parts, " "), "ok", -1)
}

// sufOf returns the index of the configured suffix host ends with.
func (c *runner) sufOf(host string) int {
	for k, s := range c.e.sufs {
		if strings.HasSuffix(host, s) {
			return k
		}
	}

	return -1
}

func (c *runner) opMBP(host string) {
	got, matched, err := c.e.matcher.MatchByPrefix(c.ctx, host)
	k := c.sufOf(host)
	real := "nomatch"
	switch {
	case err != nil:
		real = "err"
	case matched:
		real = "ok -"
		if len(got) > 0 {
			real = "ok " + strings.Join(got, " ")
		}
	}
	if k < 0 {
		if matched || err != nil {
			c.r.Violate("non-hash-query-not-passed", fmt.Sprintf("MatchByPrefix(%q) = matched %v err %v", host, matched, err), c.replayWith("mbp", host))
		}
		c.flag("mbp.nomatch")
	} else {
		pstr := strings.TrimSuffix(host, c.e.sufs[k])
		want, ok := oraclePrefixes(pstr)
		switch {
		case !ok && err == nil:
			sig := "malformed-prefix-accepted"
			if legacyTailOnly(pstr) {
				sig = "malformed-legacy-prefix-accepted"
			}
			c.r.Violate(sig, fmt.Sprintf("MatchByPrefix(%q): malformed prefix answered with %v", host, got), c.replayWith("mbp", host))
		case ok && err != nil:
			c.r.Violate("wellformed-prefix-refused", fmt.Sprintf("MatchByPrefix(%q): %v", host, err), c.replayWith("mbp", host))
		case ok:
			if !matched || !sameSet(got, oracleHashes(c.e.listed[c.e.sufStore[k]], want)) {
				c.r.Violate("prefix-query-hashes-not-exact", fmt.Sprintf("MatchByPrefix(%q) = %v (matched %v), want %v", host, got, matched,
					hlib.SortedKeys(oracleHashes(c.e.listed[c.e.sufStore[k]], want))), c.replayWith("mbp", host))
			}
		}
		if err != nil {
			c.flag("mbp.err")
		} else {
			c.flag("mbp.ok")
		}
	}
	c.add("mbp "+hx(host), real, 1)
}

// opTXT sends a question through the production middleware stack.
func (c *runner) opTXT(qname string, qt uint16) {
	req := &dns.Msg{}
	req.SetQuestion(dns.Fqdn(qname), qt)
	req.Id = 4242
	host := strings.ToLower(strings.TrimSuffix(dns.Fqdn(qname), "."))
	before := c.e.st.Effects.Upstream.Load()
	var out stack.Outcome
	var perr any
	func() {
		defer func() { perr = recover() }()
		out = c.e.st.Serve(c.ctx, &stack.Req{
			Server: c.e.st.Servers[0], Msg: req,
			Remote: netip.MustParseAddrPort("192.0.2.7:5353"), Local: netip.MustParseAddrPort("192.0.2.1:53"),
		})
	}()
	ups := c.e.st.Effects.Upstream.Load() - before
	rep := c.replayWith("txt", qname, qt)
	if perr != nil || out.Err != nil || out.Resp == nil {
		c.r.Violate("txt-query-failed", fmt.Sprintf("question %q type %d: panic %v err %v resp %v", qname, qt, perr, out.Err, out.Resp), rep)
		c.add(fmt.Sprintf("qtxt %s %d", hx(dns.Fqdn(qname)), qt), "failed", -1)

		return
	}
	resp := out.Resp
	var txts []string
	isTXTAnswer := false
	if ups == 0 && resp.Rcode == dns.RcodeSuccess && len(resp.Answer) == 1 {
		if t, ok := resp.Answer[0].(*dns.TXT); ok {
			isTXTAnswer, txts = true, t.Txt
		}
	}
	real := "?"
	switch {
	case ups == 1:
		real = "pass"
	case ups == 0 && resp.Rcode == dns.RcodeRefused:
		real = "refused"
	case isTXTAnswer:
		real = "txt -"
		if len(txts) > 0 {
			real = "txt " + strings.Join(txts, " ")
		}
	default:
		real = fmt.Sprintf("other rcode=%d ups=%d", resp.Rcode, ups)
	}
	k := c.sufOf(host)
	switch {
	case qt != dns.TypeTXT || k < 0:
		if real != "pass" {
			c.r.Violate("non-hash-query-not-passed", fmt.Sprintf("question %q type %d is not a hash-prefix query but was answered %q", qname, qt, trunc(real)), rep)
		}
		c.flag("txt.pass")
	default:
		pstr := strings.TrimSuffix(host, c.e.sufs[k])
		want, ok := oraclePrefixes(pstr)
		switch {
		case !ok && ups > 0:
			c.r.Violate("malformed-prefix-forwarded", fmt.Sprintf("TXT %q: malformed prefix forwarded upstream", qname), rep)
		case !ok && real != "refused":
			sig := "malformed-prefix-accepted"
			if legacyTailOnly(pstr) {
				sig = "malformed-legacy-prefix-accepted"
			}
			c.r.Violate(sig, fmt.Sprintf("TXT %q: malformed prefix answered %q instead of REFUSED", qname, trunc(real)), rep)
		case ok && !isTXTAnswer:
			c.r.Violate("wellformed-prefix-refused", fmt.Sprintf("TXT %q: answered %q", qname, trunc(real)), rep)
		case ok:
			wh := oracleHashes(c.e.listed[c.e.sufStore[k]], want)
			if !sameSet(txts, wh) {
				c.r.Violate("prefix-query-hashes-not-exact", fmt.Sprintf("TXT %q answered %v, want %v", qname, txts, hlib.SortedKeys(wh)), rep)
			}
			if len(wh) > 0 {
				c.flag("txt.answer")
			} else {
				c.flag("txt.answer_empty")
			}
		}
		if !ok {
			c.flag("txt.refused")
		}
	}
	if qname != host {
		c.r.Count("txt.question_not_normalised")
	}
	// The model gets the question name as sent (case, final dot) and
	// normalises it itself.
	c.add(fmt.Sprintf("qtxt %s %d", hx(dns.Fqdn(qname)), qt), real, 1)
}

// --- generators ---

var bases = []string{
	"example.com", "test.co.uk", "foo.blogspot.com", "bucket.s3.amazonaws.com", "city.kawasaki.jp",
	"x.y.kawasaki.jp", "school.pvt.k12.ma.us", "host.lan", "com", "co.uk", "blogspot.com", "lan",
	"example.org", "github.io", "user.github.io", "a.b.c.compute.amazonaws.com", "kawasaki.jp", "k12.ma.us",
	// Private rules below private rules, below a two-label ICANN suffix, and of
	// five labels (see suffixRules).
	"go.dyndns.org", "w.r.appspot.com", "foo.blogspot.co.uk", "functions.fnc.fr-par.scw.cloud",
}

// suffixRules are names of rules of the PRIVATE section of the public suffix
// list ("w" stands for the label under a wildcard rule), chosen by the shape of
// what lies between them and their ICANN suffix.  Nothing below relies on a
// particular entry still being in the list: every host is classified with
// shapeOf at run time, the shapes reached are counted, and main complains when
// a whole class has gone.
var suffixRules = []string{
	// A private rule registered below another private rule.
	"go.dyndns.org", "home.dyndns.org", "us-east-1.elasticbeanstalk.com", "dev.static.land", "ap.ngrok.io",
	"fr.eu.org", "a.run.app", "1.azurestaticapps.net", "id.repl.co", "dyn.ddnss.de", "localhost.daplie.me", "d.gv.vc",
	"storage.yandexcloud.net", "service.gov.scot", "eu.pythonanywhere.com", "mock.pstmn.io",
	// The same with a wildcard inner rule, with and without an unlisted name
	// between the two rules.
	"w.r.appspot.com", "w.dev.adobeaemcloud.com", "w.hosting.myjino.ru", "w.sys.qcx.io", "w.oci.customer-oci.com",
	"w.bzz.dapps.earth", "w.svc.firenet.ch", "w.ex.futurecms.at",
	// Nested rules of four and five labels: the four-label cut falls inside.
	"functions.fnc.fr-par.scw.cloud", "nodes.k8s.nl-ams.scw.cloud", "analytics-gateway.us-east-1.amazonaws.com",
	// A single private rule below an ICANN suffix of two labels.
	"blogspot.co.uk", "blogspot.com.au", "blogspot.co.za", "cn-north-1.eb.amazonaws.com.cn", "w.compute.amazonaws.com.cn",
	// Private rules with an unlisted name between them and the private rule
	// they are registered under: the parents of these are the names for which
	// the package reports the outer private rule as ICANN (see pslLookup).
	"atl.jelastic.vps-host.net", "vfs.cloud9.us-east-1.amazonaws.com", "webview-assets.aws-cloud9.us-east-1.amazonaws.com",
	// A single private rule of many labels, or directly below a TLD.
	"s3.dualstack.us-east-1.amazonaws.com", "w.elb.amazonaws.com", "uk.com", "priv.at", "co.ca", "pages.dev",
	"cloudfront.net", "githubusercontent.com",
}

// families are the names sharing a storage bucket, see bucketFamilies.
var families []family

var labelPool = []string{"a", "b", "www", "x", "cdn"}

func genHost(rng *rand.Rand) string {
	h := bases[rng.IntN(len(bases))]
	if rng.IntN(3) == 0 {
		// A private rule or a name around it: the rule itself, the name it is
		// registered under, hosts below either.
		sufs := suffixesOf(suffixRules[rng.IntN(len(suffixRules))])
		h = sufs[rng.IntN(min(2, len(sufs)))]
	}
	for k := rng.IntN(6); k > 0; k-- {
		h = labelPool[rng.IntN(len(labelPool))] + "." + h
	}
	if rng.IntN(25) == 0 {
		// Malformed stream: names the DNS layer would not hand over, but the
		// filter API accepts.
		switch rng.IntN(6) {
		case 0:
			h += "."
		case 1:
			h = "." + h
		case 2:
			h = strings.Replace(h, ".", "..", 1)
		case 3:
			h = ""
		case 4:
			h = strings.ToUpper(h)
		default:
			h = "a\\.b." + h + "\x00\xff"
		}
	}

	return h
}

func suffixesOf(h string) (out []string) {
	for {
		out = append(out, h)
		i := strings.IndexByte(h, '.')
		if i < 0 {
			return out
		}
		h = h[i+1:]
	}
}

// genList builds a list text around the given hosts: some of their parents,
// decoys, comments, blank lines, CRLF, duplicates.
func genList(rng *rand.Rand, hosts []string, c *runner) (text string, names []string) {
	var lines []string
	for _, h := range hosts {
		if rng.IntN(3) == 0 {
			continue
		}
		sufs := suffixesOf(h)
		names = append(names, sufs[rng.IntN(len(sufs))])
	}
	for k := rng.IntN(4); k > 0; k-- {
		names = append(names, genHost(rng))
	}
	for _, n := range names {
		if n == "" {
			continue
		}
		lines = append(lines, n)
		switch rng.IntN(12) {
		case 0:
			lines = append(lines, "# "+n)
			c.r.Count("list.comment")
		case 1:
			lines = append(lines, "")
			c.r.Count("list.blank")
		case 2:
			lines = append(lines, n)
			c.r.Count("list.duplicate")
		case 3:
			lines = append(lines, "#"+genHost(rng))
			c.r.Count("list.comment")
		case 4:
			lines = append(lines, " "+n, n+" ")
			c.r.Count("list.spaces")
		}
	}
	rng.Shuffle(len(lines), func(i, j int) { lines[i], lines[j] = lines[j], lines[i] })
	nl := "\n"
	if rng.IntN(4) == 0 {
		nl = "\r\n"
		c.r.Count("list.crlf")
	}
	text = strings.Join(lines, nl)
	if rng.IntN(2) == 0 && text != "" {
		text += nl
	}
	if rng.IntN(10) == 0 {
		text += "\r"
	}

	return text, names
}

var qtypes = []uint16{dns.TypeA, dns.TypeAAAA, dns.TypeHTTPS, dns.TypeTXT, dns.TypeCNAME, dns.TypeNS, dns.TypeANY, dns.TypeSVCB, dns.TypeMX}

func genQT(rng *rand.Rand) uint16 {
	if rng.IntN(3) > 0 {
		return qtypes[rng.IntN(3)]
	}

	return qtypes[rng.IntN(len(qtypes))]
}

func prefixOf(name string) string {
	sum := sha256.Sum256([]byte(name))

	return hex.EncodeToString(sum[:2])
}

func fullHash(name string) string {
	sum := sha256.Sum256([]byte(name))

	return hex.EncodeToString(sum[:])
}

// genPrefixStr: mostly valid, with a malformed stream.
func genPrefixStr(rng *rand.Rand, names []string) string {
	n := 1 + rng.IntN(3)
	if rng.IntN(8) == 0 {
		// Many pieces: a question name has room for about forty.
		n = 4 + rng.IntN(37)
	}
	parts := make([]string, n)
	for i := range parts {
		var p string
		if len(names) > 0 && rng.IntN(3) > 0 {
			nm := names[rng.IntN(len(names))]
			p = prefixOf(nm)
			if rng.IntN(4) == 0 {
				p = fullHash(nm)[:8] // legacy
			}
		} else {
			p = fmt.Sprintf("%04x", rng.IntN(65536))
		}
		parts[i] = p
	}
	if rng.IntN(5) == 0 {
		// Upper-case digits, also in the discarded tail of a legacy piece: still
		// well-formed (question names arrive lower-cased, the API takes both).
		i := rng.IntN(n)
		b := []byte(parts[i])
		for k := range b {
			if rng.IntN(3) == 0 {
				b[k] = strings.ToUpper(string(b[k]))[0]
			}
		}
		parts[i] = string(b)
	}
	if rng.IntN(3) == 0 {
		i := rng.IntN(n)
		p := parts[i]
		switch rng.IntN(9) {
		case 0:
			p = p[:3]
		case 1:
			p += "a"
		case 2:
			p = p[:3] + "g"
		case 3:
			p = (p + "0000")[:4] + "zzzz"
		case 4:
			p = (p + "0000")[:7] + "x"
		case 5:
			p = (p + "00000000")[:8] + "0"
		case 6:
			p = "x" + p[1:]
		case 7:
			p = p[:2] + "-" + p[3:]
		default:
			p = (p + "0000")[:6]
		}
		parts[i] = p
	}

	return strings.Join(parts, ".")
}

// --- campaigns ---

// listCampaign: random lists, resets and lookups on the storages and filters.
func listCampaign(c *runner, rng *rand.Rand, n int) {
	for ; n > 0; n-- {
		c.add("psclear", "ok", -1)
		c.psSet = map[string]bool{}
		hosts := make([]string, 3+rng.IntN(6))
		for i := range hosts {
			hosts[i] = genHost(rng)
		}
		if len(families) > 0 && rng.IntN(4) == 0 {
			// Several names of one storage bucket among the others.
			fam := families[rng.IntN(len(families))]
			for k := 2 + rng.IntN(3); k > 0; k-- {
				h := fam.names[rng.IntN(len(fam.names))]
				if rng.IntN(2) == 0 {
					h = labelPool[rng.IntN(len(labelPool))] + "." + h
				}
				hosts[rng.IntN(len(hosts))] = h
			}
			c.r.Count("list.bucket_family")
		}
		for round := 1 + rng.IntN(3); round > 0; round-- {
			i := rng.IntN(3)
			text, names := genList(rng, hosts, c)
			c.opReset(i, text)
			for _, h := range hosts {
				j := i
				if rng.IntN(6) == 0 {
					j = rng.IntN(3)
				}
				c.opFilter(j, h, genQT(rng))
				if rng.IntN(3) == 0 {
					// Same question again: served from the result cache.
					c.opFilter(j, h, genQT(rng))
				}
				if rng.IntN(2) == 0 {
					c.opSubs(h)
				}
				if rng.IntN(2) == 0 {
					s := suffixesOf(h)
					c.opMatches(j, s[rng.IntN(len(s))])
				}
				if rng.IntN(3) == 0 {
					// Any hosts, in any order, not only the hashable subdomains.
					s := append([]string(nil), suffixesOf(h)...)
					if len(names) > 0 && rng.IntN(2) == 0 {
						s = append(s, names[rng.IntN(len(names))])
					}
					if rng.IntN(4) == 0 {
						s = append(s, "")
					}
					rng.Shuffle(len(s), func(a, b int) { s[a], s[b] = s[b], s[a] })
					c.opMatchAny(j, s[:rng.IntN(len(s)+1)])
				}
			}
			for _, nm := range names {
				switch rng.IntN(5) {
				case 0:
					c.opMatches(i, nm)
				case 1:
					c.opMatches(i, "# "+nm)
				case 2:
					c.opMatches(i, nm+"\r")
				case 3:
					c.opFilter(i, "www."+nm, genQT(rng))
				}
			}
			for k := rng.IntN(3); k > 0; k-- {
				var prefs []string
				seen := map[string]bool{}
				for q := rng.IntN(4); q > 0; q-- {
					p := fmt.Sprintf("%04x", rng.IntN(65536))
					if len(names) > 0 && rng.IntN(4) > 0 {
						p = prefixOf(names[rng.IntN(len(names))])
					}
					if !seen[p] {
						seen[p] = true
						prefs = append(prefs, p)
					}
				}
				c.opHashes(i, prefs)
			}
		}
		c.opFilterable(uint16(rng.IntN(70)))
		c.finish("list")
	}
}

// txtCampaign: hash-prefix queries through Matcher and the middleware stack.
func txtCampaign(c *runner, rng *rand.Rand, n int) {
	for ; n > 0; n-- {
		c.opMatcherCfg()
		var allNames [3][]string
		for _, i := range c.e.sufStore {
			hosts := make([]string, 2+rng.IntN(5))
			for k := range hosts {
				hosts[k] = genHost(rng)
			}
			text, names := genList(rng, hosts, c)
			c.opReset(i, text)
			allNames[i] = names
		}
		for q := 6 + rng.IntN(8); q > 0; q-- {
			k := rng.IntN(len(c.e.sufs))
			pstr := genPrefixStr(rng, allNames[c.e.sufStore[k]])
			suf := c.e.sufs[k]
			switch rng.IntN(12) {
			case 0:
				suf = strings.TrimPrefix(suf, ".") // "abcdsb.dns…": one label, not a hash query
			case 1:
				suf = ".sb.dns.adguard.org"
			case 2:
				suf += ".example"
			}
			host := pstr + suf
			c.opMBP(host)
			qt := uint16(dns.TypeTXT)
			if rng.IntN(6) == 0 {
				qt = genQT(rng)
			}
			if rng.IntN(5) == 0 {
				host = strings.ToUpper(host)
			}
			if validQName(host) {
				c.opTXT(host, qt)
			}
		}
		if rng.IntN(10) == 0 {
			// Direct API only: more pieces than a question name can hold.
			parts := make([]string, 60+rng.IntN(200))
			for k := range parts {
				parts[k] = fmt.Sprintf("%04x", rng.IntN(65536))
				if names := allNames[c.e.sufStore[0]]; len(names) > 0 && rng.IntN(4) == 0 {
					parts[k] = prefixOf(names[rng.IntN(len(names))])
				}
			}
			c.opMBP(strings.Join(parts, ".") + c.e.sufs[0])
			c.r.Count("mbp.many_pieces")
		}
		// Names next to a hash-prefix query that are not one: the suffix
		// without its leading dot (alone, and as the tail of a longer label),
		// the suffix cut short or extended, the suffix in the middle.
		for _, suf := range c.e.sufs {
			bare := strings.TrimPrefix(suf, ".")
			_, tail, _ := strings.Cut(bare, ".")
			for _, nm := range []string{bare, "x" + bare, "abcd" + bare, tail, "abcd." + tail, bare + ".example", "abcd" + suf + ".example",
				"abcd" + suf[:len(suf)-1], "abcd" + suf + "x", "abcd.x" + bare} {
				if rng.IntN(4) > 0 {
					continue
				}
				c.r.Count("txt.near_miss_name")
				c.opMBP(nm)
				if rng.IntN(3) == 0 {
					nm = strings.ToUpper(nm)
				}
				if validQName(nm) {
					c.opTXT(nm, dns.TypeTXT)
				}
			}
		}
		// Direct API only: empty prefix string, empty pieces.
		for _, s := range []string{"", ".", "abcd.", ".abcd", "abcd..abcd"} {
			if rng.IntN(3) == 0 {
				c.opMBP(s + c.e.sufs[0])
			}
		}
		c.finish("txt")
	}
}

func validQName(h string) bool {
	if len(h) > 250 || h == "" {
		return false
	}
	for _, l := range strings.Split(h, ".") {
		if l == "" || len(l) > 63 {
			return false
		}
	}

	return true
}

// boundaryCampaign: exhaustive over (base, depth, which single parent is
// listed, question type): the cut-offs at four labels and at the public suffix.
func boundaryCampaign(c *runner) {
	qts := []uint16{dns.TypeA, dns.TypeAAAA, dns.TypeHTTPS, dns.TypeTXT, dns.TypeCNAME}
	for _, base := range bases {
		c.add("psclear", "ok", -1)
		c.psSet = map[string]bool{}
		for depth := 0; depth <= 5; depth++ {
			host := base
			for k := 0; k < depth; k++ {
				host = fmt.Sprintf("l%d.%s", depth-k, host)
			}
			c.opSubs(host)
			for _, listedName := range suffixesOf(host) {
				c.opReset(0, listedName+"\n")
				for _, qt := range qts {
					c.opFilter(0, host, qt)
				}
			}
		}
		c.finish("boundary")
	}
	c.r.Count("boundary.exhaustive_done")
	edgeNames(c)
}

// edgeNames: the root name (the host is the empty string) and names of the
// greatest length a question can have (253 characters, labels of 63), as hosts
// and as hash-prefix queries with as many prefixes as fit.
func edgeNames(c *runner) {
	c.add("psclear", "ok", -1)
	c.psSet = map[string]bool{}
	c.opMatcherCfg()
	l63 := strings.Repeat("a", 63)
	long4 := strings.Repeat("b", 61) + "." + l63 + "." + strings.Repeat("c", 63) + ".example-" + strings.Repeat("d", 51) + ".com"
	long5 := "x." + strings.Repeat("b", 59) + "." + l63 + "." + strings.Repeat("c", 63) + ".example-" + strings.Repeat("d", 51) + ".com"
	if len(long4) != 253 || len(long5) != 253 {
		panic(fmt.Sprintf("edgeNames: lengths %d %d", len(long4), len(long5)))
	}
	_, p4, _ := strings.Cut(long4, ".")
	_, p5, _ := strings.Cut(long5, ".")
	for _, text := range []string{"", long4 + "\n", p4 + "\n", p5 + "\n#" + long5 + "\n", "com\n.\n \n"} {
		c.opReset(0, text)
		c.opReset(1, text)
		for _, h := range []string{"", long4, long5, "com"} {
			c.opSubs(h)
			c.opMatches(0, h)
			for _, qt := range []uint16{dns.TypeA, dns.TypeHTTPS, dns.TypeTXT} {
				c.opFilter(0, h, qt)
				qn := h
				if qn == "" {
					qn = "."
				}
				c.opTXT(strings.ToUpper(qn), qt)
			}
		}
		// As many prefixes as a question name holds: 46 four-character pieces
		// and one legacy piece before the 19 characters of the suffix.
		pieces := []string{prefixOf(long4), prefixOf(p4), prefixOf(p5) + "0000"}
		for k := 0; len(strings.Join(pieces, "."))+5+len(c.e.sufs[0]) <= 253; k++ {
			pieces = append(pieces, fmt.Sprintf("%04x", k*1031%65536))
		}
		for _, suf := range c.e.sufs {
			qn := strings.Join(pieces, ".") + suf
			c.opMBP(qn)
			c.opTXT(qn, dns.TypeTXT)
			c.opTXT(qn[:len(qn)-len(suf)-1]+"g"+suf, dns.TypeTXT) // one bad character at the very end of the prefix string
		}
		c.r.Count("boundary.edge_names")
	}
	c.finish("edge")
}

// suffixRuleCampaign: for every private rule of suffixRules, the hosts at and
// around it (the rule, its parent, one and two labels below each) against every
// single-name list made of one of the host's own suffixes.  It is the boundary
// grid turned towards the public suffix list instead of the label count.
func suffixRuleCampaign(c *runner) {
	qts := []uint16{dns.TypeA, dns.TypeHTTPS, dns.TypeTXT}
	for _, rule := range suffixRules {
		c.add("psclear", "ok", -1)
		c.psSet = map[string]bool{}
		hosts := []string{rule, "l1." + rule, "l2.l1." + rule}
		if _, parent, ok := strings.Cut(rule, "."); ok && strings.Contains(parent, ".") {
			hosts = append(hosts, parent, "m1."+parent)
		}
		for _, host := range hosts {
			sh := shapeOf(host)
			c.r.Count("suffixrule.host:" + sh.String())
			c.opSubs(host)
			for _, listedName := range suffixesOf(host) {
				c.opReset(0, listedName+"\n")
				for _, qt := range qts {
					c.opFilter(0, host, qt)
				}
			}
		}
		c.finish("suffixrule")
	}
	c.r.Count("suffixrule.exhaustive_done")
}

// prefixCampaign: prefixesFromStr on random strings and, in the thorough
// tier, on every string up to a length over a small alphabet.
func prefixCampaign(c *runner, rng *rand.Rand, n int, exhaustive bool) {
	for i := 0; i < n; i++ {
		c.opPrefixes(genPrefixStr(rng, nil))
	}
	for _, s := range []string{"", "abcd", "ABCD", "abcD.ABCd", "abcdzzzz", "abcdef01", "abcdef0g", "ab\x00d", "abcd.", ".", "abcd.abcd", "abcdef012", "abc"} {
		c.opPrefixes(s)
	}
	c.finish("prefixes")
	if exhaustive {
		alpha := []byte("af0.gA")
		var rec func(s []byte, left int)
		rec = func(s []byte, left int) {
			c.opPrefixes(string(s))
			if len(c.steps) >= 5000 {
				c.finish("prefixes")
			}
			if left == 0 {
				return
			}
			for _, ch := range alpha {
				rec(append(s, ch), left-1)
			}
		}
		rec(nil, 6)
		// Eight- and nine-character pieces: vary the last five positions.
		var rec2 func(s []byte, left int)
		rec2 = func(s []byte, left int) {
			if left == 0 {
				c.opPrefixes(string(s))
				c.opPrefixes(string(s) + "0")

				return
			}
			for _, ch := range alpha {
				rec2(append(s, ch), left-1)
			}
		}
		rec2([]byte("0af"), 5)
		c.finish("prefixes")
		c.r.Count("prefixes.exhaustive_done")
	}
}


// --- names sharing a storage bucket ---

// family is a set of host names whose SHA-256 digests start with the same two
// bytes, that is, which Storage keeps in one bucket of its map.
type family struct {
	prefix string
	names  []string
}

// bucketFamilies searches names of the form h<k>.<base> for groups with a
// common hash prefix.  With 65536 buckets a list of a dozen names practically
// never has two names in one bucket, so without this the code that walks a
// bucket would only ever see buckets of one.
func bucketFamilies(n, minSize int) (fams []family) {
	basesF := []string{"example.com", "blogspot.com", "test.co.uk", "lan"}
	by := map[string][]string{}
	for k := 0; k < n; k++ {
		name := fmt.Sprintf("h%d.%s", k, basesF[k%len(basesF)])
		p := prefixOf(name)
		by[p] = append(by[p], name)
	}
	for _, p := range hlib.SortedKeys(by) {
		if len(by[p]) >= minSize {
			fams = append(fams, family{prefix: p, names: by[p]})
		}
	}

	return fams
}

// permutations of all non-empty subsets of {0..n-1}.
func orderedSubsets(n int) (out [][]int) {
	var rec func(cur []int, used int)
	rec = func(cur []int, used int) {
		if len(cur) > 0 {
			out = append(out, append([]int(nil), cur...))
		}
		for i := 0; i < n; i++ {
			if used&(1<<i) == 0 {
				rec(append(cur, i), used|1<<i)
			}
		}
	}
	rec(nil, 0)

	return out
}

// bucketCampaign: for each family, every ordered subset of four members as the
// list (some with a duplicate, a decoy from another bucket in between), then
// every member and a never-listed name of the same bucket through
// Storage.Matches, the filter, Storage.Hashes and a TXT prefix query.
func bucketCampaign(c *runner, rng *rand.Rand, fams []family) {
	subsets := orderedSubsets(4)
	for fi, fam := range fams {
		c.add("psclear", "ok", -1)
		c.psSet = map[string]bool{}
		c.opMatcherCfg()
		members := fam.names[:5] // the fifth is never listed
		i := fi % 2              // storages 0 and 1 are the ones behind TXT suffixes
		for si, sub := range subsets {
			var lines []string
			for _, k := range sub {
				lines = append(lines, members[k])
				switch rng.IntN(6) {
				case 0:
					lines = append(lines, members[k])
				case 1:
					lines = append(lines, genHost(rng))
				}
			}
			c.opReset(i, strings.Join(lines, "\n")+"\n")
			for _, m := range members {
				c.opMatches(i, m)
			}
			if si%4 == 0 || len(sub) == 4 {
				for _, m := range members {
					c.opFilter(i, "www."+m, dns.TypeA)
				}
			}
			c.opHashes(i, []string{fam.prefix})
			c.flag(fmt.Sprintf("bucket.listed=%d", len(sub)))
			if si%3 == 0 {
				for k, sfx := range c.e.sufs {
					if c.e.sufStore[k] == i {
						c.opMBP(fam.prefix + sfx)
						c.opTXT(fam.prefix+sfx, dns.TypeTXT)
					}
				}
			}
		}
		c.finish("bucket")
	}
	c.r.Count("bucket.exhaustive_done")
}

// --- list texts as byte strings ---

// lineProbes returns the strings worth looking up after a reset with text:
// every line read in several plausible but different ways.
func lineProbes(text string) (probes []string) {
	seen := map[string]bool{}
	add := func(s string) {
		if !seen[s] && len(s) < 200 {
			seen[s] = true
			probes = append(probes, s)
		}
	}
	for _, sep := range []string{"\n", "\r", "\r\n"} {
		for _, l := range strings.Split(text, sep) {
			add(l)
			add(strings.TrimSuffix(l, "\r"))
			add(strings.TrimRight(l, "\r"))
			add(strings.TrimSpace(l))
			add(strings.TrimLeft(l, "#!; \t"))
			add(strings.TrimPrefix(l, "\xef\xbb\xbf"))
			add(strings.ToLower(l))
			add(strings.TrimSuffix(l, "."))
			if j := strings.IndexAny(l, "#!; \t"); j >= 0 {
				add(l[:j])
			}
		}
	}
	for _, l := range strings.FieldsFunc(text, func(r rune) bool { return r == '\n' || r == '\r' || r == '\v' || r == '\f' || r == 0x85 || r == 0x2028 }) {
		add(l)
	}
	sort.Strings(probes)

	return probes
}

// textCase resets the direct storage with text (through NewStorage now and
// then) and checks Matches for every probe and Hashes over the probes' buckets.
func (c *runner) textCase(text string, viaNew bool) {
	if viaNew {
		c.opNew(text)
	} else {
		c.opReset(direct, text)
	}
	probes := lineProbes(text)
	prefSeen := map[string]bool{}
	var prefs []string
	for _, p := range probes {
		c.opMatches(direct, p)
		if pf := prefixOf(p); !prefSeen[pf] && len(prefs) < 12 {
			prefSeen[pf] = true
			prefs = append(prefs, pf)
		}
	}
	for n := range c.e.listed[direct] {
		if pf := prefixOf(n); !prefSeen[pf] && len(prefs) < 24 {
			prefSeen[pf] = true
			prefs = append(prefs, pf)
		}
	}
	sort.Strings(prefs)
	if len(prefs) > 0 {
		c.opHashes(direct, prefs)
	}
}

var lineHeads = []string{"", "", "", "#", "!", ";", " ", "\t", "//", "-", "*.", "# ", " #", "\x00", "\xef\xbb\xbf", "\xc2\xa0", "\r", "||", "@@"}
var lineTails = []string{"", "", "", " ", "\t", "\r", "\r\r", " \r", "\r ", "#x", " # c", "\x00", ".", "^", "\xe2\x80\xa8b"}
var lineSeps = []string{"\n", "\n", "\n", "\r\n", "\r\n", "\n\n", "\r", "\n\r", "\r\r\n", "\v", "\f", "\xc2\x85", "\xe2\x80\xa8"}

// genText builds a list text byte by byte interesting: unusual first and last
// characters of lines, unusual separators.
func genText(rng *rand.Rand) string {
	var b strings.Builder
	for k := 1 + rng.IntN(6); k > 0; k-- {
		b.WriteString(lineHeads[rng.IntN(len(lineHeads))])
		if rng.IntN(8) > 0 {
			h := genHost(rng)
			if rng.IntN(8) == 0 && h != "" {
				h = strings.ToUpper(h[:1]) + h[1:]
			}
			b.WriteString(h)
		}
		b.WriteString(lineTails[rng.IntN(len(lineTails))])
		if k > 1 || rng.IntN(2) == 0 {
			b.WriteString(lineSeps[rng.IntN(len(lineSeps))])
		}
	}

	return b.String()
}

// textCampaign: random texts, then every text up to maxLen over a small
// alphabet of the bytes that matter to a line reader.
func textCampaign(c *runner, rng *rand.Rand, n, maxLen int) {
	for k := 0; k < n; k++ {
		c.textCase(genText(rng), rng.IntN(4) == 0)
		if len(c.steps) >= 3000 {
			c.finish("text")
		}
	}
	c.finish("text")
	alpha := []byte("a#\n\r !")
	var rec func(s []byte)
	rec = func(s []byte) {
		c.textCase(string(s), len(s)%3 == 1)
		if len(c.steps) >= 4000 {
			c.finish("text")
		}
		if len(s) == maxLen {
			return
		}
		for _, ch := range alpha {
			rec(append(s, ch))
		}
	}
	rec(nil)
	c.finish("text")
	c.r.Count(fmt.Sprintf("text.exhaustive_len<=%d_done", maxLen))
}


// --- resets while lookups are running ---

// concResult is what the child process of concurrencyCampaign reports.
type concResult struct {
	Violations []struct{ Sig, What string } `json:"violations"`
	Reads      int                          `json:"reads"`
	Resets     int                          `json:"resets"`
}

// concTexts builds two list texts around one bucket family: names in both,
// names only in A, names only in B; plus names in neither.
func concTexts(seed uint64) (textA, textB string, both, onlyA, onlyB, neither []string, prefix string) {
	rng := rand.New(rand.NewPCG(seed, 0xc11))
	fams := bucketFamilies(400000, 8)
	fam := fams[rng.IntN(len(fams))]
	prefix = fam.prefix
	cp := func(l []string) []string { return append([]string(nil), l...) }
	both, onlyA, onlyB, neither = cp(fam.names[0:2]), cp(fam.names[2:4]), cp(fam.names[4:6]), cp(fam.names[6:8])
	var a, b []string
	for k := 0; k < 300; k++ {
		n := fmt.Sprintf("c%d.example.net", k)
		switch k % 4 {
		case 0:
			a, b, both = append(a, n), append(b, n), append(both, n)
		case 1:
			a, onlyA = append(a, n), append(onlyA, n)
		case 2:
			b, onlyB = append(b, n), append(onlyB, n)
		default:
			neither = append(neither, n)
		}
	}
	a = append(a, fam.names[0:4]...)
	b = append(b, fam.names[0:2]...)
	b = append(b, fam.names[4:6]...)
	rng.Shuffle(len(a), func(i, j int) { a[i], a[j] = a[j], a[i] })
	rng.Shuffle(len(b), func(i, j int) { b[i], b[j] = b[j], b[i] })

	return strings.Join(a, "\n") + "\n", strings.Join(b, "\n") + "\n", both, onlyA, onlyB, neither, prefix
}

// concChild runs in a process of its own (a data race on the storage map is a
// fatal error of the Go runtime, not a panic): one goroutine refreshes a filter
// between list A and list B, the others look names up.  Whatever the
// interleaving, a name in both lists is listed at every moment, a name in
// neither never, and Hashes must be the answer for A or the answer for B.  Only
// observed inconsistencies are reported, so the verdict does not depend on
// timing; how often lookups and resets actually overlap does.
func concChild() {
	var seed uint64
	rounds := 400
	fmt.Sscan(os.Getenv("VERIF_C11_CHILD"), &seed, &rounds)
	textA, textB, both, onlyA, onlyB, neither, prefix := concTexts(seed)
	dir, err := os.MkdirTemp("", "agdverif-c11c-")
	hlib.Must(err)
	defer func() { _ = os.RemoveAll(dir) }()
	e := newEnv(dir, txtSuffixes, []int{0, 1})
	ctx := context.Background()
	res := &concResult{}
	var mu sync.Mutex
	violate := func(sig, what string) {
		mu.Lock()
		defer mu.Unlock()
		if len(res.Violations) < 5 {
			res.Violations = append(res.Violations, struct{ Sig, What string }{sig, what})
		}
	}
	setA, _ := oracleListed(textA)
	setB, _ := oracleListed(textB)
	var pref hashprefix.Prefix
	_, err = hex.Decode(pref[:], []byte(prefix))
	hlib.Must(err)
	wantA := oracleHashes(setA, map[string]bool{prefix: true})
	wantB := oracleHashes(setB, map[string]bool{prefix: true})
	hlib.Must(os.WriteFile(e.paths[0], []byte(textA), 0o600))
	hlib.Must(e.flt[0].Refresh(ctx))

	var done atomic.Bool
	var reads atomic.Int64
	var wg sync.WaitGroup
	filterOne := func(host string) bool {
		req := &dns.Msg{}
		req.SetQuestion(dns.Fqdn(host), dns.TypeA)
		r, ferr := e.flt[0].FilterRequest(ctx, &filter.Request{
			DNS: req, Messages: e.msgs, Host: host, QType: dns.TypeA, QClass: dns.ClassINET,
			RemoteIP: netip.MustParseAddr("192.0.2.7"),
		})
		hlib.Must(ferr)

		return r != nil
	}
	for g := 0; g < 3; g++ {
		wg.Add(1)
		go func(g int) {
			defer wg.Done()
			for k := 0; !done.Load(); k++ {
				n := both[(k+g)%len(both)]
				if !e.strg[0].Matches(n) {
					violate("listed-name-unlisted-during-reset", fmt.Sprintf("Storage.Matches(%q) = false while the list was being replaced by another list that also has it", n))
				}
				z := neither[(k+g)%len(neither)]
				if e.strg[0].Matches(z) {
					violate("unlisted-name-listed-during-reset", fmt.Sprintf("Storage.Matches(%q) = true, the name is in neither list", z))
				}
				if k%8 == g {
					got := e.strg[0].Hashes([]hashprefix.Prefix{pref})
					if !sameSet(got, wantA) && !sameSet(got, wantB) {
						violate("hashes-of-neither-list-during-reset", fmt.Sprintf("Storage.Hashes(%s) = %v is the answer neither for the old nor for the new list", prefix, got))
					}
				}
				if k%4 == 0 {
					h := "www." + both[(k/4+g)%len(both)]
					if !filterOne(h) {
						violate("listed-name-unlisted-during-reset", fmt.Sprintf("FilterRequest(%q) not filtered while the list was being replaced by another list that also has its parent", h))
					}
				}
				if k%4 == 1 {
					// Names in one list only: any answer is right while the
					// lists alternate, but none may outlive its list (below).
					_ = filterOne("www." + onlyA[(k/4+g)%len(onlyA)])
					_ = filterOne("www." + onlyB[(k/4+g)%len(onlyB)])
				}
				reads.Add(1)
			}
		}(g)
	}
	for k := 0; k < rounds; k++ {
		text := textB
		if k%2 == 1 {
			text = textA
		}
		hlib.Must(os.WriteFile(e.paths[0], []byte(text), 0o600))
		hlib.Must(e.flt[0].Refresh(ctx))
		res.Resets++
		// This goroutine is the only one that refreshes: until its next
		// refresh the list is the one just installed, whatever the others do.
		in, out := onlyB, onlyA
		if k%2 == 1 {
			in, out = onlyA, onlyB
		}
		for j := 0; j < 6; j++ {
			if n := out[(k+j)%len(out)]; filterOne("www." + n) {
				violate("name-of-replaced-list-still-listed", fmt.Sprintf("www.%s is treated as listed after a refresh with a list that does not have %s has returned", n, n))
			}
			if n := in[(k+j)%len(in)]; !filterOne("www." + n) {
				violate("name-of-current-list-not-listed", fmt.Sprintf("www.%s is not treated as listed after a refresh with a list that has %s has returned", n, n))
			}
		}
	}
	// The last refresh installed list A (rounds is even).
	done.Store(true)
	wg.Wait()
	for _, n := range onlyB {
		if e.strg[0].Matches(n) || filterOne("www."+n) {
			violate("name-of-replaced-list-still-listed", fmt.Sprintf("%q is only in the list that was replaced, and is still treated as listed after the resets have finished", n))
		}
	}
	for _, n := range onlyA {
		if !e.strg[0].Matches(n) || !filterOne("www."+n) {
			violate("name-of-current-list-not-listed", fmt.Sprintf("%q is in the list installed last, and is not treated as listed after the resets have finished", n))
		}
	}
	res.Reads = int(reads.Load())
	out, err := json.Marshal(res)
	hlib.Must(err)
	fmt.Println("RESULT " + string(out))
}

// concurrencyCampaign runs concChild in processes of their own.
func concurrencyCampaign(c *runner, rng *rand.Rand, procs, rounds int) {
	for p := 0; p < procs; p++ {
		seed := rng.Uint64()
		cmd := exec.Command(os.Args[0])
		cmd.Env = append(os.Environ(), fmt.Sprintf("VERIF_C11_CHILD=%d %d", seed, rounds))
		out, err := cmd.CombinedOutput()
		replay := map[string]any{"op": "concurrent", "child_env": fmt.Sprintf("VERIF_C11_CHILD=%d %d", seed, rounds),
			"what": "one goroutine alternates Filter.Refresh between two lists (concTexts(seed)), three look names up"}
		var res concResult
		found := false
		for _, l := range strings.Split(string(out), "\n") {
			if strings.HasPrefix(l, "RESULT ") && json.Unmarshal([]byte(l[7:]), &res) == nil {
				found = true
			}
		}
		if !found {
			tail := string(out)
			if len(tail) > 600 {
				tail = tail[:600]
			}
			c.r.Violate("storage-crashed-under-concurrent-reset", fmt.Sprintf("lookups concurrent with resets killed the process (%v): %s", err, tail), replay)

			continue
		}
		for _, v := range res.Violations {
			c.r.Violate(v.Sig, v.What, replay)
		}
		c.r.Distribution["conc.lookups_during_resets"] += res.Reads
		c.r.Distribution["conc.resets"] += res.Resets
		c.r.Case(fmt.Sprintf("concurrent %d %d", seed, rounds), res.Reads > rounds)
	}
}

// --- one lookup, one list version: lookups that overlap resets ---

// snapPlan is the input of the snapshot campaign: versions of one list that
// differ in how many names they have under each of a set of hash prefixes (none,
// one, part of a bucket family, the whole family, duplicated lines; the whole
// list empty, padded with other names, refused by the scanner), queries of one to
// several dozen prefixes (repeated, never listed, legacy spelling), and names to
// look up.  A pure function of the seed and the family table.
type snapPlan struct {
	texts   []string
	bad     []bool                // the scanner refuses the text: the version before it stays in force
	listed  []map[string]int      // the oracle's reading of each text
	byPref  []map[string][]string // version -> prefix -> digests, one per list line
	queries [][]string            // prefix lists for Storage.Hashes
	qnames  []string              // question names for Matcher.MatchByPrefix and the TXT path
	probes  []string              // names for Storage.Matches
	vhosts  []string              // four-label names below which Filter.FilterRequest is asked (verdict plans)
	narrow  int                   // hash plans: the version that has fewer names than version 0 under every listed prefix (0: none)
}

// newVerdictPlan: versions of one list in which the hosts asked about have a
// listed parent in every version (even chains) or in most (odd chains), but not
// the same parent: one version lists a<j>.y<j>.example.org, the next
// y<j>.example.org.  A host r<n>.a<j>.y<j>.example.org is then dangerous under
// every version in force, and a lookup that overlaps the resets must say so
// (and name a parent that one of these versions lists).  The texts are short, so
// that installs are frequent.
func newVerdictPlan(seed uint64) (p *snapPlan) {
	rng := rand.New(rand.NewPCG(seed, 0x7e2d))
	p = &snapPlan{}
	nChain, nVer := 2+rng.IntN(5), 3+rng.IntN(4)
	var as, ys []string
	for j := 0; j < nChain; j++ {
		y := fmt.Sprintf("y%d-%d.example.org", j, seed%1000)
		if j%3 == 2 {
			// Below a private suffix: the walk to the ICANN suffix is on the path.
			y = fmt.Sprintf("y%d-%d.blogspot.com", j, seed%1000)
		}
		ys, as = append(ys, y), append(as, fmt.Sprintf("a%d.%s", j, y))
	}
	p.vhosts = as
	for v := 0; v < nVer; v++ {
		var lines []string
		for j := range as {
			ch := 1 + (v+j)%2 // even chains: the two parents take turns
			if j%2 == 1 {
				ch = rng.IntN(4)
			}
			if ch&1 != 0 {
				lines = append(lines, as[j])
			}
			if ch&2 != 0 {
				lines = append(lines, ys[j])
			}
		}
		if rng.IntN(3) == 0 {
			lines = append(lines, "# version "+fmt.Sprint(v), "")
		}
		rng.Shuffle(len(lines), func(i, j int) { lines[i], lines[j] = lines[j], lines[i] })
		text := strings.Join(lines, "\n") + "\n"
		set, _ := oracleListed(text)
		p.texts, p.bad, p.listed = append(p.texts, text), append(p.bad, false), append(p.listed, set)
	}

	return p
}

// snapSuffix is the TXT suffix served from storage 0.
var snapSuffix = txtSuffixes[0]

func newSnapPlan(seed uint64, fams []family) (p *snapPlan) {
	rng := rand.New(rand.NewPCG(seed, 0x5a9))
	p = &snapPlan{}
	nFam := []int{1, 2, 4, 8, 16, 32, 44}[rng.IntN(7)]
	idx := rng.Perm(len(fams))[:nFam+2]
	in, out := idx[:nFam], idx[nFam:]
	var prefs, absent []string
	for _, f := range in {
		prefs = append(prefs, fams[f].prefix)
	}
	for _, f := range out {
		absent = append(absent, fams[f].prefix)
		p.probes = append(p.probes, fams[f].names[0])
	}

	nVer := 3 + rng.IntN(5)
	p.narrow = 1
	for v := 0; v < nVer; v++ {
		var lines []string
		profile := 0
		if v == 1 {
			// Narrower than the widest version under EVERY listed prefix (no
			// name, one name, all but one or two; no duplicated line): whichever
			// prefix a lookup is at when this version replaces version 0 or is
			// replaced by it, the two give different numbers of digests there,
			// so an answer put together from both is the answer of neither.
			profile = []int{1, 2, 6}[rng.IntN(3)]
		} else if v > 0 {
			profile = 1 + rng.IntN(6)
		}
		shrunk := rng.IntN(nFam)
		for k, f := range in {
			names := append([]string(nil), fams[f].names...)
			rng.Shuffle(len(names), func(i, j int) { names[i], names[j] = names[j], names[i] })
			n := len(names)
			switch profile {
			case 1: // nothing but comments
				n = 0
			case 2:
				n = 1
			case 3:
				n = rng.IntN(len(names) + 1)
			case 4:
				n *= rng.IntN(2)
			case 5: // the widest version but for one name of one family
				if k == shrunk {
					n--
				}
			case 6:
				n -= 1 + rng.IntN(2)
			}
			lines = append(lines, names[:n]...)
			if n > 0 && v != 1 && rng.IntN(5) == 0 {
				lines = append(lines, names[rng.IntN(n)])
			}
		}
		for k := []int{0, 0, 30, 300}[rng.IntN(4)]; k > 0; k-- {
			lines = append(lines, fmt.Sprintf("pad%d-%d-%d.example.org", seed%1000, v, k))
		}
		for k := rng.IntN(4); k > 0; k-- {
			lines = append(lines, []string{"", "# version " + fmt.Sprint(v), "#" + fams[in[0]].names[0]}[rng.IntN(3)])
		}
		rng.Shuffle(len(lines), func(i, j int) { lines[i], lines[j] = lines[j], lines[i] })
		nl := "\n"
		if rng.IntN(4) == 0 {
			nl = "\r\n"
		}
		text := strings.Join(lines, nl)
		if len(lines) > 0 && rng.IntN(3) > 0 {
			text += nl
		}
		p.texts, p.bad = append(p.texts, text), append(p.bad, false)
	}
	if rng.IntN(3) == 0 {
		// A list the scanner refuses, after some acceptable lines.
		at := 1 + rng.IntN(nVer)
		text := fams[out[0]].names[0] + "\n" + fams[in[0]].names[0] + "\n" + strings.Repeat("a", 65536) + "\n"
		p.texts = append(p.texts[:at], append([]string{text}, p.texts[at:]...)...)
		p.bad = append(p.bad[:at], append([]bool{true}, p.bad[at:]...)...)
		if at <= p.narrow {
			p.narrow++
		}
	}
	for _, t := range p.texts {
		set, _ := oracleListed(t)
		by := map[string][]string{}
		for n, k := range set {
			h := fullHash(n)
			for ; k > 0; k-- {
				by[h[:4]] = append(by[h[:4]], h)
			}
		}
		p.listed, p.byPref = append(p.listed, set), append(p.byPref, by)
	}
	for _, pr := range prefs {
		if w, n := len(p.byPref[0][pr]), len(p.byPref[p.narrow][pr]); n >= w || p.bad[p.narrow] {
			panic(fmt.Sprintf("snapshot plan %d: version %d has %d digests under %s, version 0 has %d", seed, p.narrow, n, pr, w))
		}
	}
	for _, f := range in {
		for k := 0; k < 2 && len(p.probes) < 24; k++ {
			p.probes = append(p.probes, fams[f].names[rng.IntN(len(fams[f].names))])
		}
	}

	pick := func(n int) (q []string) {
		for _, i := range rng.Perm(len(prefs))[:min(n, len(prefs))] {
			q = append(q, prefs[i])
		}

		return q
	}
	all := append(pick(len(prefs)), absent...)
	rng.Shuffle(len(all), func(i, j int) { all[i], all[j] = all[j], all[i] })
	few := pick(2 + rng.IntN(3))
	p.queries = [][]string{
		all,
		pick(1),
		few,
		append(append([]string{absent[0]}, few...), few[0]),
		pick((len(prefs) + 1) / 2),
		append(append([]string(nil), all...), all...),
	}
	for _, q := range p.queries[:5] {
		name, seen := "", map[string]bool{}
		for _, pr := range q {
			piece := pr
			if rng.IntN(5) == 0 {
				piece += fmt.Sprintf("%04x", rng.IntN(65536)) // legacy spelling
			}
			if seen[pr] || len(name)+len(piece)+1+len(snapSuffix) > 250 {
				continue
			}
			seen[pr] = true
			if name != "" {
				name += "."
			}
			name += piece
		}
		p.qnames = append(p.qnames, name+snapSuffix)
	}

	return p
}

// want is the property's answer for a prefix list on version v: the digests of
// the listed names that start with one of the prefixes; multi has one copy per
// list line and per occurrence of the prefix (what the model proves,
// hashes_multiplicity), set has each digest once (what the statement says).
func (p *snapPlan) want(v int, prefs []string) (multi, set string) {
	var m []string
	for _, pr := range prefs {
		m = append(m, p.byPref[v][pr]...)
	}

	return canonAnswer(m)
}

func canonAnswer(ans []string) (multi, set string) {
	m := append([]string(nil), ans...)
	sort.Strings(m)
	var s []string
	for i, h := range m {
		if i == 0 || h != m[i-1] {
			s = append(s, h)
		}
	}

	return strings.Join(m, " "), strings.Join(s, " ")
}

// snapLookup is one question with the answer every version gives to it.
type snapLookup struct {
	kind  string // hashes: Storage.Hashes; mbp: Matcher.MatchByPrefix; txt: the middleware stack; matches: Storage.Matches
	show  string
	prefs []hashprefix.Prefix
	name  string
	multi []string
	set   []string
}

func (p *snapPlan) lookups(kinds ...string) (ls []*snapLookup) {
	for _, kind := range kinds {
		switch kind {
		case "hashes":
			for _, q := range p.queries {
				l := &snapLookup{kind: kind, show: strings.Join(q, " "), prefs: make([]hashprefix.Prefix, len(q))}
				for k, pr := range q {
					_, err := hex.Decode(l.prefs[k][:], []byte(pr))
					hlib.Must(err)
				}
				for v := range p.texts {
					m, s := p.want(v, q)
					l.multi, l.set = append(l.multi, m), append(l.set, s)
				}
				ls = append(ls, l)
			}
		case "mbp", "txt":
			for _, qn := range p.qnames {
				l := &snapLookup{kind: kind, show: qn, name: qn}
				req, ok := oraclePrefixes(strings.TrimSuffix(qn, snapSuffix))
				if !ok {
					panic("snapshot plan: malformed question name " + qn)
				}
				for v := range p.texts {
					m, s := p.want(v, hlib.SortedKeys(req))
					l.multi, l.set = append(l.multi, m), append(l.set, s)
				}
				ls = append(ls, l)
			}
		case "verdict":
			for _, h := range p.vhosts {
				l := &snapLookup{kind: kind, show: "r<n>." + h, name: h}
				for v := range p.texts {
					a := ""
					for _, s := range oracleCandidates("r0." + h) {
						if p.listed[v][s] > 0 && a == "" {
							a = s
						}
					}
					l.multi, l.set = append(l.multi, a), append(l.set, a)
				}
				ls = append(ls, l)
			}
		case "matches":
			for _, n := range p.probes {
				l := &snapLookup{kind: kind, show: n, name: n}
				for v := range p.texts {
					a := ""
					if p.listed[v][n] > 0 {
						a = "listed"
					}
					l.multi, l.set = append(l.multi, a), append(l.set, a)
				}
				ls = append(ls, l)
			}
		}
	}

	return ls
}

// snapFinding is a violation (or, with Model set, a difference with what the
// model proves but the statement does not ask for) seen by the child process.
type snapFinding struct {
	Sig, What string
	Input     map[string]any
	Model     bool
}

// snapResult is what the child process of snapshotCampaign reports.
type snapResult struct {
	Findings []snapFinding  `json:"findings"`
	Counts   map[string]int `json:"counts"`
}

// snapRun is one phase: one goroutine installs versions, the others look up.
type snapRun struct {
	e        *env
	plan     *snapPlan
	res      *snapResult
	phase    string
	mu       sync.Mutex
	eff      []int // eff[k]: the version in force once install number k has returned (0: before the lookups start)
	started  atomic.Int64
	finished atomic.Int64
	overlaps atomic.Int64
	lookupsN atomic.Int64
	uniq     atomic.Int64
	// telling counts, per kind of lookup, the lookups during which the map was
	// swapped between versions that give different answers to them: the only
	// ones on which an answer assembled from two versions can show.
	telling    map[string]*atomic.Int64
	tellingAll atomic.Int64
}

// tells reports whether the installs lo..fin, which all returned during one
// lookup, left versions in force that answer the lookup differently.
func (s *snapRun) tells(l *snapLookup, lo, fin int64) bool {
	for k := lo + 1; k <= fin; k++ {
		if l.multi[s.eff[k]] != l.multi[s.eff[lo]] {
			return true
		}
	}

	return false
}

func (s *snapRun) find(model bool, sig, what string, input map[string]any) {
	s.mu.Lock()
	defer s.mu.Unlock()
	s.res.Counts["snap."+s.phase+".finding:"+sig+":"+fmt.Sprint(input["lookup"])]++
	for _, f := range s.res.Findings {
		if f.Sig == sig && f.Model == model {
			return
		}
	}
	input["phase"] = s.phase
	s.res.Findings = append(s.res.Findings, snapFinding{Sig: sig, What: what, Input: input, Model: model})
}

// ask runs one lookup on the real code.  fault is "" when an answer came back.
func (s *snapRun) ask(ctx context.Context, l *snapLookup) (ans []string, fault string) {
	defer func() {
		if v := recover(); v != nil {
			fault = fmt.Sprintf("panic: %v", v)
		}
	}()
	switch l.kind {
	case "verdict":
		// A leading label of its own for every question: the filter's result
		// cache (not cleared by Storage.Reset) never has the host.
		host := fmt.Sprintf("r%d.%s", s.uniq.Add(1), l.name)
		req := &dns.Msg{}
		req.SetQuestion(dns.Fqdn(host), dns.TypeA)
		res, err := s.e.flt[0].FilterRequest(ctx, &filter.Request{
			DNS: req, Messages: s.e.msgs, Host: host, QType: dns.TypeA, QClass: dns.ClassINET,
			RemoteIP: netip.MustParseAddr("192.0.2.7"),
		})
		switch res := res.(type) {
		case nil:
			if err != nil {
				return nil, fmt.Sprintf("not answered: error %v", err)
			}

			return nil, ""
		case *filter.ResultModifiedResponse:
			return []string{string(res.Rule)}, ""
		case *filter.ResultModifiedRequest:
			return []string{string(res.Rule)}, ""
		default:
			return nil, fmt.Sprintf("not answered: result %T", res)
		}
	case "hashes":
		return s.e.strg[0].Hashes(l.prefs), ""
	case "mbp":
		got, matched, err := s.e.matcher.MatchByPrefix(ctx, l.name)
		if err != nil || !matched {
			return nil, fmt.Sprintf("not answered: matched %v, error %v", matched, err)
		}

		return got, ""
	case "txt":
		req := &dns.Msg{}
		req.SetQuestion(dns.Fqdn(l.name), dns.TypeTXT)
		out := s.e.st.Serve(ctx, &stack.Req{
			Server: s.e.st.Servers[0], Msg: req,
			Remote: netip.MustParseAddrPort("192.0.2.7:5353"), Local: netip.MustParseAddrPort("192.0.2.1:53"),
		})
		if out.Err != nil || out.Resp == nil || out.Resp.Rcode != dns.RcodeSuccess || len(out.Resp.Answer) != 1 {
			return nil, fmt.Sprintf("not answered: error %v, response %v", out.Err, out.Resp)
		}
		t, ok := out.Resp.Answer[0].(*dns.TXT)
		if !ok {
			return nil, fmt.Sprintf("not answered with a TXT record: %v", out.Resp.Answer[0])
		}

		return t.Txt, ""
	default:
		if s.e.strg[0].Matches(l.name) {
			return []string{"listed"}, ""
		}

		return nil, ""
	}
}

// check is the oracle: whatever the interleaving, a lookup is answered from one
// version of the list, and that version was in force at some moment of the
// lookup.  lo is the number of installs that had returned when the lookup began,
// hi the number that had begun when it ended: the pointer the lookup loaded was
// stored by one of the installs lo..hi (eff maps them to versions).
func (s *snapRun) check(l *snapLookup, lo, hi int64, ans []string, fault string) {
	var inForce []int
	seen := map[int]bool{}
	for k := lo; k <= hi && len(seen) < len(s.plan.texts); k++ {
		if v := s.eff[k]; !seen[v] {
			seen[v] = true
			inForce = append(inForce, v)
		}
	}
	// The usual case first and cheaply, so that the goroutine spends its time
	// inside lookups and not here: the answer is that of a version in force.
	var multi, set string
	if fault == "" {
		m := append([]string(nil), ans...)
		sort.Strings(m)
		multi = strings.Join(m, " ")
		for _, v := range inForce {
			if l.multi[v] == multi {
				return
			}
		}
		_, set = canonAnswer(m)
	}
	sizes := func(vs []int) (o []string) {
		for _, v := range vs {
			n := 0
			if l.multi[v] != "" {
				n = strings.Count(l.multi[v], " ") + 1
			}
			o = append(o, fmt.Sprintf("version %d: %d", v, n))
		}

		return o
	}
	shown := ans
	if len(shown) > 24 {
		shown = shown[:24]
	}
	input := map[string]any{"lookup": l.kind, "input": l.show, "installs_overlapping": []int64{lo, hi},
		"versions_in_force": inForce, "answer_sizes_of_versions_in_force": sizes(inForce), "answer_size": len(ans),
		"answer_first": shown}
	if fault == "" {
		// How the answer differs from that of each version in force.
		var diffs []string
		for _, v := range inForce {
			left := map[string]int{}
			for _, h := range strings.Fields(l.multi[v]) {
				left[h]++
			}
			extra := 0
			for _, h := range ans {
				if left[h] > 0 {
					left[h]--
				} else {
					extra++
				}
			}
			missing := 0
			for _, n := range left {
				missing += n
			}
			diffs = append(diffs, fmt.Sprintf("version %d: %d of its answers missing, %d that are not its answers", v, missing, extra))
		}
		input["difference_with_versions_in_force"] = diffs
	}
	what := fmt.Sprintf("%s(%s) while the list went through versions %v (answers of %s)", l.kind, trunc(l.show), inForce,
		strings.Join(sizes(inForce), ", "))
	if fault != "" {
		sig := "hash-lookup-not-answered-during-reset"
		if strings.HasPrefix(fault, "panic") {
			sig = "hash-lookup-panicked-during-reset"
		}
		s.find(false, sig, what+": "+fault, input)

		return
	}
	setOK := false
	for _, v := range inForce {
		setOK = setOK || l.set[v] == set
	}
	if setOK {
		s.find(true, "answer-repetitions-during-reset", what+fmt.Sprintf(
			": %d answers, the right set but not once per list line and requested prefix", len(ans)), input)

		return
	}
	if l.kind == "verdict" {
		// The rule is not the one any version in force gives (it names a
		// parent that one version lists, found after a miss on another).
		sig := "host-verdict-rule-of-no-list-version-in-force-during-reset"
		anyListed, anyNone := false, false
		for _, v := range inForce {
			anyListed, anyNone = anyListed || l.multi[v] != "", anyNone || l.multi[v] == ""
		}
		if len(ans) == 0 && !anyNone {
			sig = "host-with-listed-parent-in-every-version-not-treated-as-listed-during-reset"
		} else if len(ans) != 0 && !anyListed {
			sig = "host-without-listed-parent-treated-as-listed-during-reset"
		}
		input["vplan_texts"] = s.plan.texts
		s.find(false, sig, what+fmt.Sprintf(": verdict %q; the versions in force say %q", ans, func() (o []string) {
			for _, v := range inForce {
				o = append(o, l.multi[v])
			}

			return o
		}()), input)

		return
	}
	for v := range s.plan.texts {
		if l.set[v] == set {
			input["answer_is_that_of_version"] = v
			s.find(false, "lookup-answered-from-list-version-not-in-force", what+fmt.Sprintf(
				": the answer (%d) is that of version %d", len(ans), v), input)

			return
		}
	}
	s.find(false, "lookup-answer-of-no-single-list-version-during-reset", what+fmt.Sprintf(
		": %d answers, which is the answer of none of the versions of the list", len(ans)), input)
}

// run installs versions until enough lookups have seen the map swapped between
// versions that answer them differently (or maxInstalls is reached, or, after
// minInstalls, the time budget is used up: on a loaded machine the installs
// are slow and such lookups rare), then checks every lookup on the final
// version.  The number of rounds depends on timing, no verdict does.
func (s *snapRun) run(install func(text string) error, ls []*snapLookup, rng *rand.Rand, readers, minInstalls, maxInstalls int, wantOverlaps int64, budget time.Duration) {
	start := time.Now()
	ctx := context.Background()
	nVer := len(s.plan.texts)
	seq := make([]int, maxInstalls+1)
	s.eff = make([]int, maxInstalls+1)
	for k := 1; k <= maxInstalls; k++ {
		// Every other install goes back to the widest version, so that what a
		// lookup counted before the swap and what it finds after it differ.
		v := 0
		if seq[k-1] == 0 || rng.IntN(2) == 0 {
			v = (seq[k-1] + 1 + rng.IntN(nVer-1)) % nVer
		}
		if seq[k-1] == 0 && s.plan.narrow > 0 && rng.IntN(3) == 0 {
			// The pair of versions that differ under every prefix asked about.
			v = s.plan.narrow
		}
		seq[k], s.eff[k] = v, v
		if s.plan.bad[v] {
			s.eff[k] = s.eff[k-1]
		}
	}
	hlib.Must(install(s.plan.texts[0]))
	s.telling = map[string]*atomic.Int64{}
	for _, l := range ls {
		if s.telling[l.kind] == nil {
			s.telling[l.kind] = &atomic.Int64{}
		}
	}

	var done atomic.Bool
	var wg sync.WaitGroup
	for g := 0; g < readers; g++ {
		wg.Add(1)
		lrng := rand.New(rand.NewPCG(rng.Uint64(), uint64(g)))
		go func() {
			defer wg.Done()
			for !done.Load() {
				l := ls[lrng.IntN(len(ls))]
				lo := s.finished.Load()
				ans, fault := s.ask(ctx, l)
				hi := s.started.Load()
				fin := s.finished.Load()
				s.check(l, lo, hi, ans, fault)
				s.lookupsN.Add(1)
				if fin > lo {
					// An install returned, so the map was swapped, during the call.
					s.overlaps.Add(1)
					if s.tells(l, lo, fin) {
						s.telling[l.kind].Add(1)
						s.tellingAll.Add(1)
					}
				}
			}
		}()
	}
	k := 1
	for ; k <= maxInstalls && (k <= minInstalls || (s.tellingAll.Load() < wantOverlaps && time.Since(start) < budget)); k++ {
		s.started.Store(int64(k))
		err := install(s.plan.texts[seq[k]])
		s.finished.Store(int64(k))
		if (err != nil) != s.plan.bad[seq[k]] {
			s.find(false, "reset-outcome-wrong-during-lookups", fmt.Sprintf("install of version %d: error %v, scanner limit exceeded: %v",
				seq[k], err, s.plan.bad[seq[k]]), map[string]any{"version": seq[k]})
		}
	}
	done.Store(true)
	wg.Wait()
	last := int64(k - 1)
	for _, l := range ls {
		ans, fault := s.ask(ctx, l)
		s.check(l, last, last, ans, fault)
	}
	s.mu.Lock()
	s.res.Counts["snap."+s.phase+".installs"] += k - 1
	s.res.Counts["snap."+s.phase+".lookups"] += int(s.lookupsN.Load())
	s.res.Counts["snap."+s.phase+".lookups_overlapping_an_install"] += int(s.overlaps.Load())
	for kind, n := range s.telling {
		s.res.Counts["snap."+s.phase+".overlapping_versions_with_different_answers:"+kind] += int(n.Load())
	}
	s.mu.Unlock()
}

// snapChild runs in a process of its own (a lookup that panics in a goroutine of
// the stack, or a data race on the map, kills the process).  Phase "reset":
// Storage.Reset against Storage.Hashes, Matcher.MatchByPrefix and
// Storage.Matches, where a lookup of many prefixes on the widest version spends
// nearly all of its time between its first and its last look at the map, and
// the installs that follow it are short; phase "refresh": Filter.Refresh from a
// file against TXT questions through the production middleware stack.
func snapChild() {
	var seed uint64
	scale := 1
	fmt.Sscan(os.Getenv("VERIF_C11_SNAP"), &seed, &scale)
	plan := newSnapPlan(seed, bucketFamilies(400000, 8))
	dir, err := os.MkdirTemp("", "agdverif-c11s-")
	hlib.Must(err)
	defer func() { _ = os.RemoveAll(dir) }()
	e := newEnv(dir, txtSuffixes, []int{0, 1})
	res := &snapResult{Counts: map[string]int{}}
	res.Counts["snap.plan.version_narrower_under_every_prefix"]++
	rng := rand.New(rand.NewPCG(seed, 0x5eed))
	ctx := context.Background()
	sec := func(x float64) time.Duration { return time.Duration(x * float64(scale) * float64(time.Second)) }

	s1 := &snapRun{e: e, plan: plan, res: res, phase: "reset"}
	s1.run(func(text string) error {
		_, rerr := e.strg[0].Reset(text)

		return rerr
	}, plan.lookups("hashes", "hashes", "mbp", "matches"), rng, 4, 300*scale, 3000*scale, int64(2000*scale), sec(2))

	s2 := &snapRun{e: e, plan: plan, res: res, phase: "refresh"}
	s2.run(func(text string) error {
		hlib.Must(os.WriteFile(e.paths[0], []byte(text), 0o600))

		return e.flt[0].Refresh(ctx)
	}, plan.lookups("txt", "txt", "mbp", "hashes"), rng, 4, 60*scale, 400*scale, int64(300*scale), sec(1.5))

	// Verdicts: Filter.FilterRequest on hosts that have a listed parent under
	// every version, while the versions take turns.
	vplan := newVerdictPlan(seed)
	s3 := &snapRun{e: e, plan: vplan, res: res, phase: "verdict-reset"}
	s3.run(func(text string) error {
		_, rerr := e.strg[0].Reset(text)

		return rerr
	}, vplan.lookups("verdict"), rng, 4, 2000*scale, 30000*scale, int64(4000*scale), sec(1.5))
	s4 := &snapRun{e: e, plan: vplan, res: res, phase: "verdict-refresh"}
	s4.run(func(text string) error {
		hlib.Must(os.WriteFile(e.paths[0], []byte(text), 0o600))

		return e.flt[0].Refresh(ctx)
	}, vplan.lookups("verdict"), rng, 4, 60*scale, 600*scale, int64(300*scale), sec(1))

	out, err := json.Marshal(res)
	hlib.Must(err)
	fmt.Println("RESULT " + string(out))
}

// snapshotCampaign runs snapChild in processes of their own, with different
// numbers of processors (with one, a lookup is interrupted in mid-call by the
// scheduler and resumes many installs later), and puts the versions and
// questions of every plan through the sequential operations as well, where the
// real code is compared with the model.  Up to four children run at a time,
// next to the sequential work of this process: on a machine that is busy
// anyway that is what lookups and installs meet in production, and the wall
// time stays bounded.
func snapshotCampaign(c *runner, rng *rand.Rand, procs, scale int, modelBudget int) {
	fams := bucketFamilies(400000, 8)
	type childRun struct {
		env  string
		out  []byte
		err  error
		done chan struct{}
	}
	runs := make([]*childRun, procs)
	slots := make(chan struct{}, 4)
	for p := 0; p < procs; p++ {
		seed := rng.Uint64()
		childEnv := fmt.Sprintf("VERIF_C11_SNAP=%d %d", seed, scale)
		gmp := []string{"", "2", "1", "4"}[p%4]
		cmd := exec.Command(os.Args[0])
		cmd.Env = append(os.Environ(), childEnv)
		if gmp != "" {
			cmd.Env = append(cmd.Env, "GOMAXPROCS="+gmp)
			childEnv += " GOMAXPROCS=" + gmp
		}
		cr := &childRun{env: childEnv, done: make(chan struct{})}
		runs[p] = cr
		go func() {
			slots <- struct{}{}
			cr.out, cr.err = cmd.CombinedOutput()
			<-slots
			close(cr.done)
		}()

		plan := newSnapPlan(seed, fams)
		snapSequential(c, plan, &modelBudget)
		verdictSequential(c, newVerdictPlan(seed))
	}
	for _, cr := range runs {
		<-cr.done
		childEnv, out, err := cr.env, cr.out, cr.err
		replay := map[string]any{"op": "lookups-during-resets", "child_env": childEnv, "rerun": childEnv + " .bin/c11",
			"what": "one goroutine installs the list versions of newSnapPlan(seed), four look up; see snapChild"}
		var res snapResult
		found := false
		for _, l := range strings.Split(string(out), "\n") {
			if strings.HasPrefix(l, "RESULT ") && json.Unmarshal([]byte(l[7:]), &res) == nil {
				found = true
			}
		}
		if !found {
			tail := string(out)
			if len(tail) > 800 {
				tail = tail[:800]
			}
			c.r.Violate("storage-crashed-under-concurrent-reset", fmt.Sprintf("lookups concurrent with resets killed the process (%v): %s", err, tail), replay)

			continue
		}
		for _, f := range res.Findings {
			rp := map[string]any{"run": replay, "failing_lookup": f.Input}
			if f.Model {
				c.r.Disagree("model-vs-impl:"+f.Sig, f.What, rp)
			} else {
				c.r.Violate(f.Sig, f.What, rp)
			}
		}
		for k, n := range res.Counts {
			c.r.Distribution[k] += n
		}
		c.r.Case("lookups-during-resets "+childEnv, res.Counts["snap.reset.overlapping_versions_with_different_answers:hashes"] > 0)
	}
}

// snapSequential: the versions and questions of a plan, one after the other,
// through the operations that compare the real code with the model and with
// the sequential oracle.  The model hashes every listed name once per requested
// prefix, so only as much as the budget (names x prefixes) allows is sent.
func snapSequential(c *runner, plan *snapPlan, budget *int) {
	c.opMatcherCfg()
	sent := 0
	for v, text := range plan.texts {
		names := 0
		for _, k := range plan.listed[v] {
			names += k
		}
		if plan.bad[v] {
			names = 3 // the model keeps the list before; the cost is that of the scan
		}
		cost := 0
		for _, q := range plan.queries {
			cost += (names + 1) * len(q) * 2
		}
		if cost > *budget {
			continue
		}
		*budget -= cost
		sent++
		c.opReset(direct, text)
		c.opReset(0, text)
		for _, q := range plan.queries {
			c.opHashes(direct, q)
		}
		for _, qn := range plan.qnames {
			c.opMBP(qn)
			c.opTXT(qn, dns.TypeTXT)
		}
		for _, n := range plan.probes[:min(4, len(plan.probes))] {
			c.opMatches(0, n)
		}
		c.r.Count(fmt.Sprintf("snap.sequential.prefixes<=%d", 1<<bitsLen(len(plan.queries[0]))))
	}
	if sent > 0 {
		c.finish("snapshot")
	} else {
		c.steps = c.steps[:0]
		c.flags = map[string]bool{}
	}
}

// verdictSequential: the versions and hosts of a verdict plan one after the
// other through Filter.Refresh and Filter.FilterRequest, compared with the model.
func verdictSequential(c *runner, plan *snapPlan) {
	c.add("psclear", "ok", -1)
	c.psSet = map[string]bool{}
	for v, text := range plan.texts {
		c.opReset(0, text)
		for k, h := range plan.vhosts {
			c.opFilter(0, fmt.Sprintf("r%d.%s", v*16+k, h), []uint16{dns.TypeA, dns.TypeAAAA, dns.TypeHTTPS}[(v+k)%3])
		}
	}
	c.finish("verdict")
}

func bitsLen(n int) (b int) {
	for ; n > 1; n >>= 1 {
		b++
	}

	return b + 1
}

// tooLongCase: the scanner limit; a failed reset must leave the old list in
// force.
func tooLongCase(c *runner) {
	c.add("psclear", "ok", -1)
	c.psSet = map[string]bool{}
	c.opReset(1, "example.com\n")
	c.opFilter(1, "www.example.com", dns.TypeA)
	c.opReset(1, "example.org\n"+strings.Repeat("a", 65536)+"\n")
	c.opFilter(1, "www.example.com", dns.TypeA)
	c.opFilter(1, "www.example.org", dns.TypeA)
	c.opReset(1, "example.org\n"+strings.Repeat("a", 65535)+"\n")
	c.opFilter(1, "www.example.com", dns.TypeA)
	c.opFilter(1, "www.example.org", dns.TypeA)
	c.opReset(1, "example.net\r\n"+strings.Repeat("b", 65535))
	c.opFilter(1, "www.example.net", dns.TypeAAAA)
	c.opReset(1, "")
	c.opFilter(1, "www.example.net", dns.TypeAAAA)
	c.finish("toolong")
}

func main() {
	if os.Getenv("VERIF_C11_CHILD") != "" {
		concChild()

		return
	}
	if os.Getenv("VERIF_C11_SNAP") != "" {
		snapChild()

		return
	}
	o := hlib.ParseFlags()
	r := hlib.NewResult("C11", o)
	r.Rule = "list: random list texts (comments, blanks, CRLF, duplicates, padded names) reset through Filter.Refresh, then " +
		"Storage.Matches/Hashes, hashableSubdomains and Filter.FilterRequest on hosts of 1-9 labels over ICANN, private, wildcard, " +
		"exception and unknown suffixes and around 40 private rules (nested in another private rule, wildcard, below two-label ICANN " +
		"suffixes, up to five labels; shapes counted as subs.shape:*), compared with the Lean model and with an independent set/label oracle; txt: prefix strings " +
		"(valid, legacy, malformed) through Matcher.MatchByPrefix and the production middleware stack; boundary: exhaustive " +
		"base x depth x listed-parent x qtype grid; suffixrule: exhaustive private rule x {rule, parent, hosts below} x listed-parent " +
		"x qtype grid; snapshot: versions of one list differing in the number of names under each of 1-44 hash prefixes, installed by " +
		"Storage.Reset / Filter.Refresh while Storage.Hashes, MatchByPrefix, TXT questions through the stack and Storage.Matches run in " +
		"child processes (GOMAXPROCS default, 2, 1, 4; up to four at a time): every answer must be the exact answer of a version in force " +
		"during the call; one version of every plan has fewer names than the widest under every listed prefix and the two take turns, " +
		"each phase runs until enough lookups have seen the map swapped between versions that answer them differently (counted per " +
		"kind of lookup as snap.<phase>.overlapping_versions_with_different_answers:*, required > 0) or its time budget is spent; " +
		"question: the same hosts in up to three lists behind a real filterstorage.Default and dnssvc.NewHandlers, asked in mixed case " +
		"under eight combinations of the filtering group's switches, verdict read from the query log; " +
		"a list case is non-trivial when it has a listed and an unlisted verdict and a " +
		"true and a false Matches; distinct = distinct op logs"
	m := hlib.StartModel(o.Model, "C11")
	defer m.Close()

	dir, err := os.MkdirTemp("", "agdverif-c11-")
	hlib.Must(err)
	defer func() { _ = os.RemoveAll(dir) }()

	e := newEnv(dir, txtSuffixes, []int{0, 1})
	c := &runner{o: o, r: r, m: m, e: e, ctx: context.Background(), flags: map[string]bool{}, psSet: map[string]bool{}}

	nList, nTxt, nPref := 1500, 800, 4000
	if o.Thorough() {
		nList, nTxt, nPref = 20000, 10000, 40000
	}
	// Diagnostic switch for pool maintenance: leave out the exhaustive grids
	// to see what the random campaigns find on their own.
	if os.Getenv("VERIF_C11_RANDOM_ONLY") == "" {
		boundaryCampaign(c)
		suffixRuleCampaign(c)
	} else {
		r.Notes = append(r.Notes, "VERIF_C11_RANDOM_ONLY set: exhaustive grids skipped")
	}
	tooLongCase(c)
	nFam, nText, textLen := 8, 600, 4
	if o.Thorough() {
		nFam, nText, textLen = 64, 8000, 6
	}
	families = bucketFamilies(400000, 5)
	if len(families) < nFam {
		r.Disagree("coverage-lost:bucket-families", fmt.Sprintf("only %d families of five names in one bucket found", len(families)), nil)
		nFam = len(families)
	}
	bucketCampaign(c, o.Rand("bucket"), families[:nFam])
	textCampaign(c, o.Rand("text"), nText, textLen)
	listCampaign(c, o.Rand("list"), nList)
	txtCampaign(c, o.Rand("txt"), nTxt)
	prefixCampaign(c, o.Rand("prefixes"), nPref, o.Thorough())

	nProc, nRounds := 2, 400
	if o.Thorough() {
		nProc, nRounds = 12, 2000
	}
	concurrencyCampaign(c, o.Rand("conc"), nProc, nRounds)
	nSnap, snapScale, snapBudget := 4, 1, 400000
	if o.Thorough() {
		nSnap, snapScale, snapBudget = 24, 3, 6000000
	}
	snapshotCampaign(c, o.Rand("snapshot"), nSnap, snapScale, snapBudget)

	nQ := 500
	if o.Thorough() {
		nQ = 8000
	}
	questionCampaign(c, o.Rand("question"), newQStacks(e), nQ)

	nW := 16
	if o.Thorough() {
		nW = 150
	}
	wiringCampaign(c, o.Rand("wiring"), nW)

	// A matcher with a single, different suffix and the third storage.
	e2 := newEnv(dir, []string{".hp.example"}, []int{2})
	c2 := &runner{o: o, r: r, m: m, e: e2, ctx: c.ctx, flags: map[string]bool{}, psSet: map[string]bool{}}
	txtCampaign(c2, o.Rand("txt2"), nTxt/4)

	// The classes of public-suffix structure the campaigns are meant to reach.
	// They are properties of the public suffix list, not of the code under
	// test, so a miss means the pools need refreshing.
	for _, need := range []string{
		"subs.shape:private-hops=1/icann-labels=1", "subs.shape:private-hops=1/icann-labels=2",
		"subs.shape:private-hops=2/icann-labels=1", "subs.shape:private-hops=2+gap/icann-labels=1",
		"subs.shape:private-hops=0/icann-labels=0", "filter.matched_by_outer_private_suffix_domain",
		"question.listed:" + string(filter.IDSafeBrowsing), "question.listed:" + string(filter.IDAdultBlocking),
		"question.listed:" + string(filter.IDNewRegDomains), "question.none", "question.nothing_enabled", "txt.near_miss_name",
		"wiring.restart", "wiring.install:fault", "wiring.install:ok", "wiring.group_question",
		// Lookups that ran while the list went from one version to another that
		// answers them differently: without them the snapshot campaign is blind.
		"snap.plan.version_narrower_under_every_prefix",
		"snap.reset.overlapping_versions_with_different_answers:hashes",
		"snap.reset.overlapping_versions_with_different_answers:mbp",
		"snap.reset.overlapping_versions_with_different_answers:matches",
		"snap.refresh.overlapping_versions_with_different_answers:txt",
		"snap.refresh.overlapping_versions_with_different_answers:hashes",
		"snap.verdict-reset.overlapping_versions_with_different_answers:verdict",
		"snap.verdict-refresh.overlapping_versions_with_different_answers:verdict",
	} {
		if r.Distribution[need] == 0 && strings.HasPrefix(need, "snap.") {
			r.Disagree("coverage-lost:"+need, "no lookup of the snapshot campaign reached the class "+need+
				": the phase is not run any more, its versions give the same answers, or no install ever landed inside a lookup "+
				"(see snapRun.run in harness/cmd/c11)", nil)
		} else if r.Distribution[need] == 0 {
			r.Disagree("coverage-lost:"+need, "no case reached the class "+need+
				": the public suffix list has changed, refresh bases/suffixRules in harness/cmd/c11", nil)
		}
	}

	r.Exhaustive = o.Thorough()
	r.Notes = append(r.Notes, "hash order across prefixes depends on Go map iteration: hash and prefix lists are compared sorted",
		"the filters' result cache is in the loop (repeated questions, refresh between lists); its own properties are C12's")
	r.Finish()
}

var _ = agd.ProtoDNS
