package main

// Production wiring and lifecycle: the configuration file and the environment
// go through the real builder of internal/cmd (VerifC11Build: YAML parsing,
// validation, initHashPrefixFilters, initFilterStorage, initFilteringGroups);
// the lists come over HTTP as in production (the cache files, the staleness
// check and the persisted state at a restart are on the path; file:// URLs, as
// the other campaigns use, bypass all of that).  What is checked is what the
// property says about the result: which list a group's question meets, which
// list a TXT suffix is answered from, that a failed download or a refused text
// leaves the list in force, and that a restart comes back with the same lists.

import (
	"context"
	"fmt"
	"math/rand/v2"
	"net/http"
	"net/http/httptest"
	"net/netip"
	"net/url"
	"os"
	"path"
	"path/filepath"
	"strings"
	"sync"
	"time"

	"github.com/AdguardTeam/AdGuardDNS/internal/agd"
	"github.com/AdguardTeam/AdGuardDNS/internal/agdnet"
	"github.com/AdguardTeam/AdGuardDNS/internal/agdtest"
	"github.com/AdguardTeam/AdGuardDNS/internal/cmd"
	"github.com/AdguardTeam/AdGuardDNS/internal/filter"
	"github.com/AdguardTeam/AdGuardDNS/internal/filter/hashprefix"
	"github.com/AdguardTeam/AdGuardDNS/verifh/hlib"
	"github.com/AdguardTeam/AdGuardDNS/verifh/hlib/stack"
	"github.com/AdguardTeam/golibs/logutil/slogutil"
	"github.com/miekg/dns"
)

// listServer serves the three lists and the (empty) filter index.
type listServer struct {
	mu   sync.Mutex
	srv  *httptest.Server
	body [3]string
	mode [3]string // "", "500", "cut" (body shorter than announced), "404"
	hits [3]int
}

var listPaths = [3]string{"/safebrowsing.txt", "/adult.txt", "/newreg.txt"}

func newListServer() (s *listServer) {
	s = &listServer{}
	s.srv = httptest.NewServer(http.HandlerFunc(func(w http.ResponseWriter, r *http.Request) {
		s.mu.Lock()
		defer s.mu.Unlock()
		for i, p := range listPaths {
			if r.URL.Path != p {
				continue
			}
			s.hits[i]++
			switch s.mode[i] {
			case "500":
				http.Error(w, "verif: unavailable", http.StatusInternalServerError)
			case "404":
				http.NotFound(w, r)
			case "cut":
				w.Header().Set("Content-Length", fmt.Sprint(len(s.body[i])+100))
				_, _ = w.Write([]byte(s.body[i]))
			default: // "" and "big"
				_, _ = w.Write([]byte(s.body[i]))
			}

			return
		}
		if strings.HasSuffix(r.URL.Path, "/services.json") {
			_, _ = w.Write([]byte(`{"blocked_services":[]}`))

			return
		}
		_, _ = w.Write([]byte(`{"filters":[]}`))
	}))

	return s
}

func (s *listServer) url(p string) *url.URL {
	u, err := url.Parse(s.srv.URL + p)
	hlib.Must(err)

	return u
}

func (s *listServer) set(i int, body, mode string) {
	s.mu.Lock()
	defer s.mu.Unlock()
	s.body[i], s.mode[i] = body, mode
}

// wiringYAML is the part of the configuration file the builder methods under
// test read, with one filtering group per combination of switches, written
// with the keys of config.dist.yaml.
func wiringYAML(blockHosts [2]string) string {
	b := &strings.Builder{}
	for k, sec := range []string{"safe_browsing", "adult_blocking"} {
		fmt.Fprintf(b, "%s:\n    block_host: '%s'\n    cache_size: 64\n    cache_ttl: 1h\n    refresh_interval: 1h\n    refresh_timeout: 10s\n",
			sec, blockHosts[k])
	}
	b.WriteString("filters:\n    response_ttl: 10s\n    custom_filter_cache_size: 16\n    safe_search_cache_size: 16\n" +
		"    refresh_interval: 1h\n    refresh_timeout: 1m\n    index_refresh_timeout: 10s\n    rule_list_refresh_timeout: 10s\n" +
		"    max_size: 256KB\n    rule_list_cache:\n        enabled: true\n        size: 16\n    ede_enabled: true\n    sde_enabled: true\n")
	b.WriteString("filtering_groups:\n")
	for k, g := range allGroupFlags {
		fmt.Fprintf(b, "  - id: 'g%d'\n    parental:\n        enabled: %v\n        block_adult: %v\n        general_safe_search: false\n"+
			"        youtube_safe_search: false\n    rule_lists:\n        enabled: false\n        ids: []\n"+
			"    safe_browsing:\n        enabled: %v\n        block_dangerous_domains: %v\n        block_newly_registered_domains: %v\n"+
			"    block_chrome_prefetch: false\n    block_firefox_canary: false\n    block_private_relay: false\n",
			k, g.parOn, g.adult, g.sbOn, g.danger, g.newReg)
	}

	return b.String()
}

// wiring is one configuration, built (and rebuilt: restart) by the real builder.
type wiring struct {
	c        *runner
	srv      *listServer
	cacheDir string
	envOn    [3]bool
	yaml     string
	built    *cmd.VerifC11Built
	listed   [3]map[string]int // the oracle's idea of the list in force
	text     [3]string         // the text last installed successfully (what a restart must come back with)
	badCache [3]bool           // the cache file holds a text the scanner refuses
	log      []string
}

func (w *wiring) env() string {
	q := &qstack{envOn: &w.envOn}

	return q.envString()
}

func (w *wiring) replay(op string, args ...any) map[string]any {
	return map[string]any{"op": op, "args": args, "env_enabled(sb,adult,newreg)": w.env(), "config_yaml": w.yaml,
		"wiring_ops_before": append([]string(nil), w.log...), "history_hex_ops": w.c.replay()}
}

// build runs the builder.  At the first start the lists are downloaded; at a
// restart they come from the cache files.
func (w *wiring) build(restart bool) (ok bool) {
	e := &cmd.VerifC11Env{
		SafeBrowsingURL:      w.srv.url(listPaths[0]),
		AdultBlockingURL:     w.srv.url(listPaths[1]),
		NewRegDomainsURL:     w.srv.url(listPaths[2]),
		FilterIndexURL:       w.srv.url("/index.json"),
		FilterCachePath:      w.cacheDir,
		SafeBrowsingEnabled:  w.envOn[0],
		AdultBlockingEnabled: w.envOn[1],
		NewRegDomainsEnabled: w.envOn[2],
	}
	var err error
	var perr any
	func() {
		defer func() { perr = recover() }()
		w.built, err = cmd.VerifC11Build(context.Background(), []byte(w.yaml), e, slogutil.NewDiscardLogger(),
			&agdtest.ErrorCollector{OnCollect: func(context.Context, error) {}})
	}()
	w.log = append(w.log, fmt.Sprintf("build restart=%v", restart))
	if err != nil || perr != nil {
		w.c.r.Violate("builder-failed-on-valid-configuration", fmt.Sprintf("builder (restart %v): error %v panic %v", restart, err, perr),
			w.replay("build", restart))

		return false
	}
	w.c.add("wmatcher "+w.env(), "ok", -1)

	return true
}

// stacks for a filtering group of the configuration: the production handlers
// over the builder's filter storage, matcher and group.
func (w *wiring) stackFor(k int) (q *qstack) {
	g := w.built.FilteringGroups[agd.FilteringGroupID(fmt.Sprintf("g%d", k))]
	if g == nil {
		w.c.r.Violate("builder-lost-filtering-group", fmt.Sprintf("filtering group g%d is not among the built ones", k), w.replay("group", k))

		return nil
	}
	conf := g.FilterConfig
	st := stack.New(&stack.Config{
		FilterStorage:     w.built.FilterStorage,
		HashMatcher:       w.built.HashMatcher,
		GroupFilterConfig: conf,
	})

	return &qstack{st: st, grp: conf, flags: []groupFlags{allGroupFlags[k]}, remote: []netip.Addr{netip.MustParseAddr("192.0.2.77")},
		envOn: &w.envOn, listed: &w.listed}
}

// opGroupQuestion asks the filter the builder's storage makes for the group's
// configuration, the way mainmw does (host = agdnet.NormalizeDomain of the
// question name), and judges list and rule.
func (w *wiring) opGroupQuestion(q *qstack, grp *filter.ConfigGroup, qname string, qt uint16) {
	c := w.c
	req := &dns.Msg{}
	req.SetQuestion(dns.Fqdn(qname), qt)
	flags := q.flags[0]
	line := fmt.Sprintf("wquestion %s %s %s %d", q.envString(), flags.String(), hx(dns.Fqdn(qname)), qt)
	rep := w.replay("group-question", flags.String(), qname, qt)
	gotList, gotRule := "", ""
	var ferr error
	func() {
		defer func() {
			if p := recover(); p != nil {
				ferr = fmt.Errorf("panic: %v", p)
			}
		}()
		f := w.built.FilterStorage.ForConfig(c.ctx, grp)
		res, err := f.FilterRequest(c.ctx, &filter.Request{
			DNS: req, Messages: c.e.msgs, Host: agdnet.NormalizeDomain(dns.Fqdn(qname)), QType: qt, QClass: dns.ClassINET,
			RemoteIP: netip.MustParseAddr("192.0.2.7"),
		})
		ferr = err
		switch res := res.(type) {
		case nil:
		case *filter.ResultModifiedRequest:
			gotList, gotRule = string(res.List), string(res.Rule)
		case *filter.ResultModifiedResponse:
			gotList, gotRule = string(res.List), string(res.Rule)
		default:
			gotList = fmt.Sprintf("%T", res)
		}
	}()
	if ferr != nil {
		c.r.Violate("question-failed", fmt.Sprintf("group question %q type %d flags %s: %v", qname, qt, flags, ferr), rep)
		c.add(line, "failed", -1)

		return
	}
	c.r.Count("wiring.group_question")
	c.judgeQuestion(q, 0, qname, qt, gotList, gotRule, rep, line)
}

// install serves text (or a fault) for list i, makes the cache file stale and
// runs the refresher registered for the debug API.
func (w *wiring) install(i int, text, mode string) {
	w.srv.set(i, text, mode)
	w.log = append(w.log, fmt.Sprintf("install list=%d mode=%q text=%q", i, mode, trunc(text)))
	if !w.envOn[i] {
		return
	}
	id := path.Join(hashprefix.IDPrefix, string(filterIDs[i]))
	refr := w.built.Refreshers[id]
	if refr == nil {
		w.c.r.Violate("builder-lost-refresher", "no refresher "+id, w.replay("install", i))

		return
	}
	old := time.Now().Add(-3 * time.Hour)
	_ = os.Chtimes(filepath.Join(w.cacheDir, string(filterIDs[i])), old, old)
	err := refr.Refresh(context.Background())
	set, tooLong := oracleListed(text)
	wantOK := mode == "" && text != "" && !tooLong
	switch {
	case wantOK && err != nil:
		w.c.r.Violate("refresh-failed", fmt.Sprintf("refresh of list %d with a good text failed: %v", i, err), w.replay("install", i, text))
	case wantOK:
		w.listed[i], w.text[i], w.badCache[i] = set, text, false
	case err == nil:
		// Not the property's business by itself (the questions that follow
		// judge the list in force): a difference with the model.
		w.c.r.Disagree("model-vs-impl:refresh-outcome", fmt.Sprintf("refresh of list %d (%s, %d bytes, line too long: %v) reported success",
			i, mode, len(text), tooLong), w.replay("install", i, text))
	case mode == "" && tooLong:
		w.badCache[i] = true
	}
	if mode == "" {
		real := "err"
		if err == nil {
			real = "ok"
		}
		w.c.add(fmt.Sprintf("install %d %s", i, hx(text)), real, -1)
	}
	w.c.r.Count("wiring.install:" + map[bool]string{true: "ok", false: "fault"}[wantOK])
}

// ask puts questions and TXT queries through the stack of group k.
func (w *wiring) ask(rng *rand.Rand, q *qstack, hosts []string, names [3][]string) {
	c := w.c
	for _, h := range hosts {
		name := spell(rng, h)
		if rng.IntN(3) == 0 {
			name = spell(rng, labelPool[rng.IntN(len(labelPool))]+"."+h)
		}
		if validQName(name) {
			w.opGroupQuestion(q, q.grp, name, genQT(rng))
		}
	}
	// TXT: through the same stack, with the oracle told which suffix belongs
	// to which list (the statement: "under a safe-browsing suffix").
	e := &env{st: q.st, listed: [4]map[string]int{w.listed[0], w.listed[1], w.listed[2], nil}}
	if w.envOn[0] {
		e.sufs, e.sufStore = append(e.sufs, filter.GeneralTXTSuffix), append(e.sufStore, 0)
	}
	if w.envOn[1] {
		e.sufs, e.sufStore = append(e.sufs, filter.AdultBlockingTXTSuffix), append(e.sufStore, 1)
	}
	ct := &runner{o: c.o, r: c.r, m: c.m, e: e, ctx: c.ctx, flags: c.flags, psSet: c.psSet, steps: c.steps}
	for k := 0; k < 3; k++ {
		suf := []string{filter.GeneralTXTSuffix, filter.AdultBlockingTXTSuffix}[rng.IntN(2)]
		i := rng.IntN(3)
		pstr := genPrefixStr(rng, names[i])
		if validQName(pstr + suf) {
			ct.opTXT(spell(rng, pstr+suf), dns.TypeTXT)
		}
	}
	c.steps = ct.steps
}

// wiringCampaign: configurations x environments x histories of downloads,
// faults and restarts.
func wiringCampaign(c *runner, rng *rand.Rand, n int) {
	srv := newListServer()
	defer srv.srv.Close()
	blockHosts := [][2]string{{"192.0.2.1", "2001:db8::1"}, {"standard-block.dns.adguard.com", "family-block.dns.adguard.com"},
		{"192.0.2.1", "family-block.dns.adguard.com"}}
	for cse := 0; cse < n; cse++ {
		c.add("psclear", "ok", -1)
		c.psSet = map[string]bool{}
		w := &wiring{c: c, srv: srv, cacheDir: filepath.Join(c.e.dir, fmt.Sprintf("wiring%d-%d", c.o.Seed, cse)),
			yaml: wiringYAML(blockHosts[rng.IntN(len(blockHosts))])}
		hlib.Must(os.MkdirAll(w.cacheDir, 0o755))
		// Every combination of the three environment switches within eight
		// cases, all of them on in between.
		combo := 7 - (cse/2+int(c.o.Seed))%8
		if cse%2 == 1 {
			combo = 7
		}
		for i := range w.envOn {
			w.envOn[i] = combo&(1<<i) != 0
			w.listed[i] = map[string]int{}
			c.add(fmt.Sprintf("new %d -", i), "ok", -1)
		}
		var hosts []string
		for len(hosts) < 3+rng.IntN(3) {
			if h := genHost(rng); validQName(h) && h == strings.ToLower(h) && !strings.ContainsAny(h, "\\\x00") {
				hosts = append(hosts, h)
			}
		}
		var names [3][]string
		gen := func(i int) string {
			text, nm := genList(rng, hosts, c)
			// A name of its own in every list and every version: lists that
			// have been mixed up cannot pass for one another.
			own := fmt.Sprintf("own%d-%d.example.net", i, rng.IntN(1000))
			names[i] = append(nm, own)

			return text + own + "\n"
		}
		// First start: every list is downloaded.
		for i := range w.envOn {
			text := gen(i)
			srv.set(i, text, "")
			if w.envOn[i] {
				set, _ := oracleListed(text)
				w.listed[i], w.text[i] = set, text
				c.add(fmt.Sprintf("install %d %s", i, hx(text)), "ok", -1)
			}
		}
		if !w.build(false) {
			c.finish("wiring")

			continue
		}
		groups := rng.Perm(len(allGroupFlags))[:3]
		askAll := func() {
			for _, k := range groups {
				if q := w.stackFor(k); q != nil {
					w.ask(rng, q, hosts, names)
				}
			}
		}
		askAll()
		for step := 2 + rng.IntN(3); step > 0; step-- {
			i := rng.IntN(3)
			switch rng.IntN(8) {
			case 0:
				w.install(i, gen(i), "500")
			case 1:
				w.install(i, gen(i), "cut")
			case 2:
				w.install(i, "", "") // empty body: refused, the list stays
			case 3:
				w.install(i, gen(i)+strings.Repeat("a", 65536)+"\n", "") // refused by the scanner
			case 4:
				w.install(i, strings.Repeat("b.example\n", 30000), "big") // larger than max_size
			default:
				w.install(i, gen(i), "")
			}
			if rng.IntN(2) == 0 {
				askAll()
			}
		}
		askAll()
		// Restart over the same cache directory.  The server offers what was
		// last installed, so a start that downloads anew and one that reads
		// the cache must come to the same lists; a cache file that holds a
		// refused text is first replaced by a good download.
		for i := range w.envOn {
			if w.badCache[i] {
				w.install(i, gen(i), "")
			}
			srv.set(i, w.text[i], "")
		}
		if w.build(true) {
			c.r.Count("wiring.restart")
			askAll()
		}
		c.flag("wiring.done")
		c.finish("wiring")
	}
}
