package main

import (
	"math/rand/v2"
	"net/netip"

	"github.com/AdguardTeam/AdGuardDNS/internal/agd"
	"github.com/AdguardTeam/AdGuardDNS/verifh/hlib"
)

// exhaustiveCampaign enumerates the full product of small per-channel value
// sets over every server variant and a fixed family of database states.
func exhaustiveCampaign(o *hlib.Opts, rn *runner, w *world) {
	authRows := []authChoice{
		{enabled: false, dohOnly: false, kind: "pw", pw: "secret1"},
		{enabled: false, dohOnly: true, kind: "pw", pw: "secret1"},
		{enabled: true, dohOnly: false, kind: "pw", pw: "secret1"},
		{enabled: true, dohOnly: true, kind: "pw", pw: "secret1"},
		{enabled: true, dohOnly: false, kind: "allow"},
		{enabled: true, dohOnly: true, kind: "allow"},
	}
	var dbs []*dbState
	for i, a := range authRows {
		a := a
		// All lookups succeed, nothing deleted.
		dbs = append(dbs, genDB(func(n int) int { return n - 1 }, func(string) authChoice { return a }))
		// A seeded mixture of deleted profiles, detached devices and errors.
		rng := rand.New(rand.NewPCG(uint64(i), 77))
		dbs = append(dbs, genDB(rng.IntN, func(string) authChoice { return a }))
	}
	type ui struct{ kind, user, pass string }
	uis := []ui{{"-", "", ""}, {"u", "dev1", ""}, {"p", "dev1", "secret1"}, {"p", "dev1", "wrong"}, {"p", "dev1", ""},
		{"p", "abcd1234", "secret1"}}
	paths := []string{"/dns-query", "/dns-query/dev1", "/dns-query/ABCD1234", "/resolve/otr-prof1-My-Phone", "/other/dev1"}
	snis := []string{"", "dev1.d.dns.example", "ABCD1234.D.DNS.example", "x.dev1.d.dns.example", "otr-prof2-tv.dev.example.org",
		"dev1.dns.example"}
	type ed struct {
		opt  bool
		opts []eopt
	}
	edns := []ed{{false, nil}, {true, []eopt{{65074, "dev1"}}}, {true, []eopt{{65073, "dev1"}, {65074, "abcd1234"}}},
		{true, []eopt{{65074, "bad_id"}, {65074, "dev1"}}}}
	locals := []string{"192.0.2.2:53", "192.0.2.10:53", "192.0.2.77:53"}
	remotes := []string{"198.51.100.1", "203.0.113.9"}
	var reqs []*request
	for _, u := range uis {
		for _, p := range paths {
			for _, s := range snis {
				for _, e := range edns {
					for _, l := range locals {
						for _, rm := range remotes {
							reqs = append(reqs, &request{ui: u.kind, user: u.user, pass: u.pass, path: p, sni: s, opt: e.opt, edns: e.opts,
								local: netip.MustParseAddrPort(l), rip: netip.MustParseAddr(rm)})
						}
					}
				}
			}
		}
	}
	for _, v := range w.variants {
		if v.bindK == 1 {
			continue
		}
		use := dbs
		if v.proto == agd.ProtoDNSCrypt || v.proto == agd.ProtoInvalid || v.profilesOff {
			use = dbs[:2]
		}
		for _, db := range use {
			rn.runCase(v, db, reqs, "exhaustive")
		}
	}
	rn.r.Exhaustive = true
	rn.r.Count("exhaustive.product_done")
	rn.r.Notes = append(rn.r.Notes, "thorough tier enumerated the full product of 6 userinfo x 5 paths x 6 server names x 4 EDNS x 3 local x 2 remote values over every server variant (bind layouts 0,2,3; with and without profiles) and 12 database states")
}
