package main

import (
	"math/rand/v2"
	"net/netip"

	"github.com/AdguardTeam/AdGuardDNS/internal/agd"
	"github.com/AdguardTeam/AdGuardDNS/verifh/hlib"
)

// exhaustiveCampaign enumerates the full product of small per-channel value
// sets over every server variant and a fixed family of database states.
func exhaustiveCampaign(o *hlib.Opts, rn *runner, w *world) {
	authRows := []authChoice{
		{enabled: false, dohOnly: false, kind: "pw", pw: "secret1"},
		{enabled: false, dohOnly: true, kind: "pw", pw: "secret1"},
		{enabled: true, dohOnly: false, kind: "pw", pw: "secret1"},
		{enabled: true, dohOnly: true, kind: "pw", pw: "secret1"},
		{enabled: true, dohOnly: false, kind: "allow"},
		{enabled: true, dohOnly: true, kind: "allow"},
	}
	var dbs []*dbState
	for i, a := range authRows {
		a := a
		// All lookups succeed, nothing deleted.
		dbs = append(dbs, genDB(func(n int) int { return n - 1 }, func(string) authChoice { return a }))
		// A seeded mixture of deleted profiles, detached devices and errors.
		rng := rand.New(rand.NewPCG(uint64(i), 77))
		dbs = append(dbs, genDB(rng.IntN, func(string) authChoice { return a }))
	}
	type ui struct{ kind, user, pass string }
	uis := []ui{{"-", "", ""}, {"u", "dev1", ""}, {"p", "dev1", "secret1"}, {"p", "dev1", "wrong"}, {"p", "dev1", ""},
		{"p", "abcd1234", "secret1"}}
	paths := []string{"/dns-query", "/dns-query/dev1", "/dns-query/ABCD1234", "/resolve/otr-prof1-My-Phone", "/other/dev1"}
	snis := []string{"", "dev1.d.dns.example", "ABCD1234.D.DNS.example", "x.dev1.d.dns.example", "otr-prof2-tv.dev.example.org",
		"dev1.dns.example"}
	type ed struct {
		opt  bool
		opts []eopt
	}
	edns := []ed{{false, nil}, {true, []eopt{{65074, "dev1"}}}, {true, []eopt{{65073, "dev1"}, {65074, "abcd1234"}}},
		{true, []eopt{{65074, "bad_id"}, {65074, "dev1"}}}}
	locals := []string{"192.0.2.2:53", "192.0.2.10:53", "192.0.2.77:53"}
	remotes := []string{"198.51.100.1", "203.0.113.9"}
	var reqs []*request
	for _, u := range uis {
		for _, p := range paths {
			for _, s := range snis {
				for _, e := range edns {
					for _, l := range locals {
						for _, rm := range remotes {
							reqs = append(reqs, &request{ui: u.kind, user: u.user, pass: u.pass, path: p, sni: s, opt: e.opt, edns: e.opts,
								local: netip.MustParseAddrPort(l), rip: netip.MustParseAddr(rm)})
						}
					}
				}
			}
		}
	}
	for _, v := range w.variants {
		if v.bindK == 1 {
			continue
		}
		use := dbs
		if v.proto == agd.ProtoDNSCrypt || v.proto == agd.ProtoInvalid || v.profilesOff {
			use = dbs[:2]
		}
		for _, db := range use {
			rn.runCase(v, db, reqs, "exhaustive")
		}
	}
	// Address product (plain DNS, one fixture, every bind layout): every local
	// and remote address of the pools, in every spelling (IPv4-mapped, zoned),
	// with and without a CPE-ID option, through every early exit of Wrap.
	var areqs []*request
	for _, l := range localAddrs {
		for _, rm := range append(append([]string{}, remoteIPs...), "203.0.113.66") {
			for _, e := range edns[:2] {
				for g := 0; g < 4; g++ {
					q := &request{ui: "-", opt: e.opt, edns: e.opts, local: netip.MustParseAddrPort(l), rip: netip.MustParseAddr(rm), wrapped: true}
					switch g {
					case 1:
						q.port0 = true
					case 2:
						q.qname = gblockedName
					case 3:
						q.qname = pblockName("prof1")
					}
					areqs = append(areqs, q)
				}
			}
		}
	}
	for _, v := range w.variants {
		if v.proto == agd.ProtoDNS && !v.profilesOff && len(v.domains) == 1 && v.domains[0] == "d.dns.example" {
			for _, db := range dbs {
				rn.runCase(v, db, areqs, "exhaustive-addresses")
			}
		}
	}
	rn.r.Count("exhaustive.address_product_done")
	rn.r.Exhaustive = true
	rn.r.Count("exhaustive.product_done")
	rn.r.Notes = append(rn.r.Notes, "thorough tier enumerated the full product of 6 userinfo x 5 paths x 6 server names x 4 EDNS x 3 local x 2 remote values over every server variant (bind layouts 0,2,3; with and without profiles) and 12 database states, and the product of all 11 local x 10 remote address spellings x 2 EDNS x 4 Wrap exits over the plain-DNS variants of one fixture")
}
