package main

// Campaigns "wired" and "listener" (round 5): production wiring and the real
// listeners.
//
// Until this round every campaign handed the device finder an agd.Server and a
// list of device domains built by the harness.  In production these values are
// derived from the configuration file by internal/cmd: device_id_wildcards of
// the group's tls section (validateDeviceIDWildcards, tlsConfig.toInternal:
// "*." trimmed) -> agd.ServerGroup.DeviceDomains -> dnssvc.newDeviceFinder per
// (group, server); profiles_enabled; linked_ip_enabled and protocol per server
// (servers.toInternal, serverProto.toInternal); bind_addresses.  Several
// groups with different settings live side by side over one handler chain and
// one profile database.
//
// wired: a complete configuration file is written from an intent (2-3 server
// groups, each with its own wildcard list, profiles switch and 3-6 servers of
// all five protocols with their own linked_ip_enabled), handed to the real
// builder (cmd.VerifC15Build: parseEnvironment, validation, every builder step
// up to initDNS, hence serverGroups.toInternal, dnssvc.NewHandlers,
// dnssvc.New, the real access engine, filter storage, query log file, cache
// and forwarder with an in-process upstream).  Requests of the usual
// generators go through dnssvc.Service.Handle; the device result is observed
// in the DNS-check hook of the pre-service middleware, billing through the
// recorder, the query log from its file.  Oracle and model see the *intent*
// only (model ops wgroup / wsrv: the model does the conversion itself).
//
// listener: the service built the same way is started (dnssvc.Service.Start)
// and asked over real sockets: plain DNS over UDP and TCP (EDNS CPE-ID, client
// source address 127.0.5.x for linked addresses), DoT (TLS server name of the
// ClientHello), DoH over HTTP/1.1 and HTTP/2 (server name, URL path, raw
// Authorization header) and DoQ.  What the listener hands to the finder
// (dnsserver.RequestInfo) is compared with what the client sent.

import (
	"bufio"
	"bytes"
	"context"
	"crypto/ecdsa"
	"crypto/elliptic"
	crand "crypto/rand"
	"crypto/tls"
	"crypto/x509"
	"crypto/x509/pkix"
	"encoding/base64"
	"encoding/binary"
	"encoding/json"
	"encoding/pem"
	"fmt"
	"io"
	"math/big"
	"math/rand/v2"
	"net"
	"net/http"
	"net/netip"
	"net/url"
	"os"
	"path"
	"path/filepath"
	"runtime"
	"strings"
	"sync"
	"time"

	"github.com/AdguardTeam/AdGuardDNS/internal/agd"
	"github.com/AdguardTeam/AdGuardDNS/internal/agdtest"
	"github.com/AdguardTeam/AdGuardDNS/internal/cmd"
	"github.com/AdguardTeam/AdGuardDNS/internal/dnsserver"
	"github.com/AdguardTeam/AdGuardDNS/internal/filter"
	"github.com/AdguardTeam/AdGuardDNS/internal/geoip"
	"github.com/AdguardTeam/AdGuardDNS/internal/profiledb"
	"github.com/AdguardTeam/AdGuardDNS/verifh/hlib"
	golibslog "github.com/AdguardTeam/golibs/log"
	"github.com/AdguardTeam/golibs/logutil/slogutil"
	"github.com/miekg/dns"
	"github.com/quic-go/quic-go"
	"golang.org/x/net/http2"
)

const wiredHow = "cmd.VerifC15Build on config_yaml (the real builder up to initDNS: serverGroups.toInternal, dnssvc.NewHandlers, dnssvc.New); " +
	"campaign wired: dnssvc.Service.Handle(group, server) with the request information, addresses and message of the op; " +
	"campaign listener: dnssvc.Service.Start and a real client (see 'client'); the profile database is the scripted one of the ops, shared by all groups"

// yamlProto: protocol names of the configuration file.
var yamlProto = map[agd.Protocol]string{agd.ProtoDNS: "dns", agd.ProtoDNSCrypt: "dnscrypt", agd.ProtoDoH: "https", agd.ProtoDoQ: "quic", agd.ProtoDoT: "tls"}

type wSrvIntent struct {
	name   string
	proto  agd.Protocol
	linked bool
	binds  []netip.AddrPort
}

type wGroupIntent struct {
	name      string
	profiles  bool
	wildcards []string // as written in the file
	servers   []wSrvIntent
}

type wEnv struct {
	dir      string
	upstream string
	certPath string
	keyPath  string
	dcPath   string
	seq      int
}

func newWiredEnv() *wEnv {
	dir, err := os.MkdirTemp("", "agdverif-c03w-")
	hlib.Must(err)
	e := &wEnv{dir: dir}
	pc, err := net.ListenPacket("udp", "127.0.0.1:0")
	hlib.Must(err)
	h := dns.HandlerFunc(func(w dns.ResponseWriter, req *dns.Msg) {
		resp := (&dns.Msg{}).SetReply(req)
		resp.RecursionAvailable = true
		if len(req.Question) == 1 && req.Question[0].Qtype == dns.TypeA {
			resp.Answer = append(resp.Answer, &dns.A{Hdr: dns.RR_Header{Name: req.Question[0].Name, Rrtype: dns.TypeA, Class: dns.ClassINET, Ttl: 60},
				A: net.IP{198, 18, 0, 1}})
		}
		_ = w.WriteMsg(resp)
	})
	srv := &dns.Server{PacketConn: pc, Handler: h}
	go func() { _ = srv.ActivateAndServe() }()
	e.upstream = pc.LocalAddr().String()
	if ln, lerr := net.Listen("tcp", e.upstream); lerr == nil {
		tsrv := &dns.Server{Listener: ln, Handler: h}
		go func() { _ = tsrv.ActivateAndServe() }()
	}
	key, err := ecdsa.GenerateKey(elliptic.P256(), crand.Reader)
	hlib.Must(err)
	tmpl := &x509.Certificate{SerialNumber: big.NewInt(1), Subject: pkix.Name{CommonName: "verif"}, NotBefore: time.Now().Add(-time.Hour),
		NotAfter: time.Now().Add(24 * time.Hour), DNSNames: certNames()}
	der, err := x509.CreateCertificate(crand.Reader, tmpl, tmpl, &key.PublicKey, key)
	hlib.Must(err)
	kb, err := x509.MarshalECPrivateKey(key)
	hlib.Must(err)
	e.certPath, e.keyPath = filepath.Join(dir, "cert.crt"), filepath.Join(dir, "cert.key")
	hlib.Must(os.WriteFile(e.certPath, pem.EncodeToMemory(&pem.Block{Type: "CERTIFICATE", Bytes: der}), 0o600))
	hlib.Must(os.WriteFile(e.keyPath, pem.EncodeToMemory(&pem.Block{Type: "EC PRIVATE KEY", Bytes: kb}), 0o600))
	hlib.Must(os.WriteFile(filepath.Join(dir, "index.json"), []byte(`{"filters":[]}`), 0o600))
	hlib.Must(os.MkdirAll(filepath.Join(dir, "filters"), 0o755))
	root := cmd.VerifC20RepoRoot()
	set := func(k, v string) { hlib.Must(os.Setenv(k, v)) }
	set("GEOIP_ASN_PATH", filepath.Join(root, "internal/geoip/testdata/GeoIP2-ISP-Test.mmdb"))
	set("GEOIP_COUNTRY_PATH", filepath.Join(root, "internal/geoip/testdata/GeoIP2-Country-Test.mmdb"))
	set("FILTER_INDEX_URL", (&url.URL{Scheme: "file", Path: filepath.Join(dir, "index.json")}).String())
	set("FILTER_CACHE_PATH", filepath.Join(dir, "filters"))
	for _, k := range []string{"BLOCKED_SERVICE_INDEX_URL", "GENERAL_SAFE_SEARCH_URL", "YOUTUBE_SAFE_SEARCH_URL", "SAFE_BROWSING_URL",
		"ADULT_BLOCKING_URL", "NEW_REG_DOMAINS_URL"} {
		set(k, "http://127.0.0.1:1/unused")
	}
	for _, k := range []string{"ADULT_BLOCKING_ENABLED", "SAFE_BROWSING_ENABLED", "NEW_REG_DOMAINS_ENABLED", "BLOCKED_SERVICE_ENABLED",
		"GENERAL_SAFE_SEARCH_ENABLED", "YOUTUBE_SAFE_SEARCH_ENABLED"} {
		set(k, "0")
	}

	return e
}

// certNames: the production TLS manager only completes a handshake for a
// server name that one of its certificates covers (certStorage.certFor), so
// the certificate of the campaign covers one and two labels in front of every
// domain of the pools.
func certNames() (names []string) {
	seen := map[string]bool{}
	add := func(n string) {
		if n != "" && !strings.HasPrefix(n, ".") && !strings.Contains(n, "..") && !seen[n] {
			seen[n] = true
			names = append(names, n)
		}
	}
	doms := append([]string{"ki.example", "example.org", "org"}, sniDomains...)
	for _, ws := range wiredWildcards {
		for _, w := range ws {
			doms = append(doms, strings.TrimPrefix(w, "*."))
		}
	}
	for _, d := range doms {
		d = strings.ToLower(strings.Trim(d, "."))
		if d == "" {
			continue
		}
		add(d)
		add("*." + d)
		for _, l := range []string{"x", "d", "dev1"} {
			add("*." + l + "." + d)
		}
	}

	return names
}

func yb(v bool) string {
	if v {
		return "true"
	}

	return "false"
}

func yq(s string) string { return "'" + strings.ReplaceAll(s, "'", "''") + "'" }

func wiredYAML(e *wEnv, groups []wGroupIntent, fileLog bool) string {
	var b strings.Builder
	fmt.Fprintf(&b, `ratelimit:
    refuseany: false
    response_size_estimate: 1KB
    ipv4: {count: 100000, interval: 10s, subnet_key_len: 24}
    ipv6: {count: 100000, interval: 10s, subnet_key_len: 48}
    backoff_period: 10m
    backoff_count: 100000
    backoff_duration: 30m
    allowlist: {list: [], refresh_interval: 1h, type: 'consul'}
    connection_limit: {enabled: false, stop: 1000, resume: 800}
    quic: {enabled: false, max_streams_per_peer: 100}
    tcp: {enabled: false, max_pipeline_count: 100}
access:
    blocked_question_domains: ['gblocked.c03.example']
    blocked_client_subnets: ['203.0.113.66/32']
cache: {type: 'ecs', size: 1000, ecs_size: 1000, ttl_override: {enabled: false, min: 60s}}
upstream:
    servers:
      - address: 'udp://%s'
        timeout: 2s
    fallback:
        servers:
          - address: 'udp://%s'
            timeout: 2s
    healthcheck: {enabled: false, interval: 2s, timeout: 1s, backoff_duration: 30s, domain_template: '${RANDOM}.example.com'}
dns: {read_timeout: 2s, tcp_idle_timeout: 30s, write_timeout: 2s, handle_timeout: 5s, max_udp_response_size: 1024B}
dnsdb: {enabled: false, max_size: 1000}
backend: {timeout: 10s, refresh_interval: 15s, full_refresh_interval: 24h, full_refresh_retry_interval: 1h, bill_stat_interval: 15s}
query_log:
    file:
        enabled: %s
geoip: {host_cache_size: 100, ip_cache_size: 100, refresh_interval: 1h}
check:
    kv: {type: 'cache', ttl: 30s}
    domains: ['dnscheck.example.com']
    node_location: 'ams'
    node_name: 'eu-1.dns.example.com'
    ipv4: ['1.2.3.4']
    ipv6: ['1234::cdee']
web: {timeout: 1m}
safe_browsing: {block_host: 'sb.example.com', cache_size: 100, cache_ttl: 1h, refresh_interval: 1h, refresh_timeout: 1m}
adult_blocking: {block_host: 'ad.example.com', cache_size: 100, cache_ttl: 1h, refresh_interval: 1h, refresh_timeout: 1m}
filters:
    response_ttl: 10s
    custom_filter_cache_size: 100
    safe_search_cache_size: 100
    refresh_interval: 1h
    refresh_timeout: 1m
    index_refresh_timeout: 1m
    rule_list_refresh_timeout: 1m
    max_size: 1MB
    rule_list_cache: {enabled: true, size: 100}
    ede_enabled: true
    sde_enabled: true
filtering_groups:
  - id: 'fg'
    parental: {enabled: false}
    rule_lists: {enabled: false}
    safe_browsing: {enabled: false, block_dangerous_domains: false, block_newly_registered_domains: false}
    block_chrome_prefetch: false
    block_firefox_canary: false
    block_private_relay: false
connectivity_check: {probe_ipv4: '127.0.0.1:1'}
network: {so_sndbuf: 0, so_rcvbuf: 0}
additional_metrics_info: {}
server_groups:
`, e.upstream, e.upstream, yb(fileLog))
	for _, g := range groups {
		fmt.Fprintf(&b, "  - name: %s\n    filtering_group: 'fg'\n    profiles_enabled: %s\n    ddr: {enabled: false}\n", yq(g.name), yb(g.profiles))
		fmt.Fprintf(&b, "    tls:\n        certificates:\n          - certificate: %s\n            key: %s\n        device_id_wildcards: [", yq(e.certPath), yq(e.keyPath))
		for i, w := range g.wildcards {
			if i > 0 {
				b.WriteString(", ")
			}
			b.WriteString(yq(w))
		}
		b.WriteString("]\n    servers:\n")
		for _, s := range g.servers {
			fmt.Fprintf(&b, "      - name: %s\n        protocol: %s\n        linked_ip_enabled: %s\n        bind_addresses: [", yq(s.name), yq(yamlProto[s.proto]), yb(s.linked))
			for i, a := range s.binds {
				if i > 0 {
					b.WriteString(", ")
				}
				b.WriteString(yq(a.String()))
			}
			b.WriteString("]\n")
			if s.proto == agd.ProtoDNSCrypt {
				fmt.Fprintf(&b, "        dnscrypt:\n            config_path: %s\n", yq(e.dcPath))
			}
		}
	}

	return b.String()
}

// wiredBuilt is one service built by the real builder, with its observers.
type wiredBuilt struct {
	yaml    string
	groups  []wGroupIntent
	built   *cmd.VerifC15Wired
	fx      *fixture
	vs      []*srvVariant
	logPath string
	logOff  int64
	fileLog bool

	mu     sync.Mutex
	bills  []agd.DeviceID
	sri    *dnsserver.RequestInfo // what the listener handed over for the last request
	laddr  string
	raddr  string
	closed bool
}

func (wb *wiredBuilt) take(o *outcome) {
	wb.mu.Lock()
	o.billDevs = append(o.billDevs, wb.bills...)
	wb.bills = nil
	wb.mu.Unlock()
	if !wb.fileLog {
		return
	}
	data, err := os.ReadFile(wb.logPath)
	if err != nil {
		return
	}
	chunk := data[min(wb.logOff, int64(len(data))):]
	wb.logOff = int64(len(data))
	sc := bufio.NewScanner(bytes.NewReader(chunk))
	for sc.Scan() {
		var e struct {
			P string `json:"b"`
			D string `json:"i"`
		}
		if json.Unmarshal(sc.Bytes(), &e) == nil {
			o.logIDs = append(o.logIDs, [2]string{e.P, e.D})
		}
	}
}

// buildWired runs the real builder on the intent.  err is not nil only when a
// listener address is in use (the caller retries with other ports).
func buildWired(e *wEnv, groups []wGroupIntent, fileLog bool) (wb *wiredBuilt) {
	e.seq++
	dir := filepath.Join(e.dir, fmt.Sprintf("run%d", e.seq))
	hlib.Must(os.MkdirAll(dir, 0o755))
	wb = &wiredBuilt{yaml: wiredYAML(e, groups, fileLog), groups: groups, logPath: filepath.Join(dir, "ql.jsonl"), fileLog: fileLog}
	fx := &fixture{wired: wb}
	wb.fx = fx
	get := func() *dbState { fx.gate("db"); return fx.cur }
	pdb := &agdtest.ProfileDB{
		OnCreateAutoDevice: func(_ context.Context, id agd.ProfileID, h agd.HumanID, dt agd.DeviceType) (*agd.Profile, *agd.Device, error) {
			return get().create[[3]string{string(id), string(h), fmt.Sprint(int(dt))}].ret()
		},
		OnProfileByDedicatedIP: func(_ context.Context, ip netip.Addr) (*agd.Profile, *agd.Device, error) {
			return get().byded[ip.String()].ret()
		},
		OnProfileByDeviceID: func(_ context.Context, id agd.DeviceID) (*agd.Profile, *agd.Device, error) {
			return get().byid[string(id)].ret()
		},
		OnProfileByHumanID: func(_ context.Context, id agd.ProfileID, h agd.HumanIDLower) (*agd.Profile, *agd.Device, error) {
			return get().byhuman[[2]string{string(id), string(h)}].ret()
		},
		OnProfileByLinkedIP: func(_ context.Context, ip netip.Addr) (*agd.Profile, *agd.Device, error) {
			return get().bylinked[ip.String()].ret()
		},
	}
	hlib.Must(os.Setenv("QUERYLOG_PATH", wb.logPath))
	deps := &cmd.VerifC15Deps{
		ProfileDB: pdb,
		BillStat: &agdtest.BillStatRecorder{OnRecord: func(_ context.Context, id agd.DeviceID, _ geoip.Country, _ geoip.ASN, _ time.Time, _ agd.Protocol) {
			wb.mu.Lock()
			wb.bills = append(wb.bills, id)
			wb.mu.Unlock()
		}},
		RuleStat: &agdtest.RuleStat{OnCollect: func(context.Context, filter.ID, filter.RuleText) {}},
		DNSCheck: &agdtest.DNSCheck{OnCheck: func(ctx context.Context, req *dns.Msg, ri *agd.RequestInfo) (*dns.Msg, error) {
			// The first stage behind the access / device middleware that the
			// harness can stand in: what the later stages are told.
			s := seen{reached: true}
			switch res := ri.DeviceResult.(type) {
			case nil:
				s.kind = "none"
			case *agd.DeviceResultOK:
				s.kind = "ok"
			case *agd.DeviceResultAuthenticationFailure:
				s.kind = "authfail"
				s.authErr = res.Err.Error()
			case *agd.DeviceResultError:
				s.kind = "error"
			case *agd.DeviceResultUnknownDedicated:
				s.kind = "unkded"
			default:
				s.kind = fmt.Sprintf("%T", res)
			}
			s.p, s.d = ri.DeviceData()
			sri, _ := dnsserver.RequestInfoFromContext(ctx)
			fx.mu.Lock()
			fx.last = s
			fx.mu.Unlock()
			wb.mu.Lock()
			wb.sri = sri
			wb.mu.Unlock()

			return nil, nil
		}},
	}
	var err error
	wb.built, err = cmd.VerifC15Build(context.Background(), []byte(wb.yaml), deps, slogutil.NewDiscardLogger(),
		&agdtest.ErrorCollector{OnCollect: func(context.Context, error) {}}, fmt.Sprintf("verifc03w%d", e.seq))
	if err != nil {
		panic(fmt.Errorf("builder rejected the generated configuration: %w\n%s", err, wb.yaml))
	}
	// One variant per configured server; everything the oracle and the model
	// are told comes from the intent, only the name look-up uses the result.
	for _, g := range groups {
		var doms []string
		for _, w := range g.wildcards {
			// The documented meaning of a wildcard "*.<domain>".
			doms = append(doms, strings.TrimPrefix(w, "*."))
		}
		gl := "wgroup " + b2s(g.profiles)
		for _, w := range g.wildcards {
			gl += " " + hx(w)
		}
		for _, s := range g.servers {
			lines := []string{gl, fmt.Sprintf("wsrv %s %s", hx(yamlProto[s.proto]), b2s(s.linked))}
			for _, a := range s.binds {
				lines = append(lines, fmt.Sprintf("bind a %s %d", a.Addr(), a.Port()))
			}
			v := &srvVariant{proto: s.proto, linked: s.linked, bindK: 0, domains: doms, profilesOff: !g.profiles, st: fx, lines: lines,
				group: g.name, name: s.name, binds: s.binds}
			for _, bg := range wb.built.Groups {
				for _, bs := range bg.Servers {
					if string(bg.Name) == g.name && string(bs.Name) == s.name {
						v.srv = bs
					}
				}
			}
			if v.srv == nil {
				panic("built service lacks server " + s.name)
			}
			wb.vs = append(wb.vs, v)
		}
	}

	return wb
}

// handle serves q through dnssvc.Service.Handle the way a listener would.
func (wb *wiredBuilt) handle(v *srvVariant, q *request, ri *dnsserver.RequestInfo, id uint16, o *outcome) {
	m := q.msg()
	m.Id = id
	rport := uint16(1234)
	if q.port0 {
		rport = 0
	}
	if ri.StartTime.IsZero() {
		ri.StartTime = time.Now()
	}
	ctx := dnsserver.ContextWithServerInfo(context.Background(), &dnsserver.ServerInfo{Name: v.name, Addr: q.local.String(), Proto: v.proto})
	ctx = dnsserver.ContextWithRequestInfo(ctx, ri)
	ctx = agd.WithRequestID(ctx, agd.NewRequestID())
	local, remote := q.local, netip.AddrPortFrom(q.rip, rport)
	var laddr, raddr net.Addr
	if v.proto == agd.ProtoDNS || v.proto == agd.ProtoDoQ {
		laddr, raddr = net.UDPAddrFromAddrPort(local), net.UDPAddrFromAddrPort(remote)
	} else {
		laddr, raddr = net.TCPAddrFromAddrPort(local), net.TCPAddrFromAddrPort(remote)
	}
	rw := dnsserver.NewNonWriterResponseWriter(laddr, raddr)
	err := wb.built.Svc.Handle(ctx, agd.ServerGroupName(v.group), agd.ServerName(v.name), rw, m)
	o.resp = rw.Msg() != nil
	if err != nil {
		o.errText = err.Error()
	}
	v.st.mu.Lock()
	reached := v.st.last.reached
	v.st.mu.Unlock()
	if reached && err != nil && strings.Contains(err.Error(), "requesting upstream") {
		// The request passed the access / device stage and was handed on with
		// the observed device result; the real forwarder then refused the
		// message itself (two OPT records).  Not the business of this property:
		// the request counts as served.
		o.resp, o.errText = true, ""
	}
}

// wiredDomainSets: the wildcard lists of the groups, as written.  Besides the
// usual ones: "*." (the empty domain), an upper-case and a dot-leading domain
// (all accepted by the validation), and lists that overlap between groups.
var wiredWildcards = [][]string{
	{},
	{"*.d.dns.example"},
	{"*.d.dns.example", "*.dev.example.org", "*.example"},
	{"*.doh.ki.example", "*.d.dns.example"},
	{"*.", "*.d.dns.example"},
	{"*.D.dns.example", "*..example", "*.dev.example.org"},
	{"*.dev.example.org"},
	{"*.example"},
}

func genWiredIntent(rng *rand.Rand, port func() int, loopback bool) (groups []wGroupIntent) {
	nG := 2 + rng.IntN(2)
	perm := rng.Perm(len(wiredWildcards))
	for j := 0; j < nG; j++ {
		g := wGroupIntent{name: fmt.Sprintf("sg%d", j), profiles: rng.IntN(4) > 0, wildcards: wiredWildcards[perm[j]]}
		if j == 0 {
			g.profiles = true
		}
		protos := []agd.Protocol{agd.ProtoDoT, agd.ProtoDNS, agd.ProtoDoH, agd.ProtoDoQ, agd.ProtoDNS, agd.ProtoDoT}
		rng.Shuffle(len(protos), func(a, b int) { protos[a], protos[b] = protos[b], protos[a] })
		nS := 3 + rng.IntN(4)
		hasTLS := false
		for k := 0; k < nS; k++ {
			p := protos[k]
			if k == nS-1 && !hasTLS {
				// A tls section is only accepted in a group that needs one.
				p = agd.ProtoDoT
			}
			hasTLS = hasTLS || p != agd.ProtoDNS
			s := wSrvIntent{name: fmt.Sprintf("s%d_%d_%s", j, k, yamlProto[p]), proto: p, linked: rng.IntN(2) == 0}
			if loopback {
				s.binds = []netip.AddrPort{netip.AddrPortFrom(netip.MustParseAddr("127.0.0.1"), uint16(port()))}
			} else {
				s.binds = []netip.AddrPort{netip.MustParseAddrPort(localAddrs[0])}
				if rng.IntN(2) == 0 {
					s.binds = append(s.binds, netip.MustParseAddrPort(localAddrs[4]))
				}
			}
			g.servers = append(g.servers, s)
		}
		groups = append(groups, g)
	}

	return groups
}

// wiredCampaign: the usual request generators and oracle over services built
// from configuration files.
func wiredCampaign(o *hlib.Opts, rn *runner) {
	rng := o.Rand("wired")
	builds, per := 12, 100
	if o.Thorough() {
		builds, per = 40, 150
	}
	e := newWiredEnv()
	defer os.RemoveAll(e.dir)
	for b := 0; b < builds; b++ {
		if os.Getenv("C03_DEBUG") != "" {
			var ms runtime.MemStats
			runtime.ReadMemStats(&ms)
			fmt.Fprintf(os.Stderr, "wired build %d heap=%dMB lines=%d\n", b, ms.HeapAlloc>>20, len(rn.lines))
		}
		groups := genWiredIntent(rng, nil, false)
		wb := buildWired(e, groups, b%3 != 2)
		extra := map[string]any{"config_yaml": wb.yaml, "how": wiredHow}
		for c := 0; c < per; c++ {
			v := pick(rng, wb.vs)
			if rng.IntN(4) > 0 {
				for v.profilesOff {
					v = pick(rng, wb.vs)
				}
			}
			db := genDB(rng.IntN, randAuth(rng))
			db.extra = extra
			n := 4 + rng.IntN(8)
			reqs := make([]*request, n)
			for j := range reqs {
				reqs[j] = genRequest(rng, v, db)
				if rng.IntN(3) == 0 {
					// A name under a wildcard that some *other* group of this
					// file configures.
					og := pick(rng, groups)
					if len(og.wildcards) > 0 && v.proto.IsStdEncrypted() {
						reqs[j].sni = genLabel(rng) + "." + strings.TrimPrefix(pick(rng, og.wildcards), "*.")
					}
				}
			}
			rn.runCase(v, db, reqs, "wired")
			rn.r.Count("wired.group_profiles_" + b2s(!v.profilesOff))
		}
		rn.r.Count("wired.builds")
	}
}

// ---------------------------------------------------------------------------
// Real listeners.

// freePorts asks the kernel for n ports that are free for both TCP and UDP on
// the loopback now.
func freePorts(n int) (ports []int) {
	for len(ports) < n {
		l, err := net.Listen("tcp", "127.0.0.1:0")
		if err != nil {
			continue
		}
		p := l.Addr().(*net.TCPAddr).Port
		pc, err := net.ListenPacket("udp", fmt.Sprintf("127.0.0.1:%d", p))
		_ = l.Close()
		if err != nil {
			continue
		}
		_ = pc.Close()
		ports = append(ports, p)
	}

	return ports
}

// sentSNI is the server name a crypto/tls client puts into its ClientHello
// for the configured name (trailing dots are not sent).
func sentSNI(name string) string { return strings.TrimRight(name, ".") }

var lsnClientIPs = []string{"127.0.0.1", "127.0.5.1", "127.0.5.2", "127.0.5.3", "127.0.5.9"}

type lsnResult struct {
	resp    *dns.Msg
	err     error
	timeout bool
	status  int
}

func (wb *wiredBuilt) start() (err error) {
	defer func() {
		if p := recover(); p != nil {
			err = fmt.Errorf("start: %v", p)
		}
	}()

	return wb.built.Svc.Start(context.Background())
}

func (wb *wiredBuilt) stop() {
	ctx, cancel := context.WithTimeout(context.Background(), 3*time.Second)
	defer cancel()
	_ = wb.built.Svc.Shutdown(ctx)
}

// ask sends q to the listener of v with a real client.
func lsnAsk(v *srvVariant, q *request, id uint16, authz string, how string, silent bool) (res lsnResult) {
	addr := v.binds[0].String()
	m := q.msg()
	m.Id = id
	timeout := 4 * time.Second
	if silent {
		timeout = 400 * time.Millisecond
	}
	isTimeout := func(err error) bool {
		var ne net.Error

		return err != nil && (errorsAs(err, &ne) && ne.Timeout() || strings.Contains(err.Error(), "deadline exceeded") ||
			strings.Contains(err.Error(), "timeout"))
	}
	tlsConf := &tls.Config{ServerName: q.sni, InsecureSkipVerify: true}
	switch v.proto {
	case agd.ProtoDNS:
		netw := "udp"
		var la net.Addr = &net.UDPAddr{IP: q.rip.AsSlice()}
		if how == "tcp" {
			netw, la = "tcp", &net.TCPAddr{IP: q.rip.AsSlice()}
		}
		c := &dns.Client{Net: netw, Timeout: timeout, Dialer: &net.Dialer{LocalAddr: la, Timeout: timeout}}
		res.resp, _, res.err = c.Exchange(m, addr)
	case agd.ProtoDoT:
		c := &dns.Client{Net: "tcp-tls", Timeout: timeout, TLSConfig: tlsConf}
		res.resp, _, res.err = c.Exchange(m, addr)
	case agd.ProtoDoH:
		m.Id = 0
		wire, perr := m.Pack()
		hlib.Must(perr)
		var rt http.RoundTripper
		if how == "h2" {
			tlsConf.NextProtos = []string{"h2"}
			rt = &http2.Transport{TLSClientConfig: tlsConf}
		} else {
			tlsConf.NextProtos = []string{"http/1.1"}
			rt = &http.Transport{TLSClientConfig: tlsConf}
		}
		hc := &http.Client{Transport: rt, Timeout: timeout}
		u := &url.URL{Scheme: "https", Host: addr, Path: q.path}
		var hr *http.Request
		if how == "h1get" {
			u.RawQuery = "dns=" + base64.RawURLEncoding.EncodeToString(wire)
			hr, perr = http.NewRequest(http.MethodGet, u.String(), nil)
		} else {
			hr, perr = http.NewRequest(http.MethodPost, u.String(), bytes.NewReader(wire))
		}
		hlib.Must(perr)
		hr.Header.Set("Content-Type", "application/dns-message")
		hr.Header.Set("Accept", "application/dns-message")
		if authz != "" {
			hr.Header.Set("Authorization", authz)
		}
		resp, herr := hc.Do(hr)
		if tr, ok := rt.(*http.Transport); ok {
			defer tr.CloseIdleConnections()
		} else if tr2, ok2 := rt.(*http2.Transport); ok2 {
			defer tr2.CloseIdleConnections()
		}
		if herr != nil {
			res.err = herr

			break
		}
		body, _ := io.ReadAll(resp.Body)
		_ = resp.Body.Close()
		res.status = resp.StatusCode
		if resp.StatusCode == http.StatusOK {
			res.resp = &dns.Msg{}
			res.err = res.resp.Unpack(body)
		}
	case agd.ProtoDoQ:
		m.Id = 0
		wire, perr := m.Pack()
		hlib.Must(perr)
		tlsConf.NextProtos = []string{"doq"}
		ctx, cancel := context.WithTimeout(context.Background(), timeout)
		defer cancel()
		conn, derr := quic.DialAddr(ctx, addr, tlsConf, nil)
		if derr != nil {
			res.err = derr

			break
		}
		defer func() { _ = conn.CloseWithError(0, "") }()
		st, serr := conn.OpenStreamSync(ctx)
		if serr != nil {
			res.err = serr

			break
		}
		buf := make([]byte, 2+len(wire))
		binary.BigEndian.PutUint16(buf, uint16(len(wire)))
		copy(buf[2:], wire)
		_, _ = st.Write(buf)
		_ = st.Close()
		_ = st.SetReadDeadline(time.Now().Add(timeout))
		data, rerr := io.ReadAll(st)
		if len(data) > 2 {
			res.resp = &dns.Msg{}
			res.err = res.resp.Unpack(data[2:])
		} else {
			res.err = rerr
			if rerr == nil {
				res.err = fmt.Errorf("empty doq answer")
			}
		}
	}
	res.timeout = isTimeout(res.err)

	return res
}

func b2i(b bool) int {
	if b {
		return 1
	}

	return 0
}

func errorsAs(err error, target *net.Error) bool {
	for err != nil {
		if ne, ok := err.(net.Error); ok {
			*target = ne

			return true
		}
		u, ok := err.(interface{ Unwrap() error })
		if !ok {
			return false
		}
		err = u.Unwrap()
	}

	return false
}

// coarse maps an answer of the model (or of canon) to what a client of a real
// listener can tell apart: the error class and the reason of a silent drop are
// invisible.
func coarse(ans string, doq bool) string {
	if doq && (strings.HasPrefix(ans, "error") || strings.HasPrefix(ans, "unkded") || ans == "drop") {
		// The DoQ server answers SERVFAIL on the stream whenever the handler
		// wrote nothing, be it an error or a silent drop.
		return "noanswer"
	}
	switch {
	case strings.HasPrefix(ans, "error "):
		return "error"
	case strings.HasPrefix(ans, "unkded"), ans == "drop":
		return "drop"
	default:
		return ans
	}
}

// listenerCampaign: real sockets.
func listenerCampaign(o *hlib.Opts, rn *runner) {
	rng := o.Rand("listener")
	builds, per := 1, 260
	if o.Thorough() {
		builds, per = 6, 700
	}
	e := newWiredEnv()
	defer os.RemoveAll(e.dir)
	// The listeners log through the legacy global logger.
	golibslog.SetOutput(io.Discard)
	savedLinked, savedRemote, savedLocal := devLinked, remoteIPs, localAddrs
	defer func() { devLinked, remoteIPs, localAddrs = savedLinked, savedRemote, savedLocal }()
	devLinked = map[string]string{"dev1": "127.0.5.1", "z9": "127.0.5.2", "hum1": "127.0.5.3", "a": "fe80::1"}
	remoteIPs = lsnClientIPs
	id := uint16(100)
	for b := 0; b < builds; b++ {
		var wb *wiredBuilt
		var groups []wGroupIntent
		for attempt := 0; attempt < 5 && wb == nil; attempt++ {
			ports := freePorts(24)
			k := 0
			groups = genWiredIntent(rng, func() int { k++; return ports[k-1] }, true)
			localAddrs = nil
			for _, g := range groups {
				for _, s := range g.servers {
					localAddrs = append(localAddrs, s.binds[0].String())
				}
			}
			cand := buildWired(e, groups, true)
			if err := cand.start(); err != nil {
				// Another process took a port in between: not a verdict.
				rn.r.Count("listener.start-retry")
				cand.stop()

				continue
			}
			wb = cand
		}
		if wb == nil {
			rn.r.Count("listener.skipped-no-free-ports")

			continue
		}
		extra := map[string]any{"config_yaml": wb.yaml, "how": wiredHow}
		db := genDB(rng.IntN, randAuth(rng))
		for c := 0; c < per; c++ {
			if c%8 == 0 {
				db = genDB(rng.IntN, randAuth(rng))
			}
			v := pick(rng, wb.vs)
			if rng.IntN(5) > 0 {
				for v.profilesOff {
					v = pick(rng, wb.vs)
				}
			}
			q := genRequest(rng, v, db)
			q.local = v.binds[0]
			q.port0, q.pre = false, nil
			// Foreign channels cannot be expressed by a real client.
			q.wrapped, q.qname = false, ""
			if !q.rip.IsLoopback() {
				q.rip = netip.MustParseAddr("127.0.0.1")
			}
			if rng.IntN(40) == 0 {
				q.qname = gblockedName
			}
			authz, how := "", ""
			switch v.proto {
			case agd.ProtoDNS:
				q.sni, q.path, q.ui = "", "", "-"
				how = pick(rng, []string{"udp", "udp", "tcp"})
			case agd.ProtoDoT, agd.ProtoDoQ:
				q.path, q.ui = "", "-"
				q.opt = q.opt && v.proto == agd.ProtoDoT
				if !q.opt {
					q.edns = nil
				}
				q.rip = netip.MustParseAddr("127.0.0.1")
			case agd.ProtoDoH:
				q.rip = netip.MustParseAddr("127.0.0.1")
				how = pick(rng, []string{"h1", "h1get", "h2", "h2"})
				// Only paths that the HTTP server routes to the DNS handler.
				el := strings.Split(strings.TrimPrefix(path.Clean(q.path), "/"), "/")
				if !strings.HasPrefix(q.path, "/") || strings.ContainsAny(q.path, "?#%") || el[0] != "dns-query" {
					q.path = pick(rng, []string{"/dns-query", "/dns-query/", "//dns-query/", "/x/../dns-query//"}) + pick(rng, []string{"", "/" + genLabel(rng), "/" + genLabel(rng) + "/x", "/" + genLabel(rng) + "/"})
					if !strings.HasPrefix(path.Clean(q.path), "/dns-query") || strings.ContainsAny(q.path, "?#%") {
						q.path = "/dns-query"
					}
				}
				if q.ui != "-" {
					enc := base64.StdEncoding.EncodeToString
					switch rng.IntN(8) {
					case 0:
						authz = "basic " + enc([]byte(q.user+":"+q.pass))
					case 1:
						authz = "Basic " + enc([]byte(q.user))
					case 2:
						authz = "Bearer " + enc([]byte(q.user+":"+q.pass))
					case 3:
						authz = "Basic " + enc([]byte(q.user+":"))
					default:
						authz = "Basic " + enc([]byte(q.user+":"+q.pass))
					}
				}
				// What the header says, by the harness's own decoding.
				q.ui, q.user, q.pass = "-", "", ""
				if u, p, ok := decodeBasic(authz); ok {
					q.ui, q.user, q.pass = "p", u, p
				}
			default:
				continue
			}
			if v.proto != agd.ProtoDNS {
				if strings.ContainsAny(q.sni, " _!") || len(q.sni) > 250 {
					q.sni = genLabel(rng) + "." + pick(rng, sniDomains)
				}
				q.sni = sentSNI(q.sni)
			}
			id++
			fx := wb.fx
			fx.cur = db
			fx.mu.Lock()
			fx.last = seen{}
			fx.mu.Unlock()
			wb.mu.Lock()
			wb.sri = nil
			wb.mu.Unlock()
			silent := q.silent()
			res := lsnAsk(v, q, id, authz, how, silent)
			var out outcome
			fx.mu.Lock()
			out.seen = fx.last
			fx.mu.Unlock()
			wb.take(&out)
			// A SERVFAIL / HTTP 500 made up by the listener is not an answer of
			// the handler.
			out.resp = res.resp != nil && out.reached
			line := q.line()
			modelLine := line
			if v.proto == agd.ProtoDoH && !silent {
				f := strings.Fields(line)
				modelLine = strings.Join(append([]string{"http", hx(q.sni), hx(authz), hx(q.path)}, f[4:]...), " ")
			}
			// What a client can observe.
			observed := out.canon()
			switch {
			case out.reached:
			case res.resp != nil && res.resp.Rcode == dns.RcodeServerFailure:
				observed = "error"
			case res.timeout, res.status == http.StatusInternalServerError, res.err != nil && res.err.Error() == "empty doq answer":
				// No answer: a time-out, "No response" of the DoH server, a
				// stream closed without data.
				observed = "drop"
			case res.err != nil:
				// The client itself failed (handshake, transport): nothing to judge.
				rn.r.Count("listener.client-error." + protoNames[v.proto])
				if os.Getenv("C03_DEBUG") != "" {
					fmt.Fprintf(os.Stderr, "CLIENTERR %s sni=%q path=%q: %v\n", protoNames[v.proto], q.sni, q.path, res.err)
				}

				continue
			default:
				observed = fmt.Sprintf("unreached rcode=%v status=%d", res.resp != nil, res.status)
			}
			if !out.reached && !silent && observed == "drop" {
				// Neither served nor an error answer: an error towards the
				// handler's caller is the only legal cause.
				out.errText = "no answer: " + fmt.Sprint(res.err)
			}
			if !out.reached && !silent && observed == "error" {
				out.errText = "servfail"
			}
			replay := func() any {
				ops := append(append(append([]string{}, v.lines...), db.lines...), modelLine)

				return map[string]any{"campaign": "listener", "server": v.name, "group": v.group, "client": fmt.Sprintf("%s %s from %s sni=%q path=%q authorization=%q", protoNames[v.proto], how, q.rip, q.sni, q.path, authz),
					"ops": ops, "observed": observed, "client_error": fmt.Sprint(res.err), "config_yaml": wb.yaml, "how": wiredHow}
			}
			_ = extra
			// The listener's own part: what it handed to the finder.
			wb.mu.Lock()
			sri := wb.sri
			wb.mu.Unlock()
			if out.reached && sri != nil {
				bad := ""
				if v.proto != agd.ProtoDNS && sri.TLSServerName != q.sni {
					bad = fmt.Sprintf("TLS server name %q, the client sent %q", sri.TLSServerName, q.sni)
				}
				if v.proto == agd.ProtoDNS && (sri.TLSServerName != "" || sri.URL != nil || sri.Userinfo != nil) {
					bad = "plain DNS request with TLS / HTTP request information"
				}
				if v.proto == agd.ProtoDoH {
					gotUI := "-"
					if sri.Userinfo != nil {
						p, set := sri.Userinfo.Password()
						gotUI = fmt.Sprintf("%q:%q:%v", sri.Userinfo.Username(), p, set)
					}
					wantUI := "-"
					if q.ui == "p" {
						wantUI = fmt.Sprintf("%q:%q:true", q.user, q.pass)
					}
					if sri.URL == nil || sri.URL.Path != q.path {
						bad = fmt.Sprintf("URL %v, the client asked for path %q", sri.URL, q.path)
					} else if gotUI != wantUI {
						bad = fmt.Sprintf("userinfo %s, the Authorization header decodes to %s", gotUI, wantUI)
					}
				} else if sri.URL != nil || sri.Userinfo != nil {
					bad = "non-HTTP request with HTTP request information"
				}
				if bad != "" {
					rn.r.Violate("listener-request-info-differs/"+protoNames[v.proto], "the listener handed the device finder "+bad, replay())
				}
			}
			rn.c.oracle(v, db, q, &out, replay)
			rn.lines = append(rn.lines, v.lines...)
			rn.lines = append(rn.lines, db.lines...)
			rn.pend = append(rn.pend, pending{lineIdx: len(rn.lines), got: coarse(observed, v.proto == agd.ProtoDoQ), ops: replay, coarse: 1 + b2i(v.proto == agd.ProtoDoQ)})
			rn.lines = append(rn.lines, modelLine)
			kind := strings.SplitN(observed, " ", 2)[0]
			rn.r.Count("listener." + protoNames[v.proto] + "." + how + "." + kind)
			rn.r.Case("listener|"+v.name+"|"+dbKey(db)+"|"+how+"|"+modelLine, kind != "none")
			if kind == "ok" {
				rn.r.Sample(map[string]any{"campaign": "listener", "client": fmt.Sprintf("%s %s sni=%q path=%q", protoNames[v.proto], how, q.sni, q.path), "observed": observed}, 9)
			}
			if len(rn.lines) > 20000 {
				rn.flush()
			}
		}
		rn.flush()
		wb.stop()
		rn.r.Count("listener.builds")
	}
}

var _ = profiledb.ErrDeviceNotFound
