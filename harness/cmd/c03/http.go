package main

import (
	"crypto/tls"
	"encoding/base64"
	"fmt"
	"net/http"
	"net/netip"
	"net/url"
	"strings"

	"github.com/AdguardTeam/AdGuardDNS/internal/agd"
	"github.com/AdguardTeam/AdGuardDNS/internal/dnsserver"
	"github.com/AdguardTeam/AdGuardDNS/verifh/hlib"
)

// decodeBasic is the harness's own reading of RFC 7617.
func decodeBasic(h string) (user, pass string, ok bool) {
	if len(h) < 6 || !strings.EqualFold(h[:6], "basic ") {
		return "", "", false
	}
	// RFC 4648 section 3.3 lets a decoder ignore line breaks; the Go one does.
	b, err := base64.StdEncoding.DecodeString(strings.NewReplacer("\r", "", "\n", "").Replace(h[6:]))
	if err != nil {
		return "", "", false
	}
	user, pass, ok = strings.Cut(string(b), ":")

	return user, pass, ok
}

// httpCampaign starts one level earlier than the other campaigns: the request
// information is produced by the DoH server's own addRequestInfo from an HTTP
// request with an Authorization header, a URL and a TLS state, and then served
// by the stack.  Checks: the userinfo handed to the finder is exactly the
// decoded header (and always carries a password, possibly empty); model and
// oracle as in the other campaigns.
func httpCampaign(o *hlib.Opts, rn *runner, w *world) {
	rng := o.Rand("http")
	n := 3000
	if o.Thorough() {
		n = 30000
	}
	var doh []*srvVariant
	for _, v := range w.variants {
		if v.proto == agd.ProtoDoH {
			doh = append(doh, v)
		}
	}
	enc := base64.StdEncoding.EncodeToString
	for i := 0; i < n; i++ {
		v := pick(rng, doh)
		db := genDB(rng.IntN, randAuth(rng))
		q := genRequest(rng, v, db)
		// This campaign is about what precedes the finder; Wrap's own exits
		// are left to the other campaigns.
		q.wrapped, q.port0, q.qname = false, false, ""
		if q.silent() {
			q.rip = netip.MustParseAddr("203.0.113.9")
		}
		user, pass := pick(rng, devIDs), pick(rng, pwPool)
		if rng.IntN(4) == 0 {
			user = pick(rng, idLabels)
		}
		if di := findDev(db, user); di != nil && di.kind == "pw" && rng.IntN(2) == 0 {
			pass = di.pw
		}
		var hdr string
		switch rng.IntN(10) {
		case 0:
			hdr = ""
		case 1:
			hdr = "Bearer " + enc([]byte(user+":"+pass))
		case 2:
			hdr = "Basic " + enc([]byte(user))
		case 3:
			hdr = "Basic " + enc([]byte(user+":"+pass)) + "!"
		case 4:
			hdr = "basic " + enc([]byte(user+":"+pass))
		case 5:
			hdr = "Basic " + enc([]byte(user+":"))
		case 6:
			hdr = "Basic " + enc([]byte(":"+pass))
		case 7:
			// Structural base64 edge cases: missing or wrong padding, a
			// non-zero trailing bit pattern, other prefixes and separators.
			full := enc([]byte(user + ":" + pass))
			switch rng.IntN(8) {
			case 0:
				hdr = "Basic " + strings.TrimRight(full, "=")
			case 1:
				hdr = "Basic " + full + "="
			case 2:
				hdr = "Basic " + full + "===="
			case 3:
				hdr = "BASIC " + full
			case 4:
				hdr = "Basic  " + full
			case 5:
				hdr = "Basic\t" + full
			case 6:
				hdr = "Basic" + full
			default:
				// "dev1:" + one char: the last quantum is "xx==" or "xxx=";
				// flip trailing bits that do not belong to any byte.
				b := []byte(full)
				if n := len(b); n >= 4 && b[n-1] == '=' {
					k := n - 2
					if b[k] == '=' {
						k = n - 3
					}
					const alpha = "ABCDEFGHIJKLMNOPQRSTUVWXYZabcdefghijklmnopqrstuvwxyz0123456789+/"
					b[k] = alpha[(strings.IndexByte(alpha, b[k])+1)%64]
				}
				hdr = "Basic " + string(b)
			}
		default:
			hdr = "Basic " + enc([]byte(user+":"+pass))
		}
		hr := &http.Request{Method: http.MethodGet, URL: &url.URL{Scheme: "https", Host: "dns.example", Path: q.path, RawQuery: "dns=AAAA"},
			Header: http.Header{}, TLS: &tls.ConnectionState{ServerName: q.sni}}
		if hdr != "" && rng.IntN(12) == 0 {
			// The base64 decoder skips CR and LF wherever they stand; an HTTP
			// server never lets them through, but the finder's input is
			// whatever BasicAuth makes of the value.
			k := 6 + rng.IntN(len(hdr)-5)
			if k > len(hdr) {
				k = len(hdr)
			}
			hdr = hdr[:k] + pick(rng, []string{"\r\n", "\n", "\r"}) + hdr[k:]
		}
		if hdr != "" {
			hr.Header.Set("Authorization", hdr)
		}
		// Decoys: every other place of an HTTP request where an identifier or
		// credentials could sit is filled with a fixture device's.  None of
		// them is a channel of the property (Host header, URL host, URL
		// userinfo, query string, other headers), so none may have any
		// influence on what the device finder is handed.
		decoyID := pick(rng, devIDs)
		decoyPW := pick(rng, rightPasswords)
		if di := findDev(db, decoyID); di != nil && di.kind == "pw" {
			decoyPW = di.pw
		}
		decoyName := decoyID
		if len(v.domains) > 0 {
			decoyName += "." + pick(rng, v.domains)
		} else {
			decoyName += ".d.dns.example"
		}
		decoys := ""
		if rng.IntN(2) == 0 {
			hr.Host = decoyName
			decoys += "host "
		}
		if rng.IntN(3) == 0 {
			hr.URL.Host = decoyName
			decoys += "urlhost "
		}
		if rng.IntN(3) == 0 {
			hr.URL.User = url.UserPassword(decoyID, decoyPW)
			decoys += "urluser "
		}
		if rng.IntN(3) == 0 {
			hr.URL.RawQuery += "&id=" + decoyID + "&device=" + decoyID + "&password=" + url.QueryEscape(decoyPW)
			decoys += "query "
		}
		if rng.IntN(3) == 0 {
			cred := "Basic " + enc([]byte(decoyID+":"+decoyPW))
			hr.Header.Set("Proxy-Authorization", cred)
			hr.Header.Set("X-Authorization", cred)
			hr.Header.Set("X-Device-Id", decoyID)
			hr.Header.Set("X-Forwarded-Host", decoyName)
			hr.Header.Set("Cookie", "device="+decoyID)
			decoys += "headers "
		}
		if hdr != "" && rng.IntN(4) == 0 {
			// A second Authorization value: only the first one counts.
			hr.Header.Add("Authorization", "Basic "+enc([]byte(decoyID+":"+decoyPW)))
			decoys += "auth2 "
		}
		if rng.IntN(8) == 0 {
			// No TLS state at all (cleartext HTTP behind a terminator): no
			// server name.
			hr.TLS = nil
			q.sni = ""
			decoys += "notls "
		}
		rn.r.Count("http.decoys." + strings.ReplaceAll(strings.TrimSpace(decoys), " ", "+"))
		ri := dnsserver.VerifC03AddRequestInfo(hr)
		// What the transport must have handed over, by the harness's own decoding.
		q.ui, q.user, q.pass = "-", "", ""
		if u, p, ok := decodeBasic(hdr); ok {
			q.ui, q.user, q.pass = "p", u, p
		}
		got := "-"
		if ri.Userinfo != nil {
			p, set := ri.Userinfo.Password()
			got = fmt.Sprintf("%q:%q:%v", ri.Userinfo.Username(), p, set)
		}
		want := "-"
		if q.ui == "p" {
			want = fmt.Sprintf("%q:%q:true", q.user, q.pass)
		}
		out := serveRI(v, db, q, ri)
		line := q.line()
		replay := func() any {
			return map[string]any{"campaign": "http", "server": string(v.srv.Name), "authorization": hdr, "decoys": decoys, "decoy_device": decoyID, "decoy_name": decoyName,
				"ops": append(append(append([]string{}, v.lines...), db.lines...), line), "observed": out.canon()}
		}
		if got != want || ri.TLSServerName != q.sni || ri.URL == nil || ri.URL.Path != q.path {
			rn.r.Violate("doh-request-info-differs-from-http-request", fmt.Sprintf("Authorization %q, TLS server name %q, path %q: finder was handed userinfo %s (header decodes to %s), server name %q, URL %v", hdr, q.sni, q.path, got, want, ri.TLSServerName, ri.URL), replay())
		}
		rn.c.oracle(v, db, q, &out, replay)
		rn.lines = append(rn.lines, v.lines...)
		rn.lines = append(rn.lines, db.lines...)
		rn.pend = append(rn.pend, pending{lineIdx: len(rn.lines), got: out.canon(), ops: replay})
		// The model starts from the raw header as well (its own addRequestInfo
		// and BasicAuth); the oracle above used the harness's decoding.
		tlsTok := "-"
		if hr.TLS != nil {
			tlsTok = hx(hr.TLS.ServerName)
		}
		f := strings.Fields(line)
		rn.lines = append(rn.lines, strings.Join(append([]string{"http", tlsTok, hx(hdr), hx(q.path)}, f[4:]...), " "))
		kind := strings.SplitN(out.canon(), " ", 2)[0]
		rn.r.Count("http." + kind)
		rn.r.Case("http|"+string(v.srv.Name)+"|"+dbKey(db)+"|"+hdr+"|"+line, kind != "none")
		if len(rn.lines) > 20000 {
			rn.flush()
		}
	}
}
