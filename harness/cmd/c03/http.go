package main

import (
	"crypto/tls"
	"encoding/base64"
	"fmt"
	"net/http"
	"net/url"
	"strings"

	"github.com/AdguardTeam/AdGuardDNS/internal/agd"
	"github.com/AdguardTeam/AdGuardDNS/internal/dnsserver"
	"github.com/AdguardTeam/AdGuardDNS/verifh/hlib"
)

// decodeBasic is the harness's own reading of RFC 7617.
func decodeBasic(h string) (user, pass string, ok bool) {
	if len(h) < 6 || !strings.EqualFold(h[:6], "basic ") {
		return "", "", false
	}
	b, err := base64.StdEncoding.DecodeString(h[6:])
	if err != nil {
		return "", "", false
	}
	user, pass, ok = strings.Cut(string(b), ":")

	return user, pass, ok
}

// httpCampaign starts one level earlier than the other campaigns: the request
// information is produced by the DoH server's own addRequestInfo from an HTTP
// request with an Authorization header, a URL and a TLS state, and then served
// by the stack.  Checks: the userinfo handed to the finder is exactly the
// decoded header (and always carries a password, possibly empty); model and
// oracle as in the other campaigns.
func httpCampaign(o *hlib.Opts, rn *runner, w *world) {
	rng := o.Rand("http")
	n := 3000
	if o.Thorough() {
		n = 30000
	}
	var doh []*srvVariant
	for _, v := range w.variants {
		if v.proto == agd.ProtoDoH {
			doh = append(doh, v)
		}
	}
	enc := base64.StdEncoding.EncodeToString
	for i := 0; i < n; i++ {
		v := pick(rng, doh)
		db := genDB(rng.IntN, randAuth(rng))
		q := genRequest(rng, v, db)
		user, pass := pick(rng, devIDs), pick(rng, pwPool)
		if rng.IntN(4) == 0 {
			user = pick(rng, idLabels)
		}
		if di := findDev(db, user); di != nil && di.kind == "pw" && rng.IntN(2) == 0 {
			pass = di.pw
		}
		var hdr string
		switch rng.IntN(10) {
		case 0:
			hdr = ""
		case 1:
			hdr = "Bearer " + enc([]byte(user+":"+pass))
		case 2:
			hdr = "Basic " + enc([]byte(user))
		case 3:
			hdr = "Basic " + enc([]byte(user+":"+pass)) + "!"
		case 4:
			hdr = "basic " + enc([]byte(user+":"+pass))
		case 5:
			hdr = "Basic " + enc([]byte(user+":"))
		case 6:
			hdr = "Basic " + enc([]byte(":"+pass))
		default:
			hdr = "Basic " + enc([]byte(user+":"+pass))
		}
		hr := &http.Request{Method: http.MethodGet, URL: &url.URL{Scheme: "https", Host: "dns.example", Path: q.path, RawQuery: "dns=AAAA"},
			Header: http.Header{}, TLS: &tls.ConnectionState{ServerName: q.sni}}
		if hdr != "" {
			hr.Header.Set("Authorization", hdr)
		}
		ri := dnsserver.VerifC03AddRequestInfo(hr)
		// What the transport must have handed over, by the harness's own decoding.
		q.ui, q.user, q.pass = "-", "", ""
		if u, p, ok := decodeBasic(hdr); ok {
			q.ui, q.user, q.pass = "p", u, p
		}
		got := "-"
		if ri.Userinfo != nil {
			p, set := ri.Userinfo.Password()
			got = fmt.Sprintf("%q:%q:%v", ri.Userinfo.Username(), p, set)
		}
		want := "-"
		if q.ui == "p" {
			want = fmt.Sprintf("%q:%q:true", q.user, q.pass)
		}
		out := serveRI(v, db, q, ri)
		line := q.line()
		replay := func() any {
			return map[string]any{"campaign": "http", "server": string(v.srv.Name), "authorization": hdr,
				"ops": append(append(append([]string{}, v.lines...), db.lines...), line), "observed": out.canon()}
		}
		if got != want || ri.TLSServerName != q.sni || ri.URL == nil || ri.URL.Path != q.path {
			rn.r.Violate("doh-request-info-differs-from-http-request", fmt.Sprintf("Authorization %q: finder was handed userinfo %s, header decodes to %s", hdr, got, want), replay())
		}
		rn.c.oracle(v, db, q, &out, replay)
		rn.lines = append(rn.lines, v.lines...)
		rn.lines = append(rn.lines, db.lines...)
		rn.pend = append(rn.pend, pending{lineIdx: len(rn.lines), got: out.canon(), ops: replay})
		rn.lines = append(rn.lines, line)
		kind := strings.SplitN(out.canon(), " ", 2)[0]
		rn.r.Count("http." + kind)
		rn.r.Case("http|"+string(v.srv.Name)+"|"+dbKey(db)+"|"+hdr+"|"+line, kind != "none")
		if len(rn.lines) > 20000 {
			rn.flush()
		}
	}
}
