package main

// Campaign store: where the devices and their authentication settings come
// from.
//
// In production the profile database that the device finder asks is not a set
// of hand-built agd.Device values: every device was converted from the
// backend's DeviceSettings message (backendpb: AuthenticationSettings.toInternal,
// dohPasswordToInternal), is kept by profiledb.Default, written to the cache
// file by a full synchronisation (filecachepb: authToProtobuf,
// dohPasswordToProtobuf), read back from that file after a restart
// (filecachepb: AuthenticationSettings.toInternal) and later replaced by an
// incremental or full synchronisation.  Here all of that is the repository's
// own code driven through public API: an in-process gRPC backend, the real
// backendpb.ProfileStorage, real profiledb.Default instances on one cache file
// and the dnssvc.NewHandlers stack with that database as its ProfileDB.
//
// Every request is judged by what the backend's *latest message in force* for
// the profile said (doh_auth_only, password hash, deleted, device list), never
// by the agd.Device the database hands out: the observed profile and device
// are mapped to the harness's own reading of the message before the property
// oracle looks at them.

import (
	"context"
	"fmt"
	"hash/fnv"
	"math/rand/v2"
	"net"
	"net/netip"
	"net/url"
	"os"
	"path/filepath"
	"sort"
	"strconv"
	"strings"
	"sync"
	"time"

	"github.com/AdguardTeam/AdGuardDNS/internal/agd"
	"github.com/AdguardTeam/AdGuardDNS/internal/agdtest"
	"github.com/AdguardTeam/AdGuardDNS/internal/backendpb"
	"github.com/AdguardTeam/AdGuardDNS/internal/profiledb"
	"github.com/AdguardTeam/AdGuardDNS/verifh/hlib"
	"github.com/AdguardTeam/golibs/logutil/slogutil"
	"github.com/AdguardTeam/golibs/netutil"
	"github.com/c2h5oh/datasize"
	"google.golang.org/grpc"
	"google.golang.org/grpc/codes"
	"google.golang.org/grpc/credentials/insecure"
	"google.golang.org/grpc/metadata"
	"google.golang.org/grpc/status"
	"google.golang.org/protobuf/types/known/durationpb"
)

const storeHow = "in-process gRPC backend (DNSService.GetDNSProfiles / CreateDeviceByHumanId) -> backendpb.ProfileStorage -> " +
	"profiledb.Default.Refresh (a full synchronisation writes the cache file, an incremental one receives the changed profiles only) -> " +
	"[source cache-file*: a new profiledb.Default started from that file while the backend is down] -> dnssvc.NewHandlers with that " +
	"database; 'backend_messages' are the messages in force, 'sources' says per profile whether the database has it from the backend " +
	"(b) or from the cache file (c); the ops are the model's reading of the same messages (mdev = device settings message + source)"

// wireAuth is the AuthenticationSettings message of a device.
type wireAuth struct {
	present bool
	dohOnly bool
	pw      string // "": no password hash
}

func (a wireAuth) String() string {
	if !a.present {
		return "absent"
	}
	h := "nohash"
	if a.pw != "" {
		h = "bcrypt"
	}

	return fmt.Sprintf("doh_auth_only=%v,%s", a.dohOnly, h)
}

// token is the model's spelling of the message.
func (a wireAuth) token() string {
	switch {
	case !a.present:
		return "-"
	case a.pw == "":
		return b2s(a.dohOnly) + " none"
	default:
		return b2s(a.dohOnly) + " pw " + hx(a.pw)
	}
}

// choice is the harness's own reading of the message: no settings = no
// authentication; settings = authentication enabled, DoH-only as sent, any
// password accepted when there is no hash.
func (a wireAuth) choice() authChoice {
	c := authChoice{enabled: a.present, dohOnly: a.present && a.dohOnly, kind: "allow"}
	if a.present && a.pw != "" {
		c.kind, c.pw = "pw", a.pw
	}

	return c
}

// allWireAuths: every shape of the message (password x doh_auth_only x absent).
var allWireAuths = []wireAuth{{}, {present: true}, {present: true, dohOnly: true}, {present: true, pw: "secret1"},
	{present: true, dohOnly: true, pw: "hunter2"}}

func genWireAuth(rng *rand.Rand) (a wireAuth) {
	a = allWireAuths[rng.IntN(len(allWireAuths))]
	if a.pw != "" {
		a.pw = pick(rng, rightPasswords)
	}

	return a
}

// wireDev is a DeviceSettings message.
type wireDev struct {
	id, human string
	linked    string
	ded       []string
	auth      wireAuth
}

func (d *wireDev) msg() *backendpb.DeviceSettings {
	ds := &backendpb.DeviceSettings{Id: d.id, Name: "n" + d.id, FilteringEnabled: true, HumanIdLower: d.human}
	if d.linked != "" {
		ds.LinkedIp = netip.MustParseAddr(d.linked).AsSlice()
	}
	for _, ip := range d.ded {
		ds.DedicatedIps = append(ds.DedicatedIps, netip.MustParseAddr(ip).AsSlice())
	}
	if d.auth.present {
		ds.Authentication = &backendpb.AuthenticationSettings{DohAuthOnly: d.auth.dohOnly}
		if d.auth.pw != "" {
			ds.Authentication.DohPasswordHash = &backendpb.AuthenticationSettings_PasswordHashBcrypt{
				PasswordHashBcrypt: []byte(bcryptHashes[d.auth.pw])}
		}
	}

	return ds
}

// wireProf is a DNSProfile message; a changed profile is a new value.
type wireProf struct {
	id               string
	deleted, autoDev bool
	devs             []*wireDev
	changed          int64
}

func (w *wireProf) msg() *backendpb.DNSProfile {
	p := &backendpb.DNSProfile{
		DnsId:               w.id,
		FilteringEnabled:    true,
		QueryLogEnabled:     true,
		IpLogEnabled:        true,
		Deleted:             w.deleted,
		AutoDevicesEnabled:  w.autoDev,
		FilteredResponseTtl: durationpb.New(10 * time.Second),
		// The profile's access list blocks exactly pblock-<id>.c03.example.
		Access: &backendpb.AccessSettings{Enabled: true,
			BlocklistDomainRules: []string{"||" + strings.TrimSuffix(pblockName(w.id), ".") + "^"}},
	}
	for _, d := range w.devs {
		p.Devices = append(p.Devices, d.msg())
	}

	return p
}

func (w *wireProf) describe() map[string]any {
	var devs []string
	for _, d := range w.devs {
		devs = append(devs, fmt.Sprintf("{id:%s human_id_lower:%q linked_ip:%s dedicated_ips:%v authentication:%s}", d.id, d.human, d.linked, d.ded, d.auth))
	}

	return map[string]any{"dns_id": w.id, "deleted": w.deleted, "auto_devices_enabled": w.autoDev, "devices": devs, "message_version": w.changed}
}

func (w *wireProf) has(id string) bool {
	for _, d := range w.devs {
		if d.id == id {
			return true
		}
	}

	return false
}

// storeHumans: human IDs of the fixture's devices in this campaign (auto1 is
// an automatically created device that the backend already lists).
var storeHumans = map[string]string{"hum1": "my-phone", "hum2": "tv", "hum3": "tv-d", "auto1": "a-b"}

func newWireDev(rng *rand.Rand, id string) *wireDev {
	return &wireDev{id: id, human: storeHumans[id], linked: devLinked[id], ded: devDed[id], auth: genWireAuth(rng)}
}

// genWireProfs: the fixture's three profiles; every device is listed with
// probability 5/6; every shape of the authentication message occurs.
func genWireProfs(rng *rand.Rand) (profs []*wireProf) {
	byID := map[string]*wireProf{}
	auto := rng.IntN(len(profIDs) + 1)
	for k, id := range profIDs {
		w := &wireProf{id: id, deleted: rng.IntN(6) == 0, autoDev: k == auto, changed: 1}
		byID[id] = w
		profs = append(profs, w)
	}
	var all []*wireDev
	for _, id := range devIDs {
		if rng.IntN(6) == 0 {
			continue
		}
		d := newWireDev(rng, id)
		all = append(all, d)
		w := byID[devProfile[id]]
		w.devs = append(w.devs, d)
	}
	for i, j := range rng.Perm(len(all)) {
		if i < len(allWireAuths) {
			all[j].auth = allWireAuths[i]
		}
	}
	for _, w := range profs {
		if len(w.devs) == 0 {
			w.devs = append(w.devs, newWireDev(rng, "nd"+w.id))
		}
	}

	return profs
}

// autoID is the ID the in-process backend gives to the device it creates for
// a human ID of a profile.
func autoID(pid, humanLower string) string {
	h := fnv.New32a()
	_, _ = h.Write([]byte(pid + "|" + humanLower))

	return fmt.Sprintf("u%07x", h.Sum32()&0xfffffff)
}

// storeBackend is the in-process backend.  A request with a zero sync_time is
// a full synchronisation (every profile); otherwise the profiles whose message
// changed after that time are sent.
type storeBackend struct {
	backendpb.UnimplementedDNSServiceServer
	mu         sync.Mutex
	profs      []*wireProf
	down       bool
	base       int64
	version    int64
	full, incr int
	created    int
	// log: the creation requests of the current stage and what was answered;
	// byID: every device ever created.
	log  []createRec
	byID map[string]createRec
}

// createRec is one CreateDeviceByHumanId exchange.
type createRec struct {
	pid, human, lower string
	dt                int
	id                string // "": the backend was down
}

func (b *storeBackend) GetDNSProfiles(req *backendpb.DNSProfilesRequest, srv grpc.ServerStreamingServer[backendpb.DNSProfile]) (err error) {
	b.mu.Lock()
	defer b.mu.Unlock()
	if b.down {
		return status.Error(codes.Unavailable, "verif: backend is down")
	}
	since := req.GetSyncTime().AsTime().UnixMilli() - b.base
	if since < 0 {
		b.full++
	} else {
		b.incr++
	}
	for _, w := range b.profs {
		if since >= 0 && w.changed <= since {
			continue
		}
		if err = srv.Send(w.msg()); err != nil {
			return err
		}
	}
	srv.SetTrailer(metadata.Pairs("sync_time", strconv.FormatInt(b.base+b.version, 10)))

	return nil
}

func (b *storeBackend) CreateDeviceByHumanId(_ context.Context, req *backendpb.CreateDeviceRequest) (*backendpb.CreateDeviceResponse, error) {
	b.mu.Lock()
	defer b.mu.Unlock()
	lower := strings.ToLower(req.HumanId)
	rec := createRec{pid: req.DnsId, human: req.HumanId, lower: lower, dt: int(req.DeviceType)}
	if b.down {
		b.log = append(b.log, rec)

		return nil, status.Error(codes.Unavailable, "verif: backend is down")
	}
	b.created++
	rec.id = autoID(req.DnsId, lower)
	b.log = append(b.log, rec)
	if b.byID == nil {
		b.byID = map[string]createRec{}
	}
	b.byID[rec.id] = rec

	return &backendpb.CreateDeviceResponse{Device: &backendpb.DeviceSettings{Id: rec.id, Name: "auto " + lower,
		FilteringEnabled: true, HumanIdLower: lower}}, nil
}

// takeLog returns the exchanges logged so far.
func (b *storeBackend) logged() (out []createRec) {
	b.mu.Lock()
	defer b.mu.Unlock()

	return append(out, b.log...)
}

func (b *storeBackend) createdDevice(id string) (rec createRec, ok bool) {
	b.mu.Lock()
	defer b.mu.Unlock()
	rec, ok = b.byID[id]

	return rec, ok
}

// swDB is the stack's profile database: whichever instance is current.
type swDB struct{ cur profiledb.Interface }

func (d *swDB) CreateAutoDevice(ctx context.Context, id agd.ProfileID, h agd.HumanID, t agd.DeviceType) (*agd.Profile, *agd.Device, error) {
	return d.cur.CreateAutoDevice(ctx, id, h, t)
}

func (d *swDB) ProfileByDedicatedIP(ctx context.Context, ip netip.Addr) (*agd.Profile, *agd.Device, error) {
	return d.cur.ProfileByDedicatedIP(ctx, ip)
}

func (d *swDB) ProfileByDeviceID(ctx context.Context, id agd.DeviceID) (*agd.Profile, *agd.Device, error) {
	return d.cur.ProfileByDeviceID(ctx, id)
}

func (d *swDB) ProfileByHumanID(ctx context.Context, id agd.ProfileID, h agd.HumanIDLower) (*agd.Profile, *agd.Device, error) {
	return d.cur.ProfileByHumanID(ctx, id, h)
}

func (d *swDB) ProfileByLinkedIP(ctx context.Context, ip netip.Addr) (*agd.Profile, *agd.Device, error) {
	return d.cur.ProfileByLinkedIP(ctx, ip)
}

// view is what a database holds: per profile the message in force and where
// the database has it from.
type view struct {
	profs []*wireProf
	src   map[string]string // profile id -> "b" | "c"
	// gone: devices a later message dropped from their profile, by ID.
	gone map[string]*wireDev
	down bool
}

// state builds the harness's own reading of the view: reference profiles and
// devices, the look-up tables a profile database over these messages has, and
// the model ops.
func (vw *view) state() (s *dbState) {
	s = &dbState{info: map[*agd.Device]*devInfo{}, byid: map[string]dbRes{}, byhuman: map[[2]string]dbRes{},
		create: map[[3]string]dbRes{}, bylinked: map[string]dbRes{}, byded: map[string]dbRes{}}
	refP := map[string]*agd.Profile{}
	refD := map[string]*devInfo{}
	mk := func(d *wireDev) *devInfo {
		c := d.auth.choice()
		dev := &agd.Device{Auth: c.settings(), ID: agd.DeviceID(d.id), FilteringEnabled: true, HumanIDLower: agd.HumanIDLower(d.human)}
		if d.linked != "" {
			dev.LinkedIP = netip.MustParseAddr(d.linked)
		}
		for _, ip := range d.ded {
			dev.DedicatedIPs = append(dev.DedicatedIPs, netip.MustParseAddr(ip))
		}
		di := &devInfo{d: dev, kind: c.kind, pw: c.pw}
		s.info[dev] = di
		refD[d.id] = di

		return di
	}
	lines := []string{"dbreset"}
	var devLines []string
	for _, w := range vw.profs {
		p := newProfile(w.id, w.deleted)
		p.AutoDevicesEnabled = w.autoDev
		refP[w.id] = p
		s.profs = append(s.profs, p)
		for _, d := range w.devs {
			di := mk(d)
			s.devs = append(s.devs, di)
			p.DeviceIDs = append(p.DeviceIDs, di.d.ID)
			res := dbRes{kind: "ok", p: p, d: di.d}
			s.byid[d.id] = res
			devLines = append(devLines, fmt.Sprintf("mdev %s %s %s", hx(d.id), vw.src[w.id], d.auth.token()))
			if d.human != "" {
				s.byhuman[[2]string{w.id, d.human}] = res
			}
			if d.linked != "" {
				s.bylinked[d.linked] = res
			}
			for _, ip := range d.ded {
				s.byded[ip] = res
			}
		}
	}
	for _, p := range s.profs {
		l := "prof " + hx(string(p.ID)) + " " + b2s(p.Deleted)
		for _, d := range p.DeviceIDs {
			l += " " + hx(string(d))
		}
		lines = append(lines, l)
	}
	lines = append(lines, devLines...)
	for _, k := range hlib.SortedKeys(s.byid) {
		lines = append(lines, "byid "+hx(k)+" "+s.byid[k].token())
	}
	var hk []string
	for k := range s.byhuman {
		hk = append(hk, k[0]+"\x00"+k[1])
	}
	sort.Strings(hk)
	for _, k := range hk {
		pid, h, _ := strings.Cut(k, "\x00")
		lines = append(lines, "byhuman "+hx(pid)+" "+hx(h)+" "+s.byhuman[[2]string{pid, h}].token())
	}
	for _, k := range hlib.SortedKeys(s.bylinked) {
		lines = append(lines, "bylinked "+k+" "+s.bylinked[k].token())
	}
	for _, k := range hlib.SortedKeys(s.byded) {
		lines = append(lines, "byded "+k+" "+s.byded[k].token())
	}
	s.lines = lines
	// Devices that no message in force lists any more: known to the harness
	// only, so that the oracle can name them if they are recognised.
	for id, d := range vw.gone {
		if refD[id] == nil {
			mk(d)
		}
	}
	s.refProf = func(id string) *agd.Profile { return refP[id] }
	s.refDev = func(id string) *devInfo { return refD[id] }
	// adoptAuto: a device the backend created on request belongs to the profile
	// it was created for, by the backend's word.
	s.adoptAuto = func(c createRec) *devInfo {
		di := mk(&wireDev{id: c.id, human: c.lower})
		if p := refP[c.pid]; p != nil {
			p.DeviceIDs = append(p.DeviceIDs, di.d.ID)
		}

		return di
	}

	return s
}

// createLines: the model's reading of the backend's answers to creation
// requests: the look-up entry and the created device (no authentication
// settings; it comes from the backend directly).
func createLines(log []createRec) (lines []string) {
	seen := map[string]bool{}
	for _, c := range log {
		res := "err"
		if c.id != "" {
			res = "ok " + hx(c.pid) + " " + hx(c.id)
			if !seen[c.id] {
				seen[c.id] = true
				lines = append(lines, "mdev "+hx(c.id)+" b -")
			}
		}
		l := fmt.Sprintf("create %s %s %d %s", hx(c.pid), hx(c.human), c.dt, res)
		if !seen[l] {
			seen[l] = true
			lines = append(lines, l)
		}
	}

	return lines
}

type storeEnv struct {
	r    *hlib.Result
	rn   *runner
	rng  *rand.Rand
	srv  *storeBackend
	ps   *backendpb.ProfileStorage
	ec   *agdtest.ErrorCollector
	path string
	sw   *swDB
	vs   []*srvVariant

	colls int
}

func (e *storeEnv) newDB(fullIvl time.Duration) (db *profiledb.Default) {
	db, err := profiledb.New(&profiledb.Config{
		Logger: slogutil.NewDiscardLogger(), Storage: e.ps, ErrColl: e.ec, Metrics: profiledb.EmptyMetrics{}, CacheFilePath: e.path,
		FullSyncIvl: fullIvl, FullSyncRetryIvl: time.Hour, ResponseSizeEstimate: datasize.KB,
	})
	hlib.Must(err)

	return db
}

func storeCampaign(o *hlib.Opts, rn *runner) {
	r := rn.r
	l, err := net.Listen("tcp", "127.0.0.1:0")
	if err != nil {
		r.Notes = append(r.Notes, "store campaign skipped: cannot listen on loopback: "+err.Error())

		return
	}
	dir, err := os.MkdirTemp("", "agdverif-c03-")
	hlib.Must(err)
	defer func() { _ = os.RemoveAll(dir) }()

	e := &storeEnv{r: r, rn: rn, rng: o.Rand("store"), sw: &swDB{}, path: filepath.Join(dir, "profiles.pb")}
	// Sync times lie a little in the past: an incremental synchronisation is due
	// with a full-sync interval of an hour, a full one with an interval of zero.
	e.srv = &storeBackend{base: time.Now().UnixMilli() - 600000}
	gs := grpc.NewServer(grpc.ConnectionTimeout(time.Second), grpc.Creds(insecure.NewCredentials()))
	backendpb.RegisterDNSServiceServer(gs, e.srv)
	go func() { _ = gs.Serve(l) }()
	defer gs.Stop()

	e.ec = &agdtest.ErrorCollector{OnCollect: func(context.Context, error) { e.colls++ }}
	e.ps, err = backendpb.NewProfileStorage(&backendpb.ProfileStorageConfig{
		BindSet:              netutil.SliceSubnetSet{netip.MustParsePrefix("0.0.0.0/0"), netip.MustParsePrefix("::/0")},
		ErrColl:              e.ec,
		Logger:               slogutil.NewDiscardLogger(),
		GRPCMetrics:          backendpb.EmptyGRPCMetrics{},
		Metrics:              backendpb.EmptyProfileDBMetrics{},
		Endpoint:             &url.URL{Scheme: "grpc", Host: l.Addr().String()},
		ResponseSizeEstimate: datasize.KB,
		MaxProfilesSize:      16 * datasize.MB,
	})
	if err != nil {
		r.Notes = append(r.Notes, "store campaign skipped: "+err.Error())

		return
	}
	// Two server groups over the real database: several device domains, and
	// the set with the nested domain.
	for k, di := range []int{2, 3} {
		_, vs := buildFixture(fmt.Sprintf("st%d", k), domainSets[di], false, e.sw)
		e.vs = append(e.vs, vs...)
	}

	n := 300
	if o.Thorough() {
		n = 1500
	}
	for c := 0; c < n; c++ {
		e.runCase()
	}
	r.Notes = append(r.Notes, fmt.Sprintf("store: %d cases (3 profiles, up to 11 devices, every shape of the authentication message in each) through gRPC "+
		"backend -> backendpb.ProfileStorage -> profiledb (full sync, cache file) -> restart from the cache file -> changed settings by an "+
		"incremental or a second full sync -> restart again; backend served %d full and %d incremental synchronisations and created %d "+
		"devices; converter reports: %d", n, e.srv.full, e.srv.incr, e.srv.created, e.colls))
}

// mutate: the users change their settings.  At least one profile changes.
func (e *storeEnv) mutate(profs []*wireProf, version int64, gone map[string]*wireDev) (out []*wireProf) {
	rng := e.rng
	forced := rng.IntN(len(profs))
	for k, w := range profs {
		if k != forced && rng.IntN(2) == 0 {
			out = append(out, w)

			continue
		}
		nw := &wireProf{id: w.id, deleted: w.deleted, autoDev: w.autoDev, changed: version}
		switch rng.IntN(8) {
		case 0:
			nw.deleted = !w.deleted
		case 1:
			nw.autoDev = !w.autoDev
		}
		for _, d := range w.devs {
			switch rng.IntN(6) {
			case 0:
				// The device is removed from the profile.
				if len(w.devs) > 1 {
					gone[d.id] = d

					continue
				}
			case 1, 2, 3:
				// New authentication settings (password set or removed, DoH-only
				// switched, authentication dropped altogether).
				nd := *d
				nd.auth = genWireAuth(rng)
				d = &nd
			}
			nw.devs = append(nw.devs, d)
		}
		if len(nw.devs) == 0 {
			nw.devs = append(nw.devs, w.devs[0])
			delete(gone, w.devs[0].id)
		}
		// A device of the fixture that was not listed (or was removed) comes back.
		for _, id := range devIDs {
			if devProfile[id] == w.id && !nw.has(id) && rng.IntN(4) == 0 {
				nw.devs = append(nw.devs, newWireDev(rng, id))
				delete(gone, id)
			}
		}
		out = append(out, nw)
	}

	return out
}

// runCase: one set of profiles through all sources.
func (e *storeEnv) runCase() {
	ctx := context.Background()
	r, rng, srv := e.r, e.rng, e.srv
	_ = os.Remove(e.path)
	srv.mu.Lock()
	srv.profs, srv.down, srv.version = genWireProfs(rng), false, 1
	cur := srv.profs
	srv.mu.Unlock()
	gone := map[string]*wireDev{}
	setDown := func(down bool) {
		srv.mu.Lock()
		srv.down = down
		srv.mu.Unlock()
	}
	describe := func(profs []*wireProf) any {
		d := map[string]any{}
		for _, w := range profs {
			d["profile_"+w.id] = w.describe()
		}

		return d
	}
	refresh := func(db *profiledb.Default, what string) bool {
		if err := db.Refresh(ctx); err != nil {
			r.Violate("store:refresh-failed", "store: "+what+" from the in-process backend failed: "+err.Error(),
				map[string]any{"campaign": "store", "backend_messages": describe(cur), "how": storeHow})

			return false
		}

		return true
	}
	// stage serves requests of several servers against the current database.
	stage := func(name string, db *profiledb.Default, inForce []*wireProf, src map[string]string, down bool) {
		e.sw.cur = db
		vw := &view{profs: inForce, src: src, gone: gone, down: down}
		st := vw.state()
		srv.mu.Lock()
		srv.log = nil
		srv.mu.Unlock()
		st.late = func() []string { return createLines(srv.logged()) }
		st.extra = map[string]any{"campaign": "store", "stage": name, "backend_messages": describe(inForce), "sources": src, "how": storeHow}
		st.observe = func(v *srvVariant, q *request, o *outcome, replay func() any) { e.observe(name, st, v, q, o, replay) }
		for k := 0; k < 5; k++ {
			v := pick(rng, e.vs)
			for rng.IntN(5) > 0 && (v.proto == agd.ProtoDNSCrypt || v.proto == agd.ProtoInvalid) {
				v = pick(rng, e.vs)
			}
			n := 5 + rng.IntN(6)
			reqs := make([]*request, n)
			for j := range reqs {
				if rng.IntN(3) == 0 {
					reqs[j] = genRequest(rng, v, st)
				} else {
					reqs[j] = genTargeted(rng, v, st, vw)
				}
			}
			e.rn.runCase(v, st, reqs, "store")
		}
		r.Count("store.stage." + name)
	}
	all := func(s string) map[string]string {
		m := map[string]string{}
		for _, w := range cur {
			m[w.id] = s
		}

		return m
	}

	// The first full synchronisation; it writes the cache file.
	db1 := e.newDB(time.Hour)
	if !refresh(db1, "the first synchronisation") {
		return
	}
	stage("backend", db1, cur, all("b"), false)
	// A restart from the cache file while the backend is down.
	setDown(true)
	db2 := e.newDB(time.Hour)
	stage("cache-file", db2, cur, all("c"), true)
	// The users change their settings.
	srv.mu.Lock()
	srv.version++
	old := cur
	cur = e.mutate(cur, srv.version, gone)
	srv.profs = cur
	srv.down = false
	srv.mu.Unlock()
	if rng.IntN(2) == 0 {
		// An incremental synchronisation of the restarted database: the changed
		// profiles come from the backend, the others are still the cached ones.
		if !refresh(db2, "the incremental synchronisation") {
			return
		}
		src := map[string]string{}
		for k, w := range cur {
			src[w.id] = "c"
			if w != old[k] {
				src[w.id] = "b"
			}
		}
		stage("backend-update", db2, cur, src, false)
	} else {
		// A database whose full-synchronisation interval has passed: the cache file
		// is rewritten, and the next restart reads the new settings.
		db3 := e.newDB(0)
		if !refresh(db3, "the second full synchronisation") {
			return
		}
		stage("backend-resync", db3, cur, all("b"), false)
		setDown(true)
		db4 := e.newDB(time.Hour)
		stage("cache-file-resync", db4, cur, all("c"), true)
	}
	r.Count("store.cases")
}

// observe maps what the stack attributed the request to onto the harness's
// reading of the backend's messages, so that the property oracle judges by
// the messages; it also counts what was exercised.
func (e *storeEnv) observe(stage string, st *dbState, v *srvVariant, q *request, o *outcome, replay func() any) {
	r := e.r
	kind := o.kind
	if !o.reached {
		kind = "not-served"
	}
	r.Count("store." + stage + ".outcome." + kind)
	if o.p == nil || o.d == nil {
		return
	}
	rp, rd := st.refProf(string(o.p.ID)), st.refDev(string(o.d.ID))
	if rd == nil {
		if c, ok := e.srv.createdDevice(string(o.d.ID)); ok {
			rd = st.adoptAuto(c)
		}
	}
	if rp == nil || rd == nil {
		r.Violate("recognised-unknown-to-backend/"+stage, fmt.Sprintf("request attributed to profile %q, device %q, which no message of the backend describes",
			o.p.ID, o.d.ID), replay())

		return
	}
	o.p, o.d = rp, rd.d
	a := "absent"
	if rd.d.Auth.Enabled {
		a = fmt.Sprintf("dohonly=%s,%s", b2s(rd.d.Auth.DoHAuthOnly), rd.kind)
	}
	r.Count(fmt.Sprintf("store.%s.ok.%s.auth:%s", stage, protoNames[v.proto], a))
}

// genTargeted: a request of a client that uses one of the devices the
// backend knows (or knew), through a channel of the server's transport, with
// and without the credentials the device needs.
func genTargeted(rng *rand.Rand, v *srvVariant, st *dbState, vw *view) (q *request) {
	q = &request{ui: "-", local: netip.MustParseAddrPort(localAddrs[0]), rip: netip.MustParseAddr("203.0.113.9")}
	var di *devInfo
	if len(vw.gone) > 0 && rng.IntN(8) == 0 {
		ids := hlib.SortedKeys(vw.gone)
		di = st.refDev(pick(rng, ids))
	}
	if di == nil {
		di = pick(rng, st.devs)
	}
	id := string(di.d.ID)
	label := id
	if rng.IntN(4) == 0 {
		label = strings.ToUpper(id)
	}
	if di.d.HumanIDLower != "" && rng.IntN(2) == 0 {
		// The device's extended human-readable ID.
		for _, p := range st.profs {
			for _, x := range p.DeviceIDs {
				if x == di.d.ID {
					label = pick(rng, []string{"otr", "win"}) + "-" + string(p.ID) + "-" + string(di.d.HumanIDLower)
				}
			}
		}
	}
	sni := func() string {
		var doms []string
		for _, d := range v.domains {
			if d != "" {
				doms = append(doms, d)
			}
		}
		if len(doms) == 0 {
			return ""
		}

		return label + "." + pick(rng, doms)
	}
	creds := func() {
		q.user = id
		switch rng.IntN(6) {
		case 0:
			q.ui = "u"
		case 1:
			q.ui, q.pass = "p", ""
		case 2:
			q.ui, q.pass = "p", pick(rng, pwPool)
		default:
			q.ui, q.pass = "p", di.pw
			if di.kind != "pw" {
				q.pass = pick(rng, pwPool)
			}
		}
	}
	switch v.proto {
	case agd.ProtoDoH:
		q.path = "/dns-query"
		switch rng.IntN(5) {
		case 0:
			q.path = pick(rng, pathHeads[:2]) + "/" + label
		case 1:
			q.sni = sni()
		case 2:
			// Credentials of the device together with its path or server name.
			creds()
			if rng.IntN(2) == 0 {
				q.path = pick(rng, pathHeads[:2]) + "/" + label
			} else {
				q.sni = sni()
			}
		default:
			creds()
		}
	case agd.ProtoDoT, agd.ProtoDoQ:
		q.sni = sni()
		if rng.IntN(6) == 0 {
			// Credentials on a transport that has none.
			q.path = "/dns-query"
			creds()
		}
	case agd.ProtoDNS:
		switch k := rng.IntN(4); {
		case k == 0 && di.d.LinkedIP.IsValid():
			q.rip = di.d.LinkedIP
			if rng.IntN(4) == 0 && q.rip.Is4() {
				q.rip = netip.AddrFrom16(q.rip.As16())
			}
		case k == 1 && len(di.d.DedicatedIPs) > 0:
			q.local = netip.AddrPortFrom(pick(rng, di.d.DedicatedIPs), 53)
		default:
			q.opt, q.edns = true, []eopt{{code: 65074, data: id}}
		}
	default:
		return genRequest(rng, v, st)
	}
	if rng.IntN(8) == 0 {
		genGate(rng, q, 2)
	}

	return q
}
