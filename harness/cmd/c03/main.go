// Command c03 is the correspondence harness and property oracle for C03
// (device recognition only via the device's own identifier and only when
// authenticated).
//
// The real code is the production middleware stack (dnssvc.NewHandlers): the
// default device finder, ratelimitmw.handleDeviceResult and
// agd.RequestInfo.DeviceData, observed from the handler behind all
// middlewares, from the billing recorder and from the query log.
package main

import (
	"context"
	"encoding/hex"
	"fmt"
	"math/rand/v2"
	"net/netip"
	"net/url"
	"os"
	"path"
	"runtime"
	"strings"
	"sync"
	"time"

	"github.com/AdguardTeam/AdGuardDNS/internal/access"
	"github.com/AdguardTeam/AdGuardDNS/internal/agd"
	"github.com/AdguardTeam/AdGuardDNS/internal/agdnet"
	"github.com/AdguardTeam/AdGuardDNS/internal/agdpasswd"
	"github.com/AdguardTeam/AdGuardDNS/internal/agdtest"
	"github.com/AdguardTeam/AdGuardDNS/internal/dnsmsg"
	"github.com/AdguardTeam/AdGuardDNS/internal/dnsserver"
	"github.com/AdguardTeam/AdGuardDNS/internal/filter"
	"github.com/AdguardTeam/AdGuardDNS/internal/geoip"
	"github.com/AdguardTeam/AdGuardDNS/internal/profiledb"
	"github.com/AdguardTeam/AdGuardDNS/verifh/hlib"
	"github.com/AdguardTeam/AdGuardDNS/verifh/hlib/stack"
	"github.com/miekg/dns"
)

// ---------------------------------------------------------------------------
// Fixture: passwords, profiles, devices, database states.

// bcryptHashes are precomputed (cost 4) so that the harness does not depend on
// the bcrypt package directly.
var bcryptHashes = map[string]string{
	"secret1":    "$2a$04$BYtgrjVVJ46rsG0OpLPu6uX6r0jmCObEG/K.qyCsB8U0SpFOlLZhK",
	"hunter2":    "$2a$04$.1M0WTJCg/T/K8RlSHX5dOypCIaFrHaT.OgY4NecHdECssdGOJBwG",
	"Pa:ss w0rd": "$2a$04$JiioUYLnaF/cnfIyf95ZtexC/QgvIgzTML/YQk2.o4TEAINEFNOZO",
}

var rightPasswords = []string{"secret1", "hunter2", "Pa:ss w0rd"}

// devInfo is what the harness knows about a fixture device independently of
// the code under test.
type devInfo struct {
	d    *agd.Device
	kind string // "allow" | "pw"
	pw   string
}

type dbRes struct {
	kind string // ok dnf dnfw dnfww pnf pnfw err
	p    *agd.Profile
	d    *agd.Device
}

var errOther = fmt.Errorf("storage exploded")

func (x dbRes) ret() (*agd.Profile, *agd.Device, error) {
	switch x.kind {
	case "ok":
		return x.p, x.d, nil
	case "dnf", "":
		return nil, nil, profiledb.ErrDeviceNotFound
	case "dnfw":
		return nil, nil, fmt.Errorf("rechecking devices: %w", profiledb.ErrDeviceNotFound)
	case "dnfww":
		return nil, nil, fmt.Errorf("outer: %w", fmt.Errorf("rechecking devices: %w", profiledb.ErrDeviceNotFound))
	case "pnf":
		return nil, nil, profiledb.ErrProfileNotFound
	case "pnfw":
		return nil, nil, fmt.Errorf("wrapped: %w", profiledb.ErrProfileNotFound)
	default:
		return nil, nil, errOther
	}
}

func (x dbRes) token() string {
	if x.kind == "ok" {
		return "ok " + hx(string(x.p.ID)) + " " + hx(string(x.d.ID))
	}
	if x.kind == "" {
		return "dnf"
	}

	return x.kind
}

type dbState struct {
	profs    []*agd.Profile
	devs     []*devInfo
	info     map[*agd.Device]*devInfo
	byid     map[string]dbRes
	byhuman  map[[2]string]dbRes
	create   map[[3]string]dbRes
	bylinked map[string]dbRes
	byded    map[string]dbRes
	lines    []string

	// Campaign store only (the state was derived from backend messages):
	// extra is added to every replay; observe sees every outcome before the
	// property oracle does; late yields model ops known only after serving (the backend's answers to
	// device-creation requests); refProf / refDev are the harness's reading of
	// the messages by ID.
	extra     map[string]any
	late      func() []string
	observe   func(v *srvVariant, q *request, o *outcome, replay func() any)
	refProf   func(id string) *agd.Profile
	refDev    func(id string) *devInfo
	adoptAuto func(c createRec) *devInfo
}

func hx(s string) string { return "x" + hex.EncodeToString([]byte(s)) }

// allIPs is every address of both pools in the form the finder looks it up
// (unmapped, zone kept): the look-up tables cover remote addresses under the
// dedicated-address look-up and local ones under the linked-address look-up
// too, so that exchanged arguments are observable.
func allIPs() (ips []string) {
	seen := map[string]bool{}
	add := func(a netip.Addr) {
		k := a.Unmap().String()
		if !seen[k] {
			seen[k] = true
			ips = append(ips, k)
		}
	}
	for _, r := range remoteIPs {
		add(netip.MustParseAddr(r))
	}
	for _, l := range localAddrs {
		add(netip.MustParseAddrPort(l).Addr())
	}

	return ips
}

func b2s(b bool) string {
	if b {
		return "1"
	}

	return "0"
}

// qnameAccess is the access list of one profile: it blocks exactly the
// question pblock-<profile id>.c03.example.
type qnameAccess struct{ id string }

func (qnameAccess) Config() (conf *access.ProfileConfig) { return nil }

func (a qnameAccess) IsBlocked(req *dns.Msg, _ netip.AddrPort, _ *geoip.Location) (blocked bool) {
	return strings.EqualFold(req.Question[0].Name, pblockName(a.id))
}

func pblockName(id string) string { return "pblock-" + id + ".c03.example." }

const (
	plainName    = "c03.example.org."
	gblockedName = "gblocked.c03.example."
)

func newProfile(id string, deleted bool) *agd.Profile {
	return &agd.Profile{
		FilterConfig: &filter.ConfigClient{Custom: &filter.ConfigCustom{}, Parental: &filter.ConfigParental{},
			RuleList: &filter.ConfigRuleList{}, SafeBrowsing: &filter.ConfigSafeBrowsing{}},
		Access: qnameAccess{id: id}, BlockingMode: &dnsmsg.BlockingModeNullIP{}, Ratelimiter: agd.GlobalRatelimiter{},
		ID: agd.ProfileID(id), FilteredResponseTTL: 10 * time.Second, Deleted: deleted,
		AutoDevicesEnabled: true, QueryLogEnabled: true, IPLogEnabled: true,
	}
}

// authChoice is one row of the authentication settings table.
type authChoice struct {
	enabled, dohOnly bool
	kind             string
	pw               string
}

func (a authChoice) settings() *agd.AuthSettings {
	s := &agd.AuthSettings{Enabled: a.enabled, DoHAuthOnly: a.dohOnly}
	if a.kind == "allow" {
		s.PasswordHash = agdpasswd.AllowAuthenticator{}
	} else {
		s.PasswordHash = agdpasswd.NewPasswordHashBcrypt([]byte(bcryptHashes[a.pw]))
	}

	return s
}

var (
	// "secret1" is a device whose ID is also one of the fixture passwords, so
	// that a check of the wrong string (user name instead of password) can
	// succeed.
	devIDs     = []string{"dev1", "abcd1234", "a", "z9", "DevX", "otr", "hum1", "hum2", "auto1", "secret1", "hum3"}
	devProfile = map[string]string{"dev1": "prof1", "abcd1234": "prof1", "hum1": "prof1", "hum3": "prof1", "a": "prof2", "z9": "prof2", "DevX": "prof2", "hum2": "prof2", "otr": "p3", "auto1": "p3", "secret1": "p3"}
	// "tv-d" is what a label cut one label too late ("tv.d" of "otr-prof1-tv.d…") normalises to.
	devHuman = map[string]string{"hum1": "my-phone", "hum2": "tv", "hum3": "tv-d"}
	// "a" is linked to a link-local address: sockets report such clients with a
	// zone (fe80::1%eth0), which equals no stored address.
	devLinked = map[string]string{"dev1": "198.51.100.1", "z9": "2001:db8::1", "hum1": "198.51.100.2", "a": "fe80::1"}
	devDed    = map[string][]string{"abcd1234": {"192.0.2.10"}, "a": {"192.0.2.11", "2001:db8::2"}, "DevX": {"192.0.2.2"}}
	profIDs   = []string{"prof1", "prof2", "p3"}
	// The last entries: a dedicated address of abcd1234 as a *remote* address and
	// a linked address of dev1 as a *local* one (neither may recognise), the
	// IPv4-mapped and the zoned spellings a socket can report.  (The globally
	// blocked client 203.0.113.66 is used by genGate only.)
	remoteIPs = []string{"198.51.100.1", "198.51.100.2", "2001:db8::1", "203.0.113.9", "192.0.2.10", "::ffff:198.51.100.1",
		"fe80::1", "fe80::1%eth0", "::ffff:198.51.100.2"}
	localAddrs = []string{"192.0.2.2:53", "192.0.2.2:5353", "192.0.2.10:53", "192.0.2.11:53", "[2001:db8::2]:53", "192.0.2.77:53",
		"198.51.100.1:53", "[::ffff:192.0.2.10]:53", "[::ffff:192.0.2.2]:53", "[2001:db8::2%eth0]:53", "[fe80::1%eth0]:53"}
	blockedClient = netip.MustParseAddr("203.0.113.66")
	humanKeys     = []string{"my-phone", "tv", "a-b", "tv-d"}
	createHuman   = []string{"My-Phone", "my-phone", "tv", "TV", "a-b", "A-b"}
	createDTs     = []int{1, 9}
)

// genDB builds a well-formed database state: every successful lookup returns
// a device that really has the looked-up identifier and is listed in the
// returned profile.  choose(n) picks in [0,n).
func genDB(choose func(n int) int, auths func(id string) authChoice) (s *dbState) {
	s = &dbState{info: map[*agd.Device]*devInfo{}, byid: map[string]dbRes{}, byhuman: map[[2]string]dbRes{},
		create: map[[3]string]dbRes{}, bylinked: map[string]dbRes{}, byded: map[string]dbRes{}}
	profs := map[string]*agd.Profile{}
	for _, id := range profIDs {
		p := newProfile(id, choose(4) == 0)
		profs[id] = p
		s.profs = append(s.profs, p)
	}
	devs := map[string]*devInfo{}
	for _, id := range devIDs {
		a := auths(id)
		d := &agd.Device{Auth: a.settings(), ID: agd.DeviceID(id), FilteringEnabled: true,
			HumanIDLower: agd.HumanIDLower(devHuman[id])}
		if ip, ok := devLinked[id]; ok {
			d.LinkedIP = netip.MustParseAddr(ip)
		}
		for _, ip := range devDed[id] {
			d.DedicatedIPs = append(d.DedicatedIPs, netip.MustParseAddr(ip))
		}
		di := &devInfo{d: d, kind: a.kind, pw: a.pw}
		devs[id] = di
		s.devs = append(s.devs, di)
		s.info[d] = di
	}
	// failure picks a non-ok lookup result.
	failure := func() string { return []string{"dnf", "dnfw", "dnfww", "pnf", "pnfw", "err"}[choose(6)] }
	attached := map[string]bool{}
	for _, id := range devIDs {
		p := profs[devProfile[id]]
		switch choose(10) {
		case 0:
			// detached device: not listed in its profile any more; the
			// database answers like profiledb.Default does.
			s.byid[id] = dbRes{kind: "dnfw"}
		case 1, 2:
			p.DeviceIDs = append(p.DeviceIDs, agd.DeviceID(id))
			attached[id] = true
			s.byid[id] = dbRes{kind: failure()}
		default:
			p.DeviceIDs = append(p.DeviceIDs, agd.DeviceID(id))
			attached[id] = true
			s.byid[id] = dbRes{kind: "ok", p: p, d: devs[id].d}
		}
	}
	for _, pid := range append([]string{""}, profIDs...) {
		for _, h := range humanKeys {
			k := [2]string{pid, h}
			var owner string
			for id, hh := range devHuman {
				if hh == h && devProfile[id] == pid && attached[id] {
					owner = id
				}
			}
			switch {
			case owner != "" && choose(4) != 0:
				s.byhuman[k] = dbRes{kind: "ok", p: profs[pid], d: devs[owner].d}
			case choose(2) == 0:
				s.byhuman[k] = dbRes{kind: "dnf"}
			default:
				s.byhuman[k] = dbRes{kind: failure()}
			}
		}
	}
	for _, pid := range profIDs {
		for _, h := range createHuman {
			for _, dt := range createDTs {
				k := [3]string{pid, h, fmt.Sprint(dt)}
				// Only p3 owns the auto device of the fixture, with human id "a-b".
				if pid == "p3" && strings.ToLower(h) == "a-b" && attached["auto1"] && choose(3) != 0 {
					devs["auto1"].d.HumanIDLower = "a-b"
					s.create[k] = dbRes{kind: "ok", p: profs[pid], d: devs["auto1"].d}
				} else {
					s.create[k] = dbRes{kind: failure()}
				}
			}
		}
	}
	for _, ip := range allIPs() {
		var owner string
		for id, l := range devLinked {
			if l == ip && attached[id] {
				owner = id
			}
		}
		if owner != "" && choose(4) != 0 {
			s.bylinked[ip] = dbRes{kind: "ok", p: profs[devProfile[owner]], d: devs[owner].d}
		} else {
			s.bylinked[ip] = dbRes{kind: failure()}
		}
	}
	for _, ip := range allIPs() {
		var owner string
		for id, ds := range devDed {
			for _, d := range ds {
				if d == ip && attached[id] {
					owner = id
				}
			}
		}
		if owner != "" && choose(4) != 0 {
			s.byded[ip] = dbRes{kind: "ok", p: profs[devProfile[owner]], d: devs[owner].d}
		} else {
			s.byded[ip] = dbRes{kind: failure()}
		}
	}
	s.lines = s.modelLines()

	return s
}

func (s *dbState) modelLines() (lines []string) {
	lines = append(lines, "dbreset")
	for _, p := range s.profs {
		l := "prof " + hx(string(p.ID)) + " " + b2s(p.Deleted)
		for _, d := range p.DeviceIDs {
			l += " " + hx(string(d))
		}
		lines = append(lines, l)
	}
	for _, di := range s.devs {
		l := fmt.Sprintf("dev %s %s %s ", hx(string(di.d.ID)), b2s(di.d.Auth.Enabled), b2s(di.d.Auth.DoHAuthOnly))
		if di.kind == "allow" {
			l += "allow"
		} else {
			l += "pw " + hx(di.pw)
		}
		lines = append(lines, l)
	}
	for _, k := range hlib.SortedKeys(s.byid) {
		lines = append(lines, "byid "+hx(k)+" "+s.byid[k].token())
	}
	for _, pid := range append([]string{""}, profIDs...) {
		for _, h := range humanKeys {
			if v, ok := s.byhuman[[2]string{pid, h}]; ok {
				lines = append(lines, "byhuman "+hx(pid)+" "+hx(h)+" "+v.token())
			}
		}
	}
	for _, pid := range profIDs {
		for _, h := range createHuman {
			for _, dt := range createDTs {
				if v, ok := s.create[[3]string{pid, h, fmt.Sprint(dt)}]; ok {
					lines = append(lines, fmt.Sprintf("create %s %s %d %s", hx(pid), hx(h), dt, v.token()))
				}
			}
		}
	}
	for _, k := range hlib.SortedKeys(s.bylinked) {
		lines = append(lines, "bylinked "+k+" "+s.bylinked[k].token())
	}
	for _, k := range hlib.SortedKeys(s.byded) {
		lines = append(lines, "byded "+k+" "+s.byded[k].token())
	}

	return lines
}

// ---------------------------------------------------------------------------
// Servers and stacks.

type srvVariant struct {
	srv     *agd.Server
	proto   agd.Protocol
	linked  bool
	bindK   int
	domains []string
	// profilesOff: the server group has profiles_enabled = false.
	profilesOff bool
	st          *fixture
	lines       []string
	// Campaigns wired / listener: the server group and server of the
	// configuration file and its bind addresses.
	group, name string
	binds       []netip.AddrPort
}

var protoNames = map[agd.Protocol]string{agd.ProtoInvalid: "invalid", agd.ProtoDNS: "dns", agd.ProtoDNSCrypt: "dnscrypt",
	agd.ProtoDoH: "doh", agd.ProtoDoQ: "doq", agd.ProtoDoT: "dot"}

var allProtos = []agd.Protocol{agd.ProtoDNS, agd.ProtoDoH, agd.ProtoDoT, agd.ProtoDoQ, agd.ProtoDNSCrypt, agd.ProtoInvalid}

func bindData(k int) (bd []*agd.ServerBindData, lines []string) {
	ap := func(s string) *agd.ServerBindData {
		a := netip.MustParseAddrPort(s)
		lines = append(lines, fmt.Sprintf("bind a %s %d", a.Addr(), a.Port()))

		return &agd.ServerBindData{AddrPort: a}
	}
	pf := func(s string, port uint16) *agd.ServerBindData {
		p := netip.MustParsePrefix(s)
		lines = append(lines, fmt.Sprintf("bind p %s %s %d", p.Addr(), b2s(p.IsSingleIP()), port))

		return &agd.ServerBindData{PrefixAddr: &agdnet.PrefixNetAddr{Prefix: p, Net: "udp", Port: port}}
	}
	switch k {
	case 0:
		return []*agd.ServerBindData{ap("192.0.2.2:53")}, lines
	case 1:
		return []*agd.ServerBindData{ap("192.0.2.2:53"), ap("[2001:db8::2]:53")}, lines
	case 2:
		return []*agd.ServerBindData{pf("192.0.2.0/24", 53)}, lines
	default:
		return []*agd.ServerBindData{pf("192.0.2.2/32", 53), pf("192.0.2.0/24", 53), pf("2001:db8::2/128", 53)}, lines
	}
}

// The last two sets are what the configuration accepts besides ordinary
// names ("*." gives the empty domain, which matches names ending in a dot and
// then counts as no match — also for the domains after it; nothing is
// lower-cased or validated): an empty and an upper-case domain in front of a
// usable one, a domain starting with a dot.
var domainSets = [][]string{{}, {"d.dns.example"}, {"d.dns.example", "dev.example.org", "example"}, {"doh.ki.example", "d.dns.example"},
	{"", "d.dns.example"}, {"D.dns.example", ".example", "dev.example.org"}}

// seen is what the handler behind all middlewares observed.
type seen struct {
	reached bool
	kind    string
	authErr string
	p       *agd.Profile
	d       *agd.Device
}

type fixture struct {
	st   *stack.Stack
	cur  *dbState
	last seen
	// wired, if not nil, is the service built by the real builder that stands
	// in for st (campaigns wired and listener).
	wired *wiredBuilt

	// Overlap campaign: the first request that reaches blockAt ("handler":
	// the handler behind all middlewares, "db": a profile-database lookup)
	// signals entered and waits for release.
	mu       sync.Mutex
	blockAt  string
	entered  chan struct{}
	release  chan struct{}
	seenByID map[uint16]seen
}

// gate blocks the calling request once if point is the armed blocking point.
func (fx *fixture) gate(point string) {
	fx.mu.Lock()
	if fx.blockAt != point {
		fx.mu.Unlock()

		return
	}
	fx.blockAt = ""
	entered, release := fx.entered, fx.release
	fx.mu.Unlock()
	close(entered)
	<-release
}

type world struct {
	fixtures []*fixture
	variants []*srvVariant
}

func buildWorld() (w *world) {
	w = &world{}
	type fxSpec struct {
		doms []string
		off  bool
	}
	specs := []fxSpec{}
	for _, doms := range domainSets {
		specs = append(specs, fxSpec{doms: doms})
	}
	// A server group with profiles_enabled = false (dnssvc.newDeviceFinder
	// installs the empty finder): nothing may ever be recognised there.
	specs = append(specs, fxSpec{doms: domainSets[1], off: true}, fxSpec{doms: domainSets[0], off: true})
	for di, spec := range specs {
		fx, vs := buildFixture(fmt.Sprint(di), spec.doms, spec.off, nil)
		w.fixtures = append(w.fixtures, fx)
		w.variants = append(w.variants, vs...)
	}

	return w
}

// buildFixture builds one server group (6 protocols x linked-IP x 4 bind
// layouts) over the production stack.  With realDB == nil the profile database
// is the fake that answers from fx.cur; otherwise it is realDB.
func buildFixture(tag string, doms []string, off bool, realDB profiledb.Interface) (fx *fixture, vs []*srvVariant) {
	fx = &fixture{}
	get := func() *dbState { fx.gate("db"); return fx.cur }
	var pdb profiledb.Interface = &agdtest.ProfileDB{
		OnCreateAutoDevice: func(_ context.Context, id agd.ProfileID, h agd.HumanID, dt agd.DeviceType) (*agd.Profile, *agd.Device, error) {
			return get().create[[3]string{string(id), string(h), fmt.Sprint(int(dt))}].ret()
		},
		OnProfileByDedicatedIP: func(_ context.Context, ip netip.Addr) (*agd.Profile, *agd.Device, error) {
			return get().byded[ip.String()].ret()
		},
		OnProfileByDeviceID: func(_ context.Context, id agd.DeviceID) (*agd.Profile, *agd.Device, error) {
			return get().byid[string(id)].ret()
		},
		OnProfileByHumanID: func(_ context.Context, id agd.ProfileID, h agd.HumanIDLower) (*agd.Profile, *agd.Device, error) {
			return get().byhuman[[2]string{string(id), string(h)}].ret()
		},
		OnProfileByLinkedIP: func(_ context.Context, ip netip.Addr) (*agd.Profile, *agd.Device, error) {
			return get().bylinked[ip.String()].ret()
		},
	}
	if realDB != nil {
		pdb = realDB
	}
	var servers []*agd.Server
	for _, proto := range allProtos {
		for _, linked := range []bool{false, true} {
			for bk := 0; bk < 4; bk++ {
				bd, blines := bindData(bk)
				name := fmt.Sprintf("s%s_%s_%s_%d", tag, protoNames[proto], b2s(linked), bk)
				srv := stack.NewServer(name, proto, linked, bd...)
				servers = append(servers, srv)
				lines := []string{fmt.Sprintf("srv %s %s %s", protoNames[proto], b2s(linked), b2s(!off))}
				lines = append(lines, blines...)
				for _, d := range doms {
					lines = append(lines, "dom "+hx(d))
				}
				vs = append(vs, &srvVariant{srv: srv, proto: proto, linked: linked, bindK: bk, domains: doms, profilesOff: off, st: fx, lines: lines})
			}
		}
	}
	fx.st = stack.New(&stack.Config{
		ProfileDB:        pdb,
		Servers:          servers,
		DeviceDomains:    append([]string{}, doms...),
		ProfilesDisabled: off,
		// The global access manager blocks one client address and one name.
		Access: &agdtest.AccessManager{
			OnIsBlockedHost: func(host string, _ uint16) bool { return strings.HasPrefix(strings.ToLower(host), "gblocked.") },
			OnIsBlockedIP:   func(ip netip.Addr) bool { return ip == blockedClient },
		},
		Upstream: dnsserver.HandlerFunc(func(ctx context.Context, rw dnsserver.ResponseWriter, req *dns.Msg) error {
			ri := agd.MustRequestInfoFromContext(ctx)
			// Only after a possible wait: what this request is attributed
			// to when it is finally processed.
			fx.gate("handler")
			s := seen{reached: true}
			switch res := ri.DeviceResult.(type) {
			case nil:
				s.kind = "none"
			case *agd.DeviceResultOK:
				s.kind = "ok"
			case *agd.DeviceResultAuthenticationFailure:
				s.kind = "authfail"
				s.authErr = res.Err.Error()
			case *agd.DeviceResultError:
				s.kind = "error"
			case *agd.DeviceResultUnknownDedicated:
				s.kind = "unkded"
			default:
				s.kind = fmt.Sprintf("%T", res)
			}
			s.p, s.d = ri.DeviceData()
			fx.mu.Lock()
			fx.last = s
			if fx.seenByID != nil {
				fx.seenByID[req.Id] = s
			}
			fx.mu.Unlock()
			resp := (&dns.Msg{}).SetReply(req)

			return rw.WriteMsg(ctx, req, resp)
		}),
	})

	return fx, vs
}

// ---------------------------------------------------------------------------
// Requests.

type request struct {
	ui    string // "-" | "u" | "p"
	user  string
	pass  string
	path  string
	sni   string
	edns  []eopt // nil with hasOPT=false: no OPT record
	opt   bool
	local netip.AddrPort
	rip   netip.Addr
	// pre, if not nil, are the options of an additional OPT record standing
	// before the one described by opt/edns (the last one counts).
	pre []eopt
	// wrapped: the case also exercises ratelimitmw.Wrap's own exits (model op
	// wreq): qname selects the access rule, port0 is a spoofed remote port.
	wrapped bool
	qname   string
	port0   bool
}

// gate is the harness's own reading of which of Wrap's early exits applies.
func (q *request) gate() (flags, pblock string) {
	name := strings.ToLower(q.qname)
	pblock = "-"
	if strings.HasPrefix(name, "pblock-") {
		pblock = hx(strings.TrimSuffix(strings.TrimPrefix(name, "pblock-"), ".c03.example."))
	}

	return b2s(q.port0) + b2s(q.rip.Unmap() == blockedClient) + b2s(strings.HasPrefix(name, "gblocked.")), pblock
}

// silent reports whether the property demands that the request gets no answer
// and reaches no later stage whatever it carries.
func (q *request) silent() bool {
	flags, _ := q.gate()

	return strings.Contains(flags, "1")
}

type eopt struct {
	code uint16
	data string
}

func (q *request) line() string {
	ui := "-"
	switch q.ui {
	case "u":
		ui = "u:" + hx(q.user)
	case "p":
		ui = "p:" + hx(q.user) + ":" + hx(q.pass)
	}
	optTok := func(opts []eopt) string {
		if len(opts) == 0 {
			return "e"
		}
		parts := make([]string, len(opts))
		for i, o := range opts {
			parts[i] = fmt.Sprintf("%d:%s", o.code, hx(o.data))
		}

		return strings.Join(parts, ",")
	}
	var recs []string
	if q.pre != nil {
		recs = append(recs, optTok(q.pre))
	}
	if q.opt {
		recs = append(recs, optTok(q.edns))
	}
	ed := "-"
	if len(recs) > 0 {
		ed = strings.Join(recs, "|")
	}
	op := "req"
	if q.wrapped || q.silent() {
		flags, pblock := q.gate()
		op = "wreq " + flags + " " + pblock
	}

	return fmt.Sprintf("%s %s %s %s %s %s %d %s", op, ui, hx(q.path), hx(q.sni), ed, q.local.Addr(), q.local.Port(), q.rip)
}

func (q *request) userinfo() *url.Userinfo {
	switch q.ui {
	case "u":
		return url.User(q.user)
	case "p":
		return url.UserPassword(q.user, q.pass)
	default:
		return nil
	}
}

func (q *request) msg() *dns.Msg {
	m := &dns.Msg{}
	name := q.qname
	if name == "" {
		name = plainName
	}
	m.SetQuestion(name, dns.TypeA)
	mk := func(opts []eopt) *dns.OPT {
		o := &dns.OPT{Hdr: dns.RR_Header{Name: ".", Rrtype: dns.TypeOPT, Class: 1232}}
		for _, e := range opts {
			switch e.code {
			case dns.EDNS0NSID:
				o.Option = append(o.Option, &dns.EDNS0_NSID{Code: dns.EDNS0NSID, Nsid: hex.EncodeToString([]byte(e.data))})
			default:
				o.Option = append(o.Option, &dns.EDNS0_LOCAL{Code: e.code, Data: []byte(e.data)})
			}
		}

		return o
	}
	if q.pre != nil {
		// An unrelated record between the two OPT records.
		m.Extra = append(m.Extra, mk(q.pre), &dns.TXT{Hdr: dns.RR_Header{Name: "x.", Rrtype: dns.TypeTXT, Class: dns.ClassINET}, Txt: []string{"dev1"}})
	}
	if q.opt {
		m.Extra = append(m.Extra, mk(q.edns))
	}

	return m
}

// outcome is the observable behaviour of the real stack for one request.
type outcome struct {
	seen
	errText  string
	resp     bool
	panicked string
	billDevs []agd.DeviceID
	logIDs   [][2]string
}

// serve runs one request through the real stack.
func serve(v *srvVariant, db *dbState, q *request) (o outcome) { return serveRI(v, db, q, nil) }

// reqInfoFor is the transport-level request information for q on v.
func reqInfoFor(v *srvVariant, q *request, override *dnsserver.RequestInfo) (ri *dnsserver.RequestInfo) {
	ri = &dnsserver.RequestInfo{TLSServerName: q.sni}
	if override != nil {
		ri = override
	} else if v.proto == agd.ProtoDoH {
		ri.URL = &url.URL{Path: q.path}
		ri.Userinfo = q.userinfo()
	} else if q.ui != "-" || q.path != "" {
		// The property quantifies over everything a transport could hand
		// over; other transports never fill these in, but the finder must
		// not be influenced if they are there.
		ri.URL = &url.URL{Path: q.path}
		ri.Userinfo = q.userinfo()
	}

	return ri
}

// call runs one request through the handler of v and fills the parts of o
// that the caller of the stack sees.
func call(v *srvVariant, q *request, ri *dnsserver.RequestInfo, id uint16, o *outcome) {
	defer func() {
		if p := recover(); p != nil {
			o.panicked = fmt.Sprint(p)
		}
	}()
	if v.st.wired != nil {
		v.st.wired.handle(v, q, ri, id, o)

		return
	}
	m := q.msg()
	m.Id = id
	rport := uint16(1234)
	if q.port0 {
		rport = 0
	}
	out := v.st.st.Serve(context.Background(), &stack.Req{Server: v.srv, Msg: m, Remote: netip.AddrPortFrom(q.rip, rport),
		Local: q.local, ReqInfo: ri})
	o.resp = out.Resp != nil
	if out.Err != nil {
		o.errText = out.Err.Error()
	}
}

// takeEffects moves the billing and query-log records written so far into o.
func takeEffects(fx *fixture, o *outcome) {
	if fx.wired != nil {
		fx.wired.take(o)

		return
	}
	logs, bills := fx.st.Effects.TakeLog()
	for _, b := range bills {
		o.billDevs = append(o.billDevs, b.Dev)
	}
	for _, l := range logs {
		o.logIDs = append(o.logIDs, [2]string{string(l.ProfileID), string(l.DeviceID)})
	}
}

// serveRI is serve with the request information produced by the real DoH
// server code instead of the one derived from q.
func serveRI(v *srvVariant, db *dbState, q *request, override *dnsserver.RequestInfo) (o outcome) {
	fx := v.st
	fx.cur = db
	fx.last = seen{}
	call(v, q, reqInfoFor(v, q, override), 7, &o)
	o.seen = fx.last
	takeEffects(fx, &o)

	return o
}

// serveOverlap serves two requests of one server with their lifetimes
// overlapping: first is started and parked at the blocking point (inside the
// handler behind all middlewares, or inside its first profile-database
// lookup); while it is parked, second is served from start to end; then first
// is released and completes.  Every request must be attributed by its own
// content only, whatever else is in flight.  If first never reaches the
// blocking point, the two are simply served one after the other.
func serveOverlap(v *srvVariant, db *dbState, first, second *request, point string) (o1, o2 outcome, overlapped bool) {
	fx := v.st
	fx.cur = db
	fx.last = seen{}
	fx.mu.Lock()
	fx.blockAt, fx.entered, fx.release = point, make(chan struct{}), make(chan struct{})
	fx.seenByID = map[uint16]seen{}
	entered, release := fx.entered, fx.release
	fx.mu.Unlock()
	done := make(chan struct{})
	go func() {
		defer close(done)
		call(v, first, reqInfoFor(v, first, nil), 1, &o1)
	}()
	select {
	case <-entered:
		overlapped = true
	case <-done:
	}
	if !overlapped {
		takeEffects(fx, &o1)
	}
	fx.mu.Lock()
	fx.blockAt = ""
	fx.mu.Unlock()
	call(v, second, reqInfoFor(v, second, nil), 2, &o2)
	takeEffects(fx, &o2)
	if overlapped {
		close(release)
		<-done
		takeEffects(fx, &o1)
	}
	fx.mu.Lock()
	o1.seen, o2.seen = fx.seenByID[1], fx.seenByID[2]
	fx.seenByID = nil
	fx.mu.Unlock()

	return o1, o2, overlapped
}

var authErrNames = map[string]string{"basic authentication failed": "failed", "no password": "nopassword",
	"no userinfo": "nouserinfo", "not doh": "notdoh"}

// canon renders the outcome in the vocabulary of the model driver.
func (o *outcome) canon() string {
	if o.panicked != "" {
		return "panic " + o.panicked
	}
	down := "anon"
	if o.p != nil || o.d != nil {
		down = "?"
		if o.p != nil && o.d != nil {
			down = hx(string(o.p.ID)) + "/" + hx(string(o.d.ID))
		}
	}
	if !o.reached {
		if o.errText == "" {
			return "unkded cont=0 down=" + down
		}
		cls := "db"
		for _, c := range [][2]string{{"basic auth device id check", "basic"}, {"http url path device id check", "path"},
			{"tls server name device id check", "sni"}, {"edns option device id check", "edns"}} {
			if strings.Contains(o.errText, c[0]) {
				cls = c[1]
			}
		}

		return "error " + cls + " cont=0 down=" + down
	}
	head := o.kind
	switch o.kind {
	case "ok":
		head = "ok " + strings.Replace(down, "/", " ", 1)
	case "authfail":
		n, ok := authErrNames[o.authErr]
		if !ok {
			n = "?" + o.authErr
		}
		head = "authfail " + n
	}

	return head + " cont=1 down=" + down
}

// canonFor is canon in the vocabulary of the model op used for q: the wrapped
// op cannot tell the silent drops of Wrap apart (unknown dedicated address,
// access, spoofed port) and calls them all "drop".
func (o *outcome) canonFor(q *request) string {
	c := o.canon()
	if (q.wrapped || q.silent()) && c == "unkded cont=0 down=anon" {
		return "drop"
	}

	return c
}

// ---------------------------------------------------------------------------
// The property oracle.  It looks only at the request, the server settings, the
// fixture's own knowledge of the devices (plaintext passwords, identifiers)
// and the observed outcome; it never consults the model.

var humanParser = agd.NewHumanIDParser()

// labelRefers reports whether a path element / TLS label names device d of
// profile p: either its device ID (case-insensitively) or an extended
// human-readable ID "<type>-<profile>-<human id>" of that profile and device.
func labelRefers(label string, p *agd.Profile, d *agd.Device) bool {
	if strings.Count(label, "-") < 2 {
		return strings.ToLower(label) == string(d.ID)
	}
	parts := strings.SplitN(label, "-", 3)
	if strings.ToLower(parts[1]) != string(p.ID) || d.HumanIDLower == "" {
		return false
	}
	h, err := humanParser.ParseNormalized(parts[2])

	return err == nil && strings.ToLower(string(h)) == string(d.HumanIDLower)
}

func pathRefers(urlPath string, p *agd.Profile, d *agd.Device) bool {
	elems := strings.Split(strings.TrimPrefix(path.Clean(urlPath), "/"), "/")
	if len(elems) != 2 {
		return false
	}
	if !strings.HasSuffix("/dns-query", elems[0]) && !strings.HasSuffix("/resolve", elems[0]) {
		return false
	}

	return labelRefers(elems[1], p, d)
}

func sniRefers(sni string, domains []string, p *agd.Profile, d *agd.Device) bool {
	// The device label is the first label of the name as sent; what follows
	// its dot must be a configured device domain, compared without regard to
	// case.  No byte arithmetic on the lowercased name: lowercasing changes
	// the length of names outside ASCII.
	label, rest, ok := strings.Cut(sni, ".")
	if !ok || label == "" {
		return false
	}
	for _, dom := range domains {
		if dom != "" && strings.ToLower(rest) == dom && labelRefers(label, p, d) {
			return true
		}
	}

	return false
}

// ownAddr: is a one of the server's own addresses?  Written against the bind
// layouts of bindData, not against agd.Server.HasAddr, which is code under test.
func ownAddr(v *srvVariant, a netip.AddrPort) bool {
	a = netip.AddrPortFrom(a.Addr().Unmap(), a.Port())
	own4, own6 := netip.MustParseAddrPort("192.0.2.2:53"), netip.MustParseAddrPort("[2001:db8::2]:53")
	switch v.bindK {
	case 0:
		return a == own4
	case 1, 3:
		return a == own4 || a == own6
	default:
		// A single prefix wider than one address: every address is dedicated.
		return false
	}
}

// bindsToInterfaces, again from the layouts alone.
func bindsToInterfaces(v *srvVariant) bool { return v.bindK >= 2 }

// sameHost compares addresses the way the property reads them: an IPv4-mapped
// address is the IPv4 address, a zone does not make another host.
func sameHost(a, b netip.Addr) bool { return a.Unmap().WithZone("") == b.Unmap().WithZone("") }

// carriesOwnID: does the request carry d's identifier through a channel that
// is valid for the server's transport?
func carriesOwnID(v *srvVariant, q *request, p *agd.Profile, d *agd.Device) bool {
	switch v.proto {
	case agd.ProtoDoH:
		// The property names three DoH channels and states no precedence
		// between them; the precedence (userinfo, path, server name) is
		// checked against the model only.
		return (q.ui != "-" && q.user == string(d.ID)) || pathRefers(q.path, p, d) || sniRefers(q.sni, v.domains, p, d)
	case agd.ProtoDoT, agd.ProtoDoQ:
		return sniRefers(q.sni, v.domains, p, d)
	case agd.ProtoDNS:
		// Any OPT record of the message counts here; which one the code reads
		// is checked against the model.
		for _, e := range append(append([]eopt{}, q.pre...), q.edns...) {
			if e.code == 65074 && e.data == string(d.ID) {
				return true
			}
		}
		if bindsToInterfaces(v) && !ownAddr(v, q.local) {
			for _, ip := range d.DedicatedIPs {
				if sameHost(ip, q.local.Addr()) {
					return true
				}
			}
		}
		if v.linked && d.LinkedIP.IsValid() && sameHost(d.LinkedIP, q.rip) {
			return true
		}

		return false
	default:
		return false
	}
}

// served describes what the caller of the handler got.
func served(o *outcome) string {
	return fmt.Sprintf(" (answer written: %v, handler error: %q)", o.resp, o.errText)
}

type checker struct {
	r *hlib.Result
}

func (c *checker) oracle(v *srvVariant, db *dbState, q *request, o *outcome, replay func() any) {
	r := c.r
	proto := protoNames[v.proto]
	if o.panicked != "" {
		r.Violate("panic-in-device-recognition", "the stack panicked: "+o.panicked, replay())

		return
	}
	recognised := o.p != nil || o.d != nil
	if recognised && (o.p == nil || o.d == nil) {
		r.Violate("half-recognised", "DeviceData returned only one of profile/device", replay())

		return
	}
	// Every side channel must agree with what the handler saw.
	for _, b := range o.billDevs {
		if !recognised || b != o.d.ID {
			r.Violate("billing-for-unrecognised-device", fmt.Sprintf("billing recorded device %q, handler saw recognised=%v", b, recognised), replay())
		}
	}
	for _, l := range o.logIDs {
		if !recognised || l[0] != string(o.p.ID) || l[1] != string(o.d.ID) {
			r.Violate("querylog-for-unrecognised-device", fmt.Sprintf("query log attributed to %v, handler saw recognised=%v", l, recognised), replay())
		}
	}
	if o.reached && (o.kind == "ok") != recognised {
		r.Violate("profile-exposed-without-ok", "DeviceData and DeviceResult kind disagree: "+o.kind, replay())
	}
	if q.silent() && (o.reached || o.resp || o.errText != "" || len(o.billDevs) > 0 || len(o.logIDs) > 0) {
		// Spoofed port or globally blocked client / name: no answer of any
		// kind, whatever the request carries and whatever the finder says.
		r.Violate("blocked-client-served", proto+" request of a spoofed or globally blocked client was not dropped silently: "+o.canon(), replay())
	}
	if q.silent() {
		// Nothing was served, so the "served as anonymous" clauses do not apply.
		return
	}
	if v.profilesOff {
		if recognised || !o.reached || !o.resp {
			r.Violate("recognised-with-profiles-disabled", proto+" request on a server group without profiles was not served as anonymous: "+o.canon()+served(o), replay())
		}

		return
	}
	if v.proto == agd.ProtoDNSCrypt || v.proto == agd.ProtoInvalid {
		if recognised || !o.reached || !o.resp {
			r.Violate("dnscrypt-not-anonymous", proto+" request was not served as anonymous: "+o.canon(), replay())
		}

		return
	}
	if recognised {
		p, d := o.p, o.d
		di := db.info[d]
		if p.Deleted {
			r.Violate("recognised-in-deleted-profile", "profile "+string(p.ID)+" is deleted", replay())
		}
		belongs := false
		for _, id := range p.DeviceIDs {
			belongs = belongs || id == d.ID
		}
		if !belongs {
			r.Violate("recognised-detached-device", "device "+string(d.ID)+" is not listed in profile "+string(p.ID), replay())
		}
		if !carriesOwnID(v, q, p, d) {
			r.Violate("recognised-without-own-identifier/"+proto, fmt.Sprintf("%s request does not carry the identifier of device %q (profile %q) through a channel of its transport", proto, d.ID, p.ID), replay())
		}
		if d.Auth.Enabled && di != nil {
			passOK := q.ui == "p" && (di.kind == "allow" || q.pass == di.pw)
			if d.Auth.DoHAuthOnly && (v.proto != agd.ProtoDoH || !passOK) {
				r.Violate("doh-only-device-recognised/"+proto+"/"+q.ui, fmt.Sprintf("DoH-only device %q recognised on %s with userinfo kind %q", d.ID, proto, q.ui), replay())
			}
			if v.proto == agd.ProtoDoH && q.ui != "-" && !passOK {
				r.Violate("bad-password-recognised/"+q.ui, fmt.Sprintf("device %q with authentication enabled recognised with userinfo kind %q and a wrong or missing password", d.ID, q.ui), replay())
			}
		}
	}
	// A wrong/empty/missing password for an auth-enabled device named by the
	// basic-auth user: must be served, as anonymous.
	if v.proto == agd.ProtoDoH && q.ui != "-" {
		if res, ok := db.byid[q.user]; ok && res.kind == "ok" && !res.p.Deleted && res.d.Auth.Enabled {
			di := db.info[res.d]
			passOK := q.ui == "p" && (di.kind == "allow" || q.pass == di.pw)
			if !passOK && (recognised || !o.reached || !o.resp || o.errText != "") {
				r.Violate("bad-password-not-served-as-anonymous/"+q.ui, "wrong or missing password for device "+q.user+": "+o.canon(), replay())
			}
		}
	}
}

// ---------------------------------------------------------------------------
// Generators.

var (
	idLabels = []string{"dev1", "DEV1", "Dev1", "abcd1234", "ABCD1234", "a", "A", "z9", "devx", "DevX", "otr", "hum1", "auto1",
		"nonesuch", "", "toolong12", "bad_id", "-a", "a-", "a-b", "dev1 "}
	dtPool    = []string{"otr", "OTR", "win", "Adr", "xxx", "ot", "otrr", ""}
	pidPool   = []string{"prof1", "PROF1", "prof2", "p3", "P3", "", "nonesuch", "toolongpid", "ba d"}
	humanPool = []string{"my-phone", "My-Phone", "tv", "TV", "a-b", "A-b", "my--phone", "My Phone", "my---phone", "!!tv!!", "-", "---",
		"", "a_b", "-tv-", strings.Repeat("a", 70), "a!-!b"}
	pwPool     = []string{"secret1", "hunter2", "Pa:ss w0rd", "", "wrong", "Secret1", "secret1 "}
	sniDomains = []string{"d.dns.example", "D.DNS.Example", "dev.example.org", "example", "dns.example", "other.example", "xd.dns.example", "doh.ki.example", "DOH.KI.Example"}
	pathHeads  = []string{"/dns-query", "/resolve", "/query", "/y", "/other", "dns-query", "//dns-query", "/x/../dns-query", "/../dns-query", "/dns-query/."}
)

func pick[T any](rng *rand.Rand, xs []T) T { return xs[rng.IntN(len(xs))] }

func genLabel(rng *rand.Rand) string {
	switch rng.IntN(10) {
	case 0, 1:
		return pick(rng, idLabels[:13])
	case 2, 3, 4:
		return pick(rng, idLabels)
	case 5, 6:
		// an extended ID that can hit the fixture
		return pick(rng, []string{"otr", "win", "OTR"}) + "-" + pick(rng, []string{"prof1", "prof2", "p3", "PROF1"}) + "-" +
			pick(rng, []string{"my-phone", "My-Phone", "tv", "TV", "a-b", "A-b", "My Phone"})
	default:
		return pick(rng, dtPool) + "-" + pick(rng, pidPool) + "-" + pick(rng, humanPool)
	}
}

func genPath(rng *rand.Rand) string {
	switch rng.IntN(12) {
	case 0:
		return pick(rng, []string{"", "/", ".", "..", "/dns-query", "/resolve", "/dns-query/", "//", "/./"})
	case 1:
		return pick(rng, pathHeads) + "/" + genLabel(rng) + "/" + pick(rng, []string{"extra", "..", ".", "", genLabel(rng)})
	case 2:
		return pick(rng, pathHeads) + "//" + genLabel(rng)
	case 3:
		return pick(rng, pathHeads) + "/x/../" + genLabel(rng)
	default:
		h := pick(rng, pathHeads)
		if rng.IntN(3) > 0 {
			h = pick(rng, pathHeads[:2])
		}

		return h + "/" + genLabel(rng)
	}
}

func genSNI(rng *rand.Rand, v *srvVariant) string {
	if len(v.domains) > 0 && rng.IntN(2) == 0 {
		d := pick(rng, v.domains)
		if rng.IntN(4) == 0 && d != "" {
			d = strings.ToUpper(d[:1]) + d[1:]
		}

		return genLabel(rng) + "." + d
	}
	switch rng.IntN(12) {
	case 0:
		return ""
	case 1:
		return pick(rng, sniDomains)
	case 2:
		return "x." + genLabel(rng) + "." + pick(rng, sniDomains)
	case 3:
		return genLabel(rng) + "." + pick(rng, sniDomains) + "."
	case 4:
		return genLabel(rng) + pick(rng, sniDomains)
	case 6, 7:
		// Nested labels with the identifier in front: <id>.<junk>.<domain>,
		// <id>.<junk><domain>, <id>..<domain>.
		d := pick(rng, sniDomains)
		if len(v.domains) > 0 && rng.IntN(3) > 0 {
			d = pick(rng, v.domains)
		}

		return genLabel(rng) + pick(rng, []string{".x.", ".x", "..", ".dev1.", ".d."}) + d
	case 5:
		return genLabel(rng) + "."
	default:
		d := pick(rng, sniDomains)
		if rng.IntN(3) > 0 {
			d = pick(rng, sniDomains[:3])
		}

		return genLabel(rng) + "." + d
	}
}

func genEDNS(rng *rand.Rand) (opt bool, opts []eopt) {
	switch rng.IntN(6) {
	case 0:
		return false, nil
	case 1:
		return true, nil
	}
	n := 1 + rng.IntN(3)
	for i := 0; i < n; i++ {
		switch rng.IntN(6) {
		case 0:
			opts = append(opts, eopt{code: 65073, data: pick(rng, idLabels)})
		case 1:
			opts = append(opts, eopt{code: dns.EDNS0NSID, data: pick(rng, idLabels)})
		case 2:
			opts = append(opts, eopt{code: 65074, data: pick(rng, []string{"", "toolong12", "bad_id", "a-", "otr-prof1-tv"})})
		default:
			opts = append(opts, eopt{code: 65074, data: pick(rng, idLabels[:14])})
		}
	}

	return true, opts
}

func genRequest(rng *rand.Rand, v *srvVariant, db *dbState) (q *request) {
	q = &request{ui: "-", path: "/dns-query", local: netip.MustParseAddrPort(pick(rng, localAddrs)),
		rip: netip.MustParseAddr(pick(rng, remoteIPs))}
	if rng.IntN(3) == 0 {
		q.local = netip.MustParseAddrPort(localAddrs[0])
	}
	// Channels that belong to the transport are filled in almost always,
	// foreign channels less often.
	own := func(p agd.Protocol) bool { return v.proto == p }
	if own(agd.ProtoDoH) && rng.IntN(5) == 0 {
		// Bare DoH request: only the server name can identify the device.
		q.path = pick(rng, []string{"/dns-query", "/resolve", "/dns-query/"})
	} else if own(agd.ProtoDoH) || rng.IntN(4) == 0 {
		q.path = genPath(rng)
		switch rng.IntN(8) {
		case 0, 1, 2:
		case 3:
			q.ui, q.user = "u", pick(rng, idLabels)
		default:
			q.ui, q.user = "p", pick(rng, idLabels)
			if rng.IntN(3) > 0 {
				q.user = pick(rng, devIDs)
			}
			q.pass = pick(rng, pwPool)
			if di := findDev(db, q.user); di != nil && di.kind == "pw" && rng.IntN(2) == 0 {
				q.pass = di.pw
			} else if rng.IntN(8) == 0 {
				q.pass = q.user
			}
		}
	} else {
		q.path = ""
	}
	if v.proto.IsStdEncrypted() || rng.IntN(4) == 0 {
		q.sni = genSNI(rng, v)
	}
	if own(agd.ProtoDNS) || rng.IntN(4) == 0 {
		q.opt, q.edns = genEDNS(rng)
		if rng.IntN(6) == 0 {
			// A second OPT record in front of the usual one.
			_, q.pre = genEDNS(rng)
			if q.pre == nil {
				q.pre = []eopt{}
			}
		}
	}
	if rng.IntN(6) == 0 {
		genGate(rng, q, 2)
	}

	return q
}

// genGate makes q exercise Wrap's own exits; the higher strength, the more
// likely one of them applies.
func genGate(rng *rand.Rand, q *request, strength int) {
	q.wrapped = true
	if rng.IntN(4) < strength {
		switch rng.IntN(6) {
		case 0:
			q.port0 = true
		case 1:
			q.rip = netip.MustParseAddr(pick(rng, []string{"203.0.113.66", "::ffff:203.0.113.66"}))
		case 2:
			q.qname = pick(rng, []string{gblockedName, "GBlocked.c03.example."})
		default:
			q.qname = pblockName(pick(rng, profIDs))
		}
	}
}

func findDev(db *dbState, id string) *devInfo {
	for _, di := range db.devs {
		if string(di.d.ID) == id {
			return di
		}
	}

	return nil
}

func randAuth(rng *rand.Rand) func(string) authChoice {
	return func(string) authChoice {
		a := authChoice{enabled: rng.IntN(4) > 0, dohOnly: rng.IntN(2) == 0, kind: "pw", pw: pick(rng, rightPasswords)}
		if rng.IntN(5) == 0 {
			a.kind, a.pw = "allow", ""
		}

		return a
	}
}

// ---------------------------------------------------------------------------
// Running cases.

type pending struct {
	lineIdx int
	got     string
	ops     func() any
	// coarse: the real side was observed by a network client, which cannot
	// tell error classes and the reasons of silent drops apart.
	// (1; 2: over DoQ, where every request without an answer gets SERVFAIL).
	coarse int
}

type runner struct {
	r     *hlib.Result
	m     *hlib.Model
	c     *checker
	lines []string
	pend  []pending
}

// flush sends the collected op lines to the model and compares.
func (rn *runner) flush() {
	if len(rn.lines) == 0 {
		return
	}
	rn.m.ResetLog()
	ans := rn.m.Batch(rn.lines)
	for _, p := range rn.pend {
		if p.coarse > 0 {
			ans[p.lineIdx] = coarse(ans[p.lineIdx], p.coarse == 2)
		}
		if ans[p.lineIdx] != p.got {
			rn.r.Disagree("find", fmt.Sprintf("stack=%q model=%q for %s", p.got, ans[p.lineIdx], rn.lines[p.lineIdx]), p.ops())
		}
	}
	rn.r.ModelOps += len(rn.lines)
	rn.lines, rn.pend = rn.lines[:0], rn.pend[:0]
}

// runCase runs the requests against one server variant and one DB state.
func (rn *runner) runCase(v *srvVariant, db *dbState, reqs []*request, campaign string) {
	r := rn.r
	// late: model ops that are known only after the requests were served (what
	// the backend answered to the creation requests they caused).
	late := func() []string {
		if db.late == nil {
			return nil
		}

		return db.late()
	}
	type served struct {
		line, got string
		ops       func() any
	}
	done := make([]served, 0, len(reqs))
	for _, q := range reqs {
		o := serve(v, db, q)
		line := q.line()
		observed := o.canon()
		replay := func() any {
			ops := append(append(append(append([]string{}, v.lines...), db.lines...), late()...), line)
			m := map[string]any{"campaign": campaign, "server": string(v.srv.Name), "ops": ops, "observed": observed}
			for k, x := range db.extra {
				m[k] = x
			}

			return m
		}
		if db.observe != nil {
			db.observe(v, q, &o, replay)
		}
		// The property oracle first, independently of the model.
		rn.c.oracle(v, db, q, &o, replay)
		got := o.canonFor(q)
		done = append(done, served{line: line, got: got, ops: replay})
		kind := strings.SplitN(got, " ", 2)[0]
		nontrivial := kind != "none"
		r.Case(string(v.srv.Name)+"|"+dbKey(db)+"|"+line, nontrivial)
		r.Count("proto." + protoNames[v.proto])
		r.Count("outcome." + kind)
		if kind == "authfail" || kind == "error" {
			r.Count("outcome." + strings.Join(strings.SplitN(got, " ", 3)[:2], "."))
		}
		r.Count("userinfo." + q.ui)
		if kind == "ok" {
			r.Count("ok.via." + protoNames[v.proto] + "." + via(v, q))
			if o.d != nil && o.d.HumanIDLower != "" && o.d.ID != "hum1" || o.d != nil && o.d.ID == "auto1" {
				r.Count("ok.autodevice")
			}
			if o.d != nil && o.d.HumanIDLower != "" {
				r.Count("ok.humanid-device")
			}
			if o.d != nil && o.d.Auth.Enabled {
				r.Count("ok.auth-enabled-device")
			}
			r.Sample(map[string]any{"server": string(v.srv.Name), "req": line, "observed": got}, 9)
		}
	}
	rn.lines = append(rn.lines, v.lines...)
	rn.lines = append(rn.lines, db.lines...)
	rn.lines = append(rn.lines, late()...)
	for _, d := range done {
		rn.pend = append(rn.pend, pending{lineIdx: len(rn.lines), got: d.got, ops: d.ops})
		rn.lines = append(rn.lines, d.line)
	}
	r.Traces++
	if len(rn.lines) > 20000 {
		rn.flush()
	}
}

func dbKey(db *dbState) string { return strings.Join(db.lines, ";") }

// via names the channel a recognised request most plausibly used (for the
// distribution only).
func via(v *srvVariant, q *request) string {
	switch v.proto {
	case agd.ProtoDoH:
		if q.ui != "-" {
			return "userinfo"
		}
		if strings.Count(strings.Trim(path.Clean(q.path), "/"), "/") == 1 {
			return "path"
		}

		return "sni"
	case agd.ProtoDNS:
		if q.opt {
			for _, e := range q.edns {
				if e.code == 65074 {
					return "edns"
				}
			}
		}
		if v.srv.BindsToInterfaces() && !ownAddr(v, q.local) {
			return "dedicated"
		}

		return "linked"
	default:
		return "sni"
	}
}

func main() {
	o := hlib.ParseFlags()
	r := hlib.NewResult("C03", o)
	r.Rule = "every case is one request (transport, userinfo, URL path, TLS server name, EDNS options, local/remote address) " +
		"served by the production middleware stack of one server variant (6 protocols x linked-IP x 4 bind layouts x 3 device-domain sets) " +
		"over one well-formed profile-database state; the device result seen behind all middlewares, the returned error, billing and query-log " +
		"records are compared with the Lean model and checked by an independent oracle of the property; a case is non-trivial when the " +
		"result is not plain not-found; distinct = distinct (server, DB state, request) triples; in the store campaign the database is the real " +
		"profiledb.Default fed by the real backendpb.ProfileStorage (in-process gRPC backend) and by its own cache file, and the DB state is the " +
		"harness's reading of the backend's messages in force; in the wired campaign the servers are those the real builder (internal/cmd) makes of a " +
		"generated configuration file with several server groups, in the listener campaign that service is started and asked over real sockets " +
		"(plain DNS, DoT, DoH over HTTP/1.1 and HTTP/2, DoQ)"
	m := hlib.StartModel(o.Model, "C03")
	defer m.Close()

	w := buildWorld()
	rn := &runner{r: r, m: m, c: &checker{r: r}}

	// C03_ONLY (debugging aid): run only the named campaigns.
	only := os.Getenv("C03_ONLY")
	want := func(name string) bool { return only == "" || strings.Contains(only, name) }
	if want("random") {
		randomCampaign(o, rn, w)
	}
	if want("nonascii") {
		nonASCIICampaign(o, rn, w)
	}
	if want("http") {
		httpCampaign(o, rn, w)
	}
	if want("overlap") {
		overlapCampaign(o, rn, w)
	}
	if want("store") {
		storeCampaign(o, rn)
	}
	if want("wired") {
		wiredCampaign(o, rn)
	}
	if want("listener") {
		listenerCampaign(o, rn)
	}
	if o.Thorough() && want("exhaustive") {
		exhaustiveCampaign(o, rn, w)
	}
	rn.flush()
	r.Finish()
}

func randomCampaign(o *hlib.Opts, rn *runner, w *world) {
	rng := o.Rand("random")
	cases := 5000
	if o.Thorough() {
		cases = 25000
	}
	for i := 0; i < cases; i++ {
		v := pick(rng, w.variants)
		// Favour the transports that can recognise devices.
		if rng.IntN(4) > 0 {
			for v.proto == agd.ProtoDNSCrypt || v.proto == agd.ProtoInvalid || v.profilesOff {
				v = pick(rng, w.variants)
			}
		}
		db := genDB(rng.IntN, randAuth(rng))
		n := 8 + rng.IntN(16)
		reqs := make([]*request, n)
		for j := range reqs {
			reqs[j] = genRequest(rng, v, db)
		}
		rn.runCase(v, db, reqs, "random")
	}
}

// nonASCIICampaign feeds identifiers with bytes outside ASCII to the real
// code only (the model is ASCII): the oracle alone judges.
func nonASCIICampaign(o *hlib.Opts, rn *runner, w *world) {
	rng := o.Rand("nonascii")
	weird := []string{"dev1K", "K", "DEVİ", "d\xffv1", "dev1\x00", "ı", "ȧ", "abK.d.dns.example"}
	n := 300
	if o.Thorough() {
		n = 3000
	}
	for i := 0; i < n; i++ {
		v := pick(rng, w.variants)
		db := genDB(rng.IntN, randAuth(rng))
		q := genRequest(rng, v, db)
		x := pick(rng, weird)
		switch rng.IntN(5) {
		case 4:
			// A device domain spelled with letters whose lowercase form has
			// another length in UTF-8 (KELVIN SIGN, dotted capital I).
			lbl := genLabel(rng)
			if rng.IntN(2) == 0 {
				lbl = pick(rng, []string{"otr-prof1-tv", "otr-prof1-TV", "win-PROF1-tv", "otr-prof2-tv"})
			}
			q.sni = lbl + "." + pick(rng, []string{"doh.\u212ai.example", "DOH.\u212a\u0130.example", "doh.k\u0130.example", "doh.ki.example", "d.dns.e\u212aample"})
		case 0:
			q.sni = x + "." + pick(rng, sniDomains[:3])
		case 1:
			q.sni = pick(rng, idLabels) + ".d.dns.eKample"
		case 2:
			q.path = "/dns-query/" + x
		default:
			q.ui, q.user, q.pass = "p", x, pick(rng, pwPool)
		}
		out := serve(v, db, q)
		line := q.line()
		rn.c.oracle(v, db, q, &out, func() any {
			return map[string]any{"campaign": "nonascii", "server": string(v.srv.Name), "ops": append(append(append([]string{}, v.lines...), db.lines...), line),
				"observed": out.canon()}
		})
		rn.r.Count("nonascii." + strings.SplitN(out.canon(), " ", 2)[0])
		rn.r.Case("nonascii|"+string(v.srv.Name)+"|"+line, false)
	}
}

// overlapCampaign: pairs of requests of one server whose lifetimes overlap
// (see serveOverlap).  The scheduler is pinned to one P for the duration, so
// that per-P free lists (sync.Pool) hand a prematurely released object to the
// very next taker deterministically.
func overlapCampaign(o *hlib.Opts, rn *runner, w *world) {
	rng := o.Rand("overlap")
	n := 1500
	if o.Thorough() {
		n = 15000
	}
	prev := runtime.GOMAXPROCS(1)
	defer runtime.GOMAXPROCS(prev)
	for i := 0; i < n; i++ {
		v := pick(rng, w.variants)
		for v.proto == agd.ProtoDNSCrypt || v.proto == agd.ProtoInvalid || (v.profilesOff && rng.IntN(4) > 0) {
			v = pick(rng, w.variants)
		}
		db := genDB(rng.IntN, randAuth(rng))
		first, second := genRequest(rng, v, db), genRequest(rng, v, db)
		point := "handler"
		if rng.IntN(3) == 0 {
			point = "db"
		}
		// History: requests of the same server served to the end before the
		// pair, most of them leaving Wrap through one of its early exits
		// (access, spoofed port, finder error, unknown dedicated address), so
		// that a mistake in what such an exit does with the pooled request
		// information shows in the pair that follows.
		var hist []*request
		if rng.IntN(3) > 0 {
			for k := 1 + rng.IntN(3); k > 0; k-- {
				h := genRequest(rng, v, db)
				genGate(rng, h, 3)
				hist = append(hist, h)
			}
			rn.runCase(v, db, hist, "overlap-history")
			rn.r.Count(fmt.Sprintf("overlap.history.%d", len(hist)))
		}
		o1, o2, overlapped := serveOverlap(v, db, first, second, point)
		rn.lines = append(rn.lines, v.lines...)
		rn.lines = append(rn.lines, db.lines...)
		l1, l2 := first.line(), second.line()
		var histLines []string
		for _, h := range hist {
			histLines = append(histLines, h.line())
		}
		for k, pr := range []struct {
			q    *request
			o    *outcome
			line string
		}{{first, &o1, l1}, {second, &o2, l2}} {
			out, line := pr.o, pr.line
			replay := func() any {
				return map[string]any{"campaign": "overlap", "server": string(v.srv.Name), "overlapped": overlapped, "blocked_at": point,
					"note":    "the history requests are served one after the other; then request 1 is parked at blocked_at while request 2 is served completely; this finding is about request " + fmt.Sprint(k+1),
					"history": histLines,
					"ops":     append(append(append([]string{}, v.lines...), db.lines...), l1, l2), "observed": out.canon()}
			}
			rn.c.oracle(v, db, pr.q, out, replay)
			rn.pend = append(rn.pend, pending{lineIdx: len(rn.lines), got: out.canonFor(pr.q), ops: replay})
			rn.lines = append(rn.lines, line)
			rn.r.Count("overlap." + b2s(overlapped) + "." + point + "." + strings.SplitN(out.canon(), " ", 2)[0])
		}
		rn.r.Case("overlap|"+string(v.srv.Name)+"|"+dbKey(db)+"|"+point+"|"+l1+"|"+l2, overlapped)
		if len(rn.lines) > 20000 {
			rn.flush()
		}
	}
}
