// Command c01 is the correspondence harness and property oracle for C01
// (every accepted query gets exactly one matching answer on every transport).
package main

import (
	"bytes"
	"context"
	"crypto/ed25519"
	"encoding/base64"
	"encoding/binary"
	"encoding/hex"
	"encoding/json"
	"errors"
	"fmt"
	"io"
	"math/rand/v2"
	"net"
	"net/http"
	"net/http/httptest"
	"net/url"
	"os"
	"runtime"
	"sort"
	"strconv"
	"strings"
	"sync"
	"sync/atomic"
	"time"

	"github.com/AdguardTeam/AdGuardDNS/internal/dnsmsg"
	"github.com/AdguardTeam/AdGuardDNS/internal/dnsserver"
	"github.com/AdguardTeam/AdGuardDNS/verifh/hlib"
	"github.com/ameshkov/dnscrypt/v2"
	"github.com/ameshkov/dnsstamps"
	"github.com/miekg/dns"
	"github.com/quic-go/quic-go"
)

// ---------------------------------------------------------------------------
// Scripted handler

type outcome struct {
	kind  string // silent | wrote | failed | wrotefailed
	rcode int
	n     int
	ne    bool
}

func (o outcome) String() string {
	switch o.kind {
	case "silent":
		return "silent"
	case "wrote":
		return fmt.Sprintf("wrote %d %d", o.rcode, o.n)
	case "failed":
		return "failed " + b2s(o.ne)
	case "panic":
		return "panic"
	case "wrotepanic":
		return fmt.Sprintf("wrotepanic %d %d", o.rcode, o.n)
	default:
		return fmt.Sprintf("wrotefailed %d %d %s", o.rcode, o.n, b2s(o.ne))
	}
}

type timeoutErr struct{}

func (timeoutErr) Error() string   { return "scripted timeout" }
func (timeoutErr) Timeout() bool   { return true }
func (timeoutErr) Temporary() bool { return true }

var _ net.Error = timeoutErr{}

// sharedAdv is the Disposer of all servers: the production cloner plus the
// worst concurrent schedule.  sharedScript is the one scripted handler all
// servers consult; like the cache middlewares it answers with clones taken from
// that same cloner.
var (
	sharedAdv    = newAdvDisposer()
	sharedScript = &script{adv: sharedAdv}
)

type script struct {
	mu    sync.Mutex
	o     outcome
	byID  map[uint16]outcome
	calls atomic.Int64
	adv   *advDisposer
	// left is the time to the deadline of the last request's context (-1: none).
	left atomic.Int64
	// gate, if set, holds the queries whose name starts with slowPrefix until it
	// is closed; entered counts those waiting or past it.
	gate    atomic.Pointer[chan struct{}]
	entered atomic.Int64
}

// slowPrefix marks the queries that wait at the handler's gate.
const slowPrefix = "slow-"

// nestedSuffix marks the queries of the concurrent client that the buffer
// adversary sends while another request is in flight.
const nestedSuffix = "concurrent-client.example."

// nest, when set, is called at every point where the server calls back into the
// harness while a request is in flight (handler, socket write); it serves a
// complete request of another client on the same server.  nestDepth prevents
// the nested request from nesting again.
var (
	nest      func(point string)
	nestDepth atomic.Int32
)

func callNest(point string) {
	if f := nest; f != nil && nestDepth.CompareAndSwap(0, 1) {
		f(point)
		nestDepth.Store(0)
	}
}

func (s *script) set(o outcome) {
	s.mu.Lock()
	s.o = o
	s.mu.Unlock()
	s.calls.Store(0)
}

// answersFor builds the n records "the resolver pipeline produced".  The record
// types rotate through everything the production cloner pools (A, AAAA, CNAME,
// TXT, MX, PTR, SRV, HTTPS), starting at a position that depends on the name.
func answersFor(req *dns.Msg, n int) (rrs []dns.RR) {
	name := "."
	if len(req.Question) > 0 {
		name = req.Question[0].Name
	}
	for i := 0; i < n; i++ {
		rrs = append(rrs, pooledRR(name, (len(name)+i)%8, byte(i+1), "pipeline.example."))
	}

	return rrs
}

// pooledRR returns a record of the k-th pooled type.
func pooledRR(name string, k int, x byte, target string) dns.RR {
	hdr := func(t uint16) dns.RR_Header {
		return dns.RR_Header{Name: name, Rrtype: t, Class: dns.ClassINET, Ttl: 60}
	}
	switch k {
	case 1:
		return &dns.AAAA{Hdr: hdr(dns.TypeAAAA), AAAA: net.IP{0x20, 1, 0xd, 0xb8, 0, 0, 0, 0, 0, 0, 0, 0, 0, 0, 0, x}}
	case 2:
		return &dns.CNAME{Hdr: hdr(dns.TypeCNAME), Target: "c" + strconv.Itoa(int(x)) + "." + target}
	case 3:
		return &dns.TXT{Hdr: hdr(dns.TypeTXT), Txt: []string{"txt " + strconv.Itoa(int(x)), target}}
	case 4:
		return &dns.MX{Hdr: hdr(dns.TypeMX), Preference: uint16(x), Mx: "mx." + target}
	case 5:
		return &dns.PTR{Hdr: hdr(dns.TypePTR), Ptr: "p" + strconv.Itoa(int(x)) + "." + target}
	case 6:
		return &dns.SRV{Hdr: hdr(dns.TypeSRV), Priority: uint16(x), Weight: 2, Port: 853, Target: "srv." + target}
	case 7:
		return &dns.HTTPS{SVCB: dns.SVCB{Hdr: hdr(dns.TypeHTTPS), Priority: uint16(x), Target: "svc." + target, Value: []dns.SVCBKeyValue{
			&dns.SVCBAlpn{Alpn: []string{"h2", "h3"}},
			&dns.SVCBIPv4Hint{Hint: []net.IP{net.IPv4(192, 0, 2, x).To4(), net.IPv4(192, 0, 2, x+100).To4()}},
		}}}
	default:
		return &dns.A{Hdr: hdr(dns.TypeA), A: net.IPv4(192, 0, 2, x).To4()}
	}
}

// pipelineResp is the whole response "the resolver pipeline produced" for req:
// SetReply, the rcode, n answers, an SOA in the authority section of a name
// error, and - for every other EDNS request - an OPT record of its own with a
// cookie and a client-subnet option.
func pipelineResp(req *dns.Msg, rcode, n int) (resp *dns.Msg) {
	resp = (&dns.Msg{}).SetReply(req)
	resp.Rcode = rcode
	resp.Answer = answersFor(req, n)
	if rcode == dns.RcodeNameError {
		resp.Ns = []dns.RR{&dns.SOA{Hdr: dns.RR_Header{Name: "example.", Rrtype: dns.TypeSOA, Class: dns.ClassINET, Ttl: 30},
			Ns: "ns.pipeline.example.", Mbox: "m.pipeline.example.", Serial: uint32(req.Id), Refresh: 1, Retry: 2, Expire: 3, Minttl: 4}}
	}
	if req.IsEdns0() != nil && n%2 == 1 {
		resp.Extra = []dns.RR{&dns.OPT{Hdr: dns.RR_Header{Name: ".", Rrtype: dns.TypeOPT, Class: 1232}, Option: []dns.EDNS0{
			&dns.EDNS0_COOKIE{Code: dns.EDNS0COOKIE, Cookie: fmt.Sprintf("%016x", uint64(req.Id)+0x1000)},
			&dns.EDNS0_SUBNET{Code: dns.EDNS0SUBNET, Family: 1, SourceNetmask: 24, SourceScope: 24, Address: net.IPv4(198, 51, byte(n), 0).To4()},
		}}}
	}

	return resp
}

// pipelineOptions renders the options of m's OPT record that the pipeline
// itself put there, i.e. everything but padding and keep-alive.
func pipelineOptions(m *dns.Msg) string {
	opt := m.IsEdns0()
	if opt == nil {
		return "<no OPT>"
	}
	var parts []string
	for _, o := range opt.Option {
		if c := o.Option(); c == dns.EDNS0PADDING || c == dns.EDNS0TCPKEEPALIVE {
			continue
		}
		parts = append(parts, fmt.Sprintf("%d:%s", o.Option(), o.String()))
	}

	return strings.Join(parts, ";")
}

// ---------------------------------------------------------------------------
// Adversarial disposer

// advDisposer is what production configures as ConfigBase.Disposer - the
// dnsmsg.Cloner that also produces the handlers' responses - together with the
// worst schedule of the requests that are served concurrently with the one under
// test: immediately after every Dispose(resp), two other requests clone their
// own (different) responses out of the pools and keep using them.  If a response
// is given to the Disposer while somebody still reads it, the reader now sees
// another client's id, question and records; if it is given to the Disposer
// twice, or written to after disposal, the concurrent request's response is
// damaged, which settle detects.
type advDisposer struct {
	mu       sync.Mutex
	cl       *dnsmsg.Cloner
	decoys   []*dns.Msg
	wants    []string
	next     int
	held     []heldClone
	disposes int
}

type heldClone struct {
	m   *dns.Msg
	idx int
}

func newAdvDisposer() (d *advDisposer) {
	d = &advDisposer{cl: dnsmsg.NewCloner(dnsmsg.EmptyClonerStat{})}
	for i := 0; i < 5; i++ {
		name := fmt.Sprintf("Concurrent-%d.other-client.example.", i)
		req := &dns.Msg{}
		req.SetQuestion(name, pick(rand.New(rand.NewPCG(uint64(i), 1)), []uint16{dns.TypeA, dns.TypeAAAA, dns.TypeHTTPS}))
		req.Id = uint16(0xdead + i)
		m := (&dns.Msg{}).SetReply(req)
		m.RecursionAvailable = true
		for k := 0; k < 8; k++ {
			m.Answer = append(m.Answer, pooledRR(name, (k+i)%8, byte(200+i), "other-client.example."))
		}
		m.Answer = m.Answer[:3+i]
		m.Ns = []dns.RR{&dns.SOA{Hdr: dns.RR_Header{Name: "other-client.example.", Rrtype: dns.TypeSOA, Class: dns.ClassINET, Ttl: 77},
			Ns: "ns.other-client.example.", Mbox: "m.other-client.example.", Serial: uint32(7000 + i)}}
		m.Extra = []dns.RR{&dns.OPT{Hdr: dns.RR_Header{Name: ".", Rrtype: dns.TypeOPT, Class: uint16(1400 + i)}, Option: []dns.EDNS0{
			&dns.EDNS0_COOKIE{Code: dns.EDNS0COOKIE, Cookie: fmt.Sprintf("%016x", 0xfeed0000+i)},
			&dns.EDNS0_EDE{InfoCode: uint16(15 + i), ExtraText: "other client"},
			&dns.EDNS0_SUBNET{Code: dns.EDNS0SUBNET, Family: 1, SourceNetmask: 24, Address: net.IPv4(203, 0, 113, 0).To4()},
		}}}
		d.decoys = append(d.decoys, m)
		d.wants = append(d.wants, m.String())
	}

	return d
}

// clone is the handler's (cache middleware's) use of the shared cloner.
func (d *advDisposer) clone(m *dns.Msg) *dns.Msg {
	d.mu.Lock()
	defer d.mu.Unlock()

	return d.cl.Clone(m)
}

// Dispose implements the dnsserver.Disposer interface.
func (d *advDisposer) Dispose(resp *dns.Msg) {
	d.mu.Lock()
	defer d.mu.Unlock()
	d.cl.Dispose(resp)
	if resp == nil {
		return
	}
	d.disposes++
	for i := 0; i < 2; i++ {
		k := d.next % len(d.decoys)
		d.next++
		d.held = append(d.held, heldClone{m: d.cl.Clone(d.decoys[k]), idx: k})
	}
}

func (d *advDisposer) begin() {
	d.mu.Lock()
	d.disposes = 0
	d.mu.Unlock()
}

func safeString(m *dns.Msg) (s string) {
	defer func() {
		if v := recover(); v != nil {
			s = fmt.Sprintf("<unprintable: %v>", v)
		}
	}()

	return m.String()
}

// settle ends the concurrent requests: their responses must still be what they
// cloned.  It returns the number of disposals since begin and, if a concurrent
// response was damaged, a description.
func (d *advDisposer) settle() (disposes int, damaged string) {
	d.mu.Lock()
	defer d.mu.Unlock()
	disposes = d.disposes
	for _, h := range d.held {
		if got := safeString(h.m); got != d.wants[h.idx] && damaged == "" {
			damaged = fmt.Sprintf("the response of concurrent request id %d, cloned from the shared pools, was changed under it; it now reads %q",
				d.decoys[h.idx].Id, strings.Join(strings.Fields(got), " "))
		}
	}
	if damaged != "" {
		// The pools are in an unknown state: start over with new ones.
		d.cl = dnsmsg.NewCloner(dnsmsg.EmptyClonerStat{})
	} else {
		seen := map[*dns.Msg]bool{}
		for _, h := range d.held {
			if !seen[h.m] {
				d.cl.Dispose(h.m)
			}
			seen[h.m] = true
		}
	}
	d.held = d.held[:0]

	return disposes, damaged
}

func (s *script) ServeDNS(ctx context.Context, rw dnsserver.ResponseWriter, req *dns.Msg) (err error) {
	if len(req.Question) == 1 && strings.HasSuffix(req.Question[0].Name, nestedSuffix) {
		// The concurrent client's query: always answered, never counted.
		return rw.WriteMsg(ctx, req, s.adv.clone(pipelineResp(req, 0, 2)))
	}
	s.calls.Add(1)
	if dl, ok := ctx.Deadline(); ok {
		s.left.Store(int64(time.Until(dl)))
	} else {
		s.left.Store(-1)
	}
	if g := s.gate.Load(); g != nil && len(req.Question) == 1 && strings.HasPrefix(req.Question[0].Name, slowPrefix) {
		s.entered.Add(1)
		<-*g
	}
	s.mu.Lock()
	o := s.o
	if bo, ok := s.byID[req.Id]; ok {
		o = bo
	}
	s.mu.Unlock()
	callNest("handler")
	mk := func() *dns.Msg {
		resp := pipelineResp(req, o.rcode, o.n)
		if req.Id%4 == 3 {
			// Built afresh, like the responses of the message constructor.
			return resp
		}

		// Taken from the shared pools, like the responses of the caches.
		return s.adv.clone(resp)
	}
	scripted := func() error {
		if o.ne {
			return timeoutErr{}
		}

		return errors.New("scripted failure")
	}
	switch o.kind {
	case "silent":
		return nil
	case "wrote":
		// The handler contract: a write error is returned.
		return rw.WriteMsg(ctx, req, mk())
	case "failed":
		return scripted()
	case "panic":
		panic("scripted handler panic")
	case "wrotepanic":
		_ = rw.WriteMsg(ctx, req, mk())
		panic("scripted handler panic after a write")
	default:
		_ = rw.WriteMsg(ctx, req, mk())

		return scripted()
	}
}

// ---------------------------------------------------------------------------
// Fakes

var (
	lUDP = &net.UDPAddr{IP: net.IPv4(127, 0, 0, 1), Port: 53}
	rUDP = &net.UDPAddr{IP: net.IPv4(192, 0, 2, 99), Port: 40000}
	lTCP = &net.TCPAddr{IP: net.IPv4(127, 0, 0, 1), Port: 53}
	rTCP = &net.TCPAddr{IP: net.IPv4(192, 0, 2, 99), Port: 40000}
)

// remotes are the forms a client address takes: IPv4, IPv6, IPv4-mapped IPv6 and
// link-local IPv6, which sockets (and net/http, as text) report with its zone.
type remote struct {
	text  string // as http.Request.RemoteAddr has it
	ip    net.IP
	zone  string
	port  int
	zoned bool
}

var remotes = []remote{
	{"192.0.2.99:40000", net.IPv4(192, 0, 2, 99), "", 40000, false},
	{"[2001:db8::99]:40000", net.ParseIP("2001:db8::99"), "", 40000, false},
	{"[fe80::1%eth0]:40000", net.ParseIP("fe80::1"), "eth0", 40000, true},
	{"[::ffff:192.0.2.7]:53", net.ParseIP("::ffff:192.0.2.7"), "", 53, false},
	{"[fe80::fc:ff:fe00:1%2]:443", net.ParseIP("fe80::fc:ff:fe00:1"), "2", 443, true},
	{"192.0.2.99:40000", net.IPv4(192, 0, 2, 99), "", 40000, false},
}

// curRemote is the client address of the request being served; useRemote
// installs it for the fake sockets of every transport.
var curRemote = remotes[0]

func useRemote(k int) {
	curRemote = remotes[k%len(remotes)]
	rUDP = &net.UDPAddr{IP: curRemote.ip, Port: curRemote.port, Zone: curRemote.zone}
	rTCP = &net.TCPAddr{IP: curRemote.ip, Port: curRemote.port, Zone: curRemote.zone}
}

var remoteTurn int

type fakePacketConn struct {
	in      []byte
	readErr error
	read    bool
	wok     bool
	writes  [][]byte
	// buf is the first octet of the buffer the server read the datagram into.
	buf *byte
	// wrote is closed (if not nil) after the first write attempt.
	wrote chan struct{}
}

func (c *fakePacketConn) ReadFrom(p []byte) (n int, addr net.Addr, err error) {
	if c.read {
		return 0, nil, io.EOF
	}
	c.read = true
	if c.readErr != nil {
		return 0, nil, c.readErr
	}
	if len(p) > 0 {
		c.buf = &p[0]
	}

	return copy(p, c.in), rUDP, nil
}

func (c *fakePacketConn) WriteTo(p []byte, _ net.Addr) (n int, err error) {
	callNest("write")
	if c.wrote != nil {
		defer close(c.wrote)
	}
	if !c.wok {
		return 0, io.ErrClosedPipe
	}
	c.writes = append(c.writes, bytes.Clone(p))

	return len(p), nil
}
func (c *fakePacketConn) Close() error                     { return nil }
func (c *fakePacketConn) LocalAddr() net.Addr              { return lUDP }
func (c *fakePacketConn) SetDeadline(time.Time) error      { return nil }
func (c *fakePacketConn) SetReadDeadline(time.Time) error  { return nil }
func (c *fakePacketConn) SetWriteDeadline(time.Time) error { return nil }

type fakeConn struct {
	mu     sync.Mutex
	in     *bytes.Reader
	wok    bool
	out    bytes.Buffer
	closes int
	// lateWrites counts the writes attempted after Close (they fail).
	lateWrites int
	// buf is the first octet of the buffer the server read a message body into.
	buf *byte
	// steps (non-sequential mode): the k-th Read returns at most steps[k mod len]
	// octets, like a TCP stream that arrives in segments.
	steps []int
	step  int
	// Sequential mode (frames != nil): the client sends frame k+1 only after
	// frame k is settled (answered, or the server closed the connection), and a
	// closed connection fails reads and writes like a real one.
	frames  [][]byte
	next    int
	cur     *bytes.Reader
	settled int
	events  []connEvent
	cond    *sync.Cond
}

// connEvent is one thing the server did on a sequential connection: a write
// (msg) or closing it (msg == nil).
type connEvent struct {
	msg []byte
}

func newSeqConn(frames [][]byte) (c *fakeConn) {
	c = &fakeConn{frames: frames, wok: true, in: bytes.NewReader(nil)}
	c.cond = sync.NewCond(&c.mu)

	return c
}

func (c *fakeConn) Read(p []byte) (n int, err error) {
	c.mu.Lock()
	defer c.mu.Unlock()
	if c.frames != nil {
		return c.readSeq(p)
	}
	if len(p) > 2 {
		c.buf = &p[0]
	}
	if len(c.steps) > 0 {
		// The network hands the octets over in segments of these sizes.
		k := c.steps[c.step%len(c.steps)]
		c.step++
		if k < len(p) {
			p = p[:k]
		}
	}

	return c.in.Read(p)
}

// readSeq is Read in sequential mode; c.mu is held.
func (c *fakeConn) readSeq(p []byte) (n int, err error) {
	if c.cur == nil || c.cur.Len() == 0 {
		for c.settled < c.next && c.closes == 0 {
			c.cond.Wait()
		}
		if c.closes > 0 {
			return 0, net.ErrClosed
		}
		if c.next >= len(c.frames) {
			return 0, io.EOF
		}
		c.cur = bytes.NewReader(c.frames[c.next])
		c.next++
	}

	return c.cur.Read(p)
}

func (c *fakeConn) Write(p []byte) (n int, err error) {
	callNest("write")
	c.mu.Lock()
	defer c.mu.Unlock()
	if c.frames != nil {
		if c.closes > 0 {
			return 0, net.ErrClosed
		}
		c.events = append(c.events, connEvent{msg: bytes.Clone(p)})
		c.settled++
		c.cond.Broadcast()

		return len(p), nil
	}
	if !c.wok {
		return 0, io.ErrClosedPipe
	}
	if c.closes > 0 {
		// Like a socket: what is written after Close reaches nobody.
		c.lateWrites++

		return 0, net.ErrClosed
	}

	return c.out.Write(p)
}

func (c *fakeConn) Close() error {
	c.mu.Lock()
	defer c.mu.Unlock()
	c.closes++
	if c.frames != nil && c.closes == 1 && c.settled < c.next {
		// Closed by the server instead of an answer to the frame in flight.
		c.events = append(c.events, connEvent{})
		c.settled++
	}
	if c.cond != nil {
		c.cond.Broadcast()
	}

	return nil
}
func (c *fakeConn) LocalAddr() net.Addr              { return lTCP }
func (c *fakeConn) RemoteAddr() net.Addr             { return rTCP }
func (c *fakeConn) SetDeadline(time.Time) error      { return nil }
func (c *fakeConn) SetReadDeadline(time.Time) error  { return nil }
func (c *fakeConn) SetWriteDeadline(time.Time) error { return nil }

// qread is the result of one stream.Read call: some data and, next to the last
// octet of it, possibly an error.
type qread struct {
	data []byte
	err  error
}

// deadlineErr is what a quic-go stream returns from Read when the read deadline
// fires, i.e. when the client has sent nothing more (in particular no FIN).
type deadlineErr struct{}

func (deadlineErr) Error() string   { return "deadline exceeded" }
func (deadlineErr) Timeout() bool   { return true }
func (deadlineErr) Temporary() bool { return true }
func (deadlineErr) Unwrap() error   { return os.ErrDeadlineExceeded }

var _ net.Error = deadlineErr{}

// fakeStream is the client's side of one DoQ stream as the server's Read calls
// see it: a script of Read results.  A result that is larger than the caller's
// buffer is handed over in pieces, the error with the last piece; errors are
// sticky; when the script is exhausted the read deadline fires.
type fakeStream struct {
	quic.Stream
	reads  []qread
	pos    int
	off    int
	sticky error
	out    bytes.Buffer
	closed bool
}

// streamOf is the plainest delivery: all octets in one Read, the FIN in the next.
func streamOf(b []byte) *fakeStream {
	return &fakeStream{reads: []qread{{data: b}, {err: io.EOF}}}
}

func (s *fakeStream) Read(p []byte) (n int, err error) {
	if s.sticky != nil {
		return 0, s.sticky
	}
	if s.pos >= len(s.reads) {
		s.sticky = deadlineErr{}

		return 0, s.sticky
	}
	r := s.reads[s.pos]
	n = copy(p, r.data[s.off:])
	s.off += n
	if s.off < len(r.data) {
		return n, nil
	}
	s.pos, s.off = s.pos+1, 0
	s.sticky = r.err

	return n, r.err
}

func (s *fakeStream) Write(p []byte) (int, error) {
	callNest("write")

	return s.out.Write(p)
}
func (s *fakeStream) Close() error                     { s.closed = true; return nil }
func (s *fakeStream) SetReadDeadline(time.Time) error  { return nil }
func (s *fakeStream) SetWriteDeadline(time.Time) error { return nil }
func (s *fakeStream) SetDeadline(time.Time) error      { return nil }
func (s *fakeStream) StreamID() quic.StreamID          { return 0 }
func (s *fakeStream) CancelRead(quic.StreamErrorCode)  {}
func (s *fakeStream) CancelWrite(quic.StreamErrorCode) {}
func (s *fakeStream) Context() context.Context         { return context.Background() }

type fakeQUICConn struct {
	quic.Connection
	codes []quic.ApplicationErrorCode
}

func (c *fakeQUICConn) LocalAddr() net.Addr  { return lUDP }
func (c *fakeQUICConn) RemoteAddr() net.Addr { return rUDP }
func (c *fakeQUICConn) CloseWithError(code quic.ApplicationErrorCode, _ string) error {
	c.codes = append(c.codes, code)

	return nil
}
func (c *fakeQUICConn) ConnectionState() quic.ConnectionState { return quic.ConnectionState{} }
func (c *fakeQUICConn) Context() context.Context              { return context.Background() }

type fakeDCW struct {
	tcp  bool
	msgs []*dns.Msg
}

func (w *fakeDCW) LocalAddr() net.Addr {
	if w.tcp {
		return lTCP
	}

	return lUDP
}

func (w *fakeDCW) RemoteAddr() net.Addr {
	if w.tcp {
		return rTCP
	}

	return rUDP
}

// WriteMsg does what the DNSCrypt library's writers do: the message is packed
// (then encrypted and sent) before WriteMsg returns, so the client's view is
// fixed here, and nothing of m is retained.
func (w *fakeDCW) WriteMsg(m *dns.Msg) error {
	b, err := m.Pack()
	if err != nil {
		return err
	}
	got := &dns.Msg{}
	if err = got.Unpack(b); err != nil {
		return err
	}
	w.msgs = append(w.msgs, got)

	return nil
}

// ---------------------------------------------------------------------------
// Servers

type env struct {
	h     *script
	plain *dnsserver.ServerDNS
	dot   *dnsserver.ServerTLS
	doh   *dnsserver.ServerHTTPS
	doq   *dnsserver.ServerQUIC
	dc    *dnsserver.ServerDNSCrypt
	hh    http.Handler
	// dlv, if set, chooses how the octets of the next stream (DoQ, TCP, DoT)
	// reach the server's Read calls; nil = all at once, then the end of stream.
	dlv *rand.Rand
	// dlvEnd >= 0 asks for a particular ending of the next DoQ streams.
	dlvEnd int
	// doqAsync runs DoQ streams through serveQUICStreamAsync (the goroutine body
	// with the recovery) instead of serveQUICStream.
	doqAsync bool
}

func newEnv() (e *env) {
	e = &env{h: sharedScript, dlvEnd: -1}
	base := func(name string) dnsserver.ConfigBase {
		return dnsserver.ConfigBase{Name: name, Addr: "127.0.0.1:0", Handler: e.h, Disposer: e.h.adv}
	}
	cdns := func(name string) dnsserver.ConfigDNS {
		return dnsserver.ConfigDNS{ConfigBase: base(name), MaxPipelineEnabled: true, MaxPipelineCount: 1}
	}
	e.plain = dnsserver.NewServerDNS(cdns("plain"))
	e.plain.VerifC01MarkStarted()
	e.dot = dnsserver.NewServerTLS(dnsserver.ConfigTLS{ConfigDNS: cdns("dot")})
	e.dot.VerifC01MarkStarted()
	e.doh = dnsserver.NewServerHTTPS(dnsserver.ConfigHTTPS{ConfigBase: base("doh")})
	e.hh = e.doh.VerifC01HTTPHandler(lTCP)
	e.doq = dnsserver.NewServerQUIC(dnsserver.ConfigQUIC{ConfigBase: base("doq")})
	e.doq.VerifC01MarkStarted()
	e.dc = dnsserver.NewServerDNSCrypt(dnsserver.ConfigDNSCrypt{ConfigBase: base("dc")})

	return e
}

// reset replaces the servers after one of them got stuck.
func (e *env) reset() {
	dlv, end, da := e.dlv, e.dlvEnd, e.doqAsync
	*e = *newEnv()
	e.dlv, e.dlvEnd, e.doqAsync = dlv, end, da
}

// runStart is when the run began.  overBudget reports that violations are on
// record and the run has used most of the time the check allows a harness: the
// remaining network-bound cases are skipped (with a note) so that what has been
// found is reported instead of being lost to the check's time-out.  It never
// fires on a run without violations and never changes a verdict.
var (
	runStart    = time.Now()
	budgetNoted bool
)

func overBudget(o *hlib.Opts, r *hlib.Result) bool {
	limit := 150 * time.Second
	if o.Thorough() {
		limit = 1300 * time.Second
	}
	if len(r.Violations) == 0 || time.Since(runStart) < limit {
		return false
	}
	if !budgetNoted {
		budgetNoted = true
		r.Notes = append(r.Notes, fmt.Sprintf("run cut short after %s with %d violation signatures on record: the remaining cases were skipped so that the findings are reported within the check's time-out",
			time.Since(runStart).Round(time.Second), len(r.Violations)))
	}

	return true
}

// hangs counts the confirmed hangs (watchdog of a minute); theResult is the run's
// result, for guard to finish early.
var (
	hangs     atomic.Int32
	theResult *hlib.Result
)

// guard runs f with panic capture and a watchdog: a real accept routine that
// does not come back within 10 s (a worker died before signalling completion,
// or a deadlock) is reported instead of hanging the check.
func guard(limit time.Duration, f func()) (hung bool, panicV any) {
	if hangs.Load() >= 2 && limit >= 60*time.Second && theResult != nil {
		// Two confirmed hangs are on record with their inputs; every further one
		// would cost a minute.  Finish with what has been found.
		theResult.Notes = append(theResult.Notes, "run ended early: the accept routines hung twice (see the hang-* violations); the remaining campaigns were not run")
		theResult.Finish()
		os.Exit(0)
	}
	defer func() {
		if hung && limit >= 60*time.Second {
			hangs.Add(1)
		}
	}()
	done := make(chan any, 1)
	go func() {
		defer func() { done <- recover() }()
		f()
	}()
	select {
	case v := <-done:
		return false, v
	case <-time.After(limit):
		return true, nil
	}
}

// ---------------------------------------------------------------------------
// Observation

// sees is what the client observes for one request on one transport.
type sees struct {
	status int
	msgs   []*dns.Msg
	// raw counts frames that did not decode as DNS.
	garbage int
	panicV  any
	hung    bool
	// disposes counts the responses given to the Disposer for this request;
	// damaged is non-empty if a concurrent request's response was changed.
	disposes int
	damaged  string
	// fin: DoQ only, the server closed its side of the stream.
	fin bool
	// acceptErr: UDP only, the error the accept step returned to the listener
	// loop, which ends the loop.
	acceptErr error
	// delivery: how the octets reached the server's Read calls (DoQ, TCP, DoT).
	delivery string
	// reset: DoQ only, the client reset the stream instead of finishing it.
	reset bool
	// remote: the client's address (text); zoned: it carries an IPv6 zone.
	remote string
	zoned  bool
	// lateWrites: TCP/DoT only, writes the server attempted after it had closed
	// the connection.
	lateWrites int
	// emptyOK: DoH only, HTTP 200 without a body (what net/http sends when the
	// handler returned without writing, e.g. after a recovered panic).
	emptyOK bool
}

const (
	stNone     = 0
	stOpen     = 1
	stClosed   = 2
	stProtoErr = 3
)

var transports = []string{"udp", "tcp", "dot", "dohpost", "dohget", "doq", "dcudp", "dctcp"}

func unpackAll(frames [][]byte, s *sees) {
	for _, f := range frames {
		m := &dns.Msg{}
		if err := m.Unpack(f); err != nil {
			s.garbage++

			continue
		}
		s.msgs = append(s.msgs, m)
	}
}

func splitPrefixed(b []byte, s *sees) {
	var frames [][]byte
	for len(b) > 0 {
		if len(b) < 2 {
			s.garbage++

			break
		}
		l := int(binary.BigEndian.Uint16(b))
		if len(b) < 2+l {
			s.garbage++

			break
		}
		frames = append(frames, b[2:2+l])
		b = b[2+l:]
	}
	unpackAll(frames, s)
}

func prefixed(b []byte) []byte {
	out := make([]byte, 2, 2+len(b))
	binary.BigEndian.PutUint16(out, uint16(len(b)))

	return append(out, b...)
}

// poison is a long valid query that is sent on DoQ before every case, so that a
// server which reads beyond the end of the next message finds this question.
var poison = func() []byte {
	m := &dns.Msg{}
	m.SetQuestion("poison-residue.example.", dns.TypeTXT)
	m.Id = 0x7e57
	m.SetEdns0(4096, false)
	opt := m.IsEdns0()
	opt.Option = append(opt.Option, &dns.EDNS0_PADDING{Padding: make([]byte, 900)})
	b, err := m.Pack()
	hlib.Must(err)

	return b
}()

// run sends wire bytes b over transport t (real code) and reports what the
// client sees.  For dcudp/dctcp the message is the one the DNSCrypt library
// would hand over, i.e. req (nil = library rejected it).
func (e *env) run(t string, b []byte, req *dns.Msg, wok bool) (s sees) {
	var inner sees
	hung, pv := guard(10*time.Second, func() { inner = e.runInner(t, b, req, wok) })
	if hung {
		// Confirm on fresh servers with a longer watchdog before reporting, so
		// that a stalled machine cannot produce a verdict.
		saved := e.h.o
		e.reset()
		e.h.set(saved)
		var again sees
		hung, pv = guard(60*time.Second, func() { again = e.runInner(t, b, req, wok) })
		if hung {
			e.reset()

			return sees{hung: true}
		}
		inner = again
	}
	inner.panicV = pv
	inner.disposes, inner.damaged = e.h.adv.settle()

	return inner
}

func (e *env) runInner(t string, b []byte, req *dns.Msg, wok bool) (s sees) {
	ctx := context.Background()
	e.h.adv.begin()
	remoteTurn++
	useRemote(remoteTurn)
	s.remote, s.zoned = curRemote.text, curRemote.zoned
	switch t {
	case "udp":
		c := &fakePacketConn{in: b, wok: wok}
		s.acceptErr = e.plain.VerifC01AcceptUDP(ctx, c)
		s.status = stNone
		unpackAll(c.writes, &s)
	case "tcp", "dot":
		c := &fakeConn{in: bytes.NewReader(prefixed(b)), wok: wok}
		if e.dlv != nil && e.dlv.IntN(2) == 0 {
			c.steps = genSegments(e.dlv)
			s.delivery = fmt.Sprintf("segmented: the connection's Read calls return at most %v octets, cyclically", c.steps)
		}
		if t == "tcp" {
			e.plain.VerifC01ServeTCPConn(ctx, c)
		} else {
			e.dot.VerifC01ServeTCPConn(ctx, c)
		}
		s.status = stOpen
		if c.closes >= 2 {
			s.status = stClosed
		}
		s.lateWrites = c.lateWrites
		splitPrefixed(c.out.Bytes(), &s)
	case "dohpost", "dohget":
		var r *http.Request
		if t == "dohpost" {
			r = httptest.NewRequest(http.MethodPost, "https://dns.example/dns-query", bytes.NewReader(b))
			r.Header.Set("Content-Type", dnsserver.MimeTypeDoH)
		} else {
			r = httptest.NewRequest(http.MethodGet,
				"https://dns.example/dns-query?dns="+base64.RawURLEncoding.EncodeToString(b), nil)
		}
		r.RemoteAddr = curRemote.text
		w := httptest.NewRecorder()
		e.hh.ServeHTTP(w, r)
		s.status = w.Code
		if w.Code == http.StatusOK {
			if w.Body.Len() == 0 {
				s.emptyOK = true
			} else {
				unpackAll([][]byte{w.Body.Bytes()}, &s)
			}
		}
	case "doq":
		ps := streamOf(prefixed(poison))
		saved := e.h.o
		e.h.set(outcome{kind: "wrote"})
		_ = e.doq.VerifC01ServeQUICStream(ps, &fakeQUICConn{})
		e.h.set(saved)
		e.h.adv.begin()
		st := streamOf(prefixed(b))
		if e.dlv != nil {
			d := genDelivery(e.dlv, prefixed(b), e.dlvEnd)
			st = &fakeStream{reads: d.reads}
			s.delivery = d.String()
			s.reset = strings.Contains(d.class, "reset")
		}
		qc := &fakeQUICConn{}
		if e.doqAsync {
			e.doq.VerifC01ServeQUICStreamAsync(st, qc)
		} else {
			_ = e.doq.VerifC01ServeQUICStream(st, qc)
		}
		s.status = stOpen
		for _, c := range qc.codes {
			if c == dnsserver.DOQCodeProtocolError {
				s.status = stProtoErr
			}
		}
		s.fin = st.closed
		splitPrefixed(st.out.Bytes(), &s)
	case "dcudp", "dctcp":
		w := &fakeDCW{tcp: t == "dctcp"}
		s.status = stNone
		if req == nil {
			return s
		}
		_ = e.dc.VerifC01DNSCryptHandler().ServeDNS(w, req.Copy())
		s.msgs = w.msgs
	}

	return s
}

// ---------------------------------------------------------------------------
// Canonical forms

// tokNum is the value of a numeric parameter token, def for "-".
func tokNum(tok string, def int) int {
	if v, err := strconv.Atoi(tok); err == nil {
		return v
	}

	return def
}

func b2s(b bool) string {
	if b {
		return "1"
	}

	return "0"
}

// hexName renders a domain name in presentation format as the hex of its wire
// form (labels with length octets, root included), which is how the model names
// a question.  Names that do not pack are rendered as "21" + hex of the text.
func hexName(s string) string {
	if s == "" {
		return "00"
	}
	buf := make([]byte, 300)
	off, err := dns.PackDomainName(s, buf, 0, nil, false)
	if err != nil {
		return "21" + hex.EncodeToString([]byte(s))
	}

	return hex.EncodeToString(buf[:off])
}

// goQParse is the harness's own reading of the first question of the bytes
// handed to Unpack: "-" (no question announced or bare header), "ptr"
// (compressed name), "bad" (does not parse) or "ok:<wire name hex>:<type>:<class>".
func goQParse(ub []byte) string {
	if len(ub) <= 12 || binary.BigEndian.Uint16(ub[4:]) == 0 {
		return "-"
	}
	off, budget := 12, 255
	var name []byte
	for {
		if off >= len(ub) {
			return "bad"
		}
		c := int(ub[off])
		off++
		if c == 0 {
			name = append(name, 0)

			break
		}
		if c >= 192 {
			return "ptr"
		}
		if c >= 64 || off+c > len(ub) {
			return "bad"
		}
		budget -= c + 1
		if budget <= 0 {
			return "bad"
		}
		name = append(name, byte(c))
		name = append(name, ub[off:off+c]...)
		off += c
	}
	rest := ub[off:]
	qt, qc := 0, 0
	switch {
	case len(rest) == 1:
		return "bad"
	case len(rest) >= 4:
		qc = int(binary.BigEndian.Uint16(rest[2:]))

		fallthrough
	case len(rest) >= 2:
		qt = int(binary.BigEndian.Uint16(rest))
	}

	return fmt.Sprintf("ok:%s:%d:%d", hex.EncodeToString(name), qt, qc)
}

// checkUnpackContract compares the harness's reading of the header and the
// first question with what miekg's Unpack returned for the same bytes: this is
// the contract (UnpackOK) under which the wire-level theorems hold.
func checkUnpackContract(r *hlib.Result, ub []byte, req *dns.Msg) {
	qp := goQParse(ub)
	bad := ""
	switch {
	case qp == "bad" && req != nil:
		bad = "Unpack accepted a message whose first question does not parse"
	case req == nil:
	case qp == "-" && len(ub) >= 12 && len(req.Question) != 0:
		bad = "Unpack found a question where none is announced"
	case strings.HasPrefix(qp, "ok:"):
		if len(req.Question) == 0 {
			bad = "Unpack dropped the first question"
		} else if q := req.Question[0]; qp != fmt.Sprintf("ok:%s:%d:%d", hexName(q.Name), q.Qtype, q.Qclass) {
			bad = fmt.Sprintf("Unpack read the first question as %s %d %d", hexName(q.Name), q.Qtype, q.Qclass)
		}
	}
	if bad != "" {
		r.Disagree("unpack-contract", bad+"; the bytes say "+qp, map[string]string{"wire_hex": hex.EncodeToString(ub)})
	}
}

func findEDE(m *dns.Msg) string {
	if opt := m.IsEdns0(); opt != nil {
		for _, o := range opt.Option {
			if e, ok := o.(*dns.EDNS0_EDE); ok {
				return strconv.Itoa(int(e.InfoCode))
			}
		}
	}

	return "-"
}

func canonResp(m *dns.Msg) string {
	var sb strings.Builder
	fmt.Fprintf(&sb, "| %d %d %d %s %s %d ", m.Id, m.Opcode, m.Rcode, b2s(m.RecursionDesired),
		b2s(m.CheckingDisabled), len(m.Question))
	qs := make([]string, 0, len(m.Question))
	for _, q := range m.Question {
		qs = append(qs, fmt.Sprintf("%s %d %d", hexName(q.Name), q.Qtype, q.Qclass))
	}
	sb.WriteString(strings.Join(qs, " "))
	fmt.Fprintf(&sb, " %d %s", len(m.Answer), findEDE(m))

	return sb.String()
}

func canonSees(s sees, hid string) string {
	parts := make([]string, 0, len(s.msgs))
	for _, m := range s.msgs {
		parts = append(parts, canonResp(m))
	}

	return fmt.Sprintf("%d %s %d ", s.status, hid, len(s.msgs)) + strings.Join(parts, " ") + fmt.Sprintf(" d%d f%s", s.disposes, b2s(s.fin))
}

// canonShort renders one element of a connection / loop observation.
func canonShort(s sees) string {
	parts := make([]string, 0, len(s.msgs))
	for _, m := range s.msgs {
		parts = append(parts, canonResp(m))
	}

	return fmt.Sprintf("/ %d %d ", s.status, len(s.msgs)) + strings.Join(parts, " ")
}

func hdrID(b []byte) string {
	if len(b) < 12 {
		return "-"
	}
	f0, f1 := b[2], b[3]
	u := func(i int) int { return int(b[i])<<8 | int(b[i+1]) }

	return fmt.Sprintf("%d:%s:%d:%s:%s:%d:%d:%d", u(0), b2s(f0&0x80 != 0), int(f0>>3)&15, b2s(f0&1 != 0),
		b2s(f1&0x10 != 0), u(4), u(6), u(8))
}

func hasKeepalive(m *dns.Msg) bool {
	if opt := m.IsEdns0(); opt != nil {
		for _, o := range opt.Option {
			if o.Option() == dns.EDNS0TCPKEEPALIVE {
				return true
			}
		}
	}

	return false
}

// frameArgs renders "<wirehex> <unpacked> <fields…> <outcome> q <nq> {…}": the
// client's bytes, and what Unpack made of the bytes the transport handed it.
func frameArgs(b []byte, req *dns.Msg, o outcome) string {
	wire := "-"
	if len(b) > 0 {
		wire = hex.EncodeToString(b)
	}
	if req == nil {
		return fmt.Sprintf("%s 0 0 0 0 0 0 0 0 0 0 %s q 0", wire, o)
	}
	var sb strings.Builder
	fmt.Fprintf(&sb, "%s 1 %d %s %d %s %s %d %d %s %s %s q %d", wire, req.Id,
		b2s(req.Response), req.Opcode, b2s(req.RecursionDesired), b2s(req.CheckingDisabled),
		len(req.Answer), len(req.Ns), b2s(req.IsEdns0() != nil), b2s(hasKeepalive(req)), o, len(req.Question))
	for _, q := range req.Question {
		fmt.Fprintf(&sb, " %s %d %d", hexName(q.Name), q.Qtype, q.Qclass)
	}

	return sb.String()
}

// modelLine renders the op line for the model.
func modelLine(t string, wok bool, b []byte, req *dns.Msg, o outcome) string {
	return fmt.Sprintf("serve %s %s %s", t, b2s(wok), frameArgs(b, req, o))
}

// ---------------------------------------------------------------------------
// Generators

var namePool = []string{
	"example.org.", "ExAmPlE.oRg.", "EXAMPLE.ORG.", "a.", ".", "www.Example.COM.",
	strings.Repeat("a", 63) + "." + strings.Repeat("B", 63) + "." + strings.Repeat("c", 63) + "." + strings.Repeat("D", 61) + ".",
	strings.Repeat("x", 63) + ".example.", `a\.b.example.`, `sp\032ace.example.`, `\000.example.`,
	"xn--e1afmkfd.xn--p1ai.", "_dns.resolver.arpa.", "1.0.0.127.in-addr.arpa.", "*.wild.example.",
}

var qtypePool = []uint16{1, 1, 1, 28, 28, 255, 0, 65535, 41, 252, 251, 6, 16, 65, 12, 250, 249}
var qclassPool = []uint16{1, 1, 1, 1, 3, 4, 255, 254, 0, 65535}
var idPool = []uint16{0, 1, 0xabcd, 0xffff, 0x7e57, 0x0100}

func pick[T any](rng *rand.Rand, xs []T) T { return xs[rng.IntN(len(xs))] }

func genName(rng *rand.Rand) string {
	if rng.IntN(5) > 0 {
		return pick(rng, namePool)
	}
	// Random mixed-case name.
	nl := 1 + rng.IntN(4)
	var sb strings.Builder
	for i := 0; i < nl; i++ {
		ll := 1 + rng.IntN(12)
		for j := 0; j < ll; j++ {
			c := byte('a' + rng.IntN(26))
			if rng.IntN(2) == 0 {
				c -= 32
			}
			sb.WriteByte(c)
		}
		sb.WriteByte('.')
	}

	return sb.String()
}

func genOpt(rng *rand.Rand, r *hlib.Result) *dns.OPT {
	opt := &dns.OPT{Hdr: dns.RR_Header{Name: ".", Rrtype: dns.TypeOPT}}
	opt.SetUDPSize(pick(rng, []uint16{0, 512, 1232, 4096, 65535}))
	if rng.IntN(3) == 0 {
		opt.SetDo()
	}
	for k := rng.IntN(4); k > 0; k-- {
		switch rng.IntN(7) {
		case 0:
			opt.Option = append(opt.Option, &dns.EDNS0_PADDING{Padding: make([]byte, rng.IntN(40))})
			r.Count("opt:padding")
		case 1:
			opt.Option = append(opt.Option, &dns.EDNS0_TCP_KEEPALIVE{Code: dns.EDNS0TCPKEEPALIVE, Timeout: uint16(rng.IntN(3))})
			r.Count("opt:keepalive")
		case 2:
			opt.Option = append(opt.Option, &dns.EDNS0_NSID{Code: dns.EDNS0NSID})
			r.Count("opt:nsid")
		case 3:
			opt.Option = append(opt.Option, &dns.EDNS0_COOKIE{Code: dns.EDNS0COOKIE, Cookie: "0102030405060708"})
			r.Count("opt:cookie")
		case 4:
			opt.Option = append(opt.Option, &dns.EDNS0_SUBNET{Code: dns.EDNS0SUBNET, Family: 1, SourceNetmask: 24, Address: net.IPv4(198, 51, 100, 0).To4()})
			r.Count("opt:ecs")
		case 5:
			opt.Option = append(opt.Option, &dns.EDNS0_LOCAL{Code: 65001, Data: []byte{1, 2, 3}})
			r.Count("opt:local")
		default:
			opt.Option = append(opt.Option, &dns.EDNS0_EDE{InfoCode: 0})
			r.Count("opt:ede")
		}
	}

	return opt
}

func smallCount(rng *rand.Rand, usual int) int {
	if rng.IntN(8) > 0 {
		return usual
	}

	return rng.IntN(4)
}

// genWire builds one wire message: mostly a well-formed query, with every header
// field and section count varied, and a malformed stream on top.
func genWire(rng *rand.Rand, r *hlib.Result) (b []byte, kind string) {
	m := &dns.Msg{}
	m.Id = pick(rng, idPool)
	if rng.IntN(3) == 0 {
		m.Id = uint16(rng.IntN(65536))
	}
	m.Response = rng.IntN(14) == 0
	switch x := rng.IntN(12); {
	case x < 8:
		m.Opcode = dns.OpcodeQuery
	case x < 9:
		m.Opcode = dns.OpcodeNotify
	default:
		m.Opcode = rng.IntN(16)
	}
	m.RecursionDesired = rng.IntN(4) > 0
	m.CheckingDisabled = rng.IntN(4) == 0
	m.AuthenticatedData = rng.IntN(4) == 0
	m.Authoritative = rng.IntN(8) == 0
	m.Truncated = rng.IntN(10) == 0
	m.RecursionAvailable = rng.IntN(8) == 0
	m.Zero = rng.IntN(10) == 0
	if rng.IntN(8) == 0 {
		m.Rcode = rng.IntN(16)
	}
	for k := smallCount(rng, 1); k > 0; k-- {
		m.Question = append(m.Question, dns.Question{Name: genName(rng), Qtype: pick(rng, qtypePool), Qclass: pick(rng, qclassPool)})
	}
	if rng.IntN(10) == 0 && len(m.Question) > 0 {
		m.Question[0].Qtype = uint16(rng.IntN(65536))
		m.Question[0].Qclass = uint16(rng.IntN(65536))
	}
	for k := smallCount(rng, 0); k > 0; k-- {
		m.Answer = append(m.Answer, &dns.SOA{Hdr: dns.RR_Header{Name: "example.org.", Rrtype: dns.TypeSOA, Class: 1, Ttl: 5},
			Ns: "ns.example.org.", Mbox: "m.example.org.", Serial: uint32(k)})
	}
	for k := smallCount(rng, 0); k > 0; k-- {
		m.Ns = append(m.Ns, &dns.NS{Hdr: dns.RR_Header{Name: "example.org.", Rrtype: dns.TypeNS, Class: 1, Ttl: 5}, Ns: "ns.example.org."})
	}
	if rng.IntN(2) == 0 {
		m.Extra = append(m.Extra, genOpt(rng, r))
	}
	if rng.IntN(12) == 0 {
		m.Extra = append(m.Extra, &dns.TXT{Hdr: dns.RR_Header{Name: "extra.example.", Rrtype: dns.TypeTXT, Class: 1}, Txt: []string{"x"}})
	}
	m.Compress = rng.IntN(2) == 0
	b, err := m.Pack()
	if err != nil {
		// Should not happen with the pools above; fall back to garbage.
		b = []byte{0, 1, 2}
	}
	kind = "wellformed"
	if rng.IntN(5) > 0 {
		return b, kind
	}
	// Malformed stream.
	switch rng.IntN(9) {
	case 0:
		b = b[:rng.IntN(len(b)+1)]
		kind = "truncated"
	case 1:
		if len(b) >= 12 {
			b = b[:12]
		}
		kind = "header-only"
	case 2:
		n := rng.IntN(40)
		b = make([]byte, n)
		for i := range b {
			b[i] = byte(rng.IntN(256))
		}
		kind = "random-bytes"
	case 3:
		if len(b) >= 12 {
			off := 4 + 2*rng.IntN(4)
			binary.BigEndian.PutUint16(b[off:], pick(rng, []uint16{2, 3, 255, 65535}))
		}
		kind = "oversized-count"
	case 4:
		if len(b) > 0 {
			b[rng.IntN(len(b))] ^= byte(1 << rng.IntN(8))
		}
		kind = "bitflip"
	case 5:
		for k := 1 + rng.IntN(20); k > 0; k-- {
			b = append(b, byte(rng.IntN(256)))
		}
		kind = "trailing-garbage"
	case 6:
		b = nil
		kind = "empty"
	case 7:
		// Compression pointer loop in the question name.
		b = append(append([]byte{}, b[:min(12, len(b))]...), 0xc0, 0x0c, 0, 1, 0, 1)
		kind = "pointer-loop"
	default:
		b = b[:min(len(b), rng.IntN(12))]
		kind = "short"
	}

	return b, kind
}

// ---------------------------------------------------------------------------
// Delivery: how a stream's octets reach the server's Read calls

// delivery is one way the octets of a DoQ stream reach the server: the results
// of the successive Read calls.
type delivery struct {
	class string
	reads []qread
}

func errToken(err error) string {
	switch {
	case err == nil:
		return "nil"
	case err == io.EOF:
		return "eof"
	default:
		return "other"
	}
}

// String is the replayable description: the size and error of every Read result.
func (d delivery) String() string {
	parts := make([]string, 0, len(d.reads))
	for _, r := range d.reads {
		e := ""
		switch {
		case r.err == io.EOF:
			e = "+FIN"
		case r.err != nil:
			e = fmt.Sprintf("+error(%v)", r.err)
		}
		parts = append(parts, fmt.Sprintf("%d%s", len(r.data), e))
	}
	end := ""
	if len(d.reads) == 0 || d.reads[len(d.reads)-1].err == nil {
		end = ", then nothing until the read deadline"
	}

	return fmt.Sprintf("%s: Read results (octets) %s%s", d.class, strings.Join(parts, ", "), end)
}

// modelArgs renders the script for the model's quicread op.
func (d delivery) modelArgs() string {
	var sb strings.Builder
	for _, r := range d.reads {
		h := "-"
		if len(r.data) > 0 {
			h = hex.EncodeToString(r.data)
		}
		sb.WriteString(" ; " + h + " " + errToken(r.err))
	}

	return sb.String()
}

// bytes is what the script delivers before its first error.
func (d delivery) bytes() (b []byte) {
	for _, r := range d.reads {
		b = append(b, r.data...)
		if r.err != nil {
			break
		}
	}

	return b
}

// genCuts cuts b into Read results: whole, at the boundaries of the framing
// (inside and right after the length prefix, around the header), at random
// places, or octet by octet.
func genCuts(rng *rand.Rand, b []byte) (chunks [][]byte, how string) {
	n := len(b)
	var cuts []int
	switch x := rng.IntN(10); {
	case x < 3 || n < 2:
		how = "whole"
	case x < 5:
		how = "cut-at-framing"
		for _, c := range []int{1, 2, 3, 13, 14, n - 1} {
			if c > 0 && c < n && rng.IntN(2) == 0 {
				cuts = append(cuts, c)
			}
		}
	case x < 9 || n > 48:
		how = "cut-at-random"
		for k := 1 + rng.IntN(5); k > 0; k-- {
			cuts = append(cuts, 1+rng.IntN(n-1))
		}
	default:
		how = "octet-by-octet"
		for c := 1; c < n; c++ {
			cuts = append(cuts, c)
		}
	}
	sort.Ints(cuts)
	prev := 0
	for _, c := range cuts {
		if c > prev {
			chunks = append(chunks, b[prev:c])
			prev = c
		}
	}
	chunks = append(chunks, b[prev:])

	return chunks, how
}

// genDelivery chooses how stream reaches the server: the cuts, and what follows
// the last octet - the FIN in a Read of its own (end 0), the FIN together with
// it (1), nothing (2: the client does not close its side; the read deadline
// fires), or a reset of the stream (3, 4); end < 0: any.
func genDelivery(rng *rand.Rand, stream []byte, end int) (d delivery) {
	chunks, how := genCuts(rng, stream)
	for _, c := range chunks {
		d.reads = append(d.reads, qread{data: c})
	}
	if rng.IntN(12) == 0 {
		// A Read that returns nothing and no error.
		k := rng.IntN(len(d.reads) + 1)
		d.reads = append(d.reads[:k], append([]qread{{}}, d.reads[k:]...)...)
		how += ",empty-read"
	}
	last := &d.reads[len(d.reads)-1]
	x := rng.IntN(10)
	if end >= 0 {
		// A particular ending is asked for.
		x = []int{0, 3, 6, 8, 9}[end%5]
	}
	switch {
	case x < 3:
		d.reads = append(d.reads, qread{err: io.EOF})
		d.class = how + ",fin-own-read"
	case x < 6:
		last.err = io.EOF
		d.class = how + ",fin-with-data"
	case x < 8:
		d.class = how + ",no-fin"
	case x < 9:
		d.reads = append(d.reads, qread{err: &quic.StreamError{StreamID: 0, ErrorCode: 0x5, Remote: true}})
		d.class = how + ",reset-own-read"
	default:
		last.err = &quic.StreamError{StreamID: 0, ErrorCode: 0x5, Remote: true}
		d.class = how + ",reset-with-data"
	}

	return d
}

// genSegments chooses the sizes of the TCP segments a connection's octets arrive in.
func genSegments(rng *rand.Rand) (steps []int) {
	for k := 1 + rng.IntN(3); k > 0; k-- {
		steps = append(steps, pick(rng, []int{1, 1, 2, 3, 5, 11, 12, 13, 64, 511, 512, 513}))
	}

	return steps
}

// paddedQuery returns a well-formed single-question query of exactly size
// octets, reached with an EDNS padding option.
func paddedQuery(rng *rand.Rand, size int) (b []byte) {
	pad := &dns.EDNS0_PADDING{}
	m := &dns.Msg{}
	m.SetQuestion(genName(rng), pick(rng, []uint16{dns.TypeA, dns.TypeAAAA, dns.TypeHTTPS, dns.TypeTXT}))
	m.Id = uint16(rng.IntN(65536))
	m.RecursionDesired = true
	m.Extra = []dns.RR{&dns.OPT{Hdr: dns.RR_Header{Name: ".", Rrtype: dns.TypeOPT, Class: 4096}, Option: []dns.EDNS0{pad}}}
	base, err := m.Pack()
	hlib.Must(err)
	if size < len(base) {
		return base
	}
	pad.Padding = make([]byte, size-len(base))
	b, err = m.Pack()
	hlib.Must(err)

	return b
}

// doqBuf is the DoQ server's read buffer (quicBytePoolSize): room for the two
// length octets and the largest message they can announce, which TCP, DoT and
// DoH take as well.  doqLegacyRoom is the largest message that fitted the buffer
// of dns.MaxMsgSize octets the code had before the fix; the sizes around it stay
// in every generator, and the oracle keeps its signature for a query beyond it
// that is refused.
const (
	doqBuf        = dns.MaxMsgSize + 2
	doqLegacyRoom = dns.MaxMsgSize - 2
)

func genOutcome(rng *rand.Rand) outcome {
	switch x := rng.IntN(20); {
	case x < 11:
		return outcome{kind: "wrote", rcode: pick(rng, []int{0, 0, 0, 3, 5, 2}), n: rng.IntN(4)}
	case x < 14:
		return outcome{kind: "silent"}
	case x < 18:
		return outcome{kind: "failed", ne: rng.IntN(2) == 0}
	default:
		return outcome{kind: "wrotefailed", rcode: 0, n: rng.IntN(3), ne: rng.IntN(2) == 0}
	}
}

// ---------------------------------------------------------------------------
// Property oracle (independent of the model)

// acceptable restates the property's notion of an acceptable query.
func classify(req *dns.Msg) string {
	switch {
	case req == nil:
		return "undecodable"
	case req.Response:
		return "response"
	case req.Opcode != dns.OpcodeQuery && req.Opcode != dns.OpcodeNotify:
		return "opcode"
	case len(req.Question) != 1 || len(req.Answer) > 1 || len(req.Ns) > 1:
		return "counts"
	default:
		return "ok"
	}
}

func sameQuestion(a, b dns.Question) bool {
	return a.Name == b.Name && a.Qtype == b.Qtype && a.Qclass == b.Qclass
}

func rrStrings(rrs []dns.RR) string {
	parts := make([]string, 0, len(rrs))
	for _, rr := range rrs {
		parts = append(parts, rr.String())
	}

	return strings.Join(parts, ";")
}

type caseInfo struct {
	Transport string `json:"transport"`
	WireHex   string `json:"wire_hex"`
	Outcome   string `json:"handler_outcome"`
	WriteOK   bool   `json:"socket_writes_succeed"`
	Observed  string `json:"observed"`
	// Delivery: how the octets reached the server's Read calls (DoQ: the results
	// of the successive stream.Read calls; TCP/DoT: segment sizes); empty = all
	// at once, followed by the end of the stream.
	Delivery string `json:"delivery,omitempty"`
	// Remote: the client's address as the socket / net/http reports it.
	Remote string `json:"remote_addr,omitempty"`
}

// oracle checks one observation against the property statement.  It returns the
// core of the delivered answer for the cross-transport comparison.
func oracle(r *hlib.Result, t string, b []byte, req *dns.Msg, o outcome, wok bool, s sees, calls int64) (core string) {
	ci := caseInfo{Transport: t, WireHex: hex.EncodeToString(b), Outcome: o.String(), WriteOK: wok, Observed: canonSees(s, "-"), Delivery: s.delivery, Remote: s.remote}
	cls := classify(req)
	if s.emptyOK {
		// Repaired finding, signature kept armed: httpHandler.remoteAddr handed the
		// host part of "[fe80::1%eth0]:443" to netutil.ParseIP and panicked; the
		// recovered panic left the client with an empty HTTP 200.
		sig, what := "doh-empty-200", t+": HTTP 200 without a body: the handler returned without writing anything (recovered panic?)"
		if s.zoned {
			sig, what = "doh-zoned-client-unanswered", fmt.Sprintf("%s: the request of the client %s (an IPv6 link-local address, reported with its zone) "+
				"got an empty HTTP 200 and no DNS response: httpHandler.remoteAddr panics on the zone, the panic is recovered, nothing is written", t, s.remote)
		}
		r.Violate(sig, what, ci)

		return ""
	}
	if s.hung {
		r.Violate("hang-"+t, t+": the accept routine never completed this request (worker died before signalling completion, or deadlock)", ci)

		return ""
	}
	if s.panicV != nil {
		r.Violate("panic-"+t, fmt.Sprintf("%s: panic escaped the per-request recovery: %v", t, s.panicV), ci)

		return ""
	}
	if s.acceptErr != nil {
		r.Violate("listener-exit-"+t, fmt.Sprintf("%s: the accept step returned the error %q for this client input; the listener loop ends on any error, so the listener is gone", t, s.acceptErr), ci)
	}
	if t == "doq" && !s.fin {
		r.Violate("doq-stream-not-finished", "doq: the server did not close its side of the stream (no STREAM FIN), so the client cannot tell that the response is complete", ci)
	}
	if s.lateWrites > 0 {
		r.Violate("closed-before-answer-"+t, t+": the client sent this frame and then finished its side of the stream; the server closed the connection before the worker of the frame had written "+
			"its response, and the response was written to the closed connection", ci)
	}
	if s.garbage > 0 {
		r.Violate("garbled-response-"+t, t+": the server wrote bytes that do not decode as a DNS message / frame", ci)
	}
	if s.damaged != "" {
		r.Violate("concurrent-response-damaged-"+t, t+": serving this request with the Disposer's pools shared (production set-up): "+s.damaged+
			" - a response was disposed of twice or written to after its disposal", ci)
	}
	doqKA := t == "doq" && req != nil && hasKeepalive(req)
	// 1. Never a response with another id or question; responses are responses.
	for _, m := range s.msgs {
		if len(b) >= 2 && m.Id != binary.BigEndian.Uint16(b) {
			r.Violate("foreign-id-"+t, fmt.Sprintf("%s: response id %d for request id %d", t, m.Id, binary.BigEndian.Uint16(b)), ci)
		}
		if !m.Response {
			r.Violate("not-a-response-"+t, t+": QR bit clear in what the server sent", ci)
		}
		switch {
		case req == nil:
			r.Violate("undecodable-answered-"+t, t+": bytes that do not decode as a DNS message elicited a DNS response", ci)
		case len(m.Question) > 1,
			len(m.Question) == 1 && (len(req.Question) == 0 || !sameQuestion(m.Question[0], req.Question[0])):
			r.Violate("foreign-question-"+t, fmt.Sprintf("%s: response question %v, request question %v", t, m.Question, req.Question), ci)
		case cls == "ok" && len(m.Question) != 1:
			r.Violate("question-missing-"+t, t+": accepted query answered without its question", ci)
		}
	}
	if t == "doq" && s.reset && len(s.msgs) == 0 {
		// The client cancelled the stream instead of finishing it: it does not wait
		// for an answer, and the property does not say it must get one.  (The code
		// answers a complete query all the same; the model comparison holds it to that.)
		return ""
	}
	// 1a. Repaired finding, signature kept armed: a read buffer of dns.MaxMsgSize
	// octets has no room for the two length octets next to the two largest
	// messages a prefix can announce; the stream got DOQ_PROTOCOL_ERROR instead of
	// an answer.
	if t == "doq" && cls == "ok" && !doqKA && len(b) > doqLegacyRoom && len(s.msgs) == 0 && s.status == stProtoErr && calls == 0 {
		r.Violate("doq-max-size-query-rejected", fmt.Sprintf("doq: a well-formed single-question query of %d octets (TCP, DoT and DoH answer it) is refused with DOQ_PROTOCOL_ERROR: "+
			"the read buffer has to hold the 2-octet length prefix as well as a message of up to %d octets; with quicBytePoolSize = dns.MaxMsgSize messages longer than %d octets never fit", len(b), dns.MaxMsgSize, doqLegacyRoom), ci)

		return ""
	}
	// 2. Not acceptable: documented treatment, handler never consulted.
	if cls != "ok" || doqKA {
		if calls != 0 {
			r.Violate("handler-invoked-on-reject-"+t, fmt.Sprintf("%s: handler consulted for a %s message", t, cls), ci)
		}
		want := -1 // no DNS response
		switch cls {
		case "opcode":
			want = dns.RcodeNotImplemented
		case "counts":
			want = dns.RcodeFormatError
		case "response":
			if t == "doq" || t == "dcudp" || t == "dctcp" {
				// Documented: these transports never leave a query unanswered.
				want = dns.RcodeServerFailure
			}
		}
		if doqKA || !wok {
			want = -1
		}
		switch {
		case want == -1 && len(s.msgs) != 0:
			r.Violate("reject-answered-"+t+"-"+cls, fmt.Sprintf("%s: a %s message must be dropped but got %d response(s)", t, cls, len(s.msgs)), ci)
		case want >= 0 && len(s.msgs) != 1:
			r.Violate("reject-count-"+t+"-"+cls, fmt.Sprintf("%s: a %s message must get exactly one error response, got %d", t, cls, len(s.msgs)), ci)
		case want >= 0 && (s.msgs[0].Rcode != want || len(s.msgs[0].Answer) != 0):
			r.Violate("reject-rcode-"+t+"-"+cls, fmt.Sprintf("%s: a %s message must get rcode %d without records, got rcode %d with %d", t, cls, want, s.msgs[0].Rcode, len(s.msgs[0].Answer)), ci)
		}

		return ""
	}
	// 3. Acceptable query.
	if calls != 1 {
		r.Violate("handler-calls-"+t, fmt.Sprintf("%s: handler consulted %d times for one accepted query", t, calls), ci)
	}
	if !wok {
		if len(s.msgs) != 0 {
			r.Violate("ghost-response-"+t, t+": response observed although socket writes fail", ci)
		}

		return ""
	}
	switch o.kind {
	case "wrote":
		if len(s.msgs) != 1 {
			r.Violate("answer-count-"+t, fmt.Sprintf("%s: accepted query answered %d times", t, len(s.msgs)), ci)

			return ""
		}
		m := s.msgs[0]
		want := pipelineResp(req, o.rcode, o.n)
		if m.Rcode != o.rcode || rrStrings(m.Answer) != rrStrings(want.Answer) || m.Truncated {
			r.Violate("answer-differs-"+t, fmt.Sprintf("%s: delivered rcode/records differ from what the pipeline produced: rcode %d records %q", t, m.Rcode, rrStrings(m.Answer)), ci)
		}
		if rrStrings(m.Ns) != rrStrings(want.Ns) {
			r.Violate("authority-differs-"+t, fmt.Sprintf("%s: delivered authority section %q, the pipeline produced %q", t, rrStrings(m.Ns), rrStrings(want.Ns)), ci)
		}
		if want.IsEdns0() != nil && pipelineOptions(m) != pipelineOptions(want) {
			r.Violate("options-differ-"+t, fmt.Sprintf("%s: delivered EDNS options (padding and keep-alive aside) %q, the pipeline produced %q", t, pipelineOptions(m), pipelineOptions(want)), ci)
		}
		if m.Opcode != req.Opcode {
			r.Violate("opcode-differs-"+t, t+": response opcode differs from the request's", ci)
		}
	case "failed":
		if len(s.msgs) != 1 || s.msgs[0].Rcode != dns.RcodeServerFailure || len(s.msgs[0].Answer) != 0 {
			r.Violate("servfail-missing-"+t, fmt.Sprintf("%s: handler error must give exactly one SERVFAIL, got %d message(s)", t, len(s.msgs)), ci)

			return ""
		}
	case "silent":
		// Documented per-transport treatment of "nothing written".
		wantN, wantSt := 0, s.status
		switch t {
		case "tcp", "dot":
			wantSt = stClosed
		case "dohpost", "dohget":
			wantSt = http.StatusInternalServerError
		case "doq", "dcudp", "dctcp":
			wantN = 1
		}
		if len(s.msgs) != wantN || s.status != wantSt || (wantN == 1 && s.msgs[0].Rcode != dns.RcodeServerFailure) {
			r.Violate("silent-treatment-"+t, fmt.Sprintf("%s: unanswered query: %d message(s), status %d", t, len(s.msgs), s.status), ci)
		}

		return ""
	default:
		// Contract-breaking handler (wrote, then reported failure): only rule 1 applies.
		return ""
	}
	m := s.msgs[0]
	if len(m.Question) != 1 {
		// Already reported by rule 1.
		return ""
	}

	return fmt.Sprintf("%d %d %s %s / %s", m.Rcode, m.Opcode, m.Question[0].String(), rrStrings(m.Answer), rrStrings(m.Ns))
}

// ---------------------------------------------------------------------------
// Campaigns

type pending struct {
	line string
	real string
	ci   caseInfo
}

func flush(r *hlib.Result, m *hlib.Model, ps []pending) {
	lines := make([]string, len(ps))
	for i, p := range ps {
		lines[i] = p.line
	}
	for i, ans := range m.Batch(lines) {
		if strings.TrimSpace(ans) != strings.TrimSpace(ps[i].real) {
			r.Disagree("serve-"+ps[i].ci.Transport, fmt.Sprintf("model %q, implementation %q for %q", ans, ps[i].real, ps[i].line), ps[i].ci)
		}
	}
	r.ModelOps += len(ps)
}

func unpackOrNil(b []byte) *dns.Msg {
	m := &dns.Msg{}
	if err := m.Unpack(b); err != nil {
		return nil
	}

	return m
}

// effective returns the bytes the transport's framing hands to Unpack.
func effective(t string, b []byte) []byte {
	if t == "udp" && len(b) > dns.MinMsgSize {
		return b[:dns.MinMsgSize]
	}

	return b
}

// runOne sends b over transport t: real code, property oracle, and the line for
// the model comparison.  It returns the core of the delivered answer.
func runOne(e *env, r *hlib.Result, t string, b []byte, req *dns.Msg, o outcome, wokRoll int, ps *[]pending) (core string) {
	// eb: the bytes the transport's framing hands to Unpack.
	eb := effective(t, b)
	treq := req
	if len(eb) != len(b) {
		treq = unpackOrNil(eb)
	}
	if len(eb) != len(b) {
		checkUnpackContract(r, eb, treq)
	}
	if t == "udp" && len(eb) < 12 {
		// readUDPMsg drops datagrams shorter than a header before Unpack.
		treq = nil
	}
	wok := true
	if (t == "udp" || t == "tcp" || t == "dot") && wokRoll == 0 {
		wok = false
		r.Count("socket-write-fails")
	}
	e.h.set(o)
	s := e.run(t, b, treq, wok)
	calls := e.h.calls.Load()
	if s.delivery != "" {
		for _, part := range strings.Split(strings.SplitN(s.delivery, ":", 2)[0], ",") {
			r.Count("delivery:" + t + ":" + part)
		}
	}
	// Property oracle first, model comparison afterwards.
	core = oracle(r, t, eb, treq, o, wok, s, calls)
	mo := o
	if !wok && o.kind == "wrote" {
		// The scripted handler returns the write error (handler contract).
		mo = outcome{kind: "wrotefailed", rcode: o.rcode, n: o.n, ne: false}
	}
	if (t == "dcudp" || t == "dctcp") && treq == nil {
		return core
	}
	ub := eb
	if (t == "udp" || t == "doq") && len(eb) < 12 || t == "doq" && len(eb)+2 > doqBuf {
		// Dropped by the framing: nothing is handed to Unpack.
		ub = nil
	}
	real := fmt.Sprintf("%d %s %s w1 ", s.status, hdrID(ub), goQParse(ub)) + strings.SplitN(canonSees(s, "-"), " ", 3)[2]
	ci := caseInfo{Transport: t, WireHex: hex.EncodeToString(b), Outcome: o.String(), WriteOK: wok, Observed: real, Delivery: s.delivery}
	*ps = append(*ps, pending{line: modelLine(t, wok, b, treq, mo), real: real, ci: ci})
	r.Traces++

	return core
}

func runCase(e *env, r *hlib.Result, b []byte, kind string, o outcome, wokRoll int, ps *[]pending) {
	req := unpackOrNil(b)
	cls := classify(req)
	r.Count("class:" + cls)
	r.Count("wire:" + kind)
	if cls == "ok" {
		r.Count("outcome:" + o.kind)
	}
	cores := map[string]string{}
	canon := hex.EncodeToString(b) + " " + o.String()
	checkUnpackContract(r, b, req)
	for _, t := range transports {
		if core := runOne(e, r, t, b, req, o, wokRoll, ps); core != "" {
			cores[t] = core
		}
	}
	// Cross-transport identity of the delivered core.
	ref, refT := "", ""
	for _, t := range transports {
		c, ok := cores[t]
		if !ok {
			continue
		}
		if ref == "" {
			ref, refT = c, t

			continue
		}
		if c != ref {
			r.Violate("transport-divergence", fmt.Sprintf("%s delivers %q but %s delivers %q for the same query and pipeline result", refT, ref, t, c),
				caseInfo{Transport: refT + "," + t, WireHex: hex.EncodeToString(b), Outcome: o.String(), WriteOK: true})
		}
	}
	r.Case(canon, cls != "ok" || o.kind != "wrote" || kind != "wellformed")
	if cls == "ok" && len(r.Samples) < 3 || cls != "ok" && len(r.Samples) < 7 {
		r.Sample(map[string]string{"wire": hex.EncodeToString(b), "class": cls, "outcome": o.String()}, 7)
	}
}

func wireCampaign(o *hlib.Opts, r *hlib.Result, m *hlib.Model, e *env) {
	rng := o.Rand("wire")
	n := 8000
	if o.Thorough() {
		n = 300000
	}
	var ps []pending
	for i := 0; i < n; i++ {
		b, kind := genWire(rng, r)
		runCase(e, r, b, kind, genOutcome(rng), rng.IntN(10), &ps)
		if len(ps) > 4000 {
			flush(r, m, ps)
			ps = ps[:0]
		}
	}
	// Size classes: well-formed queries padded to the sizes around every read
	// buffer of the accept paths (UDP 512, the DoQ buffer with and without room
	// for the length prefix, the largest message a prefix can announce).
	reps := 1
	if o.Thorough() {
		reps = 8
	}
	for rep := 0; rep < reps; rep++ {
		for _, sz := range []int{511, 512, 513, 1232, 4096, 16384, doqLegacyRoom - 2, doqLegacyRoom - 1, doqLegacyRoom, dns.MaxMsgSize - 1, dns.MaxMsgSize} {
			oc := outcome{kind: "wrote", rcode: 0, n: 1 + rng.IntN(3)}
			if rng.IntN(4) == 0 {
				oc = genOutcome(rng)
			}
			runCase(e, r, paddedQuery(rng, sz), fmt.Sprintf("padded-to-%d", sz), oc, 1, &ps)
		}
		flush(r, m, ps)
		ps = ps[:0]
	}
	// Boundary corpus: always run.
	for _, hx := range []string{
		"", "00", "abcd01000001000000000000", "abcd81000001000000000000", "abcd01000000000000000000",
		"abcd0100000100000000000003777777076578616d706c6503636f6d0000010001",
		"abcd0100000200000000000003777777076578616d706c6503636f6d0000010001c00c001c0001",
		"abcd2800000100000000000003777777076578616d706c6503636f6d0000010001",
		"abcd7800000100000000000003777777076578616d706c6503636f6d0000010001",
		"abcd01000001000000000000c00c00010001",
		"abcd0100ffffffffffffffff",
	} {
		b, _ := hex.DecodeString(hx)
		for _, oc := range []outcome{{kind: "wrote", n: 1}, {kind: "silent"}, {kind: "failed", ne: true}} {
			runCase(e, r, b, "corpus", oc, 1, &ps)
		}
	}
	flush(r, m, ps)
}

// doqDeliveryCampaign: the DoQ reader does not see a byte string but the results
// of successive Read calls.  Every stream - complete queries of ordinary size and
// at the size boundary of the read buffer, rejected and malformed messages - is
// delivered in every way the transport can deliver it: cut anywhere (also inside
// the length prefix), with the FIN next to the last data or in a Read of its
// own, without a FIN before the read deadline, or ended by a reset.  The answer
// must be the one the query gets on any other transport (same oracle, same model
// line: the model's verdict does not depend on the delivery, which is a theorem).
func doqDeliveryCampaign(o *hlib.Opts, r *hlib.Result, m *hlib.Model, e *env) {
	rng := o.Rand("doqdelivery")
	n := 1500
	if o.Thorough() {
		n = 60000
	}
	savedDlv := e.dlv
	defer func() { e.dlv = savedDlv }()
	e.dlv = rng
	var ps []pending
	one := func(b []byte, kind string, oc outcome) {
		req := unpackOrNil(b)
		checkUnpackContract(r, b, req)
		r.Count("doqdelivery:" + kind)
		runOne(e, r, "doq", b, req, oc, 1, &ps)
		r.Case("doqdelivery "+hex.EncodeToString(b)+" "+oc.String()+" "+ps[len(ps)-1].ci.Delivery, true)
		if len(ps) > 2000 {
			flush(r, m, ps)
			ps = ps[:0]
		}
	}
	for i := 0; i < n; i++ {
		b, kind := genWire(rng, r)
		one(b, kind, genOutcome(rng))
	}
	// The size boundary of the read buffer, every ending, whole and cut.
	reps := 2
	if o.Thorough() {
		reps = 12
	}
	for rep := 0; rep < reps; rep++ {
		for _, sz := range []int{doqLegacyRoom, doqLegacyRoom + 1, dns.MaxMsgSize - 1, dns.MaxMsgSize} {
			b := paddedQuery(rng, sz)
			for k := 0; k < 5; k++ {
				e.dlvEnd = k
				one(b, fmt.Sprintf("padded-to-%d", sz), outcome{kind: "wrote", n: 1})
			}
			e.dlvEnd = -1
		}
	}
	flush(r, m, ps)
}

// gridCampaign sends, as real wire messages through every transport, the whole
// grid qr x opcode 0..15 x section counts 0..2 x EDNS, with every handler
// outcome (thorough) or a rotating one (quick).
func gridCampaign(o *hlib.Opts, r *hlib.Result, m *hlib.Model, e *env) {
	outs := []outcome{{kind: "wrote", n: 1}, {kind: "silent"}, {kind: "failed", ne: true}, {kind: "wrote", rcode: 3}, {kind: "failed"}}
	var ps []pending
	i := 0
	for qr := 0; qr < 2; qr++ {
		for op := 0; op < 16; op++ {
			for code := 0; code < 27; code++ {
				for edns := 0; edns < 2; edns++ {
					msg := &dns.Msg{}
					msg.Id = uint16(0x4000 + i)
					msg.Response = qr == 1
					msg.Opcode = op
					msg.RecursionDesired = i%2 == 0
					for k := 0; k < code%3; k++ {
						msg.Question = append(msg.Question, dns.Question{Name: []string{"Grid.Example.", "second.example."}[k], Qtype: 1, Qclass: 1})
					}
					for k := 0; k < code/3%3; k++ {
						msg.Answer = append(msg.Answer, &dns.SOA{Hdr: dns.RR_Header{Name: "example.", Rrtype: dns.TypeSOA, Class: 1}, Ns: "ns.example.", Mbox: "m.example."})
					}
					for k := 0; k < code/9; k++ {
						msg.Ns = append(msg.Ns, &dns.NS{Hdr: dns.RR_Header{Name: "example.", Rrtype: dns.TypeNS, Class: 1}, Ns: "ns.example."})
					}
					if edns == 1 {
						msg.SetEdns0(1232, false)
					}
					b, err := msg.Pack()
					hlib.Must(err)
					if o.Thorough() {
						for _, oc := range outs {
							runCase(e, r, b, "grid", oc, 1+i%9, &ps)
						}
					} else {
						runCase(e, r, b, "grid", outs[i%len(outs)], 1+i%9, &ps)
					}
					i++
				}
			}
		}
	}
	flush(r, m, ps)
	r.Notes = append(r.Notes, "wire grid qr x opcode 0..15 x (qd,an,ns) in 0..2 x EDNS sent through every transport")
}

// acceptCampaign enumerates the whole decision table of acceptMsg.
func acceptCampaign(r *hlib.Result, m *hlib.Model) {
	var lines, reals []string
	for qr := 0; qr < 2; qr++ {
		for op := 0; op < 16; op++ {
			for nq := 0; nq < 4; nq++ {
				for na := 0; na < 4; na++ {
					for nn := 0; nn < 4; nn++ {
						msg := &dns.Msg{}
						msg.Response = qr == 1
						msg.Opcode = op
						msg.Question = make([]dns.Question, nq)
						msg.Answer = make([]dns.RR, na)
						msg.Ns = make([]dns.RR, nn)
						got := dnsserver.VerifC01AcceptMsg(msg)
						name := map[dns.MsgAcceptAction]string{dns.MsgAccept: "accept", dns.MsgReject: "formerr",
							dns.MsgIgnore: "ignore", dns.MsgRejectNotImplemented: "notimp"}[got]
						want := map[string]string{"ok": "accept", "response": "ignore", "opcode": "notimp", "counts": "formerr"}[classify(msg)]
						if name != want {
							r.Violate("accept-table", fmt.Sprintf("acceptMsg(qr=%d opcode=%d nq=%d nan=%d nns=%d) = %s, the property says %s", qr, op, nq, na, nn, name, want), nil)
						}
						lines = append(lines, fmt.Sprintf("accept %d %d %d %d %d", qr, op, nq, na, nn))
						reals = append(reals, name)
						r.Count("accept:" + name)
						r.Case(lines[len(lines)-1], name != "accept")
					}
				}
			}
		}
	}
	for i, a := range m.Batch(lines) {
		if a != reals[i] {
			r.Disagree("accept", fmt.Sprintf("%s: model %s implementation %s", lines[i], a, reals[i]), lines[i])
		}
	}
	r.ModelOps += len(lines)
	r.Traces += len(lines)
	r.Exhaustive = true
	r.Notes = append(r.Notes, "acceptMsg decision table enumerated exhaustively for qr x opcode 0..15 x section counts 0..3")
}

// jsonRRs renders the records of a JSON answer; jsonWant renders what they must
// be for rrs: owner, type, class, TTL and the presentation format of the data.
// firstSeg is the harness's own reading of a rooted URL path: its first element
// after dropping empty and "." elements and resolving "..".
func firstSeg(p string) string {
	var st []string
	for _, el := range strings.Split(p, "/") {
		switch el {
		case "", ".":
		case "..":
			if len(st) > 0 {
				st = st[:len(st)-1]
			}
		default:
			st = append(st, el)
		}
	}
	if len(st) == 0 {
		return ""
	}

	return st[0]
}

// dohFrontCampaign drives the HTTP front end of the wire-format DoH path with
// whole HTTP requests: URL paths (canonical, with a device id, unclean, the
// suffix forms isDoH also takes, foreign ones), methods, every shape of the
// `dns` parameter, bodies, and every form of client address.
func dohFrontCampaign(o *hlib.Opts, r *hlib.Result, m *hlib.Model, e *env) {
	rng := o.Rand("dohfront")
	n := 2500
	if o.Thorough() {
		n = 80000
	}
	paths := []string{"/dns-query", "/dns-query", "/dns-query", "/dns-query/", "/dns-query/dev1234", "//dns-query", "/./dns-query",
		"/x/../dns-query", "/dns-query/../dns-query/abc", "/query", "/y", "/-query", "/", "/dns", "/dns-queryx", "/xdns-query", "/DNS-QUERY",
		"/foo/dns-query", "/dns-query/..", "/../dns-query", "/dns%2Dquery", "/uery/dns-query"}
	meths := []string{"GET", "GET", "GET", "POST", "POST", "POST", "PUT", "HEAD", "DELETE", "OPTIONS", "PATCH", "get"}
	var ps []pending
	for i := 0; i < n; i++ {
		b, kind := genWire(rng, r)
		if rng.IntN(4) > 0 {
			for kind != "wellformed" {
				b, kind = genWire(rng, r)
			}
		}
		oc := genOutcome(rng)
		pth, meth := pick(rng, paths), pick(rng, meths)
		rem := remotes[rng.IntN(len(remotes))]
		// The dns parameter.
		good := base64.RawURLEncoding.EncodeToString(b)
		type dv struct {
			raw string
			dec []byte
			ok  bool
		}
		var dns []dv
		form := "one"
		switch x := rng.IntN(16); {
		case x < 9:
			dns = []dv{{good, b, true}}
		case x == 9:
			form = "absent"
		case x == 10:
			dns, form = []dv{{good, b, true}, {good, b, true}}, "two"
		case x == 11:
			dns, form = []dv{{good + "=", nil, false}}, "padded"
			if len(b)%3 == 0 {
				dns, form = []dv{{good + "====", nil, false}}, "padded"
			}
		case x == 12:
			std := base64.RawStdEncoding.EncodeToString(b)
			dns, form = []dv{{std, b, std == good}}, "std-alphabet"
		case x == 13:
			dns, form = []dv{{"", []byte{}, true}}, "empty-value"
		case x == 14:
			dns, form = []dv{{"!!!not base64!!!", nil, false}}, "garbage"
		default:
			dns, form = []dv{{good[:len(good)/2], nil, false}}, "cut"
			if dec, err := base64.RawURLEncoding.DecodeString(good[:len(good)/2]); err == nil {
				dns[0].dec, dns[0].ok = dec, true
			}
		}
		r.Count("dohfront:dns-" + form)
		q := url.Values{}
		for _, d := range dns {
			q.Add("dns", d.raw)
		}
		var body []byte
		if meth == "POST" || rng.IntN(4) == 0 {
			body = b
		}
		req := httptest.NewRequest(strings.ToUpper(meth), "https://dns.example/x", bytes.NewReader(body))
		req.Method = meth
		req.URL.Path, req.URL.RawPath, req.URL.RawQuery = pth, "", q.Encode()
		req.RemoteAddr = rem.text
		if rng.IntN(2) == 0 {
			req.Header.Set("Content-Type", pick(rng, []string{dnsserver.MimeTypeDoH, "text/plain", "application/json"}))
		}
		w := httptest.NewRecorder()
		e.h.set(oc)
		e.h.adv.begin()
		hung, pv := guard(60*time.Second, func() { e.hh.ServeHTTP(w, req) })
		if hung {
			e.reset()
		}
		_, damaged := e.h.adv.settle()
		calls := e.h.calls.Load()
		ci := map[string]any{"transport": "doh", "method": meth, "path": pth, "query": req.URL.RawQuery, "body_hex": hex.EncodeToString(body),
			"remote_addr": rem.text, "handler_outcome": oc.String(), "status": w.Code, "body_len": w.Body.Len()}
		if hung || pv != nil {
			r.Violate("panic-doh", fmt.Sprintf("doh: the HTTP handler panicked or hung on this request: %v", pv), ci)

			continue
		}
		// What reaches Unpack, by the harness's own reading of the request.
		seg := firstSeg(pth)
		canonical := seg == "dns-query"
		foreign := !strings.HasSuffix("/dns-query", seg) && !strings.HasSuffix("/resolve", seg) || seg == ""
		var front []byte
		reaches := false
		switch meth {
		case "GET":
			if len(dns) == 1 && dns[0].ok {
				front, reaches = dns[0].dec, true
			}
		case "POST":
			front, reaches = body, true
		}
		t := "dohpost"
		if meth == "GET" {
			t = "dohget"
		}
		var ss sees
		ss.status, ss.remote, ss.zoned, ss.damaged = w.Code, rem.text, rem.zoned, damaged
		if w.Code == http.StatusOK {
			if w.Body.Len() == 0 {
				ss.emptyOK = true
			} else {
				unpackAll([][]byte{w.Body.Bytes()}, &ss)
			}
		}
		r.Count("dohfront:remote-zoned-" + b2s(rem.zoned))
		// Oracle.
		switch {
		case foreign:
			r.Count("dohfront:foreign-path")
			if w.Code != http.StatusNotFound || calls != 0 {
				r.Violate("doh-foreign-path-served", fmt.Sprintf("doh: a request for %q, which is not a DNS path, gave HTTP %d and %d handler call(s); documented is 404", pth, w.Code, calls), ci)
			}
		case canonical && reaches:
			r.Count("dohfront:served-" + meth)
			treq := unpackOrNil(front)
			checkUnpackContract(r, front, treq)
			oracle(r, t, front, treq, oc, true, ss, calls)
		case canonical:
			r.Count("dohfront:bad-request")
			if w.Code != http.StatusBadRequest || calls != 0 || len(ss.msgs) != 0 {
				r.Violate("doh-bad-request-served", fmt.Sprintf("doh: %s with dns parameter %q (%s) gave HTTP %d, %d handler call(s); documented is 400", meth, q["dns"], form, w.Code, calls), ci)
			}
		default:
			// A suffix of the well-known path ("/query", "/y"): the code serves it;
			// only the model comparison and the foreign-answer rule apply.
			r.Count("dohfront:suffix-path")
			if reaches {
				treq := unpackOrNil(front)
				for _, mm := range ss.msgs {
					if treq == nil || len(front) >= 2 && mm.Id != binary.BigEndian.Uint16(front) {
						r.Violate("foreign-id-doh", "doh: response with another id", ci)
					}
				}
			}
		}
		// Model line.
		var toks []string
		for _, d := range dns {
			switch {
			case !d.ok:
				toks = append(toks, "bad")
			case len(d.dec) == 0:
				toks = append(toks, "-")
			default:
				toks = append(toks, hex.EncodeToString(d.dec))
			}
		}
		mo := oc
		line := fmt.Sprintf("doh 1 %s %s %s %d %s ; %s", hex.EncodeToString([]byte(pth)), meth, b2s(rem.zoned), len(dns), strings.Join(toks, " "),
			frameArgs(body, unpackOrNil(front), mo))
		line = strings.Join(strings.Fields(line), " ")
		parts := make([]string, 0, len(ss.msgs))
		for _, mm := range ss.msgs {
			parts = append(parts, canonResp(mm))
		}
		real := fmt.Sprintf("%d %d ", w.Code, len(ss.msgs)) + strings.Join(parts, " ")
		ps = append(ps, pending{line: line, real: real, ci: caseInfo{Transport: "doh-front", WireHex: hex.EncodeToString(front), Outcome: oc.String(), WriteOK: true,
			Observed: real, Remote: rem.text, Delivery: meth + " " + pth + "?" + req.URL.RawQuery}})
		r.Case(fmt.Sprintf("%s %s %s %s %s", meth, pth, form, hex.EncodeToString(b), oc), true)
		r.Traces++
		if len(ps) > 2000 {
			flush(r, m, ps)
			ps = ps[:0]
		}
	}
	flush(r, m, ps)
}


// dnscryptE2ECampaign runs the real DNSCrypt server (ServerDNSCrypt around the
// ameshkov/dnscrypt library, loopback sockets) and judges what a client
// decrypts for arbitrary octets sent as an encrypted query: the library's own
// filter (does not unpack / is a response / not exactly one question => dropped)
// sits in front of dnsCryptHandler.ServeDNS.
func dnscryptE2ECampaign(o *hlib.Opts, r *hlib.Result, m *hlib.Model, e *env) {
	rng := o.Rand("dce2e")
	n := 150
	if o.Thorough() {
		n = 1500
	}
	rc, err := dnscrypt.GenerateResolverConfig("example.org", nil)
	if err != nil {
		r.Count("dce2e:skipped-setup")

		return
	}
	cert, err := rc.CreateCert()
	if err != nil {
		r.Count("dce2e:skipped-setup")

		return
	}
	priv, _ := dnscrypt.HexDecodeKey(rc.PrivateKey)
	pk := ed25519.PrivateKey(priv).Public().(ed25519.PublicKey)
	var s *dnsserver.ServerDNSCrypt
	for i := 0; i < 30; i++ {
		s = dnsserver.NewServerDNSCrypt(dnsserver.ConfigDNSCrypt{ConfigBase: dnsserver.ConfigBase{Name: "c01-e2e", Addr: "127.0.0.1:0", Handler: e.h, Disposer: e.h.adv},
			DNSCryptProviderName: "example.org", DNSCryptResolverCert: cert})
		if err = s.Start(context.Background()); err == nil {
			break
		}
	}
	if err != nil {
		r.Count("dce2e:skipped-no-listener")

		return
	}
	defer func() { _ = s.Shutdown(context.Background()) }()
	uaddr, taddr := s.LocalUDPAddr().String(), s.LocalTCPAddr().String()
	var ri *dnscrypt.ResolverInfo
	for i := 0; i < 3 && ri == nil; i++ {
		cl := &dnscrypt.Client{Net: "udp", Timeout: 3 * time.Second, UDPSize: 4096}
		ri, err = cl.DialStamp(dnsstamps.ServerStamp{ServerAddrStr: uaddr, ServerPk: pk, ProviderName: "example.org", Proto: dnsstamps.StampProtoTypeDNSCrypt})
	}
	if ri == nil {
		r.Count("dce2e:skipped-no-certificate")

		return
	}
	encrypt := func(wire []byte) []byte {
		q := dnscrypt.EncryptedQuery{EsVersion: ri.ResolverCert.EsVersion, ClientMagic: ri.ResolverCert.ClientMagic, ClientPk: ri.PublicKey}
		enc, eerr := q.Encrypt(wire, ri.SharedKey)
		if eerr != nil {
			return nil
		}

		return enc
	}
	decrypt := func(raw []byte) *dns.Msg {
		dr := dnscrypt.EncryptedResponse{EsVersion: ri.ResolverCert.EsVersion}
		plain, derr := dr.Decrypt(raw, ri.SharedKey)
		if derr != nil {
			return nil
		}

		return unpackOrNil(plain)
	}
	sentinel := &dns.Msg{}
	sentinel.SetQuestion("sentinel"+nestedSuffix, dns.TypeA)
	sentinel.Id = 0x5e47
	sentinelWire, _ := sentinel.Pack()
	isSentinel := func(mm *dns.Msg) bool {
		return len(mm.Question) == 1 && strings.HasSuffix(mm.Question[0].Name, nestedSuffix)
	}
	// stalls counts the cases that ended in the full time-out because the
	// sentinel's own answer never came (it is a well-formed query: on a healthy
	// server it always does).
	stalls := 0
	// udp sends the case datagram and then a sentinel query; whatever arrives
	// before (or shortly after) the sentinel's answer is the case's response.
	udp := func(enc []byte, patient bool) (msgs []*dns.Msg, garbage int) {
		c, derr := net.Dial("udp", uaddr)
		if derr != nil {
			return nil, 0
		}
		defer c.Close()
		_, _ = c.Write(enc)
		if patient {
			_ = c.SetReadDeadline(time.Now().Add(4 * time.Second))
			buf := make([]byte, 70000)
			if k, rerr := c.Read(buf); rerr == nil {
				if mm := decrypt(buf[:k]); mm != nil {
					msgs = append(msgs, mm)
				} else {
					garbage++
				}
			}
		}
		_, _ = c.Write(encrypt(sentinelWire))
		seen := false
		for {
			wait := 3 * time.Second
			if seen {
				wait = 40 * time.Millisecond
			}
			_ = c.SetReadDeadline(time.Now().Add(wait))
			buf := make([]byte, 70000)
			k, rerr := c.Read(buf)
			if rerr != nil {
				if !seen {
					stalls++
				}

				return msgs, garbage
			}
			mm := decrypt(buf[:k])
			switch {
			case mm == nil:
				garbage++
			case isSentinel(mm):
				seen = true
			default:
				msgs = append(msgs, mm)
			}
		}
	}
	tcp := func(enc []byte) (msgs []*dns.Msg, garbage int, status int) {
		c, derr := net.Dial("tcp", taddr)
		if derr != nil {
			return nil, 0, -1
		}
		defer c.Close()
		fr := make([]byte, 2+len(enc))
		binary.BigEndian.PutUint16(fr, uint16(len(enc)))
		copy(fr[2:], enc)
		_, _ = c.Write(fr)
		// A second frame shows whether the connection is still served.
		s2 := encrypt(sentinelWire)
		fr2 := make([]byte, 2+len(s2))
		binary.BigEndian.PutUint16(fr2, uint16(len(s2)))
		copy(fr2[2:], s2)
		_, _ = c.Write(fr2)
		status = stClosed
		for {
			_ = c.SetReadDeadline(time.Now().Add(4 * time.Second))
			var l [2]byte
			if _, rerr := io.ReadFull(c, l[:]); rerr != nil {
				if ne, ok := rerr.(net.Error); ok && ne.Timeout() {
					stalls++
				}

				return msgs, garbage, status
			}
			raw := make([]byte, binary.BigEndian.Uint16(l[:]))
			if _, rerr := io.ReadFull(c, raw); rerr != nil {
				return msgs, garbage + 1, status
			}
			mm := decrypt(raw)
			switch {
			case mm == nil:
				garbage++
			case isSentinel(mm):
				return msgs, garbage, stOpen
			default:
				msgs = append(msgs, mm)
			}
		}
	}
	var ps []pending
	for i := 0; i < n; i++ {
		if stalls >= 4 || overBudget(o, r) {
			// Every further case would wait for the whole time-out as well.
			r.Count("dce2e:ended-early")
			r.Notes = append(r.Notes, fmt.Sprintf("DNSCrypt end to end: ended after %d of %d cases: the sentinel query that follows every case went without an answer of its own %d times (see the violations)", i, n, stalls))

			break
		}
		b, kind := genWire(rng, r)
		if len(b) > 1200 {
			continue
		}
		oc := genOutcome(rng)
		if oc.kind == "wrotefailed" {
			oc = outcome{kind: "wrote", rcode: 0, n: 1}
		}
		req := unpackOrNil(b)
		libDrops := req == nil || req.Response || len(req.Question) != 1
		enc := encrypt(b)
		if enc == nil {
			continue
		}
		for _, t := range []string{"dcudp", "dctcp"} {
			e.h.set(oc)
			e.h.adv.begin()
			var ss sees
			if t == "dcudp" {
				ss.status = stNone
				ss.msgs, ss.garbage = udp(enc, false)
				if !libDrops && len(ss.msgs) == 0 {
					// An answer is due: ask again, patiently, before judging.
					e.h.set(oc)
					ss.msgs, ss.garbage = udp(enc, true)
				}
			} else {
				ss.msgs, ss.garbage, ss.status = tcp(enc)
			}
			_, ss.damaged = e.h.adv.settle()
			calls := e.h.calls.Load()
			ss.remote = "127.0.0.1"
			r.Count("dce2e:" + t + ":" + map[bool]string{true: "library-drops", false: "reaches-handler"}[libDrops])
			r.Count("dce2e:wire-" + kind)
			ci := caseInfo{Transport: t + " (end to end)", WireHex: hex.EncodeToString(b), Outcome: oc.String(), WriteOK: true, Observed: canonShort(ss)}
			if libDrops {
				if len(ss.msgs) != 0 || calls != 0 || ss.garbage != 0 {
					r.Violate("dnscrypt-unacceptable-answered", fmt.Sprintf("%s end to end: octets that do not decode, a response, or a message without exactly one question elicited %d message(s), %d handler call(s)",
						t, len(ss.msgs), calls), ci)
				}
				for _, mm := range ss.msgs {
					if len(b) >= 2 && mm.Id != binary.BigEndian.Uint16(b) {
						r.Violate("foreign-id-"+t, t+" end to end: response with another id", ci)
					}
				}
			} else {
				oracle(r, t, b, req, oc, true, ss, calls)
			}
			real := strings.TrimSpace(canonShort(ss))
			real = strings.TrimSpace(strings.TrimPrefix(real, "/"))
			ps = append(ps, pending{line: fmt.Sprintf("dce2e %s %s", t, frameArgs(b, req, oc)), real: real, ci: ci})
			r.Traces++
		}
		r.Case("dce2e "+hex.EncodeToString(b)+" "+oc.String(), true)
	}
	flush(r, m, ps)
}


func jsonRRs(as []dnsserver.JSONAnswer) string {
	parts := make([]string, 0, len(as))
	for _, a := range as {
		parts = append(parts, fmt.Sprintf("%s %d %d %d %s", a.Name, a.Type, a.Class, a.TTL, a.Data))
	}

	return strings.Join(parts, ";")
}

func jsonWant(rrs []dns.RR) string {
	parts := make([]string, 0, len(rrs))
	for _, rr := range rrs {
		h := rr.Header()
		data := strings.TrimLeft(strings.TrimPrefix(rr.String(), h.String()), " ")
		parts = append(parts, fmt.Sprintf("%s %d %d %d %s", h.Name, h.Rrtype, h.Class, h.Ttl, data))
	}

	return strings.Join(parts, ";")
}

// jsonCampaign drives the JSON API.
func jsonCampaign(o *hlib.Opts, r *hlib.Result, m *hlib.Model, e *env) {
	rng := o.Rand("json")
	n := 4000
	if o.Thorough() {
		n = 150000
	}
	type jp struct {
		line, real string
		ci         any
	}
	var ps []jp
	for i := 0; i < n; i++ {
		name := pick(rng, []string{"example.org", "ExAmPlE.oRg.", "a", "www.Example.COM", "example.org", "EXAMPLE.org", "b.example", "", "a..b", strings.Repeat("a", 64) + ".example",
			strings.Repeat("a", 63) + "." + strings.Repeat("B", 63) + "." + strings.Repeat("c", 63) + "." + strings.Repeat("D", 61), "."})
		if rng.IntN(4) == 0 {
			name = strings.TrimSuffix(genName(rng), ".")
			if strings.ContainsAny(name, `\`) || name == "" {
				name = "plain.example"
			}
		}
		typ := pick(rng, []string{"", "", "", "A", "A", "aaaa", "AAAA", "28", "0", "65535", "ANY", "txt", "1", "16", "255",
			"65536", "-1", "NOPE", "TYPE99",
			// unusual spellings of numbers: decimal only, leading zeros allowed, nothing else
			"010", "0028", "00001", "065535", "0x1c", "0X10", "0b11", "0o17", "1_0", "+1", " 1", "1 ", "1e1", "1.0", "\u0661"})
		qc := pick(rng, []string{"", "", "", "", "", "IN", "in", "ch", "1", "255", "0", "65535", "70000", "XX", "01", "0x1", "003", "1_"})
		bp := []string{"", "", "", "", "", "", "1", "0", "true", "false", "True", "False", "1", "0", "yes", "TRUE"}
		cd, do, sde := pick(rng, bp), pick(rng, bp), pick(rng, bp)
		oc := genOutcome(rng)
		q := url.Values{}
		add := func(k, v string) {
			if v != "" || rng.IntN(6) == 0 {
				q.Set(k, v)
			}
		}
		add("name", name)
		add("type", typ)
		add("qc", qc)
		add("cd", cd)
		add("do", do)
		add("sde", sde)
		// One request in four asks for the answer in wire format.
		ct := rng.IntN(4) == 0
		if ct {
			q.Set("ct", dnsserver.MimeTypeDoH)
		}
		// The request around the parameters: path (canonical, unclean, with a
		// trailing element, a suffix form, foreign), method, client address.
		pth, meth := "/resolve", http.MethodGet
		rem := remotes[rng.IntN(len(remotes))]
		if !ct && rng.IntN(3) == 0 {
			pth = pick(rng, []string{"/resolve/", "//resolve", "/resolve/x", "/./resolve", "/solve", "/e", "/resolved", "/RESOLVE", "/x/../resolve"})
			meth = pick(rng, []string{"GET", "POST", "PUT", "HEAD"})
		}
		req := httptest.NewRequest(meth, "https://dns.example/x", nil)
		req.URL.Path, req.URL.RawQuery = pth, q.Encode()
		req.RemoteAddr = rem.text
		jseg := firstSeg(pth)
		jsonForeign := !strings.HasSuffix("/resolve", jseg)
		jsonQuirk := !jsonForeign && jseg != "resolve"
		r.Count("json:path-" + map[bool]string{true: "foreign", false: map[bool]string{true: "suffix", false: "canonical"}[jsonQuirk]}[jsonForeign])
		w := httptest.NewRecorder()
		e.h.set(oc)
		e.h.adv.begin()
		hung, pv := guard(60*time.Second, func() { e.hh.ServeHTTP(w, req) })
		if hung {
			pv = "no completion within 10 s"
			e.reset()
		}
		nDisp, damaged := e.h.adv.settle()
		ci := map[string]any{"transport": "dohjson", "method": meth, "url": req.URL.String(), "remote_addr": rem.text, "handler_outcome": oc.String(), "status": w.Code}
		if w.Code == http.StatusOK && w.Body.Len() == 0 {
			sig := "doh-empty-200"
			if rem.zoned {
				sig = "doh-zoned-client-unanswered"
			}
			r.Violate(sig, fmt.Sprintf("JSON API: the request of the client %s got an empty HTTP 200: the handler returned without writing (recovered panic in httpHandler.remoteAddr on a zoned address?)", rem.text), ci)

			continue
		}
		if damaged != "" {
			r.Violate("concurrent-response-damaged-dohjson", "JSON API: serving this request with the Disposer's pools shared (production set-up): "+damaged+
				" - a response was disposed of twice or written to after its disposal", ci)
		}
		if pv != nil {
			r.Violate("panic-dohjson", fmt.Sprintf("panic escaped: %v", pv), ci)

			continue
		}
		// Parameter classification (the mnemonic tables are miekg's).
		num := func(s string, tbl map[string]uint16) string {
			if s == "" {
				return "-"
			}
			if v, err := strconv.ParseUint(s, 10, 16); err == nil {
				return strconv.Itoa(int(v))
			}
			if v, ok := tbl[strings.ToUpper(s)]; ok {
				return strconv.Itoa(int(v))
			}

			return "bad"
		}
		bl := func(s string) string {
			switch s {
			case "":
				return "-"
			case "1", "true", "True":
				return "1"
			case "0", "false", "False":
				return "0"
			}

			return "bad"
		}
		fq := dns.Fqdn(name)
		nameBad := name == ""
		if !nameBad {
			probe := &dns.Msg{Question: []dns.Question{{Name: fq, Qtype: 1, Qclass: 1}}}
			if _, err := probe.Pack(); err != nil {
				nameBad = true
			}
		}
		tTok, cTok, cdTok, doTok, sdeTok := num(typ, dns.StringToType), num(qc, dns.StringToClass), bl(cd), bl(do), bl(sde)
		var jm dnsserver.JSONMsg
		real := ""
		bad := nameBad || tTok == "bad" || cTok == "bad" || cdTok == "bad" || doTok == "bad" || sdeTok == "bad"
		id := 7
		if ct && w.Code == http.StatusOK {
			// Wire-format answer: bring it into the shape of the JSON members, so
			// that the oracle below applies to both encodings.
			wm := unpackOrNil(w.Body.Bytes())
			if wm == nil {
				r.Violate("garbled-response-dohjson", "JSON API with ct=application/dns-message returned a body that is not a DNS message", ci)

				continue
			}
			// The server invents the id of a JSON API query.
			id = int(wm.Id)
			jm = *dnsserver.DNSMsgToJSONMsg(wm)
			if len(wm.Question) == 1 && int(wm.Question[0].Qclass) != tokNum(cTok, 1) {
				r.Violate("json-answer-differs", fmt.Sprintf("JSON API (wire answer): question class %d, asked %s", wm.Question[0].Qclass, cTok), ci)
			}
			real = "200 1 " + canonResp(wm)
			r.Count("json:wire-answer")
		}
		line := fmt.Sprintf("json %s %d %s %s %s %s %s %s %s %s", b2s(ct), id, b2s(nameBad), hexName(fq), tTok, cTok, cdTok, doTok, sdeTok, oc)
		viaReq := !ct && (pth != "/resolve" || meth != http.MethodGet || rem.zoned)
		if viaReq {
			line = fmt.Sprintf("jsonreq 1 %s %s %d %s %s %s %s %s %s %s %s", hex.EncodeToString([]byte(pth)), b2s(rem.zoned), id, b2s(nameBad), hexName(fq), tTok, cTok, cdTok, doTok, sdeTok, oc)
		}
		if real != "" {
			// Rendered above.
		} else if w.Code == http.StatusOK {
			if err := json.Unmarshal(w.Body.Bytes(), &jm); err != nil {
				r.Violate("garbled-response-dohjson", "JSON API returned a body that is not a JSONMsg: "+err.Error(), ci)

				continue
			}
			qs := make([]string, 0, len(jm.Question))
			for _, q := range jm.Question {
				qs = append(qs, fmt.Sprintf("%s %d", hexName(q.Name), q.Type))
			}
			real = fmt.Sprintf("200 1 | %d %s %s %d %s %d", jm.Status, b2s(jm.RecursionDesired), b2s(jm.CheckingDisabled),
				len(jm.Question), strings.Join(qs, " "), len(jm.Answer))
		} else {
			real = fmt.Sprintf("%d 0 ", w.Code)
		}
		if !viaReq {
			real += fmt.Sprintf(" d%d", nDisp)
		}
		ps = append(ps, jp{line: line, real: real, ci: ci})
		if jsonForeign {
			if w.Code != http.StatusNotFound || e.h.calls.Load() != 0 {
				r.Violate("doh-foreign-path-served", fmt.Sprintf("JSON API: a request for %q, which is not a DNS path, gave HTTP %d; documented is 404", pth, w.Code), ci)
			}
			r.Case(line, true)
			r.Traces++

			continue
		}
		if jsonQuirk {
			r.Case(line, true)
			r.Traces++

			continue
		}
		// Oracle.
		calls := e.h.calls.Load()
		r.Count(fmt.Sprintf("json:http%d", w.Code))
		switch {
		case bad:
			if w.Code != http.StatusBadRequest || calls != 0 {
				r.Violate("json-bad-param-accepted", fmt.Sprintf("JSON API: invalid parameter gave HTTP %d (handler calls %d), documented is 400", w.Code, calls), ci)
			}
		case oc.kind == "silent":
			if w.Code != http.StatusInternalServerError {
				r.Violate("silent-treatment-dohjson", fmt.Sprintf("JSON API: unanswered query gave HTTP %d", w.Code), ci)
			}
		case oc.kind == "wrote" || oc.kind == "failed":
			wantRc, wantN := oc.rcode, oc.n
			if oc.kind == "failed" {
				wantRc, wantN = dns.RcodeServerFailure, 0
			}
			wantT := uint16(1)
			if tTok != "-" {
				v, _ := strconv.Atoi(tTok)
				wantT = uint16(v)
			}
			if w.Code != http.StatusOK || calls != 1 || jm.Status != wantRc || len(jm.Answer) != wantN || len(jm.Question) != 1 ||
				jm.Question[0].Name != fq || jm.Question[0].Type != wantT {
				r.Violate("json-answer-differs", fmt.Sprintf("JSON API: HTTP %d status %d answers %d question %v; want rcode %d, %d answers, question %s/%d",
					w.Code, jm.Status, len(jm.Answer), jm.Question, wantRc, wantN, fq, wantT), ci)
			} else if got, want := jsonRRs(jm.Answer), jsonWant(answersFor(&dns.Msg{Question: []dns.Question{{Name: fq}}}, wantN)); got != want {
				r.Violate("json-answer-differs", fmt.Sprintf("JSON API: answer records %q, the pipeline produced %q", got, want), ci)
			}
		}
		r.Case(line, bad || oc.kind != "wrote")
		r.Traces++
	}
	lines := make([]string, len(ps))
	for i, p := range ps {
		lines[i] = p.line
	}
	for i, a := range m.Batch(lines) {
		if strings.TrimSpace(a) != strings.TrimSpace(ps[i].real) {
			r.Disagree("json", fmt.Sprintf("model %q, implementation %q for %q", a, ps[i].real, ps[i].line), ps[i].ci)
		}
	}
	r.ModelOps += len(lines)
}

// quicFrameCampaign: readQUICMsg hands Unpack exactly the bytes of its own
// stream - whatever the pooled buffer held, however the stream's octets were cut
// into Read results and however the stream ended after them.
func quicFrameCampaign(o *hlib.Opts, r *hlib.Result, m *hlib.Model, e *env) {
	rng := o.Rand("quicframe")
	n := 4000
	if o.Thorough() {
		n = 150000
	}
	var lines []string
	type obs struct {
		msg *dns.Msg
		ci  any
	}
	var reals []obs
	ctx := context.Background()
	one := func(stream []byte, kind string, end int) {
		d := genDelivery(rng, stream, end)
		// Poison the pooled buffer, then read the stream under test.
		var got *dns.Msg
		hung, pv := guard(60*time.Second, func() {
			_, _ = e.doq.VerifC01ReadQUICMsg(ctx, streamOf(prefixed(poison)))
			var err error
			got, err = e.doq.VerifC01ReadQUICMsg(ctx, &fakeStream{reads: d.reads})
			if err != nil {
				got = nil
			}
		})
		shown := hex.EncodeToString(stream)
		if len(shown) > 600 {
			shown = shown[:600] + fmt.Sprintf("… (%d octets; zero padding up to the end)", len(stream))
		}
		ci := map[string]any{"transport": "doq-framing", "previous_stream_hex": hex.EncodeToString(prefixed(poison))[:80] + "…",
			"stream_hex": shown, "kind": kind, "delivery": d.String()}
		if hung || pv != nil {
			r.Violate("panic-doq", fmt.Sprintf("DoQ framing: reader hung=%v panic=%v", hung, pv), ci)
			if hung {
				e.reset()
			}

			return
		}
		// Oracle: the decoded message is a function of the stream's own bytes, and
		// a stream that carries exactly one length-prefixed message decodes to it.
		var own *dns.Msg
		framed := len(stream) >= 12 && int(binary.BigEndian.Uint16(stream)) == len(stream)-2
		if framed {
			own = unpackOrNil(stream[2:])
		}
		switch {
		case len(stream) > doqBuf && !framed:
			// More octets than the server has room for and not one message: all the
			// property asks is that what the server decodes, if anything, is the
			// message the length prefix delimits.
			if l := int(binary.BigEndian.Uint16(stream)); got != nil {
				if want := unpackOrNil(stream[2:min(2+l, len(stream))]); want == nil || want.String() != got.String() {
					r.Violate("doq-frame-not-own-bytes", "DoQ framing: the server decoded something else than the message the stream's length prefix delimits", ci)
				}
			}
		case own != nil && got == nil && len(stream)-2 > doqLegacyRoom:
			r.Violate("doq-max-size-query-rejected", fmt.Sprintf("DoQ framing: a stream carrying one well-formed message of %d octets is refused: the read buffer has to hold the 2-octet length prefix "+
				"as well as a message of up to %d octets; with quicBytePoolSize = dns.MaxMsgSize messages longer than %d octets never fit (TCP, DoT and DoH take them)", len(stream)-2, dns.MaxMsgSize, doqLegacyRoom), ci)
		case own != nil && got == nil && strings.Contains(d.class, "reset"):
			// The client cancelled the stream: not decoding it is not against the property.
		case (own == nil) != (got == nil):
			r.Violate("doq-frame-not-own-bytes", fmt.Sprintf("DoQ framing: stream decodes=%v from its own bytes but the server decoded=%v", own != nil, got != nil), ci)
		case own != nil && own.String() != got.String():
			r.Violate("doq-frame-not-own-bytes", fmt.Sprintf("DoQ framing: server decoded %q, the stream's own bytes say %q", got.String(), own.String()), ci)
		}
		r.Count("quicframe:" + kind)
		for _, part := range strings.Split(d.class, ",") {
			r.Count("quicframe-delivery:" + part)
		}
		lines = append(lines, "quicread -"+d.modelArgs())
		reals = append(reals, obs{msg: got, ci: ci})
		r.Case(lines[len(lines)-1], kind != "wellformed")
	}
	for i := 0; i < n; i++ {
		b, kind := genWire(rng, r)
		stream := prefixed(b)
		switch rng.IntN(8) {
		case 0:
			if len(stream) > 2 {
				stream = stream[:2+rng.IntN(len(stream)-2)]
				kind = "fin-early"
			}
		case 1:
			stream = append(stream, byte(rng.IntN(256)))
			kind = "extra-byte"
		case 2:
			if len(b) >= 12 {
				stream = prefixed(b[:12])
				kind = "header-only"
			}
		}
		one(stream, kind, -1)
	}
	// The size boundaries of the pooled read buffer - the largest message a prefix
	// can announce, which fills it exactly, and the sizes around the 65533 octets
	// that were all the buffer had room for before the fix - each with every
	// ending; and streams that go on beyond the message or the buffer.
	reps := 1
	if o.Thorough() {
		reps = 10
	}
	for rep := 0; rep < reps; rep++ {
		for _, sz := range []int{doqLegacyRoom - 1, doqLegacyRoom, doqLegacyRoom + 1, dns.MaxMsgSize} {
			stream := prefixed(paddedQuery(rng, sz))
			for end := 0; end < 5; end++ {
				one(stream, fmt.Sprintf("padded-to-%d", sz), end)
			}
		}
		one(append(prefixed(paddedQuery(rng, doqLegacyRoom)), byte(rng.IntN(256))), "65533-octet-message-then-extra-byte", -1)
		one(append(prefixed(paddedQuery(rng, dns.MaxMsgSize)), byte(rng.IntN(256))), "full-buffer-then-extra-byte", -1)
		long := append(prefixed(paddedQuery(rng, 300+rng.IntN(300))), make([]byte, dns.MaxMsgSize)...)
		one(long, "message-then-64k-garbage", -1)
	}
	for i, a := range m.Batch(lines) {
		var mm *dns.Msg
		if a != "none" {
			pb, _ := hex.DecodeString(strings.TrimPrefix(a, "-"))
			mm = unpackOrNil(pb)
		}
		if (mm == nil) != (reals[i].msg == nil) || (mm != nil && mm.String() != reals[i].msg.String()) {
			line := lines[i]
			if len(line) > 600 {
				line = line[:600] + "…"
			}
			r.Disagree("quic-frame", fmt.Sprintf("model payload decodes differently from the implementation's message (model %d hex digits, implementation decoded=%v) for %s", len(a), reals[i].msg != nil, line), reals[i].ci)
		}
	}
	r.ModelOps += len(lines)
	r.Traces += len(lines)
}

// pipelineCampaign: several valid queries on one TCP connection, each answered
// exactly once with its own id and question, also next to rejected ones.
func pipelineCampaign(o *hlib.Opts, r *hlib.Result, e *env) {
	rng := o.Rand("pipeline")
	n := 500
	if o.Thorough() {
		n = 20000
	}
	for i := 0; i < n; i++ {
		k := 2 + rng.IntN(6)
		var in []byte
		type want struct {
			q     dns.Question
			rcode int
		}
		wants := map[uint16]want{}
		ids := rng.Perm(65536)[:k]
		for j := 0; j < k; j++ {
			msg := &dns.Msg{}
			msg.SetQuestion(genName(rng), pick(rng, qtypePool))
			msg.Id = uint16(ids[j])
			rc := 0
			switch rng.IntN(6) {
			case 0:
				msg.Opcode = dns.OpcodeStatus
				rc = dns.RcodeNotImplemented
			case 1:
				msg.Question = append(msg.Question, dns.Question{Name: "second.example.", Qtype: 1, Qclass: 1})
				rc = dns.RcodeFormatError
			}
			b, err := msg.Pack()
			if err != nil {
				continue
			}
			wants[msg.Id] = want{q: unpackOrNil(b).Question[0], rcode: rc}
			in = append(in, prefixed(b)...)
		}
		t := pick(rng, []string{"tcp", "dot"})
		c := &fakeConn{in: bytes.NewReader(in), wok: true}
		if rng.IntN(2) == 0 {
			// The pipelined stream arrives in segments that ignore the framing.
			c.steps = genSegments(rng)
		}
		e.h.set(outcome{kind: "wrote", rcode: 0, n: 1})
		ctx := context.Background()
		e.h.adv.begin()
		hung, pv := guard(60*time.Second, func() {
			if t == "tcp" {
				e.plain.VerifC01ServeTCPConn(ctx, c)
			} else {
				e.dot.VerifC01ServeTCPConn(ctx, c)
			}
		})
		var s sees
		s.disposes, s.damaged = e.h.adv.settle()
		if hung || pv != nil {
			r.Violate("hang-"+t, fmt.Sprintf("pipelined %s: connection routine hung=%v panic=%v", t, hung, pv), map[string]any{"transport": t, "stream_hex": hex.EncodeToString(in)})
			e.reset()

			continue
		}
		c.mu.Lock()
		splitPrefixed(c.out.Bytes(), &s)
		c.mu.Unlock()
		ci := map[string]any{"transport": t, "stream_hex": hex.EncodeToString(in), "observed": canonSees(s, "-"), "read_calls_return_at_most": c.steps}
		if s.damaged != "" {
			r.Violate("concurrent-response-damaged-"+t, "pipelined "+t+" with the Disposer's pools shared (production set-up): "+s.damaged, ci)
		}
		if s.disposes != len(s.msgs) {
			// Not the property (a missed disposal is only a lost allocation), but the
			// lifetime model says one disposal per response written.
			r.Disagree("dispose-count-"+t, fmt.Sprintf("pipelined %s: %d responses sent but %d given to the Disposer", t, len(s.msgs), s.disposes), ci)
		}
		seen := map[uint16]int{}
		for _, m := range s.msgs {
			seen[m.Id]++
			w, ok := wants[m.Id]
			switch {
			case !ok:
				r.Violate("foreign-id-"+t, fmt.Sprintf("pipelined %s: response with id %d that no request carried", t, m.Id), ci)
			case len(m.Question) != 1 || !sameQuestion(m.Question[0], w.q):
				r.Violate("foreign-question-"+t, fmt.Sprintf("pipelined %s: id %d answered with question %v, asked %v", t, m.Id, m.Question, w.q), ci)
			case m.Rcode != w.rcode:
				r.Violate("answer-differs-"+t, fmt.Sprintf("pipelined %s: id %d rcode %d, want %d", t, m.Id, m.Rcode, w.rcode), ci)
			case w.rcode == 0 && rrStrings(m.Answer) != rrStrings(answersFor(&dns.Msg{Question: []dns.Question{w.q}}, 1)):
				r.Violate("answer-differs-"+t, fmt.Sprintf("pipelined %s: id %d carries records %q, not the pipeline's", t, m.Id, rrStrings(m.Answer)), ci)
			}
		}
		for id := range wants {
			if seen[id] != 1 {
				r.Violate("answer-count-"+t, fmt.Sprintf("pipelined %s: id %d answered %d times", t, id, seen[id]), ci)
			}
		}
		if s.garbage > 0 || c.closes != 1 || c.lateWrites > 0 {
			r.Violate("pipeline-broken-"+t, fmt.Sprintf("pipelined %s: garbage frames %d, closes %d, writes after the server closed the connection %d", t, s.garbage, c.closes, c.lateWrites), ci)
		}
		r.Count("pipeline:" + t)
		r.Case(hex.EncodeToString(in), true)
	}
}

// truncationCampaign: answers too large for UDP are identical across transports
// up to truncation (TC set and records removed on UDP, complete elsewhere).
func truncationCampaign(o *hlib.Opts, r *hlib.Result, e *env) {
	rng := o.Rand("trunc")
	n := 150
	if o.Thorough() {
		n = 6000
	}
	for i := 0; i < n; i++ {
		msg := &dns.Msg{}
		msg.SetQuestion(genName(rng), dns.TypeA)
		msg.Id = uint16(rng.IntN(65536))
		if rng.IntN(2) == 0 {
			msg.SetEdns0(pick(rng, []uint16{512, 1232, 4096}), false)
		}
		b, err := msg.Pack()
		if err != nil {
			continue
		}
		oc := outcome{kind: "wrote", n: 20 + rng.IntN(120)}
		req := unpackOrNil(b)
		full := rrStrings(answersFor(req, oc.n))
		for _, t := range transports {
			e.h.set(oc)
			s := e.run(t, b, req, true)
			ci := caseInfo{Transport: t, WireHex: hex.EncodeToString(b), Outcome: oc.String(), WriteOK: true, Observed: canonSees(s, "-")}
			if s.damaged != "" {
				r.Violate("concurrent-response-damaged-"+t, t+": large answer with the Disposer's pools shared (production set-up): "+s.damaged, ci)
			}
			if s.hung || s.panicV != nil || len(s.msgs) != 1 {
				r.Violate("answer-count-"+t, fmt.Sprintf("%s: large answer: %d message(s), panic %v, hung %v", t, len(s.msgs), s.panicV, s.hung), ci)

				continue
			}
			m := s.msgs[0]
			if m.Id != msg.Id || len(m.Question) != 1 || !sameQuestion(m.Question[0], req.Question[0]) {
				r.Violate("foreign-question-"+t, t+": large answer with another id/question", ci)
			}
			got := rrStrings(m.Answer)
			switch {
			case m.Truncated && t != "udp" && t != "dcudp":
				r.Violate("truncated-on-stream-"+t, t+": answer truncated on a transport without the UDP size limit", ci)
			case m.Truncated && got != "":
				r.Violate("truncated-with-records-"+t, t+": TC set but records present", ci)
			case !m.Truncated && got != full:
				r.Violate("answer-differs-"+t, t+": complete answer differs from what the pipeline produced", ci)
			}
			if m.Truncated {
				r.Count("trunc:udp-truncated")
			} else {
				r.Count("trunc:complete")
			}
		}
		r.Case(hex.EncodeToString(b)+oc.String(), true)
	}
}

// udpLoopCampaign replays the UDP listener loop (`for started { err = acceptUDPMsg(); if err != nil { return } }`)
// over sequences of socket read results: datagrams (also shorter than a header,
// undecodable, rejected), timeouts and - to see the loop end when it should -
// critical read errors.  No client input may end the loop.
func udpLoopCampaign(o *hlib.Opts, r *hlib.Result, m *hlib.Model, e *env) {
	rng := o.Rand("udploop")
	n := 400
	if o.Thorough() {
		n = 30000
	}
	type item struct {
		kind string // dgram | soft | crit
		b    []byte
		oc   outcome
	}
	var lines, reals []string
	var cis []any
	ctx := context.Background()
	dummy := hlib.NewResult("C01", o)
	for i := 0; i < n; i++ {
		var items []item
		for k := 1 + rng.IntN(6); k > 0; k-- {
			switch x := rng.IntN(16); {
			case x == 0:
				items = append(items, item{kind: "crit"})
			case x < 3:
				items = append(items, item{kind: "soft"})
			default:
				b, _ := genWire(rng, dummy)
				if rng.IntN(3) == 0 {
					b = b[:min(len(b), rng.IntN(13))]
				}
				oc := genOutcome(rng)
				if oc.kind == "wrotefailed" {
					oc = outcome{kind: "silent"}
				}
				items = append(items, item{kind: "dgram", b: b, oc: oc})
			}
		}
		var sb, rb strings.Builder
		sb.WriteString("udploop 1 1")
		alive, served, critSeen := true, 0, false
		var replay []string
		for _, it := range items {
			switch it.kind {
			case "crit", "soft":
				sb.WriteString(" ; " + it.kind)
				replay = append(replay, it.kind)
			default:
				eb := effective("udp", it.b)
				treq := unpackOrNil(eb)
				if len(eb) < 12 {
					treq = nil
				}
				sb.WriteString(" ; " + frameArgs(it.b, treq, it.oc))
				replay = append(replay, hex.EncodeToString(it.b)+" "+it.oc.String())
			}
			if !alive {
				continue
			}
			c := &fakePacketConn{in: it.b, wok: true}
			switch it.kind {
			case "crit":
				c.readErr = io.ErrClosedPipe
				critSeen = true
			case "soft":
				c.readErr = timeoutErr{}
			}
			e.h.set(it.oc)
			e.h.adv.begin()
			var err error
			hung, pv := guard(60*time.Second, func() { err = e.plain.VerifC01AcceptUDP(ctx, c) })
			_, damaged := e.h.adv.settle()
			ci := map[string]any{"transport": "udp-loop", "reads": append([]string{}, replay...)}
			if hung || pv != nil {
				r.Violate("panic-udp", fmt.Sprintf("UDP loop: accept step hung=%v panic=%v", hung, pv), ci)
				e.reset()

				break
			}
			if damaged != "" {
				r.Violate("concurrent-response-damaged-udp", "UDP loop: "+damaged, ci)
			}
			if it.kind == "dgram" {
				var s sees
				unpackAll(c.writes, &s)
				rb.WriteString(" " + canonShort(s))
				served++
				eb := effective("udp", it.b)
				treq := unpackOrNil(eb)
				if len(eb) < 12 {
					treq = nil
				}
				s.acceptErr = err
				oracle(r, "udp", eb, treq, it.oc, true, s, e.h.calls.Load())
			}
			if err != nil {
				alive = false
				if !critSeen {
					r.Violate("listener-exit-udp", fmt.Sprintf("UDP loop: the accept step returned %q although the socket is fine; the listener loop ends", err), ci)
				}
			}
		}
		lines = append(lines, sb.String())
		reals = append(reals, fmt.Sprintf("%s %d%s", b2s(alive), served, rb.String()))
		cis = append(cis, map[string]any{"transport": "udp-loop", "reads": replay})
		r.Count("udploop:alive-" + b2s(alive))
		r.Case(sb.String(), true)
	}
	for i, a := range m.Batch(lines) {
		if strings.Join(strings.Fields(a), " ") != strings.Join(strings.Fields(reals[i]), " ") {
			r.Disagree("udp-loop", fmt.Sprintf("model %q, implementation %q for %q", a, reals[i], lines[i]), cis[i])
		}
	}
	r.ModelOps += len(lines)
	r.Traces += len(lines)
}

// connCampaign: one TCP/DoT connection carrying several frames - accepted,
// rejected, ignored, undecodable, unanswered - sent one after the other.  The
// whole connection is compared with the model's serveConn: every frame is
// answered as on its own, the first unanswered frame closes the connection and
// nothing after it is served.
func connCampaign(o *hlib.Opts, r *hlib.Result, m *hlib.Model, e *env) {
	rng := o.Rand("conn")
	n := 400
	if o.Thorough() {
		n = 30000
	}
	var lines, reals []string
	var cis []any
	ctx := context.Background()
	dummy := hlib.NewResult("C01", o)
	for i := 0; i < n; i++ {
		t := pick(rng, []string{"tcp", "dot"})
		k := 1 + rng.IntN(6)
		ids := rng.Perm(65536)
		var frames [][]byte
		var sb strings.Builder
		fmt.Fprintf(&sb, "conn %s 1", t)
		byID := map[uint16]outcome{}
		type sent struct {
			req *dns.Msg
			oc  outcome
		}
		var sents []sent
		var replay []string
		for j := 0; j < k; j++ {
			b, _ := genWire(rng, dummy)
			if len(b) >= 2 {
				// Distinct ids, so that the scripted outcome is per frame.
				binary.BigEndian.PutUint16(b, uint16(ids[j]))
			}
			oc := genOutcome(rng)
			if oc.kind == "wrotefailed" || rng.IntN(3) > 0 {
				oc = outcome{kind: "wrote", rcode: 0, n: 1 + rng.IntN(2)}
			}
			req := unpackOrNil(b)
			if req != nil {
				byID[req.Id] = oc
			}
			frames = append(frames, prefixed(b))
			sb.WriteString(" ; " + frameArgs(b, req, oc))
			sents = append(sents, sent{req: req, oc: oc})
			replay = append(replay, hex.EncodeToString(b)+" "+oc.String())
		}
		c := newSeqConn(frames)
		e.h.mu.Lock()
		e.h.byID = byID
		e.h.mu.Unlock()
		e.h.adv.begin()
		hung, pv := guard(60*time.Second, func() {
			if t == "tcp" {
				e.plain.VerifC01ServeTCPConn(ctx, c)
			} else {
				e.dot.VerifC01ServeTCPConn(ctx, c)
			}
		})
		_, damaged := e.h.adv.settle()
		e.h.mu.Lock()
		e.h.byID = nil
		e.h.mu.Unlock()
		ci := map[string]any{"transport": t, "frames": replay}
		if hung || pv != nil {
			r.Violate("hang-"+t, fmt.Sprintf("%s connection: routine hung=%v panic=%v", t, hung, pv), ci)
			e.reset()

			continue
		}
		if damaged != "" {
			r.Violate("concurrent-response-damaged-"+t, t+" connection: "+damaged, ci)
		}
		c.mu.Lock()
		events := c.events
		c.mu.Unlock()
		var rb strings.Builder
		for j, ev := range events {
			var s sees
			s.status = stOpen
			if ev.msg == nil {
				s.status = stClosed
			} else {
				splitPrefixed(ev.msg, &s)
			}
			rb.WriteString(" " + canonShort(s))
			// Oracle: the j-th thing the server did belongs to the j-th frame.
			if j >= len(sents) {
				r.Violate("answer-count-"+t, fmt.Sprintf("%s connection: more server actions (%d) than frames (%d)", t, len(events), len(sents)), ci)

				break
			}
			if s.garbage > 0 {
				r.Violate("garbled-response-"+t, t+" connection: a frame that does not decode", ci)
			}
			for _, msg := range s.msgs {
				req := sents[j].req
				switch {
				case req == nil:
					r.Violate("undecodable-answered-"+t, t+" connection: undecodable frame answered", ci)
				case msg.Id != req.Id:
					r.Violate("foreign-id-"+t, fmt.Sprintf("%s connection: frame %d (id %d) answered with id %d", t, j, req.Id, msg.Id), ci)
				case len(msg.Question) > 0 && (len(req.Question) == 0 || !sameQuestion(msg.Question[0], req.Question[0])):
					r.Violate("foreign-question-"+t, fmt.Sprintf("%s connection: frame %d answered with question %v", t, j, msg.Question), ci)
				case classify(req) == "ok" && sents[j].oc.kind == "wrote" &&
					(msg.Rcode != sents[j].oc.rcode || rrStrings(msg.Answer) != rrStrings(answersFor(req, sents[j].oc.n))):
					r.Violate("answer-differs-"+t, fmt.Sprintf("%s connection: frame %d: rcode %d records %q are not the pipeline's", t, j, msg.Rcode, rrStrings(msg.Answer)), ci)
				}
			}
		}
		lines = append(lines, sb.String())
		reals = append(reals, fmt.Sprintf("%d%s", len(events), rb.String()))
		cis = append(cis, ci)
		r.Count(fmt.Sprintf("conn:%s-served-%d-of-%d", t, min(len(events), 3), min(k, 3)))
		r.Case(sb.String(), true)
	}
	for i, a := range m.Batch(lines) {
		if strings.Join(strings.Fields(a), " ") != strings.Join(strings.Fields(reals[i]), " ") {
			r.Disagree("conn", fmt.Sprintf("model %q, implementation %q for %q", a, reals[i], lines[i]), cis[i])
		}
	}
	r.ModelOps += len(lines)
	r.Traces += len(lines)
}

// bufferCampaign is the worst concurrent schedule for the pooled byte buffers
// (udpPool, tcpPool, DoQ reqPool, respPool), replayed deterministically: while a
// request is in flight - inside its handler and inside its socket write - a
// complete request of another client is served by the same server.  With one P
// a sync.Pool hands that request the buffer that was put back last, so a buffer
// that is released before its last use is overwritten by the other client's
// bytes before the server reads it, and the client under test receives them.
// Independently of what is overwritten, a request buffer that another read
// receives while its request is still in flight is reported as such (UDP, TCP and
// DoT hold it until the request is finished; DoQ releases it after Unpack).
func bufferCampaign(o *hlib.Opts, r *hlib.Result, e *env) {
	rng := o.Rand("buffers")
	n := 60
	if o.Thorough() {
		n = 3000
	}
	prev := runtime.GOMAXPROCS(1)
	defer runtime.GOMAXPROCS(prev)
	defer func() { nest = nil }()
	ctx := context.Background()
	var bg sync.WaitGroup
	for i := 0; i < n; i++ {
		for _, t := range []string{"udp", "tcp", "dot", "doq"} {
			msg := &dns.Msg{}
			msg.SetQuestion(genName(rng), pick(rng, []uint16{dns.TypeA, dns.TypeAAAA, dns.TypeTXT}))
			msg.Id = uint16(rng.IntN(65536))
			if rng.IntN(2) == 0 {
				msg.SetEdns0(1232, false)
			}
			b, err := msg.Pack()
			if err != nil {
				continue
			}
			req := unpackOrNil(b)
			oc := outcome{kind: pick(rng, []string{"wrote", "wrote", "failed"}), n: 1 + rng.IntN(3)}
			points := pick(rng, []string{"handler", "write", "handler,write"})
			var outerBuf func() *byte
			overlap, nestedBad, nestedRuns := "", "", 0
			nest = func(point string) {
				if !strings.Contains(points, point) {
					return
				}
				nestedRuns++
				nm := &dns.Msg{}
				nm.SetQuestion(fmt.Sprintf("nested-%d.%s", nestedRuns, nestedSuffix), dns.TypeA)
				nm.Id = uint16(0xc0de + nestedRuns)
				nb, _ := nm.Pack()
				var got sees
				var nbuf *byte
				switch t {
				case "udp":
					c := &fakePacketConn{in: nb, wok: true, wrote: make(chan struct{})}
					bg.Add(1)
					go func() {
						defer bg.Done()
						defer func() {
							// A panic here (e.g. the server's wait group misused because a
							// connection routine returned before its workers) must not take
							// the whole run, and what it has found so far, down.
							if v := recover(); v != nil {
								nestedBad = fmt.Sprintf("the concurrent client's datagram made the accept path panic: %v", v)
								if c.wrote != nil {
									func() {
										defer func() { _ = recover() }()
										close(c.wrote)
									}()
								}
							}
						}()
						_ = e.plain.VerifC01AcceptUDP(ctx, c)
					}()
					select {
					case <-c.wrote:
					case <-time.After(5 * time.Second):
					}
					unpackAll(c.writes, &got)
					nbuf = c.buf
				case "tcp", "dot":
					c := &fakeConn{in: bytes.NewReader(prefixed(nb)), wok: true}
					if t == "tcp" {
						e.plain.VerifC01ServeTCPConn(ctx, c)
					} else {
						e.dot.VerifC01ServeTCPConn(ctx, c)
					}
					splitPrefixed(c.out.Bytes(), &got)
					nbuf = c.buf
				default:
					st := streamOf(prefixed(nb))
					_ = e.doq.VerifC01ServeQUICStream(st, &fakeQUICConn{})
					splitPrefixed(st.out.Bytes(), &got)
				}
				if len(got.msgs) != 1 || got.msgs[0].Id != nm.Id || len(got.msgs[0].Question) != 1 ||
					got.msgs[0].Question[0].Name != nm.Question[0].Name || len(got.msgs[0].Answer) != 2 {
					nestedBad = fmt.Sprintf("the concurrent client's query %s (id %d) was answered with %s", nm.Question[0].Name, nm.Id, canonSees(got, "-"))
				}
				if ob := outerBuf(); t != "doq" && ob != nil && nbuf == ob {
					overlap = point
				}
			}
			e.h.set(oc)
			e.h.adv.begin()
			var s sees
			hung, pv := guard(60*time.Second, func() {
				switch t {
				case "udp":
					c := &fakePacketConn{in: b, wok: true}
					outerBuf = func() *byte { return c.buf }
					s.acceptErr = e.plain.VerifC01AcceptUDP(ctx, c)
					unpackAll(c.writes, &s)
				case "tcp", "dot":
					c := &fakeConn{in: bytes.NewReader(prefixed(b)), wok: true}
					outerBuf = func() *byte { return c.buf }
					if t == "tcp" {
						e.plain.VerifC01ServeTCPConn(ctx, c)
					} else {
						e.dot.VerifC01ServeTCPConn(ctx, c)
					}
					s.status = stOpen
					splitPrefixed(c.out.Bytes(), &s)
				default:
					st := streamOf(prefixed(b))
					outerBuf = func() *byte { return nil }
					_ = e.doq.VerifC01ServeQUICStream(st, &fakeQUICConn{})
					s.status, s.fin = stOpen, st.closed
					splitPrefixed(st.out.Bytes(), &s)
				}
			})
			nest = nil
			bg.Wait()
			s.disposes, s.damaged = e.h.adv.settle()
			s.hung, s.panicV = hung, pv
			if hung {
				e.reset()
			}
			ci := map[string]any{"transport": t, "wire_hex": hex.EncodeToString(b), "handler_outcome": oc.String(),
				"concurrent_request_served_inside": points, "observed": canonSees(s, "-")}
			if overlap != "" {
				r.Violate("request-buffer-recycled-in-flight-"+t, fmt.Sprintf("%s: while this request was still in flight (inside its %s) the server read another client's message into the very buffer that holds this request: "+
					"the buffer went back to its pool before the request was finished, so a concurrent read can overwrite the query before or while it is parsed", t, overlap), ci)
			}
			if nestedBad != "" {
				r.Violate("concurrent-request-answer-damaged-"+t, t+": "+nestedBad, ci)
			}
			// The request under test must be answered as if it were alone.
			_ = oracle(r, t, b, req, oc, true, s, e.h.calls.Load())
			r.Count("buffers:" + t + "-" + points)
			r.Case(fmt.Sprintf("buffers %s %x %s %s", t, b, oc, points), true)
			r.Traces++
		}
	}
	r.Notes = append(r.Notes, "byte-buffer adversary: a concurrent client's request served inside the handler and inside the socket write of every request (UDP, TCP, DoT, DoQ) with GOMAXPROCS(1)")
}

// liveCampaign: real UDP and TCP listeners must survive the malformed stream.
func liveCampaign(o *hlib.Opts, r *hlib.Result) {
	rng := o.Rand("live")
	h := &script{adv: newAdvDisposer()}
	h.set(outcome{kind: "wrote", n: 1})
	srv := dnsserver.NewServerDNS(dnsserver.ConfigDNS{ConfigBase: dnsserver.ConfigBase{Name: "live", Addr: "127.0.0.1:0", Handler: h, Disposer: h.adv}})
	ctx := context.Background()
	if err := srv.Start(ctx); err != nil {
		r.Notes = append(r.Notes, "live listeners could not be started in this sandbox: "+err.Error())

		return
	}
	defer func() {
		sctx, cancel := context.WithTimeout(ctx, 2*time.Second)
		defer cancel()
		_ = srv.Shutdown(sctx)
	}()
	n := 300
	if o.Thorough() {
		n = 20000
	}
	uaddr, taddr := srv.LocalUDPAddr().String(), srv.LocalTCPAddr().String()
	uc, err := net.Dial("udp", uaddr)
	if err != nil {
		r.Notes = append(r.Notes, "live: "+err.Error())

		return
	}
	defer uc.Close()
	dummy := hlib.NewResult("C01", o)
	for i := 0; i < n; i++ {
		b, _ := genWire(rng, dummy)
		if rng.IntN(2) == 0 {
			b = b[:rng.IntN(len(b)+1)]
		}
		if len(b) > 0 {
			_, _ = uc.Write(b)
		}
		if i%10 == 0 {
			if tc, derr := net.Dial("tcp", taddr); derr == nil {
				_, _ = tc.Write(prefixed(b)[:rng.IntN(len(b)+3)])
				_ = tc.Close()
			}
		}
	}
	probe := &dns.Msg{}
	probe.SetQuestion("still-alive.example.", dns.TypeA)
	pb, _ := probe.Pack()
	check := func(network, addr string, frame func([]byte) []byte, unframe func([]byte) []byte) {
		for attempt := 0; attempt < 5; attempt++ {
			c, derr := net.Dial(network, addr)
			if derr != nil {
				continue
			}
			_ = c.SetDeadline(time.Now().Add(2 * time.Second))
			_, _ = c.Write(frame(pb))
			buf := make([]byte, 4096)
			for {
				k, rerr := c.Read(buf)
				if rerr != nil {
					break
				}
				m := unpackOrNil(unframe(buf[:k]))
				if m != nil && m.Id == probe.Id && len(m.Question) == 1 && m.Question[0].Name == "still-alive.example." && len(m.Answer) == 1 {
					_ = c.Close()
					r.Count("live:" + network + "-alive")

					return
				}
			}
			_ = c.Close()
		}
		r.Violate("listener-down-"+network, network+" listener no longer answers a valid query after the malformed stream", map[string]any{"sent": n})
	}
	if _, damaged := h.adv.settle(); damaged != "" {
		r.Violate("concurrent-response-damaged-live", "live UDP/TCP listeners with the Disposer's pools shared (production set-up): "+damaged, map[string]any{"sent": n})
	}
	check("udp", uaddr, func(b []byte) []byte { return b }, func(b []byte) []byte { return b })
	check("tcp", taddr, prefixed, func(b []byte) []byte {
		if len(b) < 2 {
			return nil
		}

		return b[2:]
	})
	r.Traces += n
}

func main() {
	o := hlib.ParseFlags()
	r := hlib.NewResult("C01", o)
	theResult = r
	r.Rule = "wire: generated DNS messages (well-formed queries with every header field, section count, name shape, " +
		"qtype/qclass and EDNS option varied, plus a malformed stream) x scripted handler outcomes are sent through the " +
		"real UDP, TCP, DoT, DoH GET/POST, DoQ and DNSCrypt accept paths with fake sockets; what the client sees is compared " +
		"with the Lean model per transport and checked by an independent oracle (one response, same id/question, pipeline's " +
		"rcode/records, documented reject treatment, handler never consulted on rejects, identical core across transports); " +
		"all servers run in the production set-up of the response pools: the handler answers with clones from the dnsmsg.Cloner " +
		"that is also the servers' Disposer, and after every Dispose two concurrent requests clone their own responses out of the " +
		"pools (worst schedule), so a response recycled before its last use reaches the client with a foreign id/question/records " +
		"and a response recycled twice or written to after disposal damages the concurrent responses, which are checked; " +
		"the model is given the client's bytes and decides itself what reaches Unpack (UDP short/cut datagrams, DoQ framing); its own parse of the header and " +
		"the first question is compared with miekg's Unpack on every line (the UnpackOK contract of the wire-level theorems); " +
		"whole TCP/DoT connections (frames sent one after the other, mixed accepted/rejected/ignored/undecodable/unanswered) and whole UDP listener loops " +
		"(datagrams, short datagrams, timeouts, critical errors) are compared with serveConn/udpLoop, and no client input may make the accept step return an error; " +
		"DoQ streams must be finished by the server; every DoQ stream reaches the real reader as a script of stream.Read results (cut at the framing boundaries, at random or octet by octet, empty reads; " +
		"FIN next to the last data, in a Read of its own, no FIN before the read deadline, or a reset) and TCP/DoT streams arrive in segments that ignore the framing - the answer must not depend on it; " +
		"queries padded to the sizes around every read buffer (511..513, 1232, 4096, 16384, 65531..65535 octets) go through every transport, and the DoQ reader is compared with the model's readAll on explicit Read scripts, " +
		"also at the size boundary of its buffer with every ending; the JSON API is driven in both encodings (JSON and ct=application/dns-message), with unusual spellings of numbers, unclean/suffix/foreign paths and every method; " +
		"whole HTTP requests go through the real ServeHTTP (URL paths canonical, with a device id, unclean, suffix forms, foreign; methods; the dns parameter absent, repeated, padded, in the standard alphabet, empty, cut, garbage; bodies) and are compared with the model's front end and judged (404 / 400 / served like the octets alone); " +
		"the client's address takes every form on every transport (IPv4, IPv6, IPv4-mapped, link-local IPv6 with its zone - as a net.Addr of the fake sockets and as the text net/http reports); " +
		"DNSCrypt is also driven end to end (real ServerDNSCrypt and ameshkov/dnscrypt library on loopback sockets, arbitrary octets sent as encrypted queries over UDP and TCP) and compared with the model including the library's own filter; " +
		"byte-buffer adversary: with GOMAXPROCS(1) a concurrent client's request is served inside the handler and inside the socket write of the request under test, " +
		"so a pooled request/response buffer released before its last use is overwritten (foreign id/question/garbled frame) or seen recycled in flight; " +
		"connection life cycle under real pipelining: on a fake connection that behaves like a socket (blocking reads, a closed connection fails reads and writes) handlers wait until released, " +
		"frames are sent and released in any order under every pipeline limit, and the client's stream ends (half-close, idle time-out, reset) also while queries are inside the handler - every accepted query must be answered exactly once before the server closes the connection, " +
		"the whole schedule is compared with the model's transition system (clife); the same live on loopback: TCP shutdown(SHUT_WR), TLS close_notify, idle time-out and Shutdown with pipelined queries in flight, DoQ streams finished before the answer; " +
		"a case is non-trivial unless it is a well-formed accepted query answered normally; distinct = distinct (wire, outcome)"
	m := hlib.StartModel(o.Model, "C01")
	defer m.Close()
	// Keep library logging quiet.
	os.Setenv("VERBOSE", "0")

	e := newEnv()
	e.dlv = o.Rand("delivery")
	if only := os.Getenv("C01_ONLY"); only != "" {
		// Development aid: run the round-4 campaigns alone.
		if strings.Contains(only, "panic") {
			panicCampaign(o, r, m, e)
		}
		if strings.Contains(only, "wired") {
			wiredLiveCampaign(o, r, m)
		}
		if strings.Contains(only, "lifecycle") {
			lifecycleCampaign(o, r, m)
			liveLifecycleCampaign(o, r)
		}
		r.Finish()

		return
	}
	for _, campaign := range []func(){
		func() { acceptCampaign(r, m) },
		func() { lifecycleCampaign(o, r, m) },
		func() { gridCampaign(o, r, m, e) },
		func() { wireCampaign(o, r, m, e) },
		func() { doqDeliveryCampaign(o, r, m, e) },
		func() { jsonCampaign(o, r, m, e) },
		func() { dohFrontCampaign(o, r, m, e) },
		func() { dnscryptE2ECampaign(o, r, m, e) },
		func() { quicFrameCampaign(o, r, m, e) },
		func() { pipelineCampaign(o, r, e) },
		func() { connCampaign(o, r, m, e) },
		func() { udpLoopCampaign(o, r, m, e) },
		func() { bufferCampaign(o, r, e) },
		func() { truncationCampaign(o, r, e) },
		func() { liveCampaign(o, r) },
		func() { liveLifecycleCampaign(o, r) },
		func() { panicCampaign(o, r, m, e) },
		func() { wiredLiveCampaign(o, r, m) },
	} {
		if overBudget(o, r) {
			break
		}
		campaign()
	}

	r.Finish()
}
