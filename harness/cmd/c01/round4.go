package main

// Round 4: fault and life-cycle paths, production wiring.
//
// panicCampaign: the scripted handler panics (before or after it has written)
// on every transport, through the real per-request entry points with their
// recovery; compared with the model's serveMsgF and judged: no panic may leave
// the server's own recovery, at most the handler's own message is delivered,
// and the next query on the same server is answered.
//
// wiredLiveCampaign: config.dist.yaml (its listeners moved to loopback port 0)
// goes through the repository's parser, validator and converters (cmd), the
// resulting server groups through dnssvc.New with the production NewListener,
// and the service is started, queried over real sockets with real clients on
// every protocol, shut down (also while queries are in flight), started again
// and queried again; compared with the model's life cycle and judged.

import (
	"bytes"
	"context"
	"crypto/ecdsa"
	"crypto/ed25519"
	"crypto/elliptic"
	crand "crypto/rand"
	"crypto/tls"
	"crypto/x509"
	"crypto/x509/pkix"
	"encoding/base64"
	"encoding/binary"
	"encoding/hex"
	"fmt"
	"io"
	"log/slog"
	"math/big"
	"net"
	"net/http"
	"os"
	"path/filepath"
	"regexp"
	"strings"
	"sync"
	"sync/atomic"
	"time"

	"github.com/AdguardTeam/AdGuardDNS/internal/agd"
	"github.com/AdguardTeam/AdGuardDNS/internal/agdtest"
	"github.com/AdguardTeam/AdGuardDNS/internal/cmd"
	"github.com/AdguardTeam/AdGuardDNS/internal/dnsmsg"
	"github.com/AdguardTeam/AdGuardDNS/internal/dnsserver"
	"github.com/AdguardTeam/AdGuardDNS/internal/dnssvc"
	"github.com/AdguardTeam/AdGuardDNS/verifh/hlib"
	glog "github.com/AdguardTeam/golibs/log"
	"github.com/ameshkov/dnscrypt/v2"
	"github.com/ameshkov/dnsstamps"
	"github.com/miekg/dns"
	"github.com/quic-go/quic-go"
	"github.com/quic-go/quic-go/http3"
)

// ---------------------------------------------------------------------------
// Handler panics

type panicCase struct {
	Transport string `json:"transport"`
	WireHex   string `json:"wire_hex"`
	Handler   string `json:"handler"`
	WriteOK   bool   `json:"socket_writes_succeed"`
	Observed  string `json:"observed"`
}

func panicMsgs() (out [][]byte) {
	add := func(f func(m *dns.Msg)) {
		m := &dns.Msg{}
		m.SetQuestion("PaNiC.Example.ORG.", dns.TypeA)
		f(m)
		b, err := m.Pack()
		hlib.Must(err)
		out = append(out, b)
	}
	add(func(m *dns.Msg) { m.Id = 0x1234; m.SetEdns0(1232, false) })
	add(func(m *dns.Msg) { m.Id = 0; m.Question[0] = dns.Question{Name: "a.", Qtype: dns.TypeAAAA, Qclass: dns.ClassINET} })
	add(func(m *dns.Msg) { m.Id = 0xffff; m.Opcode = dns.OpcodeStatus })
	add(func(m *dns.Msg) {
		m.Id = 7
		m.Question = append(m.Question, dns.Question{Name: "second.example.", Qtype: dns.TypeA, Qclass: dns.ClassINET})
	})
	add(func(m *dns.Msg) { m.Id = 9; m.Response = true })
	add(func(m *dns.Msg) {
		m.Id = 0xabcd
		m.SetEdns0(4096, true)
		opt := m.IsEdns0()
		opt.Option = append(opt.Option, &dns.EDNS0_TCP_KEEPALIVE{Code: dns.EDNS0TCPKEEPALIVE})
	})

	return out
}

func panicCampaign(o *hlib.Opts, r *hlib.Result, m *hlib.Model, e *env) {
	glog.SetOutput(io.Discard)
	defer glog.SetOutput(os.Stderr)
	e.doqAsync = true
	savedDlv := e.dlv
	e.dlv = nil
	defer func() { e.doqAsync = false; e.dlv = savedDlv }()

	msgs := panicMsgs()
	follow := msgs[0]
	followReq := unpackOrNil(follow)
	type pw struct {
		tok string
		o   outcome
	}
	pws := []pw{{"-", outcome{kind: "panic"}}, {"0:1", outcome{kind: "wrotepanic", rcode: 0, n: 1}}, {"3:0", outcome{kind: "wrotepanic", rcode: 3, n: 0}}}
	var lines, reals []string
	var infos []panicCase
	for _, b := range msgs {
		req := unpackOrNil(b)
		for _, t := range transports {
			for _, p := range pws {
				for _, wok := range []bool{true, false} {
					if !wok && t != "udp" && t != "tcp" && t != "dot" {
						continue
					}
					e.h.set(p.o)
					s := e.run(t, b, req, wok)
					calls := e.h.calls.Load()
					up := s.panicV == nil && !s.hung
					parts := make([]string, 0, len(s.msgs))
					for _, mm := range s.msgs {
						parts = append(parts, canonResp(mm))
					}
					real := strings.Join(strings.Fields(fmt.Sprintf("%s %d %d %s f%s", b2s(up), s.status, len(s.msgs), strings.Join(parts, " "), b2s(s.fin))), " ")
					ci := panicCase{Transport: t, WireHex: hex.EncodeToString(b), Handler: p.o.String(), WriteOK: wok, Observed: real}
					// Property oracle, independent of the model.
					switch {
					case s.panicV != nil:
						r.Violate("handler-panic-escapes-"+t, fmt.Sprintf("%s: a panic of the handler is not recovered by the server (%v); on a goroutine of the server's own it ends the process and with it every listener", t, s.panicV), ci)
					case s.hung:
						r.Violate("hang-"+t, t+": the accept routine never completed after the handler panicked", ci)
					}
					if len(s.msgs) > 1 {
						r.Violate("answer-count-"+t, fmt.Sprintf("%s: %d messages for one query whose handler panicked", t, len(s.msgs)), ci)
					}
					for _, mm := range s.msgs {
						if mm.Id != req.Id {
							r.Violate("foreign-id-"+t, fmt.Sprintf("%s: response id %d for request id %d after a handler panic", t, mm.Id, req.Id), ci)
						}
						if len(mm.Question) > 1 || len(mm.Question) == 1 && !sameQuestion(mm.Question[0], req.Question[0]) {
							r.Violate("foreign-question-"+t, fmt.Sprintf("%s: response question %v, request question %v after a handler panic", t, mm.Question, req.Question), ci)
						}
						if calls > 0 {
							direct := t == "udp" || t == "tcp" || t == "dot"
							if !direct || p.o.kind != "wrotepanic" || mm.Rcode != p.o.rcode || len(mm.Answer) != p.o.n {
								r.Violate("panic-answered-"+t, fmt.Sprintf("%s: the handler panicked, yet the client received rcode %d with %d records, which is not what the handler had written before", t, mm.Rcode, len(mm.Answer)), ci)
							}
						}
					}
					if cls := classify(req); cls != "ok" && calls != 0 {
						r.Violate("handler-invoked-on-reject-"+t, fmt.Sprintf("%s: handler consulted for a %s message", t, cls), ci)
					}
					// The server must go on serving.
					if up {
						e.h.set(outcome{kind: "wrote", n: 1})
						s2 := e.run(t, follow, followReq, true)
						if s2.panicV != nil || s2.hung || len(s2.msgs) != 1 || s2.msgs[0].Id != followReq.Id || len(s2.msgs[0].Answer) != 1 {
							r.Violate("panic-breaks-next-"+t, fmt.Sprintf("%s: the query that follows a request whose handler panicked is not answered normally (%d messages)", t, len(s2.msgs)), ci)
						}
					}
					r.Count("panic:" + t + ":" + p.o.kind + ":" + classify(req))
					r.Case("panic "+t+" "+ci.WireHex+" "+p.o.String()+" "+b2s(wok), true)
					r.Traces++
					lines = append(lines, fmt.Sprintf("fault 1 %s %s %s %s", t, b2s(wok), p.tok, frameArgs(b, req, outcome{kind: "silent"})))
					reals = append(reals, real)
					infos = append(infos, ci)
				}
			}
		}
	}
	for i, ans := range m.Batch(lines) {
		if strings.Join(strings.Fields(ans), " ") != reals[i] {
			r.Disagree("fault-"+infos[i].Transport, fmt.Sprintf("model %q, implementation %q for %q", ans, reals[i], lines[i]), infos[i])
		}
	}
	r.ModelOps += len(lines)
}

// ---------------------------------------------------------------------------
// Production wiring, live, with the life cycle

var (
	c01TLSOnce sync.Once
	c01TLSConf *tls.Config
	c01SvcSeq  atomic.Int32
)

func c01SelfSigned() *tls.Config {
	c01TLSOnce.Do(func() {
		key, err := ecdsa.GenerateKey(elliptic.P256(), crand.Reader)
		hlib.Must(err)
		tmpl := &x509.Certificate{
			SerialNumber: big.NewInt(1),
			Subject:      pkix.Name{CommonName: "c01.example"},
			NotBefore:    time.Now().Add(-time.Hour),
			NotAfter:     time.Now().Add(24 * time.Hour),
			KeyUsage:     x509.KeyUsageDigitalSignature,
			ExtKeyUsage:  []x509.ExtKeyUsage{x509.ExtKeyUsageServerAuth},
			DNSNames:     []string{"c01.example"},
		}
		der, err := x509.CreateCertificate(crand.Reader, tmpl, tmpl, &key.PublicKey, key)
		hlib.Must(err)
		c01TLSConf = &tls.Config{
			Certificates: []tls.Certificate{{Certificate: [][]byte{der}, PrivateKey: key}},
			MinVersion:   tls.VersionTLS12,
		}
	})

	return c01TLSConf
}

const c01DNSCryptYAML = `provider_name: '2.dnscrypt-cert.example.org'
public_key: 'F11DDBCC4817E543845FDDD4CB881849B64226F3DE397625669D87B919BC4FB0'
private_key: '5752095FFA56D963569951AFE70FE1690F378D13D8AD6F8054DFAA100907F8B6F11DDBCC4817E543845FDDD4CB881849B64226F3DE397625669D87B919BC4FB0'
resolver_secret: '9E46E79FEB3AB3D45F4EB3EA957DEAF5D9639A0179F1850AFABA7E58F87C74C4'
resolver_public: '9327C5E64783E19C339BD6B680A56DB85521CC6E4E0CA5DF5274E2D3CE026C6B'
es_version: 1
certificate_ttl: 8760h
`

const (
	c01DCProvider = "2.dnscrypt-cert.example.org"
	c01DCPublic   = "F11DDBCC4817E543845FDDD4CB881849B64226F3DE397625669D87B919BC4FB0"
)

var (
	reBindAddr = regexp.MustCompile(`^(\s*- ')127\.0\.0\.1:\d+('\s*)$`)
	reHandleTO = regexp.MustCompile(`(?m)^(\s*handle_timeout:).*$`)
)

// loopbackConfig moves every listener of the distributed example to loopback,
// port 0: bind_interfaces blocks become bind_addresses, fixed ports become 0.
func loopbackConfig(text, dcPath string) (out string, n int) {
	var sb strings.Builder
	inGroups, skipIndent := false, -1
	for _, line := range strings.SplitAfter(text, "\n") {
		trimmed := strings.TrimLeft(line, " ")
		indent := len(line) - len(trimmed)
		if indent == 0 && strings.TrimSpace(line) != "" && !strings.HasPrefix(trimmed, "#") {
			inGroups = strings.HasPrefix(line, "server_groups:")
		}
		if skipIndent >= 0 {
			if strings.TrimSpace(line) == "" || indent > skipIndent {
				continue
			}
			skipIndent = -1
		}
		if inGroups && strings.HasPrefix(trimmed, "bind_interfaces:") {
			pad := strings.Repeat(" ", indent)
			sb.WriteString(pad + "bind_addresses:\n" + pad + "  - '127.0.0.1:0'\n")
			skipIndent = indent
			n++

			continue
		}
		if inGroups {
			if mm := reBindAddr.FindStringSubmatch(strings.TrimRight(line, "\n")); mm != nil {
				line = mm[1] + "127.0.0.1:0" + mm[2] + "\n"
				n++
			}
		}
		sb.WriteString(line)
	}

	return strings.ReplaceAll(sb.String(), "config_path: ./test/dnscrypt.yml", "config_path: "+dcPath), n
}

// liveListener is one started listener of the wired service.
type liveListener struct {
	name   string
	proto  agd.Protocol
	srv    dnssvc.Listener
	pooled bool
}

// kinds are the client transports a listener of this protocol is queried over.
func (l *liveListener) kinds() []string {
	switch l.proto {
	case agd.ProtoDNS:
		return []string{"udp", "tcp"}
	case agd.ProtoDoT:
		return []string{"dot"}
	case agd.ProtoDoH:
		return []string{"dohpost", "dohget", "doh3"}
	case agd.ProtoDoQ:
		return []string{"doq"}
	case agd.ProtoDNSCrypt:
		return []string{"dcudp", "dctcp"}
	}

	return nil
}

type liveObs struct {
	msgs    []*dns.Msg
	garbage int
	status  int
	err     string
	fin     bool
}

var liveSentinel = func() []byte {
	m := &dns.Msg{}
	m.SetQuestion("sentinel."+nestedSuffix, dns.TypeA)
	m.Id = 0x5e47
	b, err := m.Pack()
	hlib.Must(err)

	return b
}()

func isSentinelMsg(m *dns.Msg) bool {
	return len(m.Question) == 1 && strings.HasSuffix(m.Question[0].Name, nestedSuffix)
}

func clientTLS(protos ...string) *tls.Config {
	return &tls.Config{InsecureSkipVerify: true, NextProtos: protos, ServerName: "c01.example"}
}

// streamExchange sends the query and the sentinel query on one TCP-like
// connection and reads frames until the sentinel's answer or the end.
func streamExchange(c net.Conn, q []byte, wait time.Duration, patient bool) (ob liveObs) {
	defer c.Close()
	_ = c.SetDeadline(time.Now().Add(wait))
	if _, err := c.Write(append(prefixed(q), prefixed(liveSentinel)...)); err != nil {
		ob.err = err.Error()

		return ob
	}
	ob.status = stOpen
	// Pipelined queries are answered in any order: a patient client goes on
	// reading after the sentinel's answer until its own has come.
	sentinelSeen := false
	for !sentinelSeen || patient && len(ob.msgs) == 0 {
		var l uint16
		if err := binary.Read(c, binary.BigEndian, &l); err != nil {
			ob.status = stClosed

			break
		}
		buf := make([]byte, l)
		if _, err := io.ReadFull(c, buf); err != nil {
			ob.garbage++
			ob.status = stClosed

			break
		}
		mm := unpackOrNil(buf)
		switch {
		case mm == nil:
			ob.garbage++
		case isSentinelMsg(mm):
			sentinelSeen = true
		default:
			ob.msgs = append(ob.msgs, mm)
		}
	}

	return ob
}

// exchange sends q to the listener over the client transport kind.  patient
// waits for an answer before concluding that none comes.
func (l *liveListener) exchange(kind string, q []byte, patient bool) (ob liveObs) {
	wait := 5 * time.Second
	switch kind {
	case "udp":
		c, err := net.Dial("udp", l.srv.LocalUDPAddr().String())
		if err != nil {
			return liveObs{err: err.Error()}
		}
		defer c.Close()
		buf := make([]byte, 70000)
		take := func(k int) (sentinel bool) {
			mm := unpackOrNil(buf[:k])
			switch {
			case mm == nil:
				ob.garbage++
			case isSentinelMsg(mm):
				return true
			default:
				ob.msgs = append(ob.msgs, mm)
			}

			return false
		}
		_, _ = c.Write(q)
		if patient {
			_ = c.SetReadDeadline(time.Now().Add(wait))
			if k, rerr := c.Read(buf); rerr == nil {
				take(k)
			} else {
				ob.err = rerr.Error()
			}
		}
		_, _ = c.Write(liveSentinel)
		_ = c.SetReadDeadline(time.Now().Add(wait))
		for {
			k, rerr := c.Read(buf)
			if rerr != nil {
				if ob.err == "" {
					ob.err = rerr.Error()
				}

				break
			}
			if take(k) {
				break
			}
		}
		// Anything that trails the sentinel's answer closely.
		_ = c.SetReadDeadline(time.Now().Add(30 * time.Millisecond))
		for {
			k, rerr := c.Read(buf)
			if rerr != nil {
				break
			}
			take(k)
		}
	case "tcp":
		c, err := net.DialTimeout("tcp", l.srv.LocalTCPAddr().String(), wait)
		if err != nil {
			return liveObs{err: err.Error()}
		}
		ob = streamExchange(c, q, wait, patient)
	case "dot":
		d := &net.Dialer{Timeout: wait}
		c, err := tls.DialWithDialer(d, "tcp", l.srv.LocalTCPAddr().String(), clientTLS())
		if err != nil {
			return liveObs{err: err.Error()}
		}
		ob = streamExchange(c, q, wait, patient)
	case "dohpost", "dohget", "doh3":
		var rt http.RoundTripper
		var addr string
		if kind == "doh3" {
			t3 := &http3.Transport{TLSClientConfig: clientTLS("h3")}
			defer t3.Close()
			rt, addr = t3, l.srv.LocalUDPAddr().String()
		} else {
			t2 := &http.Transport{TLSClientConfig: clientTLS("h2", "http/1.1"), ForceAttemptHTTP2: true}
			defer t2.CloseIdleConnections()
			rt, addr = t2, l.srv.LocalTCPAddr().String()
		}
		cl := &http.Client{Transport: rt, Timeout: wait}
		var resp *http.Response
		var err error
		if kind == "dohget" {
			resp, err = cl.Get("https://" + addr + "/dns-query?dns=" + base64.RawURLEncoding.EncodeToString(q))
		} else {
			resp, err = cl.Post("https://"+addr+"/dns-query", dnsserver.MimeTypeDoH, bytes.NewReader(q))
		}
		if err != nil {
			return liveObs{err: err.Error()}
		}
		body, _ := io.ReadAll(resp.Body)
		_ = resp.Body.Close()
		ob.status = resp.StatusCode
		if resp.StatusCode == http.StatusOK {
			if mm := unpackOrNil(body); mm != nil {
				ob.msgs = append(ob.msgs, mm)
			} else {
				ob.garbage++
			}
		}
	case "doq":
		ctx, cancel := context.WithTimeout(context.Background(), wait)
		defer cancel()
		conn, err := quic.DialAddr(ctx, l.srv.LocalUDPAddr().String(), clientTLS("doq"), &quic.Config{})
		if err != nil {
			return liveObs{err: err.Error()}
		}
		defer func() { _ = conn.CloseWithError(0, "") }()
		st, err := conn.OpenStreamSync(ctx)
		if err != nil {
			return liveObs{err: err.Error()}
		}
		_, _ = st.Write(prefixed(q))
		_ = st.Close()
		_ = st.SetReadDeadline(time.Now().Add(wait))
		raw, rerr := io.ReadAll(st)
		ob.status, ob.fin = stOpen, rerr == nil
		if rerr != nil {
			ob.err = rerr.Error()
			var ae *quic.ApplicationError
			if errorsAs(rerr, &ae) && ae.ErrorCode == quic.ApplicationErrorCode(dnsserver.DOQCodeProtocolError) {
				ob.status, ob.fin = stProtoErr, true
			}
		}
		var s sees
		splitPrefixed(raw, &s)
		ob.msgs, ob.garbage = s.msgs, s.garbage
	case "dcudp", "dctcp":
		network := "udp"
		if kind == "dctcp" {
			network = "tcp"
		}
		pk, err := dnscrypt.HexDecodeKey(c01DCPublic)
		if err != nil {
			return liveObs{err: err.Error()}
		}
		cl := &dnscrypt.Client{Net: network, Timeout: wait, UDPSize: 4096}
		ri, err := cl.DialStamp(dnsstamps.ServerStamp{ServerAddrStr: l.srv.LocalUDPAddr().String(), ServerPk: ed25519.PublicKey(pk),
			ProviderName: c01DCProvider, Proto: dnsstamps.StampProtoTypeDNSCrypt})
		if err != nil {
			return liveObs{err: "certificate: " + err.Error()}
		}
		req := unpackOrNil(q)
		if req == nil {
			return liveObs{err: "not a message"}
		}
		resp, err := cl.Exchange(req, ri)
		if err != nil {
			return liveObs{err: err.Error()}
		}
		ob.msgs = append(ob.msgs, resp)
	}

	return ob
}

func errorsAs(err error, target **quic.ApplicationError) bool {
	for err != nil {
		if ae, ok := err.(*quic.ApplicationError); ok {
			*target = ae

			return true
		}
		u, ok := err.(interface{ Unwrap() error })
		if !ok {
			return false
		}
		err = u.Unwrap()
	}

	return false
}

type wiredSvc struct {
	svc   *dnssvc.Service
	lsn   []*liveListener
	h     *script
	hto   time.Duration
	texts string
}

// handleTimeouts: the text written into the file and the duration it means
// (written by hand, not computed from the text).
var handleTimeouts = []struct {
	text string
	d    time.Duration
}{{"1s", time.Second}, {"10s", 10 * time.Second}, {"1500ms", 1500 * time.Millisecond}, {"1m", time.Minute}, {"2s", 2 * time.Second}}

func buildWired(r *hlib.Result, base string, hto int) (w *wiredSvc, err error) {
	text := reHandleTO.ReplaceAllString(base, "${1} "+handleTimeouts[hto].text)
	v, err := cmd.VerifC20Parse([]byte(text))
	if err != nil {
		return nil, fmt.Errorf("parse: %w", err)
	}
	if err = v.VerifC20Validate(); err != nil {
		return nil, fmt.Errorf("validate: %w", err)
	}
	discard := slog.New(slog.NewTextHandler(io.Discard, nil))
	grps, confTO, stage, err := v.VerifC01ServerGroups(context.Background(), discard, []string{"adguard_dns_filter"}, c01SelfSigned())
	if err != nil {
		return nil, fmt.Errorf("converting %s: %w", stage, err)
	}
	w = &wiredSvc{h: &script{adv: newAdvDisposer()}, hto: confTO}
	w.h.set(outcome{kind: "wrote", n: 2})
	handlers := dnssvc.Handlers{}
	for _, g := range grps {
		for _, s := range g.Servers {
			handlers[dnssvc.HandlerKey{Server: s, ServerGroup: g}] = w.h
		}
	}
	w.svc, err = dnssvc.New(&dnssvc.Config{
		Handlers:         handlers,
		Cloner:           dnsmsg.NewCloner(dnsmsg.EmptyClonerStat{}),
		ErrColl:          &agdtest.ErrorCollector{OnCollect: func(context.Context, error) {}},
		NonDNS:           http.NotFoundHandler(),
		MetricsNamespace: fmt.Sprintf("c01wired%d", c01SvcSeq.Add(1)),
		ServerGroups:     grps,
		HandleTimeout:    confTO,
		NewListener: func(s *agd.Server, bc dnsserver.ConfigBase, nd http.Handler) (l dnssvc.Listener, lerr error) {
			l, lerr = dnssvc.NewListener(s, bc, nd)
			if lerr == nil {
				w.lsn = append(w.lsn, &liveListener{name: bc.Name, proto: s.Protocol, srv: l,
					pooled: s.Protocol == agd.ProtoDNS || s.Protocol == agd.ProtoDoT || s.Protocol == agd.ProtoDoQ})
			}

			return l, lerr
		},
	})

	return w, err
}

// start starts the service; a failure (a port taken by somebody else on this
// shared machine) is reported as ok = false after shutting down what did start.
func (w *wiredSvc) start() (ok bool, why string) {
	func() {
		defer func() {
			if rec := recover(); rec != nil {
				why = fmt.Sprint(rec)
			}
		}()
		hlib.Must(w.svc.Start(context.Background()))
		ok = true
	}()
	if !ok {
		w.shutdown(2 * time.Second)
	}

	return ok, why
}

func (w *wiredSvc) shutdown(limit time.Duration) (err error) {
	ctx, cancel := context.WithTimeout(context.Background(), limit)
	defer cancel()

	return w.svc.Shutdown(ctx)
}

type liveCase struct {
	Listener string `json:"listener"`
	Client   string `json:"client_transport"`
	Phase    string `json:"phase"`
	WireHex  string `json:"wire_hex,omitempty"`
	Observed string `json:"observed,omitempty"`
	Config   string `json:"config,omitempty"`
}

func liveQueries(rng interface{ IntN(int) int }) (out [][]byte) {
	mk := func(f func(m *dns.Msg)) {
		m := &dns.Msg{}
		m.SetQuestion(pick2(rng, namePool), pick2(rng, qtypePool))
		m.Id = pick2(rng, idPool)
		f(m)
		if b, err := m.Pack(); err == nil {
			out = append(out, b)
		}
	}
	mk(func(m *dns.Msg) { m.SetEdns0(1232, false) })
	mk(func(m *dns.Msg) {})
	mk(func(m *dns.Msg) { m.Opcode = dns.OpcodeStatus })

	return out
}

func pick2[T any](rng interface{ IntN(int) int }, xs []T) T { return xs[rng.IntN(len(xs))] }

func wiredLiveCampaign(o *hlib.Opts, r *hlib.Result, m *hlib.Model) {
	glog.SetOutput(io.Discard)
	defer glog.SetOutput(os.Stderr)
	rng := o.Rand("wired-live")
	data, err := os.ReadFile(filepath.Join(cmd.VerifC20RepoRoot(), "config.dist.yaml"))
	if err != nil {
		r.Disagree("wired-setup", err.Error(), nil)

		return
	}
	dir, err := os.MkdirTemp("", "c01-wired-*")
	if err != nil {
		r.Disagree("wired-setup", err.Error(), nil)

		return
	}
	defer func() { _ = os.RemoveAll(dir) }()
	dcPath := filepath.Join(dir, "dnscrypt.yml")
	hlib.Must(os.WriteFile(dcPath, []byte(c01DNSCryptYAML), 0o600))
	base, moved := loopbackConfig(string(data), dcPath)
	if moved < 6 || len(reHandleTO.FindAllString(base, -1)) != 1 {
		r.Disagree("wired-setup", fmt.Sprintf("config.dist.yaml: %d listeners moved to loopback, handle_timeout not found exactly once", moved), nil)

		return
	}
	rounds := 1
	if o.Thorough() {
		rounds = 5
	}
	var lines, reals []string
	var infos []liveCase
	for round := 0; round < rounds; round++ {
		hto := (round + int(o.Seed)) % len(handleTimeouts)
		var w *wiredSvc
		started := false
		why := ""
		for try := 0; try < 40 && !started; try++ {
			w, err = buildWired(r, base, hto)
			if err != nil {
				r.Disagree("wired-build", err.Error(), liveCase{Config: "handle_timeout=" + handleTimeouts[hto].text})

				return
			}
			started, why = w.start()
		}
		if !started {
			r.Count("wired:could-not-start")
			r.Notes = append(r.Notes, "wired live campaign: the service could not be started in this sandbox: "+why)

			return
		}
		cfg := "config.dist.yaml on loopback, handle_timeout=" + handleTimeouts[hto].text
		if w.hto != handleTimeouts[hto].d {
			r.Violate("wired-handle-timeout", fmt.Sprintf("dns.handle_timeout %s reaches dnssvc as %s", handleTimeouts[hto].text, w.hto), liveCase{Config: cfg})
		}
		protos := map[agd.Protocol]int{}
		for _, l := range w.lsn {
			protos[l.proto]++
		}
		for _, p := range []agd.Protocol{agd.ProtoDNS, agd.ProtoDoT, agd.ProtoDoH, agd.ProtoDoQ, agd.ProtoDNSCrypt} {
			if protos[p] == 0 {
				r.Disagree("wired-setup", fmt.Sprintf("no listener of protocol %v was built from config.dist.yaml", p), nil)
			}
		}
		// The life cycle: served, shut down (refused), started again, served.
		ops := []string{"s"}
		phases := []string{"first start", "after restart", "after second restart"}
		cycles := 2
		if o.Thorough() {
			cycles = 3
		}
		obs := map[string][]string{}
		note := func(key, ob string) { obs[key] = append(obs[key], ob) }
		for _, l := range w.lsn {
			for _, k := range l.kinds() {
				note(l.name+" "+k, "ok")
			}
		}
		for cyc := 0; cyc < cycles; cyc++ {
			phase := phases[cyc]
			for _, l := range w.lsn {
				for _, k := range l.kinds() {
					key := l.name + " " + k
					allServed := true
					for qi, q := range liveQueries(rng) {
						if overBudget(o, r) {
							allServed = false

							break
						}
						req := unpackOrNil(q)
						w.h.set(outcome{kind: "wrote", n: 2})
						ob := l.exchange(k, q, true)
						// No wall-clock verdicts: the server's own read time-outs (2 s for a
						// TLS handshake or the first octets) can expire on a loaded machine and
						// look like a closed connection.  A listener that is down stays down,
						// so "unanswered" is only concluded from three attempts in a row.
						for attempt := 0; attempt < 2 && len(ob.msgs) == 0 && ob.garbage == 0; attempt++ {
							r.Count("wired:retry:" + k)
							w.h.set(outcome{kind: "wrote", n: 2})
							ob = l.exchange(k, q, true)
						}
						calls := w.h.calls.Load()
						s := sees{status: ob.status, msgs: ob.msgs, garbage: ob.garbage, fin: ob.fin || k == "doq" && len(ob.msgs) > 0}
						switch k {
						case "udp", "dcudp", "dctcp":
							s.status = stNone
						case "doq":
							if s.status == 0 {
								s.status = stOpen
							}
						}
						ci := liveCase{Listener: l.name, Client: k, Phase: phase, WireHex: hex.EncodeToString(q), Observed: canonSees(s, "-") + " " + ob.err, Config: cfg}
						if len(ob.msgs) == 0 {
							allServed = false
							sig := "wired-unanswered-" + k
							if cyc > 0 {
								sig = "restart-listener-down-" + k
							}
							r.Violate(sig, fmt.Sprintf("%s (%s, %s): a well-formed query over %s got no response (%s); the service reported a successful start", l.name, phase, cfg, k, ob.err), ci)

							continue
						}
						ot := k
						if k == "doh3" {
							ot = "dohpost"
						}
						before := len(r.Violations)
						oracle(r, ot, q, req, outcome{kind: "wrote", n: 2}, true, s, calls)
						if len(r.Violations) > before {
							allServed = false
						}
						// The deadline the handler saw: the configured handle timeout.
						if classify(req) == "ok" && qi == 0 {
							left := time.Duration(w.h.left.Load())
							want := handleTimeouts[hto].d
							if left <= 0 || left > want || left < want-want/2 {
								r.Violate("wired-handle-timeout", fmt.Sprintf("%s over %s: the handler's context had %s left, dns.handle_timeout is %s", l.name, k, left, handleTimeouts[hto].text), ci)
							}
						}
						r.Count("wired:" + k + ":" + classify(req))
						r.Case("wired "+k+" "+ci.WireHex+" "+phase, true)
						r.Traces++
					}
					if allServed {
						note(key, "served")
					} else {
						note(key, "unanswered")
					}
				}
			}
			// Shutdown; the first one while queries are in flight.
			t0 := time.Now()
			var serr error
			if cyc == 0 {
				serr = shutdownRace(r, w, cfg)
			} else {
				serr = w.shutdown(4 * time.Second)
			}
			for _, l := range w.lsn {
				for _, k := range l.kinds() {
					if serr != nil {
						note(l.name+" "+k, "hung")
					} else {
						note(l.name+" "+k, "ok")
					}
				}
			}
			if serr != nil {
				r.Violate("shutdown-hangs", fmt.Sprintf("Shutdown of the started service (%s, %s) did not finish: %v after %s", phases[cyc], cfg, serr, time.Since(t0).Round(time.Millisecond)), liveCase{Phase: phase, Config: cfg})
			}
			ops = append(ops, "a", "x")
			if cyc+1 == cycles {
				break
			}
			// While down: nothing answers.
			for _, l := range w.lsn {
				if l.proto != agd.ProtoDNS && l.proto != agd.ProtoDoT {
					continue
				}
				c, derr := net.DialTimeout("tcp", l.srv.LocalTCPAddr().String(), time.Second)
				if derr == nil {
					ob := streamExchange(c, liveQueries(rng)[0], time.Second, false)
					if len(ob.msgs) > 0 {
						r.Violate("answered-while-down", l.name+": a query was answered after Shutdown returned", liveCase{Listener: l.name, Phase: phase, Config: cfg})
					}
				}
			}
			// Start again.
			ok, swhy := w.start()
			if !ok {
				if strings.Contains(swhy, "address already in use") {
					r.Count("wired:restart-port-taken")

					break
				}
				r.Violate("restart-refused", fmt.Sprintf("the service could not be started again after Shutdown (%s): %s", cfg, swhy), liveCase{Phase: phase, Config: cfg})

				break
			}
			for _, l := range w.lsn {
				for _, k := range l.kinds() {
					note(l.name+" "+k, "ok")
				}
			}
			ops = append(ops, "s")
		}
		// Correspondence with the model's life cycle, per listener and client transport.
		for _, l := range w.lsn {
			for _, k := range l.kinds() {
				key := l.name + " " + k
				if len(obs[key]) != len(ops) {
					continue
				}
				lines = append(lines, fmt.Sprintf("life 1 %s %s", b2s(l.pooled), strings.Join(ops, " ")))
				reals = append(reals, strings.Join(obs[key], " "))
				infos = append(infos, liveCase{Listener: l.name, Client: k, Config: cfg, Phase: strings.Join(ops, " ")})
			}
		}
	}
	for i, ans := range m.Batch(lines) {
		if strings.TrimSpace(ans) != reals[i] {
			r.Disagree("life-"+infos[i].Client, fmt.Sprintf("model %q, implementation %q for %q", ans, reals[i], lines[i]), infos[i])
		}
	}
	r.ModelOps += len(lines)
}

// shutdownRace: queries are in flight (their handler waits at the gate) on every
// stream transport when Shutdown is called; the gate opens while Shutdown waits.
// Each of them may get its own answer or none, never anything else, and Shutdown
// has to return.
func shutdownRace(r *hlib.Result, w *wiredSvc, cfg string) (serr error) {
	gate := make(chan struct{})
	w.h.gate.Store(&gate)
	w.h.entered.Store(0)
	w.h.set(outcome{kind: "wrote", n: 1})
	type res struct {
		l  *liveListener
		k  string
		q  []byte
		ob liveObs
	}
	var wg sync.WaitGroup
	var mu sync.Mutex
	var got []res
	n := 0
	for _, l := range w.lsn {
		for _, k := range l.kinds() {
			if k == "doh3" || k == "dcudp" || k == "dctcp" {
				continue
			}
			m := &dns.Msg{}
			m.SetQuestion(slowPrefix+k+".example.", dns.TypeA)
			m.Id = uint16(0x4000 + n)
			q, _ := m.Pack()
			n++
			wg.Add(1)
			go func() {
				defer wg.Done()
				ob := l.exchange(k, q, true)
				mu.Lock()
				got = append(got, res{l, k, q, ob})
				mu.Unlock()
			}()
		}
	}
	// Wait until the handlers hold the queries (bounded; a query that never
	// arrives only makes the case weaker).
	for i := 0; i < 400 && w.h.entered.Load() < int64(n); i++ {
		time.Sleep(5 * time.Millisecond)
	}
	inFlight := w.h.entered.Load()
	done := make(chan error, 1)
	go func() { done <- w.shutdown(8 * time.Second) }()
	time.Sleep(50 * time.Millisecond)
	close(gate)
	w.h.gate.Store(nil)
	serr = <-done
	wg.Wait()
	ci := liveCase{Phase: fmt.Sprintf("shutdown with %d of %d queries in flight", inFlight, n), Config: cfg}
	for _, g := range got {
		req := unpackOrNil(g.q)
		ci.Listener, ci.Client, ci.WireHex = g.l.name, g.k, hex.EncodeToString(g.q)
		if len(g.ob.msgs) > 1 {
			r.Violate("answer-count-"+g.k, fmt.Sprintf("%s: %d responses for a query that was in flight during Shutdown", g.k, len(g.ob.msgs)), ci)
		}
		for _, mm := range g.ob.msgs {
			if mm.Id != req.Id || len(mm.Question) != 1 || !sameQuestion(mm.Question[0], req.Question[0]) {
				r.Violate("foreign-id-"+g.k, fmt.Sprintf("%s: a query in flight during Shutdown got the response of another query (id %d, question %v)", g.k, mm.Id, mm.Question), ci)
			}
		}
		if len(g.ob.msgs) == 1 {
			r.Count("shutdown-race:" + g.k + ":answered")
		} else {
			r.Count("shutdown-race:" + g.k + ":lost")
			if (g.k == "tcp" || g.k == "dot") && inFlight == int64(n) {
				// A TCP/DoT connection is closed only after its workers are done
				// (conn_answered_before_close): Shutdown ends the read loop, not the queries.
				r.Violate("answer-lost-wired-shutdown-"+g.k, fmt.Sprintf("%s (production wiring): the query was inside the handler when Shutdown was called and got no answer (%s)", g.k, g.ob.err), ci)
			}
		}
	}
	r.Case(fmt.Sprintf("shutdown-race %d", n), true)
	r.Traces += n

	return serr
}
