package main

// The life cycle of a connection under real pipelining (strengthening round):
//
// lifecycleCampaign drives the real serveTCPConn of plain TCP and DoT over a
// fake connection that behaves like a socket (reads block until the client
// sends, a closed connection fails reads and writes) with handlers that block
// until the harness releases them.  A case is a schedule: frames are sent,
// their handlers released in any order, and at any moment - also while
// queries are still inside the handler - the client's stream ends (half-close,
// idle time-out, reset).  Every accepted query of the connection must get
// exactly one matching answer before the server closes the connection; the
// whole run is compared with the model's transition system (clife).
//
// liveLifecycleCampaign does the same over loopback sockets with the real
// client stacks: TCP shutdown(SHUT_WR), TLS close_notify, the server's idle
// time-out and Shutdown with queries in flight, and DoQ streams finished by
// the client while their queries are still inside the handler.

import (
	"bytes"
	"context"
	"crypto/tls"
	"encoding/binary"
	"encoding/hex"
	"fmt"
	"io"
	"net"
	"net/http"
	"os"
	"strings"
	"sync"
	"syscall"
	"time"

	"github.com/AdguardTeam/AdGuardDNS/internal/dnsserver"
	"github.com/AdguardTeam/AdGuardDNS/verifh/hlib"
	glog "github.com/AdguardTeam/golibs/log"
	"github.com/miekg/dns"
	"github.com/quic-go/quic-go"
)

// ---------------------------------------------------------------------------
// A handler whose queries wait until they are released

type gateHandler struct {
	mu      sync.Mutex
	cond    *sync.Cond
	gates   map[uint16]chan struct{}
	kinds   map[uint16]string // answer | fail | silent
	entered map[uint16]bool
}

func newGateHandler() (h *gateHandler) {
	h = &gateHandler{}
	h.cond = sync.NewCond(&h.mu)
	h.reset()

	return h
}

func (h *gateHandler) reset() {
	h.mu.Lock()
	defer h.mu.Unlock()
	h.gates, h.kinds, h.entered = map[uint16]chan struct{}{}, map[uint16]string{}, map[uint16]bool{}
}

// hold registers a query that will wait at the gate.
func (h *gateHandler) hold(id uint16, kind string) {
	h.mu.Lock()
	defer h.mu.Unlock()
	h.gates[id] = make(chan struct{})
	h.kinds[id] = kind
}

func (h *gateHandler) release(id uint16) {
	h.mu.Lock()
	defer h.mu.Unlock()
	if g := h.gates[id]; g != nil {
		close(g)
		h.gates[id] = nil
	}
}

func (h *gateHandler) releaseAll() {
	h.mu.Lock()
	defer h.mu.Unlock()
	for id, g := range h.gates {
		if g != nil {
			close(g)
			h.gates[id] = nil
		}
	}
}

// waitEntered waits until the queries with these ids are inside the handler.
func (h *gateHandler) waitEntered(ids []uint16, limit time.Duration) (ok bool) {
	return waitCond(h.cond, limit, func() bool {
		for _, id := range ids {
			if !h.entered[id] {
				return false
			}
		}

		return true
	})
}

func (h *gateHandler) ServeDNS(ctx context.Context, rw dnsserver.ResponseWriter, req *dns.Msg) (err error) {
	h.mu.Lock()
	g, kind := h.gates[req.Id], h.kinds[req.Id]
	h.entered[req.Id] = true
	h.cond.Broadcast()
	h.mu.Unlock()
	if g != nil {
		<-g
	}
	switch kind {
	case "silent":
		return nil
	case "fail":
		return fmt.Errorf("scripted failure")
	default:
		return rw.WriteMsg(ctx, req, pipelineResp(req, 0, 1))
	}
}

// waitCond waits (bounded) until ok() holds; ok is called with the lock of c held.
func waitCond(c *sync.Cond, limit time.Duration, ok func() bool) (held bool) {
	deadline := time.Now().Add(limit)
	stop := make(chan struct{})
	defer close(stop)
	go func() {
		// Wake the waiter up so that it notices the deadline.
		t := time.NewTicker(20 * time.Millisecond)
		defer t.Stop()
		for {
			select {
			case <-stop:
				return
			case <-t.C:
				c.L.Lock()
				c.Broadcast()
				c.L.Unlock()
			}
		}
	}()
	c.L.Lock()
	defer c.L.Unlock()
	for !ok() {
		if time.Now().After(deadline) {
			return false
		}
		c.Wait()
	}

	return true
}

// ---------------------------------------------------------------------------
// A fake connection that behaves like a socket

type lifeConn struct {
	mu   sync.Mutex
	cond *sync.Cond
	// buf holds the octets the client has sent and the server has not read yet;
	// ending, once set, is what Read returns after them.
	buf    []byte
	ending error
	// readEnded: a Read has returned an error, the server's read loop is over.
	readEnded bool
	closes    int
	// events: w<id> (a response went out), l<id> (a response was written to the
	// closed connection, once per id), c (Close).
	events  []string
	lostIDs map[uint16]bool
	out     [][]byte
	segs    []int
	seg     int
}

func newLifeConn(segs []int) (c *lifeConn) {
	c = &lifeConn{lostIDs: map[uint16]bool{}, segs: segs}
	c.cond = sync.NewCond(&c.mu)

	return c
}

func (c *lifeConn) send(b []byte) {
	c.mu.Lock()
	defer c.mu.Unlock()
	c.buf = append(c.buf, b...)
	c.cond.Broadcast()
}

// sendEnd makes a frame and the end of the stream available at the same moment.
func (c *lifeConn) sendEnd(b []byte, err error) {
	c.mu.Lock()
	defer c.mu.Unlock()
	c.buf = append(c.buf, b...)
	c.ending = err
	c.cond.Broadcast()
}

func (c *lifeConn) end(err error) {
	c.mu.Lock()
	defer c.mu.Unlock()
	c.ending = err
	c.cond.Broadcast()
}

func (c *lifeConn) Read(p []byte) (n int, err error) {
	c.mu.Lock()
	defer c.mu.Unlock()
	for len(c.buf) == 0 && c.ending == nil && c.closes == 0 {
		c.cond.Wait()
	}
	switch {
	case c.closes > 0:
		c.readEnded = true
		c.cond.Broadcast()

		return 0, net.ErrClosed
	case len(c.buf) > 0:
		k := min(len(p), len(c.buf))
		if len(c.segs) > 0 {
			k = min(k, c.segs[c.seg%len(c.segs)])
			c.seg++
		}
		copy(p, c.buf[:k])
		c.buf = c.buf[k:]

		return k, nil
	default:
		c.readEnded = true
		c.cond.Broadcast()

		return 0, c.ending
	}
}

func (c *lifeConn) Write(p []byte) (n int, err error) {
	c.mu.Lock()
	defer c.mu.Unlock()
	defer c.cond.Broadcast()
	id := uint16(0)
	if len(p) >= 4 {
		id = binary.BigEndian.Uint16(p[2:])
	}
	if c.closes > 0 {
		if !c.lostIDs[id] {
			c.lostIDs[id] = true
			c.events = append(c.events, fmt.Sprintf("l%d", id))
		}

		return 0, net.ErrClosed
	}
	c.events = append(c.events, fmt.Sprintf("w%d", id))
	c.out = append(c.out, bytes.Clone(p))

	return len(p), nil
}

func (c *lifeConn) Close() error {
	c.mu.Lock()
	defer c.mu.Unlock()
	c.closes++
	c.events = append(c.events, "c")
	c.cond.Broadcast()

	return nil
}

func (c *lifeConn) LocalAddr() net.Addr              { return lTCP }
func (c *lifeConn) RemoteAddr() net.Addr             { return rTCP }
func (c *lifeConn) SetDeadline(time.Time) error      { return nil }
func (c *lifeConn) SetReadDeadline(time.Time) error  { return nil }
func (c *lifeConn) SetWriteDeadline(time.Time) error { return nil }

func (c *lifeConn) nEvents() int { return len(c.events) }

// ---------------------------------------------------------------------------
// Schedules

type lifeFrame struct {
	id uint16
	b  []byte
	// kind: answer | fail | silent (reach the handler, wait at the gate),
	// formerr | notimp (answered by the server itself), garbage | response
	// (nothing is written).
	kind string
	req  *dns.Msg
}

func (f lifeFrame) gated() bool { return f.kind == "answer" || f.kind == "fail" || f.kind == "silent" }
func (f lifeFrame) drops() bool {
	return f.kind == "silent" || f.kind == "garbage" || f.kind == "response"
}

func (f lifeFrame) wantRcode() int {
	switch f.kind {
	case "fail":
		return dns.RcodeServerFailure
	case "formerr":
		return dns.RcodeFormatError
	case "notimp":
		return dns.RcodeNotImplemented
	}

	return dns.RcodeSuccess
}

func genLifeFrame(rng interface{ IntN(int) int }, id uint16, kind string) (f lifeFrame) {
	m := &dns.Msg{}
	m.SetQuestion(genNameFrom(rng), pick2(rng, qtypePool))
	m.Id = id
	switch kind {
	case "formerr":
		m.Question = append(m.Question, dns.Question{Name: "second.example.", Qtype: dns.TypeA, Qclass: dns.ClassINET})
	case "notimp":
		m.Opcode = dns.OpcodeStatus
	case "response":
		m.Response = true
	}
	if rng.IntN(3) == 0 {
		m.SetEdns0(1232, false)
	}
	b, err := m.Pack()
	hlib.Must(err)
	if kind == "garbage" {
		// A header that announces a question, and a label that runs past the end.
		b = append(b[:12:12], 0x3f, 'x')
	}

	return lifeFrame{id: id, b: b, kind: kind, req: unpackOrNil(b)}
}

func genNameFrom(rng interface{ IntN(int) int }) string {
	return pick2(rng, namePool)
}

// endings of the client's stream as the server's Read reports them.
var lifeEndings = []struct {
	name string
	err  error
	// judged: the client can still receive after this ending.
	judged bool
}{
	{"halfclose", io.EOF, true},
	{"idle-timeout", &net.OpError{Op: "read", Net: "tcp", Err: os.ErrDeadlineExceeded}, true},
	{"reset", &net.OpError{Op: "read", Net: "tcp", Err: syscall.ECONNRESET}, false},
}

type lifeCase struct {
	Transport string   `json:"transport"`
	Pipeline  int      `json:"max_pipeline_count"`
	Ending    string   `json:"client_stream_ends_with"`
	Frames    []string `json:"frames"`
	Schedule  []string `json:"schedule"`
	Segments  []int    `json:"read_calls_return_at_most,omitempty"`
	Observed  string   `json:"observed"`
	Model     string   `json:"model_events,omitempty"`
}

type lifeServers struct {
	h     *gateHandler
	plain map[int]*dnsserver.ServerDNS
	dot   map[int]*dnsserver.ServerTLS
}

var lifePipelines = []int{0, 1, 2, 3, 100}

func newLifeServers() (ls *lifeServers) {
	ls = &lifeServers{h: newGateHandler(), plain: map[int]*dnsserver.ServerDNS{}, dot: map[int]*dnsserver.ServerTLS{}}
	for _, c := range lifePipelines {
		conf := dnsserver.ConfigDNS{
			ConfigBase:         dnsserver.ConfigBase{Name: fmt.Sprintf("life%d", c), Addr: "127.0.0.1:0", Handler: ls.h},
			MaxPipelineEnabled: c > 0,
			MaxPipelineCount:   uint(c),
		}
		ls.plain[c] = dnsserver.NewServerDNS(conf)
		ls.plain[c].VerifC01MarkStarted()
		ls.dot[c] = dnsserver.NewServerTLS(dnsserver.ConfigTLS{ConfigDNS: conf})
		ls.dot[c].VerifC01MarkStarted()
	}

	return ls
}

func lifecycleCampaign(o *hlib.Opts, r *hlib.Result, m *hlib.Model) {
	rng := o.Rand("lifecycle")
	n := 260
	if o.Thorough() {
		n = 12000
	}
	ls := newLifeServers()
	var lines, reals []string
	var cis []lifeCase
	const limit = 30 * time.Second
	hangCount, dropNoted := 0, false
	for i := 0; i < n; i++ {
		t := pick(rng, []string{"tcp", "dot"})
		pl := pick(rng, lifePipelines)
		ending := lifeEndings[rng.IntN(len(lifeEndings))]
		if rng.IntN(4) > 0 {
			ending = lifeEndings[rng.IntN(2)]
		}
		k := 1 + rng.IntN(6)
		withDrop := rng.IntN(6) == 0
		ids := rng.Perm(65536)
		var frames []lifeFrame
		for j := 0; j < k; j++ {
			kind := pick(rng, []string{"answer", "answer", "answer", "answer", "fail", "formerr", "notimp"})
			if withDrop && rng.IntN(3) == 0 {
				kind = pick(rng, []string{"silent", "silent", "garbage", "response"})
			}
			frames = append(frames, genLifeFrame(rng, uint16(ids[j]), kind))
		}
		var segs []int
		if rng.IntN(2) == 0 {
			segs = genSegments(rng)
		}
		c := newLifeConn(segs)
		ls.h.reset()
		done := make(chan any, 1)
		go func() {
			defer func() { done <- recover() }()
			if t == "tcp" {
				ls.plain[pl].VerifC01ServeTCPConn(context.Background(), c)
			} else {
				ls.dot[pl].VerifC01ServeTCPConn(context.Background(), c)
			}
		}()
		ci := lifeCase{Transport: t, Pipeline: pl, Ending: ending.name, Segments: segs}
		for _, f := range frames {
			ci.Frames = append(ci.Frames, fmt.Sprintf("id=%d %s %s", f.id, f.kind, hex.EncodeToString(f.b)))
		}
		var evs []string
		// The harness's own book-keeping, independent of the model.
		next, ended, finished, endedInFlight := 0, false, false, false
		inflight := []int{}  // gated frames inside the handler
		delivered := []int{} // frames handed to a server that was still reading
		hung := ""
		var panicV any
		waitDone := func() {
			if finished {
				return
			}
			select {
			case panicV = <-done:
				finished = true
			case <-time.After(limit):
				hung = "the connection routine did not return"
			}
		}
		live := func() bool {
			c.mu.Lock()
			defer c.mu.Unlock()

			return !c.readEnded && c.closes == 0
		}
		for hung == "" && !finished {
			if ended && len(inflight) == 0 {
				// The read loop is over and nothing is inside the handler: the routine
				// returns (frames not sent yet never will be read).
				waitDone()

				break
			}
			// Choose the next step of the schedule.
			var choices []string
			if next < len(frames) && (pl == 0 || len(inflight) < pl) {
				choices = append(choices, "send", "send")
			}
			if len(inflight) > 0 {
				choices = append(choices, "release")
			}
			if !ended {
				choices = append(choices, "end")
				if next == len(frames) || len(inflight) > 0 {
					choices = append(choices, "end")
				}
				if len(choices) > 0 && choices[0] == "send" {
					// The frame and the end of the stream arrive together (a client that
					// sends its last query and finishes its side at once).
					choices = append(choices, "sendfin")
				}
			}
			choice := pick(rng, choices)
			switch choice {
			case "send", "sendfin":
				f := frames[next]
				j := next
				next++
				wasLive := live()
				before := c.lockedEvents()
				ci.Schedule = append(ci.Schedule, fmt.Sprintf("send %d", f.id))
				switch {
				case f.kind == "silent":
					evs = append(evs, fmt.Sprintf("d%d", f.id))
				case f.gated():
					evs = append(evs, fmt.Sprintf("r%d", f.id))
				case f.drops():
					evs = append(evs, fmt.Sprintf("d%d", f.id), fmt.Sprintf("f%d", f.id))
				default:
					evs = append(evs, fmt.Sprintf("r%d", f.id), fmt.Sprintf("f%d", f.id))
				}
				if f.gated() {
					ls.h.hold(f.id, f.kind)
				}
				if choice == "sendfin" {
					ci.Schedule[len(ci.Schedule)-1] += " +end:" + ending.name
					evs = append(evs, "e")
					c.sendEnd(prefixed(f.b), ending.err)
					ended = true
				} else {
					c.send(prefixed(f.b))
				}
				if !wasLive {
					// Sent into a stream the server no longer reads.
					break
				}
				delivered = append(delivered, j)
				ok := true
				switch {
				case f.gated():
					ok = ls.h.waitEntered([]uint16{f.id}, limit)
					inflight = append(inflight, j)
				case f.drops():
					ok = waitCond(c.cond, limit, func() bool { return c.closes > 0 && c.readEnded })
					ended = true
				default:
					ok = waitCond(c.cond, limit, func() bool { return c.nEvents() > before })
				}
				if ok && choice == "sendfin" {
					ok = waitCond(c.cond, limit, func() bool { return c.readEnded })
					if len(inflight) > 0 {
						endedInFlight = true
						time.Sleep(2 * time.Millisecond)
					}
				}
				if !ok {
					hung = fmt.Sprintf("frame id=%d (%s) sent to a reading server had no effect", f.id, f.kind)
				}
			case "release":
				x := rng.IntN(len(inflight))
				j := inflight[x]
				inflight = append(inflight[:x], inflight[x+1:]...)
				f := frames[j]
				before := c.lockedEvents()
				ci.Schedule = append(ci.Schedule, fmt.Sprintf("release %d", f.id))
				evs = append(evs, fmt.Sprintf("f%d", f.id))
				ls.h.release(f.id)
				ok := true
				if f.kind == "silent" {
					ok = waitCond(c.cond, limit, func() bool { return c.nEvents() > before && c.readEnded })
					ended = true
				} else {
					ok = waitCond(c.cond, limit, func() bool { return c.nEvents() > before })
				}
				if !ok {
					hung = fmt.Sprintf("the released query id=%d (%s) had no effect", f.id, f.kind)
				}
			case "end":
				ended = true
				ci.Schedule = append(ci.Schedule, "end:"+ending.name)
				evs = append(evs, "e")
				c.end(ending.err)
				if !waitCond(c.cond, limit, func() bool { return c.readEnded }) {
					hung = "the server never read the end of the stream"
				}
				if len(inflight) > 0 {
					// Queries are inside the handler and the read loop is over: give the
					// clean-up the time to do what it does now (it must only wait).
					endedInFlight = true
					time.Sleep(2 * time.Millisecond)
				}
			}
		}
		ls.h.releaseAll()
		if hung == "" {
			waitDone()
		}
		c.mu.Lock()
		events := append([]string(nil), c.events...)
		closes := c.closes
		outs := c.out
		c.mu.Unlock()
		ci.Observed = strings.Join(events, " ")
		ci.Model = strings.Join(evs, " ")
		if hung != "" || panicV != nil {
			r.Violate("hang-"+t, fmt.Sprintf("%s connection with pipelined queries: %s (panic=%v)", t, hung, panicV), ci)
			ls = newLifeServers()
			if hangCount++; hangCount >= 2 {
				// Two are on record with their schedules; every further one costs the watchdog's time.
				r.Notes = append(r.Notes, "connection life cycle: the campaign ended early after two hangs")

				break
			}

			continue
		}
		// ---- the property oracle, on what the client saw ----
		hasDrop := false
		for _, j := range delivered {
			hasDrop = hasDrop || frames[j].drops()
		}
		byID := map[uint16]lifeFrame{}
		for _, f := range frames {
			byID[f.id] = f
		}
		got := map[uint16]int{}
		for _, raw := range outs {
			var s sees
			splitPrefixed(raw, &s)
			if s.garbage > 0 || len(s.msgs) != 1 {
				r.Violate("garbled-response-"+t, t+" connection with pipelined queries: a frame that does not decode", ci)

				continue
			}
			msg := s.msgs[0]
			f, ok := byID[msg.Id]
			switch {
			case !ok:
				r.Violate("foreign-id-"+t, fmt.Sprintf("%s connection: response with id %d that no frame carried", t, msg.Id), ci)
			case f.req == nil || f.drops():
				r.Violate("undecodable-answered-"+t, fmt.Sprintf("%s connection: frame id=%d (%s) must not be answered", t, f.id, f.kind), ci)
			case len(msg.Question) == 0 || !sameQuestion(msg.Question[0], f.req.Question[0]):
				r.Violate("foreign-question-"+t, fmt.Sprintf("%s connection: id %d answered with question %v", t, msg.Id, msg.Question), ci)
			case msg.Rcode != f.wantRcode() || f.kind == "answer" && rrStrings(msg.Answer) != rrStrings(answersFor(f.req, 1)):
				r.Violate("answer-differs-"+t, fmt.Sprintf("%s connection: id %d: rcode %d records %q are not the pipeline's", t, msg.Id, msg.Rcode, rrStrings(msg.Answer)), ci)
			}
			got[msg.Id]++
		}
		for _, j := range delivered {
			f := frames[j]
			switch {
			case f.drops():
			case got[f.id] > 1:
				r.Violate("answer-count-"+t, fmt.Sprintf("%s connection: id %d answered %d times", t, f.id, got[f.id]), ci)
			case got[f.id] == 0 && !hasDrop && ending.judged:
				why := "no response was written"
				if c.lostIDs[f.id] {
					why = "the server closed the connection while the query was still inside the handler and then wrote the response to the closed connection"
				}
				r.Violate("answer-lost-"+ending.name+"-"+t, fmt.Sprintf("%s connection, %d frames pipelined, the client's stream ends (%s) while queries are still being processed: "+
					"the accepted query id=%d (%s) got no answer: %s", t, len(delivered), ending.name, f.id, f.kind, why), ci)
			case got[f.id] == 0 && !hasDrop:
				r.Count("lifecycle:unanswered-after-" + ending.name)
			case got[f.id] == 0:
				r.Count("lifecycle:unanswered-next-to-dropped-frame")
				if !dropNoted {
					dropNoted = true
					r.Notes = append(r.Notes, fmt.Sprintf("connection life cycle, not judged (drop_cuts_inflight): %s, frames %v, schedule %v: the dropped frame made the server close the connection while the accepted query id=%d was inside the handler; observed %q",
						t, ci.Frames, ci.Schedule, f.id, ci.Observed))
				}
			}
		}
		if closes == 0 || closes > 1 && !hasDrop {
			r.Violate("pipeline-broken-"+t, fmt.Sprintf("%s connection: closed %d times by the server", t, closes), ci)
		}
		lines = append(lines, "clife 1 "+strings.Join(evs, " "))
		obs := "-"
		if len(events) > 0 {
			obs = strings.Join(events, " ")
		}
		reals = append(reals, fmt.Sprintf("%s | reading=0 inflight=0 closes=%d", obs, closes))
		cis = append(cis, ci)
		inside := "idle"
		if endedInFlight {
			inside = "in-flight"
		}
		dropped := ""
		if hasDrop {
			dropped = "-with-dropped-frame"
		}
		r.Count(fmt.Sprintf("lifecycle:%s-%s-%s%s", t, ending.name, inside, dropped))
		r.Count(fmt.Sprintf("lifecycle:pipeline-%d", pl))
		r.Case("clife "+t+" "+strings.Join(ci.Frames, ",")+" "+strings.Join(ci.Schedule, ","), true)
		if inside == "in-flight" {
			r.Sample(map[string]string{"lifecycle": t + " " + ending.name, "schedule": strings.Join(ci.Schedule, ", "), "observed": ci.Observed}, 9)
		}
		r.Traces++
	}
	for i, a := range m.Batch(lines) {
		if strings.TrimSpace(a) != reals[i] {
			r.Disagree("conn-lifecycle", fmt.Sprintf("model %q, implementation %q for %q", a, reals[i], lines[i]), cis[i])
		}
	}
	r.ModelOps += len(lines)
}

func (c *lifeConn) lockedEvents() int {
	c.mu.Lock()
	defer c.mu.Unlock()

	return len(c.events)
}

// ---------------------------------------------------------------------------
// The same over loopback sockets

type liveLifeCase struct {
	Transport string   `json:"transport"`
	Ending    string   `json:"scenario"`
	Queries   []string `json:"pipelined_queries"`
	Observed  string   `json:"observed"`
}

// readFrames reads length-prefixed messages until want of them have come, the
// stream ends or the deadline passes.
func readFrames(c net.Conn, want int, wait time.Duration) (msgs []*dns.Msg, garbage int, end string) {
	_ = c.SetReadDeadline(time.Now().Add(wait))
	for {
		var l uint16
		if err := binary.Read(c, binary.BigEndian, &l); err != nil {
			return msgs, garbage, err.Error()
		}
		buf := make([]byte, l)
		if _, err := io.ReadFull(c, buf); err != nil {
			return msgs, garbage + 1, err.Error()
		}
		if mm := unpackOrNil(buf); mm != nil {
			msgs = append(msgs, mm)
		} else {
			garbage++
		}
		if len(msgs) == want {
			// Anything that trails closely (a duplicate).
			_ = c.SetReadDeadline(time.Now().Add(40 * time.Millisecond))
			want = -1
		}
	}
}

func liveLifecycleCampaign(o *hlib.Opts, r *hlib.Result) {
	glog.SetOutput(io.Discard)
	defer glog.SetOutput(os.Stderr)
	rng := o.Rand("live-lifecycle")
	reps := 2
	if o.Thorough() {
		reps = 25
	}
	h := newGateHandler()
	ctx := context.Background()
	judge := func(t, ending string, qs []*dns.Msg, msgs []*dns.Msg, garbage int, end string) {
		ci := liveLifeCase{Transport: t, Ending: ending}
		want := map[uint16]*dns.Msg{}
		for _, q := range qs {
			b, _ := q.Pack()
			ci.Queries = append(ci.Queries, hex.EncodeToString(b))
			want[q.Id] = q
		}
		var sb strings.Builder
		for _, m := range msgs {
			sb.WriteString(canonResp(m) + " ; ")
		}
		ci.Observed = fmt.Sprintf("%d responses: %sstream ended with %q", len(msgs), sb.String(), end)
		got := map[uint16]int{}
		if garbage > 0 {
			r.Violate("garbled-response-"+t, fmt.Sprintf("live %s, %s: a frame that does not decode", t, ending), ci)
		}
		for _, m := range msgs {
			q, ok := want[m.Id]
			switch {
			case !ok:
				r.Violate("foreign-id-"+t, fmt.Sprintf("live %s, %s: response with id %d that no query carried", t, ending, m.Id), ci)
			case len(m.Question) != 1 || !sameQuestion(m.Question[0], q.Question[0]):
				r.Violate("foreign-question-"+t, fmt.Sprintf("live %s, %s: id %d answered with question %v", t, ending, m.Id, m.Question), ci)
			case m.Rcode != dns.RcodeSuccess || rrStrings(m.Answer) != rrStrings(answersFor(q, 1)):
				r.Violate("answer-differs-"+t, fmt.Sprintf("live %s, %s: id %d: rcode %d records %q are not the pipeline's", t, ending, m.Id, m.Rcode, rrStrings(m.Answer)), ci)
			}
			got[m.Id]++
		}
		for _, q := range qs {
			switch got[q.Id] {
			case 1:
			case 0:
				r.Violate("answer-lost-live-"+ending+"-"+t, fmt.Sprintf("live %s listener, %d queries pipelined and inside the handler, then %s: the accepted query id=%d %s got no answer (the client's read ended with %q)",
					t, len(qs), ending, q.Id, q.Question[0].Name, end), ci)
			default:
				r.Violate("answer-count-"+t, fmt.Sprintf("live %s, %s: id %d answered %d times", t, ending, q.Id, got[q.Id]), ci)
			}
		}
		r.Count("live-lifecycle:" + t + "-" + ending)
		r.Case("live-lifecycle "+t+" "+ending+" "+strings.Join(ci.Queries, ","), true)
		r.Traces++
	}
	mkQueries := func(k int) (qs []*dns.Msg, wire []byte, ids []uint16) {
		perm := rng.Perm(65536)
		for j := 0; j < k; j++ {
			q := &dns.Msg{}
			q.SetQuestion(genNameFrom(rng), pick2(rng, qtypePool))
			q.Id = uint16(perm[j])
			if rng.IntN(2) == 0 {
				q.SetEdns0(1232, false)
			}
			b, err := q.Pack()
			hlib.Must(err)
			qs = append(qs, unpackOrNil(b))
			wire = append(wire, prefixed(b)...)
			ids = append(ids, q.Id)
			h.hold(q.Id, "answer")
		}

		return qs, wire, ids
	}
	for rep := 0; rep < reps; rep++ {
		for _, t := range []string{"tcp", "dot"} {
			for _, ending := range []string{"halfclose", "idle-timeout", "shutdown"} {
				h.reset()
				conf := dnsserver.ConfigDNS{
					ConfigBase:         dnsserver.ConfigBase{Name: "live-" + t, Addr: "127.0.0.1:0", Handler: h},
					MaxPipelineEnabled: rep%2 == 0,
					MaxPipelineCount:   100,
				}
				if ending == "idle-timeout" {
					conf.TCPIdleTimeout = 150 * time.Millisecond
				}
				var srv dnsserver.Server
				var addr func() net.Addr
				if t == "tcp" {
					conf.Network = dnsserver.NetworkTCP
					s := dnsserver.NewServerDNS(conf)
					srv, addr = s, s.LocalTCPAddr
				} else {
					s := dnsserver.NewServerTLS(dnsserver.ConfigTLS{ConfigDNS: conf, TLSConfig: c01SelfSigned()})
					srv, addr = s, s.LocalTCPAddr
				}
				if err := srv.Start(ctx); err != nil {
					r.Count("live-lifecycle:could-not-start")

					continue
				}
				stopped := false
				stop := func() error {
					if stopped {
						return nil
					}
					stopped = true
					sctx, cancel := context.WithTimeout(ctx, 8*time.Second)
					defer cancel()

					return srv.Shutdown(sctx)
				}
				func() {
					defer func() { h.releaseAll(); _ = stop() }()
					var c net.Conn
					var err error
					if t == "tcp" {
						c, err = net.DialTimeout("tcp", addr().String(), 3*time.Second)
					} else {
						c, err = tls.DialWithDialer(&net.Dialer{Timeout: 3 * time.Second}, "tcp", addr().String(), clientTLS())
					}
					if err != nil {
						r.Count("live-lifecycle:could-not-dial")

						return
					}
					defer c.Close()
					qs, wire, ids := mkQueries(1 + rng.IntN(4))
					_ = c.SetWriteDeadline(time.Now().Add(3 * time.Second))
					if _, err = c.Write(wire); err != nil {
						r.Count("live-lifecycle:could-not-send")

						return
					}
					if !h.waitEntered(ids, 3*time.Second) {
						// The queries did not all reach the handler (the server's own read
						// time-out on a stalled machine): nothing to judge.
						r.Count("live-lifecycle:not-in-flight")

						return
					}
					var serr error
					sdone := make(chan struct{})
					switch ending {
					case "halfclose":
						if cw, ok := c.(interface{ CloseWrite() error }); ok {
							_ = cw.CloseWrite()
						}
						time.Sleep(40 * time.Millisecond)
					case "idle-timeout":
						time.Sleep(300 * time.Millisecond)
					case "shutdown":
						go func() { serr = stop(); close(sdone) }()
						time.Sleep(60 * time.Millisecond)
					}
					for _, x := range rng.Perm(len(ids)) {
						h.release(ids[x])
					}
					msgs, garbage, end := readFrames(c, len(qs), 5*time.Second)
					judge(t, ending, qs, msgs, garbage, end)
					if ending == "shutdown" {
						<-sdone
						if serr != nil {
							r.Violate("shutdown-hangs", fmt.Sprintf("live %s: Shutdown with %d queries in flight did not finish: %v", t, len(qs), serr),
								liveLifeCase{Transport: t, Ending: ending})
						}
					}
				}()
			}
		}
		// DoH (HTTP/1.1, POST): the request body has ended and the query is inside the
		// handler when Shutdown is called; a graceful shutdown lets it finish.
		h.reset()
		hsrv := dnsserver.NewServerHTTPS(dnsserver.ConfigHTTPS{
			ConfigBase: dnsserver.ConfigBase{Name: "live-doh", Addr: "127.0.0.1:0", Handler: h, Network: dnsserver.NetworkTCP}})
		if err := hsrv.Start(ctx); err != nil {
			r.Count("live-lifecycle:could-not-start")
		} else {
			func() {
				stopped := false
				stop := func() error {
					if stopped {
						return nil
					}
					stopped = true
					sctx, cancel := context.WithTimeout(ctx, 8*time.Second)
					defer cancel()

					return hsrv.Shutdown(sctx)
				}
				defer func() { h.releaseAll(); _ = stop() }()
				qs, _, ids := mkQueries(1)
				b, _ := qs[0].Pack()
				tr := &http.Transport{}
				defer tr.CloseIdleConnections()
				type hres struct {
					body []byte
					code int
					err  error
				}
				resc := make(chan hres, 1)
				go func() {
					cl := &http.Client{Transport: tr, Timeout: 6 * time.Second}
					resp, err := cl.Post("http://"+hsrv.LocalTCPAddr().String()+"/dns-query", dnsserver.MimeTypeDoH, bytes.NewReader(b))
					if err != nil {
						resc <- hres{err: err}

						return
					}
					body, _ := io.ReadAll(resp.Body)
					_ = resp.Body.Close()
					resc <- hres{body: body, code: resp.StatusCode}
				}()
				if !h.waitEntered(ids, 3*time.Second) {
					r.Count("live-lifecycle:not-in-flight")

					return
				}
				var serr error
				sdone := make(chan struct{})
				go func() { serr = stop(); close(sdone) }()
				time.Sleep(60 * time.Millisecond)
				h.releaseAll()
				res := <-resc
				var msgs []*dns.Msg
				garbage := 0
				end := fmt.Sprintf("HTTP %d", res.code)
				if res.err != nil {
					end = res.err.Error()
				} else if res.code == http.StatusOK {
					if mm := unpackOrNil(res.body); mm != nil {
						msgs = append(msgs, mm)
					} else {
						garbage++
					}
				}
				judge("dohpost", "shutdown", qs, msgs, garbage, end)
				<-sdone
				if serr != nil {
					r.Violate("shutdown-hangs", fmt.Sprintf("live DoH: Shutdown with a query in flight did not finish: %v", serr), liveLifeCase{Transport: "dohpost", Ending: "shutdown"})
				}
			}()
		}
		// DoQ: every stream is finished by the client right after the query, while
		// the query is still inside the handler.
		h.reset()
		tc := c01SelfSigned().Clone()
		tc.NextProtos = dnsserver.NextProtoDoQ
		qsrv := dnsserver.NewServerQUIC(dnsserver.ConfigQUIC{TLSConfig: tc,
			ConfigBase: dnsserver.ConfigBase{Name: "live-doq", Addr: "127.0.0.1:0", Handler: h}})
		if err := qsrv.Start(ctx); err != nil {
			r.Count("live-lifecycle:could-not-start")

			continue
		}
		func() {
			defer func() {
				h.releaseAll()
				sctx, cancel := context.WithTimeout(ctx, 8*time.Second)
				defer cancel()
				_ = qsrv.Shutdown(sctx)
			}()
			dctx, cancel := context.WithTimeout(ctx, 5*time.Second)
			defer cancel()
			conn, err := quic.DialAddr(dctx, qsrv.LocalUDPAddr().String(), clientTLS("doq"), &quic.Config{})
			if err != nil {
				r.Count("live-lifecycle:could-not-dial")

				return
			}
			defer func() { _ = conn.CloseWithError(0, "") }()
			qs, _, ids := mkQueries(1 + rng.IntN(4))
			var streams []quic.Stream
			for _, q := range qs {
				st, serr := conn.OpenStreamSync(dctx)
				if serr != nil {
					r.Count("live-lifecycle:could-not-send")

					return
				}
				b, _ := q.Pack()
				_, _ = st.Write(prefixed(b))
				_ = st.Close()
				streams = append(streams, st)
			}
			if !h.waitEntered(ids, 3*time.Second) {
				r.Count("live-lifecycle:not-in-flight")

				return
			}
			time.Sleep(40 * time.Millisecond)
			h.releaseAll()
			for i, st := range streams {
				_ = st.SetReadDeadline(time.Now().Add(5 * time.Second))
				raw, rerr := io.ReadAll(st)
				var s sees
				splitPrefixed(raw, &s)
				end := "EOF"
				if rerr != nil {
					end = rerr.Error()
				}
				judge("doq", "stream-fin", []*dns.Msg{qs[i]}, s.msgs, s.garbage, end)
			}
		}()
	}
	r.Notes = append(r.Notes, "connection life cycle, live: TCP shutdown(SHUT_WR), TLS close_notify, the idle time-out and Shutdown with pipelined queries inside the handler on loopback TCP and DoT listeners; DoQ streams finished by the client before the answer")
}
