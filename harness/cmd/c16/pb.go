package main

import (
	"context"
	"errors"
	"fmt"
	"io"
	"math/big"
	"net"
	"net/url"
	"strings"
	"sync"
	"time"

	"github.com/AdguardTeam/AdGuardDNS/internal/agd"
	"github.com/AdguardTeam/AdGuardDNS/internal/backendpb"
	"github.com/AdguardTeam/AdGuardDNS/internal/billstat"
	"github.com/AdguardTeam/AdGuardDNS/internal/geoip"
	"github.com/AdguardTeam/AdGuardDNS/verifh/hlib"
	"github.com/AdguardTeam/golibs/logutil/slogutil"
	"google.golang.org/grpc"
	"google.golang.org/grpc/codes"
	"google.golang.org/grpc/credentials/insecure"
	"google.golang.org/grpc/metadata"
	"google.golang.org/grpc/status"
	"google.golang.org/protobuf/protoadapt"
	"google.golang.org/protobuf/types/known/durationpb"
	"google.golang.org/protobuf/types/known/emptypb"
)

// End-to-end campaign: the real RuntimeRecorder uploads through the real
// backendpb.BillStat to an in-process gRPC backend that accepts a stream, or
// fails it after k messages, or fails it at the end.  "Delivered" is what the
// backend received on streams it acknowledged.

type pbPlan struct {
	failAfter int        // -1: accept; k ≥ 0: fail once k messages were received (or at end of stream)
	code      codes.Code // status code of the failure
	detail    int        // 0: none; 1: rate-limited; 2: bad request; 3: authentication failed; 4: device quota
	stall     bool       // instead of failing, never answer: the client's deadline ends the upload
	noResp    bool       // accept, but end the RPC with status OK without sending the response message
	dead      bool       // the upload goes to an endpoint nobody listens on
}

var pbCodes = []codes.Code{
	codes.Unavailable, codes.Unavailable, codes.DeadlineExceeded, codes.Canceled, codes.AlreadyExists, codes.ResourceExhausted,
	codes.Internal, codes.Unauthenticated, codes.InvalidArgument, codes.Unknown, codes.Aborted, codes.OutOfRange,
}

func (p pbPlan) String() string {
	if p.failAfter < 0 {
		if p.noResp {
			return "accept-without-response"
		}

		return "accept"
	}
	if p.dead {
		return "dead-after-0"
	}
	if p.stall {
		return fmt.Sprintf("stall-after-%d", p.failAfter)
	}

	return fmt.Sprintf("fail-after-%d-%s-detail%d", p.failAfter, p.code, p.detail)
}

func (p pbPlan) err(where string) (err error) {
	st := status.New(p.code, "verif: scripted backend failure"+where)
	var d protoadapt.MessageV1
	switch p.detail {
	case 1:
		d = &backendpb.RateLimitedError{Message: "verif", RetryDelay: durationpb.New(time.Hour)}
	case 2:
		d = &backendpb.BadRequestError{Message: "verif"}
	case 3:
		d = &backendpb.AuthenticationFailedError{Message: "verif"}
	case 4:
		d = &backendpb.DeviceQuotaExceededError{Message: "verif"}
	default:
		return st.Err()
	}
	if std, derr := st.WithDetails(d); derr == nil {
		return std.Err()
	}

	return st.Err()
}

type pbStream struct {
	got      []*backendpb.DeviceBillingStat
	accepted bool
	// auth is the authorization metadata the stream was opened with.
	auth []string
	// plan is how the backend was told to treat the stream.
	plan pbPlan
}

type pbServer struct {
	backendpb.UnimplementedDNSServiceServer

	mu      sync.Mutex
	plan    pbPlan
	streams []*pbStream
}

func (s *pbServer) SaveDevicesBillingStat(
	srv grpc.ClientStreamingServer[backendpb.DeviceBillingStat, emptypb.Empty],
) (err error) {
	s.mu.Lock()
	plan := s.plan
	st := &pbStream{plan: plan}
	if md, ok := metadata.FromIncomingContext(srv.Context()); ok {
		st.auth = md.Get("authorization")
	}
	s.streams = append(s.streams, st)
	s.mu.Unlock()

	for {
		if plan.failAfter >= 0 && len(st.got) >= plan.failAfter {
			if plan.stall {
				<-srv.Context().Done()
			}

			return plan.err("")
		}
		data, recvErr := srv.Recv()
		if recvErr != nil {
			if errors.Is(recvErr, io.EOF) {
				if plan.failAfter >= 0 {
					if plan.stall {
						<-srv.Context().Done()
					}

					return plan.err(" at end of stream")
				}
				s.mu.Lock()
				st.accepted = true
				s.mu.Unlock()
				if plan.noResp {
					return nil
				}

				return srv.SendAndClose(&emptypb.Empty{})
			}

			return recvErr
		}
		s.mu.Lock()
		st.got = append(st.got, data)
		s.mu.Unlock()
	}
}

// teeUploader remembers the batch the recorder handed over and forwards it to
// the real uploader.
type teeUploader struct {
	real billstat.Uploader
	snap map[int]rec
	err  error
	n    int
}

func (t *teeUploader) Upload(ctx context.Context, records billstat.Records) (err error) {
	t.snap = canonRecords(records)
	t.n++
	t.err = t.real.Upload(ctx, records)

	return t.err
}

func pbToRec(d *backendpb.DeviceBillingStat) (dev int, r rec) {
	return devNum(agd.DeviceID(d.DeviceId)), rec{N: int64(d.Queries), M: meta{
		T: d.LastActivityTime.AsTime().UnixNano(), C: ctryIndex(geoip.Country(d.ClientCountry)), A: d.Asn, P: uint8(d.Proto),
	}}
}

// showWire prints a message as the model's `wire` op does.
func showWire(msg *backendpb.DeviceBillingStat) string {
	return fmt.Sprintf("w %d %d %d %d %d %d %d", devNum(agd.DeviceID(msg.DeviceId)), msg.LastActivityTime.GetSeconds(),
		msg.LastActivityTime.GetNanos(), ctryIndex(geoip.Country(msg.ClientCountry)), msg.Proto, msg.Asn, msg.Queries)
}

// wireCampaign hands crafted batches directly to the real uploader: counts
// around 2^31 and 2^32 (held by the int32 field as Go's wrapping arithmetic
// leaves them), times before 1970 and with every nanosecond digit, extreme
// ASNs and protocols.  Oracle: the acknowledged message carries the count
// modulo 2^32 and exactly the record's time, country, ASN and protocol.
// farTimes are (seconds, nanoseconds) since 1970 of times outside the range of
// an int64 of nanoseconds.
var farTimes = [][2]int64{
	{-62135596800, 0}, {-62135596800, 1}, {253402300799, 999_999_999}, {1 << 34, 5}, {-(1 << 35), 999_999_999},
	{9223372037, 0}, {-9223372037, 0}, {9223372036, 854_775_808}, {-9223372037, 145_224_191},
}

func wireCampaign(x *runner, bs *backendpb.BillStat, srv *pbServer) {
	r := x.r
	rng := x.o.Rand("wire")
	counts := []uint64{1, 2, 255, 256, 65535, 65536, 1<<31 - 1, 1 << 31, 1<<31 + 5, 1<<32 - 1, 1 << 32, 1<<32 + 7, 3 << 31}
	times := []int64{0, 1, -1, -1_000_000_000, -1_000_000_001, 999_999_999, 1_000_000_000, 1_700_000_000_123_456_789,
		-2_208_988_800_000_000_000, 4_102_444_800_999_999_999}
	rounds := 20
	if x.o.Thorough() {
		rounds = 200
	}
	for round := 0; round < rounds && !x.expired(); round++ {
		k := 1 + rng.IntN(12)
		recs := billstat.Records{}
		want := map[int]string{}
		var lines, real []string
		lines, real = append(lines, "init 1"), append(real, "ok")
		type crafted struct {
			n uint64
			m meta
			// ts is the time in nanoseconds since 1970 as a decimal number: it
			// does not fit into an int64 for the far times.
			ts string
		}
		in := map[int]crafted{}
		for d := 0; d < k; d++ {
			n := counts[rng.IntN(len(counts))]
			if rng.IntN(3) == 0 {
				n = rng.Uint64N(1 << 33)
				if n == 0 {
					n = 1
				}
			}
			t := times[rng.IntN(len(times))]
			if rng.IntN(3) == 0 {
				t = rng.Int64N(4e18) - 2e18
			}
			m := meta{T: t, C: rng.IntN(len(countries)), A: asns[rng.IntN(len(asns))], P: uint8(rng.IntN(256))}
			sec, nano := t/1_000_000_000, t%1_000_000_000
			if nano < 0 {
				sec, nano = sec-1, nano+1_000_000_000
			}
			tm := time.Unix(0, t)
			if rng.IntN(4) == 0 {
				// Times a time.Time can hold but an int64 of nanoseconds
				// cannot (more than 292 years from 1970): the zero Time, the
				// last second of the year 9999, and others.
				far := farTimes[rng.IntN(len(farTimes))]
				sec, nano = far[0], far[1]
				tm = time.Unix(sec, nano)
				if sec == -62135596800 && nano == 0 {
					tm = time.Time{}
				}
				m.T = 0
				r.Count("wire.far_time")
			}
			ts := new(big.Int).Add(new(big.Int).Mul(big.NewInt(sec), big.NewInt(1_000_000_000)), big.NewInt(nano)).String()
			in[d] = crafted{n, m, ts}
			// int32(n) is what n increments of an int32 leave behind.
			recs[devID(d)] = &billstat.Record{Time: tm, Country: countries[m.C], ASN: geoip.ASN(m.A),
				Queries: int32(n), Proto: agd.Protocol(m.P)}
			want[d] = fmt.Sprintf("w %d %d %d %d %d %d %d", d, sec, nano, m.C, m.P, m.A, n%(1<<32))
		}
		srv.mu.Lock()
		srv.plan = pbPlan{failAfter: -1}
		srv.streams = nil
		srv.mu.Unlock()
		ctx, cancel := context.WithTimeout(context.Background(), 20*time.Second)
		err := bs.Upload(ctx, recs)
		cancel()
		srv.mu.Lock()
		streams := srv.streams
		srv.mu.Unlock()
		replay := map[string]any{"campaign": "wire", "round": round, "records": fmt.Sprint(in)}
		if err != nil || len(streams) != 1 || !streams[0].accepted || len(streams[0].got) != k {
			r.Violate("lost-queries", fmt.Sprintf("wire: direct Upload of %d crafted records: err=%v, streams=%d", k, err, len(streams)), replay)

			continue
		}
		seen := map[int]bool{}
		for _, msg := range streams[0].got {
			d := devNum(agd.DeviceID(msg.DeviceId))
			got := showWire(msg)
			if seen[d] {
				r.Violate("double-counted-queries", fmt.Sprintf("wire: device %d sent twice in one upload", d), replay)
			}
			seen[d] = true
			if got != want[d] {
				r.Violate("wire-differs-from-record", fmt.Sprintf("wire: record %v of device %d went out as %q, want %q", in[d], d, got, want[d]), replay)
			}
			c := in[d]
			lines = append(lines, fmt.Sprintf("wire %d %d %s %d %d %d", d, c.n, c.ts, c.m.C, c.m.A, c.m.P))
			real = append(real, got)
		}
		x.m.ResetLog()
		ans := x.m.Batch(lines)
		r.ModelOps += len(lines)
		agree := true
		for i := range lines {
			if ans[i] != real[i] {
				agree = false
				r.Disagree("model-vs-uploader-wire", fmt.Sprintf("%q: uploader %q, model %q", lines[i], real[i], ans[i]),
					map[string]any{"lines": lines, "real": real, "model": ans})

				break
			}
		}
		if agree {
			r.Traces++
		}
		r.Count("case.wire")
		r.Distribution["wire.records"] += k
		r.Case("wire;"+strings.Join(lines, ";"), true)
	}
}

// compareLines sends lines to the model and compares the answers with real;
// a real answer "*" is not compared (the line only moves the model along).
func compareLines(x *runner, kind string, lines, real []string) {
	r := x.r
	x.m.ResetLog()
	ans := x.m.Batch(lines)
	r.ModelOps += len(lines)
	for i := range lines {
		if real[i] != "*" && ans[i] != real[i] {
			r.Disagree(kind, fmt.Sprintf("op %d %q: real %q, model %q [ops: %s]", i, lines[i], real[i], ans[i],
				strings.Join(lines[:i+1], "; ")), map[string]any{"lines": lines, "real": real, "model": ans})

			return
		}
	}
	r.Traces++
}

// sendFailCampaign hands batches that contain one record protobuf cannot
// marshal directly to the real uploader: stream.Send fails at that record.
// Oracle: Upload returns an error, and no stream is acknowledged.
func sendFailCampaign(x *runner, bs *backendpb.BillStat, srv *pbServer) {
	r := x.r
	rng := x.o.Rand("sendfail")
	rounds := 12
	if x.o.Thorough() {
		rounds = 100
	}
	for round := 0; round < rounds && !x.expired(); round++ {
		k := rng.IntN(9)
		recs := billstat.Records{}
		for d := 0; d < k; d++ {
			recs[devID(d)] = &billstat.Record{Time: time.Unix(0, int64(d)), Country: countries[d%len(countries)], Queries: int32(1 + d)}
		}
		bad := &billstat.Record{Time: time.Unix(0, 77), Country: countries[1], Queries: 3}
		if round%2 == 0 {
			recs[devID(poisonBase+round)] = bad
		} else {
			// a country that is not valid UTF-8
			bad.Country = geoip.Country("\xc3\x28")
			recs[devID(k)] = bad
		}
		srv.mu.Lock()
		srv.plan = pbPlan{failAfter: -1}
		srv.streams = nil
		srv.mu.Unlock()
		ctx, cancel := context.WithTimeout(context.Background(), 20*time.Second)
		err := bs.Upload(ctx, recs)
		cancel()
		srv.mu.Lock()
		nAcc := 0
		for _, st := range srv.streams {
			if st.accepted {
				nAcc++
			}
		}
		srv.mu.Unlock()
		replay := map[string]any{"campaign": "sendfail", "round": round, "records": k + 1}
		how := "none"
		if err != nil {
			how = "other"
			if strings.Contains(err.Error(), "uploading device") {
				how = "send"
			}
		}
		r.Count("sendfail.err." + how)
		if err == nil {
			r.Violate("lost-queries", fmt.Sprintf(
				"sendfail: Upload of %d records returned nil although one of them could not be sent (acknowledged streams: %d)", k+1, nAcc), replay)
		}
		if nAcc != 0 && err != nil {
			r.Violate("double-counted-queries", "sendfail: the backend acknowledged a stream of an upload that failed", replay)
		}
		realAns := "err"
		if err == nil {
			realAns = fmt.Sprintf("ok %d", k)
		}
		compareLines(x, "model-vs-uploader-send", []string{"init 1", fmt.Sprintf("upload %d send %d", k+1, rng.IntN(k+1))}, []string{"ok", realAns})
		r.Count("case.sendfail")
		r.Case(fmt.Sprintf("sendfail;%d;%d", k, round%2), true)
	}
}

// bumpUploader plays a failing backend; before it fails it adds bump[d] to the
// count of device d in the batch.  For the recorder that is the state it would
// be in if bump[d] more queries of d (with the data of its most recent one)
// had been recorded before the batch was cut — the only affordable way to
// take the real Record / remergeRecords / recordToProtobuf through counts
// around 2^31 and 2^32.  during runs while the upload is in flight.
type bumpUploader struct {
	bump   map[int]uint32
	during func()
	next   billstat.Uploader
	snap   map[int]rec
}

func (u *bumpUploader) Upload(ctx context.Context, records billstat.Records) (err error) {
	if u.next != nil {
		u.snap = canonRecords(records)

		return u.next.Upload(ctx, records)
	}
	if u.during != nil {
		u.during()
	}
	for d, x := range u.bump {
		if rc := records[devID(d)]; rc != nil {
			rc.Queries += int32(x)
		}
	}

	return errUpload
}

// hugeCampaign: per-device counts that cross 2^31 (where the int32 field goes
// negative) and approach 2^32, reached inside Record (Queries++), inside
// remergeRecords (+=) and on the wire, through the real recorder and the real
// gRPC uploader.
func hugeCampaign(x *runner, bs *backendpb.BillStat, srv *pbServer) {
	r := x.r
	rng := x.o.Rand("huge")
	rounds := 24
	if x.o.Thorough() {
		rounds = 300
	}
	targets := []uint64{1<<31 - 2, 1<<31 - 1, 1 << 31, 1<<31 + 1, 1<<31 + 2, 3 << 30, 1<<32 - 3, 1<<32 - 2, 1<<32 - 1}
	g := &gen{rng: rng, clock: 1_700_000_000_000_000_000, overlap: new(int)}
	for round := 0; round < rounds && !x.expired(); round++ {
		up := &bumpUploader{}
		rr := billstat.NewRuntimeRecorder(&billstat.RuntimeRecorderConfig{
			Logger: slogutil.NewDiscardLogger(), ErrColl: quietErrColl(), Uploader: up, Metrics: billstat.EmptyMetrics{},
		})
		ctx, cancel := context.WithTimeout(context.Background(), 20*time.Second)
		// Device 0 reaches total; device 1 stays small.  The total is split
		// into: a queries before the first cut, bump1 (fast-forward),
		// f1 queries while the first upload is in flight, a second failed
		// upload with bump2 and f2 queries in flight, then t queries.
		total := targets[round%len(targets)]
		if round >= len(targets) && rng.IntN(3) == 0 {
			total = 1<<31 - 4 + rng.Uint64N(8)
		}
		a, f1, f2, t := uint64(1+rng.IntN(3)), uint64(rng.IntN(4)), uint64(rng.IntN(4)), uint64(rng.IntN(4))
		rest := total - a - f1 - f2 - t
		var bump1, bump2 uint64
		switch round % 3 {
		case 0:
			bump1 = rest
		case 1:
			bump1 = rest / 2
			bump2 = rest - bump1
		default:
			bump1 = 1<<31 - 1 - a // the batch comes back holding exactly MaxInt32
			if bump1 > rest {
				bump1 = rest
			}
			bump2 = rest - bump1
		}
		var recorded [2]uint64
		var last [2]meta
		lines, real := []string{"init 2"}, []string{"ok"}
		var log []string
		recN := func(d int, n uint64, cmp bool) {
			if n == 0 {
				return
			}
			m := g.meta()
			for i := uint64(0); i < n; i++ {
				rr.Record(ctx, devID(d), countries[m.C], geoip.ASN(m.A), time.Unix(0, m.T), agd.Protocol(m.P))
			}
			recorded[d] += n
			last[d] = m
			line := fmt.Sprintf("recn %d %d %d %d %d %d", d, n, m.T, m.C, m.A, m.P)
			log = append(log, line)
			ans := "*"
			if cmp {
				one := map[int]rec{}
				if p, ok := canonRecords(verifPending(rr))[d]; ok {
					one[d] = p
				}
				ans = showRecs("pend", one)
			}
			lines, real = append(lines, line), append(real, ans)
		}
		violate := func(sig, what string) {
			r.Violate(sig, "huge counts: "+what+" [ops: "+strings.Join(log, "; ")+"]",
				map[string]any{"campaign": "huge", "round": round, "ops": append([]string{}, log...)})
		}
		check := func(where string, delivered [2]uint64) (pend map[int]rec) {
			pend = canonRecords(verifPending(rr))
			for d := 0; d < 2; d++ {
				got, want := delivered[d]+uint64(pend[d].N), recorded[d]
				if got < want {
					violate("lost-queries", fmt.Sprintf("%s: device %d: delivered %d + pending %d < recorded %d", where, d, delivered[d], pend[d].N, want))
				} else if got > want {
					violate("double-counted-queries", fmt.Sprintf("%s: device %d: delivered %d + pending %d > recorded %d", where, d, delivered[d], pend[d].N, want))
				}
				if p, ok := pend[d]; ok && p.M != last[d] {
					violate("stale-meta-pending", fmt.Sprintf("%s: device %d pending meta %s, most recent query had %s", where, d, p.M, last[d]))
				}
			}

			return pend
		}
		failing := func(bump uint64, inflight uint64) {
			// The fast-forwarded queries are, for the model and the oracle,
			// queries recorded before the cut with the data of the latest one.
			if bump > 0 {
				m := last[0]
				line := fmt.Sprintf("recn 0 %d %d %d %d %d", bump, m.T, m.C, m.A, m.P)
				log = append(log, line+" (fast-forward)")
				lines, real = append(lines, line), append(real, "*")
				recorded[0] += bump
			}
			lines, real = append(lines, "begin"), append(real, "*")
			up.bump = map[int]uint32{0: uint32(bump)}
			up.during = func() {
				recN(0, inflight, false)
				if rng.IntN(2) == 0 {
					recN(1, 1, false)
				}
			}
			err := rr.Refresh(ctx)
			log = append(log, "refresh->fail")
			if err == nil {
				violate("refresh-nil-on-failure", "Refresh returned nil although Upload failed")
			}
			pend := check("after the failed upload", [2]uint64{})
			lines, real = append(lines, "fail 0"), append(real, showRecs("pend", pend))
		}
		recN(0, a, true)
		if rng.IntN(2) == 0 {
			recN(1, 1, true)
		}
		failing(bump1, f1)
		if bump2 > 0 || round%2 == 0 {
			failing(bump2, f2)
		} else {
			recN(0, f2, true)
		}
		recN(0, t, true)
		check("before the final upload", [2]uint64{})
		// The final upload goes through the real gRPC uploader.
		up.next = bs
		srv.mu.Lock()
		srv.plan = pbPlan{failAfter: -1}
		srv.streams = nil
		srv.mu.Unlock()
		err := rr.Refresh(ctx)
		cancel()
		log = append(log, "refresh(real uploader, backend=accept)")
		lines, real = append(lines, "begin"), append(real, showRecs("batch", up.snap))
		var delivered [2]uint64
		srv.mu.Lock()
		var streams []*pbStream
		for _, st := range srv.streams {
			// Handlers of earlier, abandoned streams may start late; they
			// are never acknowledged.
			if st.accepted {
				streams = append(streams, st)
			}
		}
		srv.mu.Unlock()
		if err != nil || len(streams) != 1 {
			violate("lost-queries", fmt.Sprintf("final upload: err=%v, acknowledged streams=%d", err, len(streams)))
		} else {
			for _, msg := range streams[0].got {
				d, rc := pbToRec(msg)
				if d < 0 || d > 1 {
					continue
				}
				delivered[d] += uint64(rc.N)
				if rc.M != last[d] {
					violate("stale-meta-reported", fmt.Sprintf("device %d reported with meta %s, its most recent query had %s", d, rc.M, last[d]))
				}
				b := up.snap[d]
				lines = append(lines, fmt.Sprintf("wire %d %d %d %d %d %d", d, recorded[d], b.M.T, b.M.C, b.M.A, b.M.P))
				real = append(real, showWire(msg))
			}
			lines, real = append(lines, "ok 0"), append(real, "pend")
		}
		check("after the final acknowledged upload", delivered)
		compareLines(x, "model-vs-recorder-huge", lines, real)
		r.Count("case.huge")
		switch {
		case total < 1<<31:
			r.Count("huge.total.below_2^31")
		case total < 1<<31+8:
			r.Count("huge.total.just_above_2^31")
		default:
			r.Count("huge.total.towards_2^32")
		}
		r.Case("huge;"+strings.Join(lines, ";"), true)
	}
}

func pbCampaign(x *runner) {
	r := x.r
	l, err := net.Listen("tcp", "127.0.0.1:0")
	if err != nil {
		r.Notes = append(r.Notes, "end-to-end gRPC campaign skipped: cannot listen on loopback: "+err.Error())

		return
	}
	srv := &pbServer{}
	gs := grpc.NewServer(grpc.ConnectionTimeout(1*time.Second), grpc.Creds(insecure.NewCredentials()))
	backendpb.RegisterDNSServiceServer(gs, srv)
	go func() { _ = gs.Serve(l) }()
	defer gs.Stop()

	bs, err := backendpb.NewBillStat(&backendpb.BillStatConfig{
		Logger:      slogutil.NewDiscardLogger(),
		GRPCMetrics: backendpb.EmptyGRPCMetrics{},
		ErrColl:     quietErrColl(),
		Endpoint:    &url.URL{Scheme: "grpc", Host: l.Addr().String()},
	})
	hlib.Must(err)

	// A second uploader whose endpoint refuses connections: opening the
	// stream fails.
	dl, err := net.Listen("tcp", "127.0.0.1:0")
	hlib.Must(err)
	deadAddr := dl.Addr().String()
	_ = dl.Close()
	bsDead, err := backendpb.NewBillStat(&backendpb.BillStatConfig{
		Logger:      slogutil.NewDiscardLogger(),
		GRPCMetrics: backendpb.EmptyGRPCMetrics{},
		ErrColl:     quietErrColl(),
		Endpoint:    &url.URL{Scheme: "grpc", Host: deadAddr},
	})
	hlib.Must(err)

	wireCampaign(x, bs, srv)
	sendFailCampaign(x, bs, srv)
	hugeCampaign(x, bs, srv)

	rng := x.o.Rand("grpc")
	cases := 150
	if x.o.Thorough() {
		cases = 600
	}
	budget := 0
	stalls := 12
	if x.o.Thorough() {
		stalls = 60
	}
	g := &gen{rng: rng, clock: 1_700_000_000_000_000_000, overlap: &budget}
	for c := 0; c < cases && !x.expired(); c++ {
		k := 1 + rng.IntN(4)
		wide := c%12 == 5
		if wide {
			// Batches with many records: limits on the size of a stream.
			k = []int{65, 101, 129, 257, 1025}[rng.IntN(5)] + rng.IntN(9)
		}
		// Every sixth case gets, at some point, a device whose record cannot be
		// marshalled: from then on every upload fails in stream.Send, at a
		// position that depends on the map order, after some records have
		// already gone out.  Nothing may count as delivered and nothing may be
		// dropped.  The poison device is device k.
		poison, poisoned := c%6 == 2, false
		nDev := k
		if poison {
			nDev = k + 1
		}
		idOf := func(d int) agd.DeviceID {
			if poison && d == k {
				return devID(poisonBase + c)
			}

			return devID(d)
		}
		numOf := func(d int) int {
			if d >= poisonBase {
				return k
			}

			return d
		}
		renum := func(m map[int]rec) map[int]rec {
			out := make(map[int]rec, len(m))
			for d, x := range m {
				out[numOf(d)] = x
			}

			return out
		}
		tee := &teeUploader{real: bs}
		rr := billstat.NewRuntimeRecorder(&billstat.RuntimeRecorderConfig{
			Logger: slogutil.NewDiscardLogger(), ErrColl: quietErrColl(), Uploader: tee, Metrics: billstat.EmptyMetrics{},
		})
		ctx, cancel := context.WithTimeout(context.Background(), 20*time.Second)
		recorded, delivered, last := map[int]int64{}, map[int]int64{}, map[int]meta{}
		lines, real := []string{fmt.Sprintf("init %d", nDev)}, []string{"ok"}
		var log []string
		nOK, nFail := 0, 0
		violate := func(sig, what string) {
			r.Violate(sig, "grpc end-to-end: "+what+" [ops: "+strings.Join(log, "; ")+"]",
				map[string]any{"campaign": "grpc", "devices": k, "ops": append([]string{}, log...)})
		}
		steps := 2 + rng.IntN(30)
		prefill := []int{}
		if wide {
			prefill = rng.Perm(k)
			steps += len(prefill)
		}
		for s := 0; s <= steps; s++ {
			final := s == steps
			if s < len(prefill) || (!final && rng.IntN(100) < 65) {
				o := op{K: opRec, D: rng.IntN(k), M: g.meta()}
				if s < len(prefill) {
					o.D = prefill[s]
				} else if poison && (rng.IntN(6) == 0 || (!poisoned && s >= steps/2)) {
					o.D = k
					poisoned = true
					r.Count("grpc.poison_record")
				} else if c%10 == 3 && rng.IntN(4) == 0 {
					// Large counts on the wire.
					o.N = []int{255, 256, 65535, 65536, 70001}[rng.IntN(5)]
				}
				for i := 0; i < max(o.N, 1); i++ {
					rr.Record(ctx, idOf(o.D), countries[o.M.C], geoip.ASN(o.M.A), time.Unix(0, o.M.T), agd.Protocol(o.M.P))
				}
				recorded[o.D] += int64(max(o.N, 1))
				last[o.D] = o.M
				log = append(log, o.String())
				one := map[int]rec{}
				if p, ok := renum(canonRecords(verifPending(rr)))[o.D]; ok {
					one[o.D] = p
				}
				lines, real = append(lines, o.String()), append(real, showRecs("pend", one))

				continue
			}
			plan := pbPlan{failAfter: -1}
			if !final {
				switch rng.IntN(5) {
				case 0:
					plan.failAfter = 0
				case 1:
					plan.failAfter = 1 + rng.IntN(3)
					if wide {
						plan.failAfter = 1 + rng.IntN(k)
					}
				case 2:
					plan.failAfter = 1 << 30 // at the end of the stream
				}
				plan.code = pbCodes[rng.IntN(len(pbCodes))]
				if rng.IntN(4) == 0 {
					plan.detail = 1 + rng.IntN(4)
				}
				plan.stall = plan.failAfter >= 0 && stalls > 0 && rng.IntN(12) == 0
				plan.dead = plan.failAfter >= 0 && !plan.stall && rng.IntN(8) == 0
			}
			// The backend may end the RPC with status OK without a response
			// message: CloseAndRecv then returns io.EOF, which Upload takes as
			// an acknowledgement.
			plan.noResp = plan.failAfter < 0 && rng.IntN(5) == 0
			// The context may be done before the real uploader is entered (the
			// shutdown refresh after the shutdown timeout has run out, a debug
			// request the client has dropped).  The backend would accept; an
			// uploader that returns nil without having delivered loses the batch.
			ctxDone := 0
			if !final && !plan.stall && !plan.dead && rng.IntN(7) == 0 {
				ctxDone = 1 + rng.IntN(2)
				plan = pbPlan{failAfter: -1}
			}
			tee.real = bs
			if plan.dead {
				tee.real = bsDead
			}
			rctx, rcancel := ctx, context.CancelFunc(func() {})
			if plan.stall {
				// Only this upload's deadline ends the stalled stream.  It
				// fails whatever the timing.
				stalls--
				rctx, rcancel = context.WithTimeout(ctx, 30*time.Millisecond)
			}
			switch ctxDone {
			case 1:
				rctx, rcancel = context.WithCancel(ctx)
				rcancel()
				r.Count("grpc.ctx_cancelled_at_entry")
			case 2:
				rctx, rcancel = context.WithDeadline(ctx, time.Unix(1, 0))
				r.Count("grpc.ctx_expired_at_entry")
			}
			srv.mu.Lock()
			srv.plan = plan
			srv.streams = nil
			srv.mu.Unlock()
			before := tee.n
			rerr := rr.Refresh(rctx)
			rcancel()
			tee.snap = renum(tee.snap)
			if tee.n != before+1 {
				violate("uploader-not-called-once", fmt.Sprintf("Refresh called Upload %d times", tee.n-before))

				break
			}
			srv.mu.Lock()
			streams := srv.streams
			srv.mu.Unlock()
			log = append(log, fmt.Sprintf("refresh(backend=%s%s)->err=%v", plan, []string{"", ",ctx-cancelled", ",ctx-expired"}[ctxDone], rerr != nil))
			r.Count("grpc.backend." + strings.SplitN(plan.String(), "-after-", 2)[0])
			lines, real = append(lines, "begin"), append(real, showRecs("batch", tee.snap))
			accepted := map[int]rec{}
			nAccepted := 0
			for _, st := range streams {
				if !st.accepted {
					continue
				}
				nAccepted++
				for _, msg := range st.got {
					d, rc := pbToRec(msg)
					d = numOf(d)
					if _, dup := accepted[d]; dup {
						violate("double-counted-queries", fmt.Sprintf("device %d sent twice in one upload", d))
					}
					accepted[d] = rc
				}
			}
			// The uploader on its own: result and wire content against the
			// model of Upload and recordToProtobuf.
			how := "accept"
			if plan.noResp {
				how = "eof"
			}
			if rerr != nil {
				switch msg := rerr.Error(); {
				case strings.Contains(msg, "opening stream"):
					how = "open"
				case strings.Contains(msg, "uploading device"):
					how = "send"
				case strings.Contains(msg, "finishing stream"):
					how = "close"
				default:
					how = "unknown-error"
				}
				r.Count("grpc.upload.err." + how)
			}
			upLine, upReal := fmt.Sprintf("upload %d %s 0", len(tee.snap), how), "err"
			if rerr == nil {
				nMsgs := 0
				for _, st := range streams {
					if st.accepted {
						nMsgs += len(st.got)
					}
				}
				upReal = fmt.Sprintf("ok %d", nMsgs)
			}
			var wireLines, wireReal []string
			for _, st := range streams {
				for i, msg := range st.got {
					if !st.accepted || i >= 8 {
						break
					}
					d, _ := pbToRec(msg)
					d = numOf(d)
					b := tee.snap[d]
					wireLines = append(wireLines, fmt.Sprintf("wire %d %d %d %d %d %d", d, b.N, b.M.T, b.M.C, b.M.A, b.M.P))
					wireReal = append(wireReal, showWire(msg))
				}
			}
			if rerr == nil {
				nOK++
				if len(tee.snap) > 0 && nAccepted != 1 {
					violate("lost-queries", fmt.Sprintf("Refresh returned nil but the backend acknowledged %d streams for a batch of %d records",
						nAccepted, len(tee.snap)))
				}
				if !sameRecs(accepted, tee.snap) {
					violate("upload-differs-from-batch", fmt.Sprintf("backend acknowledged %q, recorder's batch was %q",
						showRecs("batch", accepted), showRecs("batch", tee.snap)))
				}
				for d, rc := range accepted {
					delivered[d] += rc.N
					if rc.M != last[d] {
						violate("stale-meta-reported", fmt.Sprintf("device %d reported with meta %s, its most recent query had %s", d, rc.M, last[d]))
					}
				}
				lines = append(lines, "ok 0")
			} else {
				nFail++
				if nAccepted != 0 {
					// The backend acknowledged the stream, yet the recorder keeps the batch.
					for d, rc := range accepted {
						delivered[d] += rc.N
					}
				}
				lines = append(lines, "fail 0")
			}
			pend := renum(canonRecords(verifPending(rr)))
			real = append(real, showRecs("pend", pend))
			lines, real = append(lines, upLine), append(real, upReal)
			lines, real = append(lines, wireLines...), append(real, wireReal...)
			if _, inBatch := tee.snap[k]; poison && inBatch {
				r.Count("grpc.upload.poisoned_batch")
				if rerr == nil {
					violate("lost-queries", "Refresh returned nil although one record of the batch could not be sent")
				} else if how == "send" {
					r.Count("grpc.upload.err.send_at_poison")
				}
			}
			for d := 0; d < nDev; d++ {
				got, want := delivered[d]+pend[d].N, recorded[d]
				if got < want {
					violate("lost-queries", fmt.Sprintf("device %d: delivered %d + pending %d < recorded %d", d, delivered[d], pend[d].N, want))
				} else if got > want {
					violate("double-counted-queries", fmt.Sprintf("device %d: delivered %d + pending %d > recorded %d", d, delivered[d], pend[d].N, want))
				}
				if p, ok := pend[d]; ok && p.M != last[d] {
					violate("stale-meta-pending", fmt.Sprintf("device %d pending meta %s, most recent query had %s", d, p.M, last[d]))
				}
			}
		}
		cancel()
		for d, want := range recorded {
			if poisoned {
				// No upload can succeed any more; delivered + pending =
				// recorded has been checked after every refresh.
				break
			}
			if delivered[d] != want {
				sig := "lost-queries"
				if delivered[d] > want {
					sig = "double-counted-queries"
				}
				violate(sig, fmt.Sprintf("after the final acknowledged upload: device %d delivered %d, recorded %d", d, delivered[d], want))
			}
		}
		x.m.ResetLog()
		ans := x.m.Batch(lines)
		r.ModelOps += len(lines)
		agree := true
		for i := range lines {
			if ans[i] != real[i] {
				agree = false
				r.Disagree("model-vs-recorder-grpc", fmt.Sprintf("op %d %q: recorder %q, model %q [ops: %s]",
					i, lines[i], real[i], ans[i], strings.Join(lines[:i+1], "; ")), map[string]any{"lines": lines, "real": real, "model": ans})

				break
			}
		}
		if agree {
			r.Traces++
		}
		r.Count("case.grpc")
		r.Distribution["grpc.upload.ok"] += nOK
		r.Distribution["grpc.upload.fail"] += nFail
		r.Case("grpc;"+strings.Join(log, ";"), nOK > 0 && nFail > 0)
	}
}
