package main

import (
	"context"
	"errors"
	"fmt"
	"io"
	"net"
	"net/url"
	"strings"
	"sync"
	"time"

	"github.com/AdguardTeam/AdGuardDNS/internal/agd"
	"github.com/AdguardTeam/AdGuardDNS/internal/backendpb"
	"github.com/AdguardTeam/AdGuardDNS/internal/billstat"
	"github.com/AdguardTeam/AdGuardDNS/internal/geoip"
	"github.com/AdguardTeam/AdGuardDNS/verifh/hlib"
	"github.com/AdguardTeam/golibs/logutil/slogutil"
	"google.golang.org/grpc"
	"google.golang.org/grpc/codes"
	"google.golang.org/grpc/credentials/insecure"
	"google.golang.org/grpc/status"
	"google.golang.org/protobuf/types/known/emptypb"
)

// End-to-end campaign: the real RuntimeRecorder uploads through the real
// backendpb.BillStat to an in-process gRPC backend that accepts a stream, or
// fails it after k messages, or fails it at the end.  "Delivered" is what the
// backend received on streams it acknowledged.

type pbPlan struct {
	failAfter int // -1: accept; k ≥ 0: fail once k messages were received (or at end of stream)
}

type pbStream struct {
	got      []*backendpb.DeviceBillingStat
	accepted bool
}

type pbServer struct {
	backendpb.UnimplementedDNSServiceServer

	mu      sync.Mutex
	plan    pbPlan
	streams []*pbStream
}

func (s *pbServer) SaveDevicesBillingStat(
	srv grpc.ClientStreamingServer[backendpb.DeviceBillingStat, emptypb.Empty],
) (err error) {
	s.mu.Lock()
	plan := s.plan
	st := &pbStream{}
	s.streams = append(s.streams, st)
	s.mu.Unlock()

	for {
		if plan.failAfter >= 0 && len(st.got) >= plan.failAfter {
			return status.Error(codes.Unavailable, "verif: scripted backend failure")
		}
		data, recvErr := srv.Recv()
		if recvErr != nil {
			if errors.Is(recvErr, io.EOF) {
				if plan.failAfter >= 0 {
					return status.Error(codes.Unavailable, "verif: scripted backend failure at end of stream")
				}
				s.mu.Lock()
				st.accepted = true
				s.mu.Unlock()

				return srv.SendAndClose(&emptypb.Empty{})
			}

			return recvErr
		}
		s.mu.Lock()
		st.got = append(st.got, data)
		s.mu.Unlock()
	}
}

// teeUploader remembers the batch the recorder handed over and forwards it to
// the real uploader.
type teeUploader struct {
	real billstat.Uploader
	snap map[int]rec
	err  error
	n    int
}

func (t *teeUploader) Upload(ctx context.Context, records billstat.Records) (err error) {
	t.snap = canonRecords(records)
	t.n++
	t.err = t.real.Upload(ctx, records)

	return t.err
}

func pbToRec(d *backendpb.DeviceBillingStat) (dev int, r rec) {
	return devNum(agd.DeviceID(d.DeviceId)), rec{N: int64(d.Queries), M: meta{
		T: d.LastActivityTime.AsTime().UnixNano(), C: ctryIndex(geoip.Country(d.ClientCountry)), A: d.Asn, P: uint8(d.Proto),
	}}
}

func pbCampaign(x *runner) {
	r := x.r
	l, err := net.Listen("tcp", "127.0.0.1:0")
	if err != nil {
		r.Notes = append(r.Notes, "end-to-end gRPC campaign skipped: cannot listen on loopback: "+err.Error())

		return
	}
	srv := &pbServer{}
	gs := grpc.NewServer(grpc.ConnectionTimeout(1*time.Second), grpc.Creds(insecure.NewCredentials()))
	backendpb.RegisterDNSServiceServer(gs, srv)
	go func() { _ = gs.Serve(l) }()
	defer gs.Stop()

	bs, err := backendpb.NewBillStat(&backendpb.BillStatConfig{
		Logger:      slogutil.NewDiscardLogger(),
		GRPCMetrics: backendpb.EmptyGRPCMetrics{},
		ErrColl:     quietErrColl(),
		Endpoint:    &url.URL{Scheme: "grpc", Host: l.Addr().String()},
	})
	hlib.Must(err)

	rng := x.o.Rand("grpc")
	cases := 150
	if x.o.Thorough() {
		cases = 600
	}
	budget := 0
	g := &gen{rng: rng, clock: 1_700_000_000_000_000_000, overlap: &budget}
	for c := 0; c < cases && !x.expired(); c++ {
		k := 1 + rng.IntN(4)
		tee := &teeUploader{real: bs}
		rr := billstat.NewRuntimeRecorder(&billstat.RuntimeRecorderConfig{
			Logger: slogutil.NewDiscardLogger(), ErrColl: quietErrColl(), Uploader: tee, Metrics: billstat.EmptyMetrics{},
		})
		ctx, cancel := context.WithTimeout(context.Background(), 20*time.Second)
		recorded, delivered, last := map[int]int64{}, map[int]int64{}, map[int]meta{}
		lines, real := []string{fmt.Sprintf("init %d", k)}, []string{"ok"}
		var log []string
		nOK, nFail := 0, 0
		violate := func(sig, what string) {
			r.Violate(sig, "grpc end-to-end: "+what+" [ops: "+strings.Join(log, "; ")+"]",
				map[string]any{"campaign": "grpc", "devices": k, "ops": append([]string{}, log...)})
		}
		steps := 2 + rng.IntN(30)
		for s := 0; s <= steps; s++ {
			final := s == steps
			if !final && rng.IntN(100) < 65 {
				o := op{K: opRec, D: rng.IntN(k), M: g.meta()}
				rr.Record(ctx, devID(o.D), countries[o.M.C], geoip.ASN(o.M.A), time.Unix(0, o.M.T), agd.Protocol(o.M.P))
				recorded[o.D]++
				last[o.D] = o.M
				log = append(log, o.String())
				one := map[int]rec{}
				if p, ok := canonRecords(verifPending(rr))[o.D]; ok {
					one[o.D] = p
				}
				lines, real = append(lines, o.String()), append(real, showRecs("pend", one))

				continue
			}
			plan := pbPlan{failAfter: -1}
			if !final {
				switch rng.IntN(5) {
				case 0:
					plan.failAfter = 0
				case 1:
					plan.failAfter = 1 + rng.IntN(3)
				case 2:
					plan.failAfter = 1000 // at the end of the stream
				}
			}
			srv.mu.Lock()
			srv.plan = plan
			srv.streams = nil
			srv.mu.Unlock()
			before := tee.n
			rerr := rr.Refresh(ctx)
			if tee.n != before+1 {
				violate("uploader-not-called-once", fmt.Sprintf("Refresh called Upload %d times", tee.n-before))

				break
			}
			srv.mu.Lock()
			streams := srv.streams
			srv.mu.Unlock()
			log = append(log, fmt.Sprintf("refresh(failAfter=%d)->err=%v", plan.failAfter, rerr != nil))
			lines, real = append(lines, "begin"), append(real, showRecs("batch", tee.snap))
			accepted := map[int]rec{}
			nAccepted := 0
			for _, st := range streams {
				if !st.accepted {
					continue
				}
				nAccepted++
				for _, msg := range st.got {
					d, rc := pbToRec(msg)
					if _, dup := accepted[d]; dup {
						violate("double-counted-queries", fmt.Sprintf("device %d sent twice in one upload", d))
					}
					accepted[d] = rc
				}
			}
			if rerr == nil {
				nOK++
				if len(tee.snap) > 0 && nAccepted != 1 {
					violate("lost-queries", fmt.Sprintf("Refresh returned nil but the backend acknowledged %d streams for a batch of %d records",
						nAccepted, len(tee.snap)))
				}
				if !sameRecs(accepted, tee.snap) {
					violate("upload-differs-from-batch", fmt.Sprintf("backend acknowledged %q, recorder's batch was %q",
						showRecs("batch", accepted), showRecs("batch", tee.snap)))
				}
				for d, rc := range accepted {
					delivered[d] += rc.N
					if rc.M != last[d] {
						violate("stale-meta-reported", fmt.Sprintf("device %d reported with meta %s, its most recent query had %s", d, rc.M, last[d]))
					}
				}
				lines = append(lines, "ok 0")
			} else {
				nFail++
				if nAccepted != 0 {
					// The backend acknowledged the stream, yet the recorder keeps the batch.
					for d, rc := range accepted {
						delivered[d] += rc.N
					}
				}
				lines = append(lines, "fail 0")
			}
			pend := canonRecords(verifPending(rr))
			real = append(real, showRecs("pend", pend))
			for d := 0; d < k; d++ {
				got, want := delivered[d]+pend[d].N, recorded[d]
				if got < want {
					violate("lost-queries", fmt.Sprintf("device %d: delivered %d + pending %d < recorded %d", d, delivered[d], pend[d].N, want))
				} else if got > want {
					violate("double-counted-queries", fmt.Sprintf("device %d: delivered %d + pending %d > recorded %d", d, delivered[d], pend[d].N, want))
				}
				if p, ok := pend[d]; ok && p.M != last[d] {
					violate("stale-meta-pending", fmt.Sprintf("device %d pending meta %s, most recent query had %s", d, p.M, last[d]))
				}
			}
		}
		cancel()
		for d, want := range recorded {
			if delivered[d] != want {
				sig := "lost-queries"
				if delivered[d] > want {
					sig = "double-counted-queries"
				}
				violate(sig, fmt.Sprintf("after the final acknowledged upload: device %d delivered %d, recorded %d", d, delivered[d], want))
			}
		}
		x.m.ResetLog()
		ans := x.m.Batch(lines)
		r.ModelOps += len(lines)
		agree := true
		for i := range lines {
			if ans[i] != real[i] {
				agree = false
				r.Disagree("model-vs-recorder-grpc", fmt.Sprintf("op %d %q: recorder %q, model %q [ops: %s]",
					i, lines[i], real[i], ans[i], strings.Join(lines[:i+1], "; ")), map[string]any{"lines": lines, "real": real, "model": ans})

				break
			}
		}
		if agree {
			r.Traces++
		}
		r.Count("case.grpc")
		r.Distribution["grpc.upload.ok"] += nOK
		r.Distribution["grpc.upload.fail"] += nFail
		r.Case("grpc;"+strings.Join(log, ";"), nOK > 0 && nFail > 0)
	}
}
