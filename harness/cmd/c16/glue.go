package main

import (
	"context"
	"fmt"
	"net/netip"
	"net/url"
	"os"
	"runtime/debug"
	"strings"
	"time"

	"github.com/AdguardTeam/AdGuardDNS/internal/access"
	"github.com/AdguardTeam/AdGuardDNS/internal/agd"
	"github.com/AdguardTeam/AdGuardDNS/internal/agdcache"
	"github.com/AdguardTeam/AdGuardDNS/internal/agdpasswd"
	"github.com/AdguardTeam/AdGuardDNS/internal/agdtest"
	"github.com/AdguardTeam/AdGuardDNS/internal/billstat"
	"github.com/AdguardTeam/AdGuardDNS/internal/dnsmsg"
	"github.com/AdguardTeam/AdGuardDNS/internal/dnsserver"
	"github.com/AdguardTeam/AdGuardDNS/internal/dnssvc"
	"github.com/AdguardTeam/AdGuardDNS/internal/filter"
	"github.com/AdguardTeam/AdGuardDNS/internal/filter/hashprefix"
	"github.com/AdguardTeam/AdGuardDNS/internal/geoip"
	"github.com/AdguardTeam/AdGuardDNS/internal/profiledb"
	"github.com/AdguardTeam/AdGuardDNS/internal/querylog"
	"github.com/AdguardTeam/AdGuardDNS/verifh/hlib/stack"
	"github.com/AdguardTeam/golibs/logutil/slogutil"
	"github.com/AdguardTeam/golibs/netutil"
	"github.com/miekg/dns"
	"github.com/prometheus/client_golang/prometheus"
)

// Server campaign: the production handler stack (dnssvc.NewHandlers, hence
// mainmw.recordQueryInfo, the only caller of Record) runs with the REAL
// RuntimeRecorder as its billing recorder.  "Recorded for a device" is then
// what the property means by it: every query the server handled for a request
// that was attributed to a device, billed once, with the request's start time,
// the client's country and ASN, and the server's protocol.

// query is one request and what the fakes around the stack answer for it.
type query struct {
	dev    int    // device the profile database attributes the request to; -1: none
	srv    int    // index into glueServers
	loc    bool   // GeoIP knows the client's address
	ctry   int    // index into countries
	asn    uint32 //
	start  int64  // unix nanoseconds
	qlog   bool   // the profile has query logging on
	block  bool   // the request filter blocks the name
	failUp bool   // the upstream fails: the handler returns an error and writes no response
	// answered is observed: the handler returned nil and wrote a response.
	answered bool
}

// attributed is the device the request is attributed to: the one the profile
// database knows, unless the server group has profiles switched off.
func (q query) attributed() int {
	if q.srv == glueNoProfiles || glueProtos[q.srv] == agd.ProtoDNSCrypt {
		// DNSCrypt carries no device id and is not looked up by address
		// (devicefinder.supportsDeviceID): such requests are anonymous.
		return -1
	}

	return q.dev
}

func (q query) line() string {
	dev, ctry, asn := "-", "-", "-"
	if q.attributed() >= 0 {
		dev = fmt.Sprint(q.attributed())
	}
	if q.loc {
		ctry, asn = fmt.Sprint(q.ctry), fmt.Sprint(q.asn)
	}

	return fmt.Sprintf("query %s %s %s %d %d %s %s", dev, ctry, asn, q.start, glueProtos[q.srv],
		map[bool]string{false: "noqlog", true: "qlog"}[q.qlog], map[bool]string{false: "noans", true: "ans"}[q.answered])
}

// glueProtos are the protocols of glueFixture.servers, in order: every
// protocol the program has, and (last) a plain-DNS server of a second server
// group that has profiles switched off: nothing is attributed to a device
// there, so nothing is billed.
var glueProtos = []agd.Protocol{agd.ProtoDNS, agd.ProtoDoT, agd.ProtoDoQ, agd.ProtoDoH, agd.ProtoDNSCrypt, agd.ProtoDNS}

// glueNoProfiles is the index of the server of the group without profiles.
const glueNoProfiles = 5

type planUploader struct {
	fail bool
	snap map[int]rec
	n    int
}

func (u *planUploader) Upload(_ context.Context, records billstat.Records) (err error) {
	u.snap = canonRecords(records)
	u.n++
	if u.fail {
		return errUpload
	}

	return nil
}

type glueFixture struct {
	cur     *query
	st      *stack.Stack
	stNP    *stack.Stack
	servers []*agd.Server
	rr      *billstat.RuntimeRecorder
	up      *planUploader
	qlogs   int
}

func newGlueFixture() (f *glueFixture) {
	f = &glueFixture{up: &planUploader{}}
	f.rr = billstat.NewRuntimeRecorder(&billstat.RuntimeRecorderConfig{
		Logger: slogutil.NewDiscardLogger(), ErrColl: quietErrColl(), Uploader: f.up, Metrics: billstat.EmptyMetrics{},
	})
	f.servers = []*agd.Server{
		stack.NewServer("dns", agd.ProtoDNS, true),
		stack.NewServer("dot", agd.ProtoDoT, true, &agd.ServerBindData{AddrPort: netip.MustParseAddrPort("192.0.2.2:853")}),
		stack.NewServer("doq", agd.ProtoDoQ, true, &agd.ServerBindData{AddrPort: netip.MustParseAddrPort("192.0.2.2:784")}),
		stack.NewServer("doh", agd.ProtoDoH, true, &agd.ServerBindData{AddrPort: netip.MustParseAddrPort("192.0.2.2:443")}),
		stack.NewServer("dnscrypt", agd.ProtoDNSCrypt, true, &agd.ServerBindData{AddrPort: netip.MustParseAddrPort("192.0.2.2:5443")}),
	}
	serversNP := []*agd.Server{
		stack.NewServer("dns_np", agd.ProtoDNS, true, &agd.ServerBindData{AddrPort: netip.MustParseAddrPort("192.0.2.3:53")}),
	}
	lookup := func() (*agd.Profile, *agd.Device, error) {
		q := f.cur
		if q.dev < 0 {
			return nil, nil, fmt.Errorf("verif: %w", profiledb.ErrDeviceNotFound)
		}
		dev := &agd.Device{Auth: &agd.AuthSettings{PasswordHash: agdpasswd.AllowAuthenticator{}}, ID: devID(q.dev), FilteringEnabled: true}
		prof := &agd.Profile{
			FilterConfig: &filter.ConfigClient{Custom: &filter.ConfigCustom{}, Parental: &filter.ConfigParental{},
				RuleList: &filter.ConfigRuleList{}, SafeBrowsing: &filter.ConfigSafeBrowsing{}},
			Access: access.EmptyProfile{}, BlockingMode: &dnsmsg.BlockingModeNullIP{}, Ratelimiter: agd.GlobalRatelimiter{},
			ID: "prof1234", DeviceIDs: []agd.DeviceID{dev.ID}, FilteredResponseTTL: 10 * time.Second,
			FilteringEnabled: true, QueryLogEnabled: q.qlog, IPLogEnabled: true,
		}

		return prof, dev, nil
	}
	pdb := stack.NotFoundProfileDB()
	pdb.OnProfileByLinkedIP = func(context.Context, netip.Addr) (*agd.Profile, *agd.Device, error) { return lookup() }
	pdb.OnProfileByDeviceID = func(context.Context, agd.DeviceID) (*agd.Profile, *agd.Device, error) { return lookup() }
	pdb.OnProfileByDedicatedIP = func(context.Context, netip.Addr) (*agd.Profile, *agd.Device, error) { return lookup() }
	flt := &agdtest.Filter{
		OnFilterRequest: func(_ context.Context, req *filter.Request) (filter.Result, error) {
			if f.cur.block {
				return &filter.ResultBlocked{List: "verif_list", Rule: "||blocked^"}, nil
			}

			return nil, nil
		},
		OnFilterResponse: func(context.Context, *filter.Response) (filter.Result, error) { return nil, nil },
	}
	cloner := agdtest.NewCloner()
	msgs, err := dnsmsg.NewConstructor(&dnsmsg.ConstructorConfig{
		Cloner: cloner, BlockingMode: &dnsmsg.BlockingModeNullIP{}, StructuredErrors: agdtest.NewSDEConfig(true),
		FilteredResponseTTL: 10 * time.Second, EDEEnabled: true,
	})
	if err != nil {
		panic(err)
	}
	geo := agdtest.NewGeoIP()
	geo.OnData = func(_ string, ip netip.Addr) (*geoip.Location, error) {
		q := f.cur
		if !q.loc || ip != glueClient {
			return nil, nil
		}

		return &geoip.Location{Country: countries[q.ctry], Continent: geoip.ContinentEU, ASN: geoip.ASN(q.asn)}, nil
	}
	geo.OnSubnetByLocation = func(_ *geoip.Location, fam netutil.AddrFamily) (netip.Prefix, error) {
		if fam == netutil.AddrFamilyIPv6 {
			return netip.MustParsePrefix("2001:db8::/48"), nil
		}

		return netip.MustParsePrefix("198.51.100.0/24"), nil
	}
	up := stack.DefaultUpstream(nil)
	group := &agd.ServerGroup{
		DDR: &agd.DDR{}, DeviceDomains: []string{stack.DeviceDomain}, Name: stack.ServerGroupName,
		FilteringGroup: stack.FilteringGroupID, Servers: f.servers, ProfilesEnabled: true,
	}
	groupNP := &agd.ServerGroup{
		DDR: &agd.DDR{}, DeviceDomains: []string{stack.DeviceDomain}, Name: "verif_no_profiles",
		FilteringGroup: stack.FilteringGroupID, Servers: serversNP, ProfilesEnabled: false,
	}
	hc := &dnssvc.HandlersConfig{
		BaseLogger:       slogutil.NewDiscardLogger(),
		Cache:            &dnssvc.CacheConfig{Type: dnssvc.CacheTypeNone},
		StructuredErrors: agdtest.NewSDEConfig(true),
		Cloner:           cloner,
		HumanIDParser:    agd.NewHumanIDParser(),
		Messages:         msgs,
		AccessManager: &agdtest.AccessManager{
			OnIsBlockedHost: func(string, uint16) bool { return false },
			OnIsBlockedIP:   func(netip.Addr) bool { return false },
		},
		// The real recorder.
		BillStat:     f.rr,
		CacheManager: agdcache.EmptyManager{},
		DNSCheck: &agdtest.DNSCheck{OnCheck: func(context.Context, *dns.Msg, *agd.RequestInfo) (*dns.Msg, error) {
			return nil, nil
		}},
		DNSDB:   &agdtest.DNSDB{OnRecord: func(context.Context, *dns.Msg, *agd.RequestInfo) {}},
		ErrColl: &agdtest.ErrorCollector{OnCollect: func(context.Context, error) {}},
		FilterStorage: &agdtest.FilterStorage{
			OnForConfig: func(context.Context, filter.Config) filter.Interface { return flt },
			OnHasListID: func(filter.ID) bool { return true },
		},
		GeoIP: geo,
		Handler: dnsserver.HandlerFunc(func(ctx context.Context, rw dnsserver.ResponseWriter, req *dns.Msg) error {
			if f.cur.failUp {
				return fmt.Errorf("verif: upstream failure")
			}

			return up.ServeDNS(ctx, rw, req)
		}),
		HashMatcher:          hashprefix.NewMatcher(nil),
		ProfileDB:            pdb,
		PrometheusRegisterer: prometheus.NewRegistry(),
		QueryLog: &agdtest.QueryLog{OnWrite: func(context.Context, *querylog.Entry) error {
			f.qlogs++

			return nil
		}},
		RateLimit: &agdtest.RateLimit{
			OnIsRateLimited:  func(context.Context, *dns.Msg, netip.Addr) (bool, bool, error) { return false, false, nil },
			OnCountResponses: func(context.Context, *dns.Msg, netip.Addr) {},
		},
		RuleStat:         &agdtest.RuleStat{OnCollect: func(context.Context, filter.ID, filter.RuleText) {}},
		MetricsNamespace: fmt.Sprintf("verifc16g%d", time.Now().UnixNano()),
		FilteringGroups: map[agd.FilteringGroupID]*agd.FilteringGroup{
			stack.FilteringGroupID: {FilterConfig: &filter.ConfigGroup{Parental: &filter.ConfigParental{},
				RuleList: &filter.ConfigRuleList{}, SafeBrowsing: &filter.ConfigSafeBrowsing{}}, ID: stack.FilteringGroupID},
		},
		ServerGroups: []*agd.ServerGroup{group, groupNP},
		EDEEnabled:   true,
	}
	handlers, err := dnssvc.NewHandlers(context.Background(), hc)
	if err != nil {
		panic(err)
	}
	f.st = &stack.Stack{Effects: &stack.Effects{}, Handlers: handlers, Group: group, Servers: f.servers}
	f.stNP = &stack.Stack{Effects: &stack.Effects{}, Handlers: handlers, Group: groupNP, Servers: serversNP}
	f.servers = append(f.servers, serversNP...)

	return f
}

var glueClient = netip.MustParseAddr("198.18.7.7")

// serve runs one query through the production handler of its server.
func (f *glueFixture) serve(q *query, idx int) (o stack.Outcome) {
	f.cur = q
	srv := f.servers[q.srv]
	ri := &dnsserver.RequestInfo{StartTime: time.Unix(0, q.start)}
	if p := srv.Protocol; p == agd.ProtoDoT || p == agd.ProtoDoQ || p == agd.ProtoDoH {
		ri.TLSServerName = "dev0000." + stack.DeviceDomain
	}
	if srv.Protocol == agd.ProtoDoH {
		ri.URL = &url.URL{Path: "/dns-query"}
	}
	name := "allowed.example."
	if q.block {
		name = "blocked.example."
	}
	msg := (&dns.Msg{}).SetQuestion(name, dns.TypeA)
	msg.Id = uint16(idx)
	ctx := agd.WithRequestID(context.Background(), agd.NewRequestID())
	defer func() {
		if p := recover(); p != nil {
			o.Err = fmt.Errorf("panic: %v", p)
			if os.Getenv("C16_DEBUG") != "" {
				debug.PrintStack()
			}
		}
	}()

	st := f.st
	if q.srv == glueNoProfiles {
		st = f.stNP
	}

	return st.Serve(ctx, &stack.Req{
		Server: srv, Msg: msg, ReqInfo: ri,
		Remote: netip.AddrPortFrom(glueClient, 12345), Local: srv.BindData()[0].AddrPort,
	})
}

func glueCampaign(x *runner) {
	r := x.r
	rng := x.o.Rand("server")
	cases := 400
	if x.o.Thorough() {
		cases = 1500
	}
	g := &gen{rng: rng, clock: 1_700_000_000_000_000_000, overlap: new(int)}
	for c := 0; c < cases && !x.expired(); c++ {
		f := newGlueFixture()
		k := 1 + rng.IntN(4)
		recorded, delivered, last := map[int]int64{}, map[int]int64{}, map[int]meta{}
		lines, real := []string{fmt.Sprintf("init %d", k)}, []string{"ok"}
		var log []string
		violate := func(sig, what string) {
			r.Violate(sig, "server stack: "+what+" [ops: "+strings.Join(log, "; ")+"]",
				map[string]any{"campaign": "server", "devices": k, "ops": append([]string{}, log...)})
		}
		check := func(where string) (pend map[int]rec) {
			pend = canonRecords(verifPending(f.rr))
			for d := -1; d < k; d++ {
				got, want := delivered[d]+pend[d].N, recorded[d]
				if got < want {
					violate("lost-queries", fmt.Sprintf("%s: device %d: delivered %d + pending %d < handled queries %d", where, d, delivered[d], pend[d].N, want))
				} else if got > want {
					violate("double-counted-queries", fmt.Sprintf("%s: device %d: delivered %d + pending %d > handled queries %d", where, d, delivered[d], pend[d].N, want))
				}
				if p, ok := pend[d]; ok && p.M != last[d] {
					violate("stale-meta-pending", fmt.Sprintf("%s: device %d pending meta %s, its most recent query had %s", where, d, p.M, last[d]))
				}
			}

			return pend
		}
		steps := 3 + rng.IntN(30)
		nQ, nBilled, nFail, nOK := 0, 0, 0, 0
		for s := 0; s <= steps; s++ {
			final := s == steps
			if !final && rng.IntN(100) < 75 {
				m := g.meta()
				q := &query{dev: rng.IntN(k+1) - 1, srv: rng.IntN(len(glueProtos)), loc: rng.IntN(4) != 0, ctry: m.C, asn: m.A,
					start: m.T, qlog: rng.IntN(2) == 0, block: rng.IntN(5) == 0, failUp: rng.IntN(8) == 0}
				if c%2 == 0 && q.dev < 0 && rng.IntN(2) == 0 {
					q.dev = 0
				}
				before := f.qlogs
				o := f.serve(q, s)
				q.answered = o.Err == nil && o.Resp != nil
				if q.answered == q.failUp {
					violate("harness-fixture", fmt.Sprintf("answered=%v although failUp=%v (err=%v)", q.answered, q.failUp, o.Err))
				}
				nQ++
				log = append(log, q.line()+map[bool]string{false: "", true: " blocked"}[q.block]+map[bool]string{false: "", true: " upstream-fails"}[q.failUp])
				if o.Err != nil && strings.HasPrefix(o.Err.Error(), "panic:") {
					violate("panic-while-serving", o.Err.Error())
				}
				r.Count("server.query.proto_" + glueProtos[q.srv].String())
				if q.srv == glueNoProfiles {
					r.Count("server.query.group_without_profiles")
				}
				if dev := q.attributed(); dev >= 0 && q.answered {
					// Every query of a known device that the server answered is
					// billed, whatever the profile's query-log setting, the
					// verdict of the filters or the location.  (A request whose
					// handler fails gets no answer from mainmw and is not billed:
					// the code returns before recordQueryInfo.)
					nBilled++
					recorded[dev]++
					mm := meta{T: q.start, P: uint8(glueProtos[q.srv])}
					if q.loc {
						mm.C, mm.A = q.ctry, q.asn
						r.Count("server.query.located")
					} else {
						r.Count("server.query.no_location")
					}
					last[dev] = mm
					r.Count("server.query.qlog_" + fmt.Sprint(q.qlog))
					if q.qlog != (f.qlogs == before+1) {
						r.Count("server.query.qlog_mismatch")
					}
				} else if q.attributed() >= 0 {
					r.Count("server.query.not_answered")
				} else {
					r.Count("server.query.no_device")
				}
				if q.block {
					r.Count("server.query.blocked")
				}
				if q.failUp {
					r.Count("server.query.upstream_failed")
				}
				pend := check(q.line())
				one := map[int]rec{}
				if p, ok := pend[q.attributed()]; ok && q.attributed() >= 0 {
					one[q.attributed()] = p
				}
				lines, real = append(lines, q.line()), append(real, showRecs("pend", one))

				continue
			}
			f.up.fail = !final && rng.IntN(2) == 0
			before := f.up.n
			err := f.rr.Refresh(context.Background())
			log = append(log, fmt.Sprintf("refresh->err=%v", f.up.fail))
			if f.up.n != before+1 {
				violate("uploader-not-called-once", fmt.Sprintf("Refresh called Upload %d times", f.up.n-before))
			}
			lines, real = append(lines, "begin"), append(real, showRecs("batch", f.up.snap))
			if f.up.fail {
				nFail++
				if err == nil {
					violate("refresh-nil-on-failure", "Refresh returned nil although Upload failed")
				}
				lines = append(lines, "fail 0")
			} else {
				nOK++
				for d, rc := range f.up.snap {
					delivered[d] += rc.N
					if rc.M != last[d] {
						violate("stale-meta-reported", fmt.Sprintf("device %d reported with meta %s, its most recent query had %s", d, rc.M, last[d]))
					}
				}
				lines = append(lines, "ok 0")
			}
			real = append(real, showRecs("pend", check("after refresh")))
		}
		for d, want := range recorded {
			if delivered[d] != want {
				sig := "lost-queries"
				if delivered[d] > want {
					sig = "double-counted-queries"
				}
				violate(sig, fmt.Sprintf("after the final successful upload: device %d delivered %d, handled queries %d", d, delivered[d], want))
			}
		}
		compareLines(x, "model-vs-server-stack", lines, real)
		r.Count("case.server")
		r.Distribution["server.queries"] += nQ
		r.Distribution["server.queries.billed"] += nBilled
		r.Case("server;"+strings.Join(lines, ";"), nOK > 0 && nFail > 0 && nBilled > 0)
	}
}
