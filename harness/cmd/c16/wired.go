package main

import (
	"context"
	"fmt"
	"log/slog"
	"math/rand/v2"
	"net"
	"net/url"
	"os"
	"strings"
	"sync"
	"sync/atomic"
	"time"

	"github.com/AdguardTeam/AdGuardDNS/internal/agd"
	"github.com/AdguardTeam/AdGuardDNS/internal/backendpb"
	"github.com/AdguardTeam/AdGuardDNS/internal/billstat"
	"github.com/AdguardTeam/AdGuardDNS/internal/cmd"
	"github.com/AdguardTeam/AdGuardDNS/internal/geoip"
	"github.com/AdguardTeam/golibs/logutil/slogutil"
	"github.com/AdguardTeam/golibs/osutil"
	"github.com/AdguardTeam/golibs/service"
	"google.golang.org/grpc"
	"google.golang.org/grpc/credentials/insecure"
)

// Wired campaign (round 4): the billing statistics as the program builds
// them.  The unchanged builder (cmd.VerifC16InitBillStat: initGRPCMetrics,
// initBillStat, newBillStatUploader, the refresh worker, the Prometheus
// metrics, the builder's signal handler) runs on a YAML configuration and an
// environment.  The harness records through the recorder the builder hands to
// the DNS service, refreshes through the debug-API refresher, lets the refresh
// worker tick, and shuts the program down through the real signal handler with
// a stand-in for the DNS service registered after the billing statistics, as
// Main does.  The backend is an in-process gRPC server.
//
// What the property asks here: every query recorded through the DNS service's
// recorder is, at any quiescent moment, either acknowledged by the billing
// backend or held by that recorder; an upload that the backend acknowledged
// took everything that was held when it started (this is what "held for the
// next upload" means); in particular the upload at shutdown, which runs after
// the DNS service has stopped, leaves nothing behind if the backend accepts.

// dnsStandIn stands for the DNS service in the signal handler: while it shuts
// down, the requests still in flight are answered and billed.
type dnsStandIn struct {
	onShutdown func()
	stopped    atomic.Bool
}

// type check
var _ service.Interface = (*dnsStandIn)(nil)

func (s *dnsStandIn) Start(context.Context) (err error) { return nil }

func (s *dnsStandIn) Shutdown(context.Context) (err error) {
	if s.onShutdown != nil {
		s.onShutdown()
	}
	s.stopped.Store(true)

	return nil
}

type wiredBackends struct {
	bill, other         *pbServer
	billAddr, otherAddr string
}

func wiredConf(timeout, ivl string) []byte {
	return []byte(fmt.Sprintf("backend:\n  timeout: %s\n  refresh_interval: 1m\n  full_refresh_interval: 1h\n"+
		"  full_refresh_retry_interval: 1m\n  bill_stat_interval: %s\n"+
		"check:\n  kv:\n    type: memory\nratelimit:\n  allowlist:\n    type: consul\n", timeout, ivl))
}

// acceptedOf returns, for the streams the backend has seen since they were
// last reset, the records of the acknowledged ones.
func acceptedOf(streams []*pbStream) (accepted []map[int]rec, dup bool) {
	for _, st := range streams {
		if !st.accepted {
			continue
		}
		m := map[int]rec{}
		for _, msg := range st.got {
			d, rc := pbToRec(msg)
			if _, ok := m[d]; ok {
				dup = true
			}
			m[d] = rc
		}
		accepted = append(accepted, m)
	}

	return accepted, dup
}

func wiredCampaign(x *runner) {
	r := x.r
	be := &wiredBackends{bill: &pbServer{}, other: &pbServer{}}
	for _, p := range []struct {
		srv  *pbServer
		addr *string
	}{{be.bill, &be.billAddr}, {be.other, &be.otherAddr}} {
		l, err := net.Listen("tcp", "127.0.0.1:0")
		if err != nil {
			r.Notes = append(r.Notes, "wired campaign skipped: cannot listen on loopback: "+err.Error())

			return
		}
		gs := grpc.NewServer(grpc.ConnectionTimeout(1*time.Second), grpc.Creds(insecure.NewCredentials()))
		backendpb.RegisterDNSServiceServer(gs, p.srv)
		go func() { _ = gs.Serve(l) }()
		defer gs.Stop()
		*p.addr = l.Addr().String()
	}
	rng := x.o.Rand("wired")
	seq, conc := 40, 8
	if x.o.Thorough() {
		seq, conc = 300, 80
	}
	for c := 0; c < seq && !x.expired(); c++ {
		wiredSequential(x, be, rng, c)
	}
	for c := 0; c < conc && !x.expired(); c++ {
		wiredConcurrent(x, be, rng, c)
	}
}

var wiredGroupPatterns = [][]bool{{true}, {true}, {false, true}, {true, false}, {true, true, false}, {false}, {false, false}, {}}

// wiredBuild runs the builder.  key is the billing API key of this case.
func wiredBuild(be *wiredBackends, groups []bool, timeout, ivl, key string) (w *cmd.VerifC16Wired, err error) {
	conf := wiredConf(timeout, ivl)
	if err = cmd.VerifC16ValidateBackend(conf); err != nil {
		return nil, fmt.Errorf("validating: %w", err)
	}

	return cmd.VerifC16InitBillStat(context.Background(), conf, &cmd.VerifC16Env{
		BillStatURL:    &url.URL{Scheme: "grpc", Host: be.billAddr},
		BillStatAPIKey: key,
		ProfilesURL:    &url.URL{Scheme: "grpc", Host: be.otherAddr},
		ProfilesAPIKey: "verif-profiles-key",
	}, groups, wiredLogger(), quietErrColl())
}

func (be *wiredBackends) reset(plan pbPlan) {
	for _, s := range []*pbServer{be.bill, be.other} {
		s.mu.Lock()
		s.plan = plan
		s.streams = nil
		s.mu.Unlock()
	}
}

func (be *wiredBackends) take() (bill, other []*pbStream) {
	be.bill.mu.Lock()
	bill = append(bill, be.bill.streams...)
	be.bill.mu.Unlock()
	be.other.mu.Lock()
	other = append(other, be.other.streams...)
	be.other.mu.Unlock()

	return bill, other
}

// shutdownWithin runs the signal handler's shutdown; ok is false if it has not
// returned after a time that is far beyond every timeout of the case.
func shutdownWithin(w *cmd.VerifC16Wired, d time.Duration) (code osutil.ExitCode, ok bool) {
	done := make(chan osutil.ExitCode, 1)
	go func() { done <- w.Shutdown(context.Background()) }()
	select {
	case code = <-done:
		return code, true
	case <-time.After(d):
		return 0, false
	}
}

// wiredSequential: the refresh worker never ticks (interval of an hour); every
// upload is started by the harness through the debug-API refresher, the last
// one by the shutdown of the program.
func wiredSequential(x *runner, be *wiredBackends, rng *rand.Rand, c int) {
	r := x.r
	groups := wiredGroupPatterns[c%len(wiredGroupPatterns)]
	anyProfiles := false
	for _, g := range groups {
		anyProfiles = anyProfiles || g
	}
	timeout := []string{"0s", "10s", "1m"}[rng.IntN(3)]
	key := fmt.Sprintf("verif-billing-key-%d", c)
	if c%5 == 4 {
		key = ""
	}
	k := 1 + rng.IntN(4)
	var log []string
	replay := func() map[string]any {
		return map[string]any{"campaign": "wired", "groups": fmt.Sprint(groups), "timeout": timeout, "api_key": key,
			"devices": k, "ops": append([]string{}, log...)}
	}
	violate := func(sig, what string) {
		r.Violate(sig, "wired: "+what+" [groups "+fmt.Sprint(groups)+"; ops: "+strings.Join(log, "; ")+"]", replay())
	}
	disagree := func(sig, what string) {
		r.Disagree(sig, "wired: "+what+" [groups "+fmt.Sprint(groups)+"; ops: "+strings.Join(log, "; ")+"]", replay())
	}
	w, err := wiredBuild(be, groups, timeout, "1h", key)
	if err != nil {
		disagree("wired-build-failed", "the builder rejected a valid configuration: "+err.Error())

		return
	}
	dns := &dnsStandIn{}
	w.AddService(dns)
	ctx := context.Background()
	g := &gen{rng: rng, clock: 1_700_000_000_000_000_000, overlap: new(int)}
	r.Count("wired.seq.groups_" + strings.ReplaceAll(strings.Trim(fmt.Sprint(groups), "[]"), " ", "_"))

	if !anyProfiles {
		// No server group has profiles: no request is ever attributed to a
		// device, the DNS service gets a recorder that drops everything, and
		// nothing is uploaded, refreshed or registered.
		be.reset(pbPlan{failAfter: -1})
		if _, ok := w.Recorder.(billstat.EmptyRecorder); !ok {
			disagree("wired-recorder-without-profiles", fmt.Sprintf("recorder of type %T although no server group has profiles", w.Recorder))
		}
		if w.DebugRefresher != nil {
			disagree("wired-recorder-without-profiles", "a billstat debug refresher is registered although no server group has profiles")
		}
		m := g.meta()
		w.Recorder.Record(ctx, devID(0), countries[m.C], geoip.ASN(m.A), time.Unix(0, m.T), agd.Protocol(m.P))
		code, ok := shutdownWithin(w, 20*time.Second)
		bill, other := be.take()
		if !ok || code != osutil.ExitCodeSuccess || !dns.stopped.Load() || len(bill)+len(other) != 0 {
			disagree("wired-recorder-without-profiles", fmt.Sprintf("shutdown: returned=%v code=%v dns stopped=%v streams=%d",
				ok, code, dns.stopped.Load(), len(bill)+len(other)))
		}
		r.Count("case.wired.no_profiles")
		r.Case(fmt.Sprintf("wired;noprofiles;%v", groups), false)

		return
	}

	rr, isRuntime := w.Recorder.(*billstat.RuntimeRecorder)
	if !isRuntime {
		disagree("wired-recorder-type", fmt.Sprintf("the DNS service's recorder is a %T although a server group has profiles", w.Recorder))

		return
	}
	if w.DebugRefresher == nil {
		disagree("wired-no-debug-refresher", "no billstat refresher is registered for the debug API")
	}
	recorded, delivered, last := map[int]int64{}, map[int]int64{}, map[int]meta{}
	lines, real := []string{fmt.Sprintf("init %d", k)}, []string{"ok"}
	record := func(o op) {
		w.Recorder.Record(ctx, devID(o.D), countries[o.M.C], geoip.ASN(o.M.A), time.Unix(0, o.M.T), agd.Protocol(o.M.P))
		recorded[o.D]++
		last[o.D] = o.M
		log = append(log, o.String())
		one := map[int]rec{}
		if p, ok := canonRecords(verifPending(rr))[o.D]; ok {
			one[o.D] = p
		}
		lines, real = append(lines, o.String()), append(real, showRecs("pend", one))
	}
	nOK, nFail := 0, 0
	// afterUpload looks at the backend and the recorder once an upload attempt
	// is over.  failed is what the caller of Refresh was told.
	afterUpload := func(where string, failed bool) {
		bill, other := be.take()
		if len(other) != 0 {
			disagree("wired-endpoint", fmt.Sprintf("%s: %d billing streams were opened at PROFILES_URL, not BILLSTAT_URL", where, len(other)))
		}
		wantAuth := "Bearer " + key
		for _, st := range bill {
			got := strings.Join(st.auth, ",")
			if (key == "" && got != "") || (key != "" && got != wantAuth) {
				disagree("wired-api-key", fmt.Sprintf("%s: the stream was authorised with %q, BILLSTAT_API_KEY asks for %q", where, got, wantAuth))
			}
		}
		owedBefore := int64(0)
		for d, n := range recorded {
			owedBefore += n - delivered[d]
		}
		accepted, dup := acceptedOf(bill)
		if dup {
			violate("double-counted-queries", where+": a device was sent twice in one upload")
		}
		for _, m := range accepted {
			for d, rc := range m {
				delivered[d] += rc.N
				if rc.M != last[d] {
					violate("stale-meta-reported", fmt.Sprintf("%s: device %d reported with meta %s, its most recent query had %s", where, d, rc.M, last[d]))
				}
			}
		}
		batch := "*"
		if len(accepted) == 1 {
			batch = showRecs("batch", accepted[0])
		} else if owedBefore == 0 {
			batch = "batch"
		}
		lines, real = append(lines, "begin"), append(real, batch)
		if failed {
			nFail++
			lines = append(lines, "fail 0")
		} else {
			nOK++
			lines = append(lines, "ok 0")
			if owedBefore > 0 && len(accepted) != 1 {
				violate("lost-queries", fmt.Sprintf("%s: the refresh reported success but the backend acknowledged %d streams while %d queries were owed",
					where, len(accepted), owedBefore))
			}
		}
		pend := canonRecords(verifPending(rr))
		real = append(real, showRecs("pend", pend))
		for d := 0; d < k; d++ {
			got, want := delivered[d]+pend[d].N, recorded[d]
			if got < want {
				violate("lost-queries", fmt.Sprintf("%s: device %d: acknowledged %d + held %d < recorded %d", where, d, delivered[d], pend[d].N, want))
			} else if got > want {
				violate("double-counted-queries", fmt.Sprintf("%s: device %d: acknowledged %d + held %d > recorded %d", where, d, delivered[d], pend[d].N, want))
			}
			if p, ok := pend[d]; ok && p.M != last[d] {
				violate("stale-meta-pending", fmt.Sprintf("%s: device %d held with meta %s, its most recent query had %s", where, d, p.M, last[d]))
			}
			if len(accepted) > 0 && pend[d].N != 0 {
				// Nothing was recorded while this upload ran.
				violate("held-not-uploaded", fmt.Sprintf("%s: the backend acknowledged an upload, yet %d queries of device %d recorded before it are still held",
					where, pend[d].N, d))
			}
		}
		if !failed && owedBefore > 0 && len(pend) != 0 {
			violate("held-not-uploaded", fmt.Sprintf("%s: the refresh reported success, yet %d devices recorded before it are still held", where, len(pend)))
		}
	}
	steps := 2 + rng.IntN(20)
	for s := 0; s < steps; s++ {
		if rng.IntN(100) < 65 {
			record(op{K: opRec, D: rng.IntN(k), M: g.meta()})

			continue
		}
		if w.DebugRefresher == nil {
			continue
		}
		plan := pbPlan{failAfter: -1}
		switch rng.IntN(4) {
		case 0:
			plan.failAfter = rng.IntN(3)
			plan.code = pbCodes[rng.IntN(len(pbCodes))]
		case 1:
			plan.failAfter = 1 << 30
			plan.code = pbCodes[rng.IntN(len(pbCodes))]
		}
		rctx, rcancel := context.WithCancel(ctx)
		how := ""
		if rng.IntN(8) == 0 {
			// The client of the debug API has gone away.
			rcancel()
			how = ",ctx-cancelled"
		}
		be.reset(plan)
		rerr := w.DebugRefresher.Refresh(rctx)
		rcancel()
		log = append(log, fmt.Sprintf("debug-refresh(backend=%s%s)->err=%v", plan, how, rerr != nil))
		r.Count("wired.seq.debug_refresh")
		afterUpload("debug refresh", rerr != nil)
	}
	// Shutdown.  The DNS service stops first; the requests it still had in
	// flight are billed while it does.
	late := rng.IntN(4)
	dns.onShutdown = func() {
		for i := 0; i < late; i++ {
			record(op{K: opRec, D: rng.IntN(k), M: g.meta()})
		}
	}
	plan := pbPlan{failAfter: -1}
	if rng.IntN(4) == 0 {
		plan.failAfter = rng.IntN(2) << 30
		plan.code = pbCodes[rng.IntN(len(pbCodes))]
	}
	be.reset(plan)
	code, ok := shutdownWithin(w, 30*time.Second)
	log = append(log, fmt.Sprintf("shutdown(late=%d,backend=%s)->code=%d", late, plan, code))
	if !ok {
		disagree("wired-shutdown-stuck", "the shutdown has not finished after 30 s")

		return
	}
	if !dns.stopped.Load() {
		disagree("wired-shutdown-order", "the service registered after the billing statistics was not shut down")
	}
	r.Count("wired.seq.shutdown." + strings.SplitN(plan.String(), "-after-", 2)[0])
	afterUpload("shutdown", code != osutil.ExitCodeSuccess)
	lines, real = append(lines, "totals"), append(real, func() string {
		var parts []string
		for d := 0; d < k; d++ {
			parts = append(parts, fmt.Sprintf("%d:%d:%d", d, recorded[d], delivered[d]))
		}

		return "tot " + strings.Join(parts, " ")
	}())
	if plan.failAfter < 0 {
		for d, want := range recorded {
			if delivered[d] != want {
				violate("held-not-uploaded", fmt.Sprintf("after a shutdown with an accepting backend: device %d acknowledged %d, recorded %d", d, delivered[d], want))
			}
		}
	}
	compareLines(x, "model-vs-wired", lines, real)
	r.Count("case.wired.sequential")
	r.Case("wired;"+strings.Join(lines, ";"), nOK > 0 && nFail > 0)
}

// wiredConcurrent: the refresh worker ticks every few milliseconds with the
// context the builder gives it, recorder goroutines and a debug refresher run
// at the same time, the backend changes its mind; then the program shuts down
// against an accepting backend.  Verdicts look at the quiescent end only.
func wiredConcurrent(x *runner, be *wiredBackends, rng *rand.Rand, c int) {
	r := x.r
	ivl := []string{"1ms", "2ms", "5ms"}[rng.IntN(3)]
	timeout := []string{"40ms", "100ms", "0s"}[c%3]
	stalls := timeout != "0s"
	key := fmt.Sprintf("verif-billing-key-c%d", c)
	replay := map[string]any{"campaign": "wired-concurrent", "interval": ivl, "timeout": timeout, "case": c}
	w, err := wiredBuild(be, []bool{true}, timeout, ivl, key)
	if err != nil {
		r.Disagree("wired-build-failed", "wired: the builder rejected a valid configuration: "+err.Error(), replay)

		return
	}
	rr, isRuntime := w.Recorder.(*billstat.RuntimeRecorder)
	if !isRuntime || w.DebugRefresher == nil {
		r.Disagree("wired-recorder-type", fmt.Sprintf("wired: recorder %T, debug refresher %v", w.Recorder, w.DebugRefresher != nil), replay)

		return
	}
	be.reset(pbPlan{failAfter: -1})
	workers := 2 + rng.IntN(3)
	recorded := make([]int64, workers+1)
	finalT := make([]int64, workers)
	stop := make(chan struct{})
	var wg sync.WaitGroup
	recordSome := func(wk int, lr *rand.Rand, n int, t *int64) {
		for i := 0; i < n; i++ {
			*t++
			w.Recorder.Record(context.Background(), devID(wk), countries[lr.IntN(len(countries))], geoip.ASN(wk), time.Unix(0, *t), agd.Protocol(lr.IntN(6)))
			recorded[wk]++
			finalT[wk] = *t
		}
	}
	clocks := make([]int64, workers)
	for wk := 0; wk < workers; wk++ {
		seed := rng.Uint64()
		wg.Add(1)
		go func(wk int) {
			defer wg.Done()
			lr := rand.New(rand.NewPCG(seed, 7))
			for {
				select {
				case <-stop:
					return
				default:
					recordSome(wk, lr, 1+lr.IntN(50), &clocks[wk])
					time.Sleep(time.Duration(lr.IntN(300)) * time.Microsecond)
				}
			}
		}(wk)
	}
	// The backend changes its behaviour; the debug API refreshes now and then.
	planSeed := rng.Uint64()
	wg.Add(1)
	go func() {
		defer wg.Done()
		lr := rand.New(rand.NewPCG(planSeed, 9))
		for {
			select {
			case <-stop:
				return
			default:
			}
			plan := pbPlan{failAfter: -1}
			switch lr.IntN(4) {
			case 0:
				plan.failAfter, plan.code = lr.IntN(3), pbCodes[lr.IntN(len(pbCodes))]
			case 1:
				plan.failAfter, plan.code = 1<<30, pbCodes[lr.IntN(len(pbCodes))]
			case 2:
				if stalls && lr.IntN(3) == 0 {
					// Only the deadline the builder gives to the worker's
					// context ends this one.
					// (With a non-OK code: a backend that ends the RPC with
					// OK although it has not read the stream has, by the
					// protocol, acknowledged it.)
					plan.failAfter, plan.stall, plan.code = lr.IntN(2), true, pbCodes[lr.IntN(len(pbCodes))]
				}
			}
			be.bill.mu.Lock()
			be.bill.plan = plan
			be.bill.mu.Unlock()
			if lr.IntN(3) == 0 {
				dctx, dcancel := context.WithTimeout(context.Background(), 50*time.Millisecond)
				_ = w.DebugRefresher.Refresh(dctx)
				dcancel()
			}
			time.Sleep(time.Duration(1+lr.IntN(4)) * time.Millisecond)
		}
	}()
	run := 40 * time.Millisecond
	if x.o.Thorough() {
		run = 120 * time.Millisecond
	}
	time.Sleep(run)
	// The program shuts down: the DNS service stops (its goroutines finish
	// their requests), then the billing statistics are uploaded a last time.
	lateRng := rand.New(rand.NewPCG(rng.Uint64(), 11))
	dns := &dnsStandIn{onShutdown: func() {
		close(stop)
		wg.Wait()
		be.bill.mu.Lock()
		be.bill.plan = pbPlan{failAfter: -1}
		be.bill.mu.Unlock()
		recordSome(0, lateRng, 1+lateRng.IntN(3), &clocks[0])
	}}
	w.AddService(dns)
	code, ok := shutdownWithin(w, 60*time.Second)
	if !ok {
		r.Disagree("wired-shutdown-stuck", "wired: the shutdown has not finished after 60 s (worker timeout "+timeout+")", replay)

		return
	}
	bill, other := be.take()
	accepted, dup := acceptedOf(bill)
	delivered := map[int]int64{}
	lastT := map[int]int64{}
	for _, m := range accepted {
		for d, rc := range m {
			delivered[d] += rc.N
			lastT[d] = rc.M.T
		}
	}
	nFailed := len(bill) - len(accepted)
	what := func(s string) string {
		return fmt.Sprintf("wired concurrent (interval %s, timeout %s, %d streams, %d not acknowledged): %s", ivl, timeout, len(bill), nFailed, s)
	}
	if len(other) != 0 {
		r.Disagree("wired-endpoint", what("billing streams were opened at PROFILES_URL"), replay)
	}
	for _, st := range bill {
		if got := strings.Join(st.auth, ","); got != "Bearer "+key {
			r.Disagree("wired-api-key", what(fmt.Sprintf("a stream was authorised with %q", got)), replay)

			break
		}
	}
	if dup {
		r.Violate("double-counted-queries", what("a device was sent twice in one upload"), replay)
	}
	if code != osutil.ExitCodeSuccess {
		r.Disagree("wired-shutdown-code", what("the shutdown against an accepting backend reported a failure"), replay)
	}
	pend := canonRecords(verifPending(rr))
	if os.Getenv("C16_DEBUG") != "" {
		for i, st := range bill {
			var parts []string
			for _, msg := range st.got {
				d, rc := pbToRec(msg)
				parts = append(parts, fmt.Sprintf("%d:%d@%d", d, rc.N, rc.M.T))
			}
			fmt.Fprintf(os.Stderr, "stream %d accepted=%v plan=%s %s\n", i, st.accepted, st.plan, strings.Join(parts, " "))
		}
		fmt.Fprintf(os.Stderr, "recorded=%v finalT=%v pend=%v\n", recorded, finalT, pend)
	}
	for d := 0; d < workers; d++ {
		got, want := delivered[d]+pend[d].N, recorded[d]
		if got < want {
			r.Violate("lost-queries", what(fmt.Sprintf("device %d: acknowledged %d + held %d < recorded %d", d, delivered[d], pend[d].N, want)), replay)
		} else if got > want {
			r.Violate("double-counted-queries", what(fmt.Sprintf("device %d: acknowledged %d + held %d > recorded %d", d, delivered[d], pend[d].N, want)), replay)
		}
		if pend[d].N != 0 {
			r.Violate("held-not-uploaded", what(fmt.Sprintf("device %d: %d queries still held after the shutdown upload was acknowledged", d, pend[d].N)), replay)
		}
		if recorded[d] > 0 && lastT[d] != finalT[d] {
			r.Violate("stale-meta-reported", what(fmt.Sprintf("device %d: last reported time %d, its most recent query had %d", d, lastT[d], finalT[d])), replay)
		}
	}
	r.Count("case.wired.concurrent")
	r.Distribution["wired.conc.streams"] += len(bill)
	r.Distribution["wired.conc.streams_failed"] += nFailed
	r.Case(fmt.Sprintf("wired-concurrent;%s;%s;%d", ivl, timeout, c), nFailed > 0 && len(accepted) > 1)
}

func wiredLogger() *slog.Logger {
	if os.Getenv("C16_DEBUG") != "" {
		return slog.New(slog.NewTextHandler(os.Stderr, &slog.HandlerOptions{Level: slog.LevelInfo}))
	}

	return slogutil.NewDiscardLogger()
}
