// Command c16 is the correspondence harness and property oracle for C16
// (billing counts are conserved across failed and retried uploads).
package main

import (
	"context"
	"errors"
	"fmt"
	"io"
	"math/rand/v2"
	"os"
	"runtime"
	"sort"
	"strings"
	"sync"
	"sync/atomic"
	"time"

	"github.com/AdguardTeam/AdGuardDNS/internal/agd"
	"github.com/AdguardTeam/AdGuardDNS/internal/agdtest"
	"github.com/AdguardTeam/AdGuardDNS/internal/billstat"
	"github.com/AdguardTeam/AdGuardDNS/internal/geoip"
	"github.com/AdguardTeam/AdGuardDNS/verifh/hlib"
	"github.com/AdguardTeam/golibs/logutil/slogutil"
	"google.golang.org/grpc/codes"
	"google.golang.org/grpc/status"
)

// ---------------------------------------------------------------------------
// Vocabulary shared by the campaigns.
// ---------------------------------------------------------------------------

// countries is the pool of country codes; the model sees the index.
var countries = []geoip.Country{geoip.CountryNone, "AD", "US", "CY"}

var asns = []uint32{0, 1, 42, 65535, 4294967295}

var errUpload = errors.New("verif: scripted upload failure")

// ptrErr is an error whose nil pointer is still a non-nil error value.
type ptrErr struct{}

func (e *ptrErr) Error() string { return "verif: typed-nil pointer error" }

// timeoutErr looks like a net.Error.
type timeoutErr struct{}

func (timeoutErr) Error() string   { return "verif: i/o timeout" }
func (timeoutErr) Timeout() bool   { return true }
func (timeoutErr) Temporary() bool { return true }

// errKinds are the error values a failing upload returns.  Whatever the value,
// the property says the batch must come back.
var errKinds = []struct {
	name string
	mk   func(ctx context.Context) error
}{
	{"plain", func(context.Context) error { return errUpload }},
	{"canceled", func(context.Context) error { return context.Canceled }},
	{"deadline", func(context.Context) error { return context.DeadlineExceeded }},
	{"eof", func(context.Context) error { return io.EOF }},
	{"wrapped-canceled", func(context.Context) error { return fmt.Errorf("uploading: %w", context.Canceled) }},
	{"joined", func(context.Context) error { return errors.Join(errUpload, io.ErrUnexpectedEOF) }},
	{"grpc-unavailable", func(context.Context) error { return status.Error(codes.Unavailable, "verif") }},
	{"grpc-canceled", func(context.Context) error { return status.Error(codes.Canceled, "verif") }},
	{"grpc-deadline", func(context.Context) error { return status.Error(codes.DeadlineExceeded, "verif") }},
	{"grpc-exists", func(context.Context) error { return status.Error(codes.AlreadyExists, "verif") }},
	{"typed-nil", func(context.Context) error { var e *ptrErr; return e }},
	{"timeout", func(context.Context) error { return timeoutErr{} }},
	{"empty-text", func(context.Context) error { return errors.New("") }},
	{"ctx-err", func(ctx context.Context) error {
		if err := ctx.Err(); err != nil {
			return err
		}

		return context.Canceled
	}},
	{"wrapped-ctx-err", func(ctx context.Context) error {
		return fmt.Errorf("opening stream: %w", context.Cause(ctx))
	}},
}

// ctxModes are the states of the context a Refresh is called with.  The
// shutdown refresh and the refresh worker pass contexts with deadlines; the
// property does not depend on them.
var ctxModes = []string{"bg", "cancelled", "expired", "cancel-in-flight", "cancel-after-verdict"}

const (
	ctxBG = iota
	ctxCancelled
	ctxExpired
	ctxCancelInFlight
	ctxCancelAfter
)

type ctxInfoKey struct{}

type ctxInfo struct {
	mode   int
	cancel context.CancelFunc
}

func makeCtx(mode int) (ctx context.Context) {
	info := &ctxInfo{mode: mode}
	ctx = context.WithValue(context.Background(), ctxInfoKey{}, info)
	switch mode {
	case ctxCancelled:
		ctx, info.cancel = context.WithCancel(ctx)
		info.cancel()
	case ctxExpired:
		ctx, info.cancel = context.WithDeadline(ctx, time.Unix(1, 0))
	case ctxCancelInFlight, ctxCancelAfter:
		ctx, info.cancel = context.WithCancel(ctx)
	default:
		info.cancel = func() {}
	}

	return ctx
}

// meta is the per-query data the property's last sentence talks about.
type meta struct {
	T int64 // unix nanoseconds
	C int   // index into countries
	A uint32
	P uint8
}

func (m meta) String() string { return fmt.Sprintf("%d:%d:%d:%d", m.T, m.C, m.A, m.P) }

// rec is a canonical copy of one billstat.Record.
type rec struct {
	N int64
	M meta
}

// poisonBase is the first device number of the "poison" devices: their IDs
// are not valid UTF-8, so that protobuf refuses to marshal their records and
// stream.Send fails deterministically at that record (the only way to make the
// real gRPC stream fail in Send at a chosen record without a hook).  The
// recorder itself accepts any agd.DeviceID.
const poisonBase = 1 << 20

// devNames maps every ID handed out by devID back to its device number.
var devNames sync.Map

// devID names device d.  Devices 2i and 2i+1 differ only in the case of their
// letters: they are different devices.  Some devices have unusual but legal
// map keys: the empty ID, non-ASCII letters with a NUL and a space, a long ID.
func devID(d int) (id agd.DeviceID) {
	switch {
	case d >= poisonBase:
		id = agd.DeviceID(fmt.Sprintf("bad\xff%d", d))
	case d == 6:
		id = ""
	case d%16 == 12:
		id = agd.DeviceID(fmt.Sprintf("дев\x00 %d", d))
	case d == 10:
		id = agd.DeviceID(strings.Repeat("x", 300))
	case d%2 == 1:
		id = agd.DeviceID(fmt.Sprintf("DEV%04d", d-1))
	default:
		id = agd.DeviceID(fmt.Sprintf("dev%04d", d))
	}
	if _, ok := devNames.Load(id); !ok {
		devNames.Store(id, d)
	}

	return id
}

func devNum(id agd.DeviceID) int {
	if v, ok := devNames.Load(id); ok {
		return v.(int)
	}

	return -1
}

func ctryIndex(c geoip.Country) int {
	for i, x := range countries {
		if x == c {
			return i
		}
	}

	return -1
}

func canonRecord(r *billstat.Record) rec {
	return rec{N: int64(uint32(r.Queries)), M: meta{T: r.Time.UnixNano(), C: ctryIndex(r.Country), A: uint32(r.ASN), P: uint8(r.Proto)}}
}

func canonRecords(rs billstat.Records) map[int]rec {
	out := make(map[int]rec, len(rs))
	for id, r := range rs {
		if r == nil {
			out[devNum(id)] = rec{N: -1}

			continue
		}
		out[devNum(id)] = canonRecord(r)
	}

	return out
}

func showRecs(tag string, rs map[int]rec) string {
	keys := make([]int, 0, len(rs))
	for d := range rs {
		keys = append(keys, d)
	}
	sort.Ints(keys)
	var b strings.Builder
	b.WriteString(tag)
	for _, d := range keys {
		r := rs[d]
		fmt.Fprintf(&b, " %d:%d:%s", d, r.N, r.M)
	}

	return b.String()
}

func sameRecs(a, b map[int]rec) bool {
	if len(a) != len(b) {
		return false
	}
	for d, x := range a {
		if y, ok := b[d]; !ok || x != y {
			return false
		}
	}

	return true
}

// ---------------------------------------------------------------------------
// Scripted uploader: every Upload blocks until the harness releases it.
// ---------------------------------------------------------------------------

type flight struct {
	snap    map[int]rec  // content of the batch when Upload was entered
	after   map[int]rec  // content of the batch when Upload was released
	lastCut map[int]meta // harness ghost: most recent meta per device when the batch was cut
	verdict chan int     // -1: succeed; e ≥ 0: fail with errKinds[e]
	stamp   int64
	ctx     context.Context
	info    *ctxInfo
}

type scripted struct {
	entered chan *flight
	opIdx   atomic.Int64
}

var _ billstat.Uploader = (*scripted)(nil)

func (u *scripted) Upload(ctx context.Context, records billstat.Records) (err error) {
	f := &flight{snap: canonRecords(records), verdict: make(chan int, 1), stamp: u.opIdx.Load(), ctx: ctx}
	f.info, _ = ctx.Value(ctxInfoKey{}).(*ctxInfo)
	u.entered <- f
	e := <-f.verdict
	f.after = canonRecords(records)
	if e < 0 {
		return nil
	}
	err = errKinds[e].mk(ctx)
	if f.info != nil && f.info.mode == ctxCancelAfter {
		// The caller's context ends between the upload's failure and the
		// deferred clean-up in Refresh.
		f.info.cancel()
	}

	return err
}

// ---------------------------------------------------------------------------
// Ops.
// ---------------------------------------------------------------------------

type opKind int

const (
	opRec opKind = iota
	opBegin
	opEnd
)

type op struct {
	K  opKind
	D  int
	M  meta
	I  int
	OK bool
	N  int // opRec: number of identical Record calls (0 and 1 both mean one)
	C  int // opBegin: index into ctxModes
	E  int // opEnd, !OK: index into errKinds
}

func (o op) String() string {
	switch o.K {
	case opRec:
		if o.N > 1 {
			return fmt.Sprintf("recn %d %d %d %d %d %d", o.D, o.N, o.M.T, o.M.C, o.M.A, o.M.P)
		}
		if o.C != 0 {
			return fmt.Sprintf("rec %d %d %d %d %d %s", o.D, o.M.T, o.M.C, o.M.A, o.M.P, ctxModes[o.C])
		}

		return fmt.Sprintf("rec %d %d %d %d %d", o.D, o.M.T, o.M.C, o.M.A, o.M.P)
	case opBegin:
		if o.C != 0 {
			return "begin " + ctxModes[o.C]
		}

		return "begin"
	default:
		if o.OK {
			return fmt.Sprintf("ok %d", o.I)
		}
		if o.E != 0 {
			return fmt.Sprintf("fail %d %s", o.I, errKinds[o.E].name)
		}

		return fmt.Sprintf("fail %d", o.I)
	}
}

func opStrings(ops []op) []string {
	out := make([]string, len(ops))
	for i, o := range ops {
		out[i] = o.String()
	}

	return out
}

type viol struct {
	sig, what string
	at        int
}

// trace is what one run of the real recorder produced.
type trace struct {
	lines     []string // model op lines (queued begins appear where they really happened)
	real      []string // the real code's canonical answer to each line
	viols     []viol
	discarded bool
	hung      bool
	// shape counters
	nOK, nFail, nBlocked, nOverlap, nMergePresent, nMergeAbsent, nRecInFlight, nEmptyBatch, nNone, nCtx, nErrKinds int
	finalTotals                                                                                                    string
}

// overlapWait is how long an overlapping Refresh is given to reach the
// uploader before it is considered blocked.  On the serialised code it never
// gets there, so the verdict "blocked" does not depend on timing; on code that
// lets refreshes overlap a slow goroutine is detected later and the case is
// discarded (see stamp handling).
const overlapWait = 2 * time.Millisecond

// execReal drives a fresh real RuntimeRecorder through ops, checks the
// property after every step, and returns the canonical op lines and answers.
// k is the number of devices the model prints.
func execReal(k int, ops []op) (tr *trace) {
	tr = &trace{}
	up := &scripted{entered: make(chan *flight, 16)}
	rr := billstat.NewRuntimeRecorder(&billstat.RuntimeRecorderConfig{
		Logger:   slogutil.NewDiscardLogger(),
		ErrColl:  quietErrColl(),
		Uploader: up,
		Metrics:  billstat.EmptyMetrics{},
	})
	ctx := context.Background()
	returned := make(chan error, 16)

	// Oracle ghost state: built from the ops alone.
	recorded := map[int]int64{}
	delivered := map[int]int64{}
	last := map[int]meta{}
	var inflight []*flight
	queued := 0

	emit := func(line, ans string) {
		tr.lines = append(tr.lines, line)
		tr.real = append(tr.real, ans)
	}
	emit(fmt.Sprintf("init %d", k), "ok")

	copyLast := func() map[int]meta {
		c := make(map[int]meta, len(last))
		for d, m := range last {
			c[d] = m
		}

		return c
	}

	step := 0
	check := func(where string) (pend map[int]rec) {
		pend = canonRecords(verifPending(rr))
		devs := map[int]struct{}{}
		for d := range recorded {
			devs[d] = struct{}{}
		}
		for d := range pend {
			devs[d] = struct{}{}
		}
		for _, f := range inflight {
			for d := range f.snap {
				devs[d] = struct{}{}
			}
		}
		for d := range devs {
			held := pend[d].N
			for _, f := range inflight {
				held += f.snap[d].N
			}
			got, want := delivered[d]+held, recorded[d]
			if got < want {
				tr.viols = append(tr.viols, viol{"lost-queries", fmt.Sprintf(
					"%s: device %d: delivered %d + held %d = %d < recorded %d", where, d, delivered[d], held, got, want), step})
			} else if got > want {
				tr.viols = append(tr.viols, viol{"double-counted-queries", fmt.Sprintf(
					"%s: device %d: delivered %d + held %d = %d > recorded %d", where, d, delivered[d], held, got, want), step})
			}
			if p, ok := pend[d]; ok {
				if p.N <= 0 {
					tr.viols = append(tr.viols, viol{"nonpositive-pending-count", fmt.Sprintf(
						"%s: device %d pending with Queries=%d", where, d, p.N), step})
				}
				if p.M != last[d] {
					tr.viols = append(tr.viols, viol{"stale-meta-pending", fmt.Sprintf(
						"%s: device %d pending meta %s but its most recent query had %s", where, d, p.M, last[d]), step})
				}
			}
		}

		return pend
	}

	enter := func(f *flight) string {
		f.lastCut = copyLast()
		inflight = append(inflight, f)
		if len(f.snap) == 0 {
			tr.nEmptyBatch++
		}
		for d, r := range f.snap {
			if r.N <= 0 {
				tr.viols = append(tr.viols, viol{"nonpositive-batch-count", fmt.Sprintf(
					"device %d uploaded with Queries=%d", d, r.N), step})
			}
		}

		return showRecs("batch", f.snap)
	}

	waitEnter := func() *flight {
		select {
		case f := <-up.entered:
			return f
		case <-time.After(10 * time.Second):
			tr.viols = append(tr.viols, viol{"refresh-did-not-upload",
				"Refresh did not reach the uploader within 10 s", step})
			tr.hung = true

			return nil
		}
	}

	for _, o := range ops {
		step++
		up.opIdx.Store(int64(step))
		if queued > 0 {
			// A refresh believed to be blocked must not have reached the uploader.
			select {
			case <-up.entered:
				tr.discarded = true

				return tr
			default:
			}
		}
		switch o.K {
		case opRec:
			n := max(o.N, 1)
			ctx := ctx
			if o.C != 0 {
				// The request's context may be over by the time it is billed.
				ctx = makeCtx(o.C)
				tr.nCtx++
			}
			for i := 0; i < n; i++ {
				rr.Record(ctx, devID(o.D), countries[o.M.C], geoip.ASN(o.M.A), time.Unix(0, o.M.T), agd.Protocol(o.M.P))
			}
			recorded[o.D] += int64(n)
			last[o.D] = o.M
			if len(inflight) > 0 {
				tr.nRecInFlight++
			}
			pend := check(o.String())
			one := map[int]rec{}
			if p, ok := pend[o.D]; ok {
				one[o.D] = p
			}
			emit(o.String(), showRecs("pend", one))
		case opBegin:
			rctx := makeCtx(o.C)
			if o.C != 0 {
				tr.nCtx++
			}
			go func() { returned <- rr.Refresh(rctx) }()
			if len(inflight) == 0 && queued == 0 {
				f := waitEnter()
				if f == nil {
					return tr
				}
				ans := enter(f)
				check(o.String())
				emit(o.String(), ans)

				continue
			}
			select {
			case f := <-up.entered:
				// Overlapping uploads: the real code cut a second batch
				// while one is in flight.
				tr.nOverlap++
				ans := enter(f)
				check("begin(overlapping)")
				emit(o.String(), ans)
			case <-time.After(overlapWait):
				tr.nBlocked++
				queued++
				check("begin(blocked)")
				emit(o.String(), "blocked")
			}
		case opEnd:
			if o.I < 0 || o.I >= len(inflight) {
				tr.nNone++
				emit(o.String(), "none")

				continue
			}
			f := inflight[o.I]
			before := canonRecords(verifPending(rr))
			if f.info != nil && f.info.mode == ctxCancelInFlight {
				f.info.cancel()
			}
			if o.OK {
				f.verdict <- -1
			} else {
				f.verdict <- o.E
				if o.E != 0 {
					tr.nErrKinds++
				}
			}
			var err error
			select {
			case err = <-returned:
			case <-time.After(10 * time.Second):
				tr.viols = append(tr.viols, viol{"refresh-did-not-return",
					"Refresh did not return within 10 s after its upload finished", step})
				tr.hung = true

				return tr
			}
			inflight = append(inflight[:o.I:o.I], inflight[o.I+1:]...)
			if !sameRecs(f.snap, f.after) {
				tr.viols = append(tr.viols, viol{"batch-mutated-in-flight", fmt.Sprintf(
					"batch changed while Upload was running: entered with %q, released with %q",
					showRecs("batch", f.snap), showRecs("batch", f.after)), step})
			}
			if o.OK {
				tr.nOK++
				if err != nil {
					tr.viols = append(tr.viols, viol{"refresh-error-on-success", "Refresh returned " + err.Error(), step})
				}
				for d, r := range f.snap {
					delivered[d] += r.N
					if want, ok := f.lastCut[d]; !ok || r.M != want {
						tr.viols = append(tr.viols, viol{"stale-meta-reported", fmt.Sprintf(
							"device %d reported with meta %s but its most recent query when the batch was cut had %s",
							d, r.M, want), step})
					}
				}
			} else {
				tr.nFail++
				if err == nil {
					tr.viols = append(tr.viols, viol{"refresh-nil-on-failure", "Refresh returned nil although Upload failed", step})
				}
				for d := range f.snap {
					if _, ok := before[d]; ok {
						tr.nMergePresent++
					} else {
						tr.nMergeAbsent++
					}
				}
			}
			// A queued refresh, if any, now takes the lock and cuts its batch.
			var qAns string
			if queued > 0 {
				qf := waitEnter()
				if qf == nil {
					return tr
				}
				if qf.stamp != int64(step) {
					tr.discarded = true

					return tr
				}
				queued--
				// The remerge happened before the queued reset; pending
				// as seen by the model after this op is what the queued
				// refresh took.
				pendAfterEnd := qf.snap
				emit(o.String(), showRecs("pend", pendAfterEnd))
				// conservation at the intermediate point is checked after entering
				qAns = enter(qf)
				check("begin(after-unblock)")
				emit("begin", qAns)

				continue
			}
			pend := check(o.String())
			emit(o.String(), showRecs("pend", pend))
		}
	}

	// Totals line: the model's ghost counters against the harness' own.
	devs := make([]string, 0, k)
	for d := 0; d < k; d++ {
		devs = append(devs, fmt.Sprintf("%d:%d:%d", d, recorded[d], delivered[d]))
	}
	tot := "tot"
	if len(devs) > 0 {
		tot += " " + strings.Join(devs, " ")
	}
	emit("totals", tot)

	// Let every goroutine finish: release in-flight uploads as successes and
	// let queued refreshes run; what they deliver is accounted for the final
	// drain check.
	for len(inflight) > 0 || queued > 0 {
		if len(inflight) == 0 {
			f := waitEnter()
			if f == nil {
				return tr
			}
			queued--
			f.lastCut = copyLast()
			inflight = append(inflight, f)
		}
		f := inflight[0]
		inflight = inflight[1:]
		f.verdict <- -1
		<-returned
		for d, r := range f.snap {
			delivered[d] += r.N
		}
	}
	// Final drain through the public API only: one more successful refresh
	// must deliver exactly what is still owed.
	go func() { returned <- rr.Refresh(ctx) }()
	f := waitEnter()
	if f == nil {
		return tr
	}
	f.verdict <- -1
	<-returned
	for d, r := range f.snap {
		delivered[d] += r.N
		if r.M != last[d] {
			tr.viols = append(tr.viols, viol{"stale-meta-reported", fmt.Sprintf(
				"final drain: device %d reported with meta %s but its most recent query had %s", d, r.M, last[d]), step + 1})
		}
	}
	for d, want := range recorded {
		if got := delivered[d]; got < want {
			tr.viols = append(tr.viols, viol{"lost-queries", fmt.Sprintf(
				"after the final successful upload: device %d delivered %d < recorded %d", d, got, want), step + 1})
		} else if got > want {
			tr.viols = append(tr.viols, viol{"double-counted-queries", fmt.Sprintf(
				"after the final successful upload: device %d delivered %d > recorded %d", d, got, want), step + 1})
		}
	}
	for d, got := range delivered {
		if _, ok := recorded[d]; !ok && got != 0 {
			tr.viols = append(tr.viols, viol{"double-counted-queries", fmt.Sprintf(
				"device %d never recorded but %d queries delivered", d, got), step + 1})
		}
	}
	if left := verifPending(rr); len(left) != 0 {
		tr.viols = append(tr.viols, viol{"double-counted-queries", fmt.Sprintf(
			"records still pending after a successful upload with no record in between: %s",
			showRecs("pend", canonRecords(left))), step + 1})
	}

	return tr
}

func quietErrColl() *agdtest.ErrorCollector {
	return &agdtest.ErrorCollector{OnCollect: func(_ context.Context, _ error) {}}
}

func verifPending(rr *billstat.RuntimeRecorder) billstat.Records {
	m := rr.VerifC16Pending()
	out := make(billstat.Records, len(m))
	for id, r := range m {
		out[id] = &r
	}

	return out
}

// ---------------------------------------------------------------------------
// Case runner: oracle first, then the model comparison.
// ---------------------------------------------------------------------------

type runner struct {
	o        *hlib.Opts
	r        *hlib.Result
	m        *hlib.Model
	reported map[string]bool
	deadline time.Time
}

// expired reports whether the run's time budget is used up; campaigns stop
// early then, so that what was found is still written out.
func (x *runner) expired() bool {
	if time.Now().After(x.deadline) {
		x.r.Count("stopped.time_budget")

		return true
	}

	return false
}

func (x *runner) runCase(kind string, k int, ops []op) {
	r := x.r
	if x.expired() {
		return
	}
	tr := execReal(k, ops)
	if tr.discarded {
		r.Count("discarded.timing")

		return
	}
	r.Count("case." + kind)
	r.Count(fmt.Sprintf("devices.%d", k))
	r.Distribution["op.total"] += len(tr.lines)
	r.Distribution["upload.ok"] += tr.nOK
	r.Distribution["upload.fail"] += tr.nFail
	r.Distribution["begin.blocked"] += tr.nBlocked
	r.Distribution["begin.overlapping"] += tr.nOverlap
	r.Distribution["remerge.device_present"] += tr.nMergePresent
	r.Distribution["remerge.device_absent"] += tr.nMergeAbsent
	r.Distribution["record.while_in_flight"] += tr.nRecInFlight
	r.Distribution["batch.empty"] += tr.nEmptyBatch
	r.Distribution["end.no_such_upload"] += tr.nNone
	r.Distribution["begin.ctx_not_background"] += tr.nCtx
	r.Distribution["upload.fail.special_error"] += tr.nErrKinds
	nontrivial := tr.nFail > 0 && tr.nOK > 0 && tr.nRecInFlight > 0
	r.Case(strings.Join(tr.lines, ";"), nontrivial)
	if nontrivial {
		r.Sample(map[string]any{"kind": kind, "ops": tr.lines, "real": tr.real}, 6)
	}

	// (b) property oracle, independent of the model.
	seen := map[string]bool{}
	for _, v := range tr.viols {
		if seen[v.sig] || x.reported[v.sig] {
			continue
		}
		seen[v.sig] = true
		x.reported[v.sig] = true
		calls := 0
		small := hlib.Shrink(ops, func(c []op) bool {
			calls++
			if calls > 400 || tr.hung {
				return false
			}
			t := execReal(k, c)
			for _, w := range t.viols {
				if w.sig == v.sig {
					return true
				}
			}

			return false
		})
		t := execReal(k, small)
		what := v.what
		for _, w := range t.viols {
			if w.sig == v.sig {
				what = w.what

				break
			}
		}
		r.Violate(v.sig, fmt.Sprintf("%s [ops: %s]", what, strings.Join(opStrings(small), "; ")),
			map[string]any{"devices": k, "ops": opStrings(small), "real_answers": t.real, "original_ops": opStrings(ops)})
	}

	// (a) correspondence with the model.
	x.m.ResetLog()
	ans := x.m.Batch(tr.lines)
	r.ModelOps += len(tr.lines)
	agree := true
	for i := range tr.lines {
		if ans[i] != tr.real[i] {
			agree = false
			r.Disagree("model-vs-recorder", fmt.Sprintf("op %d %q: recorder %q, model %q [ops: %s]",
				i, tr.lines[i], tr.real[i], ans[i], strings.Join(tr.lines[:i+1], "; ")),
				map[string]any{"devices": k, "lines": tr.lines, "real": tr.real, "model": ans})

			break
		}
	}
	if agree {
		r.Traces++
	}
}

// ---------------------------------------------------------------------------
// Generators.
// ---------------------------------------------------------------------------

type gen struct {
	rng     *rand.Rand
	clock   int64
	overlap *int // remaining budget of overlapping begin attempts (2 ms each on serialised code)
	special bool // use non-background contexts, special error values and bulk records
	bulk    int  // largest bulk record count
}

func (g *gen) meta() meta {
	switch g.rng.IntN(10) {
	case 0:
		// same start time as the previous query
	case 1:
		// a query that started earlier is recorded later
		g.clock -= int64(g.rng.IntN(3))
	case 2:
		g.clock += int64(time.Second)
	default:
		g.clock += 1 + int64(g.rng.IntN(1000))
	}

	return meta{T: g.clock, C: g.rng.IntN(len(countries)), A: asns[g.rng.IntN(len(asns))], P: uint8(g.rng.IntN(6))}
}

// genOps produces one op list.  shape selects the weights.
func (g *gen) genOps(k, length int, shape string) (ops []op) {
	inflight, queued := 0, 0
	rng := g.rng
	for len(ops) < length {
		x := rng.IntN(100)
		var wRec, wBegin, wOK, wFail int
		switch shape {
		case "failstorm":
			wRec, wBegin, wOK, wFail = 45, 25, 3, 25
		case "busy":
			wRec, wBegin, wOK, wFail = 80, 8, 5, 6
		default:
			wRec, wBegin, wOK, wFail = 50, 20, 13, 14
		}
		switch {
		case x < wRec:
			o := op{K: opRec, D: rng.IntN(k), M: g.meta()}
			if g.special && rng.IntN(10) == 0 {
				o.C = []int{ctxCancelled, ctxExpired}[rng.IntN(2)]
			} else if g.special && g.bulk > 0 && rng.IntN(12) == 0 {
				o.N = []int{2, 3, 255, 256, 257, g.bulk}[rng.IntN(6)]
			}
			ops = append(ops, o)
		case x < wRec+wBegin:
			if inflight > 0 {
				if queued > 0 || *g.overlap <= 0 {
					continue
				}
				*g.overlap--
				queued++
			} else {
				inflight++
			}
			o := op{K: opBegin}
			if g.special && rng.IntN(3) == 0 {
				o.C = 1 + rng.IntN(len(ctxModes)-1)
			}
			ops = append(ops, o)
		case x < wRec+wBegin+wOK+wFail:
			ok := x < wRec+wBegin+wOK
			if inflight == 0 {
				if rng.IntN(4) != 0 {
					continue
				}
				ops = append(ops, op{K: opEnd, I: rng.IntN(2), OK: ok})

				continue
			}
			o := op{K: opEnd, I: 0, OK: ok}
			if !ok && g.special && rng.IntN(2) == 0 {
				o.E = rng.IntN(len(errKinds))
			}
			ops = append(ops, o)
			// On serialised code a queued refresh starts right away.
			if queued > 0 {
				queued--
			} else {
				inflight--
			}
		default:
			// malformed: release an upload that does not exist
			ops = append(ops, op{K: opEnd, I: inflight + rng.IntN(3), OK: rng.IntN(2) == 0})
		}
	}

	return ops
}

func (x *runner) randomCampaign() {
	rng := x.o.Rand("random")
	n, budget := 6000, 600
	if x.o.Thorough() {
		n, budget = 40000, 4000
	}
	g := &gen{rng: rng, clock: 1_700_000_000_000_000_000, overlap: &budget}
	shapes := []string{"mixed", "mixed", "failstorm", "busy"}
	for i := 0; i < n; i++ {
		k := 1 + rng.IntN(4)
		length := 1 + rng.IntN(40)
		if rng.IntN(20) == 0 {
			length = 100 + rng.IntN(200)
		}
		shape := shapes[rng.IntN(len(shapes))]
		// Half of the cases vary what the property says must not matter: the
		// state of the contexts, the error value of a failed upload.
		g.special = i%2 == 1
		g.bulk = 0
		if i%40 == 1 {
			g.bulk = 65536 + rng.IntN(5000)
		}
		x.runCase(shape, k, g.genOps(k, length, shape))
	}
}

// wideCampaign: batches with many devices.  Mistakes that depend on the size
// of a batch (chunked remerges, limits on the number of records) need more
// devices than the other campaigns use.
func (x *runner) wideCampaign() {
	rng := x.o.Rand("wide")
	widths := []int{65, 101, 129, 257, 513, 1025}
	reps := 2
	if x.o.Thorough() {
		widths = append(widths, 2049, 4097)
		reps = 3
	}
	budget := 0
	g := &gen{rng: rng, clock: 1_700_000_000_000_000_000, overlap: &budget}
	for _, w := range widths {
		for i := 0; i < reps && !x.expired(); i++ {
			k := w + rng.IntN(1+w/8)
			var ops []op
			// Every device gets a record, in a random order; then uploads
			// fail and succeed while some devices are billed again.
			for _, d := range rng.Perm(k) {
				ops = append(ops, op{K: opRec, D: d, M: g.meta()})
			}
			g.special = i%2 == 1
			shape := []string{"failstorm", "mixed"}[i%2]
			ops = append(ops, g.genOps(k, 20+rng.IntN(40), shape)...)
			x.runCase("wide", k, ops)
		}
	}
}

// deepCampaign: long runs of consecutive failed uploads (with and without
// records in between) before one succeeds, and large per-device counts.
func (x *runner) deepCampaign() {
	rng := x.o.Rand("deep")
	runs := []int{60, 300, 1100}
	if x.o.Thorough() {
		runs = append(runs, 5000, 20000)
	}
	budget := 0
	g := &gen{rng: rng, clock: 1_700_000_000_000_000_000, overlap: &budget}
	for _, n := range runs {
		for variant := 0; variant < 3 && !x.expired(); variant++ {
			k := 1 + rng.IntN(3)
			ops := []op{{K: opRec, D: 0, M: g.meta()}}
			for i := 0; i < n; i++ {
				if variant >= 1 && rng.IntN(3) == 0 {
					ops = append(ops, op{K: opRec, D: rng.IntN(k), M: g.meta()})
				}
				b := op{K: opBegin}
				e := op{K: opEnd, I: 0}
				if variant == 2 {
					b.C = rng.IntN(len(ctxModes))
					e.E = rng.IntN(len(errKinds))
				}
				ops = append(ops, b)
				if variant >= 1 && rng.IntN(3) == 0 {
					ops = append(ops, op{K: opRec, D: rng.IntN(k), M: g.meta()})
				}
				ops = append(ops, e)
			}
			ops = append(ops, op{K: opBegin}, op{K: opEnd, I: 0, OK: true})
			x.runCase("deep", k, ops)
		}
	}
	// Large counts: more than 2^16 (and, thorough, 2^24) queries of one device
	// between two successful uploads, some of them through a remerge.
	bulks := []int{65535, 65536, 70001}
	if x.o.Thorough() {
		bulks = append(bulks, 1<<24+3)
	}
	for _, n := range bulks {
		if x.expired() {
			break
		}
		m1, m2, m3 := g.meta(), g.meta(), g.meta()
		x.runCase("bulk", 2, []op{
			{K: opRec, D: 0, M: m1, N: n}, {K: opRec, D: 1, M: m1}, {K: opBegin}, {K: opRec, D: 0, M: m2, N: n / 2},
			{K: opEnd, I: 0}, {K: opBegin}, {K: opRec, D: 0, M: m3, N: 2}, {K: opEnd, I: 0, E: 1}, {K: opBegin}, {K: opEnd, I: 0, OK: true},
			{K: opRec, D: 0, M: m1, N: n}, {K: opBegin}, {K: opEnd, I: 0, OK: true},
		})
	}
}

// scenarioCampaign runs the hand-written boundary scenarios.
func (x *runner) scenarioCampaign() {
	m := func(t int64, c int, a uint32, p uint8) meta { return meta{T: t, C: c, A: a, P: p} }
	recd := func(d int, mm meta) op { return op{K: opRec, D: d, M: mm} }
	begin := op{K: opBegin}
	ok := func(i int) op { return op{K: opEnd, I: i, OK: true} }
	fail := func(i int) op { return op{K: opEnd, I: i, OK: false} }
	m1, m2, m3 := m(100, 1, 42, 2), m(200, 2, 1, 4), m(300, 3, 65535, 1)
	scen := map[string][]op{
		// TestRuntimeRecorder_fail's shape.
		"fail-then-success": {recd(0, m1), begin, recd(0, m2), fail(0), begin, ok(0)},
		// the failed device is absent when the batch comes back
		"fail-absent": {recd(0, m1), recd(1, m2), begin, recd(1, m3), fail(0), begin, ok(0)},
		// repeated failures accumulate
		"fail-fail-fail": {recd(0, m1), begin, fail(0), recd(0, m2), begin, fail(0), begin, recd(0, m3), fail(0), begin, ok(0)},
		// empty batches
		"empty": {begin, ok(0), begin, fail(0), recd(0, m1), begin, ok(0), begin, ok(0)},
		// two refreshes that would overlap: both fail, the older comes back first
		"overlap-older-first": {recd(0, m1), begin, recd(0, m2), begin, fail(0), fail(0), begin, ok(0)},
		// … the newer comes back first
		"overlap-newer-first": {recd(0, m1), begin, recd(0, m2), begin, fail(1), fail(0), begin, ok(0)},
		// overlap, older succeeds, newer fails
		"overlap-ok-fail": {recd(0, m1), begin, recd(0, m2), recd(1, m3), begin, ok(0), fail(0), begin, ok(0)},
		// success while records arrive
		"success-with-racing-records": {recd(0, m1), begin, recd(0, m2), recd(0, m3), ok(0), begin, ok(0)},
		// a query with an older start time is recorded last
		"older-start-recorded-last": {recd(0, m2), recd(0, m1), begin, recd(0, m3), recd(0, m1), fail(0), begin, ok(0)},
	}
	for _, name := range hlib.SortedKeys(scen) {
		x.runCase("scenario."+name, 2, scen[name])
	}
}

// exhaustiveCampaign enumerates every op sequence up to a length over two
// devices (thorough tier).  Ops that are no-ops on the serialised recorder
// (begin while an upload is in flight, end with nothing in flight) are pruned;
// every record carries a fresh meta so that a stale one cannot hide.
func (x *runner) exhaustiveCampaign(maxLen int) {
	type sym int
	const (
		sRec0 sym = iota
		sRec1
		sBegin
		sOK
		sFail
		nSym
	)
	var seq []sym
	count := 0
	// The order of the ops is enumerated; the context states and the error
	// values, which must not matter, are drawn per op.
	rot := x.o.Rand("exhaustive")
	var walk func(inflight bool)
	emitCase := func() {
		var ops []op
		clock := int64(1000)
		for _, s := range seq {
			switch s {
			case sRec0, sRec1:
				clock += 7
				ops = append(ops, op{K: opRec, D: int(s), M: meta{T: clock, C: int(clock/7) % 4, A: uint32(clock), P: uint8(clock/7) % 6}})
			case sBegin:
				ops = append(ops, op{K: opBegin, C: rot.IntN(len(ctxModes))})
			case sOK:
				ops = append(ops, op{K: opEnd, I: 0, OK: true})
			case sFail:
				ops = append(ops, op{K: opEnd, I: 0, OK: false, E: rot.IntN(len(errKinds))})
			}
		}
		x.runCase("exhaustive", 2, ops)
		count++
	}
	walk = func(inflight bool) {
		if len(seq) > 0 {
			emitCase()
		}
		if len(seq) == maxLen {
			return
		}
		for s := sym(0); s < nSym; s++ {
			next := inflight
			switch s {
			case sBegin:
				if inflight {
					continue
				}
				next = true
			case sOK, sFail:
				if !inflight {
					continue
				}
				next = false
			}
			seq = append(seq, s)
			walk(next)
			seq = seq[:len(seq)-1]
		}
	}
	walk(false)
	x.r.Distribution["exhaustive.sequences"] = count
	x.r.Distribution["exhaustive.max_len"] = maxLen
	x.r.Exhaustive = true
}

// ---------------------------------------------------------------------------
// Concurrent campaign: real goroutine schedules, oracle only (totals).
// ---------------------------------------------------------------------------

type flaky struct {
	mu        sync.Mutex
	rng       *rand.Rand
	failPct   int
	delivered map[int]int64
	lastSeq   map[int]int64 // per device: Time of the last successfully reported record
	regress   []string
	uploads   int
	fails     int
}

func (u *flaky) Upload(_ context.Context, records billstat.Records) (err error) {
	snap := canonRecords(records)
	runtime.Gosched()
	u.mu.Lock()
	defer u.mu.Unlock()
	u.uploads++
	if u.rng.IntN(100) < u.failPct {
		u.fails++

		return errUpload
	}
	for d, r := range snap {
		u.delivered[d] += r.N
		if prev, ok := u.lastSeq[d]; ok && r.M.T < prev {
			u.regress = append(u.regress, fmt.Sprintf("device %d: reported time %d after %d", d, r.M.T, prev))
		}
		u.lastSeq[d] = r.M.T
	}

	return nil
}

func (x *runner) concurrentCampaign() {
	rng := x.o.Rand("concurrent")
	rounds := 60
	if x.o.Thorough() {
		rounds = 400
	}
	for round := 0; round < rounds && !x.expired(); round++ {
		workers := 2 + rng.IntN(5)
		perWorker := 200 + rng.IntN(3000)
		shared := rng.IntN(2) == 0
		up := &flaky{rng: rand.New(rand.NewPCG(rng.Uint64(), 16)), failPct: []int{0, 30, 60, 90}[rng.IntN(4)],
			delivered: map[int]int64{}, lastSeq: map[int]int64{}}
		rr := billstat.NewRuntimeRecorder(&billstat.RuntimeRecorderConfig{
			Logger: slogutil.NewDiscardLogger(), ErrColl: quietErrColl(), Uploader: up, Metrics: billstat.EmptyMetrics{},
		})
		ctx := context.Background()
		var wg sync.WaitGroup
		recorded := make([]map[int]int64, workers)
		finalT := make([]int64, workers)
		for w := 0; w < workers; w++ {
			recorded[w] = map[int]int64{}
			seed := rng.Uint64()
			wg.Add(1)
			go func(w int) {
				defer wg.Done()
				lr := rand.New(rand.NewPCG(seed, 5))
				for i := 0; i < perWorker; i++ {
					// Device w belongs to worker w alone, with increasing
					// times; device 100 is shared by all workers.
					d := w
					if shared && lr.IntN(3) == 0 {
						d = 100
					}
					t := int64(i + 1)
					if d == 100 {
						t = 0
					} else {
						finalT[w] = t
					}
					rr.Record(ctx, devID(d), countries[lr.IntN(len(countries))], geoip.ASN(w), time.Unix(0, t), agd.Protocol(lr.IntN(6)))
					recorded[w][d]++
					if lr.IntN(64) == 0 {
						runtime.Gosched()
					}
				}
			}(w)
		}
		stop := make(chan struct{})
		var rwg sync.WaitGroup
		// One refresher is the refresh worker; a second one plays the debug
		// API and the shutdown refresh.
		refreshers := 1 + rng.IntN(2)
		rwg.Add(refreshers)
		for i := 0; i < refreshers; i++ {
			go func() {
				defer rwg.Done()
				for {
					select {
					case <-stop:
						return
					default:
						_ = rr.Refresh(ctx)
						runtime.Gosched()
					}
				}
			}()
		}
		x.r.Count(fmt.Sprintf("concurrent.refreshers.%d", refreshers))
		wg.Wait()
		close(stop)
		rwg.Wait()
		up.mu.Lock()
		up.failPct = 0
		up.mu.Unlock()
		if err := rr.Refresh(ctx); err != nil {
			x.r.Violate("refresh-error-on-success", "concurrent: final Refresh failed: "+err.Error(), nil)
		}
		want := map[int]int64{}
		for _, m := range recorded {
			for d, n := range m {
				want[d] += n
			}
		}
		replay := map[string]any{"campaign": "concurrent", "workers": workers, "per_worker": perWorker, "shared_device": shared, "round": round}
		for d, n := range want {
			if got := up.delivered[d]; got < n {
				x.r.Violate("lost-queries", fmt.Sprintf("concurrent recorders: device %d delivered %d < recorded %d", d, got, n), replay)
			} else if got > n {
				x.r.Violate("double-counted-queries", fmt.Sprintf("concurrent recorders: device %d delivered %d > recorded %d", d, got, n), replay)
			}
		}
		for w := 0; w < workers; w++ {
			if got := up.lastSeq[w]; got != finalT[w] {
				x.r.Violate("stale-meta-reported", fmt.Sprintf(
					"concurrent recorders: device %d last reported time %d, its most recent query had %d", w, got, finalT[w]), replay)
			}
		}
		if len(up.regress) > 0 {
			x.r.Violate("stale-meta-reported", "concurrent recorders: "+up.regress[0], replay)
		}
		if left := rr.VerifC16Pending(); len(left) != 0 {
			x.r.Violate("double-counted-queries", fmt.Sprintf("concurrent: %d records pending after the final successful upload", len(left)), replay)
		}
		x.r.Count("concurrent.rounds")
		x.r.Distribution["concurrent.records"] += workers * perWorker
		x.r.Distribution["concurrent.uploads"] += up.uploads
		x.r.Distribution["concurrent.failed_uploads"] += up.fails
		x.r.Case(fmt.Sprintf("concurrent %d %d %v %d", workers, perWorker, shared, up.failPct), up.fails > 0 && up.uploads > up.fails)
	}
}

func main() {
	o := hlib.ParseFlags()
	r := hlib.NewResult("C16", o)
	r.Rule = "sequential: op lists (record d meta | begin | ok i | fail i) drive the real RuntimeRecorder with a scripted " +
		"Uploader that blocks until released, so records land while an upload is in flight; after every op the oracle " +
		"checks delivered + pending + in-flight = recorded per device and pending/reported meta = meta of the most recent " +
		"query, then the same lines go to the Lean model and every answer (pending entry, batch content, blocked) is " +
		"compared; a case is non-trivial when it has a failed upload, a successful one and a record during an upload; " +
		"distinct = distinct op-line lists.  concurrent: racing recorder goroutines against a randomly failing uploader, " +
		"totals and per-device meta order checked at quiescence."
	m := hlib.StartModel(o.Model, "C16")
	defer m.Close()
	budget := 100 * time.Second
	if o.Thorough() {
		budget = 12 * time.Minute
	}
	x := &runner{o: o, r: r, m: m, reported: map[string]bool{}, deadline: time.Now().Add(budget)}

	only := os.Getenv("C16_ONLY") // debugging aid: run the named campaigns only
	timed := func(name string, f func()) {
		if only != "" && !strings.Contains(","+only+",", ","+name+",") {
			return
		}
		t0 := time.Now()
		f()
		fmt.Fprintf(os.Stderr, "c16: campaign %s took %s\n", name, time.Since(t0).Round(time.Millisecond))
	}
	timed("scenario", x.scenarioCampaign)
	timed("wide", x.wideCampaign)
	timed("deep", x.deepCampaign)
	timed("random", x.randomCampaign)
	if o.Thorough() {
		timed("exhaustive", func() { x.exhaustiveCampaign(9) })
	} else {
		timed("exhaustive", func() { x.exhaustiveCampaign(7) })
	}
	if len(r.Violations) == 0 {
		timed("concurrent", x.concurrentCampaign)
	} else {
		// The sequential campaigns already have replays.  Racing goroutines
		// against code that, e.g., hands the live map to the uploader can
		// end in a fatal "concurrent map read and map write", which would
		// lose them.
		r.Notes = append(r.Notes, "concurrent campaign skipped: the sequential campaigns already found violations")
	}
	timed("grpc", func() { pbCampaign(x) })
	timed("server", func() { glueCampaign(x) })
	timed("wired", func() { wiredCampaign(x) })

	r.Finish()
}
