//go:build c08legacy

package main

// wiringCampaign needs the configuration hooks of the current tree; the legacy
// differential run (legacy_diff.sh, pinned tree) goes without it.
func (x *runner) wiringCampaign() {}
