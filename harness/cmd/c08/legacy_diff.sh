#!/bin/bash
# Differential run of the LEGACY model (serveG true / respondG true) against the pinned tree:
# checks out the commit just before the first C08 fix into a scratch worktree, overlays the current
# C08 hook file, builds the harness against it and runs it with C08_LEGACY=1.
# Expected: 0 disagreements; violations exactly the legacy findings
# (opt-echo-size-synthesised, opt-missing-synthesised, udp-oversize-reflected-option-payload,
#  udp-oversize-handler-opt-undroppable) plus the still-known ones.
# usage: harness/cmd/c08/legacy_diff.sh [seed]     (VERIF_REPO selects the repository, default /repo)
set -e
REPO=${VERIF_REPO:-/repo}; SEED=${1:-1}
HERE=$(cd "$(dirname "$0")/../.." && pwd)
export GOWORK=off GOPROXY=off GOSUMDB=off GOTOOLCHAIN=local
L=$(git -C "$REPO" log --format=%h --grep "echo the client's UDP payload size" | head -1)
W=$(mktemp -d "${C08_SCRATCH:-/tmp}/c08-legacy.XXXXXX")
git -C "$REPO" worktree add -q --detach "$W/repo" "${L}^"
trap 'git -C "$REPO" worktree remove --force "$W/repo"; git -C "$REPO" worktree prune; rm -rf "$W"' EXIT
cp "$REPO/internal/dnsserver/verif_export_c08.go" "$W/repo/internal/dnsserver/"
sed "s#=> /repo#=> $W/repo#" "$HERE/go.mod" > "$W/go.mod"; cp "$HERE/go.sum" "$W/go.sum"
( cd "$HERE" && GOFLAGS="-mod=mod -modfile=$W/go.mod" go build -tags verif,c08legacy -o "$W/c08" ./cmd/c08 )
( cd "$HERE" && C08_LEGACY=1 "$W/c08" -seed "$SEED" -tier quick -model "$HERE/../lean/.lake/build/bin/agdmodel" -out "$W/out.json" 2>/dev/null )
python3 - "$W/out.json" <<'PY'
import json, sys
from collections import Counter
d = json.load(open(sys.argv[1]))
sigs = Counter(v["signature"] for v in d["violations"])
print("evaluations", d["evaluations"], "disagreements", len(d["disagreements"]), "violations", dict(sigs))
need = {"opt-echo-size-synthesised", "opt-missing-synthesised", "udp-oversize-reflected-option-payload", "udp-oversize-handler-opt-undroppable"}
ok = not d["disagreements"] and need <= set(sigs)
print("LEGACY-DIFF", "OK" if ok else "FAILED")
sys.exit(0 if ok else 1)
PY
