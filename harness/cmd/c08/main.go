// Command c08 is the correspondence harness and property oracle for C08
// (response size limits, safe truncation, OPT / padding / keep-alive rules).
package main

import (
	"bytes"
	"context"
	"crypto/ed25519"
	"encoding/base64"
	"encoding/binary"
	"encoding/json"
	"fmt"
	"io"
	"math/rand/v2"
	"net"
	"net/http"
	"net/http/httptest"
	"net/url"
	"os"
	"reflect"
	"strconv"
	"strings"
	"time"

	"github.com/AdguardTeam/AdGuardDNS/internal/dnsmsg"
	"github.com/AdguardTeam/AdGuardDNS/internal/dnsserver"
	"github.com/AdguardTeam/AdGuardDNS/internal/dnsserver/netext"
	"github.com/AdguardTeam/AdGuardDNS/verifh/hlib"
	"github.com/ameshkov/dnscrypt/v2"
	"github.com/ameshkov/dnsstamps"
	"github.com/miekg/dns"
	"github.com/quic-go/quic-go"
)

// ---------------------------------------------------------------------------
// Transports and fakes

var transports = []string{"udp", "tcp", "dot", "doh", "doq", "dcu", "dct"}

func isUDP(t string) bool      { return t == "udp" || t == "dcu" }
func hasPadding(t string) bool { return t == "dot" || t == "doh" || t == "doq" }
func hasKA(t string) bool      { return t == "tcp" || t == "dot" }
func prefixed(t string) bool   { return t == "tcp" || t == "dot" || t == "doq" }

var (
	udpLocal  = &net.UDPAddr{IP: net.IPv4(127, 0, 0, 1), Port: 53}
	udpRemote = &net.UDPAddr{IP: net.IPv4(192, 0, 2, 7), Port: 40000}
	tcpLocal  = &net.TCPAddr{IP: net.IPv4(127, 0, 0, 1), Port: 53}
	tcpRemote = &net.TCPAddr{IP: net.IPv4(192, 0, 2, 7), Port: 40000}
)

// sink collects what a write path puts on its connection.
type sink struct {
	writes [][]byte
	closed bool
	// failNext: that many of the next writes fail (nothing is sent) with
	// errConnWrite; failed counts them.
	failNext int
	failed   int
}

var errConnWrite = &net.OpError{Op: "write", Net: "c08", Err: os.ErrDeadlineExceeded}

func (s *sink) fail() bool {
	if s.failNext > 0 {
		s.failNext--
		s.failed++

		return true
	}

	return false
}

type fakePacketConn struct {
	net.PacketConn
	s *sink
}

func (c fakePacketConn) WriteTo(b []byte, _ net.Addr) (int, error) {
	if c.s.fail() {
		return 0, errConnWrite
	}
	c.s.writes = append(c.s.writes, bytes.Clone(b))

	return len(b), nil
}
func (c fakePacketConn) SetWriteDeadline(time.Time) error { return nil }
func (c fakePacketConn) LocalAddr() net.Addr              { return udpLocal }

type fakeConn struct {
	net.Conn
	s *sink
}

func (c fakeConn) Write(b []byte) (int, error) {
	if c.s.fail() {
		return 0, errConnWrite
	}
	c.s.writes = append(c.s.writes, bytes.Clone(b))

	return len(b), nil
}
func (c fakeConn) Close() error                     { c.s.closed = true; return nil }
func (c fakeConn) SetWriteDeadline(time.Time) error { return nil }
func (c fakeConn) LocalAddr() net.Addr              { return tcpLocal }
func (c fakeConn) RemoteAddr() net.Addr             { return tcpRemote }

type fakeStream struct {
	quic.Stream
	in *bytes.Reader
	s  *sink
}

func (f fakeStream) Read(b []byte) (int, error) { return f.in.Read(b) }
func (f fakeStream) Write(b []byte) (int, error) {
	f.s.writes = append(f.s.writes, bytes.Clone(b))

	return len(b), nil
}
func (f fakeStream) Close() error                    { return nil }
func (f fakeStream) SetReadDeadline(time.Time) error { return nil }

type fakeQUICConn struct {
	quic.Connection
	s *sink
}

func (c fakeQUICConn) LocalAddr() net.Addr  { return udpLocal }
func (c fakeQUICConn) RemoteAddr() net.Addr { return udpRemote }
func (c fakeQUICConn) CloseWithError(quic.ApplicationErrorCode, string) error {
	c.s.closed = true

	return nil
}

type fakeCryptRW struct {
	udp bool
	got *dns.Msg
}

func (w *fakeCryptRW) LocalAddr() net.Addr {
	if w.udp {
		return udpLocal
	}

	return tcpLocal
}

func (w *fakeCryptRW) RemoteAddr() net.Addr {
	if w.udp {
		return udpRemote
	}

	return tcpRemote
}
func (w *fakeCryptRW) WriteMsg(m *dns.Msg) error { w.got = m; return nil }

// servers caches one unstarted server per (transport, cfgMax, idle).
type servers struct {
	cur *dns.Msg
	// mode is what the handler does: "wrote" (WriteMsg(cur), return its error),
	// "silent" (return nil), "failed0" (return an error), "failed1" (return a
	// timeout error); none of the last three writes anything.
	mode string
	// called is set when the handler ran.
	called bool
	// writeErr is what the response writer returned to the handler.
	writeErr error
	cache    map[string]any
	// doh selects how the DoH server is entered: "" / "post" (wire format in
	// the body), "get" (RFC 8484 GET, ?dns=base64url), "jsonwire" (the JSON
	// API's request parameters with ct=application/dns-message) or "json".
	doh string
	// jsonBody is the JSON document the last "json" exchange returned.
	jsonBody []byte
	// alias: the handler answers with the request's own OPT record *object* in
	// place of its response's OPT record (same values: the generator made the
	// response's OPT a copy of what the server parses) — a handler that
	// reflects `req.Extra`.  Everything the write path later does to the
	// request shows in such a response.
	alias *dns.OPT
	// cloner is the production Disposer (internal/cmd gives one dnsmsg.Cloner to
	// every listener and every middleware): all servers of the harness dispose
	// of what they have written into its pools.  With useCloner the handler
	// answers, like the production cache and filtering code, with a message
	// taken from those pools (Clone of the generated response); lastClone is
	// that message.
	cloner    *dnsmsg.Cloner
	useCloner bool
	lastClone *dns.Msg
	// failWrites: the connection of the next exchange fails that many writes.
	failWrites int
	// sharedSection counts the responses that left with the request's own
	// additional section.
	sharedSection int
	// override, when set, maps a transport to a server built elsewhere (the
	// wiring campaign: by the production builder from a configuration file).
	override map[string]any
}

func (sv *servers) handler() dnsserver.Handler {
	return dnsserver.HandlerFunc(func(ctx context.Context, rw dnsserver.ResponseWriter, req *dns.Msg) error {
		sv.called = true
		switch sv.mode {
		case "silent":
			return nil
		case "failed0":
			return errHandler
		case "failed1":
			return os.ErrDeadlineExceeded
		}
		resp := sv.cur
		resp.Id = req.Id
		if sv.useCloner && sv.alias == nil {
			resp = sv.cloner.Clone(resp)
			sv.lastClone = resp
		}
		if ro := req.IsEdns0(); sv.alias != nil && ro != nil {
			for i, rr := range resp.Extra {
				if rr == dns.RR(sv.alias) {
					resp.Extra[i] = ro
				}
			}
			// ... or the request's whole additional section (`resp.Extra =
			// req.Extra`: the same backing array), when the two hold the same
			// single record; for every other query, so that both kinds occur.
			if len(resp.Extra) == 1 && len(req.Extra) == 1 && resp.Extra[0] == req.Extra[0] && req.Id%2 == 0 {
				resp.Extra = req.Extra
				sv.sharedSection++
			}
		}

		sv.writeErr = rw.WriteMsg(ctx, req, resp)

		return sv.writeErr
	})
}

var errHandler = fmt.Errorf("c08: handler failed")

func (sv *servers) get(t string, cfgMax uint16, idleMs int) any {
	if s, ok := sv.override[t]; ok {
		return s
	}
	key := fmt.Sprintf("%s/%d/%d", t, cfgMax, idleMs)
	if s, ok := sv.cache[key]; ok {
		return s
	}
	base := dnsserver.ConfigBase{Name: "c08", Addr: "127.0.0.1:0", Handler: sv.handler(), Disposer: sv.cloner}
	var s any
	switch t {
	case "udp", "tcp":
		s = dnsserver.NewServerDNS(otherFields(dnsserver.ConfigDNS{ConfigBase: base, MaxUDPRespSize: cfgMax,
			TCPIdleTimeout: time.Duration(idleMs) * time.Millisecond}, len(sv.cache)))
	case "dot":
		s = dnsserver.NewServerTLS(dnsserver.ConfigTLS{ConfigDNS: otherFields(dnsserver.ConfigDNS{ConfigBase: base,
			MaxUDPRespSize: cfgMax, TCPIdleTimeout: time.Duration(idleMs) * time.Millisecond}, len(sv.cache))})
	case "doh":
		s = dnsserver.NewServerHTTPS(dnsserver.ConfigHTTPS{ConfigBase: base})
	case "doq":
		s = dnsserver.NewServerQUIC(dnsserver.ConfigQUIC{ConfigBase: base})
	case "dcu", "dct":
		s = dnsserver.NewServerDNSCrypt(dnsCryptConf(dnsserver.ConfigDNSCrypt{ConfigBase: base}, cfgMax))
	}
	sv.cache[key] = s

	return s
}

// otherFields sets the configuration fields that have nothing to do with the
// response size limit (sizes of the *read* buffers, timeouts, pipelining) to
// values that differ from server to server and from the configured maximum: no
// other number of the configuration may find its way into the limit.  k is any
// number that varies between servers.
func otherFields(c dnsserver.ConfigDNS, k int) dnsserver.ConfigDNS {
	c.UDPSize = []int{0, 600, 1500, 4096, 9000, 65535}[k%6]
	c.TCPSize = []int{0, 700, 2048, 16384, 65535}[k%5]
	c.ReadTimeout = []time.Duration{0, 3 * time.Second, 1200 * time.Millisecond}[k%3]
	c.WriteTimeout = []time.Duration{0, 2 * time.Second, 1500 * time.Millisecond}[k%3]
	if k%4 == 1 {
		c.MaxPipelineEnabled, c.MaxPipelineCount = true, uint(1+k%7)
	}

	return c
}

// dcCapField reports whether the tree under test has ConfigDNSCrypt.MaxUDPRespSize
// (it has since the fix: commit that wires dns.max_udp_response_size into the
// DNSCrypt server).  The field is set by reflection so that this harness still
// builds against older trees (legacy_diff.sh, bisecting).
var dcCapField = true

// dnsCryptConf hands the configured UDP maximum to a DNSCrypt configuration.
// Zero means "not set" there (the server then uses 65535).
func dnsCryptConf(conf dnsserver.ConfigDNSCrypt, cfgMax uint16) dnsserver.ConfigDNSCrypt {
	f := reflect.ValueOf(&conf).Elem().FieldByName("MaxUDPRespSize")
	if !f.IsValid() || !f.CanSet() || f.Kind() != reflect.Uint16 {
		dcCapField = false

		return conf
	}
	f.SetUint(uint64(cfgMax))

	return conf
}

// driven is what the real write path did with one (request, handler response).
type driven struct {
	wire    []byte // DNS message bytes that left the server (prefix stripped); nil if nothing was sent
	emitted bool
	// fallback is set when the writer refused the handler's response and the
	// server answered with its own SERVFAIL instead; wire is that SERVFAIL.
	fallback bool
	badWire  string // framing problem seen on the connection
	closed   bool   // the server closed the connection
}

// drive pushes reqWire through the real serving code of transport t with a
// handler that answers resp.  resp is normalised in place.
func (sv *servers) drive(t string, cfgMax uint16, idleMs int, reqWire []byte, resp *dns.Msg) (d driven) {
	return sv.driveMode("wrote", t, cfgMax, idleMs, reqWire, resp)
}

func (sv *servers) driveMode(mode, t string, cfgMax uint16, idleMs int, reqWire []byte, resp *dns.Msg) (d driven) {
	sv.cur, sv.writeErr, sv.mode, sv.called = resp, nil, mode, false
	sk := &sink{failNext: sv.failWrites}
	sv.failWrites = 0
	defer func() { d.closed = sk.closed }()
	switch t {
	case "udp":
		s := sv.get(t, cfgMax, idleMs).(*dnsserver.ServerDNS)
		dnsserver.VerifC08ServeUDP(s, reqWire, fakePacketConn{s: sk}, netext.NewSimplePacketSession(udpLocal, udpRemote))
	case "tcp":
		s := sv.get(t, cfgMax, idleMs).(*dnsserver.ServerDNS)
		dnsserver.VerifC08ServeTCP(s, reqWire, fakeConn{s: sk})
	case "dot":
		s := sv.get(t, cfgMax, idleMs).(*dnsserver.ServerTLS)
		dnsserver.VerifC08ServeTCP(s.ServerDNS, reqWire, fakeConn{s: sk})
	case "doq":
		s := sv.get(t, cfgMax, idleMs).(*dnsserver.ServerQUIC)
		in := make([]byte, 2+len(reqWire))
		binary.BigEndian.PutUint16(in, uint16(len(reqWire)))
		copy(in[2:], reqWire)
		_ = dnsserver.VerifC08ServeQUICStream(s, fakeStream{in: bytes.NewReader(in), s: sk}, fakeQUICConn{s: sk})
	case "doh":
		s := sv.get(t, cfgMax, idleMs).(*dnsserver.ServerHTTPS)
		// "h3" / "h3get": the handler of the HTTP/3 listener, whose local address
		// is a UDP address (DoH3 is still a stream transport: limit 65535).
		la, mode3 := net.Addr(tcpLocal), strings.HasPrefix(sv.doh, "h3")
		if mode3 {
			la = udpLocal
		}
		h := dnsserver.VerifC08HTTPHandler(s, la)
		var r *http.Request
		switch sv.doh {
		case "get", "h3get":
			r = httptest.NewRequest(http.MethodGet, "https://dns.example/dns-query?dns="+base64.RawURLEncoding.EncodeToString(reqWire), nil)
		case "jsonwire", "json":
			q := &dns.Msg{}
			if q.Unpack(reqWire) != nil || len(q.Question) != 1 {
				return d
			}
			v := url.Values{}
			v.Set("name", q.Question[0].Name)
			v.Set("type", strconv.Itoa(int(q.Question[0].Qtype)))
			if o := q.IsEdns0(); o != nil {
				if o.Do() {
					v.Set("do", "1")
				}
				if len(o.Option) > 0 {
					v.Set("sde", "true")
				}
			}
			if q.CheckingDisabled {
				v.Set("cd", "1")
			}
			if sv.doh == "jsonwire" {
				v.Set("ct", dnsserver.MimeTypeDoH)
			}
			r = httptest.NewRequest(http.MethodGet, "https://dns.example/resolve?"+v.Encode(), nil)
		default:
			r = httptest.NewRequest(http.MethodPost, "https://dns.example/dns-query", bytes.NewReader(reqWire))
			r.Header.Set("Content-Type", dnsserver.MimeTypeDoH)
		}
		r.RemoteAddr = "192.0.2.7:40000"
		if mode3 {
			r.Proto, r.ProtoMajor, r.ProtoMinor = "HTTP/3.0", 3, 0
		}
		w := httptest.NewRecorder()
		h.ServeHTTP(w, r)
		if w.Code == http.StatusOK && sv.doh == "json" {
			sv.jsonBody = bytes.Clone(w.Body.Bytes())
			if ct := w.Header().Get("Content-Type"); ct != dnsserver.MimeTypeJSON {
				d.badWire = "json api answered with content type " + ct
			}

			return d
		} else if w.Code == http.StatusOK {
			sk.writes = append(sk.writes, w.Body.Bytes())
			if cl := w.Header().Get("Content-Length"); cl != strconv.Itoa(w.Body.Len()) {
				d.badWire = "content-length " + cl + " != body " + strconv.Itoa(w.Body.Len())
			}
		}
	case "dcu", "dct":
		s := sv.get(t, cfgMax, idleMs).(*dnsserver.ServerDNSCrypt)
		req := &dns.Msg{}
		if req.Unpack(reqWire) != nil {
			return d
		}
		rw := &fakeCryptRW{udp: t == "dcu"}
		_ = dnsserver.VerifC08ServeDNSCrypt(s, rw, req)
		if rw.got != nil {
			if b, err := rw.got.Pack(); err == nil {
				sk.writes = append(sk.writes, b)
			}
		}
	}
	if len(sk.writes) == 0 {
		return d
	}
	if len(sk.writes) > 1 {
		d.badWire = fmt.Sprintf("%d writes for one response", len(sk.writes))
	}
	b := sk.writes[0]
	if prefixed(t) {
		if len(b) < 2 {
			d.badWire = "short frame"

			return d
		}
		if int(binary.BigEndian.Uint16(b))+2 != len(b) {
			d.badWire = fmt.Sprintf("length prefix %d on a frame of %d bytes", binary.BigEndian.Uint16(b), len(b))
		}
		b = b[2:]
	}
	d.wire, d.emitted = b, true
	if sv.writeErr != nil {
		d.emitted, d.fallback = false, true
	}

	return d
}

// ---------------------------------------------------------------------------
// Views and measurements

type eopt struct {
	Code uint16
	Len  int
}

type optView struct {
	Present  bool
	Size     uint16
	Ext, Ver uint8
	Do       bool
	Z        uint16
	Opts     []eopt
}

func payloadLen(e dns.EDNS0) int {
	return dns.Len(&dns.OPT{Hdr: dns.RR_Header{Name: ".", Rrtype: dns.TypeOPT}, Option: []dns.EDNS0{e}}) - 15
}

func viewOpt(o *dns.OPT) (v optView) {
	if o == nil {
		return v
	}
	ttl := o.Hdr.Ttl
	v = optView{Present: true, Size: o.Hdr.Class, Ext: uint8(ttl >> 24), Ver: uint8(ttl >> 16),
		Do: ttl&0x8000 != 0, Z: uint16(ttl & 0x7fff)}
	for _, e := range o.Option {
		v.Opts = append(v.Opts, eopt{e.Option(), payloadLen(e)})
	}

	return v
}

func (v optView) has(code uint16) bool {
	for _, e := range v.Opts {
		if e.Code == code {
			return true
		}
	}

	return false
}

func (v optView) lens(code uint16) (ls []int) {
	for _, e := range v.Opts {
		if e.Code == code {
			ls = append(ls, e.Len)
		}
	}

	return ls
}

func (v optView) optsString() string {
	if len(v.Opts) == 0 {
		return "_"
	}
	parts := make([]string, len(v.Opts))
	for i, e := range v.Opts {
		parts[i] = fmt.Sprintf("%d:%d", e.Code, e.Len)
	}

	return strings.Join(parts, ",")
}

func b2s(b bool) string {
	if b {
		return "1"
	}

	return "0"
}

func (v optView) String() string {
	if !v.Present {
		return "0 0 0 0 0 0 _"
	}

	return fmt.Sprintf("1 %d %d %d %s %d %s", v.Size, v.Ext, v.Ver, b2s(v.Do), v.Z, v.optsString())
}

// noOPT returns rrs without the OPT record of the message (the last one, which
// is what Msg.IsEdns0 and Msg.Truncate look at); further OPT records are
// ordinary additional records to the library and to the model.
func noOPT(rrs []dns.RR) (out []dns.RR) {
	last := -1
	for i, rr := range rrs {
		if rr.Header().Rrtype == dns.TypeOPT {
			last = i
		}
	}
	for i, rr := range rrs {
		if i != last {
			out = append(out, rr)
		}
	}

	return out
}

func countOPT(rrs []dns.RR) (n int) {
	for _, rr := range rrs {
		if rr.Header().Rrtype == dns.TypeOPT {
			n++
		}
	}

	return n
}

// sizes are the library's own length figures for a handler response.
type sizes struct {
	q, unc                  int
	ans, ns, extra, ns2, e2 []int
}

func incs(m *dns.Msg, ans, ns, extra []dns.RR) (q int, a, n, e []int) {
	m.Answer, m.Ns, m.Extra = nil, nil, nil
	q = m.Len()
	prev := q
	step := func() int {
		l := m.Len()
		d := l - prev
		prev = l

		return d
	}
	for i := range ans {
		m.Answer = ans[:i+1]
		a = append(a, step())
	}
	for i := range ns {
		m.Ns = ns[:i+1]
		n = append(n, step())
	}
	for i := range extra {
		m.Extra = extra[:i+1]
		e = append(e, step())
	}

	return q, a, n, e
}

func measure(resp *dns.Msg) (z sizes) {
	extra := noOPT(resp.Extra)
	m := &dns.Msg{MsgHdr: resp.MsgHdr, Compress: true, Question: resp.Question}
	z.q, z.ans, z.ns, z.extra = incs(m, resp.Answer, resp.Ns, extra)
	if len(resp.Answer) == 0 {
		z.ns2, z.e2 = z.ns, z.extra
	} else {
		_, _, z.ns2, z.e2 = incs(m, nil, resp.Ns, extra)
	}
	u := &dns.Msg{MsgHdr: resp.MsgHdr, Compress: false, Question: resp.Question, Answer: resp.Answer, Ns: resp.Ns, Extra: extra}
	z.unc = u.Len()

	return z
}

func sum(xs []int) (s int) {
	for _, x := range xs {
		s += x
	}

	return s
}

func listString(xs []int) string {
	if len(xs) == 0 {
		return "_"
	}
	var sb strings.Builder
	for i, x := range xs {
		if i > 0 {
			sb.WriteByte(',')
		}
		sb.WriteString(strconv.Itoa(x))
	}

	return sb.String()
}

// ---------------------------------------------------------------------------
// One case

type tcase struct {
	t      string
	cfgMax uint16
	idleMs int
	req    *dns.Msg
	resp   *dns.Msg
	tag    string
	// doh is the way into the DoH server (see servers.doh); "" is POST.
	doh string
	// keepQ: the handler's response keeps the question section it was built
	// with (none, another spelling, two questions) instead of the request's.
	keepQ bool
	// wired: the servers come from the production builder (wiring campaign).
	wired bool
	// cloned: the handler answers with a message from the shared Cloner's pools
	// (see servers.useCloner).
	cloned bool
	// alias: see servers.alias (the record of resp that stands for the
	// request's).
	alias *dns.OPT
}

// aliasOPT returns a copy of the OPT record the server will parse out of req
// (nil if there is none), for a handler response that reflects the request's
// record.
func aliasOPT(req *dns.Msg) *dns.OPT {
	b, err := req.Pack()
	if err != nil {
		return nil
	}
	m := &dns.Msg{}
	if m.Unpack(b) != nil {
		return nil
	}

	return m.IsEdns0()
}

type pending struct {
	// prefix4: only ka kn ke tc of the model's answer are compared (JSON API).
	prefix4 bool
	// wire: real is a view of the bytes on the wire; the model's Len() field is
	// not compared.
	wire     bool
	c        tcase
	line     string
	real     string
	canon    string
	nontriv  bool
	contract string
}

type runner struct {
	o      *hlib.Opts
	r      *hlib.Result
	m      *hlib.Model
	sv     *servers
	legacy string
	queue  []pending
	// e2e: the case being judged went through the real DNSCrypt library and
	// what is judged is what the client decrypted.
	e2e bool
	// curHandlerOPTs is the number of OPT records in the handler's response of
	// the case being judged (0 for server-made responses).
	curHandlerOPTs int
	// curFits: the handler's response, compressed, with the OPT record it
	// leaves with (options the server appended after truncation not counted),
	// is known to fit the limit; -1 unknown, 0 no, 1 yes.
	curFits int
	// curTsigExempt: the handler response of the case being judged is one that
	// Msg.Truncate refuses to touch (TSIG last).
	curTsigExempt bool
}

func (x *runner) flush() {
	if len(x.queue) == 0 {
		return
	}
	lines := make([]string, len(x.queue))
	for i, p := range x.queue {
		lines[i] = p.line
	}
	x.m.ResetLog()
	answers := x.m.Batch(lines)
	for i, p := range x.queue {
		x.r.ModelOps++
		if p.contract != "" {
			x.r.Disagree("library-contract", p.contract, map[string]any{"case": p.canon, "line": clip(p.line, 2000)})
		}
		if p.wire {
			answers[i] = dropLen(answers[i])
		}
		if p.prefix4 {
			if f := strings.Fields(answers[i]); len(f) >= 4 {
				answers[i] = strings.Join(f[:4], " ")
			}
		}
		if answers[i] != p.real {
			x.r.Disagree("normalize-model", fmt.Sprintf("%s: model %q, real %q", p.c.tag, answers[i], p.real),
				map[string]any{"case": p.canon, "line": clip(p.line, 4000), "model": answers[i], "real": p.real})
		} else {
			x.r.Traces++
		}
	}
	x.queue = x.queue[:0]
}

// wireView renders a message on the wire in the model's answer format without
// the Len() field; nil is "none".
func wireView(wire []byte) string {
	if wire == nil {
		return "none"
	}
	w := &dns.Msg{}
	if err := w.Unpack(wire); err != nil {
		return "unparsable: " + err.Error()
	}

	return fmt.Sprintf("%d %d %d %s %s %d 1", len(w.Answer), len(w.Ns), len(noOPT(w.Extra)), b2s(w.Truncated),
		viewOpt(w.IsEdns0()).String(), len(wire))
}

func wireOpt(wire []byte) (v optView) {
	w := &dns.Msg{}
	if wire == nil || w.Unpack(wire) != nil {
		return v
	}

	return viewOpt(w.IsEdns0())
}

// dropLen removes the Len() field from a model answer.
func dropLen(ans string) string {
	f := strings.Fields(ans)
	if len(f) != 14 {
		return ans
	}

	return strings.Join(append(f[:11:11], f[12:]...), " ")
}

// hdrLine is what acceptMsg looks at, plus the length of header + first
// question (what genErrorResponse produces).
func hdrLine(req *dns.Msg) string {
	e := &dns.Msg{}
	if len(req.Question) > 0 {
		e.Question = req.Question[:1]
	}

	return fmt.Sprintf("%s %d %d %d %d %d", b2s(req.Response), req.Opcode, len(req.Question), len(req.Answer), len(req.Ns), e.Len())
}

func clip(s string, n int) string {
	if len(s) > n {
		return s[:n] + "…"
	}

	return s
}

// effCfg: ConfigDNSCrypt.MaxUDPRespSize of zero is "not set" and stands for
// 65535 (the configuration file cannot say zero, see the wiring campaign).
func effCfg(t string, cfgMax uint16) uint16 {
	if (t == "dcu" || t == "dct") && cfgMax == 0 {
		return dns.MaxMsgSize
	}

	return cfgMax
}

func (x *runner) limit(c tcase, reqOpt optView) int {
	if !isUDP(c.t) {
		return dns.MaxMsgSize
	}
	// The configured maximum binds every UDP response, DNSCrypt's included: the
	// oracle does not ask which constant a write path happens to pass.
	capv := int(effCfg(c.t, c.cfgMax))
	adv := 0
	if reqOpt.Present {
		adv = int(reqOpt.Size)
	}

	return max(dns.MinMsgSize, min(adv, capv))
}

// run drives one case through the real code, applies the property oracle to
// what left the server, and queues the model comparison.
func (x *runner) run(c tcase) {
	r := x.r
	// The server is built with the value as given (zero = unset on DNSCrypt);
	// the oracle and the model work with what it stands for.
	rawCfg := c.cfgMax
	c.cfgMax = effCfg(c.t, c.cfgMax)
	reqWire, err := c.req.Pack()
	if err != nil {
		r.Count("skipped.request-does-not-pack")

		return
	}
	reqSeen := &dns.Msg{}
	if err = reqSeen.Unpack(reqWire); err != nil {
		r.Count("skipped.request-does-not-unpack")

		return
	}
	reqOpt := viewOpt(reqSeen.IsEdns0())
	resp := c.resp
	if !c.keepQ {
		resp.Question = reqSeen.Question
	}
	resp.Response = true
	hOpt := viewOpt(resp.IsEdns0())
	// Msg.Pack overwrites the extended-rcode byte of the OPT record with the
	// high bits of Msg.Rcode (modelled: packOpt); Msg.Truncate leaves a message
	// alone whose last record is a TSIG (modelled: tsigAtTruncate).
	rcodeHi := resp.Rcode >> 4
	tsig := resp.IsTsig() != nil
	z := measure(resp)
	nAns, nNs, nExtra := len(resp.Answer), len(resp.Ns), len(noOPT(resp.Extra))
	tc0 := resp.Truncated
	hTotal := z.q + sum(z.ans) + sum(z.ns) + sum(z.extra)
	// For the "dropped only when it must be" check: the library's own figure for
	// the whole handler response, compressed, with the OPT record it will carry
	// when it is measured against the limit (its own, or the synthesised one
	// with the reflected NSID / EXPIRE options).
	handlerOPTs := countOPT(resp.Extra)
	candLen := func() int {
		m := &dns.Msg{MsgHdr: resp.MsgHdr, Compress: true, Question: resp.Question, Answer: resp.Answer, Ns: resp.Ns, Extra: resp.Extra}
		n := m.Len()
		if reqOpt.Present && !hOpt.Present {
			n += expectedOptLen(reqSeen, nil)
		}

		return n
	}()

	var d driven
	func() {
		defer func() {
			if v := recover(); v != nil {
				r.Violate("panic-in-write-path", fmt.Sprintf("%s: write path panicked: %v", c.t, v), x.replay(c, "", reqOpt, hOpt))
			}
		}()
		x.sv.doh, x.sv.jsonBody, x.sv.alias, x.sv.useCloner, x.sv.lastClone = c.doh, nil, c.alias, c.cloned, nil
		d = x.sv.drive(c.t, rawCfg, c.idleMs, reqWire, resp)
		x.sv.doh, x.sv.alias, x.sv.useCloner = "", nil, false
	}()

	if x.sv.lastClone != nil {
		// what the write path normalised (and has by now disposed of: its parts
		// stay untouched until the next Clone) is the pooled message
		resp, x.sv.lastClone = x.sv.lastClone, nil
		r.Count("resp.taken-from-cloner-pools")
	}
	// State of the message object after the write path.
	fOpt := viewOpt(resp.IsEdns0())
	fAns, fNs, fExtra := len(resp.Answer), len(resp.Ns), len(noOPT(resp.Extra))
	packed, perr := resp.Pack()
	flen := resp.Len()
	contract := ""
	if perr != nil {
		contract = "final message does not pack: " + perr.Error()
	} else if len(packed) > flen {
		contract = fmt.Sprintf("Pack produced %d bytes, Len() said %d", len(packed), flen)
	}
	if hTotal > z.unc {
		// compressed length above uncompressed length: the contract the theorems assume is broken
		contract = fmt.Sprintf("compressed length %d exceeds uncompressed %d", hTotal, z.unc)
	}
	for kn := 0; kn <= len(z.ns) && contract == ""; kn++ {
		if sum(z.ns2[:kn]) > sum(z.ans)+sum(z.ns[:kn]) {
			contract = "authority records grow by more than the removed answers"
		}
	}
	if contract == "" && sum(z.ns2)+sum(z.e2) > sum(z.ans)+sum(z.ns)+sum(z.extra) {
		contract = "records grow by more than the removed answers"
	}
	slack := flen - len(packed)
	if slack < 0 {
		slack = 0
	}
	if slack > 0 {
		r.Count("len.overestimates-pack")
	}

	respFields := fmt.Sprintf("%s %d %d %s %s %s %s %s %s %d %s", b2s(tc0), z.q, z.unc,
		listString(z.ans), listString(z.ns), listString(z.extra), listString(z.ns2), listString(z.e2),
		hOpt.String(), rcodeHi, b2s(tsig))
	line := fmt.Sprintf("serve %s %s %d %d %d %d %s %s",
		x.legacy, c.t, c.cfgMax, effIdle(c.idleMs), x.draw(c, reqOpt, fOpt), slack,
		reqLine(reqOpt), respFields)
	// The same case through the model of the whole server, compared with the
	// bytes on the wire (including the SERVFAIL sent after a refused response).
	var sent []byte
	if d.emitted || d.fallback {
		sent = d.wire
	}
	draw2 := 0
	if d.fallback {
		draw2 = x.draw(c, reqOpt, wireOpt(sent))
	}
	rline := fmt.Sprintf("respond %s %s %d %d %d %d %d %s %s wrote %s",
		x.legacy, c.t, c.cfgMax, effIdle(c.idleMs), x.draw(c, reqOpt, fOpt), slack, draw2,
		hdrLine(reqSeen), reqLine(reqOpt), respFields)
	real := fmt.Sprintf("%d %d %d %s %s %d %d %s", fAns, fNs, fExtra, b2s(resp.Truncated), fOpt.String(), flen, len(packed), b2s(d.emitted))

	lim := x.limit(c, reqOpt)
	canon := fmt.Sprintf("%s%s cfg=%d idle=%d req[%s] resp[tc=%s q=%d unc=%d a=%d/%d n=%d/%d e=%d/%d opt=%s] lim=%d",
		c.t, dohSuffix(c.doh), c.cfgMax, c.idleMs, reqLine(reqOpt), b2s(tc0), z.q, z.unc, nAns, sum(z.ans), nNs, sum(z.ns), nExtra, sum(z.extra),
		hOpt.String(), lim)

	if c.doh == "json" {
		x.judgeJSON(c, reqOpt, hOpt, nAns, nNs, nExtra, fAns, fNs, fExtra, resp.Truncated, fOpt.Present, canon, line)

		return
	}
	if c.doh != "" {
		r.Count("doh." + c.doh)
	}
	if countOPT(c.resp.Extra) > 1 {
		r.Count("resp.several-opt-records")
	}

	// ---- property oracle, on the bytes that left the server --------------
	x.curTsigExempt = tsig && !(reqOpt.Present && !hOpt.Present)
	x.curHandlerOPTs, x.curFits = handlerOPTs, 0
	margin := 0
	if candLen >= 16000 {
		// beyond offset 16383 names are no compression targets; the OPT record is
		// measured at the end whatever its place: leave room for the difference
		margin = 64
	}
	if !tc0 && candLen <= lim-margin {
		x.curFits = 1
		r.Count("resp.fits-as-it-is")
	}
	defer func() { x.curTsigExempt, x.curHandlerOPTs, x.curFits = false, 0, 0 }()
	if d.fallback {
		x.curTsigExempt, x.curHandlerOPTs, x.curFits = false, 0, 0
		// The writer refused the handler's response; what reached the client is
		// the server's own SERVFAIL.  Judge that message on its own.
		r.Count("outcome.refused-then-servfail")
		x.oracle(c, driven{wire: d.wire, emitted: true}, reqOpt, optView{}, 0, 0, 0, lim, canon+" [servfail fallback]", line)
	} else {
		x.oracle(c, d, reqOpt, hOpt, nAns, nNs, nExtra, lim, canon, line)
	}

	// ---- bookkeeping -------------------------------------------------------
	dropped := fAns < nAns || fNs < nNs || fExtra < nExtra
	r.Count("transport." + c.t)
	switch {
	case !d.emitted:
		r.Count("outcome.refused-or-silent")
	case dropped && fNs == 0 && fExtra == 0:
		r.Count("outcome.truncated-to-question")
	case dropped:
		r.Count("outcome.truncated-partially")
	default:
		r.Count("outcome.untouched")
	}
	if d.emitted {
		switch n := len(d.wire) - lim; {
		case n == 0:
			r.Count("wire.exactly-at-limit")
		case n > 0:
			r.Count("wire.over-limit")
		case n >= -16:
			r.Count("wire.within-16-below-limit")
		}
	}
	switch {
	case !reqOpt.Present:
		r.Count("req.no-opt")
	case hOpt.Present:
		r.Count("req.opt+resp.own-opt")
	default:
		r.Count("req.opt+resp.synthesised-opt")
	}
	if reqOpt.has(dns.EDNS0PADDING) {
		r.Count("req.padding")
	}
	if reqOpt.has(dns.EDNS0TCPKEEPALIVE) {
		r.Count("req.keepalive")
	}
	if tc0 {
		r.Count("resp.tc-preset")
	}
	if d.badWire != "" {
		r.Violate("bad-framing", c.t+": "+d.badWire, x.replay(c, line, reqOpt, hOpt))
	}
	if d.emitted && perr == nil && !bytes.Equal(d.wire, packed) {
		// padding bytes are zeros and Pack is deterministic, so the bytes must match
		r.Disagree("wire-vs-message", fmt.Sprintf("%s: bytes on the wire (%d) differ from the packed final message (%d)", c.t, len(d.wire), len(packed)),
			map[string]any{"case": canon})
	}
	nontrivial := dropped || fOpt.Present || !d.emitted
	r.Case(canon, nontrivial)
	r.Sample(map[string]any{"case": canon, "model_line": clip(line, 300), "real": real}, 6)
	x.queue = append(x.queue, pending{c: c, line: line, real: real, canon: canon, nontriv: nontrivial, contract: contract})
	x.queue = append(x.queue, pending{c: c, line: rline, real: wireView(sent), canon: canon, wire: true})
	if tsig {
		r.Count("resp.tsig-last")
		if tsig && !(reqOpt.Present && !hOpt.Present) {
			r.Count("resp.tsig-exempt-from-truncate")
		}
	}
	if rcodeHi > 0 {
		r.Count("resp.extended-rcode")
	}
	if len(x.queue) >= 256 {
		x.flush()
	}
}

func dohSuffix(mode string) string {
	if mode == "" {
		return ""
	}

	return "/" + mode
}

// judgeJSON handles a case that went through the JSON API with a JSON answer:
// there are no DNS bytes to measure, but truncation must still be safe and the
// document must show the message the model predicts.
func (x *runner) judgeJSON(c tcase, reqOpt, hOpt optView, nAns, nNs, nExtra, fAns, fNs, fExtra int, ftc, fopt bool, canon, line string) {
	r := x.r
	r.Count("doh.json")
	body := x.sv.jsonBody
	if body == nil {
		r.Disagree("json-no-answer", "doh/json: no JSON document for a handler that wrote a response", map[string]any{"case": canon})

		return
	}
	var doc dnsserver.JSONMsg
	if err := json.Unmarshal(body, &doc); err != nil {
		r.Violate("unparsable-response", "doh/json: "+err.Error(), x.replay(c, line, reqOpt, hOpt))

		return
	}
	rp := func() map[string]any {
		m := x.replay(c, line, reqOpt, hOpt)
		m["case"] = canon

		return m
	}
	dropped := len(doc.Answer) < nAns || fNs < nNs || fExtra < nExtra
	if dropped && !doc.Truncated {
		r.Violate("dropped-without-tc", fmt.Sprintf("doh/json: records dropped (%d of %d answers in the document) but TC is false", len(doc.Answer), nAns), rp())
	}
	if (dropped || doc.Truncated) && len(doc.Answer) != 0 {
		r.Violate("truncated-with-answers", fmt.Sprintf("doh/json: truncated response still shows %d answers", len(doc.Answer)), rp())
	}
	wantExtra := fExtra
	if fopt {
		wantExtra++
	}
	if len(doc.Answer) != fAns || len(doc.Extra) != wantExtra || doc.Truncated != ftc {
		r.Disagree("json-vs-message", fmt.Sprintf("doh/json: document shows %d answers, %d extra, TC=%v; the message has %d, %d, %v",
			len(doc.Answer), len(doc.Extra), doc.Truncated, fAns, wantExtra, ftc), map[string]any{"case": canon})
	}
	r.Case(canon, dropped || fopt)
	x.queue = append(x.queue, pending{c: c, line: line, real: fmt.Sprintf("%d %d %d %s", fAns, fNs, fExtra, b2s(ftc)), canon: canon, prefix4: true})
}

// effIdle is the idle timeout the server uses: ConfigDNS.TCPIdleTimeout, with
// zero meaning DefaultTCPIdleTimeout.
func effIdle(ms int) int {
	if ms == 0 {
		return int(dnsserver.DefaultTCPIdleTimeout / time.Millisecond)
	}

	return ms
}

func reqLine(v optView) string {
	if !v.Present {
		return "0 0 0 _"
	}

	return fmt.Sprintf("1 %d %s %s", v.Size, b2s(v.Do), v.optsString())
}

// draw recovers the random padding length the real code drew, as the model's
// nondeterministic input.
func (x *runner) draw(c tcase, reqOpt, fOpt optView) int {
	if hasPadding(c.t) && reqOpt.Present && reqOpt.has(dns.EDNS0PADDING) {
		if ls := fOpt.lens(dns.EDNS0PADDING); len(ls) > 0 && ls[0] >= 1 {
			return ls[0] - 1
		}
	}

	return 0
}

func (x *runner) replay(c tcase, line string, reqOpt, hOpt optView) map[string]any {
	rp := map[string]any{"transport": c.t + dohSuffix(c.doh), "max_udp_resp_size": c.cfgMax, "tcp_idle_ms": c.idleMs, "generator": c.tag,
		"handler_reflects_request_opt_object": c.alias != nil, "handler_response_from_cloner_pools": c.cloned,
		"request_opt": reqLine(reqOpt), "handler_opt": hOpt.String(), "model_line": clip(line, 6000)}
	if b, err := c.req.Pack(); err == nil && len(b) < 2000 {
		rp["request_hex"] = fmt.Sprintf("%x", b)
	}

	return rp
}

func eqInts(a, b []int) bool {
	if len(a) != len(b) {
		return false
	}
	for i := range a {
		if a[i] != b[i] {
			return false
		}
	}

	return true
}

// oracle checks the property as stated on the bytes that left the server.  It
// does not consult the model.
func (x *runner) oracle(c tcase, d driven, reqOpt, hOpt optView, nAns, nNs, nExtra, lim int, canon, line string) {
	r := x.r
	if !d.emitted {
		return
	}
	rp := func() map[string]any {
		m := x.replay(c, line, reqOpt, hOpt)
		m["case"] = canon
		m["wire_len"] = len(d.wire)
		m["limit"] = lim

		return m
	}
	w := &dns.Msg{}
	if err := w.Unpack(d.wire); err != nil {
		r.Violate("unparsable-response", fmt.Sprintf("%s: response of %d bytes does not parse: %v", c.t, len(d.wire), err), rp())

		return
	}
	wOpt := viewOpt(w.IsEdns0())
	wAns, wNs, wExtra := len(w.Answer), len(w.Ns), len(noOPT(w.Extra))

	// 1. size bound
	if len(d.wire) > lim {
		sig := "udp-oversize"
		onlyQuestionAndOPT := wAns == 0 && wNs == 0 && wExtra == 0
		switch {
		case x.curTsigExempt && isUDP(c.t):
			sig = "udp-oversize-tsig-not-truncated"
		case x.curTsigExempt:
			sig = "stream-oversize-tsig-not-truncated"
		case c.t == "dcu" && len(d.wire) <= max(dns.MinMsgSize, min(int(reqOpt.Size), dns.MaxMsgSize)):
			// within what the client advertised, but above the configured maximum
			sig = "dnscrypt-udp-configured-max-ignored"
		case isUDP(c.t) && onlyQuestionAndOPT && wOpt.Present && !hOpt.Present:
			sig = "udp-oversize-reflected-option-payload"
		case isUDP(c.t) && onlyQuestionAndOPT && wOpt.Present && hOpt.Present:
			sig = "udp-oversize-handler-opt-undroppable"
		case isUDP(c.t):
		case c.t == "doh" && reqOpt.has(dns.EDNS0PADDING) && len(wOpt.lens(dns.EDNS0PADDING)) > 0 &&
			len(d.wire)-4-wOpt.lens(dns.EDNS0PADDING)[0] <= lim:
			sig = "doh-oversize-padding-after-truncate"
		default:
			sig = "stream-oversize"
		}
		r.Violate(sig, fmt.Sprintf("%s: %d bytes on the wire, limit %d (advertised %s, configured %d)", c.t, len(d.wire), lim,
			reqLine(reqOpt), c.cfgMax), rp())
	}

	// 2. safe truncation
	dropped := wAns < nAns || wNs < nNs || wExtra < nExtra
	if dropped && !w.Truncated {
		r.Violate("dropped-without-tc", fmt.Sprintf("%s: records dropped (%d/%d/%d of %d/%d/%d left) but TC is clear", c.t, wAns, wNs, wExtra, nAns, nNs, nExtra), rp())
	}
	if (dropped || w.Truncated) && wAns != 0 && x.e2e && c.t == "dct" {
		// the library's own truncation keeps the answers on TCP
		r.Violate("dnscrypt-tcp-truncated-with-answers", fmt.Sprintf("dnscrypt/tcp: the client decrypts a truncated response that still carries %d answers", wAns), rp())
	} else if (dropped || w.Truncated) && wAns != 0 {
		r.Violate("truncated-with-answers", fmt.Sprintf("%s: truncated response still carries %d answers", c.t, wAns), rp())
	}

	// 3. OPT echo
	if reqOpt.Present {
		own := "synthesised"
		if hOpt.Present {
			own = "own"
		}
		switch {
		case !wOpt.Present:
			r.Violate("opt-missing-"+own, c.t+": query carried OPT, response has none", rp())
		case wOpt.Size != reqOpt.Size:
			r.Violate("opt-echo-size-"+own, fmt.Sprintf("%s: client advertised %d, response OPT says %d (%s OPT)", c.t, reqOpt.Size, wOpt.Size, own), rp())
		case wOpt.Ver != 0:
			r.Violate("opt-echo-version-"+own, fmt.Sprintf("%s: response OPT version %d", c.t, wOpt.Ver), rp())
		}
	}

	// 3b. exactly one OPT record comes back: the server never adds a second one
	// next to the handler's (RFC 6891 6.1.1: a message carries at most one).
	if n := countOPT(w.Extra); reqOpt.Present && n > max(1, x.curHandlerOPTs) {
		r.Violate("opt-duplicated", fmt.Sprintf("%s: the response carries %d OPT records, the handler's response had %d", c.t, n, x.curHandlerOPTs), rp())
	}

	// 2b. records are dropped only when they must be: a response that fits the
	// limit as it is (compressed, with the OPT record it finally carries) and
	// had TC clear must arrive whole.  Not judged after the DNSCrypt library's
	// own truncation (which cuts at the limit minus 64).
	if dropped && x.curFits == 1 && !x.e2e {
		r.Violate("dropped-although-fits", fmt.Sprintf("%s: records dropped (%d/%d/%d of %d/%d/%d left) from a response that fits the limit %d", c.t, wAns, wNs, wExtra, nAns, nNs, nExtra, lim), rp())
	}

	// 4. padding only on encrypted transports and only when asked for
	if !eqInts(wOpt.lens(dns.EDNS0PADDING), hOpt.lens(dns.EDNS0PADDING)) {
		switch {
		case len(wOpt.lens(dns.EDNS0PADDING)) == 0:
			// the handler's own padding option was removed (oversize OPT record
			// stripped of its options): nothing was added
			r.Count("padding.handler-option-removed")
		case !hasPadding(c.t) && c.t != "dcu" && c.t != "dct":
			r.Violate("padding-on-plain-transport", fmt.Sprintf("%s: padding %v added", c.t, wOpt.lens(dns.EDNS0PADDING)), rp())
		case !reqOpt.has(dns.EDNS0PADDING):
			// holds on every encrypted transport, DNSCrypt included
			r.Violate("padding-not-requested", fmt.Sprintf("%s: padding %v added although the client sent none", c.t, wOpt.lens(dns.EDNS0PADDING)), rp())
		case !hasPadding(c.t):
			// DNSCrypt is encrypted; padding there is not forbidden by the property.
			r.Count("padding.on-dnscrypt")
		default:
			r.Count("padding.added")
		}
	}

	// 5. keep-alive only to a client that sent it
	if !eqInts(wOpt.lens(dns.EDNS0TCPKEEPALIVE), hOpt.lens(dns.EDNS0TCPKEEPALIVE)) {
		if len(wOpt.lens(dns.EDNS0TCPKEEPALIVE)) == 0 {
			r.Count("keepalive.handler-option-removed")
		} else if !reqOpt.has(dns.EDNS0TCPKEEPALIVE) {
			r.Violate("keepalive-not-requested", fmt.Sprintf("%s: keep-alive %v returned although the client sent none", c.t, wOpt.lens(dns.EDNS0TCPKEEPALIVE)), rp())
		} else {
			r.Count("keepalive.added")
		}
	}

	// 5b. the keep-alive the server answers with is the configured idle timeout
	// in RFC 7828's unit of 100 ms (configuration -> component correspondence;
	// not part of the property's wording, hence a disagreement).
	if hasKA(c.t) && reqOpt.has(dns.EDNS0TCPKEEPALIVE) {
		if o := w.IsEdns0(); o != nil {
			for _, e := range o.Option {
				if ka, ok := e.(*dns.EDNS0_TCP_KEEPALIVE); ok {
					if want := effIdle(c.idleMs) / 100; int(ka.Timeout) != want {
						r.Disagree("keepalive-timeout-value", fmt.Sprintf("%s: keep-alive timeout %d (x100 ms) for a configured idle timeout of %d ms", c.t, ka.Timeout, effIdle(c.idleMs)), rp())
					} else {
						r.Count("keepalive.timeout-value-checked")
					}

					// the server writes the first one; a handler's (or reflected
					// request's) further copies pass through
					break
				}
			}
		}
	}
}

// ---------------------------------------------------------------------------
// Generators

var qnames = []string{
	"example.org.", "a.b.c.example.org.", "x.", "www.cdn.example.net.",
	strings.Repeat("a", 63) + "." + strings.Repeat("b", 63) + "." + strings.Repeat("c", 63) + "." + strings.Repeat("d", 55) + ".org.",
}

var others = []string{"example.org.", "ns1.example.org.", "cdn.example.net.", "a.b.c.example.org.", "edge.cdn.example.net.", "other.test.",
	strings.Repeat("z", 60) + ".example.org."}

func txtStrings(rdata int) (ss []string) {
	// rdata bytes = sum(1 + len(s)); at least one string.
	if rdata < 1 {
		rdata = 1
	}
	for rdata > 0 {
		n := min(rdata, 256)
		ss = append(ss, strings.Repeat("t", n-1))
		rdata -= n
	}

	return ss
}

func genRR(rng *rand.Rand, qname string, class int) dns.RR {
	owner := qname
	if rng.IntN(3) == 0 {
		owner = others[rng.IntN(len(others))]
	}
	h := func(t uint16) dns.RR_Header {
		return dns.RR_Header{Name: owner, Rrtype: t, Class: dns.ClassINET, Ttl: uint32(rng.IntN(4000))}
	}
	switch class {
	case 0: // small records
		switch rng.IntN(6) {
		case 0:
			return &dns.A{Hdr: h(dns.TypeA), A: net.IPv4(10, 0, byte(rng.IntN(256)), byte(rng.IntN(256)))}
		case 1:
			return &dns.AAAA{Hdr: h(dns.TypeAAAA), AAAA: net.ParseIP("2001:db8::1")}
		case 2:
			return &dns.CNAME{Hdr: h(dns.TypeCNAME), Target: others[rng.IntN(len(others))]}
		case 3:
			return &dns.NS{Hdr: h(dns.TypeNS), Ns: others[rng.IntN(len(others))]}
		case 4:
			return &dns.MX{Hdr: h(dns.TypeMX), Preference: 10, Mx: others[rng.IntN(len(others))]}
		default:
			return &dns.SOA{Hdr: h(dns.TypeSOA), Ns: others[rng.IntN(len(others))], Mbox: "hostmaster.example.org.", Serial: 1, Refresh: 2, Retry: 3, Expire: 4, Minttl: 5}
		}
	case 1:
		return &dns.TXT{Hdr: h(dns.TypeTXT), Txt: txtStrings(20 + rng.IntN(400))}
	case 3:
		return genOddRR(rng, owner)
	default:
		return &dns.TXT{Hdr: h(dns.TypeTXT), Txt: txtStrings(800 + rng.IntN(3200))}
	}
}

// oddNames are legal names the library has to escape, fold or leave alone:
// mixed case (compression is case-sensitive), escaped dots and bytes, the
// root, a wildcard, an underscore label, a maximal label.
var oddNames = []string{"Example.ORG.", "A.B.C.EXAMPLE.ORG.", `a\.b.example.org.`, `\097\098c.example.org.`, `sp\032ace.example.org.`,
	"*.example.org.", "_dns.example.org.", `\000.example.org.`, ".", `tab\009.x.`, `a\\b.example.org.`, `q\"uote.example.org.`,
	strings.Repeat("y", 63) + ".example.org.", "example.org.", "www.cdn.example.net."}

// genOddRR makes a record of a type (or with names) the plain generator never
// produces: name-carrying rdata that may or may not be compressed, SVCB
// parameters, DNSSEC records with bitmaps and base64 fields, unknown types.
func genOddRR(rng *rand.Rand, owner string) dns.RR {
	nm := func() string { return oddNames[rng.IntN(len(oddNames))] }
	if rng.IntN(2) == 0 {
		owner = nm()
	}
	h := func(t uint16) dns.RR_Header {
		return dns.RR_Header{Name: owner, Rrtype: t, Class: dns.ClassINET, Ttl: uint32(rng.IntN(4000))}
	}
	switch rng.IntN(20) {
	case 0:
		return &dns.CNAME{Hdr: h(dns.TypeCNAME), Target: nm()}
	case 1:
		return &dns.SRV{Hdr: h(dns.TypeSRV), Priority: 1, Weight: 2, Port: 853, Target: nm()}
	case 2:
		return &dns.PTR{Hdr: h(dns.TypePTR), Ptr: nm()}
	case 3:
		v := &dns.HTTPS{SVCB: dns.SVCB{Hdr: h(dns.TypeHTTPS), Priority: 1, Target: nm()}}
		if rng.IntN(2) == 0 {
			v.Value = append(v.Value, &dns.SVCBAlpn{Alpn: []string{"h2", "h3"}})
		}
		if rng.IntN(2) == 0 {
			v.Value = append(v.Value, &dns.SVCBIPv4Hint{Hint: []net.IP{net.IPv4(192, 0, 2, 1)}})
		}
		if rng.IntN(3) == 0 {
			v.Value = append(v.Value, &dns.SVCBECHConfig{ECH: make([]byte, rng.IntN(80))})
		}
		if rng.IntN(3) == 0 {
			v.Value = append(v.Value, &dns.SVCBDoHPath{Template: "/dns-query{?dns}"})
		}

		return v
	case 4:
		return &dns.SVCB{Hdr: h(dns.TypeSVCB), Priority: 0, Target: nm()}
	case 5:
		return &dns.RRSIG{Hdr: h(dns.TypeRRSIG), TypeCovered: dns.TypeA, Algorithm: 13, Labels: 2, OrigTtl: 300, Expiration: 1, Inception: 2,
			KeyTag: 3, SignerName: nm(), Signature: "c2lnbmF0dXJlc2lnbmF0dXJl"}
	case 6:
		return &dns.NSEC{Hdr: h(dns.TypeNSEC), NextDomain: nm(), TypeBitMap: []uint16{1, 2, 28, 46, 47, 257, 65280}[:1+rng.IntN(7)]}
	case 7:
		return &dns.NSEC3{Hdr: h(dns.TypeNSEC3), Hash: 1, Iterations: 1, SaltLength: 2, Salt: "abcd", HashLength: 20,
			NextDomain: "0P9MHAVEQVM6T7VBL5LOP2U3T2RP3TOM", TypeBitMap: []uint16{1, 2}}
	case 8:
		return &dns.DNSKEY{Hdr: h(dns.TypeDNSKEY), Flags: 257, Protocol: 3, Algorithm: 13, PublicKey: "a2V5a2V5a2V5a2V5"}
	case 9:
		return &dns.DS{Hdr: h(dns.TypeDS), KeyTag: 1, Algorithm: 13, DigestType: 2, Digest: strings.Repeat("ab", 32)}
	case 10:
		return &dns.NAPTR{Hdr: h(dns.TypeNAPTR), Order: 1, Preference: 2, Flags: "U", Service: "E2U+sip", Regexp: "!^.*$!sip:info@example.com!", Replacement: nm()}
	case 11:
		return &dns.RFC3597{Hdr: h(65280), Rdata: strings.Repeat("ab", rng.IntN(40))}
	case 12:
		return &dns.CAA{Hdr: h(dns.TypeCAA), Tag: "issue", Value: `let\"s\\encrypt.org`}
	case 13:
		return &dns.DNAME{Hdr: h(dns.TypeDNAME), Target: nm()}
	case 14:
		return &dns.HINFO{Hdr: h(dns.TypeHINFO), Cpu: `RFC8482\032x`, Os: ""}
	case 15:
		return &dns.RP{Hdr: h(dns.TypeRP), Mbox: nm(), Txt: nm()}
	case 16:
		return &dns.MINFO{Hdr: h(dns.TypeMINFO), Rmail: nm(), Email: nm()}
	case 17:
		return &dns.TXT{Hdr: h(dns.TypeTXT), Txt: []string{strings.Repeat("t", rng.IntN(250)), `a\"b\\c\010`, ""}[:1+rng.IntN(3)]}
	case 18:
		return &dns.SOA{Hdr: h(dns.TypeSOA), Ns: nm(), Mbox: nm(), Serial: 1, Refresh: 2, Retry: 3, Expire: 4, Minttl: 5}
	default:
		return &dns.TLSA{Hdr: h(dns.TypeTLSA), Usage: 3, Selector: 1, MatchingType: 1, Certificate: strings.Repeat("ab", 32)}
	}
}

var ednsSizes = []uint16{0, 1, 511, 512, 513, 1231, 1232, 1233, 1452, 4096, 65535}
var cfgSizes = []uint16{0, 511, 512, 513, 1232, 1452, 4096, 65535}
var idles = []int{0, 1, 100, 30000, 6553500}

func pick16(rng *rand.Rand, pool []uint16) uint16 {
	if rng.IntN(5) == 0 {
		return uint16(rng.IntN(65536))
	}

	return pool[rng.IntN(len(pool))]
}

func genReq(rng *rand.Rand, t string) *dns.Msg {
	req := &dns.Msg{}
	qt := []uint16{dns.TypeA, dns.TypeAAAA, dns.TypeTXT, dns.TypeANY, dns.TypeHTTPS}[rng.IntN(5)]
	req.SetQuestion(qnames[rng.IntN(len(qnames))], qt)
	req.Id = uint16(rng.IntN(65536))
	if t == "doq" {
		req.Id = 0
	}
	if rng.IntN(4) == 0 {
		return req
	}
	o := &dns.OPT{Hdr: dns.RR_Header{Name: ".", Rrtype: dns.TypeOPT}}
	o.SetUDPSize(pick16(rng, ednsSizes))
	if rng.IntN(3) == 0 {
		o.SetDo()
	}
	if rng.IntN(10) == 0 {
		o.SetVersion(uint8(1 + rng.IntN(3)))
	}
	if rng.IntN(2) == 0 {
		o.Option = append(o.Option, &dns.EDNS0_PADDING{Padding: make([]byte, []int{0, 0, 1, 17, 50}[rng.IntN(5)])})
	}
	if rng.IntN(3) == 0 && t != "doq" {
		o.Option = append(o.Option, &dns.EDNS0_TCP_KEEPALIVE{Code: dns.EDNS0TCPKEEPALIVE, Timeout: uint16(rng.IntN(3) * 100)})
	}
	if rng.IntN(4) == 0 {
		n := []int{0, 0, 0, 8, 100, 300, 700}[rng.IntN(7)]
		o.Option = append(o.Option, &dns.EDNS0_NSID{Code: dns.EDNS0NSID, Nsid: strings.Repeat("ab", n)})
	}
	if rng.IntN(8) == 0 {
		o.Option = append(o.Option, &dns.EDNS0_EXPIRE{Code: dns.EDNS0EXPIRE, Expire: 7, Empty: rng.IntN(2) == 0})
	}
	if rng.IntN(6) == 0 {
		o.Option = append(o.Option, &dns.EDNS0_SUBNET{Code: dns.EDNS0SUBNET, Family: 1, SourceNetmask: 24, Address: net.IPv4(198, 51, 100, 0)})
	}
	if rng.IntN(8) == 0 {
		o.Option = append(o.Option, &dns.EDNS0_COOKIE{Code: dns.EDNS0COOKIE, Cookie: "0011223344556677"})
	}
	if rng.IntN(8) == 0 {
		// the same option twice is legal on the wire
		o.Option = append(o.Option, &dns.EDNS0_PADDING{Padding: make([]byte, rng.IntN(9))})
	}
	if rng.IntN(10) == 0 && t != "doq" {
		o.Option = append(o.Option, &dns.EDNS0_TCP_KEEPALIVE{Code: dns.EDNS0TCPKEEPALIVE, Timeout: 600})
	}
	if rng.IntN(12) == 0 {
		// Z bits and an extended rcode in a query are unusual but parse
		o.Hdr.Ttl |= []uint32{0x0001, 0x4000, 0x7fff, 0x01000000}[rng.IntN(4)]
	}
	rng.Shuffle(len(o.Option), func(i, j int) { o.Option[i], o.Option[j] = o.Option[j], o.Option[i] })
	// RFC 6891 6.1.1: the OPT record may be anywhere in the additional section
	// (a TSIG, for one, has to come after it).
	other := func() dns.RR {
		if rng.IntN(2) == 0 {
			return tsigRR()
		}

		return &dns.A{Hdr: dns.RR_Header{Name: "extra.test.", Rrtype: dns.TypeA, Class: dns.ClassINET}, A: net.IPv4(192, 0, 2, 1)}
	}
	switch rng.IntN(10) {
	case 0:
		req.Extra = append(req.Extra, o, other())
	case 1:
		req.Extra = append(req.Extra, other(), o)
	case 2:
		req.Extra = append(req.Extra, other(), o, other())
	default:
		req.Extra = append(req.Extra, o)
	}

	return req
}

// genJSONReq builds the query the JSON API builds from its URL parameters
// (httpRequestToMsgJSON): name, type, cd, and an OPT record only for do / sde.
func genJSONReq(rng *rand.Rand) *dns.Msg {
	req := &dns.Msg{}
	qt := []uint16{dns.TypeA, dns.TypeAAAA, dns.TypeTXT, dns.TypeHTTPS}[rng.IntN(4)]
	req.SetQuestion(qnames[rng.IntN(len(qnames))], qt)
	req.CheckingDisabled = rng.IntN(4) == 0
	do, sde := rng.IntN(2) == 0, rng.IntN(3) == 0
	if do || sde {
		req.SetEdns0(dns.MaxMsgSize, do)
		if sde {
			o := req.Extra[0].(*dns.OPT)
			o.Option = append(o.Option, &dns.EDNS0_EDE{})
		}
	}

	return req
}

func tsigRR() dns.RR {
	return &dns.TSIG{Hdr: dns.RR_Header{Name: "key.example.", Rrtype: dns.TypeTSIG, Class: dns.ClassANY},
		Algorithm: dns.HmacSHA256, TimeSigned: 1700000000, Fudge: 300, MACSize: 32, MAC: strings.Repeat("ab", 32), OrigId: 7}
}

func genOwnOPT(rng *rand.Rand) *dns.OPT {
	o := &dns.OPT{Hdr: dns.RR_Header{Name: ".", Rrtype: dns.TypeOPT}}
	o.SetUDPSize(pick16(rng, ednsSizes))
	o.Hdr.Ttl = []uint32{0, 0, 0x8000, 0x00010000, 0x01000000, 0x0100, 0x00ff, 0x7fff, 0xffffffff}[rng.IntN(9)]
	if rng.IntN(2) == 0 {
		txt := []int{0, 10, 60, 600}[rng.IntN(4)]
		o.Option = append(o.Option, &dns.EDNS0_EDE{InfoCode: 15, ExtraText: strings.Repeat("e", txt)})
	}
	if rng.IntN(4) == 0 {
		o.Option = append(o.Option, &dns.EDNS0_NSID{Code: dns.EDNS0NSID, Nsid: strings.Repeat("cd", rng.IntN(12))})
	}
	if rng.IntN(5) == 0 {
		o.Option = append(o.Option, &dns.EDNS0_PADDING{Padding: make([]byte, []int{0, 5, 40}[rng.IntN(3)])})
	}
	if rng.IntN(8) == 0 {
		o.Option = append(o.Option, &dns.EDNS0_TCP_KEEPALIVE{Code: dns.EDNS0TCPKEEPALIVE, Timeout: uint16(rng.IntN(2) * 77)})
	}
	if rng.IntN(6) == 0 {
		o.Option = append(o.Option, &dns.EDNS0_SUBNET{Code: dns.EDNS0SUBNET, Family: 1, SourceNetmask: 24, SourceScope: 24, Address: net.IPv4(198, 51, 100, 0)})
	}

	return o
}

// expectedOptLen is the length of the OPT record the response will carry when
// it is truncated (before padding / keep-alive).
func expectedOptLen(req *dns.Msg, own *dns.OPT) int {
	ro := req.IsEdns0()
	switch {
	case own != nil:
		return dns.Len(own)
	case ro == nil:
		return 0
	}
	n := 11
	for _, e := range ro.Option {
		if e.Option() == dns.EDNS0NSID || e.Option() == dns.EDNS0EXPIRE {
			n += 4 + payloadLen(e)
		}
	}

	return n
}

// genResp builds a handler response whose length (compressed or uncompressed,
// OPT included) lands on target when that is reachable.
func genResp(rng *rand.Rand, req *dns.Msg, own *dns.OPT, target int, compressedTarget bool) *dns.Msg {
	resp := &dns.Msg{}
	resp.SetReply(req)
	resp.Rcode = []int{0, 0, 0, 0, 3, 3, 2, 5, 1, 4, 9}[rng.IntN(11)]
	if (own != nil || req.IsEdns0() != nil) && rng.IntN(12) == 0 {
		// extended rcodes need an OPT record to travel in
		resp.Rcode = []int{16, 23, 0xfff}[rng.IntN(3)]
	}
	if rng.IntN(12) == 0 {
		resp.Truncated = true
	}
	resp.Authoritative = rng.IntN(4) == 0
	resp.RecursionAvailable = rng.IntN(2) == 0
	resp.AuthenticatedData = rng.IntN(4) == 0
	resp.CheckingDisabled = rng.IntN(6) == 0
	var tsig dns.RR
	if rng.IntN(14) == 0 {
		tsig = tsigRR()
	}
	qname := req.Question[0].Name
	body := target - expectedOptLen(req, own)
	if tsig != nil {
		body -= dns.Len(tsig)
	}
	cur := func() int {
		m := &dns.Msg{MsgHdr: resp.MsgHdr, Compress: compressedTarget, Question: resp.Question, Answer: resp.Answer, Ns: resp.Ns, Extra: resp.Extra}

		return m.Len()
	}
	class := rng.IntN(2)
	if body > 6000 {
		class = 1 + rng.IntN(2)
		if body > 20000 {
			class = 2
		}
		if rng.IntN(40) == 0 {
			class = 0
		}
	}
	// section weights: any mix, including empty sections
	wa, wn, we := rng.IntN(4), rng.IntN(3), rng.IntN(3)
	if wa+wn+we == 0 {
		wa = 1
	}
	// one response in three made of small records draws them from the odd
	// types and names instead
	rrClass := class
	lastGenOdd = false
	if class == 0 && rng.IntN(3) == 0 {
		rrClass, lastGenOdd = 3, true
	}
	var rrs []dns.RR
	sz := cur()
	for sz < body-300-class*class*1100 && len(rrs) < 7000 {
		rr := genRR(rng, qname, rrClass)
		rrs = append(rrs, rr)
		sz += dns.Len(rr)
		if len(rrs)%64 == 0 || class > 0 || (rrClass == 3 && len(rrs)%8 == 0) {
			// resynchronise with the library's own figure now and then
			resp.Answer = rrs
			sz = cur()
			resp.Answer = nil
		}
	}
	// split in order
	for _, rr := range rrs {
		switch v := rng.IntN(wa + wn + we); {
		case v < wa:
			resp.Answer = append(resp.Answer, rr)
		case v < wa+wn:
			resp.Ns = append(resp.Ns, rr)
		default:
			resp.Extra = append(resp.Extra, rr)
		}
	}
	// filler records to land on the target
	for i := 0; i < 40; i++ {
		gap := body - cur()
		ownerCost := 2
		if !compressedTarget {
			ownerCost = len(qname) + 1
			if qname == "." {
				ownerCost = 1
			}
		}
		if gap < ownerCost+11 {
			break
		}
		rdata := min(gap-ownerCost-10, 4000)
		rr := &dns.TXT{Hdr: dns.RR_Header{Name: qname, Rrtype: dns.TypeTXT, Class: dns.ClassINET, Ttl: 60}, Txt: txtStrings(rdata)}
		switch v := rng.IntN(wa + wn + we); {
		case v < wa:
			resp.Answer = append(resp.Answer, rr)
		case v < wa+wn:
			resp.Ns = append(resp.Ns, rr)
		default:
			resp.Extra = append(resp.Extra, rr)
		}
	}
	if own != nil && rng.IntN(8) == 0 {
		// More than one OPT record is malformed (RFC 6891, 6.1.1) but parses;
		// IsEdns0 and Truncate see only the last one, the others are ordinary
		// additional records to them.
		resp.Extra = append(resp.Extra, genOwnOPT(rng))
	}
	if own != nil {
		if len(resp.Extra) > 0 && rng.IntN(10) == 0 {
			// OPT is allowed anywhere in the additional section
			i := rng.IntN(len(resp.Extra))
			resp.Extra = append(resp.Extra[:i:i], append([]dns.RR{own}, resp.Extra[i:]...)...)
		} else {
			resp.Extra = append(resp.Extra, own)
		}
	}
	if tsig != nil {
		// a TSIG is the last record of a message; now and then the OPT follows it
		resp.Extra = append(resp.Extra, tsig)
		if n := len(resp.Extra); own != nil && resp.Extra[n-2] == dns.RR(own) && rng.IntN(4) == 0 {
			resp.Extra[n-2], resp.Extra[n-1] = resp.Extra[n-1], resp.Extra[n-2]
		}
	}

	return resp
}

func (x *runner) limitFor(t string, cfgMax uint16, req *dns.Msg) int {
	v := optView{}
	if o := req.IsEdns0(); o != nil {
		v = optView{Present: true, Size: o.UDPSize()}
	}

	return x.limit(tcase{t: t, cfgMax: cfgMax}, v)
}

// oddRequest turns a generated query, now and then, into an unusual but legal
// one: a question name in mixed case, a second OPT record in front of the
// real one (Msg.IsEdns0 takes the last), an OPT record whose owner is not the
// root.
func (x *runner) oddRequest(rng *rand.Rand, req *dns.Msg) {
	if rng.IntN(10) == 0 {
		b := []byte(req.Question[0].Name)
		for i := range b {
			if b[i] >= 'a' && b[i] <= 'z' && rng.IntN(2) == 0 {
				b[i] -= 32
			}
		}
		req.Question[0].Name = string(b)
		x.r.Count("req.qname-mixed-case")
	}
	o := req.IsEdns0()
	if o == nil {
		return
	}
	if rng.IntN(12) == 0 {
		first := &dns.OPT{Hdr: dns.RR_Header{Name: ".", Rrtype: dns.TypeOPT}}
		first.SetUDPSize(pick16(rng, ednsSizes))
		first.Option = append(first.Option, &dns.EDNS0_PADDING{Padding: make([]byte, 7)},
			&dns.EDNS0_TCP_KEEPALIVE{Code: dns.EDNS0TCPKEEPALIVE}, &dns.EDNS0_NSID{Code: dns.EDNS0NSID, Nsid: "abcd"})
		req.Extra = append([]dns.RR{first}, req.Extra...)
		x.r.Count("req.two-opt-records")
	}
	if rng.IntN(15) == 0 {
		o.Hdr.Name = "opt.test."
		x.r.Count("req.opt-owner-not-root")
	}
}

// lastGenOdd: the last genResp call drew its records from the odd types.
var lastGenOdd bool

func (x *runner) randomCampaign(n int) {
	rng := x.o.Rand("random")
	for i := 0; i < n; i++ {
		t := transports[rng.IntN(len(transports))]
		cfgMax := pick16(rng, cfgSizes)
		idle := idles[rng.IntN(len(idles))]
		req := genReq(rng, t)
		var own *dns.OPT
		if rng.IntN(5) < 2 {
			own = genOwnOPT(rng)
		}
		doh := ""
		if t == "doh" {
			doh = []string{"", "", "", "get", "get", "get", "jsonwire", "jsonwire", "json", "json", "h3", "h3get"}[rng.IntN(12)]
			if doh == "jsonwire" || doh == "json" {
				req = genJSONReq(rng)
			}
		}
		lim := x.limitFor(t, cfgMax, req)
		var target int
		tag := ""
		switch v := rng.IntN(20); {
		case v < 4:
			target, tag = 30+rng.IntN(480), "small"
		case v < 12:
			target, tag = lim+rng.IntN(9)-4, "at-limit"
		case v < 15:
			target, tag = lim+rng.IntN(600)-100, "near-limit"
		case v < 17:
			target, tag = 512+rng.IntN(8000), "medium"
		case v < 18:
			target, tag = 65535+rng.IntN(60)-45, "at-64k"
		default:
			target, tag = lim+1+rng.IntN(1+min(3*lim, 66000-lim)), "over-limit"
		}
		if target > 20000 && !isUDP(t) && rng.IntN(3) != 0 && !x.o.Thorough() {
			// large stream messages are expensive to measure; thin them in the quick tier
			target, tag = 30+rng.IntN(3000), "small-stream"
		}
		target = min(target, 66500)
		compressed := rng.IntN(2) == 0
		wireForm := doh != "jsonwire" && doh != "json"
		if wireForm {
			x.oddRequest(rng, req)
		}
		var alias *dns.OPT
		if wireForm && rng.IntN(7) == 0 {
			// the handler reflects the request's OPT record object
			if o := aliasOPT(req); o != nil {
				own, alias = o, o
				x.r.Count("resp.opt-aliases-request-opt")
			}
		}
		resp := genResp(rng, req, own, target, compressed)
		if lastGenOdd {
			x.r.Count("resp.odd-record-types-and-names")
		}
		keepQ := false
		if wireForm {
			switch rng.IntN(14) {
			case 0:
				// e.g. a SERVFAIL made without the question
				resp.Question, keepQ = nil, true
				x.r.Count("resp.question.none")
			case 1:
				resp.Question = []dns.Question{{Name: strings.ToUpper(req.Question[0].Name), Qtype: req.Question[0].Qtype, Qclass: dns.ClassINET}}
				keepQ = true
				x.r.Count("resp.question.other-case")
			case 2:
				resp.Question = append([]dns.Question{req.Question[0]}, dns.Question{Name: "second." + qnames[rng.IntN(2)], Qtype: dns.TypeAAAA, Qclass: dns.ClassINET})
				keepQ = true
				x.r.Count("resp.question.two")
			}
		}
		if rng.IntN(3) == 0 {
			// the flag a handler leaves is overwritten by Truncate and normalize
			resp.Compress = true
			x.r.Count("resp.compress-flag-set")
		}
		x.r.Count("gen." + tag)
		x.run(tcase{t: t, cfgMax: cfgMax, idleMs: idle, req: req, resp: resp, tag: fmt.Sprintf("random#%d/%s", i, tag), doh: doh, keepQ: keepQ, alias: alias, cloned: alias == nil && i%3 == 1})
	}
	x.flush()
}

// boundaryCampaign sweeps every transport over sizes just around its limit,
// for both the compressed and the uncompressed length, with and without OPT,
// padding and keep-alive.
func (x *runner) boundaryCampaign() {
	rng := x.o.Rand("boundary")
	deltas := []int{-2, -1, 0, 1, 2}
	udpLims := []uint16{512, 1232}
	if x.o.Thorough() {
		deltas = []int{-40, -36, -35, -12, -11, -7, -6, -5, -4, -3, -2, -1, 0, 1, 2, 3, 12}
		udpLims = []uint16{512, 513, 1232, 4096}
	}
	for _, t := range transports {
		var lims []uint16
		if isUDP(t) {
			lims = udpLims
		} else {
			lims = []uint16{65535}
			if !x.o.Thorough() {
				deltas = []int{-36, -6, -1, 0, 1}
			}
		}
		for _, lim := range lims {
			for _, dl := range deltas {
				for variant := 0; variant < 6; variant++ {
					for _, compressed := range []bool{false, true} {
						req := &dns.Msg{}
						req.SetQuestion(qnames[rng.IntN(2)], dns.TypeTXT)
						if t == "doq" {
							req.Id = 0
						}
						var own *dns.OPT
						if variant > 0 {
							o := &dns.OPT{Hdr: dns.RR_Header{Name: ".", Rrtype: dns.TypeOPT}}
							o.SetUDPSize(lim)
							if variant >= 2 {
								o.Option = append(o.Option, &dns.EDNS0_PADDING{Padding: make([]byte, 3)})
							}
							if variant >= 3 && t != "doq" {
								o.Option = append(o.Option, &dns.EDNS0_TCP_KEEPALIVE{Code: dns.EDNS0TCPKEEPALIVE})
							}
							if variant == 4 {
								o.Option = append(o.Option, &dns.EDNS0_NSID{Code: dns.EDNS0NSID, Nsid: "abcd"})
							}
							if variant == 5 {
								own = genOwnOPT(rng)
							}
							req.Extra = append(req.Extra, o)
						} else if isUDP(t) && lim != 512 {
							continue
						}
						cfg := uint16(65535)
						if rng.IntN(2) == 0 && variant > 0 {
							// let the configured cap, not the advertised size, be the binding one
							cfg = lim
							req.IsEdns0().SetUDPSize(uint16(min(65535, int(lim)+rng.IntN(3000))))
						}
						resp := genResp(rng, req, own, int(lim)+dl, compressed)
						x.r.Count("gen.boundary")
						doh := ""
						if t == "doh" && (variant+dl)%2 != 0 {
							doh = "get"
						} else if t == "doh" && variant%3 == 0 {
							doh = "h3"
						}
						x.run(tcase{t: t, cfgMax: cfg, idleMs: idles[rng.IntN(len(idles))], req: req, resp: resp,
							tag: fmt.Sprintf("boundary/%s/lim=%d%+d/v%d/c=%v", t, lim, dl, variant, compressed), doh: doh})
					}
				}
			}
		}
	}
	x.flush()
}

// exhaustiveGrid (thorough tier) enumerates a small scope completely instead
// of sampling it: transport x request EDNS shape x handler OPT shape x TC
// preset x TSIG x response size around the limit x compressed/uncompressed
// target.
func (x *runner) exhaustiveGrid() {
	rng := x.o.Rand("grid-exhaustive")
	type reqShape struct {
		opt     bool
		size    uint16
		options string
	}
	var reqs []reqShape
	reqs = append(reqs, reqShape{})
	for _, sz := range []uint16{0, 512, 600, 1232} {
		for _, op := range []string{"", "p", "k", "pk", "n", "pn"} {
			reqs = append(reqs, reqShape{true, sz, op})
		}
	}
	owns := []string{"-", "", "p", "k", "e"}
	n := 0
	for _, t := range transports {
		for _, rs := range reqs {
			if t == "doq" && strings.Contains(rs.options, "k") {
				continue
			}
			for _, ow := range owns {
				for _, tcPreset := range []bool{false, true} {
					for _, withTsig := range []bool{false, true} {
						for _, compressed := range []bool{false, true} {
							cfg := uint16(1232)
							lim := x.limit(tcase{t: t, cfgMax: cfg}, optView{Present: rs.opt, Size: rs.size})
							targets := []int{lim - 1, lim, lim + 1, lim + 40, 2 * lim}
							if !isUDP(t) {
								targets = []int{200, 700}
								if !tcPreset && !withTsig && compressed {
									targets = append(targets, lim-36, lim, lim+1)
								}
							}
							for _, target := range targets {
								req := &dns.Msg{}
								req.SetQuestion("example.org.", dns.TypeTXT)
								if t == "doq" {
									req.Id = 0
								}
								if rs.opt {
									o := &dns.OPT{Hdr: dns.RR_Header{Name: ".", Rrtype: dns.TypeOPT}}
									o.SetUDPSize(rs.size)
									for _, ch := range rs.options {
										switch ch {
										case 'p':
											o.Option = append(o.Option, &dns.EDNS0_PADDING{Padding: make([]byte, 2)})
										case 'k':
											o.Option = append(o.Option, &dns.EDNS0_TCP_KEEPALIVE{Code: dns.EDNS0TCPKEEPALIVE})
										case 'n':
											o.Option = append(o.Option, &dns.EDNS0_NSID{Code: dns.EDNS0NSID, Nsid: "abcdef"})
										}
									}
									req.Extra = append(req.Extra, o)
								}
								var own *dns.OPT
								if ow != "-" {
									own = &dns.OPT{Hdr: dns.RR_Header{Name: ".", Rrtype: dns.TypeOPT}}
									own.SetUDPSize(4096)
									switch ow {
									case "p":
										own.Option = append(own.Option, &dns.EDNS0_PADDING{Padding: make([]byte, 5)})
									case "k":
										own.Option = append(own.Option, &dns.EDNS0_TCP_KEEPALIVE{Code: dns.EDNS0TCPKEEPALIVE, Timeout: 77})
									case "e":
										own.Option = append(own.Option, &dns.EDNS0_EDE{InfoCode: 15, ExtraText: strings.Repeat("e", 60)})
									}
								}
								resp := genResp(rng, req, own, target, compressed)
								resp.Truncated = tcPreset
								if has := resp.IsTsig() != nil; has != withTsig {
									if withTsig {
										resp.Extra = append(resp.Extra, tsigRR())
									} else {
										resp.Extra = resp.Extra[:len(resp.Extra)-1]
									}
								}
								n++
								x.run(tcase{t: t, cfgMax: cfg, idleMs: 30000, req: req, resp: resp,
									tag: fmt.Sprintf("grid/%s/req=%v/own=%s/tc=%v/tsig=%v/c=%v/target=%d", t, rs, ow, tcPreset, withTsig, compressed, target)})
							}
						}
					}
				}
			}
		}
	}
	x.flush()
	x.r.Distribution["grid.exhaustive-cases"] = n
}

// sizeGrid compares maxDNSSize with the model and with the stated formula on a
// boundary grid (exhaustive over the pools).
func (x *runner) sizeGrid() {
	pts := []int{0, 1, 2, 255, 256, 511, 512, 513, 514, 1023, 1024, 1231, 1232, 1233, 1452, 4095, 4096, 4097, 32767, 32768, 65534, 65535}
	rng := x.o.Rand("grid")
	for i := 0; i < 40; i++ {
		pts = append(pts, rng.IntN(65536))
	}
	var lines []string
	var reals []int
	for _, udp := range []bool{true, false} {
		for _, e := range pts {
			for _, c := range pts {
				nw := dnsserver.NetworkTCP
				if udp {
					nw = dnsserver.NetworkUDP
				}
				got := dnsserver.VerifC08MaxDNSSize(nw, uint16(e), uint16(c))
				want := 65535
				if udp {
					want = max(512, min(e, c))
				}
				if got != want {
					x.r.Violate("max-size-formula", fmt.Sprintf("maxDNSSize(udp=%v, %d, %d) = %d, the property says %d", udp, e, c, got, want),
						map[string]any{"udp": udp, "edns": e, "cap": c})
				}
				lines = append(lines, fmt.Sprintf("maxsize %s %d %d", b2s(udp), e, c))
				reals = append(reals, got)
			}
		}
	}
	x.m.ResetLog()
	for i, a := range x.m.Batch(lines) {
		x.r.ModelOps++
		if a != strconv.Itoa(reals[i]) {
			x.r.Disagree("maxsize-model", fmt.Sprintf("%s: model %s, real %d", lines[i], a, reals[i]), lines[i])
		}
	}
	x.r.Evaluations += len(lines)
	x.r.Count("grid.maxDNSSize-points")
	x.r.Distribution["grid.maxDNSSize-points"] = len(lines)
}

// packGuard checks packWithPrefix's refusal boundary directly.
func (x *runner) packGuard() {
	for _, dl := range []int{-3, -2, -1, 0, 1, 2, 3, 40} {
		m := &dns.Msg{}
		m.SetQuestion("example.org.", dns.TypeTXT)
		m.Response = true
		for i := 0; i < 60; i++ {
			gap := 65535 + dl - m.Len()
			if gap < 24 {
				break
			}
			m.Answer = append(m.Answer, &dns.TXT{Hdr: dns.RR_Header{Name: "example.org.", Rrtype: dns.TypeTXT, Class: dns.ClassINET},
				Txt: txtStrings(min(gap-23, 4000))})
		}
		plain, err := m.Pack()
		if err != nil {
			continue
		}
		b, err := dnsserver.VerifC08PackWithPrefix(m, nil)
		x.r.Evaluations++
		x.r.Count("packguard.probes")
		switch {
		case err == nil && len(plain) > 65535:
			x.r.Violate("stream-oversize", fmt.Sprintf("packWithPrefix framed a message of %d bytes", len(plain)), map[string]any{"len": len(plain)})
		case err != nil && len(plain) <= 65535:
			x.r.Disagree("packguard", fmt.Sprintf("packWithPrefix refused %d bytes: %v", len(plain), err), nil)
		case err == nil && (len(b) != len(plain)+2 || int(binary.BigEndian.Uint16(b)) != len(plain)):
			x.r.Violate("bad-framing", fmt.Sprintf("packWithPrefix: prefix %d for %d bytes", binary.BigEndian.Uint16(b), len(plain)), nil)
		}
	}
}

// findings replays the inputs of the recorded defects deterministically.
func (x *runner) findings() {
	rng := x.o.Rand("findings")
	// (a) reflected NSID payload is not droppable: UDP, advertised 512.
	for _, t := range []string{"udp", "dcu"} {
		req := &dns.Msg{}
		req.SetQuestion("example.org.", dns.TypeA)
		o := &dns.OPT{Hdr: dns.RR_Header{Name: ".", Rrtype: dns.TypeOPT}}
		o.SetUDPSize(512)
		o.Option = append(o.Option, &dns.EDNS0_NSID{Code: dns.EDNS0NSID, Nsid: strings.Repeat("ab", 700)})
		req.Extra = append(req.Extra, o)
		resp := genResp(rng, req, nil, 300, true)
		x.run(tcase{t: t, cfgMax: 1232, req: req, resp: resp, tag: "finding/nsid-700/" + t})
	}
	// (b) the handler's own OPT is not droppable either.
	{
		req := &dns.Msg{}
		req.SetQuestion("example.org.", dns.TypeA)
		req.SetEdns0(512, false)
		own := &dns.OPT{Hdr: dns.RR_Header{Name: ".", Rrtype: dns.TypeOPT}}
		own.Option = append(own.Option, &dns.EDNS0_EDE{InfoCode: 15, ExtraText: strings.Repeat("e", 600)})
		resp := genResp(rng, req, own, 700, true)
		x.run(tcase{t: "udp", cfgMax: 1232, req: req, resp: resp, tag: "finding/own-opt-600"})
	}
	// (c) padding (and keep-alive) appended after truncation at 64 KiB.
	for _, t := range []string{"doh", "dot", "doq", "tcp"} {
		req := &dns.Msg{}
		req.SetQuestion("example.org.", dns.TypeTXT)
		o := &dns.OPT{Hdr: dns.RR_Header{Name: ".", Rrtype: dns.TypeOPT}}
		o.SetUDPSize(4096)
		o.Option = append(o.Option, &dns.EDNS0_PADDING{Padding: make([]byte, 4)})
		if t != "doq" {
			o.Option = append(o.Option, &dns.EDNS0_TCP_KEEPALIVE{Code: dns.EDNS0TCPKEEPALIVE})
		}
		if t == "doq" {
			req.Id = 0
		}
		req.Extra = append(req.Extra, o)
		resp := genResp(rng, req, nil, 65535, false)
		x.run(tcase{t: t, cfgMax: 1232, idleMs: 30000, req: req, resp: resp, tag: "finding/pad-after-truncate/" + t})
	}
	// (e) a handler response that ends in a TSIG record is not truncated at all.
	for _, t := range []string{"udp", "dcu", "doh", "dct", "tcp"} {
		for _, withOpt := range []bool{false, true} {
			req := &dns.Msg{}
			req.SetQuestion("example.org.", dns.TypeTXT)
			var own *dns.OPT
			if withOpt {
				req.SetEdns0(1232, false)
				own = &dns.OPT{Hdr: dns.RR_Header{Name: ".", Rrtype: dns.TypeOPT}}
			}
			target := 2000
			if !isUDP(t) {
				target = 65700
			}
			resp := genResp(rng, req, own, target, false)
			if resp.IsTsig() == nil {
				resp.Extra = append(resp.Extra, tsigRR())
			}
			x.run(tcase{t: t, cfgMax: 1232, req: req, resp: resp, tag: fmt.Sprintf("finding/tsig/%s/opt=%v", t, withOpt)})
		}
	}
	// (f) a handler that reflects the request's OPT record object: whatever the
	// write path does to the request afterwards must not show in the response
	// (DNSCrypt/UDP lowers the request's size for the library; repaired).
	for _, t := range transports {
		for _, adv := range []uint16{4096, 1232, 600} {
			req := &dns.Msg{}
			req.SetQuestion("example.org.", dns.TypeA)
			req.SetEdns0(adv, true)
			if t == "doq" {
				req.Id = 0
			}
			own := aliasOPT(req)
			resp := genResp(rng, req, own, 120, true)
			x.run(tcase{t: t, cfgMax: 1232, req: req, resp: resp, alias: own, tag: fmt.Sprintf("finding/reflected-opt-object/%s/%d", t, adv)})
			// the same with nothing but the OPT record in the additional section:
			// the handler hands back the request's section itself (even id)
			for _, id := range []uint16{2, 3} {
				req = req.Copy()
				if t != "doq" {
					req.Id = id
				}
				own = aliasOPT(req)
				resp = &dns.Msg{}
				resp.SetReply(req)
				resp.Answer = []dns.RR{&dns.A{Hdr: dns.RR_Header{Name: "example.org.", Rrtype: dns.TypeA, Class: dns.ClassINET, Ttl: 30}, A: net.IPv4(192, 0, 2, 1)}}
				resp.Extra = []dns.RR{own}
				x.run(tcase{t: t, cfgMax: 1232, req: req, resp: resp, alias: own, tag: fmt.Sprintf("finding/reflected-extra-section/%s/%d/id%d", t, adv, id)})
			}
		}
	}
	// (d) synthesised OPT must echo the client's size (repaired; kept as a regression probe).
	for _, t := range transports {
		req := &dns.Msg{}
		req.SetQuestion("example.org.", dns.TypeA)
		req.SetEdns0(1232, true)
		if t == "doq" {
			req.Id = 0
		}
		resp := genResp(rng, req, nil, 120, true)
		x.run(tcase{t: t, cfgMax: 4096, req: req, resp: resp, tag: "finding/synth-opt-size/" + t})
	}
	x.flush()
}

// writeFaults: the connection refuses the first write (a write deadline that
// fires, the errors the real write paths wrap into WriteError).  The handler
// returns the writer's error, the server answers SERVFAIL on the same
// connection; that second message is judged by the property's words alone —
// size, framing (driveMode), OPT echo, no padding / keep-alive the client did
// not ask for, TC clear with nothing to drop.  With two failing writes nothing
// may leave at all.
func (x *runner) writeFaults() {
	r := x.r
	rng := x.o.Rand("write-faults")
	for i := 0; i < 240; i++ {
		t := []string{"udp", "tcp", "dot"}[i%3]
		cfgMax := pick16(rng, cfgSizes)
		req := genReq(rng, t)
		var own *dns.OPT
		if rng.IntN(3) == 0 {
			own = genOwnOPT(rng)
		}
		resp := genResp(rng, req, own, 40+rng.IntN(3000), rng.IntN(2) == 0)
		reqWire, err := req.Pack()
		if err != nil {
			continue
		}
		seen := &dns.Msg{}
		if seen.Unpack(reqWire) != nil {
			continue
		}
		reqOpt := viewOpt(seen.IsEdns0())
		fails := 1 + i/3%2
		x.sv.failWrites = fails
		d := x.sv.driveMode("wrote", t, cfgMax, 30000, reqWire, resp)
		rp := map[string]any{"transport": t, "max_udp_resp_size": cfgMax, "failing_writes": fails, "request_opt": reqLine(reqOpt),
			"request_hex": fmt.Sprintf("%x", reqWire), "wire_len": len(d.wire)}
		if d.badWire != "" {
			r.Violate("bad-framing", t+" after a failed write: "+d.badWire, rp)

			continue
		}
		if fails == 2 {
			if d.wire != nil {
				r.Disagree("write-fault-extra-write", fmt.Sprintf("%s: %d bytes left after both writes failed", t, len(d.wire)), rp)
			} else {
				r.Count("write-faults.nothing-sent")
			}

			continue
		}
		if d.wire == nil {
			// allowed by the property (no response), but not what the code does
			r.Disagree("write-fault-no-servfail", t+": no SERVFAIL after a failed write", rp)

			continue
		}
		m := &dns.Msg{}
		if err = m.Unpack(d.wire); err != nil {
			r.Violate("unparsable-response", t+" after a failed write: "+err.Error(), rp)

			continue
		}
		r.Count("write-faults.servfail-judged." + t)
		lim := 65535
		if t == "udp" {
			adv := 0
			if reqOpt.Present {
				adv = int(seen.IsEdns0().UDPSize())
			}
			lim = max(512, min(adv, int(cfgMax)))
		}
		o := m.IsEdns0()
		switch {
		case len(d.wire) > lim:
			r.Violate(map[bool]string{true: "udp-oversize", false: "stream-oversize"}[t == "udp"], fmt.Sprintf("%s after a failed write: %d bytes, limit %d", t, len(d.wire), lim), rp)
		case m.Rcode != dns.RcodeServerFailure || m.Truncated || len(m.Answer) != 0:
			r.Disagree("write-fault-shape", fmt.Sprintf("%s: rcode %d tc=%v answers=%d after a failed write", t, m.Rcode, m.Truncated, len(m.Answer)), rp)
		case reqOpt.Present && o == nil:
			r.Violate("opt-missing-synthesised", t+" after a failed write: query carried OPT, response has none", rp)
		case reqOpt.Present && (o.UDPSize() != seen.IsEdns0().UDPSize() || o.Version() != 0):
			r.Violate("opt-echo-size-synthesised", fmt.Sprintf("%s after a failed write: OPT says %d/v%d, client sent %d", t, o.UDPSize(), o.Version(), seen.IsEdns0().UDPSize()), rp)
		case !reqOpt.Present && o != nil:
			r.Disagree("write-fault-shape", t+": OPT record in the SERVFAIL for a query without one", rp)
		case o != nil && len(viewOpt(o).lens(dns.EDNS0PADDING)) > 0 && !(t == "dot" && reqOpt.has(dns.EDNS0PADDING)):
			r.Violate("padding-not-requested", t+" after a failed write: padding added", rp)
		case o != nil && len(viewOpt(o).lens(dns.EDNS0TCPKEEPALIVE)) > 0 && !(t != "udp" && reqOpt.has(dns.EDNS0TCPKEEPALIVE)):
			r.Violate("keepalive-not-requested", t+" after a failed write: keep-alive returned", rp)
		}
	}
}

// runServer drives a query that the server answers itself (or not at all):
// FORMERR / NOTIMP from acceptMsg, an ignored message, a handler that stays
// silent or fails.  The bytes on the wire go to the property oracle and are
// compared with the model of the whole server (`respond`).
func (x *runner) runServer(c tcase, kind, mode string) {
	r := x.r
	// The server is built with the value as given (zero = unset on DNSCrypt);
	// the oracle and the model work with what it stands for.
	rawCfg := c.cfgMax
	c.cfgMax = effCfg(c.t, c.cfgMax)
	reqWire, err := c.req.Pack()
	if err != nil {
		r.Count("skipped.request-does-not-pack")

		return
	}
	reqSeen := &dns.Msg{}
	if err = reqSeen.Unpack(reqWire); err != nil {
		r.Count("skipped.request-does-not-unpack")

		return
	}
	reqOpt := viewOpt(reqSeen.IsEdns0())
	var d driven
	func() {
		defer func() {
			if v := recover(); v != nil {
				r.Violate("panic-in-write-path", fmt.Sprintf("%s: write path panicked: %v", c.t, v), x.replay(c, "", reqOpt, optView{}))
			}
		}()
		d = x.sv.driveMode(mode, c.t, rawCfg, c.idleMs, reqWire, &dns.Msg{})
	}()
	var sent []byte
	if d.emitted {
		sent = d.wire
	}
	hk := mode
	if mode == "wrote" {
		// the handler is not reached for these queries
		hk = "silent"
		if x.sv.called {
			r.Disagree("handler-called", c.t+": handler called for a "+kind+" query", map[string]any{"kind": kind})
		}
	}
	rline := fmt.Sprintf("respond %s %s %d %d %d 0 0 %s %s %s 0 0 0 _ _ _ _ _ 0 0 0 0 0 0 _ 0 0",
		x.legacy, c.t, c.cfgMax, effIdle(c.idleMs), x.draw(c, reqOpt, wireOpt(sent)),
		hdrLine(reqSeen), reqLine(reqOpt), hk)
	lim := x.limit(c, reqOpt)
	canon := fmt.Sprintf("%s cfg=%d idle=%d req[%s] hdr[%s] server-made/%s lim=%d", c.t, c.cfgMax, c.idleMs, reqLine(reqOpt), hdrLine(reqSeen), kind, lim)
	x.oracle(c, driven{wire: sent, emitted: sent != nil}, reqOpt, optView{}, 0, 0, 0, lim, canon, rline)
	r.Count("server-made." + kind)
	if kind == "doq-keepalive" && c.t == "doq" {
		r.Count("doq.keepalive-query")
		if !d.closed || sent != nil {
			r.Disagree("doq-keepalive-not-refused", fmt.Sprintf("doq: a query with edns-tcp-keepalive: connection closed=%v, %d bytes written", d.closed, len(sent)),
				map[string]any{"case": canon})
		}
	}
	if sent == nil {
		r.Count("server-made.nothing-sent")
	} else {
		r.Count("server-made.sent")
	}
	if d.badWire != "" {
		r.Violate("bad-framing", c.t+": "+d.badWire, x.replay(c, rline, reqOpt, optView{}))
	}
	r.Case(canon, true)
	r.Sample(map[string]any{"case": canon, "model_line": clip(rline, 300), "real": wireView(sent)}, 9)
	x.queue = append(x.queue, pending{c: c, line: rline, real: wireView(sent), canon: canon, wire: true, nontriv: true})
	if len(x.queue) >= 256 {
		x.flush()
	}
}

// serverMade: every transport x every kind of query the server answers
// itself x request OPT variants.
func (x *runner) serverMade() {
	rng := x.o.Rand("server-made")
	kinds := []string{"two-questions", "no-question", "opcode-status", "opcode-update", "opcode-notify", "response-bit",
		"two-answers", "two-ns", "silent", "failed0", "failed1", "many-long-questions", "status-long-questions", "doq-keepalive"}
	reps := 1
	if x.o.Thorough() {
		reps = 6
	}
	for rep := 0; rep < reps; rep++ {
		for _, t := range transports {
			for _, kind := range kinds {
				for variant := 0; variant < 7; variant++ {
					var req *dns.Msg
					if variant == 6 {
						req = genReq(rng, t)
					} else {
						req = &dns.Msg{}
						req.SetQuestion(qnames[rng.IntN(len(qnames))], dns.TypeA)
						req.Id = uint16(1 + rng.IntN(65535))
					}
					if t == "doq" {
						req.Id = 0
					}
					if variant > 0 && variant < 6 {
						o := &dns.OPT{Hdr: dns.RR_Header{Name: ".", Rrtype: dns.TypeOPT}}
						o.SetUDPSize([]uint16{0, 1232, 512, 4096, 0, 65535}[variant])
						if variant == 1 {
							o.SetDo()
						}
						if variant == 2 || variant == 5 {
							o.Option = append(o.Option, &dns.EDNS0_PADDING{Padding: make([]byte, 6)})
							if t != "doq" {
								o.Option = append(o.Option, &dns.EDNS0_TCP_KEEPALIVE{Code: dns.EDNS0TCPKEEPALIVE})
							}
						}
						if variant == 3 || variant == 5 {
							o.Option = append(o.Option, &dns.EDNS0_NSID{Code: dns.EDNS0NSID, Nsid: strings.Repeat("ab", []int{0, 20, 600}[rng.IntN(3)])})
						}
						req.Extra = append(req.Extra, o)
						if variant == 3 {
							req.Extra = append(req.Extra, tsigRR())
						}
					}
					mode := "wrote"
					second := dns.Question{Name: "second.test.", Qtype: dns.TypeAAAA, Qclass: dns.ClassINET}
					rr := func(n string) dns.RR {
						return &dns.A{Hdr: dns.RR_Header{Name: n, Rrtype: dns.TypeA, Class: dns.ClassINET, Ttl: 5}, A: net.IPv4(192, 0, 2, 9)}
					}
					longQ := func(i int) dns.Question {
						l := strings.Repeat(string(rune('a'+i)), 60)
						return dns.Question{Name: l + "." + l + "." + l + "." + l[:50] + ".test.", Qtype: dns.TypeTXT, Qclass: dns.ClassINET}
					}
					switch kind {
					case "many-long-questions":
						// a question section of more than 512 bytes: the FORMERR must still fit
						for i := 0; i < 2+rng.IntN(3); i++ {
							req.Question = append(req.Question, longQ(i))
						}
					case "status-long-questions":
						req.Opcode = dns.OpcodeStatus
						req.Question = []dns.Question{longQ(0), longQ(1), longQ(2)}
					case "doq-keepalive":
						// RFC 9250 5.5.2: protocol error over DoQ; elsewhere an ordinary query
						// the handler stays silent about
						mode = "silent"
						if o := req.IsEdns0(); o != nil {
							o.Option = append(o.Option, &dns.EDNS0_TCP_KEEPALIVE{Code: dns.EDNS0TCPKEEPALIVE, Timeout: uint16(rng.IntN(2) * 300)})
						} else {
							o = &dns.OPT{Hdr: dns.RR_Header{Name: ".", Rrtype: dns.TypeOPT}, Option: []dns.EDNS0{&dns.EDNS0_TCP_KEEPALIVE{Code: dns.EDNS0TCPKEEPALIVE}}}
							o.SetUDPSize(1232)
							req.Extra = append(req.Extra, o)
						}
						if t == "doq" {
							// the handler must not even be reached
							mode = "wrote"
						}
					case "two-questions":
						req.Question = append(req.Question, second)
					case "no-question":
						req.Question = nil
					case "opcode-status":
						req.Opcode = dns.OpcodeStatus
					case "opcode-update":
						req.Opcode = dns.OpcodeUpdate
					case "opcode-notify":
						req.Opcode = dns.OpcodeNotify
					case "response-bit":
						req.Response = true
					case "two-answers":
						req.Answer = []dns.RR{rr("a.test."), rr("b.test.")}
					case "two-ns":
						req.Ns = []dns.RR{rr("a.test."), rr("b.test.")}
					default:
						mode = kind
					}
					c := tcase{t: t, cfgMax: pick16(rng, cfgSizes), idleMs: idles[rng.IntN(len(idles))], req: req,
						tag: fmt.Sprintf("server-made/%s/%s/v%d", t, kind, variant)}
					x.r.Count("gen.server-made")
					if kind == "opcode-notify" {
						// accepted like a query: the handler answers
						c.resp = genResp(rng, req, nil, 40+rng.IntN(900), true)
						x.run(c)

						continue
					}
					x.runServer(c, kind, mode)
				}
			}
		}
	}
	x.flush()
}

// dnscryptE2E runs the real DNSCrypt server (AdGuard's ServerDNSCrypt around
// the ameshkov/dnscrypt library, loopback sockets) and judges what a client
// decrypts: the library truncates a second time, pads, encrypts and frames.
func (x *runner) dnscryptE2E() {
	x.dnscryptE2EWith(dns.MaxMsgSize)
	// Round 5: the same with a configured maximum below what the clients
	// advertise (skipped on a tree whose ConfigDNSCrypt has no such field; the
	// component campaigns report that tree anyway).
	for _, cfg := range []uint16{1232, 600} {
		if dcCapField {
			x.dnscryptE2EWith(cfg)
		}
	}
}

// dnscryptHandshake drives the one response path of a DNSCrypt listener that
// never sees normalize: the plain-text certificate answer the dnscrypt module
// gives itself (Server.handleHandshake) to an unencrypted TXT query for the
// provider name.  Judged by the property's words alone: size within
// max(512, min(advertised, configured)) on UDP, an OPT record back for a query
// that carried one.  Queries for other names must stay unanswered.
func (x *runner) dnscryptHandshake(uaddr, taddr string, cfg uint16) {
	r := x.r
	type hs struct {
		name string
		adv  int // -1: no OPT
		pad  bool
	}
	cases := []hs{{"example.org.", -1, false}, {"example.org.", 4096, false}, {"eXaMpLe.OrG.", 512, false},
		{"example.org.", 1232, true}, {"example.org.", 0, false}, {"other.example.", 4096, false}}
	for _, network := range []string{"udp", "tcp"} {
		for _, c := range cases {
			q := &dns.Msg{}
			q.SetQuestion(c.name, dns.TypeTXT)
			if c.adv >= 0 {
				q.SetEdns0(uint16(c.adv), false)
				if c.pad {
					o := q.IsEdns0()
					o.Option = append(o.Option, &dns.EDNS0_PADDING{Padding: make([]byte, 16)})
				}
			}
			qw, err := q.Pack()
			if err != nil {
				continue
			}
			var wire []byte
			addr := uaddr
			if network == "tcp" {
				addr = taddr
			}
			conn, err := net.Dial(network, addr)
			if err != nil {
				r.Count("dnscrypt-handshake.dial-failed")

				continue
			}
			_ = conn.SetDeadline(time.Now().Add(1500 * time.Millisecond))
			if network == "udp" {
				_, _ = conn.Write(qw)
				buf := make([]byte, 70000)
				if n, rerr := conn.Read(buf); rerr == nil {
					wire = buf[:n]
				}
			} else {
				b := make([]byte, 2+len(qw))
				binary.BigEndian.PutUint16(b, uint16(len(qw)))
				copy(b[2:], qw)
				_, _ = conn.Write(b)
				var l [2]byte
				if _, rerr := io.ReadFull(conn, l[:]); rerr == nil {
					wire = make([]byte, binary.BigEndian.Uint16(l[:]))
					if _, rerr = io.ReadFull(conn, wire); rerr != nil {
						wire = nil
					}
				}
			}
			_ = conn.Close()
			rp := map[string]any{"transport": "dnscrypt-" + network + " (plain-text certificate query)", "query_name": c.name,
				"advertised": c.adv, "padding_option": c.pad, "max_udp_resp_size": cfg, "request_hex": fmt.Sprintf("%x", qw), "wire_len": len(wire)}
			if !strings.EqualFold(c.name, "example.org.") {
				if wire != nil {
					r.Violate("dnscrypt-plain-query-answered", fmt.Sprintf("dnscrypt/%s: an unencrypted query for %s was answered with %d bytes", network, c.name, len(wire)), rp)
				} else {
					r.Count("dnscrypt-handshake.other-name-ignored")
				}

				continue
			}
			if wire == nil {
				r.Count("dnscrypt-handshake.no-answer")

				continue
			}
			m := &dns.Msg{}
			if err = m.Unpack(wire); err != nil {
				r.Violate("unparsable-response", "dnscrypt certificate answer: "+err.Error(), rp)

				continue
			}
			r.Count("dnscrypt-handshake.answered." + network)
			lim := 65535
			if network == "udp" {
				lim = max(512, min(max(c.adv, 0), int(effCfg("dcu", cfg))))
			}
			if len(wire) > lim {
				r.Violate("udp-oversize", fmt.Sprintf("dnscrypt/%s certificate answer: %d bytes, limit %d", network, len(wire), lim), rp)
			}
			if want := dcCertLen(len(c.name) + 1); len(wire) != want {
				r.Disagree("dnscrypt-cert-length", fmt.Sprintf("certificate answer of %d bytes, the model's dcCertRespLen says %d", len(wire), want), rp)
			}
			if m.Truncated || len(m.Answer) != 1 {
				r.Disagree("dnscrypt-cert-shape", fmt.Sprintf("tc=%v answers=%d", m.Truncated, len(m.Answer)), rp)
			}
			o := m.IsEdns0()
			switch {
			case c.adv < 0 && o != nil && len(viewOpt(o).lens(dns.EDNS0PADDING)) > 0:
				r.Violate("padding-not-requested", "dnscrypt certificate answer padded", rp)
			case c.adv >= 0 && o == nil:
				r.Violate("dnscrypt-cert-response-without-opt", fmt.Sprintf("dnscrypt/%s: the plain-text certificate query carried an OPT record (size %d), the answer has none", network, c.adv), rp)
			case c.adv >= 0 && (int(o.UDPSize()) != c.adv || o.Version() != 0):
				r.Violate("opt-echo-size-own", fmt.Sprintf("dnscrypt certificate answer: OPT says %d, client sent %d", o.UDPSize(), c.adv), rp)
			}
		}
	}
}

// dcCertLen is the length of the module's certificate answer for a query name
// of n wire bytes, written out by hand: header, question, one TXT record with
// the owner spelled out again (no compression) and the 124-byte certificate as
// a single character string.
func dcCertLen(n int) int { return 12 + n + 4 + n + 10 + 1 + 124 }

func (x *runner) dnscryptE2EWith(cfg uint16) {
	r := x.r
	rng := x.o.Rand(fmt.Sprintf("dnscrypt-e2e-%d", cfg))
	full := cfg == dns.MaxMsgSize
	rc, err := dnscrypt.GenerateResolverConfig("example.org", nil)
	if err != nil {
		r.Disagree("dnscrypt-e2e-setup", err.Error(), nil)

		return
	}
	cert, err := rc.CreateCert()
	if err != nil {
		r.Disagree("dnscrypt-e2e-setup", err.Error(), nil)

		return
	}
	priv, _ := dnscrypt.HexDecodeKey(rc.PrivateKey)
	pk := ed25519.PrivateKey(priv).Public().(ed25519.PublicKey)
	var s *dnsserver.ServerDNSCrypt
	for i := 0; i < 30; i++ {
		s = dnsserver.NewServerDNSCrypt(dnsCryptConf(dnsserver.ConfigDNSCrypt{ConfigBase: dnsserver.ConfigBase{Name: "c08-e2e", Addr: "127.0.0.1:0", Handler: x.sv.handler()},
			DNSCryptProviderName: "example.org", DNSCryptResolverCert: cert}, cfg))
		if err = s.Start(context.Background()); err == nil {
			break
		}
	}
	if err != nil {
		r.Count("dnscrypt-e2e.skipped-no-listener")

		return
	}
	defer func() { _ = s.Shutdown(context.Background()) }()
	if os.Getenv("C08_DEBUG") != "" {
		fmt.Fprintf(os.Stderr, "e2e server cfg=%d conf.MaxUDPRespSize=%d\n", cfg, reflect.ValueOf(s).Elem().FieldByName("conf").FieldByName("MaxUDPRespSize").Uint())
	}
	uaddr, taddr := s.LocalUDPAddr().String(), s.LocalTCPAddr().String()
	var ri *dnscrypt.ResolverInfo
	for i := 0; i < 3 && ri == nil; i++ {
		cl := &dnscrypt.Client{Net: "udp", Timeout: 3 * time.Second, UDPSize: 4096}
		ri, err = cl.DialStamp(dnsstamps.ServerStamp{ServerAddrStr: uaddr, ServerPk: pk, ProviderName: "example.org", Proto: dnsstamps.StampProtoTypeDNSCrypt})
	}
	if ri == nil {
		r.Disagree("dnscrypt-e2e-setup", fmt.Sprintf("certificate fetch failed: %v", err), nil)

		return
	}
	if full {
		x.dnscryptHandshake(uaddr, taddr, cfg)
	}
	// exchange sends one encrypted query and returns the raw encrypted answer;
	// on TCP also the length prefix and whether bytes followed the frame.
	exchange := func(t string, reqWire []byte) (raw []byte, prefix int, note string) {
		q := dnscrypt.EncryptedQuery{EsVersion: ri.ResolverCert.EsVersion, ClientMagic: ri.ResolverCert.ClientMagic, ClientPk: ri.PublicKey}
		enc, eerr := q.Encrypt(reqWire, ri.SharedKey)
		if eerr != nil {
			return nil, 0, "encrypt: " + eerr.Error()
		}
		if t == "dcu" {
			for attempt := 0; attempt < 2; attempt++ {
				c, derr := net.Dial("udp", uaddr)
				if derr != nil {
					return nil, 0, derr.Error()
				}
				_, _ = c.Write(enc)
				_ = c.SetReadDeadline(time.Now().Add(4 * time.Second))
				buf := make([]byte, 70000)
				n, rerr := c.Read(buf)
				_ = c.Close()
				if rerr == nil {
					return buf[:n], n, ""
				}
			}

			return nil, 0, "no datagram"
		}
		c, derr := net.Dial("tcp", taddr)
		if derr != nil {
			return nil, 0, derr.Error()
		}
		defer c.Close()
		b := make([]byte, 2+len(enc))
		binary.BigEndian.PutUint16(b, uint16(len(enc)))
		copy(b[2:], enc)
		_, _ = c.Write(b)
		_ = c.SetReadDeadline(time.Now().Add(4 * time.Second))
		var l [2]byte
		if _, rerr := io.ReadFull(c, l[:]); rerr != nil {
			return nil, 0, "no frame"
		}
		prefix = int(binary.BigEndian.Uint16(l[:]))
		raw = make([]byte, prefix)
		if _, rerr := io.ReadFull(c, raw); rerr != nil {
			return nil, prefix, "short frame"
		}

		return raw, prefix, ""
	}

	type e2eCase struct {
		t          string
		adv        int // -1: no OPT
		target     int
		compressed bool
		// answersOnly: every record of the response goes to the answer section
		// (the deterministic replay of dnscrypt-tcp-truncated-with-answers)
		answersOnly bool
	}
	var cases []e2eCase
	if full {
		cases = append(cases, e2eCase{"dct", -1, 65520, true, true}, e2eCase{"dct", 1232, 65500, true, true})
	}
	for _, adv := range []int{-1, 0, 512, 600, 1232, 4096} {
		lim := max(512, min(adv, int(cfg)))
		ds := []int{-70, -66, -65, -64, -63, -62, -30, -1, 0, 1, 40, 700}
		if !full {
			ds = []int{-65, -64, -1, 0, 1, 40, 700, 2500}
		}
		for _, d := range ds {
			for _, comp := range []bool{false, true} {
				cases = append(cases, e2eCase{t: "dcu", adv: adv, target: lim + d, compressed: comp})
			}
		}
		cases = append(cases, e2eCase{t: "dcu", adv: adv, target: 100, compressed: true}, e2eCase{t: "dct", adv: adv, target: 100 + rng.IntN(3000)})
	}
	for _, target := range []int{65300, 65460, 65469, 65470, 65471, 65472, 65473, 65500, 65534, 65535, 65536, 65600} {
		if !full {
			// DNSCrypt/TCP does not look at the configured UDP maximum: one probe
			break
		}
		for _, adv := range []int{-1, 1232} {
			cases = append(cases, e2eCase{t: "dct", adv: adv, target: target})
		}
	}
	extra := 40
	if x.o.Thorough() {
		extra = 600
	}
	if !full {
		extra /= 4
		cases = append(cases, e2eCase{t: "dct", adv: 4096, target: 9000})
	}
	for i := 0; i < extra; i++ {
		adv := []int{-1, 0, 512, 1232, 1452, 4096}[rng.IntN(6)]
		if rng.IntN(4) == 0 {
			cases = append(cases, e2eCase{t: "dct", adv: adv, target: []int{200, 3000, 65400, 65471, 65480, 65520}[rng.IntN(6)] + rng.IntN(30), compressed: rng.IntN(2) == 0})
		} else {
			cases = append(cases, e2eCase{t: "dcu", adv: adv, target: max(60, max(512, min(adv, int(cfg)))-64+rng.IntN(140)-70), compressed: rng.IntN(2) == 0})
		}
	}

	var lines, visLines []string
	var reals, visReals []string
	x.e2e = true
	defer func() { x.e2e = false }()
	for i, ec := range cases {
		req := &dns.Msg{}
		req.SetQuestion(qnames[rng.IntN(2)], dns.TypeTXT)
		req.Id = uint16(1 + rng.IntN(65000))
		if ec.adv >= 0 {
			o := &dns.OPT{Hdr: dns.RR_Header{Name: ".", Rrtype: dns.TypeOPT}}
			o.SetUDPSize(uint16(ec.adv))
			switch rng.IntN(6) {
			case 0:
				o.Option = append(o.Option, &dns.EDNS0_PADDING{Padding: make([]byte, 5)})
			case 1:
				o.Option = append(o.Option, &dns.EDNS0_NSID{Code: dns.EDNS0NSID, Nsid: strings.Repeat("ab", []int{0, 10, 300}[rng.IntN(3)])})
			case 2:
				o.SetDo()
			}
			req.Extra = append(req.Extra, o)
		}
		var own *dns.OPT
		if rng.IntN(4) == 0 {
			own = genOwnOPT(rng)
		}
		resp := genResp(rng, req, own, ec.target, ec.compressed)
		if resp.IsTsig() != nil {
			resp.Extra = resp.Extra[:len(resp.Extra)-1]
		}
		if ec.answersOnly {
			resp.Truncated = false
			resp.Answer = append(append(resp.Answer, resp.Ns...), noOPT(resp.Extra)...)
			resp.Ns = nil
			if o := resp.IsEdns0(); o != nil {
				resp.Extra = []dns.RR{o}
			} else {
				resp.Extra = nil
			}
		}
		reqWire, perr := req.Pack()
		if perr != nil {
			continue
		}
		reqSeen := &dns.Msg{}
		_ = reqSeen.Unpack(reqWire)
		reqOpt := viewOpt(reqSeen.IsEdns0())
		resp.Question, resp.Response = reqSeen.Question, true
		hOpt := viewOpt(resp.IsEdns0())
		hOPTs := countOPT(resp.Extra)
		nAns, nNs, nExtra := len(resp.Answer), len(resp.Ns), len(noOPT(resp.Extra))
		c := tcase{t: ec.t, cfgMax: cfg, req: req, resp: resp, tag: fmt.Sprintf("dnscrypt-e2e/cfg=%d#%d/%s/adv=%d/target=%d/c=%v", cfg, i, ec.t, ec.adv, ec.target, ec.compressed)}
		lim := x.limit(c, reqOpt)
		// What AdGuard DNS hands to the library, uncompressed: the real normalize
		// on a copy (the library looks at that length first and, when it fits,
		// sends the message without compression).
		handedUnc := -1
		if ec.t == "dcu" {
			cp := resp.Copy()
			dnsserver.VerifC08Normalize(dnsserver.NetworkUDP, dnsserver.ProtoDNSCrypt, reqSeen, cp, cfg)
			cp.Compress = false
			handedUnc = cp.Len()
		}
		x.sv.cur, x.sv.writeErr, x.sv.mode, x.sv.called = resp, nil, "wrote", false
		raw, prefix, note := exchange(ec.t, reqWire)
		// resp is the object the library packed: its final state tells how long
		// the DNS message was that went into the envelope.
		final, ferr := resp.Pack()
		canon := fmt.Sprintf("%s/e2e cfg=%d adv=%d req[%s] resp[a=%d n=%d e=%d opt=%s] target=%d/%v lim=%d", ec.t, cfg, ec.adv, reqLine(reqOpt), nAns, nNs, nExtra, hOpt.String(), ec.target, ec.compressed, lim)
		r.Count("dnscrypt-e2e." + ec.t)
		r.Evaluations++
		rp := x.replay(c, "", reqOpt, hOpt)
		rp["case"] = canon
		if ferr != nil {
			r.Count("dnscrypt-e2e.final-message-does-not-pack")

			continue
		}
		adv := 0
		if reqOpt.Present {
			adv = int(reqOpt.Size)
		}
		lines = append(lines, fmt.Sprintf("dcenv %s %d %d", b2s(ec.t == "dcu"), adv, len(final)))
		wantEnc := 48 + max(256, (len(final)+1)/64*64+64)
		if (len(final)+1)%64 == 0 {
			wantEnc = 48 + max(256, len(final)+1+64)
		}
		frameOK := ec.t == "dcu" || wantEnc < 65536
		reals = append(reals, fmt.Sprintf("%d %d %d %s", max(512*b2i(ec.t == "dcu")+65535*b2i(ec.t != "dcu"), adv*b2i(ec.t == "dcu"))-64, wantEnc, wantEnc%65536, b2s(wantEnc < 65536)))
		if raw == nil {
			if ec.t == "dcu" && wantEnc > 65507 {
				r.Count("dnscrypt-e2e.datagram-too-large-for-udp")

				continue
			}
			r.Violate("dnscrypt-no-response", fmt.Sprintf("%s: the handler wrote a response but the client got nothing (%s)", ec.t, note), rp)

			continue
		}
		if ec.t == "dct" && prefix != wantEnc {
			if !frameOK && prefix == wantEnc%65536 {
				r.Violate("dnscrypt-tcp-frame-length-wraps", fmt.Sprintf("dnscrypt/tcp: a %d-byte DNS message is encrypted to %d bytes and framed with length prefix %d", len(final), wantEnc, prefix), rp)
			} else {
				r.Violate("bad-framing", fmt.Sprintf("dnscrypt/tcp: length prefix %d for an encrypted response of %d bytes", prefix, wantEnc), rp)
			}

			continue
		}
		if len(raw) != wantEnc {
			r.Disagree("dnscrypt-envelope-length", fmt.Sprintf("%s: encrypted response is %d bytes, 48 + padded(%d) = %d", ec.t, len(raw), len(final), wantEnc), map[string]any{"case": canon})
		}
		dr := dnscrypt.EncryptedResponse{EsVersion: ri.ResolverCert.EsVersion}
		plain, derr := dr.Decrypt(raw, ri.SharedKey)
		if derr != nil {
			r.Violate("unparsable-response", fmt.Sprintf("%s: the client cannot decrypt the response: %v", ec.t, derr), rp)

			continue
		}
		if !bytes.Equal(plain, final) {
			r.Disagree("wire-vs-message", fmt.Sprintf("%s/e2e: decrypted message (%d bytes) differs from the final message object (%d bytes)", ec.t, len(plain), len(final)), map[string]any{"case": canon})
		}
		if handedUnc >= 0 {
			visLines = append(visLines, fmt.Sprintf("dcvis %s %d %d %d", x.legacy, adv, cfg, handedUnc))
			if resp.Compress {
				visReals = append(visReals, "cut")
			} else {
				// Len() is an upper bound of what Pack produces (library contract)
				visReals = append(visReals, fmt.Sprintf("plain %d", handedUnc))
				if len(plain) > handedUnc {
					r.Disagree("library-contract", fmt.Sprintf("dcu/e2e: %d bytes packed without compression, uncompressed Len() %d", len(plain), handedUnc), map[string]any{"case": canon})
				}
				r.Count("dnscrypt-e2e.sent-uncompressed")
			}
		}
		libLimit := max(512, adv) - 64
		if ec.t == "dct" {
			libLimit = 65535 - 64
		}
		switch n := len(plain) - max(512, libLimit); {
		case n == 0:
			r.Count("dnscrypt-e2e.exactly-at-library-limit")
		case n > 0:
			r.Count("dnscrypt-e2e.over-library-limit")
		case n >= -16:
			r.Count("dnscrypt-e2e.within-16-below-library-limit")
		}
		if os.Getenv("C08_DEBUG") != "" && len(plain) > lim && ec.t == "dcu" {
			w := &dns.Msg{}
			_ = w.Unpack(plain)
			fmt.Fprintf(os.Stderr, "OVER %s plain=%d lim=%d\n%s\n", canon, len(plain), lim, clip(w.String(), 600))
			for _, rr := range w.Extra {
				fmt.Fprintf(os.Stderr, "  extra %T len=%d\n", rr, dns.Len(rr))
			}
		}
		if ec.answersOnly && os.Getenv("C08_DEBUG") != "" {
			fmt.Fprintf(os.Stderr, "answersOnly: nAns=%d final=%d plain=%d\n", nAns, len(final), len(plain))
		}
		x.curTsigExempt, x.curHandlerOPTs, x.curFits = false, hOPTs, -1
		x.oracle(c, driven{wire: plain, emitted: true}, reqOpt, hOpt, nAns, nNs, nExtra, lim, canon, "")
		w := &dns.Msg{}
		if w.Unpack(plain) == nil {
			if w.Truncated {
				r.Count("dnscrypt-e2e.truncated")
			}
			r.Case(canon, w.Truncated || len(w.Extra) > 0)
		}
	}
	x.m.ResetLog()
	for i, a := range x.m.Batch(lines) {
		r.ModelOps++
		if a != reals[i] {
			r.Disagree("dnscrypt-envelope-model", fmt.Sprintf("%s: model %q, real %q", lines[i], a, reals[i]), lines[i])
		} else {
			r.Traces++
		}
	}
	for i, a := range x.m.Batch(visLines) {
		r.ModelOps++
		if a != visReals[i] {
			r.Disagree("dnscrypt-visible-model", fmt.Sprintf("%s: model %q, real %q", visLines[i], a, visReals[i]), visLines[i])
		} else {
			r.Traces++
		}
	}
}

func b2i(b bool) int {
	if b {
		return 1
	}

	return 0
}

func main() {
	o := hlib.ParseFlags()
	r := hlib.NewResult("C08", o)
	r.Rule = "each case = (transport, configured UDP cap, idle timeout, request with/without OPT and options, handler response " +
		"built to land on a chosen compressed or uncompressed size around the limit); the request bytes go through the real " +
		"serving code of that transport (fake connection), the bytes written are parsed and checked against the property " +
		"(size bound, TC/answers, OPT echo, padding, keep-alive) and the final message is compared field by field with the " +
		"Lean model fed with the library's own incremental lengths; non-trivial = records dropped, OPT present or response refused; " +
		"distinct = distinct canonical case texts (random padding length excluded)"
	m := hlib.StartModel(o.Model, "C08")
	defer m.Close()
	x := &runner{o: o, r: r, m: m, sv: &servers{cache: map[string]any{}, cloner: dnsmsg.NewCloner(dnsmsg.EmptyClonerStat{})}, legacy: "0"}
	if os.Getenv("C08_LEGACY") == "1" {
		x.legacy = "1"
	}

	x.sizeGrid()
	x.packGuard()
	x.wiringCampaign()
	x.findings()
	x.serverMade()
	x.boundaryCampaign()
	x.dnscryptE2E()
	x.writeFaults()
	n := 6000
	if o.Thorough() {
		n = 60000
		x.exhaustiveGrid()
	}
	x.randomCampaign(n)
	for i := 0; i < x.sv.sharedSection; i++ {
		r.Count("resp.extra-section-is-the-requests")
	}

	r.Finish()
}
