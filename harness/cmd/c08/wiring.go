//go:build !c08legacy

package main

// Production wiring campaign: the configured maxima do not reach the write
// paths by themselves.  The value travels
//
//	YAML dns.max_udp_response_size / dns.tcp_idle_timeout
//	  -> cmd.dnsConfig (validate) -> cmd.servers.toInternal -> agd.Server
//	  -> dnssvc.NewListener -> dnsserver.Config{DNS,TLS,DNSCrypt,…}
//	  -> udpResponseWriter / tcpResponseWriter / dnsCryptHandler -> normalize
//
// and every arrow is a place where a unit, a field or a whole protocol can be
// lost.  This campaign edits the distributed example configuration as TEXT,
// runs the repository's own parser, validator and converters on it, builds
// every server of every group with dnssvc.NewListener, and then drives the
// usual cases through those servers.  The oracle knows the configured number
// of bytes only from the table below (text -> bytes, written by hand).

import (
	"context"
	"fmt"
	"io"
	"log/slog"
	"os"
	"path/filepath"
	"regexp"
	"strings"

	"github.com/AdguardTeam/AdGuardDNS/internal/agd"
	"github.com/AdguardTeam/AdGuardDNS/internal/cmd"
	"github.com/AdguardTeam/AdGuardDNS/internal/dnsserver"
	"github.com/AdguardTeam/AdGuardDNS/internal/dnssvc"
	"github.com/miekg/dns"
)

type wiredSize struct {
	text  string
	bytes int
	// ok: a start-up validation has to accept it (1..65535 bytes).
	ok bool
}

type wiredIdle struct {
	text string
	ms   int
	// ok: 0 < t <= 6553.5 s (RFC 7828: 16 bits of 100 ms).
	ok bool
}

var wiredSizes = []wiredSize{
	{"1024B", 1024, true}, {"512B", 512, true}, {"1232B", 1232, true}, {"1KB", 1024, true}, {"4KB", 4096, true},
	{"600B", 600, true}, {"1B", 1, true}, {"65535B", 65535, true}, {"63KB", 64512, true}, {"2000", 2000, true},
	{"0B", 0, false}, {"64KB", 65536, false}, {"65536B", 65536, false}, {"1MB", 1048576, false},
}

var wiredIdles = []wiredIdle{
	{"30s", 30000, true}, {"1s", 1000, true}, {"100ms", 100, true}, {"1m", 60000, true}, {"1h49m13.5s", 6553500, true},
	{"50ms", 50, true}, {"2500ms", 2500, true},
	{"0s", 0, false}, {"2h", 7200000, false},
}

var (
	reSize = regexp.MustCompile(`(?m)^(\s*max_udp_response_size:).*$`)
	reIdle = regexp.MustCompile(`(?m)^(\s*tcp_idle_timeout:).*$`)
)

const wiredDNSCryptYAML = `provider_name: '2.dnscrypt-cert.example.org'
public_key: 'F11DDBCC4817E543845FDDD4CB881849B64226F3DE397625669D87B919BC4FB0'
private_key: '5752095FFA56D963569951AFE70FE1690F378D13D8AD6F8054DFAA100907F8B6F11DDBCC4817E543845FDDD4CB881849B64226F3DE397625669D87B919BC4FB0'
resolver_secret: '9E46E79FEB3AB3D45F4EB3EA957DEAF5D9639A0179F1850AFABA7E58F87C74C4'
resolver_public: '9327C5E64783E19C339BD6B680A56DB85521CC6E4E0CA5DF5274E2D3CE026C6B'
es_version: 1
certificate_ttl: 8760h
`

// wiredBuild runs the repository's parser, validator and converters on text and
// builds one unstarted server per configured server.  built maps a transport to
// the servers that speak it.
func (x *runner) wiredBuild(text string) (built map[string][]any, names map[string][]string, rejected string, err error) {
	v, err := cmd.VerifC20Parse([]byte(text))
	if err != nil {
		return nil, nil, "", fmt.Errorf("parse: %w", err)
	}
	if verr := v.VerifC20Validate(); verr != nil {
		return nil, nil, verr.Error(), nil
	}
	discard := slog.New(slog.NewTextHandler(io.Discard, nil))
	grps, stage, err := v.VerifC20ServerGroups(context.Background(), discard, []string{"adguard_dns_filter"})
	if err != nil {
		return nil, nil, "", fmt.Errorf("converting %s: %w", stage, err)
	}
	built, names = map[string][]any{}, map[string][]string{}
	add := func(t string, s any, name agd.ServerName) {
		built[t] = append(built[t], s)
		names[t] = append(names[t], string(name))
	}
	for _, g := range grps {
		for _, srv := range g.Servers {
			base := dnsserver.ConfigBase{Name: "c08-" + string(srv.Name), Addr: "127.0.0.1:0", Handler: x.sv.handler(),
				Network: dnsserver.NetworkAny}
			l, lerr := dnssvc.NewListener(srv, base, nil)
			if lerr != nil {
				return nil, nil, "", fmt.Errorf("server %s: %w", srv.Name, lerr)
			}
			switch s := l.(type) {
			case *dnsserver.ServerTLS:
				add("dot", s, srv.Name)
			case *dnsserver.ServerDNS:
				add("udp", s, srv.Name)
				add("tcp", s, srv.Name)
			case *dnsserver.ServerHTTPS:
				add("doh", s, srv.Name)
			case *dnsserver.ServerQUIC:
				add("doq", s, srv.Name)
			case *dnsserver.ServerDNSCrypt:
				add("dcu", s, srv.Name)
				add("dct", s, srv.Name)
			default:
				return nil, nil, "", fmt.Errorf("server %s: listener of type %T", srv.Name, l)
			}
		}
	}

	return built, names, "", nil
}

func (x *runner) wiringCampaign() {
	r := x.r
	rng := x.o.Rand("wiring")
	data, err := os.ReadFile(filepath.Join(cmd.VerifC20RepoRoot(), "config.dist.yaml"))
	if err != nil {
		r.Disagree("wiring-setup", err.Error(), nil)

		return
	}
	dir, err := os.MkdirTemp("", "c08-wiring-*")
	if err != nil {
		r.Disagree("wiring-setup", err.Error(), nil)

		return
	}
	defer func() { _ = os.RemoveAll(dir) }()
	dcPath := filepath.Join(dir, "dnscrypt.yml")
	if err = os.WriteFile(dcPath, []byte(wiredDNSCryptYAML), 0o600); err != nil {
		r.Disagree("wiring-setup", err.Error(), nil)

		return
	}
	base := string(data)
	// The two environment-dependent strings of the example: the network
	// interface of the interface listeners and the DNSCrypt file.
	base = strings.ReplaceAll(base, "interface: 'eth0'", "interface: 'lo'")
	base = strings.ReplaceAll(base, "config_path: ./test/dnscrypt.yml", "config_path: "+dcPath)
	if len(reSize.FindAllString(base, -1)) != 1 || len(reIdle.FindAllString(base, -1)) != 1 {
		r.Disagree("wiring-setup", "config.dist.yaml: dns.max_udp_response_size / dns.tcp_idle_timeout not found exactly once", nil)

		return
	}

	type combo struct {
		sz wiredSize
		id wiredIdle
	}
	var combos []combo
	for i, sz := range wiredSizes {
		combos = append(combos, combo{sz, wiredIdles[i%7]})
	}
	for _, id := range wiredIdles[7:] {
		combos = append(combos, combo{wiredSizes[0], id})
	}
	if x.o.Thorough() {
		for _, sz := range wiredSizes[:10] {
			for _, id := range wiredIdles[:7] {
				combos = append(combos, combo{sz, id})
			}
		}
	}
	perT := 6
	if x.o.Thorough() {
		perT = 10
	}
	for _, cb := range combos {
		text := reSize.ReplaceAllString(base, "${1} "+cb.sz.text)
		text = reIdle.ReplaceAllString(text, "${1} "+cb.id.text)
		label := fmt.Sprintf("max_udp_response_size=%s tcp_idle_timeout=%s", cb.sz.text, cb.id.text)
		built, names, rejected, berr := x.wiredBuild(text)
		r.Evaluations++
		wantOK := cb.sz.ok && cb.id.ok
		switch {
		case berr != nil:
			r.Disagree("wiring-build", label+": "+berr.Error(), label)

			continue
		case rejected != "" && wantOK:
			r.Disagree("wiring-rejected", label+": a representable configuration was refused: "+rejected, label)

			continue
		case rejected != "":
			r.Count("wiring.rejected-as-it-must")
			r.Case("wiring rejected "+label, true)

			continue
		case !wantOK:
			// The value cannot be represented in the 16 bits the servers keep it
			// in (or is not positive); had it been accepted, the servers would
			// work with something else than what the file says.
			r.Violate("wiring-unrepresentable-accepted", label+": accepted by the start-up validation", label)

			continue
		}
		r.Count("wiring.accepted")
		if cb.sz.text == "1024B" && cb.id.text == "30s" && len(built["dcu"]) > 0 {
			// Deterministic replay of the recorded finding on the distributed
			// example itself: DNSCrypt/UDP, client advertises 4096 bytes, the
			// handler answers with about 3000 bytes.
			for si, s := range built["dcu"] {
				x.sv.override = map[string]any{"dcu": s}
				req := &dns.Msg{}
				req.SetQuestion("example.org.", dns.TypeTXT)
				req.SetEdns0(4096, false)
				x.run(tcase{t: "dcu", cfgMax: 1024, idleMs: 30000, req: req, resp: genResp(rng, req, nil, 3000, false), wired: true,
					tag: "finding/dnscrypt-configured-max/config.dist.yaml/" + names["dcu"][si]})
				x.sv.override = nil
			}
		}
		for _, t := range transports {
			if len(built[t]) == 0 {
				r.Disagree("wiring-build", label+": the example configuration has no server for "+t, label)

				continue
			}
			for si, s := range built[t] {
				x.sv.override = map[string]any{t: s}
				for k := 0; k < perT; k++ {
					req := &dns.Msg{}
					req.SetQuestion(qnames[rng.IntN(2)], dns.TypeTXT)
					if t == "doq" {
						req.Id = 0
					}
					adv := []int{-1, 512, 1232, 4096, 65535, cb.sz.bytes + 1, cb.sz.bytes + 700}[k%7]
					if adv > 65535 {
						adv = 65535
					}
					if adv >= 0 {
						o := &dns.OPT{Hdr: dns.RR_Header{Name: ".", Rrtype: dns.TypeOPT}}
						o.SetUDPSize(uint16(adv))
						if k%2 == 0 {
							o.Option = append(o.Option, &dns.EDNS0_PADDING{Padding: make([]byte, 3)})
						}
						if k%3 != 0 && t != "doq" {
							o.Option = append(o.Option, &dns.EDNS0_TCP_KEEPALIVE{Code: dns.EDNS0TCPKEEPALIVE})
						}
						req.Extra = append(req.Extra, o)
					}
					lim := x.limitFor(t, uint16(cb.sz.bytes), req)
					target := lim + []int{-1, 0, 1, 300, -200, 3000}[rng.IntN(6)]
					if !isUDP(t) && rng.IntN(3) != 0 {
						// most stream cases stay small: the point is the OPT / keep-alive wiring
						target = 200 + rng.IntN(3000)
					}
					var own *dns.OPT
					if k%5 == 4 && adv >= 0 {
						own = genOwnOPT(rng)
					}
					resp := genResp(rng, req, own, max(40, target), rng.IntN(2) == 0)
					r.Count("gen.wiring." + t)
					doh := ""
					if t == "doh" {
						doh = []string{"", "get", "h3"}[k%3]
					}
					x.run(tcase{t: t, cfgMax: uint16(cb.sz.bytes), idleMs: cb.id.ms, req: req, resp: resp, wired: true, doh: doh,
						tag: fmt.Sprintf("wiring/%s/%s#%d/%s/adv=%d", label, names[t][si], k, t, adv)})
				}
				x.sv.override = nil
			}
		}
		x.flush()
	}
}
