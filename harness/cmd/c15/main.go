// Command c15 is the correspondence harness and property oracle for C15
// (query logging: only opted-in profiles, one intact record per line).
package main

import (
	"bytes"
	"context"
	"encoding/hex"
	"encoding/json"
	"errors"
	"fmt"
	"math/rand/v2"
	"net"
	"net/netip"
	"net/url"
	"os"
	"path/filepath"
	"runtime"
	"sort"
	"strings"
	"sync"
	"time"

	"github.com/AdguardTeam/AdGuardDNS/internal/access"
	"github.com/AdguardTeam/AdGuardDNS/internal/agd"
	"github.com/AdguardTeam/AdGuardDNS/internal/agdnet"
	"github.com/AdguardTeam/AdGuardDNS/internal/agdpasswd"
	"github.com/AdguardTeam/AdGuardDNS/internal/agdtest"
	"github.com/AdguardTeam/AdGuardDNS/internal/dnsmsg"
	"github.com/AdguardTeam/AdGuardDNS/internal/dnsserver"
	"github.com/AdguardTeam/AdGuardDNS/internal/dnssvc"
	"github.com/AdguardTeam/AdGuardDNS/internal/filter"
	"github.com/AdguardTeam/AdGuardDNS/internal/geoip"
	"github.com/AdguardTeam/AdGuardDNS/internal/profiledb"
	"github.com/AdguardTeam/AdGuardDNS/internal/querylog"
	"github.com/AdguardTeam/AdGuardDNS/verifh/hlib"
	"github.com/AdguardTeam/AdGuardDNS/verifh/hlib/stack"
	"github.com/AdguardTeam/golibs/logutil/slogutil"
	"github.com/miekg/dns"
)

var tmpDir string

func main() {
	o := hlib.ParseFlags()
	r := hlib.NewResult("C15", o)
	r.Rule = "round 4 adds: full (write(2) failing with ENOSPC after the record was encoded, via a symbolic link flipping between /dev/full and a regular file under concurrent writers) and wired (the real cmd builder up to initDNS on generated YAML + environment: query-log file switch, QUERYLOG_PATH, several server groups with and without profiles, device-ID wildcards, linked addresses, protocols, access, cache; requests through dnssvc.Service.Handle; response, bill and the exact appended bytes vs the model). round 3: upstream/rewritten responses carry RCODEs 0..4095 (extended ones with an OPT record) and, rarely, values beyond " +
		"the wire format; answer sections are lists of A/AAAA/HTTPS(hints)/other records incl. nil and malformed addresses; echoed " +
		"question names in another case; ASNs up to 2^32-1; qclass HS/ANY/NONE/0; DO bit; filtering off per profile/device; rot: the " +
		"log directory is missing, then renamed away and back under concurrent writers. esc: byte strings (controls, quotes, <>&, U+2028/9, every kind of invalid UTF-8) through encoding/json " +
		"and the model escaper; fs: random querylog.Entry values through the real FileSystem.Write and the model's " +
		"encodeLine, byte for byte, plus a JSON/field oracle per line; conc: 8-64 goroutines appending to one file, " +
		"file compared with the model run on a schedule with the observed append order; stack: requests through " +
		"dnssvc.NewHandlers with scripted device result/access/limiter/filter/upstream/failures and the real " +
		"FileSystem log, effects compared with the model's serve and checked by the privacy oracle; a case is " +
		"non-trivial when it has an escape-worthy string, an optional field, a non-default path or a profile; prov: the profiles " +
		"are not built by hand but reach the stack the way production gets them — DNSProfile messages (all four query-log/IP-log " +
		"combinations, every other boolean drawn independently, deleted profiles, linked and dedicated addresses, IDs with JSON-" +
		"special characters) from an in-process gRPC backend through backendpb.ProfileStorage into a real profiledb.Default, its " +
		"cache file, a database restarted from that file, an incremental or second full synchronisation with changed switches and " +
		"another restart; every request is judged by the switches of the backend's latest message"
	m := hlib.StartModel(o.Model, "C15")
	defer m.Close()

	var err error
	tmpDir, err = os.MkdirTemp("", "agdverif-c15-")
	hlib.Must(err)
	defer func() { _ = os.RemoveAll(tmpDir) }()

	// VERIF_C15_ONLY=<campaign> runs one campaign (a debugging aid).
	only := os.Getenv("VERIF_C15_ONLY")
	for _, c := range []struct {
		name string
		f    func(*hlib.Opts, *hlib.Result, *hlib.Model)
	}{{"esc", escCampaign}, {"fs", fsCampaign}, {"conc", concCampaign}, {"rot", rotCampaign}, {"full", fullCampaign},
		{"stack", stackCampaign}, {"cstack", cstackCampaign}, {"prov", provCampaign}, {"wired", wiredCampaign}} {
		if only == "" || only == c.name {
			c.f(o, r, m)
		}
	}

	r.ModelOps = len(m.Log)
	r.Finish()
}

// ---------------------------------------------------------------------------
// helpers

func hx(s string) string { return "x" + hex.EncodeToString([]byte(s)) }

func unhx(s string) []byte {
	b, err := hex.DecodeString(strings.TrimPrefix(s, "x"))
	if err != nil {
		return []byte("UNHEX-ERROR:" + s)
	}

	return b
}

func b2s(b bool) string {
	if b {
		return "1"
	}

	return "0"
}

// pieces are the building blocks of hostile strings.
var pieces = []string{
	"a", "example", ".", "com", "||", "^", "$dnsrewrite=", " ", "/", "'", "=", ":", ",", "{", "}", "[", "]",
	"\"", "\\", "\\\"", "\\n", "\\u0041", "<", ">", "&", "<script>", "\n", "\r", "\r\n", "\t", "\b", "\f",
	"\x00", "\x01", "\x1f", "\x7f", "\x0b", "\x1b",
	"\u00e9", "\u20ac", "\U0001f600", "\u2028", "\u2029", "\ufffd", "\u007f", "\u0080", "\u07ff", "\u0800", "\uffff",
	"\U00010000", "\U0010ffff", "\ud7ff", "\ue000",
	"\x80", "\xbf", "\xc0", "\xc1", "\xf5", "\xff", "\xe2", "\xe2\x80", "\xf0\x9f", "\xf0\x9f\x98",
	"\xed\xa0\x80", "\xed\xbf\xbf", "\xc0\xaf", "\xe0\x80\xaf", "\xe0\x9f\xbf", "\xf0\x80\x80\x80",
	"\xf0\x8f\xbf\xbf", "\xf4\x90\x80\x80", "\xf4\x8f\xbf\xbf", "\xc2", "\xdf\xbf", "\xe2\x80\xa7", "\xe2\x80\xaa",
	"\xe2\x81\xa8", "\xe1\x80\xa8", "\"}\n{\"u\":\"forged\"", "\",\"ip\":\"6.6.6.6",
}

func genStr(rng *rand.Rand, maxPieces int) string {
	switch rng.IntN(10) {
	case 0:
		return ""
	case 1, 2, 3:
		// Plain.
		n := 1 + rng.IntN(maxPieces)
		var sb strings.Builder
		for i := 0; i < n; i++ {
			sb.WriteString(pieces[rng.IntN(10)])
		}

		return sb.String()
	case 4:
		// Random bytes.
		n := rng.IntN(maxPieces + 1)
		b := make([]byte, n)
		for i := range b {
			b[i] = byte(rng.IntN(256))
		}

		return string(b)
	default:
		n := 1 + rng.IntN(maxPieces)
		var sb strings.Builder
		for i := 0; i < n; i++ {
			sb.WriteString(pieces[rng.IntN(len(pieces))])
		}

		return sb.String()
	}
}

// goValid is what a JSON decoder gives back for a Go string written by
// encoding/json: every invalid byte becomes U+FFFD.
func goValid(s string) string { return string([]rune(s)) }

func needsEscape(s string) bool {
	for i := 0; i < len(s); i++ {
		c := s[i]
		if c < 0x20 || c >= 0x80 || c == '"' || c == '\\' || c == '<' || c == '>' || c == '&' {
			return true
		}
	}

	return false
}

// ---------------------------------------------------------------------------
// esc campaign: encoding/json's string encoder vs the model's esc.

func jsonStr(s string) []byte {
	var buf bytes.Buffer
	hlib.Must(json.NewEncoder(&buf).Encode(s))
	b := buf.Bytes()

	return b[1 : len(b)-2]
}

func escCampaign(o *hlib.Opts, r *hlib.Result, m *hlib.Model) {
	rng := o.Rand("esc")
	var inputs []string
	// All one-byte strings and a boundary-heavy set of two-byte ones.
	for b := 0; b < 256; b++ {
		inputs = append(inputs, string([]byte{byte(b)}))
	}
	lead := []byte{0x00, 0x0a, 0x22, 0x41, 0x5c, 0x7f, 0x80, 0xbf, 0xc0, 0xc1, 0xc2, 0xdf, 0xe0, 0xe1, 0xe2, 0xec, 0xed,
		0xee, 0xef, 0xf0, 0xf1, 0xf3, 0xf4, 0xf5, 0xff}
	trail := []byte{0x00, 0x0a, 0x41, 0x7f, 0x80, 0x8f, 0x90, 0x9f, 0xa0, 0xa8, 0xa9, 0xbf, 0xc0, 0xff}
	if o.Thorough() {
		lead, trail = nil, nil
		for b := 0; b < 256; b++ {
			lead = append(lead, byte(b))
			trail = append(trail, byte(b))
		}
	}
	for _, a := range lead {
		for _, b := range trail {
			inputs = append(inputs, string([]byte{a, b}))
		}
	}
	// Three- and four-byte sequences on the boundary grid.
	grid := []byte{0x0a, 0x41, 0x7f, 0x80, 0x8f, 0x90, 0x9f, 0xa0, 0xa8, 0xa9, 0xbf, 0xc0}
	for _, a := range []byte{0xe0, 0xe1, 0xe2, 0xed, 0xee, 0xef, 0xf0, 0xf1, 0xf4, 0xf5} {
		for _, b := range grid {
			for _, c := range grid {
				inputs = append(inputs, string([]byte{a, b, c}), string([]byte{a, b, c, 0x41}))
				if a >= 0xf0 && (o.Thorough() || rng.IntN(4) == 0) {
					for _, d := range grid {
						inputs = append(inputs, string([]byte{a, b, c, d}))
					}
				}
			}
		}
	}
	n := 3000
	if o.Thorough() {
		n = 40000
	}
	for i := 0; i < n; i++ {
		inputs = append(inputs, genStr(rng, 1+rng.IntN(12)))
	}
	lines := make([]string, len(inputs))
	for i, s := range inputs {
		lines[i] = "esc " + hx(s)
	}
	answers := m.Batch(lines)
	for i, s := range inputs {
		want := jsonStr(s)
		// Oracle on the real encoder: no raw control byte, valid UTF-8 out,
		// and decoding gives the string back (invalid bytes as U+FFFD).
		var back string
		if err := json.Unmarshal([]byte(`"`+string(want)+`"`), &back); err != nil || back != goValid(s) ||
			bytes.ContainsAny(want, "\n\r") {
			r.Violate("json-string-not-intact", fmt.Sprintf("encoding/json string %q -> %q does not decode back (%v)", s, want, err),
				map[string]any{"campaign": "esc", "input_hex": hx(s)})
		}
		got := unhx(answers[i])
		if !bytes.Equal(got, want) {
			r.Disagree("esc", fmt.Sprintf("esc(%q): encoding/json=%q model=%q", s, want, got),
				map[string]any{"campaign": "esc", "ops": []string{lines[i]}})
		}
		ne := needsEscape(s)
		r.Case(lines[i], ne)
		if ne {
			r.Count("esc.needs_escape")
		} else {
			r.Count("esc.plain")
		}
		if !strings.ContainsRune(goValid(s), 0xfffd) || strings.Contains(s, "\ufffd") {
			r.Count("esc.valid_utf8")
		} else {
			r.Count("esc.invalid_utf8")
		}
	}
	r.Sample(map[string]any{"campaign": "esc", "ops": lines[300:303]}, 9)
}

// ---------------------------------------------------------------------------
// entries

var lists = []string{"", "adguard_dns_filter", "custom", "blocked_service", "safe_browsing", "general_safe_search"}

func genRes(rng *rand.Rand, hostile bool, req *dns.Msg) filter.Result {
	l := filter.ID(lists[rng.IntN(len(lists))])
	rule := filter.RuleText("||example.com^")
	switch rng.IntN(4) {
	case 0:
		rule = ""
	case 1:
		if hostile {
			rule = filter.RuleText(genStr(rng, 6))
			l = filter.ID(genStr(rng, 3))
		}
	}
	switch rng.IntN(8) {
	case 0, 1, 2:
		return nil
	case 3:
		return &filter.ResultAllowed{List: l, Rule: rule}
	case 4, 5:
		return &filter.ResultBlocked{List: l, Rule: rule}
	case 6:
		return &filter.ResultModifiedResponse{Msg: req, List: l, Rule: rule}
	default:
		return &filter.ResultModifiedRequest{Msg: req, List: l, Rule: rule}
	}
}

func resTokens(res filter.Result) string {
	kind := "none"
	var l filter.ID
	var t filter.RuleText
	switch v := res.(type) {
	case nil:
		return "none x x"
	case *filter.ResultAllowed:
		kind = "allowed"
		l, t = v.MatchedRule()
	case *filter.ResultBlocked:
		kind = "blocked"
		l, t = v.MatchedRule()
	case *filter.ResultModifiedResponse:
		kind = "modresp"
		l, t = v.MatchedRule()
	case *filter.ResultModifiedRequest:
		kind = "modreq"
		l, t = v.MatchedRule()
	}

	return kind + " " + hx(string(l)) + " " + hx(string(t))
}

// docCode is the result code of doc/querylog.md, written from the document.
func docCode(req, resp filter.Result) (code int, list, rule string) {
	rl := func(x filter.Result) (string, string) {
		l, t := x.MatchedRule()

		return string(l), string(t)
	}
	switch req.(type) {
	case *filter.ResultBlocked:
		list, rule = rl(req)

		return 2, list, rule
	case *filter.ResultAllowed:
		list, rule = rl(req)

		return 4, list, rule
	case *filter.ResultModifiedResponse, *filter.ResultModifiedRequest:
		list, rule = rl(req)

		return 6, list, rule
	}
	switch resp.(type) {
	case *filter.ResultBlocked:
		list, rule = rl(resp)

		return 3, list, rule
	case *filter.ResultAllowed:
		list, rule = rl(resp)

		return 5, list, rule
	case *filter.ResultModifiedResponse, *filter.ResultModifiedRequest:
		list, rule = rl(resp)

		return 6, list, rule
	}

	return 1, "", ""
}

var ipPool = []string{"1.2.3.4", "0.0.0.0", "255.255.255.255", "10.0.0.1", "2001:db8::1", "::", "::1",
	"::ffff:1.2.3.4", "fe80::1%eth0", "2001:db8:ffff:ffff:ffff:ffff:ffff:ffff"}

func ridOf(i int) (id agd.RequestID) {
	copy(id[:], fmt.Sprintf("req-%012d", i))

	return id
}

func genEntry(rng *rand.Rand, idx int, hostile bool) *querylog.Entry {
	str := func(plain string) string {
		if hostile && rng.IntN(3) == 0 {
			return genStr(rng, 5)
		}

		return plain
	}
	e := &querylog.Entry{
		RequestResult:  genRes(rng, hostile, nil),
		ResponseResult: genRes(rng, hostile, nil),
		RequestID:      ridOf(idx),
		ProfileID:      agd.ProfileID(str("prof1234")),
		DeviceID:       agd.DeviceID(str("dev1234")),
		DomainFQDN:     str("example.com."),
		RequestType:    []uint16{1, 28, 16, 65, 255, 0, 65535}[rng.IntN(7)],
		ResponseCode:   []uint16{0, 2, 3, 5, 15, 16, 23, 0xff, 256, 4095, 65535}[rng.IntN(11)],
		Protocol:       []agd.Protocol{agd.ProtoDNS, agd.ProtoDoH, agd.ProtoDoQ, agd.ProtoDoT, agd.ProtoDNSCrypt, 0}[rng.IntN(6)],
		DNSSEC:         rng.IntN(2) == 0,
	}
	if rng.IntN(2) == 0 {
		e.RemoteIP = netip.MustParseAddr(ipPool[rng.IntN(len(ipPool))])
	}
	if rng.IntN(3) > 0 {
		e.ClientCountry = geoip.Country(str("RU"))
		e.ClientASN = geoip.ASN([]uint32{0, 1, 1234, 4294967295}[rng.IntN(4)])
	}
	if rng.IntN(3) > 0 {
		e.ResponseCountry = geoip.Country(str("QN"))
	}
	switch rng.IntN(6) {
	case 0:
		e.Time = time.UnixMilli(0)
	case 1:
		e.Time = time.UnixMilli(-1 - rng.Int64N(1000))
	case 2:
		e.Time = time.Unix(0, 1628590394000999999)
	default:
		e.Time = time.UnixMilli(1628590394000 + rng.Int64N(100000))
	}
	e.Elapsed = []time.Duration{0, 999 * time.Microsecond, time.Millisecond, 5 * time.Millisecond, -time.Second,
		4294967295 * time.Millisecond, 4294967296 * time.Millisecond, 1<<63 - 1, -1 << 63}[rng.IntN(9)]

	return e
}

// entryTokens renders the entry as the 20 tokens of the line protocol.
func entryTokens(e *querylog.Entry, elapsedMs int64) string {
	ip := "-"
	if e.RemoteIP != (netip.Addr{}) {
		ip = hx(e.RemoteIP.String())
	}

	return strings.Join([]string{ip, resTokens(e.RequestResult), resTokens(e.ResponseResult),
		fmt.Sprint(e.Time.UnixMilli()), hx(e.RequestID.String()), hx(string(e.ProfileID)), hx(string(e.DeviceID)),
		hx(string(e.ClientCountry)), hx(string(e.ResponseCountry)), hx(e.DomainFQDN), fmt.Sprint(elapsedMs),
		fmt.Sprint(uint32(e.ClientASN)), fmt.Sprint(e.RequestType), fmt.Sprint(e.ResponseCode), fmt.Sprint(uint8(e.Protocol)),
		b2s(e.DNSSEC)}, " ")
}

var docKeys = map[string]bool{"u": true, "b": true, "i": true, "c": true, "d": true, "n": true, "l": true, "m": true,
	"t": true, "a": true, "e": true, "q": true, "rn": true, "f": true, "s": true, "p": true, "r": true, "ip": true}

// checkLine is the line oracle: chunk must be exactly one complete JSON
// object on one line that describes e.  It returns the "rn" value.
func checkLine(r *hlib.Result, campaign string, e *querylog.Entry, chunk []byte, replay any) (rn string, ok bool) {
	bad := func(sig, what string) (string, bool) {
		r.Violate(sig, fmt.Sprintf("%s: %s; line=%q", campaign, what, truncateB(chunk, 300)), replay)

		return "", false
	}
	if len(chunk) == 0 || chunk[len(chunk)-1] != '\n' {
		return bad("line-not-terminated", "log record does not end with a line feed")
	}
	body := chunk[:len(chunk)-1]
	if bytes.ContainsAny(body, "\n\r") {
		return bad("line-raw-newline", "log record spans several lines")
	}
	dec := json.NewDecoder(bytes.NewReader(body))
	dec.UseNumber()
	var obj map[string]any
	if err := dec.Decode(&obj); err != nil {
		return bad("line-not-json", "log record is not a JSON object: "+err.Error())
	}
	if dec.More() {
		return bad("line-not-json", "trailing data after the JSON object")
	}
	for k := range obj {
		if !docKeys[k] {
			return bad("line-undocumented-key", "undocumented key "+k)
		}
	}
	str := func(k string) (string, bool) {
		v, has := obj[k]
		s, isStr := v.(string)

		return s, has && isStr
	}
	num := func(k string) (string, bool) {
		v, has := obj[k]
		n, isNum := v.(json.Number)

		return n.String(), has && isNum
	}
	wantStr := func(k, want string, omitEmpty bool) bool {
		got, has := str(k)
		if omitEmpty && want == "" {
			_, present := obj[k]

			return !present
		}

		return has && got == goValid(want)
	}
	wantNum := func(k, want string, omitZero bool) bool {
		got, has := num(k)
		if omitZero && want == "0" {
			_, present := obj[k]

			return !present
		}

		return has && got == want
	}
	code, list, rule := docCode(e.RequestResult, e.ResponseResult)
	el := e.Elapsed.Milliseconds()
	if el < 0 {
		el = 0
	} else if el > 4294967295 {
		el = 4294967295
	}
	checks := []struct {
		ok  bool
		sig string
	}{
		{wantStr("u", e.RequestID.String(), false), "entry-wrong-request-id"},
		{wantStr("b", string(e.ProfileID), false), "entry-wrong-profile"},
		{wantStr("i", string(e.DeviceID), false), "entry-wrong-device"},
		{wantStr("c", string(e.ClientCountry), true), "entry-wrong-client-country"},
		{wantStr("d", string(e.ResponseCountry), true), "entry-wrong-response-country"},
		{wantStr("n", e.DomainFQDN, false), "entry-wrong-name"},
		{wantStr("l", list, true), "entry-wrong-list"},
		{wantStr("m", rule, true), "entry-wrong-rule"},
		{wantNum("t", fmt.Sprint(e.Time.UnixMilli()), false), "entry-wrong-time"},
		{wantNum("a", fmt.Sprint(uint32(e.ClientASN)), true), "entry-wrong-asn"},
		{wantNum("e", fmt.Sprint(el), false), "entry-wrong-elapsed"},
		{wantNum("q", fmt.Sprint(e.RequestType), false), "entry-wrong-qtype"},
		{wantNum("r", fmt.Sprint(e.ResponseCode), false), "entry-wrong-rcode"},
		{wantNum("f", fmt.Sprint(code), false), "entry-wrong-result-code"},
		{wantNum("s", b2s(e.DNSSEC), false), "entry-wrong-dnssec"},
		{wantNum("p", fmt.Sprint(uint8(e.Protocol)), false), "entry-wrong-protocol"},
	}
	for _, c := range checks {
		if !c.ok {
			return bad(c.sig, "log record does not describe its request ("+c.sig+")")
		}
	}
	ip, hasIP := obj["ip"]
	if e.RemoteIP == (netip.Addr{}) {
		if hasIP {
			return bad("ip-logged-without-address", fmt.Sprintf("entry without a client address is logged with ip=%v", ip))
		}
	} else if s, _ := ip.(string); !hasIP || s != e.RemoteIP.String() {
		return bad("entry-wrong-ip", "client address is not the entry's")
	}
	rn, has := num("rn")
	if !has {
		return bad("entry-no-rn", "no rn")
	}

	return rn, true
}

func truncateB(b []byte, n int) []byte {
	if len(b) > n {
		return append(append([]byte{}, b[:n]...), "..."...)
	}

	return b
}

func newFS(name string, seed uint64) (fs *querylog.FileSystem, path string) {
	path = filepath.Join(tmpDir, name)
	_ = os.Remove(path)

	return querylog.NewFileSystem(&querylog.FileSystemConfig{
		Logger:   slogutil.NewDiscardLogger(),
		Path:     path,
		RandSeed: seed,
	}), path
}

func entryNontrivial(e *querylog.Entry) bool {
	return e.RequestResult != nil || e.ResponseResult != nil || needsEscape(e.DomainFQDN) ||
		needsEscape(string(e.ProfileID)) || e.RemoteIP.IsValid()
}

// ---------------------------------------------------------------------------
// fs campaign: sequential FileSystem.Write, chunk by chunk.

func fsCampaign(o *hlib.Opts, r *hlib.Result, m *hlib.Model) {
	rng := o.Rand("fs")
	cases, per := 120, 60
	if o.Thorough() {
		cases, per = 1000, 100
	}
	ctx := context.Background()
	for c := 0; c < cases; c++ {
		fs, path := newFS("seq.jsonl", rng.Uint64())
		hostile := c%4 != 0
		var entries []*querylog.Entry
		var chunks [][]byte
		var off int64
		failed := false
		for i := 0; i < per; i++ {
			e := genEntry(rng, i, hostile)
			var err error
			func() {
				defer func() {
					if p := recover(); p != nil {
						err = fmt.Errorf("panic: %v", p)
					}
				}()
				err = fs.Write(ctx, e)
			}()
			if err != nil {
				r.Violate("write-failed", fmt.Sprintf("FileSystem.Write failed: %v", err),
					map[string]any{"campaign": "fs", "entry": entryTokens(e, e.Elapsed.Milliseconds())})
				failed = true

				break
			}
			data, rerr := os.ReadFile(path)
			hlib.Must(rerr)
			chunk := append([]byte{}, data[min(off, int64(len(data))):]...)
			off = int64(len(data))
			entries = append(entries, e)
			chunks = append(chunks, chunk)
		}
		if failed {
			continue
		}
		lines := make([]string, len(entries))
		for i, e := range entries {
			replay := map[string]any{"campaign": "fs", "case": c, "index": i, "entry": entryTokens(e, e.Elapsed.Milliseconds())}
			// Property oracle first.
			rn, ok := checkLine(r, "fs", e, chunks[i], replay)
			if !ok {
				rn = rnOf(chunks[i])
			}
			lines[i] = "line " + rn + " " + entryTokens(e, e.Elapsed.Milliseconds())
		}
		checkReader(r, m, chunks)
		answers := m.Batch(lines)
		for i := range entries {
			if got := unhx(answers[i]); !bytes.Equal(got, chunks[i]) {
				r.Disagree("fs-line", fmt.Sprintf("FileSystem wrote %q, model %q", truncateB(chunks[i], 400), truncateB(got, 400)),
					map[string]any{"campaign": "fs", "ops": []string{lines[i]}})

				break
			}
		}
		for i, e := range entries {
			nt := entryNontrivial(e)
			r.Case(stripVolatile(lines[i]), nt)
			countEntry(r, "fs", e)
			if nt && c == 1 && i < 3 {
				r.Sample(map[string]any{"campaign": "fs", "op": lines[i], "line": string(truncateB(chunks[i], 300))}, 9)
			}
		}
		r.Traces++
	}
}

func countEntry(r *hlib.Result, c string, e *querylog.Entry) {
	code, _, rule := docCode(e.RequestResult, e.ResponseResult)
	r.Count(fmt.Sprintf("%s.code_%d", c, code))
	if e.RemoteIP.IsValid() {
		r.Count(c + ".with_ip")
	} else {
		r.Count(c + ".without_ip")
	}
	if needsEscape(e.DomainFQDN) || needsEscape(rule) || needsEscape(string(e.ProfileID)) {
		r.Count(c + ".hostile_strings")
	}
}

// checkReader runs the specification's independent line reader (lexLine, the
// subject of theorem line_integrity) on lines written by the real FileSystem
// and compares what it finds, member by member and in order, with
// encoding/json's token stream; it also feeds it damaged lines, which it must
// reject whenever encoding/json does.
func checkReader(r *hlib.Result, m *hlib.Model, chunks [][]byte) {
	ops := make([]string, 0, 2*len(chunks))
	var damaged [][]byte
	for i, c := range chunks {
		ops = append(ops, "lex "+hx(string(c)))
		if len(c) > 4 {
			d := append([]byte{}, c...)
			switch i % 4 {
			case 0:
				d = d[:len(d)/2]
			case 1:
				d[len(d)/2] = '"'
			case 2:
				d = append(d[:len(d)-1], c...)
			default:
				d[len(d)/3] = '\n'
			}
			damaged = append(damaged, d)
		}
	}
	for _, d := range damaged {
		ops = append(ops, "lex "+hx(string(d)))
	}
	answers := m.Batch(ops)
	for i, c := range chunks {
		replay := map[string]any{"campaign": "reader", "ops": []string{ops[i]}}
		if answers[i] == "none" {
			r.Disagree("reader-rejects-real-line", fmt.Sprintf("the specification's reader rejects the real line %q", truncateB(c, 300)), replay)

			continue
		}
		dec := json.NewDecoder(bytes.NewReader(c))
		dec.UseNumber()
		var want []string
		if tok, err := dec.Token(); err != nil || tok != json.Delim('{') {
			continue // reported by checkLine
		}
		for dec.More() {
			k, err1 := dec.Token()
			v, err2 := dec.Token()
			if err1 != nil || err2 != nil {
				break
			}
			want = append(want, fmt.Sprintf("%v=%v", k, v))
		}
		var got []string
		for _, f := range strings.Fields(answers[i]) {
			kv := strings.SplitN(f, "=", 2)
			if len(kv) != 2 || len(kv[1]) < 2 {
				got = append(got, "?")

				continue
			}
			raw := unhx(kv[1][2:])
			val := string(raw)
			if kv[1][0] == 's' {
				if err := json.Unmarshal([]byte(`"`+string(raw)+`"`), &val); err != nil {
					val = "UNDECODABLE:" + string(raw)
				}
			}
			got = append(got, string(unhx(kv[0]))+"="+val)
		}
		if strings.Join(got, "\x00") != strings.Join(want, "\x00") {
			r.Disagree("reader-differs", fmt.Sprintf("line %q: encoding/json reads %q, the specification's reader %q", truncateB(c, 300), want, got), replay)
		}
		r.Count("reader.real_lines")
	}
	for j, d := range damaged {
		ans := answers[len(chunks)+j]
		var obj map[string]any
		jsonOK := false
		if len(d) > 0 && d[len(d)-1] == '\n' && !bytes.ContainsAny(d[:len(d)-1], "\n") {
			dd := json.NewDecoder(bytes.NewReader(d))
			jsonOK = dd.Decode(&obj) == nil && !dd.More()
		}
		if !jsonOK && ans != "none" {
			r.Disagree("reader-accepts-damaged-line", fmt.Sprintf("the specification's reader accepts %q", truncateB(d, 300)),
				map[string]any{"campaign": "reader", "ops": []string{ops[len(chunks)+j]}})
		}
		if ans == "none" {
			r.Count("reader.damaged_rejected")
		} else {
			r.Count("reader.damaged_still_valid")
		}
	}
}

// rnOf extracts the random number of a line leniently.
func rnOf(line []byte) string {
	i := bytes.Index(line, []byte(`"rn":`))
	if i < 0 {
		return "0"
	}
	j := i + 5
	for j < len(line) && line[j] >= '0' && line[j] <= '9' {
		j++
	}
	if j == i+5 {
		return "0"
	}

	return string(line[i+5 : j])
}

// stripVolatile removes the random number from an op line.
func stripVolatile(l string) string {
	f := strings.Fields(l)
	if len(f) > 2 && f[0] == "line" {
		f[1] = "_"
	}

	return strings.Join(f, " ")
}

// ---------------------------------------------------------------------------
// conc campaign: many goroutines append to one file.

func concCampaign(o *hlib.Opts, r *hlib.Result, m *hlib.Model) {
	rng := o.Rand("conc")
	cases := 16
	if o.Thorough() {
		cases = 150
	}
	ctx := context.Background()
	for c := 0; c < cases; c++ {
		fs, path := newFS("conc.jsonl", rng.Uint64())
		g := []int{8, 16, 32, 64}[rng.IntN(4)]
		per := 2 + rng.IntN(8)
		total := g * per
		entries := genConcEntries(rng, total)
		errs := make([]error, total)
		runWriters(ctx, fs, entries, errs, 0, g, per)
		replay := map[string]any{"campaign": "conc", "case": c, "goroutines": g, "writes_each": per}
		for i, err := range errs {
			if err != nil {
				r.Violate("write-failed", fmt.Sprintf("concurrent FileSystem.Write %d failed: %v", i, err), replay)
			}
		}
		data, err := os.ReadFile(path)
		hlib.Must(err)
		checkConcFile(r, m, rng, "conc", c, entries, make([]bool, total), nil, data, replay)
		r.Count(fmt.Sprintf("conc.goroutines_%d", g))
	}
}

func genConcEntries(rng *rand.Rand, total int) []*querylog.Entry {
	entries := make([]*querylog.Entry, total)
	for i := range entries {
		entries[i] = genEntry(rng, i, true)
		if rng.IntN(40) == 0 {
			// A long rule: the record is larger than a pipe buffer / page.
			entries[i].RequestResult = &filter.ResultBlocked{List: "custom",
				Rule: filter.RuleText(strings.Repeat("||long.example^\n\"", 500+rng.IntN(4000)))}
		}
	}

	return entries
}

// runWriters lets g goroutines write entries[from+w*per+k] concurrently.
func runWriters(ctx context.Context, fs *querylog.FileSystem, entries []*querylog.Entry, errs []error, from, g, per int) {
	var wg sync.WaitGroup
	start := make(chan struct{})
	for w := 0; w < g; w++ {
		wg.Add(1)
		go func(w int) {
			defer wg.Done()
			<-start
			for k := 0; k < per; k++ {
				i := from + w*per + k
				func() {
					defer func() {
						if p := recover(); p != nil {
							errs[i] = fmt.Errorf("panic: %v", p)
						}
					}()
					errs[i] = fs.Write(ctx, entries[i])
				}()
			}
		}(w)
	}
	close(start)
	wg.Wait()
}

// checkConcFile is the file oracle and the correspondence check of the
// concurrent campaigns: data must consist of exactly one intact line for every
// write that did not fail, and equal the model's file for a schedule with the
// observed append order (and the observed failures).
func checkConcFile(r *hlib.Result, m *hlib.Model, rng *rand.Rand, camp string, c int, entries []*querylog.Entry, failed, wfail []bool,
	data []byte, replay map[string]any) {
	total := 0
	for _, f := range failed {
		if !f {
			total++
		}
	}
	// Property oracle: only complete lines, one per write, each intact.
	okAll := true
	if len(data) > 0 && data[len(data)-1] != '\n' {
		r.Violate("file-unterminated", "log file does not end with a line feed after concurrent writes", replay)
		okAll = false
	}
	recs := bytes.SplitAfter(data, []byte("\n"))
	if len(recs) > 0 && len(recs[len(recs)-1]) == 0 {
		recs = recs[:len(recs)-1]
	}
	if len(recs) != total {
		r.Violate("file-line-count", fmt.Sprintf("%d successful concurrent writes produced %d lines", total, len(recs)), replay)
		okAll = false
	}
	byID := map[string]int{}
	for i, e := range entries {
		byID[e.RequestID.String()] = i
	}
	seen := map[int]bool{}
	var order []int
	rns := map[int]string{}
	for _, rec := range recs {
		var probe struct {
			U string `json:"u"`
		}
		if err := json.Unmarshal(bytes.TrimRight(rec, "\n"), &probe); err != nil {
			r.Violate("line-not-json", fmt.Sprintf("%s: line is not JSON (%v): %q", camp, err, truncateB(rec, 300)), replay)
			okAll = false

			continue
		}
		i, known := byID[probe.U]
		if !known || seen[i] {
			r.Violate("file-line-not-one-to-one", fmt.Sprintf("%s: line for request %q is unknown or duplicated", camp, probe.U), replay)
			okAll = false

			continue
		}
		if failed[i] {
			r.Violate("failed-write-left-a-line", fmt.Sprintf("%s: Write of request %q returned an error but the file has its line", camp, probe.U), replay)
			okAll = false

			continue
		}
		seen[i] = true
		order = append(order, i)
		rn, ok := checkLine(r, camp, entries[i], rec, replay)
		okAll = okAll && ok
		rns[i] = rn
	}
	if !okAll || len(order) != total {
		r.Count(camp + ".cases_violating")
		r.Case(fmt.Sprintf("%s %d %d", camp, c, len(entries)), true)

		return
	}
	// Correspondence: the model's file after a schedule whose appends
	// happen in the observed order and whose failures are the observed ones.
	lines := []string{"fsinit"}
	for i, e := range entries {
		rn := rns[i]
		if failed[i] {
			rn = "0"
		}
		lines = append(lines, "fsw "+rn+" "+entryTokens(e, e.Elapsed.Milliseconds()))
	}
	openFailed := failed
	if wfail != nil {
		openFailed = make([]bool, len(failed))
		for i := range failed {
			openFailed[i] = failed[i] && !wfail[i]
		}
	}
	lines = append(lines, schedule(rng, len(entries), order, openFailed, wfail)...)
	lines = append(lines, "fsfile")
	answers := m.Batch(lines)
	if got := unhx(answers[len(answers)-1]); !bytes.Equal(got, data) {
		r.Disagree(camp+"-file", fmt.Sprintf("file after %d concurrent writes differs from the model's (%d vs %d bytes)",
			total, len(data), len(got)), map[string]any{"campaign": camp, "ops": len(lines)})
	}
	inOrder := sort.IntsAreSorted(order)
	if inOrder {
		r.Count(camp + ".file_in_start_order")
	} else {
		r.Count(camp + ".file_interleaved")
	}
	r.Case(fmt.Sprintf("%s %v", camp, order), !inOrder || total != len(entries))
	if c == 0 {
		r.Sample(map[string]any{"campaign": camp, "writes": len(entries), "failed": len(entries) - total,
			"first_lines_order": order[:min(12, len(order))]}, 9)
	}
	r.Traces++
}

// rotCampaign: the log file's directory is missing at first (every Write must
// fail at open, return the error and leave nothing behind), then appears, and
// is renamed away and back while many goroutines write.  Whatever the timing,
// the file must consist of exactly one intact line for every Write that
// returned nil, and none for those that returned an error.
func rotCampaign(o *hlib.Opts, r *hlib.Result, m *hlib.Model) {
	rng := o.Rand("rot")
	cases := 12
	if o.Thorough() {
		cases = 120
	}
	ctx := context.Background()
	for c := 0; c < cases; c++ {
		dir := filepath.Join(tmpDir, fmt.Sprintf("rot-%d", c))
		off := dir + ".off"
		path := filepath.Join(dir, "log.jsonl")
		fs := querylog.NewFileSystem(&querylog.FileSystemConfig{Logger: slogutil.NewDiscardLogger(), Path: path, RandSeed: rng.Uint64()})
		g := []int{4, 8, 16, 32}[rng.IntN(4)]
		per := 2 + rng.IntN(6)
		nFail := 1 + rng.IntN(2*g)
		total := nFail + 2*g*per
		entries := genConcEntries(rng, total)
		errs := make([]error, total)
		replay := map[string]any{"campaign": "rot", "case": c, "goroutines": g, "writes_each": per, "writes_without_directory": nFail}
		// Phase 1: no directory.  Half of the cases fail concurrently.
		if c%2 == 0 {
			runWriters(ctx, fs, entries, errs, 0, 1, nFail)
		} else {
			runWriters(ctx, fs, entries, errs, 0, nFail, 1)
		}
		for i := 0; i < nFail; i++ {
			if errs[i] == nil {
				r.Violate("write-without-file-succeeded", "FileSystem.Write returned nil although the log file cannot be opened", replay)
			}
		}
		if _, err := os.Stat(path); err == nil {
			r.Violate("write-without-file-succeeded", "a log file exists although its directory was missing", replay)
		}
		// Phase 2: the directory exists; everything is written.
		hlib.Must(os.MkdirAll(dir, 0o755))
		runWriters(ctx, fs, entries, errs, nFail, g, per)
		// Phase 3: the directory is renamed away and back while writing.
		stop := make(chan struct{})
		done := make(chan struct{})
		go func() {
			defer close(done)
			for {
				select {
				case <-stop:
					return
				default:
				}
				if os.Rename(dir, off) == nil {
					runtime.Gosched()
					hlib.Must(os.Rename(off, dir))
				}
				runtime.Gosched()
			}
		}()
		runWriters(ctx, fs, entries, errs, nFail+g*per, g, per)
		close(stop)
		<-done
		failed := make([]bool, total)
		nf := 0
		for i, err := range errs {
			if err == nil {
				continue
			}
			failed[i] = true
			nf++
			if !strings.Contains(err.Error(), "opening query log file") || !errors.Is(err, os.ErrNotExist) {
				r.Violate("write-failed", fmt.Sprintf("rot: FileSystem.Write %d failed with something else than the missing file: %v", i, err), replay)
			}
		}
		data, err := os.ReadFile(path)
		hlib.Must(err)
		checkConcFile(r, m, rng, "rot", c, entries, failed, nil, data, replay)
		r.Count("rot.failed_writes_" + map[bool]string{true: "only_initial", false: "also_during_rotation"}[nf == nFail])
		_ = os.RemoveAll(dir)
	}
}

// schedule returns fsstep lines: a random interleaving of the five steps of
// each writer in which the appends (the step from pc 3) happen in order.
// wfail (may be nil) marks the writers whose write(2) failed after a successful
// open; failed marks the ones whose open failed.
func schedule(rng *rand.Rand, n int, order []int, failed, wfail []bool) (lines []string) {
	pc := make([]int, n)
	buf := make([]int, n)
	var free []int
	nbufs := 0
	next := 0
	active := make([]int, n)
	for i := range active {
		active[i] = i
	}
	for len(active) > 0 {
		k := rng.IntN(len(active))
		i := active[k]
		if rng.IntN(3) == 0 && next < len(order) {
			// Favour progress of the writer whose append is due.
			i = order[next]
			for kk, a := range active {
				if a == i {
					k = kk
				}
			}
		}
		wf := wfail != nil && wfail[i]
		if pc[i] == 3 && !wf && order[next] != i {
			continue
		}
		choice := "-"
		switch pc[i] {
		case 0:
			if len(free) > 0 && rng.IntN(4) > 0 {
				j := rng.IntN(len(free))
				buf[i] = free[j]
				free = append(free[:j], free[j+1:]...)
				choice = fmt.Sprint(buf[i])
			} else {
				if rng.IntN(2) == 0 {
					// A choice that is not free: the pool allocates.
					choice = fmt.Sprint(nbufs + rng.IntN(3))
				}
				buf[i] = nbufs
				nbufs++
			}
		case 2:
			if failed[i] {
				// os.OpenFile fails: state 6, then the deferred Put.
				choice = fmt.Sprint(rng.IntN(3))
				pc[i] = 5
			}
		case 3:
			if wf {
				// write(2) fails: state 8, then the deferred Put of the dirty buffer.
				choice = fmt.Sprint(rng.IntN(3))
				pc[i] = 7
			} else {
				next++
			}
		case 4, 6, 8:
			free = append(free, buf[i])
		}
		pc[i]++
		lines = append(lines, fmt.Sprintf("fsstep %d %s", i, choice))
		if pc[i] == 5 || pc[i] == 7 || pc[i] == 9 {
			active = append(active[:k], active[k+1:]...)
		}
	}

	return lines
}

// ---------------------------------------------------------------------------
// stack campaign

type respDesc struct {
	rcode int
	ad    bool
	// shape describes the answer section, record by record (see genShape).
	shape string
}

// String is the harness's own reading of a response: RCODE, AD, and the kind
// of the first address in the answer section.
func (d respDesc) String() string { return fmt.Sprintf("%d,%s,%s", d.rcode, b2s(d.ad), firstAddr(d.shape)) }

func (d respDesc) tokens() string { return fmt.Sprintf("%d %s %s", d.rcode, b2s(d.ad), d.shape) }

// Answer shapes.  A shape is "-" (no records) or a comma-separated list of
//
//	o            a record without an address (TXT, CNAME, MX)
//	a:K  aaaa:K  an address record whose net.IP is K
//	https:KV;KV  an HTTPS record with the parameters KV: o (alpn, port),
//	             4:K+K (ipv4hint), 6:K+K (ipv6hint); "4:" is an empty hint list
//
// where K is addr | unspec | nil (no net.IP at all) | bad (a net.IP of a
// length no address has).  Only messages built in process can have nil or bad.
var ipVals = []string{"addr", "addr", "addr", "addr", "addr", "unspec", "unspec", "nil", "bad"}

func genHints(rng *rand.Rand) string {
	n := rng.IntN(3)
	ks := make([]string, n)
	for i := range ks {
		ks[i] = ipVals[rng.IntN(len(ipVals))]
	}

	return strings.Join(ks, "+")
}

func genShape(rng *rand.Rand) string {
	n := []int{0, 1, 1, 1, 1, 2, 2, 3}[rng.IntN(8)]
	if n == 0 {
		return "-"
	}
	rrs := make([]string, n)
	for i := range rrs {
		switch rng.IntN(8) {
		case 0, 1:
			rrs[i] = "o"
		case 2, 3, 4:
			rrs[i] = "a:" + ipVals[rng.IntN(len(ipVals))]
		case 5:
			rrs[i] = "aaaa:" + ipVals[rng.IntN(len(ipVals))]
		default:
			m := rng.IntN(4)
			kvs := make([]string, m)
			for j := range kvs {
				switch rng.IntN(4) {
				case 0:
					kvs[j] = "o"
				case 1, 2:
					kvs[j] = "4:" + genHints(rng)
				default:
					kvs[j] = "6:" + genHints(rng)
				}
			}
			rrs[i] = "https:" + strings.Join(kvs, ";")
		}
	}

	return strings.Join(rrs, ",")
}

// firstAddr is the harness's own reading of doc/querylog.md and of the comment
// of responseData ("the first IP address from the answer if it has the type A,
// AAAA or HTTPS"): the first record that can carry an address decides; within
// an HTTPS record the first non-empty hint list decides, by its first address;
// something that is not an address counts as none.
func firstAddr(shape string) string {
	val := func(k string) string {
		if k == "addr" || k == "unspec" {
			return k
		}

		return "none"
	}
	if shape == "-" {
		return "none"
	}
	for _, rr := range strings.Split(shape, ",") {
		kind, arg, _ := strings.Cut(rr, ":")
		switch kind {
		case "a", "aaaa":
			return val(arg)
		case "https":
			for _, kv := range strings.Split(arg, ";") {
				fam, hints, _ := strings.Cut(kv, ":")
				if (fam == "4" || fam == "6") && hints != "" {
					return val(strings.Split(hints, "+")[0])
				}
			}

			return "none"
		}
	}

	return "none"
}

func ipClass(ip net.IP, v6 bool) string {
	switch {
	case ip == nil:
		return "nil"
	case !v6 && ip.To4() == nil, v6 && len(ip) != net.IPv6len && len(ip) != net.IPv4len:
		return "bad"
	case v6 && ip.To16().Equal(net.IPv6unspecified), !v6 && ip.To4().Equal(net.IPv4zero):
		return "unspec"
	}

	return "addr"
}

// shapeOf renders the answer section of a real message as a shape.
func shapeOf(m *dns.Msg) string {
	if len(m.Answer) == 0 {
		return "-"
	}
	var rrs []string
	for _, rr := range m.Answer {
		switch v := rr.(type) {
		case *dns.A:
			rrs = append(rrs, "a:"+ipClass(v.A, false))
		case *dns.AAAA:
			rrs = append(rrs, "aaaa:"+ipClass(v.AAAA, true))
		case *dns.HTTPS:
			var kvs []string
			for _, kv := range v.Value {
				var hints []net.IP
				fam := "o"
				switch h := kv.(type) {
				case *dns.SVCBIPv4Hint:
					fam, hints = "4", h.Hint
				case *dns.SVCBIPv6Hint:
					fam, hints = "6", h.Hint
				}
				if fam == "o" {
					kvs = append(kvs, "o")

					continue
				}
				ks := make([]string, len(hints))
				for i, ip := range hints {
					ks[i] = ipClass(ip, fam == "6")
				}
				kvs = append(kvs, fam+":"+strings.Join(ks, "+"))
			}
			rrs = append(rrs, "https:"+strings.Join(kvs, ";"))
		default:
			rrs = append(rrs, "o")
		}
	}

	return strings.Join(rrs, ",")
}

// describe reads a real response.
func describe(m *dns.Msg) (d respDesc) {
	return respDesc{rcode: m.Rcode, ad: m.AuthenticatedData, shape: shapeOf(m)}
}

// mkIP builds the net.IP for K; addr carries the identity of the request.
func mkIP(k string, v6 bool, addr net.IP) net.IP {
	switch k {
	case "nil":
		return nil
	case "bad":
		return net.IP{1, 2, 3}
	case "unspec":
		if v6 {
			return make(net.IP, 16)
		}

		return net.IP{0, 0, 0, 0}
	}
	if v6 {
		return net.IP{0x20, 0x01, 0x0d, 0xb8, 0, 0x77, 0, 0, 0, 0, 0, 0, 0, 0, addr[len(addr)-2], addr[len(addr)-1]}
	}

	return append(net.IP(nil), addr...)
}

// mkAnswer builds a response to req described by d.  variant selects legal
// variations that must not matter: which record without an address is used,
// the case of the echoed question name, an OPT record.
func mkAnswer(req *dns.Msg, d respDesc, variant int, addr net.IP) *dns.Msg {
	// Fresh slices: the production cloner pools records and reuses their
	// address arrays.
	resp := (&dns.Msg{}).SetReply(req)
	resp.Rcode = d.rcode
	resp.AuthenticatedData = d.ad
	resp.RecursionAvailable = true
	name := req.Question[0].Name
	switch variant % 4 {
	case 1:
		// Servers may echo the question in another case.
		resp.Question[0].Name = strings.ToLower(name)
	case 2:
		resp.Question[0].Name = strings.ToUpper(name)
	}
	if d.rcode > 0xF || variant%3 == 1 {
		// An extended RCODE travels in the OPT record.
		resp.Extra = append(resp.Extra, &dns.OPT{Hdr: dns.RR_Header{Name: ".", Rrtype: dns.TypeOPT, Class: 1232}})
	}
	hdr := func(t uint16) dns.RR_Header { return dns.RR_Header{Name: name, Rrtype: t, Class: dns.ClassINET, Ttl: 60} }
	if d.shape == "-" {
		return resp
	}
	for i, rr := range strings.Split(d.shape, ",") {
		kind, arg, _ := strings.Cut(rr, ":")
		switch kind {
		case "a":
			resp.Answer = append(resp.Answer, &dns.A{Hdr: hdr(dns.TypeA), A: mkIP(arg, false, addr)})
		case "aaaa":
			resp.Answer = append(resp.Answer, &dns.AAAA{Hdr: hdr(dns.TypeAAAA), AAAA: mkIP(arg, true, addr)})
		case "https":
			h := &dns.HTTPS{SVCB: dns.SVCB{Hdr: hdr(dns.TypeHTTPS), Priority: 1, Target: "."}}
			for _, kv := range strings.Split(arg, ";") {
				fam, hints, _ := strings.Cut(kv, ":")
				var ips []net.IP
				if hints != "" {
					for _, k := range strings.Split(hints, "+") {
						ips = append(ips, mkIP(k, fam == "6", addr))
					}
				}
				switch fam {
				case "4":
					h.Value = append(h.Value, &dns.SVCBIPv4Hint{Hint: ips})
				case "6":
					h.Value = append(h.Value, &dns.SVCBIPv6Hint{Hint: ips})
				case "o":
					h.Value = append(h.Value, &dns.SVCBAlpn{Alpn: []string{"h2"}})
				}
			}
			resp.Answer = append(resp.Answer, h)
		default:
			switch (variant + i) % 3 {
			case 0:
				resp.Answer = append(resp.Answer, &dns.TXT{Hdr: hdr(dns.TypeTXT), Txt: []string{"x"}})
			case 1:
				resp.Answer = append(resp.Answer, &dns.CNAME{Hdr: hdr(dns.TypeCNAME), Target: "alias.example."})
			default:
				resp.Answer = append(resp.Answer, &dns.MX{Hdr: hdr(dns.TypeMX), Preference: 10, Mx: "mx.example."})
			}
		}
	}

	return resp
}

type fakeAccess struct{ blocked *bool }

func (a fakeAccess) Config() *access.ProfileConfig { return nil }

func (a fakeAccess) IsBlocked(*dns.Msg, netip.AddrPort, *geoip.Location) bool { return *a.blocked }

// recRW is the client's response writer.
type recRW struct {
	laddr, raddr net.Addr
	fail         bool
	msg          *dns.Msg
	writes       int
}

func (w *recRW) LocalAddr() net.Addr  { return w.laddr }
func (w *recRW) RemoteAddr() net.Addr { return w.raddr }
func (w *recRW) WriteMsg(_ context.Context, _, resp *dns.Msg) error {
	w.writes++
	if w.fail {
		return errors.New("verif: write failed")
	}
	w.msg = resp

	return nil
}

// spec is one scripted request.
type spec struct {
	srv                                               string // dns | dot | dnsif | doh | doq | dnscrypt
	port0                                             bool
	devKind                                           string // anon | ok | authfail | deleted | unknown | error
	qlog, iplog                                       bool
	profID, devID                                     string
	gbi, gbh, pb, rlDrop, allowlisted                 bool
	profRl                                            int // 0 use global, 1 pass, 2 drop
	ecs                                               int // 0 none, 1 valid, 2 malformed
	blockMode                                         int // index into blockModes
	special, debug, adWanted, ctxErr, upErr, writeErr bool
	doBit, fltOff, devFltOff                          bool
	qclass                                            uint16
	reqKind, respKind                                 int
	reqList, reqRule, respList, respRule              string
	name                                              string
	qtype                                             uint16
	ip                                                netip.Addr
	idx                                               int
	startMs                                           int64
	hasLoc                                            bool
	locCtry                                           string
	locASN                                            uint32
	orig, mod                                         respDesc
	origVariant                                       int
	geoCtry                                           string
	respAddr                                          net.IP
	gotReq, gotResp                                   filter.Result
	filterReqCalls, filterRespCalls, upstreamCalls    int
	cancel                                            context.CancelFunc
	// results
	line    string
	blocked respDesc
	rw      *recRW
	serr    error
	mu      sync.Mutex
	logs    []logged
	// campaign prov: where the profile database got the profile from, the
	// backend's message for it, and the model ops up to this request.
	src     string
	provMsg any
	provOps []string
}

// violate reports a violation on s; in campaign prov the text says where the
// profile came from and what the backend's message said.
func (s *spec) violate(r *hlib.Result, sig, what string, replay any) {
	if s.src != "" {
		what += fmt.Sprintf(" [profile %q held by the profile database from the %s; the backend's latest message for it has "+
			"query_log_enabled=%v ip_log_enabled=%v deleted=%v]", s.profID, s.src, s.qlog, s.iplog, s.devKind == "deleted")
	}
	r.Violate(s.sig(sig), what, replay)
}

// sig is the signature of a violation on s: in campaign prov it also names
// the source of the profile.
func (s *spec) sig(x string) string {
	if s.src != "" {
		return x + "+profile-from-" + s.src
	}

	return x
}

var kinds = []string{"none", "allowed", "blocked", "modresp", "modreq"}

// rcodes of upstream answers: the common ones, every boundary of the four
// header bits, the extended codes of the OPT record (BADVERS 16 ... BADCOOKIE
// 23, the largest one 4095), and, rarely, values no message can carry, which
// pin down the conversion to uint16 (compared with the model only).
var rcodes = []int{0, 0, 0, 0, 0, 0, 0, 0, 2, 2, 3, 3, 1, 4, 5, 9, 15, 16, 16, 17, 22, 23, 255, 256, 4095, 4096, 65536, 65539}

var clientIPs = []string{"10.0.0.1", "10.0.0.2", "198.51.100.7", "2001:db8:1::5", "203.0.113.200", "::ffff:10.9.8.7"}

const globallyBlockedIP = "203.0.113.66"

var names = []string{"example.com.", "Example.ORG.", "blocked.example.", "a.b.c.d.example.net.", "xn--e1afmkfd.xn--p1ai.",
	"we\\032ird\\.label.example.", "\\000\\010\\\"q.example.", "<script>.example.", "."}

var countries = []string{"", "AD", "RU", "US", "XK", "QN"}

// blockModes are the blocking modes of a profile; customBad has an address
// of the wrong family, so that NewBlockedResp fails for A queries.
var blockModes = []dnsmsg.BlockingMode{
	&dnsmsg.BlockingModeNullIP{},
	&dnsmsg.BlockingModeNXDOMAIN{},
	&dnsmsg.BlockingModeREFUSED{},
	&dnsmsg.BlockingModeCustomIP{IPv4: []netip.Addr{netip.MustParseAddr("198.51.100.9")}, IPv6: []netip.Addr{netip.MustParseAddr("2001:db8:99::9")}},
	&dnsmsg.BlockingModeCustomIP{IPv4: []netip.Addr{netip.MustParseAddr("2001:db8:99::bad")}},
}

var srvProto = map[string]agd.Protocol{"dns": agd.ProtoDNS, "dot": agd.ProtoDoT, "dnsif": agd.ProtoDNS, "doh": agd.ProtoDoH,
	"doq": agd.ProtoDoQ, "dnscrypt": agd.ProtoDNSCrypt}

func genSpec(rng *rand.Rand, idx int, conc bool) *spec {
	s := &spec{
		srv:         []string{"dns", "dns", "dns", "dot", "dnsif", "doh", "doq", "dnscrypt"}[rng.IntN(8)],
		devKind:     []string{"anon", "ok", "ok", "ok", "ok", "ok", "ok", "authfail", "error", "unknown", "deleted"}[rng.IntN(11)],
		qlog:        rng.IntN(3) > 0,
		iplog:       rng.IntN(2) == 0,
		profID:      []string{"prof1234", "profAAAA", "p\"x\n"}[rng.IntN(3)],
		devID:       []string{"dev1234", "devBBBB"}[rng.IntN(2)],
		reqKind:     []int{0, 0, 0, 1, 2, 2, 3, 4}[rng.IntN(8)],
		respKind:    []int{0, 0, 0, 1, 2, 2}[rng.IntN(6)],
		reqList:     lists[rng.IntN(len(lists))],
		respList:    lists[rng.IntN(len(lists))],
		reqRule:     []string{"", "||example.com^", "@@||a^", "|x|\n\"<&>\\", "\xff\xfe rule"}[rng.IntN(5)],
		respRule:    []string{"", "||cname.example^", "1.2.3.4", " resp"}[rng.IntN(4)],
		name:        names[rng.IntN(len(names))],
		qtype:       []uint16{dns.TypeA, dns.TypeA, dns.TypeAAAA, dns.TypeTXT, dns.TypeHTTPS, dns.TypeMX, dns.TypePTR, dns.TypeSVCB, dns.TypeCAA, 65280, 0, 255, 256, 65535}[rng.IntN(14)],
		ip:          netip.MustParseAddr(clientIPs[rng.IntN(len(clientIPs))]),
		idx:         idx,
		startMs:     []int64{1628590394000, 1700000000123, 1, time.Now().UnixMilli() + 3600000}[rng.IntN(4)],
		hasLoc:      rng.IntN(4) > 0,
		locCtry:     countries[rng.IntN(len(countries))],
		locASN:      []uint32{0, 42, 65000, 65535, 65536, 4200000000, 4294967295}[rng.IntN(7)],
		orig:        respDesc{rcode: rcodes[rng.IntN(len(rcodes))], ad: rng.IntN(3) == 0, shape: genShape(rng)},
		mod:         respDesc{rcode: []int{0, 0, 0, 3, 5, 16, 23, 4095}[rng.IntN(8)], ad: false, shape: genShape(rng)},
		origVariant: rng.IntN(12),
		geoCtry:     countries[rng.IntN(len(countries))],
		profRl:      []int{0, 0, 0, 0, 0, 0, 1, 1, 2}[rng.IntN(9)],
		ecs:         []int{0, 0, 0, 0, 0, 0, 0, 0, 1, 1, 2}[rng.IntN(11)],
		blockMode:   []int{0, 0, 0, 1, 2, 3, 4, 4}[rng.IntN(8)],
	}
	if s.srv == "dnsif" {
		// Dedicated-address server: found, unknown or failing lookups.
		s.devKind = []string{"ok", "ok", "unknown", "error", "deleted"}[rng.IntN(5)]
	} else if s.devKind == "unknown" {
		s.devKind = "anon"
	}
	one := func(p int) bool { return rng.IntN(p) == 0 }
	s.port0 = one(25)
	s.gbi, s.gbh, s.pb = one(25), one(25), one(12)
	s.rlDrop = one(10)
	s.allowlisted = one(6)
	s.special = one(15)
	s.debug = one(10)
	s.ctxErr, s.upErr = one(25), one(20)
	s.writeErr = one(12)
	s.adWanted = one(3)
	// The DO bit asks for the AD flag like the AD bit does.
	s.doBit = one(4)
	// Classes other than IN and CH are served like IN.
	s.qclass = []uint16{dns.ClassINET, dns.ClassINET, dns.ClassINET, dns.ClassINET, dns.ClassINET, dns.ClassINET, dns.ClassHESIOD,
		dns.ClassANY, dns.ClassNONE, 0, 65535}[rng.IntN(11)]
	// Filtering switched off for the profile or the device: an empty filter, but
	// billing and logging go on.
	s.fltOff, s.devFltOff = one(12), one(12)
	if s.special {
		s.name = "x.resolver.arpa."
		s.debug = false
		s.qclass = dns.ClassINET
	}
	if s.gbh {
		s.name = "globally-blocked.example."
	}
	// Addresses carry the request's identity to the fakes that get no context.
	s.respAddr = net.IP{198, 18, byte(idx >> 8), byte(idx)}
	if conc {
		s.ip = netip.AddrFrom4([4]byte{10, 77, byte(idx >> 8), byte(idx)})
		if idx%3 == 0 {
			s.ip = netip.AddrFrom16([16]byte{0x20, 0x01, 0xd, 0xb8, 0, 0x55, 14: byte(idx >> 8), 15: byte(idx)})
		}
	} else if s.gbi {
		s.ip = netip.MustParseAddr(globallyBlockedIP)
	}

	return s
}

func (s *spec) proto() agd.Protocol { return srvProto[s.srv] }

// attributedIn is the harness's own reading of the documentation: the query
// belongs to a profile if the lookup found a live profile and device, the
// device authenticated, and the protocol can carry a device ID at all.
func (s *spec) attributedIn() bool { return s.devKind == "ok" && s.srv != "dnscrypt" }

func (s *spec) request() *dns.Msg {
	req := &dns.Msg{}
	req.Id = uint16(1000 + s.idx)
	req.RecursionDesired = true
	req.AuthenticatedData = s.adWanted
	qc := s.qclass
	if s.debug {
		qc = dns.ClassCHAOS
	}
	req.Question = []dns.Question{{Name: s.name, Qtype: s.qtype, Qclass: qc}}
	switch s.ecs {
	case 1:
		req.SetEdns0(1232, false)
		opt := req.IsEdns0()
		opt.Option = append(opt.Option, &dns.EDNS0_SUBNET{Code: dns.EDNS0SUBNET, Family: 1, SourceNetmask: 24, Address: net.IP{198, 51, 100, 0}})
	case 2:
		req.SetEdns0(1232, false)
		opt := req.IsEdns0()
		opt.Option = append(opt.Option, &dns.EDNS0_SUBNET{Code: dns.EDNS0SUBNET, Family: 3, SourceNetmask: 24, Address: net.IP{198, 51, 100, 0}})
	}
	if s.doBit {
		if req.IsEdns0() == nil {
			req.SetEdns0(4096, true)
		} else {
			req.IsEdns0().SetDo()
		}
	}

	return req
}

func (s *spec) mkRes(kind int, list, rule string, req *dns.Msg) filter.Result {
	l, t := filter.ID(list), filter.RuleText(rule)
	switch kinds[kind] {
	case "allowed":
		return &filter.ResultAllowed{List: l, Rule: t}
	case "blocked":
		return &filter.ResultBlocked{List: l, Rule: t}
	case "modresp":
		return &filter.ResultModifiedResponse{Msg: mkAnswer(req, s.mod, 0, s.respAddr), List: l, Rule: t}
	case "modreq":
		mod := req.Copy()
		mod.Question[0].Name = "rewritten.example."

		return &filter.ResultModifiedRequest{Msg: mod, List: l, Rule: t}
	}

	return nil
}

type logged struct {
	e     querylog.Entry
	chunk []byte
}

type fixture struct {
	st      *stack.Stack
	conc    bool
	cur     *spec
	byID    sync.Map // agd.RequestID -> *spec
	byAddr  sync.Map // netip.Addr -> *spec
	msgs    *dnsmsg.Constructor
	modeMsg []*dnsmsg.Constructor
	servers map[string]*agd.Server
	fs      *querylog.FileSystem
	logPath string
	logOff  int64
	orphans atomicCounter
}

type atomicCounter struct {
	mu sync.Mutex
	n  int
}

func (c *atomicCounter) inc() { c.mu.Lock(); c.n++; c.mu.Unlock() }

var errGeneric = errors.New("verif: profile db failure")

var respNets = []netip.Prefix{netip.MustParsePrefix("198.18.0.0/15"), netip.MustParsePrefix("2001:db8:77::/48")}

func isRespIP(ip netip.Addr) bool { return respNets[0].Contains(ip) || respNets[1].Contains(ip) }

// yield lets other goroutines run in the middle of a request in the concurrent
// campaign, so that pooled objects are contended.
func (f *fixture) yield() {
	if f.conc {
		runtime.Gosched()
	}
}

// specCtx returns the scripted request a fake is being called for.
func (f *fixture) specCtx(ctx context.Context) *spec {
	if !f.conc {
		return f.cur
	}
	id, _ := agd.RequestIDFromContext(ctx)
	v, ok := f.byID.Load(id)
	if !ok {
		panic("verif: fake called for an unknown request")
	}

	return v.(*spec)
}

// specAddr is specCtx for the fakes that only get an address.
func (f *fixture) specAddr(ip netip.Addr) *spec {
	if !f.conc {
		return f.cur
	}
	if ip.Is6() && respNets[1].Contains(ip) {
		b := ip.As16()
		ip = netip.AddrFrom4([4]byte{198, 18, b[14], b[15]})
	}
	v, ok := f.byAddr.Load(ip)
	if !ok {
		return nil
	}

	return v.(*spec)
}

type fakeRL struct{ res agd.RatelimitResult }

func (r fakeRL) Check(context.Context, *dns.Msg, netip.Addr) agd.RatelimitResult { return r.res }
func (r fakeRL) Config() *agd.RatelimitConfig                                     { return &agd.RatelimitConfig{} }
func (r fakeRL) CountResponses(context.Context, *dns.Msg, netip.Addr)             {}

// newFixture builds the stack.  realDB, when not nil, is the profile database
// the device finder asks instead of the scripted one (campaign prov), and the
// log file is called logName.
func newFixture(seed uint64, conc bool, logName string, realDB profiledb.Interface) (f *fixture) {
	f = &fixture{servers: map[string]*agd.Server{}, conc: conc}
	cloner := agdtest.NewCloner()
	mkMsgs := func(mode dnsmsg.BlockingMode) *dnsmsg.Constructor {
		c, err := dnsmsg.NewConstructor(&dnsmsg.ConstructorConfig{
			Cloner:              cloner,
			BlockingMode:        mode,
			StructuredErrors:    agdtest.NewSDEConfig(true),
			FilteredResponseTTL: 10 * time.Second,
			EDEEnabled:          true,
		})
		hlib.Must(err)

		return c
	}
	f.msgs = mkMsgs(&dnsmsg.BlockingModeNullIP{})
	for _, mode := range blockModes {
		f.modeMsg = append(f.modeMsg, mkMsgs(mode))
	}
	lookup := func(ctx context.Context) (*agd.Profile, *agd.Device, error) {
		s := f.specCtx(ctx)
		f.yield()
		switch s.devKind {
		case "ok", "authfail", "deleted":
			dev := &agd.Device{Auth: &agd.AuthSettings{PasswordHash: agdpasswd.AllowAuthenticator{}}, ID: agd.DeviceID(s.devID),
				FilteringEnabled: !s.devFltOff}
			if s.devKind == "authfail" {
				// Authentication that no scripted request can pass: DoH only,
				// and the DoH requests carry no credentials.
				dev.Auth = &agd.AuthSettings{Enabled: true, DoHAuthOnly: true, PasswordHash: agdpasswd.AllowAuthenticator{}}
			}
			blocked := s.pb
			prof := &agd.Profile{
				FilterConfig: &filter.ConfigClient{Custom: &filter.ConfigCustom{}, Parental: &filter.ConfigParental{},
					RuleList: &filter.ConfigRuleList{}, SafeBrowsing: &filter.ConfigSafeBrowsing{}},
				Access: fakeAccess{blocked: &blocked}, BlockingMode: blockModes[s.blockMode],
				Ratelimiter: fakeRL{res: []agd.RatelimitResult{agd.RatelimitResultUseGlobal, agd.RatelimitResultPass, agd.RatelimitResultDrop}[s.profRl]},
				ID:          agd.ProfileID(s.profID), DeviceIDs: []agd.DeviceID{dev.ID}, FilteredResponseTTL: 10 * time.Second,
				FilteringEnabled: !s.fltOff, QueryLogEnabled: s.qlog, IPLogEnabled: s.iplog, Deleted: s.devKind == "deleted",
			}

			return prof, dev, nil
		case "error":
			return nil, nil, errGeneric
		default:
			return nil, nil, fmt.Errorf("verif: %w", profiledb.ErrDeviceNotFound)
		}
	}
	pdb := stack.NotFoundProfileDB()
	pdb.OnProfileByLinkedIP = func(ctx context.Context, _ netip.Addr) (*agd.Profile, *agd.Device, error) { return lookup(ctx) }
	pdb.OnProfileByDeviceID = func(ctx context.Context, _ agd.DeviceID) (*agd.Profile, *agd.Device, error) { return lookup(ctx) }
	pdb.OnProfileByDedicatedIP = func(ctx context.Context, _ netip.Addr) (*agd.Profile, *agd.Device, error) { return lookup(ctx) }
	var db profiledb.Interface = pdb
	if realDB != nil {
		db = realDB
	}
	flt := &agdtest.Filter{
		OnFilterRequest: func(ctx context.Context, req *filter.Request) (filter.Result, error) {
			s := f.specCtx(ctx)
			s.filterReqCalls++
			s.gotReq = s.mkRes(s.reqKind, s.reqList, s.reqRule, req.DNS)
			if s.ctxErr {
				s.cancel()
			}
			f.yield()

			return s.gotReq, nil
		},
		OnFilterResponse: func(ctx context.Context, resp *filter.Response) (filter.Result, error) {
			s := f.specCtx(ctx)
			s.filterRespCalls++
			s.gotResp = s.mkRes(s.respKind, s.respList, s.respRule, nil)
			f.yield()

			return s.gotResp, nil
		},
	}
	noFlt := &agdtest.Filter{
		OnFilterRequest: func(ctx context.Context, _ *filter.Request) (filter.Result, error) {
			s := f.specCtx(ctx)
			if s.ctxErr {
				s.cancel()
			}
			f.yield()

			return nil, nil
		},
		OnFilterResponse: func(context.Context, *filter.Response) (filter.Result, error) { return nil, nil },
	}
	f.fs, f.logPath = newFS(logName, seed)
	ql := &agdtest.QueryLog{OnWrite: func(ctx context.Context, e *querylog.Entry) error {
		s := f.specCtx(ctx)
		cp := *e
		f.yield()
		werr := f.fs.Write(ctx, e)
		var chunk []byte
		if !f.conc {
			data, rerr := os.ReadFile(f.logPath)
			hlib.Must(rerr)
			chunk = append([]byte{}, data[min(f.logOff, int64(len(data))):]...)
			f.logOff = int64(len(data))
		}
		s.mu.Lock()
		s.logs = append(s.logs, logged{e: cp, chunk: chunk})
		s.mu.Unlock()

		return werr
	}}
	f.servers["dns"] = stack.NewServer("dns", agd.ProtoDNS, true)
	f.servers["dot"] = stack.NewServer("dot", agd.ProtoDoT, true, &agd.ServerBindData{AddrPort: netip.MustParseAddrPort("192.0.2.2:853")})
	f.servers["doh"] = stack.NewServer("doh", agd.ProtoDoH, true, &agd.ServerBindData{AddrPort: netip.MustParseAddrPort("192.0.2.2:443")})
	f.servers["doq"] = stack.NewServer("doq", agd.ProtoDoQ, true, &agd.ServerBindData{AddrPort: netip.MustParseAddrPort("192.0.2.2:784")})
	f.servers["dnscrypt"] = stack.NewServer("dnscrypt", agd.ProtoDNSCrypt, true, &agd.ServerBindData{AddrPort: netip.MustParseAddrPort("192.0.2.2:5443")})
	f.servers["dnsif"] = stack.NewServer("dnsif", agd.ProtoDNS, false, &agd.ServerBindData{
		ListenConfig: &net.ListenConfig{},
		PrefixAddr:   &agdnet.PrefixNetAddr{Prefix: netip.MustParsePrefix("192.0.2.16/28"), Net: "udp", Port: 53},
	})
	f.st = stack.New(&stack.Config{
		Messages:  f.msgs,
		Cloner:    cloner,
		ProfileDB: db,
		QueryLog:  ql,
		Servers: []*agd.Server{f.servers["dns"], f.servers["dot"], f.servers["dnsif"], f.servers["doh"], f.servers["doq"],
			f.servers["dnscrypt"]},
		Access: &agdtest.AccessManager{
			OnIsBlockedHost: func(host string, _ uint16) bool { return host == "globally-blocked.example" },
			OnIsBlockedIP: func(ip netip.Addr) bool {
				if s := f.specAddr(ip); s != nil {
					return s.gbi
				}

				return false
			},
		},
		RateLimit: &agdtest.RateLimit{
			OnIsRateLimited: func(ctx context.Context, _ *dns.Msg, _ netip.Addr) (bool, bool, error) {
				s := f.specCtx(ctx)

				return s.rlDrop, s.allowlisted && !s.rlDrop, nil
			},
			OnCountResponses: func(context.Context, *dns.Msg, netip.Addr) {},
		},
		FilterStorage: &agdtest.FilterStorage{
			OnForConfig: func(_ context.Context, c filter.Config) filter.Interface {
				if c == nil {
					// Filtering is off for the profile or the device.
					return noFlt
				}

				return flt
			},
			OnHasListID: func(filter.ID) bool { return true },
		},
		GeoData: func(_ string, ip netip.Addr) (*geoip.Location, error) {
			s := f.specAddr(ip)
			f.yield()
			if s == nil {
				// The ECS subnet of the request.
				return nil, nil
			}
			if isRespIP(ip) {
				if s.geoCtry == "" {
					return nil, nil
				}

				return &geoip.Location{Country: geoip.Country(s.geoCtry), ASN: 7}, nil
			}
			if ip != s.ip.Unmap() {
				return nil, nil
			}
			if !s.hasLoc {
				return nil, nil
			}

			return &geoip.Location{Country: geoip.Country(s.locCtry), Continent: geoip.ContinentEU, ASN: geoip.ASN(s.locASN)}, nil
		},
		Upstream: dnsserver.HandlerFunc(func(ctx context.Context, rw dnsserver.ResponseWriter, req *dns.Msg) error {
			s := f.specCtx(ctx)
			s.upstreamCalls++
			f.yield()
			if s.upErr {
				return errors.New("verif: upstream failure")
			}

			return rw.WriteMsg(ctx, req, mkAnswer(req, s.orig, s.origVariant, s.respAddr))
		}),
	})

	return f
}

// serve runs the scripted request and records what the client's writer got.
func (f *fixture) serve(s *spec) {
	if f.conc {
		f.byID.Store(ridOf(s.idx), s)
		f.byAddr.Store(s.ip.Unmap(), s)
		f.byAddr.Store(netip.AddrFrom4([4]byte(s.respAddr)), s)
	} else {
		f.cur = s
	}
	srv := f.servers[s.srv]
	h := f.st.Handlers[dnssvc.HandlerKey{Server: srv, ServerGroup: f.st.Group}]
	ctx, cancel := context.WithCancel(context.Background())
	defer cancel()
	s.cancel = cancel
	local := srv.BindData()[0].AddrPort
	if s.srv == "dnsif" {
		local = netip.MustParseAddrPort("192.0.2.17:53")
	}
	port := uint16(12345)
	if s.port0 {
		port = 0
	}
	remote := netip.AddrPortFrom(s.ip.Unmap(), port)
	ctx = dnsserver.ContextWithServerInfo(ctx, &dnsserver.ServerInfo{Name: string(srv.Name), Addr: local.String(), Proto: srv.Protocol})
	sri := &dnsserver.RequestInfo{StartTime: time.UnixMilli(s.startMs)}
	switch s.srv {
	case "dot", "doq", "doh":
		sri.TLSServerName = strings.ToLower(s.devID) + "." + stack.DeviceDomain
		if s.srv == "doh" {
			sri.URL = &url.URL{Path: "/dns-query"}
		}
	}
	ctx = dnsserver.ContextWithRequestInfo(ctx, sri)
	ctx = agd.WithRequestID(ctx, ridOf(s.idx))
	rw := &recRW{fail: s.writeErr}
	if srv.Protocol == agd.ProtoDNS || srv.Protocol == agd.ProtoDoQ || srv.Protocol == agd.ProtoDNSCrypt {
		rw.laddr, rw.raddr = net.UDPAddrFromAddrPort(local), net.UDPAddrFromAddrPort(remote)
	} else {
		rw.laddr, rw.raddr = net.TCPAddrFromAddrPort(local), net.TCPAddrFromAddrPort(remote)
	}
	s.rw = rw
	func() {
		defer func() {
			if p := recover(); p != nil {
				s.serr = fmt.Errorf("panic: %v", p)
			}
		}()
		s.serr = h.ServeDNS(ctx, rw, s.request())
	}()
}

// prepare computes the op line of s; the blocked response is described by
// the harness's own constructor for the blocking mode in force.
func (f *fixture) prepare(s *spec) {
	msgs := f.msgs
	if s.attributedIn() {
		msgs = f.modeMsg[s.blockMode]
	}
	blockErr := false
	blockedMsg, err := msgs.NewBlockedResp(s.request())
	if err != nil {
		blockErr = true
		s.blocked = respDesc{rcode: dns.RcodeServerFailure, shape: "-"}
	} else {
		s.blocked = describe(blockedMsg)
	}
	ip := s.ip.Unmap().String()
	if s.attributedIn() && (s.fltOff || s.devFltOff) {
		// The empty filter: no verdicts (the scripted filter is not asked).
		s.reqKind, s.respKind = 0, 0
	}
	if s.reqKind == 0 {
		s.reqList, s.reqRule = "", ""
	}
	if s.respKind == 0 {
		s.respList, s.respRule = "", ""
	}
	s.line = strings.Join([]string{"serve", b2s(s.port0), s.devKind, hx(s.profID), b2s(s.qlog), b2s(s.iplog), hx(s.devID),
		b2s(s.gbi), b2s(s.gbh), b2s(s.pb), b2s(s.ecs == 2), b2s(s.rlDrop), fmt.Sprint(s.profRl), b2s(s.special), b2s(s.debug),
		b2s(s.adWanted || s.doBit), b2s(s.ctxErr), b2s(s.upErr),
		b2s(s.writeErr), kinds[s.reqKind], hx(s.reqList), hx(s.reqRule), kinds[s.respKind], hx(s.respList), hx(s.respRule), b2s(blockErr),
		hx(s.name), fmt.Sprint(s.qtype), fmt.Sprint(uint8(s.proto())), hx(ip), hx(ridOf(s.idx).String()), fmt.Sprint(s.startMs),
		b2s(s.hasLoc), hx(s.locCtry), fmt.Sprint(s.locASN), s.orig.tokens(), s.blocked.tokens(), s.mod.tokens(), hx(s.geoCtry)}, " ")
}

// dropped is the harness's own reading of "dropped or access-blocked".
func (s *spec) dropped() bool {
	attributed := s.attributedIn()
	limited := s.rlDrop
	if attributed && s.profRl == 1 {
		limited = false
	} else if attributed && s.profRl == 2 {
		limited = true
	}

	return s.port0 || s.gbi || s.gbh || (attributed && s.pb) || (limited && s.proto() == agd.ProtoDNS) ||
		s.devKind == "unknown" && s.srv != "dnscrypt" || s.devKind == "error" && s.srv != "dnscrypt"
}

// oracle checks the property on what one request produced, without the model.
func oracle(r *hlib.Result, s *spec, bills []stack.BillRec, checkBills bool) {
	replay := map[string]any{"campaign": "stack", "op": s.line, "serve_error": fmt.Sprint(s.serr)}
	if s.src != "" {
		replay = map[string]any{"campaign": "prov", "op": s.line, "serve_error": fmt.Sprint(s.serr), "profile_source": s.src,
			"backend_message": s.provMsg, "model_ops": s.provOps, "how": provHow}
	}
	logs := s.logs
	attributed := s.attributedIn()
	dropped := s.dropped()
	if s.serr != nil && strings.HasPrefix(s.serr.Error(), "panic:") {
		s.violate(r, "panic-while-serving", "the handler panicked: "+s.serr.Error(), replay)
	}
	if len(logs) > 1 {
		s.violate(r, "several-entries-for-one-request", fmt.Sprintf("%d log entries for one request", len(logs)), replay)
	}
	if len(logs) > 0 && !attributed {
		s.violate(r, "logged-without-profile", "a query that was not attributed to a profile ("+s.devKind+"/"+s.srv+") was logged", replay)
	}
	if len(logs) > 0 && attributed && !s.qlog {
		s.violate(r, "logged-with-querylog-disabled", "profile has query logging disabled but the query was logged", replay)
	}
	if len(logs) > 0 && (dropped || s.ecs == 2) {
		s.violate(r, "dropped-or-blocked-query-recorded", "a dropped / access-blocked / malformed query was logged", replay)
	}
	if checkBills {
		if len(bills) > 1 {
			s.violate(r, "several-bills-for-one-request", fmt.Sprintf("%d billing records for one request", len(bills)), replay)
		}
		if len(bills) > 0 && !attributed {
			s.violate(r, "billed-without-profile", "a query that was not attributed to a profile ("+s.devKind+"/"+s.srv+") was billed", replay)
		}
		if len(bills) > 0 && (dropped || s.ecs == 2) {
			s.violate(r, "dropped-or-blocked-query-recorded", "a dropped / access-blocked / malformed query was billed", replay)
		}
		for _, b := range bills {
			if attributed && (string(b.Dev) != s.devID || b.Proto != s.proto()) {
				s.violate(r, "bill-not-own-request", fmt.Sprintf("billing record %+v is not this request's", b), replay)
			}
		}
	}
	for _, lg := range logs {
		e := lg.e
		if e.RemoteIP.IsValid() && !s.iplog {
			s.violate(r, "ip-logged-with-iplog-disabled", "profile has IP logging disabled but the entry has the client address "+e.RemoteIP.String(), replay)
		}
		if lg.chunk != nil && bytes.Contains(lg.chunk, []byte(`"ip"`)) && !s.iplog {
			s.violate(r, "ip-logged-with-iplog-disabled", "profile has IP logging disabled but the line has an ip property", replay)
		}
		if e.RemoteIP.IsValid() && e.RemoteIP != s.ip.Unmap() {
			s.violate(r, "entry-wrong-ip", "logged address is not the client's", replay)
		}
		own := e.DomainFQDN == s.name && e.RequestType == s.qtype && e.Protocol == s.proto() &&
			string(e.ProfileID) == s.profID && string(e.DeviceID) == s.devID && e.RequestID == ridOf(s.idx) &&
			e.Time.UnixMilli() == s.startMs && e.RequestResult == s.gotReq
		if !own {
			s.violate(r, "entry-not-own-request", fmt.Sprintf("entry %+v does not describe request %s", e, s.line), replay)
		}
		// doc/querylog.md, properties c and a: the detected country and ASN of
		// the client's address; d: the country of the first address of the
		// response, QN when the response has no address information.
		wantCtry, wantASN := "", uint32(0)
		if s.hasLoc {
			wantCtry, wantASN = s.locCtry, s.locASN
		}
		if string(e.ClientCountry) != wantCtry || uint32(e.ClientASN) != wantASN {
			s.violate(r, "entry-wrong-client-location", fmt.Sprintf("entry has client country %q and ASN %d, the client's are %q and %d",
				e.ClientCountry, e.ClientASN, wantCtry, wantASN), replay)
		}
		if d := string(e.ResponseCountry); d != "QN" && d != s.geoCtry {
			s.violate(r, "entry-wrong-response-country", fmt.Sprintf("entry has response country %q, this request's response address is in %q", d, s.geoCtry), replay)
		}
		if s.rw.msg != nil && s.rw.msg.Rcode <= 0xFFF && e.ResponseCountry != "QN" &&
			(s.rw.msg.Rcode != 0 || firstAddr(shapeOf(s.rw.msg)) != "addr" && firstAddr(s.orig.shape) != "addr") {
			s.violate(r, "entry-wrong-response-country", fmt.Sprintf("entry has response country %q although the response (rcode %d) has no address to locate",
				e.ResponseCountry, s.rw.msg.Rcode), replay)
		}
		if s.reqKind != 4 && e.ResponseResult != s.gotResp {
			s.violate(r, "entry-not-own-request", "entry's response verdict is not the one the filter gave for this request", replay)
		}
		if s.reqKind == 4 && e.ResponseResult != nil {
			s.violate(r, "entry-not-own-request", "entry has a response verdict although the response of a rewritten request is not filtered", replay)
		}
		if s.rw.msg != nil && s.rw.msg.Rcode <= 0xFFF && int(e.ResponseCode) != s.rw.msg.Rcode {
			s.violate(r, "entry-wrong-rcode", fmt.Sprintf("entry rcode %d, client got %d", e.ResponseCode, s.rw.msg.Rcode), replay)
		}
		if lg.chunk != nil {
			checkLine(r, "stack", &e, lg.chunk, replay)
			checkLineOwn(r, s, lg.chunk, replay)
		}
	}
}

// checkLineOwn compares the JSON line with the request itself (not with the
// Entry the middleware built): name, type, protocol, profile, device, verdict.
func checkLineOwn(r *hlib.Result, s *spec, chunk []byte, replay any) {
	var obj struct {
		IP *string `json:"ip"`
		U  string  `json:"u"`
		B  string  `json:"b"`
		I  string  `json:"i"`
		N  string  `json:"n"`
		L  string  `json:"l"`
		M  string  `json:"m"`
		Q  int     `json:"q"`
		P  int     `json:"p"`
		F  int     `json:"f"`
		T  int64   `json:"t"`
	}
	if err := json.Unmarshal(bytes.TrimRight(chunk, "\n"), &obj); err != nil {
		return // reported by checkLine
	}
	code, list, rule := docCode(s.gotReq, s.gotResp)
	if s.reqKind == 4 {
		code, list, rule = docCode(s.gotReq, nil)
	}
	ok := obj.U == ridOf(s.idx).String() && obj.B == goValid(s.profID) && obj.I == goValid(s.devID) && obj.N == goValid(s.name) &&
		obj.Q == int(s.qtype) && obj.P == int(s.proto()) && obj.F == code && obj.L == goValid(list) && obj.M == goValid(rule) &&
		obj.T == s.startMs
	if !ok {
		s.violate(r, "line-not-own-request", fmt.Sprintf("log line %q does not describe request %s", truncateB(chunk, 300), s.line), replay)
	}
	if obj.IP != nil && (!s.iplog || *obj.IP != s.ip.Unmap().String()) {
		s.violate(r, "ip-logged-with-iplog-disabled", "log line has ip="+*obj.IP+" (iplog="+b2s(s.iplog)+", client "+s.ip.Unmap().String()+")", replay)
	}
}

// gotEffects renders the observed effects the way the model driver does.
func gotEffects(s *spec, ruleStat bool, bills []stack.BillRec, billKnown bool) string {
	got := "resp=-"
	if s.rw.msg != nil {
		got = "resp=" + describe(s.rw.msg).String()
	}
	if ruleStat {
		got += " rs=1"
	} else {
		got += " rs=-"
	}
	switch {
	case !billKnown:
		got += " bill=?"
	case len(bills) > 0:
		b := bills[0]
		got += fmt.Sprintf(" bill=%s,%s,%d,%d", hx(string(b.Dev)), hx(string(b.Ctry)), uint32(b.ASN), uint8(b.Proto))
	default:
		got += " bill=-"
	}
	if len(s.logs) > 0 {
		got += " log=" + entryTokens(&s.logs[0].e, 0)
	} else {
		got += " log=-"
	}

	return got
}

func (s *spec) class() string {
	logs := s.logs
	switch {
	case s.dropped():
		return "dropped"
	case s.ecs == 2:
		return "bad-ecs"
	case s.special:
		return "special"
	case s.ctxErr || s.upErr:
		return "failed"
	case s.debug:
		return "debug"
	case s.writeErr:
		return "write-failed"
	case len(logs) > 0 && logs[0].e.RemoteIP.IsValid():
		return "logged-with-ip"
	case len(logs) > 0:
		return "logged-without-ip"
	case s.attributedIn():
		return "profile-not-logged"
	case s.devKind == "authfail":
		return "authfail"
	case s.devKind == "deleted":
		return "deleted-profile"
	}

	return "served-anon"
}

// countInputs records which input classes a logged request exercised.
func countInputs(r *hlib.Result, s *spec) {
	if len(s.logs) == 0 {
		return
	}
	rc := int(s.logs[0].e.ResponseCode)
	switch {
	case rc == 0:
		r.Count("stack.logged_rcode_0")
	case rc <= 0xF:
		r.Count("stack.logged_rcode_1_15")
	case rc <= 0xFFF:
		r.Count("stack.logged_rcode_extended_16_4095")
	default:
		r.Count("stack.logged_rcode_beyond_wire")
	}
	if strings.Contains(s.orig.shape, "https:") {
		r.Count("stack.logged_answer_with_https")
	}
	if strings.Contains(s.orig.shape, ",") {
		r.Count("stack.logged_answer_several_records")
	}
	if strings.Contains(s.orig.shape, "nil") || strings.Contains(s.orig.shape, "bad") {
		r.Count("stack.logged_answer_with_unusable_address")
	}
	if s.qclass != dns.ClassINET {
		r.Count("stack.logged_qclass_not_in")
	}
	if s.doBit {
		r.Count("stack.logged_do_bit")
	}
	if s.fltOff || s.devFltOff {
		r.Count("stack.logged_filtering_off")
	}
	if s.locASN > 65535 && s.hasLoc {
		r.Count("stack.logged_asn_above_16_bits")
	}
}

func stackCampaign(o *hlib.Opts, r *hlib.Result, m *hlib.Model) {
	rng := o.Rand("stack")
	n := 20000
	if o.Thorough() {
		n = 300000
	}
	f := newFixture(rng.Uint64(), false, "stack.jsonl", nil)
	var lines, gots []string
	flush := func() {
		if len(lines) == 0 {
			return
		}
		answers := m.Batch(lines)
		for i := range lines {
			if answers[i] != gots[i] {
				r.Disagree("stack", fmt.Sprintf("stack=%q model=%q", gots[i], answers[i]),
					map[string]any{"campaign": "stack", "ops": []string{lines[i]}})

				break
			}
		}
		lines, gots = nil, nil
	}
	for i := 0; i < n; i++ {
		s := genSpec(rng, i, false)
		f.prepare(s)
		_, _ = f.st.Effects.TakeLog()
		before := f.st.Effects.Snapshot()
		f.serve(s)
		after := f.st.Effects.Snapshot()
		_, bills := f.st.Effects.TakeLog()

		// Property oracle first, independent of the model.
		oracle(r, s, bills, true)

		lines = append(lines, s.line)
		gots = append(gots, gotEffects(s, after[3] > before[3], bills, true))
		class := s.class()
		r.Count("stack." + class)
		r.Count("stack.dev_" + s.devKind)
		r.Count("stack.srv_" + s.srv)
		countInputs(r, s)
		r.Case(canonStack(s.line), class != "served-anon")
		if i < 400 && (class == "logged-with-ip" || class == "profile-not-logged" || class == "dropped") {
			r.Sample(map[string]any{"campaign": "stack", "class": class, "op": s.line, "effects": gots[len(gots)-1]}, 9)
		}
		if len(lines) >= 2000 {
			flush()
		}
	}
	flush()
	r.Traces++
}

// cstackCampaign serves batches of scripted requests concurrently through one
// handler stack with the real FileSystem log: every request's entry and line
// must still be its own, and the file must consist of exactly the lines of
// the requests that were logged.
func cstackCampaign(o *hlib.Opts, r *hlib.Result, m *hlib.Model) {
	rng := o.Rand("cstack")
	batches, per := 12, 400
	if o.Thorough() {
		batches, per = 150, 600
	}
	f := newFixture(rng.Uint64(), true, "cstack.jsonl", nil)
	var fileOff int64
	for b := 0; b < batches; b++ {
		specs := make([]*spec, per)
		for i := range specs {
			specs[i] = genSpec(rng, b*per+i, true)
			f.prepare(specs[i])
		}
		g := []int{4, 8, 16, 32}[rng.IntN(4)]
		_, _ = f.st.Effects.TakeLog()
		before := f.st.Effects.Snapshot()
		var wg sync.WaitGroup
		next := make(chan *spec)
		for w := 0; w < g; w++ {
			wg.Add(1)
			go func() {
				defer wg.Done()
				for s := range next {
					f.serve(s)
				}
			}()
		}
		for _, s := range specs {
			next <- s
		}
		close(next)
		wg.Wait()
		after := f.st.Effects.Snapshot()
		_, bills := f.st.Effects.TakeLog()
		data, err := os.ReadFile(f.logPath)
		hlib.Must(err)
		data = data[min(fileOff, int64(len(data))):]
		fileOff += int64(len(data))
		replayB := map[string]any{"campaign": "cstack", "batch": b, "goroutines": g, "requests": per}

		// ---- property oracle: the file ----
		byU := map[string]*spec{}
		for _, s := range specs {
			byU[ridOf(s.idx).String()] = s
		}
		if len(data) > 0 && data[len(data)-1] != '\n' {
			r.Violate("file-unterminated", "log file does not end with a line feed after concurrent requests", replayB)
		}
		recs := bytes.SplitAfter(data, []byte("\n"))
		if len(recs) > 0 && len(recs[len(recs)-1]) == 0 {
			recs = recs[:len(recs)-1]
		}
		lineOf := map[*spec][]byte{}
		for _, rec := range recs {
			var probe struct {
				U string `json:"u"`
			}
			if err = json.Unmarshal(bytes.TrimRight(rec, "\n"), &probe); err != nil {
				r.Violate("line-not-json", fmt.Sprintf("cstack: line is not JSON (%v): %q", err, truncateB(rec, 300)), replayB)

				continue
			}
			s, known := byU[probe.U]
			if !known || lineOf[s] != nil {
				r.Violate("file-line-not-one-to-one", fmt.Sprintf("cstack: line for request %q is unknown or duplicated", probe.U), replayB)

				continue
			}
			lineOf[s] = rec
		}
		// ---- property oracle: every request ----
		nLogged, expBills := 0, 0
		var lines, gots []string
		for _, s := range specs {
			for i := range s.logs {
				s.logs[i].chunk = lineOf[s]
				if lineOf[s] == nil {
					r.Violate("file-line-missing", "a written entry has no line in the file", map[string]any{"campaign": "cstack", "op": s.line})
				}
			}
			if len(s.logs) == 0 && lineOf[s] != nil {
				r.Violate("file-line-not-one-to-one", "the file has a line for a request for which no entry was written",
					map[string]any{"campaign": "cstack", "op": s.line})
			}
			nLogged += len(s.logs)
			oracle(r, s, nil, false)
			if s.attributedIn() && !s.dropped() && s.ecs != 2 {
				expBills++
			}
			lines = append(lines, s.line)
			gots = append(gots, gotEffects(s, false, nil, false))
			r.Count("cstack." + s.class())
			r.Case("c"+canonStack(s.line), s.class() != "served-anon")
		}
		if len(bills) > expBills {
			r.Violate("billed-without-profile", fmt.Sprintf("cstack: %d billing records for %d servable attributed requests", len(bills), expBills), replayB)
		}
		if len(recs) != nLogged {
			r.Violate("file-line-count", fmt.Sprintf("cstack: %d entries written, %d lines in the file", nLogged, len(recs)), replayB)
		}
		// ---- correspondence ----
		answers := m.Batch(lines)
		mBills, mRS := 0, 0
		reported := false
		for i := range lines {
			a := strings.Fields(answers[i])
			if len(a) < 4 {
				r.Disagree("cstack", "model: "+answers[i], map[string]any{"campaign": "cstack", "ops": []string{lines[i]}})

				break
			}
			if a[1] != "rs=-" {
				mRS++
			}
			if a[2] != "bill=-" {
				mBills++
			}
			a[1], a[2] = "rs=-", "bill=?"
			if want := strings.Join(a, " "); want != gots[i] && !reported {
				reported = true
				r.Disagree("cstack", fmt.Sprintf("stack=%q model=%q", gots[i], want), map[string]any{"campaign": "cstack", "ops": []string{lines[i]}})
			}
		}
		if int64(mBills) != after[2]-before[2] || int64(mRS) != after[3]-before[3] || len(bills) != mBills {
			r.Disagree("cstack-counts", fmt.Sprintf("billing records %d (model %d), rule statistics %d (model %d)",
				after[2]-before[2], mBills, after[3]-before[3], mRS), replayB)
		}
		r.Count(fmt.Sprintf("cstack.goroutines_%d", g))
		if b == 0 {
			r.Sample(map[string]any{"campaign": "cstack", "goroutines": g, "requests": per, "lines": len(recs)}, 9)
		}
		for _, s := range specs {
			f.byID.Delete(ridOf(s.idx))
			f.byAddr.Delete(s.ip.Unmap())
			f.byAddr.Delete(netip.AddrFrom4([4]byte(s.respAddr)))
		}
		r.Traces++
	}
}

// canonStack drops the request ID from an op line.
func canonStack(l string) string {
	f := strings.Fields(l)
	if len(f) > 30 {
		f[30] = "_"
	}

	return strings.Join(f, " ")
}
