package main

// Campaign "full" (round 4): write(2) fails after a successful open.
//
// The log path is a symbolic link.  While it points to /dev/full every Write
// opens the file, encodes the record into its pooled buffer and then fails
// with ENOSPC, nothing written: the buffer that goes back to the pool still
// holds the whole record.  Then the link points to a regular file, and later
// it flips between the two while many goroutines write.  The file must
// consist of exactly one intact line for every Write that returned nil and
// nothing of the failed ones — which only the Reset after Pool.Get ensures, a
// statement that is a no-op in every run without such a failure.

import (
	"context"
	"errors"
	"fmt"
	"os"
	"path/filepath"
	"runtime"
	"strings"
	"syscall"

	"github.com/AdguardTeam/AdGuardDNS/internal/querylog"
	"github.com/AdguardTeam/AdGuardDNS/verifh/hlib"
	"github.com/AdguardTeam/golibs/logutil/slogutil"
)

func fullCampaign(o *hlib.Opts, r *hlib.Result, m *hlib.Model) {
	rng := o.Rand("full")
	cases := 12
	if o.Thorough() {
		cases = 120
	}
	if f, err := os.OpenFile("/dev/full", os.O_WRONLY, 0); err != nil {
		r.Count("full.skipped_no_dev_full")

		return
	} else {
		_ = f.Close()
	}
	ctx := context.Background()
	for c := 0; c < cases; c++ {
		dir := filepath.Join(tmpDir, fmt.Sprintf("full-%d", c))
		hlib.Must(os.MkdirAll(dir, 0o755))
		link, real, tmp := filepath.Join(dir, "log.jsonl"), filepath.Join(dir, "real.jsonl"), filepath.Join(dir, "next")
		point := func(target string) {
			_ = os.Remove(tmp)
			hlib.Must(os.Symlink(target, tmp))
			hlib.Must(os.Rename(tmp, link))
		}
		point("/dev/full")
		fs := querylog.NewFileSystem(&querylog.FileSystemConfig{Logger: slogutil.NewDiscardLogger(), Path: link, RandSeed: rng.Uint64()})
		g := []int{2, 4, 8, 16}[rng.IntN(4)]
		per := 2 + rng.IntN(6)
		nFail := 1 + rng.IntN(2*g)
		total := nFail + 2*g*per
		entries := genConcEntries(rng, total)
		errs := make([]error, total)
		replay := map[string]any{"campaign": "full", "case": c, "goroutines": g, "writes_each": per, "writes_on_full_disk": nFail,
			"how": "querylog.FileSystem with a path that is a symbolic link: to /dev/full (every write(2) fails with ENOSPC after the open), " +
				"then to a regular file, then flipping between the two under concurrent writers"}
		// Phase 1: no space left.  Half of the cases fail concurrently.
		if c%2 == 0 {
			runWriters(ctx, fs, entries, errs, 0, 1, nFail)
		} else {
			runWriters(ctx, fs, entries, errs, 0, nFail, 1)
		}
		for i := 0; i < nFail; i++ {
			if errs[i] == nil {
				r.Violate("write-on-full-disk-succeeded", "FileSystem.Write returned nil although nothing could be written", replay)
			}
		}
		// Phase 2: space again; the buffers in the pool are the dirty ones.
		point(real)
		runWriters(ctx, fs, entries, errs, nFail, g, per)
		// Phase 3: the link flips while writing.
		stop := make(chan struct{})
		done := make(chan struct{})
		go func() {
			defer close(done)
			for {
				select {
				case <-stop:
					return
				default:
				}
				point("/dev/full")
				runtime.Gosched()
				point(real)
				runtime.Gosched()
			}
		}()
		runWriters(ctx, fs, entries, errs, nFail+g*per, g, per)
		close(stop)
		<-done
		failed, wfail := make([]bool, total), make([]bool, total)
		nf := 0
		for i, err := range errs {
			if err == nil {
				continue
			}
			failed[i] = true
			nf++
			switch {
			case strings.Contains(err.Error(), "writing log") && errors.Is(err, syscall.ENOSPC):
				wfail[i] = true
			case i >= nFail+g*per && strings.Contains(err.Error(), "opening query log file"):
				// Opening a path whose last component is being replaced can fail
				// in the kernel (EISDIR, ELOOP): a Write that failed at open.
				r.Count("full.open_failed_while_flipping")
			default:
				r.Violate("write-failed", fmt.Sprintf("full: FileSystem.Write %d failed with something else than the full disk: %v", i, err), replay)
			}
		}
		data, err := os.ReadFile(real)
		hlib.Must(err)
		checkConcFile(r, m, rng, "full", c, entries, failed, wfail, data, replay)
		r.Count("full.failed_writes_" + map[bool]string{true: "only_initial", false: "also_while_flipping"}[nf == nFail])
		_ = os.RemoveAll(dir)
	}
}
