package main

// Campaign prov: where the profile's logging switches come from.
//
// In production the profile that recordQueryInfo reads was not built by hand:
// it was converted from the backend's DNSProfile message
// (backendpb.DNSProfile.toInternal), kept by profiledb.Default, written to the
// cache file on a full synchronisation (filecachepb.profilesToProtobuf) and —
// after a restart — read back from that file (filecachepb.Profile.toInternal),
// then possibly replaced by a later incremental synchronisation.  Here all of
// that is the repository's own code, driven through public API: an in-process
// gRPC backend, the real backendpb.ProfileStorage, real profiledb.Default
// instances on one cache file, the dnssvc.NewHandlers stack with the real
// profile database as its ProfileDB and the real querylog.FileSystem.
//
// Every request is judged by the switches that the backend's *latest message*
// for the profile carried (query_log_enabled, ip_log_enabled, deleted), not by
// the agd.Profile the database holds; the message's other booleans are drawn
// independently, so that a switch filled from a neighbouring field shows.

import (
	"context"
	"fmt"
	"math/rand/v2"
	"net"
	"net/netip"
	"net/url"
	"os"
	"path/filepath"
	"strconv"
	"strings"
	"sync"
	"time"

	"github.com/AdguardTeam/AdGuardDNS/internal/agd"
	"github.com/AdguardTeam/AdGuardDNS/internal/agdtest"
	"github.com/AdguardTeam/AdGuardDNS/internal/backendpb"
	"github.com/AdguardTeam/AdGuardDNS/internal/dnsmsg"
	"github.com/AdguardTeam/AdGuardDNS/internal/profiledb"
	"github.com/AdguardTeam/AdGuardDNS/verifh/hlib"
	"github.com/AdguardTeam/golibs/logutil/slogutil"
	"github.com/AdguardTeam/golibs/netutil"
	"github.com/c2h5oh/datasize"
	"google.golang.org/grpc"
	"google.golang.org/grpc/codes"
	"google.golang.org/grpc/credentials/insecure"
	"google.golang.org/grpc/metadata"
	"google.golang.org/grpc/status"
	"google.golang.org/protobuf/types/known/durationpb"
)

const provHow = "in-process gRPC backend (DNSService.GetDNSProfiles) -> backendpb.ProfileStorage -> profiledb.Default.Refresh " +
	"(a full synchronisation writes the cache file, an incremental one receives the changed profiles only) -> [profile_source " +
	"cache-file*: a new profiledb.Default started from that file while the backend is down] -> dnssvc.NewHandlers with that " +
	"database -> querylog.FileSystem; judged by the switches of the backend's latest message for the profile"

// dedicatedLocal is the local address of the fixture's dedicated-address server.
var dedicatedLocal = netip.MustParseAddr("192.0.2.17")

// wireDev is a DeviceSettings message.
type wireDev struct {
	id        string
	flt       bool
	linked    netip.Addr // zero value: no linked address
	dedicated bool       // owns dedicatedLocal
}

// wireProf is a DNSProfile message.
type wireProf struct {
	k                                  int
	id                                 string
	qlog, iplog, flt, deleted          bool
	autoDev, blockPR, blockFC, blockCP bool
	mode                               int // index into blockModes, 0..3
	devs                               []wireDev
	changed                            int64
}

func (w *wireProf) msg() *backendpb.DNSProfile {
	p := &backendpb.DNSProfile{
		DnsId:               w.id,
		FilteringEnabled:    w.flt,
		QueryLogEnabled:     w.qlog,
		IpLogEnabled:        w.iplog,
		Deleted:             w.deleted,
		AutoDevicesEnabled:  w.autoDev,
		BlockPrivateRelay:   w.blockPR,
		BlockFirefoxCanary:  w.blockFC,
		BlockChromePrefetch: w.blockCP,
		FilteredResponseTtl: durationpb.New(10 * time.Second),
	}
	switch w.mode {
	case 0:
		if w.k%2 == 0 {
			p.BlockingMode = &backendpb.DNSProfile_BlockingModeNullIp{BlockingModeNullIp: &backendpb.BlockingModeNullIP{}}
		}
	case 1:
		p.BlockingMode = &backendpb.DNSProfile_BlockingModeNxdomain{BlockingModeNxdomain: &backendpb.BlockingModeNXDOMAIN{}}
	case 2:
		p.BlockingMode = &backendpb.DNSProfile_BlockingModeRefused{BlockingModeRefused: &backendpb.BlockingModeREFUSED{}}
	case 3:
		m := blockModes[3].(*dnsmsg.BlockingModeCustomIP)
		p.BlockingMode = &backendpb.DNSProfile_BlockingModeCustomIp{BlockingModeCustomIp: &backendpb.BlockingModeCustomIP{
			Ipv4: m.IPv4[0].AsSlice(), Ipv6: m.IPv6[0].AsSlice()}}
	}
	for _, d := range w.devs {
		ds := &backendpb.DeviceSettings{Id: d.id, Name: "n" + d.id, FilteringEnabled: d.flt}
		if d.linked.IsValid() {
			ds.LinkedIp = d.linked.AsSlice()
		}
		if d.dedicated {
			ds.DedicatedIps = [][]byte{dedicatedLocal.AsSlice()}
		}
		p.Devices = append(p.Devices, ds)
	}

	return p
}

func (w *wireProf) describe() map[string]any {
	var devs []string
	for _, d := range w.devs {
		devs = append(devs, fmt.Sprintf("{id:%s filtering_enabled:%v linked_ip:%v dedicated:%v}", d.id, d.flt, d.linked, d.dedicated))
	}

	return map[string]any{"dns_id": w.id, "query_log_enabled": w.qlog, "ip_log_enabled": w.iplog, "deleted": w.deleted,
		"filtering_enabled": w.flt, "auto_devices_enabled": w.autoDev, "block_private_relay": w.blockPR,
		"block_firefox_canary": w.blockFC, "block_chrome_prefetch": w.blockCP, "blocking_mode": w.mode, "devices": devs,
		"message_version": w.changed}
}

// line registers the message with the model.
func (w *wireProf) line() string {
	return fmt.Sprintf("pmsg %d %s %s %s %s", w.k, hx(w.id), b2s(w.qlog), b2s(w.iplog), b2s(w.deleted))
}

// drawSwitches draws every boolean of the message independently.
func (w *wireProf) drawSwitches(rng *rand.Rand) {
	w.qlog, w.iplog = rng.IntN(2) == 0, rng.IntN(2) == 0
	w.flt = rng.IntN(4) != 0
	w.deleted = rng.IntN(10) == 0
	w.autoDev, w.blockPR, w.blockFC, w.blockCP = rng.IntN(2) == 0, rng.IntN(2) == 0, rng.IntN(2) == 0, rng.IntN(2) == 0
}

// provIDs are profile IDs: printable ASCII, at most eight bytes, some of them
// with characters the JSON encoder escapes.
var provIDs = []string{"pr%d", "p\"%d<&>", "p\\%d'", "PR%dxyz"}

func genWireProfs(rng *rand.Rand, c int) (profs []*wireProf) {
	n := 4 + rng.IntN(3)
	dedicatedAt := rng.IntN(n + 1)
	for k := 0; k < n; k++ {
		w := &wireProf{k: k, id: fmt.Sprintf(provIDs[rng.IntN(len(provIDs))], k), mode: []int{0, 0, 1, 2, 3}[rng.IntN(5)], changed: 1}
		w.drawSwitches(rng)
		if k < 4 {
			// All four combinations of the two switches in every case.
			w.qlog, w.iplog = k&1 != 0, k&2 != 0
			w.deleted = false
		}
		for j := 0; j <= rng.IntN(2); j++ {
			d := wireDev{id: fmt.Sprintf("dv%d%c%d", k, 'a'+byte(c%26), j), flt: rng.IntN(5) != 0}
			switch rng.IntN(3) {
			case 0:
				d.linked = netip.AddrFrom4([4]byte{10, 55, byte(k), byte(j + 1)})
			case 1:
				d.linked = netip.AddrFrom16([16]byte{0x20, 0x01, 0xd, 0xb8, 0, 0x55, 14: byte(k), 15: byte(j + 1)})
			}
			if k == dedicatedAt && j == 0 {
				d.dedicated = true
			}
			w.devs = append(w.devs, d)
		}
		profs = append(profs, w)
	}

	return profs
}

// provBackend is the in-process backend.  A request with a zero sync_time is
// a full synchronisation (every profile); otherwise the profiles whose message
// changed after that time are sent.
type provBackend struct {
	backendpb.UnimplementedDNSServiceServer
	mu         sync.Mutex
	profs      []*wireProf
	down       bool
	base       int64
	version    int64
	full, incr int
	sent       int
}

func (b *provBackend) GetDNSProfiles(req *backendpb.DNSProfilesRequest, srv grpc.ServerStreamingServer[backendpb.DNSProfile]) (err error) {
	b.mu.Lock()
	defer b.mu.Unlock()
	if b.down {
		return status.Error(codes.Unavailable, "verif: backend is down")
	}
	since := req.GetSyncTime().AsTime().UnixMilli() - b.base
	if since < 0 {
		b.full++
	} else {
		b.incr++
	}
	b.sent = 0
	for _, w := range b.profs {
		if since >= 0 && w.changed <= since {
			continue
		}
		if err = srv.Send(w.msg()); err != nil {
			return err
		}
		b.sent++
	}
	srv.SetTrailer(metadata.Pairs("sync_time", strconv.FormatInt(b.base+b.version, 10)))

	return nil
}

// swDB is the stack's profile database: whichever instance is current.
type swDB struct{ cur profiledb.Interface }

func (d *swDB) CreateAutoDevice(ctx context.Context, id agd.ProfileID, h agd.HumanID, t agd.DeviceType) (*agd.Profile, *agd.Device, error) {
	return d.cur.CreateAutoDevice(ctx, id, h, t)
}

func (d *swDB) ProfileByDedicatedIP(ctx context.Context, ip netip.Addr) (*agd.Profile, *agd.Device, error) {
	return d.cur.ProfileByDedicatedIP(ctx, ip)
}

func (d *swDB) ProfileByDeviceID(ctx context.Context, id agd.DeviceID) (*agd.Profile, *agd.Device, error) {
	return d.cur.ProfileByDeviceID(ctx, id)
}

func (d *swDB) ProfileByHumanID(ctx context.Context, id agd.ProfileID, h agd.HumanIDLower) (*agd.Profile, *agd.Device, error) {
	return d.cur.ProfileByHumanID(ctx, id, h)
}

func (d *swDB) ProfileByLinkedIP(ctx context.Context, ip netip.Addr) (*agd.Profile, *agd.Device, error) {
	return d.cur.ProfileByLinkedIP(ctx, ip)
}

type provEnv struct {
	r     *hlib.Result
	m     *hlib.Model
	rng   *rand.Rand
	srv   *provBackend
	ps    *backendpb.ProfileStorage
	ec    *agdtest.ErrorCollector
	path  string
	sw    *swDB
	f     *fixture
	idx   int
	colls int
}

func (e *provEnv) newDB(fullIvl time.Duration) (db *profiledb.Default) {
	db, err := profiledb.New(&profiledb.Config{
		Logger: slogutil.NewDiscardLogger(), Storage: e.ps, ErrColl: e.ec, Metrics: profiledb.EmptyMetrics{}, CacheFilePath: e.path,
		FullSyncIvl: fullIvl, FullSyncRetryIvl: time.Hour, ResponseSizeEstimate: datasize.KB,
	})
	hlib.Must(err)

	return db
}

func provCampaign(o *hlib.Opts, r *hlib.Result, m *hlib.Model) {
	l, err := net.Listen("tcp", "127.0.0.1:0")
	if err != nil {
		r.Notes = append(r.Notes, "prov campaign skipped: cannot listen on loopback: "+err.Error())

		return
	}
	e := &provEnv{r: r, m: m, rng: o.Rand("prov"), sw: &swDB{}}
	// Sync times lie a little in the past: an incremental synchronisation is due
	// with a full-sync interval of an hour, a full one with an interval of zero.
	e.srv = &provBackend{base: time.Now().UnixMilli() - 600000}
	gs := grpc.NewServer(grpc.ConnectionTimeout(time.Second), grpc.Creds(insecure.NewCredentials()))
	backendpb.RegisterDNSServiceServer(gs, e.srv)
	go func() { _ = gs.Serve(l) }()
	defer gs.Stop()

	e.ec = &agdtest.ErrorCollector{OnCollect: func(context.Context, error) { e.colls++ }}
	e.ps, err = backendpb.NewProfileStorage(&backendpb.ProfileStorageConfig{
		BindSet:              netutil.SliceSubnetSet{netip.MustParsePrefix("0.0.0.0/0"), netip.MustParsePrefix("::/0")},
		ErrColl:              e.ec,
		Logger:               slogutil.NewDiscardLogger(),
		GRPCMetrics:          backendpb.EmptyGRPCMetrics{},
		Metrics:              backendpb.EmptyProfileDBMetrics{},
		Endpoint:             &url.URL{Scheme: "grpc", Host: l.Addr().String()},
		ResponseSizeEstimate: datasize.KB,
		MaxProfilesSize:      16 * datasize.MB,
	})
	if err != nil {
		r.Notes = append(r.Notes, "prov campaign skipped: "+err.Error())

		return
	}
	e.path = filepath.Join(tmpDir, "prov-cache.pb")
	e.f = newFixture(e.rng.Uint64(), false, "prov.jsonl", e.sw)

	n := 120
	if o.Thorough() {
		n = 2500
	}
	for c := 0; c < n; c++ {
		e.runCase(c)
	}
	r.Notes = append(r.Notes, fmt.Sprintf("prov: %d cases (4-6 profiles each, all four query-log/IP-log combinations in each) through gRPC backend -> "+
		"backendpb.ProfileStorage -> profiledb (full sync, cache file) -> restart from the cache file -> changed switches by an incremental "+
		"or a second full sync -> restart again; backend served %d full and %d incremental synchronisations; converter reports: %d",
		n, e.srv.full, e.srv.incr, e.colls))
}

// runCase: one set of profiles through all sources.
func (e *provEnv) runCase(c int) {
	ctx := context.Background()
	r, rng, srv := e.r, e.rng, e.srv
	_ = os.Remove(e.path)
	srv.mu.Lock()
	srv.profs, srv.down, srv.version = genWireProfs(rng, c), false, 1
	srv.mu.Unlock()
	lines := []string{"preset"}
	gots := []string{"ok"}
	for _, w := range srv.profs {
		lines = append(lines, w.line())
		gots = append(gots, "ok")
	}
	// regs: the ops that register the messages in force (what a replay of one
	// request needs).
	regs := append([]string{}, lines...)
	msgs := func() any {
		d := map[string]any{}
		for _, w := range srv.profs {
			d[fmt.Sprintf("profile_%d", w.k)] = w.describe()
		}

		return d
	}
	setDown := func(down bool) {
		srv.mu.Lock()
		srv.down = down
		srv.mu.Unlock()
	}
	failed := false
	refresh := func(db *profiledb.Default, what string) bool {
		if err := db.Refresh(ctx); err != nil {
			failed = true
			r.Violate("prov:refresh-failed", "prov: "+what+" from the in-process backend failed: "+err.Error(),
				map[string]any{"campaign": "prov", "backend_message": msgs(), "how": provHow})

			return false
		}

		return true
	}
	// stage serves two requests per profile against the current database.
	stage := func(stageSrc string, db *profiledb.Default) {
		e.sw.cur = db
		desc := msgs()
		for _, w := range srv.profs {
			src := stageSrc
			if src == "backend-update" && w.changed != srv.version {
				// The incremental synchronisation did not send this profile: the
				// database still has it from the cache file.
				src = "cache-file-kept"
			}
			for q := 0; q < 2; q++ {
				d := w.devs[rng.IntN(len(w.devs))]
				s := genSpec(rng, e.idx, false)
				e.idx++
				s.src, s.provMsg = src, desc
				s.profID, s.devID = w.id, d.id
				s.qlog, s.iplog = w.qlog, w.iplog
				s.fltOff, s.devFltOff = !w.flt, !d.flt
				s.blockMode, s.pb, s.profRl = w.mode, false, 0
				s.devKind = "ok"
				if w.deleted {
					s.devKind = "deleted"
				}
				switch s.srv {
				case "dnsif":
					if !d.dedicated {
						s.srv = "dot"
					}
				case "dns":
					if d.linked.IsValid() {
						s.ip = d.linked
					} else {
						// No linked address: the query is anonymous.
						s.devKind = "anon"
					}
				}
				e.f.prepare(s)
				f := strings.Fields(s.line)
				dk := "ok"
				if s.devKind == "anon" {
					dk = "anon"
				}
				f[0], f[2], f[3], f[4], f[5] = "pserve "+src[:1]+" "+fmt.Sprint(w.k), dk, "_", "_", "_"
				line := strings.Join(f, " ")
				lines = append(lines, line)
				s.provOps = append(append([]string{}, regs...), line)

				_, _ = e.f.st.Effects.TakeLog()
				before := e.f.st.Effects.Snapshot()
				e.f.serve(s)
				after := e.f.st.Effects.Snapshot()
				_, bills := e.f.st.Effects.TakeLog()

				// Property oracle first, independent of the model.
				oracle(r, s, bills, true)
				// The positive direction, by the message: an opted-in profile's served
				// query is logged, with the address when the message says so.
				if s.attributedIn() && !s.dropped() && s.ecs != 2 && !s.special && !s.ctxErr && !s.upErr && !s.debug && !s.writeErr {
					rep := map[string]any{"campaign": "prov", "op": s.line, "profile_source": src, "backend_message": desc,
						"model_ops": s.provOps, "how": provHow}
					if w.qlog && len(s.logs) == 0 {
						r.Violate(s.sig("opted-in-profile-not-logged"), "the backend's message enables query logging for profile "+w.id+
							" but its served query was not logged", rep)
					}
					if w.qlog && w.iplog && len(s.logs) > 0 && !s.logs[0].e.RemoteIP.IsValid() {
						r.Violate(s.sig("ip-missing-with-iplog-enabled"), "the backend's message enables IP logging for profile "+w.id+
							" but the entry has no client address", rep)
					}
					if len(bills) == 0 {
						r.Violate(s.sig("profile-query-not-billed"), "a served query of profile "+w.id+" produced no billing record", rep)
					}
				}

				gots = append(gots, gotEffects(s, after[3] > before[3], bills, true))
				class := s.class()
				r.Count("prov." + src + "." + class)
				if s.attributedIn() {
					r.Count(fmt.Sprintf("prov.%s.msg_qlog=%s,iplog=%s", src, b2s(w.qlog), b2s(w.iplog)))
				}
				if len(r.Samples) < 12 && class == "logged-without-ip" && src != "backend" {
					r.Sample(map[string]any{"campaign": "prov", "profile_source": src, "class": class, "message": w.describe(), "op": line,
						"effects": gots[len(gots)-1]}, 12)
				}
			}
		}
	}

	// b: the first full synchronisation; it writes the cache file.
	db1 := e.newDB(time.Hour)
	if !refresh(db1, "the first synchronisation") {
		return
	}
	stage("backend", db1)
	// c: a restart from the cache file while the backend is down.
	setDown(true)
	db2 := e.newDB(time.Hour)
	stage("cache-file", db2)
	// u: the users change their settings.
	srv.mu.Lock()
	srv.version++
	nch := 0
	for _, w := range srv.profs {
		if rng.IntN(2) == 0 {
			continue
		}
		old := [2]bool{w.qlog, w.iplog}
		w.drawSwitches(rng)
		if nch == 0 {
			// At least one switch goes from on to off.
			w.qlog, w.iplog, w.deleted = old[0] || rng.IntN(2) == 0, !old[1] && rng.IntN(2) == 0, false
		}
		nch++
		w.changed = srv.version
		lines = append(lines, w.line())
		regs = append(regs, w.line())
		gots = append(gots, "ok")
	}
	srv.down = false
	srv.mu.Unlock()
	if rng.IntN(2) == 0 {
		// An incremental synchronisation of the restarted database.
		if !refresh(db2, "the incremental synchronisation") {
			return
		}
		r.Count("prov.update_incremental")
		stage("backend-update", db2)
	} else {
		// A database whose full-synchronisation interval has passed: the cache file
		// is rewritten, and the next restart reads the new switches.
		db3 := e.newDB(0)
		if !refresh(db3, "the second full synchronisation") {
			return
		}
		r.Count("prov.update_full")
		stage("backend-resync", db3)
		setDown(true)
		db4 := e.newDB(time.Hour)
		stage("cache-file-resync", db4)
	}
	if failed {
		return
	}

	answers := e.m.Batch(lines)
	for j := range gots {
		if gots[j] != answers[j] {
			r.Disagree("prov", fmt.Sprintf("prov: stack=%q model=%q for %q", gots[j], answers[j], lines[j]),
				map[string]any{"campaign": "prov", "backend_message": msgs(), "ops": append([]string{}, lines[:j+1]...), "how": provHow})

			break
		}
	}
	canon := make([]string, len(lines))
	for j, l := range lines {
		canon[j] = canonProv(l)
	}
	r.Case(strings.Join(canon, ";"), true)
	r.Count("prov.cases")
	r.Traces++
}

// canonProv drops the request ID from a pserve line.
func canonProv(l string) string {
	f := strings.Fields(l)
	if len(f) > 32 && f[0] == "pserve" {
		f[32] = "_"
	}

	return strings.Join(f, " ")
}
