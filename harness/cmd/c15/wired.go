package main

// Campaign "wired" (round 4): production wiring.
//
// Nothing between the configuration file and recordQueryInfo is assembled by
// hand.  A complete configuration file is written down from an intent (query
// log file switch, several server groups with and without profiles, their
// device-ID wildcards, servers of several protocols with and without linked
// addresses, global access settings, cache type) and handed, together with the
// process environment (QUERYLOG_PATH, GeoIP files, filter index), to the real
// builder of internal/cmd (cmd.VerifC15Build: parseEnvironment, validation,
// every builder step up to and including initDNS, hence builder.queryLog,
// serverGroups.toInternal, dnssvc.NewHandlers, newDeviceFinder, the real
// filter storage with the profiles' custom rules, the real GeoIP files, the
// real cache and forwarder with an in-process upstream on the loopback).  Only
// the backend-facing entities are the harness's: a scripted profile database
// that is shared by all groups, a billing recorder, rule statistics.
// Requests go through dnssvc.Service.Handle.  The oracle knows the intent and
// the documentation only; the model gets the intent (`wserve`).

import (
	"bytes"
	"context"
	"crypto/ecdsa"
	"crypto/elliptic"
	crand "crypto/rand"
	"crypto/x509"
	"crypto/x509/pkix"
	"encoding/json"
	"encoding/pem"
	"fmt"
	"math/big"
	"math/rand/v2"
	"net"
	"net/netip"
	"net/url"
	"os"
	"path/filepath"
	"strings"
	"sync"
	"sync/atomic"
	"time"

	"github.com/AdguardTeam/AdGuardDNS/internal/access"
	"github.com/AdguardTeam/AdGuardDNS/internal/agd"
	"github.com/AdguardTeam/AdGuardDNS/internal/agdcache"
	"github.com/AdguardTeam/AdGuardDNS/internal/agdnet"
	"github.com/AdguardTeam/AdGuardDNS/internal/agdpasswd"
	"github.com/AdguardTeam/AdGuardDNS/internal/agdtest"
	"github.com/AdguardTeam/AdGuardDNS/internal/cmd"
	"github.com/AdguardTeam/AdGuardDNS/internal/dnsmsg"
	"github.com/AdguardTeam/AdGuardDNS/internal/dnsserver"
	"github.com/AdguardTeam/AdGuardDNS/internal/filter"
	"github.com/AdguardTeam/AdGuardDNS/internal/geoip"
	"github.com/AdguardTeam/AdGuardDNS/internal/profiledb"
	"github.com/AdguardTeam/AdGuardDNS/verifh/hlib"
	"github.com/AdguardTeam/AdGuardDNS/verifh/hlib/stack"
	"github.com/AdguardTeam/golibs/container"
	"github.com/AdguardTeam/golibs/logutil/slogutil"
	"github.com/miekg/dns"
)

const wiredHow = "cmd.VerifC15Build on this configuration file and QUERYLOG_PATH (the real builder up to initDNS); " +
	"the request is served by dnssvc.Service.Handle(group, server) with the given TLS server name and client address; " +
	"the profile database is scripted and shared by all server groups"

// yamlProtos are the protocol names of the configuration file in the order of
// the model's protoOfYAML; docProto is doc/querylog.md, property p.
var yamlProtos = []string{"dns", "dnscrypt", "https", "quic", "tls"}

var docProto = map[string]int{"dns": 8, "dnscrypt": 9, "https": 3, "quic": 4, "tls": 5}

type wServer struct {
	name   string
	proto  string
	linked bool
	port   int
}

type wGroup struct {
	name     string
	profiles bool
	domain   string // device_id_wildcards: "*." + domain; "" when the group has no TLS section
	servers  []wServer
}

type wDevice struct {
	id     string
	linked netip.Addr
	prof   *wProfile
}

type wProfile struct {
	id                   string
	qlog, iplog, deleted bool
}

type wIntent struct {
	fileEnabled bool
	cache       string
	groups      []wGroup
	devs        []*wDevice
}

type wEnv struct {
	dir      string
	upstream string
	certPath string
	keyPath  string
	geo      *geoip.File
	msgs     *dnsmsg.Constructor
	seq      int
	simple   bool // the plain cache registers process-wide metrics: once per process
}

const (
	wBlockedName   = "globally-blocked.example."
	wBlockedSubnet = "203.0.113.0/24"
	wRuleBlock     = "||blocked.example^"
	wRuleAllow     = "@@||allowed.example^"
)

var wClientIPs = []string{"2.125.160.216", "89.160.20.112", "10.0.0.1", "10.0.0.2", "203.0.113.7", "2001:218::5", "216.160.83.56"}

var wNames = []string{"plain.example.", "www.blocked.example.", "allowed.example.", "Mixed.Case.Example.", "nx.plain.example.",
	"txt.example.", "other.example.", wBlockedName, "we\\ ird\\.label.example."}

// upstreamAnswer is the in-process upstream: a function of the question only,
// so that a cached answer equals a fresh one.
func upstreamAnswer(req *dns.Msg) *dns.Msg {
	q := req.Question[0]
	d := wiredOrig(q.Name, q.Qtype)
	resp := mkAnswer(req, d, 0, wiredRespAddr(q.Name))

	return resp
}

func wiredRespAddr(name string) net.IP {
	if len(name)%2 == 0 {
		return net.IP{216, 160, 83, 56}
	}

	return net.IP{198, 18, 0, 1}
}

func wiredOrig(name string, qt uint16) respDesc {
	if strings.HasPrefix(strings.ToLower(name), "nx.") {
		return respDesc{rcode: dns.RcodeNameError, shape: "-"}
	}
	switch qt {
	case dns.TypeA:
		return respDesc{shape: "a:addr"}
	case dns.TypeAAAA:
		return respDesc{shape: "aaaa:addr"}
	case dns.TypeTXT:
		return respDesc{shape: "o"}
	}

	return respDesc{shape: "-"}
}

func newWiredEnv() *wEnv {
	e := &wEnv{dir: filepath.Join(tmpDir, "wired")}
	hlib.Must(os.MkdirAll(e.dir, 0o755))
	// Upstream on the loopback, port chosen by the kernel.
	pc, err := net.ListenPacket("udp", "127.0.0.1:0")
	hlib.Must(err)
	srv := &dns.Server{PacketConn: pc, Handler: dns.HandlerFunc(func(w dns.ResponseWriter, req *dns.Msg) {
		_ = w.WriteMsg(upstreamAnswer(req))
	})}
	go func() { _ = srv.ActivateAndServe() }()
	e.upstream = pc.LocalAddr().String()
	// The forwarder retries over TCP when a UDP answer is unusable.
	if ln, lerr := net.Listen("tcp", e.upstream); lerr == nil {
		tsrv := &dns.Server{Listener: ln, Handler: srv.Handler}
		go func() { _ = tsrv.ActivateAndServe() }()
	}
	// A self-signed certificate for the TLS sections.
	key, err := ecdsa.GenerateKey(elliptic.P256(), crand.Reader)
	hlib.Must(err)
	tmpl := &x509.Certificate{SerialNumber: big.NewInt(1), Subject: pkix.Name{CommonName: "verif"}, NotBefore: time.Now().Add(-time.Hour),
		NotAfter: time.Now().Add(24 * time.Hour), DNSNames: []string{"*.dns.example"}}
	der, err := x509.CreateCertificate(crand.Reader, tmpl, tmpl, &key.PublicKey, key)
	hlib.Must(err)
	kb, err := x509.MarshalECPrivateKey(key)
	hlib.Must(err)
	e.certPath, e.keyPath = filepath.Join(e.dir, "cert.crt"), filepath.Join(e.dir, "cert.key")
	hlib.Must(os.WriteFile(e.certPath, pem.EncodeToMemory(&pem.Block{Type: "CERTIFICATE", Bytes: der}), 0o600))
	hlib.Must(os.WriteFile(e.keyPath, pem.EncodeToMemory(&pem.Block{Type: "EC PRIVATE KEY", Bytes: kb}), 0o600))
	hlib.Must(os.WriteFile(filepath.Join(e.dir, "index.json"), []byte(`{"filters":[]}`), 0o600))
	hlib.Must(os.MkdirAll(filepath.Join(e.dir, "filters"), 0o755))
	root := cmd.VerifC20RepoRoot()
	asn := filepath.Join(root, "internal/geoip/testdata/GeoIP2-ISP-Test.mmdb")
	ctry := filepath.Join(root, "internal/geoip/testdata/GeoIP2-Country-Test.mmdb")
	set := func(k, v string) { hlib.Must(os.Setenv(k, v)) }
	set("GEOIP_ASN_PATH", asn)
	set("GEOIP_COUNTRY_PATH", ctry)
	set("FILTER_INDEX_URL", (&url.URL{Scheme: "file", Path: filepath.Join(e.dir, "index.json")}).String())
	set("FILTER_CACHE_PATH", filepath.Join(e.dir, "filters"))
	for _, k := range []string{"BLOCKED_SERVICE_INDEX_URL", "GENERAL_SAFE_SEARCH_URL", "YOUTUBE_SAFE_SEARCH_URL", "SAFE_BROWSING_URL",
		"ADULT_BLOCKING_URL", "NEW_REG_DOMAINS_URL"} {
		// Switched off below; the builder still reads the URLs.
		set(k, "http://127.0.0.1:1/unused")
	}
	for _, k := range []string{"ADULT_BLOCKING_ENABLED", "SAFE_BROWSING_ENABLED", "NEW_REG_DOMAINS_ENABLED", "BLOCKED_SERVICE_ENABLED",
		"GENERAL_SAFE_SEARCH_ENABLED", "YOUTUBE_SAFE_SEARCH_ENABLED"} {
		set(k, "0")
	}
	// The oracle's own reading of the GeoIP files.
	e.geo = geoip.NewFile(&geoip.FileConfig{Logger: slogutil.NewDiscardLogger(), CacheManager: agdcache.EmptyManager{},
		AllTopASNs: container.NewMapSet[geoip.ASN](), CountryTopASNs: map[geoip.Country]geoip.ASN{}, ASNPath: asn, CountryPath: ctry,
		IPCacheCount: 100})
	hlib.Must(e.geo.Refresh(context.Background()))
	e.msgs, err = dnsmsg.NewConstructor(&dnsmsg.ConstructorConfig{Cloner: agdtest.NewCloner(), BlockingMode: &dnsmsg.BlockingModeNullIP{},
		StructuredErrors: agdtest.NewSDEConfig(true), FilteredResponseTTL: 10 * time.Second, EDEEnabled: true})
	hlib.Must(err)

	return e
}

func genIntent(rng *rand.Rand, e *wEnv) *wIntent {
	w := &wIntent{fileEnabled: rng.IntN(4) > 0, cache: []string{"none", "ecs", "ecs", "simple"}[rng.IntN(4)]}
	if w.cache == "simple" {
		if e.simple {
			w.cache = "ecs"
		}
		e.simple = true
	}
	nG := 2 + rng.IntN(2)
	port := 20000
	for j := 0; j < nG; j++ {
		g := wGroup{name: fmt.Sprintf("sg%d", j), profiles: rng.IntN(3) > 0, domain: fmt.Sprintf("d%d.dns.example", j)}
		if j == 0 {
			g.profiles = true
		} else if j == 1 {
			g.profiles = rng.IntN(2) == 0
		}
		nS := 2 + rng.IntN(3)
		tls := false
		for k := 0; k < nS; k++ {
			p := []string{"dns", "dns", "tls", "https", "quic"}[rng.IntN(5)]
			if k == 0 {
				// Every group needs a TLS section: a group of plain-DNS servers only passes the
				// validation without one, and serverGroups.collectSessTicketPaths then
				// dereferences the nil section at start-up (a finding outside this property).
				p = []string{"tls", "https", "quic"}[rng.IntN(3)]
			}
			tls = tls || p != "dns"
			port++
			g.servers = append(g.servers, wServer{name: fmt.Sprintf("s%d_%d_%s", j, k, p), proto: p, linked: rng.IntN(2) == 0, port: port})
		}
		if !tls {
			g.domain = ""
		}
		w.groups = append(w.groups, g)
	}
	combos := [][2]bool{{true, true}, {true, false}, {false, true}, {false, false}}
	for k := 0; k < 5; k++ {
		p := &wProfile{id: fmt.Sprintf("prof%04d", k), qlog: combos[k%4][0], iplog: combos[k%4][1], deleted: k == 4}
		if k == 4 {
			p.qlog, p.iplog = true, true
		}
		d := &wDevice{id: fmt.Sprintf("dev%04d", k), prof: p}
		w.devs = append(w.devs, d)
	}
	// Linked addresses: an opted-in profile, one without IP logging, one
	// without query logging, the deleted one.
	w.devs[0].linked = netip.MustParseAddr("2.125.160.216")
	w.devs[1].linked = netip.MustParseAddr("10.0.0.2")
	w.devs[2].linked = netip.MustParseAddr("2001:218::5")
	w.devs[4].linked = netip.MustParseAddr("216.160.83.56")

	return w
}

func (w *wIntent) yaml(e *wEnv) string {
	if w.cache == "none" {
		// There is no cache type "none" in the file: size zero switches the cache off.
		return strings.Replace(w.yamlWithCache(e, "simple"), "    size: 1000\n", "    size: 0\n", 1)
	}

	return w.yamlWithCache(e, w.cache)
}

func yb(v bool) string {
	if v {
		return "true"
	}

	return "false"
}

func (w *wIntent) yamlWithCache(e *wEnv, cache string) string {
	var b strings.Builder
	b.WriteString(`ratelimit:
    refuseany: false
    response_size_estimate: 1KB
    ipv4: {count: 100000, interval: 10s, subnet_key_len: 24}
    ipv6: {count: 100000, interval: 10s, subnet_key_len: 48}
    backoff_period: 10m
    backoff_count: 100000
    backoff_duration: 30m
    allowlist: {list: [], refresh_interval: 1h, type: 'consul'}
    connection_limit: {enabled: false, stop: 1000, resume: 800}
    quic: {enabled: false, max_streams_per_peer: 100}
    tcp: {enabled: false, max_pipeline_count: 100}
access:
    blocked_question_domains: ['` + strings.TrimSuffix(wBlockedName, ".") + `']
    blocked_client_subnets: ['` + wBlockedSubnet + `']
`)
	fmt.Fprintf(&b, "cache:\n    type: '%s'\n    size: 1000\n    ecs_size: 1000\n    ttl_override: {enabled: false, min: 60s}\n", cache)
	fmt.Fprintf(&b, `upstream:
    servers:
      - address: 'udp://%s'
        timeout: 2s
    fallback:
        servers:
          - address: 'udp://%s'
            timeout: 2s
    healthcheck: {enabled: false, interval: 2s, timeout: 1s, backoff_duration: 30s, domain_template: '${RANDOM}.example.com'}
dns: {read_timeout: 2s, tcp_idle_timeout: 30s, write_timeout: 2s, handle_timeout: 5s, max_udp_response_size: 1024B}
dnsdb: {enabled: false, max_size: 1000}
backend: {timeout: 10s, refresh_interval: 15s, full_refresh_interval: 24h, full_refresh_retry_interval: 1h, bill_stat_interval: 15s}
query_log:
    file:
        enabled: %s
geoip: {host_cache_size: 100, ip_cache_size: 100, refresh_interval: 1h}
check:
    kv: {type: 'cache', ttl: 30s}
    domains: ['dnscheck.example.com']
    node_location: 'ams'
    node_name: 'eu-1.dns.example.com'
    ipv4: ['1.2.3.4']
    ipv6: ['1234::cdee']
web: {timeout: 1m}
safe_browsing: {block_host: 'sb.example.com', cache_size: 100, cache_ttl: 1h, refresh_interval: 1h, refresh_timeout: 1m}
adult_blocking: {block_host: 'ad.example.com', cache_size: 100, cache_ttl: 1h, refresh_interval: 1h, refresh_timeout: 1m}
filters:
    response_ttl: 10s
    custom_filter_cache_size: 100
    safe_search_cache_size: 100
    refresh_interval: 1h
    refresh_timeout: 1m
    index_refresh_timeout: 1m
    rule_list_refresh_timeout: 1m
    max_size: 1MB
    rule_list_cache: {enabled: true, size: 100}
    ede_enabled: true
    sde_enabled: true
filtering_groups:
  - id: 'fg'
    parental: {enabled: false}
    rule_lists: {enabled: false}
    safe_browsing: {enabled: false, block_dangerous_domains: false, block_newly_registered_domains: false}
    block_chrome_prefetch: false
    block_firefox_canary: false
    block_private_relay: false
connectivity_check: {probe_ipv4: '127.0.0.1:1'}
network: {so_sndbuf: 0, so_rcvbuf: 0}
additional_metrics_info: {}
server_groups:
`, e.upstream, e.upstream, yb(w.fileEnabled))
	for _, g := range w.groups {
		fmt.Fprintf(&b, "  - name: '%s'\n    filtering_group: 'fg'\n    profiles_enabled: %s\n    ddr: {enabled: false}\n", g.name, yb(g.profiles))
		if g.domain != "" {
			fmt.Fprintf(&b, "    tls:\n        certificates:\n          - certificate: '%s'\n            key: '%s'\n        device_id_wildcards: ['*.%s']\n",
				e.certPath, e.keyPath, g.domain)
		}
		b.WriteString("    servers:\n")
		for _, s := range g.servers {
			fmt.Fprintf(&b, "      - name: '%s'\n        protocol: '%s'\n        linked_ip_enabled: %s\n        bind_addresses: ['127.0.0.1:%d']\n",
				s.name, s.proto, yb(s.linked), s.port)
		}
	}

	return b.String()
}

// wiredDB is the scripted profile database, shared by all server groups.
type wiredDB struct {
	*agdtest.ProfileDB
}

func (w *wIntent) profileOf(d *wDevice) (*agd.Profile, *agd.Device) {
	dev := &agd.Device{Auth: &agd.AuthSettings{PasswordHash: agdpasswd.AllowAuthenticator{}}, ID: agd.DeviceID(d.id), FilteringEnabled: true,
		LinkedIP: d.linked}
	p := &agd.Profile{
		FilterConfig: &filter.ConfigClient{
			Custom: &filter.ConfigCustom{ID: d.prof.id, UpdateTime: time.Unix(1700000000, 0), Enabled: true,
				Rules: []filter.RuleText{wRuleBlock, wRuleAllow}},
			Parental: &filter.ConfigParental{}, RuleList: &filter.ConfigRuleList{}, SafeBrowsing: &filter.ConfigSafeBrowsing{}},
		Access: access.EmptyProfile{}, BlockingMode: &dnsmsg.BlockingModeNullIP{},
		Ratelimiter: fakeRL{res: agd.RatelimitResultUseGlobal},
		ID:          agd.ProfileID(d.prof.id), DeviceIDs: []agd.DeviceID{dev.ID}, FilteredResponseTTL: 10 * time.Second,
		FilteringEnabled: true, QueryLogEnabled: d.prof.qlog, IPLogEnabled: d.prof.iplog, Deleted: d.prof.deleted,
	}

	return p, dev
}

func (w *wIntent) db() profiledb.Interface {
	pdb := stack.NotFoundProfileDB()
	pdb.OnProfileByDeviceID = func(_ context.Context, id agd.DeviceID) (*agd.Profile, *agd.Device, error) {
		for _, d := range w.devs {
			if d.id == string(id) {
				p, dev := w.profileOf(d)

				return p, dev, nil
			}
		}

		return nil, nil, fmt.Errorf("verif: %w", profiledb.ErrDeviceNotFound)
	}
	pdb.OnProfileByLinkedIP = func(_ context.Context, ip netip.Addr) (*agd.Profile, *agd.Device, error) {
		for _, d := range w.devs {
			if d.linked.IsValid() && d.linked == ip {
				p, dev := w.profileOf(d)

				return p, dev, nil
			}
		}

		return nil, nil, fmt.Errorf("verif: %w", profiledb.ErrDeviceNotFound)
	}

	return pdb
}

type wReq struct {
	g, s     int
	sniLabel string
	sniDom   string
	ip       netip.Addr
	name     string
	qtype    uint16
	idx      int
	startMs  int64
	// observed
	rw    *recRW
	serr  error
	chunk []byte
	bills []stack.BillRec
	rs    bool
}

type wiredRec struct {
	mu    sync.Mutex
	bills []stack.BillRec
	rs    atomic.Int64
}

func (w *wIntent) byDev(id string) *wDevice {
	for _, d := range w.devs {
		if d.id == id {
			return d
		}
	}

	return nil
}

func (w *wIntent) byLinked(ip netip.Addr) *wDevice {
	for _, d := range w.devs {
		if d.linked.IsValid() && d.linked == ip {
			return d
		}
	}

	return nil
}

// expectDevice is the oracle's reading of the configuration documentation:
// profiles_enabled, device_id_wildcards of the group, linked_ip_enabled of the
// server, a device ID only over an encrypted protocol, a deleted profile does
// not count.
func (w *wIntent) expectDevice(q *wReq) *wDevice {
	g := w.groups[q.g]
	sv := g.servers[q.s]
	if !g.profiles {
		return nil
	}
	var d *wDevice
	switch sv.proto {
	case "tls", "https", "quic":
		if q.sniLabel != "" && g.domain != "" && q.sniDom == g.domain {
			d = w.byDev(q.sniLabel)
		}
	case "dns":
		if sv.linked {
			d = w.byLinked(q.ip)
		}
	}
	if d != nil && d.prof.deleted {
		return nil
	}

	return d
}

func (q *wReq) blocked() bool {
	return strings.EqualFold(q.name, wBlockedName) || netip.MustParsePrefix(wBlockedSubnet).Contains(q.ip)
}

func (q *wReq) request() *dns.Msg {
	req := &dns.Msg{}
	req.Id = uint16(3000 + q.idx)
	req.RecursionDesired = true
	req.Question = []dns.Question{{Name: q.name, Qtype: q.qtype, Qclass: dns.ClassINET}}

	return req
}

func genWReq(rng *rand.Rand, w *wIntent, idx int) *wReq {
	q := &wReq{g: rng.IntN(len(w.groups)), idx: idx, name: wNames[rng.IntN(len(wNames))],
		qtype: []uint16{dns.TypeA, dns.TypeA, dns.TypeAAAA, dns.TypeTXT}[rng.IntN(4)],
		ip:    netip.MustParseAddr(wClientIPs[rng.IntN(len(wClientIPs))]),
		startMs: []int64{1628590394000, 1700000000123, time.Now().UnixMilli() - 1500}[rng.IntN(3)]}
	g := w.groups[q.g]
	q.s = rng.IntN(len(g.servers))
	switch rng.IntN(8) {
	case 0:
		// no server name
	case 1:
		q.sniLabel, q.sniDom = "nodevice", g.domain
	case 2, 3:
		// A device domain of another group.
		o := w.groups[rng.IntN(len(w.groups))]
		q.sniLabel, q.sniDom = w.devs[rng.IntN(len(w.devs))].id, o.domain
	default:
		q.sniLabel, q.sniDom = w.devs[rng.IntN(len(w.devs))].id, g.domain
	}
	if q.sniDom == "" {
		if rng.IntN(2) == 0 {
			q.sniLabel, q.sniDom = w.devs[rng.IntN(len(w.devs))].id, "d9.dns.example"
		} else {
			q.sniLabel = ""
		}
	}

	return q
}

type wiredBuilt struct {
	w       *wIntent
	yaml    string
	logPath string
	built   *cmd.VerifC15Wired
	rec     *wiredRec
	logOff  int64
}

func buildWired(e *wEnv, w *wIntent) *wiredBuilt {
	e.seq++
	dir := filepath.Join(e.dir, fmt.Sprintf("run%d", e.seq))
	hlib.Must(os.MkdirAll(dir, 0o755))
	wb := &wiredBuilt{w: w, yaml: w.yaml(e), logPath: filepath.Join(dir, "ql.jsonl"), rec: &wiredRec{}}
	hlib.Must(os.Setenv("QUERYLOG_PATH", wb.logPath))
	deps := &cmd.VerifC15Deps{
		ProfileDB: w.db(),
		BillStat: &agdtest.BillStatRecorder{OnRecord: func(_ context.Context, id agd.DeviceID, ctry geoip.Country, asn geoip.ASN, _ time.Time,
			proto agd.Protocol) {
			wb.rec.mu.Lock()
			wb.rec.bills = append(wb.rec.bills, stack.BillRec{Dev: id, Ctry: ctry, ASN: asn, Proto: proto})
			wb.rec.mu.Unlock()
		}},
		RuleStat: &agdtest.RuleStat{OnCollect: func(context.Context, filter.ID, filter.RuleText) { wb.rec.rs.Add(1) }},
		DNSCheck: &agdtest.DNSCheck{OnCheck: func(context.Context, *dns.Msg, *agd.RequestInfo) (*dns.Msg, error) { return nil, nil }},
	}
	var err error
	wb.built, err = cmd.VerifC15Build(context.Background(), []byte(wb.yaml), deps, slogutil.NewDiscardLogger(),
		&agdtest.ErrorCollector{OnCollect: func(context.Context, error) {}}, fmt.Sprintf("verifc15w%d", e.seq))
	if err != nil {
		panic(fmt.Errorf("builder rejected the generated configuration: %w\n%s", err, wb.yaml))
	}

	return wb
}

func (wb *wiredBuilt) serve(q *wReq) {
	g := wb.w.groups[q.g]
	sv := g.servers[q.s]
	proto := agd.Protocol(docProto[sv.proto])
	local := netip.AddrPortFrom(netip.MustParseAddr("127.0.0.1"), uint16(sv.port))
	remote := netip.AddrPortFrom(q.ip, 40000)
	ctx := context.Background()
	ctx = dnsserver.ContextWithServerInfo(ctx, &dnsserver.ServerInfo{Name: sv.name, Addr: local.String(), Proto: proto})
	sri := &dnsserver.RequestInfo{StartTime: time.UnixMilli(q.startMs)}
	if sv.proto != "dns" && q.sniLabel != "" {
		sri.TLSServerName = q.sniLabel + "." + q.sniDom
	}
	if sv.proto == "https" {
		sri.URL = &url.URL{Path: "/dns-query"}
	}
	ctx = dnsserver.ContextWithRequestInfo(ctx, sri)
	ctx = agd.WithRequestID(ctx, ridOf(q.idx))
	rw := &recRW{}
	if sv.proto == "dns" || sv.proto == "quic" {
		rw.laddr, rw.raddr = net.UDPAddrFromAddrPort(local), net.UDPAddrFromAddrPort(remote)
	} else {
		rw.laddr, rw.raddr = net.TCPAddrFromAddrPort(local), net.TCPAddrFromAddrPort(remote)
	}
	q.rw = rw
	wb.rec.mu.Lock()
	wb.rec.bills = nil
	wb.rec.mu.Unlock()
	rsBefore := wb.rec.rs.Load()
	func() {
		defer func() {
			if p := recover(); p != nil {
				q.serr = fmt.Errorf("panic: %v", p)
			}
		}()
		q.serr = wb.built.Svc.Handle(ctx, agd.ServerGroupName(g.name), agd.ServerName(sv.name), rw, q.request())
	}()
	q.rs = wb.rec.rs.Load() > rsBefore
	wb.rec.mu.Lock()
	q.bills = wb.rec.bills
	wb.rec.mu.Unlock()
	data, err := os.ReadFile(wb.logPath)
	if err == nil {
		q.chunk = append([]byte{}, data[min(wb.logOff, int64(len(data))):]...)
		wb.logOff = int64(len(data))
	}
}

// sniActive says whether the server name reaches the handler at all (the
// harness sets it only for encrypted protocols).
func (wb *wiredBuilt) opLine(e *wEnv, q *wReq) (line string, exp *wDevice) {
	w := wb.w
	g := w.groups[q.g]
	sv := g.servers[q.s]
	exp = w.expectDevice(q)
	lk := func(d *wDevice) string {
		if d == nil {
			return "notfound,x,false,false,x"
		}
		kind := "ok"
		if d.prof.deleted {
			kind = "deleted"
		}

		return strings.Join([]string{kind, hx(d.prof.id), b2s(d.prof.qlog), b2s(d.prof.iplog), hx(d.id)}, ",")
	}
	sni := "-"
	var byID *wDevice
	if sv.proto != "dns" && q.sniLabel != "" {
		sni = hx(q.sniLabel) + "," + hx(q.sniDom)
		byID = w.byDev(q.sniLabel)
	}
	doms := "-"
	if g.domain != "" {
		doms = hx(g.domain)
	}
	k := 0
	for i, p := range yamlProtos {
		if p == sv.proto {
			k = i
		}
	}
	// What the filters of the profile say (the custom rules), by the
	// documentation of the rule syntax.
	reqKind, reqList, reqRule := "none", "", ""
	if exp != nil {
		host := strings.ToLower(strings.TrimSuffix(q.name, "."))
		switch {
		case host == "blocked.example" || strings.HasSuffix(host, ".blocked.example"):
			reqKind, reqList, reqRule = "blocked", "custom", wRuleBlock
		case host == "allowed.example" || strings.HasSuffix(host, ".allowed.example"):
			reqKind, reqList, reqRule = "allowed", "custom", wRuleAllow
		}
	}
	orig := wiredOrig(q.name, q.qtype)
	blocked := respDesc{rcode: dns.RcodeServerFailure, shape: "-"}
	blockErr := false
	if bm, err := e.msgs.NewBlockedResp(q.request()); err != nil {
		blockErr = true
	} else {
		blocked = describe(bm)
	}
	hasLoc, lctry, lasn := false, "", uint32(0)
	if l, _ := e.geo.Data("", q.ip); l != nil {
		hasLoc, lctry, lasn = true, string(l.Country), uint32(l.ASN)
	}
	geoCtry := ""
	if firstAddr(orig.shape) == "addr" {
		ra := wiredRespAddr(q.name)
		addr, _ := netip.AddrFromSlice(ra)
		if q.qtype == dns.TypeAAAA {
			addr, _ = netip.AddrFromSlice(mkIP("addr", true, ra))
		}
		if l, _ := e.geo.Data(agdnet.NormalizeDomain(q.name), addr.Unmap()); l != nil {
			geoCtry = string(l.Country)
		}
	}
	rn, el := "0", "0"
	if len(q.chunk) > 0 {
		var obj struct {
			RN int64 `json:"rn"`
			E  int64 `json:"e"`
		}
		if json.Unmarshal(bytes.TrimRight(firstLine(q.chunk), "\n"), &obj) == nil {
			rn, el = fmt.Sprint(obj.RN), fmt.Sprint(obj.E)
		}
	}
	line = strings.Join([]string{"wserve", rn, el, b2s(w.fileEnabled), b2s(g.profiles), doms, fmt.Sprint(k), b2s(sv.linked), sni,
		lk(byID), lk(w.byLinked(q.ip)),
		// <req>: the device and protocol tokens are ignored by the model
		"false", "anon", "x", "false", "false", "x",
		b2s(netip.MustParsePrefix(wBlockedSubnet).Contains(q.ip)), b2s(strings.EqualFold(q.name, wBlockedName)), "false", "false", "false", "0",
		"false", "false", "false", "false", "false", "false",
		reqKind, hx(reqList), hx(reqRule), "none", "x", "x", b2s(blockErr),
		hx(q.name), fmt.Sprint(q.qtype), "0", hx(q.ip.String()), hx(ridOf(q.idx).String()), fmt.Sprint(q.startMs),
		b2s(hasLoc), hx(lctry), fmt.Sprint(lasn), orig.tokens(), blocked.tokens(), "0 false -", hx(geoCtry)}, " ")

	return line, exp
}

func firstLine(b []byte) []byte {
	if i := bytes.IndexByte(b, '\n'); i >= 0 {
		return b[:i+1]
	}

	return b
}

func (wb *wiredBuilt) got(q *wReq) string {
	got := "resp=-"
	if q.rw.msg != nil {
		got = "resp=" + describe(q.rw.msg).String()
	}
	if q.rs {
		got += " rs=1"
	} else {
		got += " rs=-"
	}
	if len(q.bills) > 0 {
		b := q.bills[0]
		got += fmt.Sprintf(" bill=%s,%s,%d,%d", hx(string(b.Dev)), hx(string(b.Ctry)), uint32(b.ASN), uint8(b.Proto))
	} else {
		got += " bill=-"
	}
	if len(q.chunk) > 0 {
		got += " file=" + hx(string(q.chunk))
	} else {
		got += " file=-"
	}

	return got
}

// wiredOracle judges one request by the intent and the documentation.
func (wb *wiredBuilt) wiredOracle(r *hlib.Result, q *wReq, exp *wDevice, line string) {
	w := wb.w
	g := w.groups[q.g]
	sv := g.servers[q.s]
	replay := map[string]any{"campaign": "wired", "config_yaml": wb.yaml, "QUERYLOG_PATH": wb.logPath, "server_group": g.name,
		"server": sv.name, "tls_server_name": q.sniLabel + "." + q.sniDom, "client": q.ip.String(), "question": q.name,
		"qtype": q.qtype, "op": line, "how": wiredHow, "serve_error": fmt.Sprint(q.serr)}
	v := func(sig, what string) { r.Violate("wired:"+sig, what, replay) }
	if q.serr != nil && strings.HasPrefix(q.serr.Error(), "panic:") {
		v("panic-while-serving", q.serr.Error())
	}
	nLines := bytes.Count(q.chunk, []byte("\n"))
	logged := len(q.chunk) > 0
	if logged && !w.fileEnabled {
		v("logged-with-file-log-disabled", "query_log.file.enabled is false but the file at QUERYLOG_PATH got a record")
	}
	if (logged || len(q.bills) > 0) && !g.profiles {
		v("recorded-in-group-without-profiles", fmt.Sprintf("server group %s has profiles_enabled: false, but the request was logged (%v) or billed (%v)",
			g.name, logged, len(q.bills) > 0))
	}
	if logged && exp == nil {
		v("logged-without-profile", "a request the configuration does not attribute to any profile was logged: "+string(truncateB(q.chunk, 200)))
	}
	if len(q.bills) > 0 && exp == nil {
		v("billed-without-profile", "a request the configuration does not attribute to any profile was billed")
	}
	if logged && exp != nil && !exp.prof.qlog {
		v("logged-with-querylog-disabled", "profile "+exp.prof.id+" has query logging disabled but the request was logged")
	}
	if (logged || len(q.bills) > 0) && q.blocked() {
		v("dropped-or-blocked-query-recorded", "an access-blocked request was logged or billed")
	}
	if nLines > 1 || len(q.bills) > 1 {
		v("several-records-for-one-request", fmt.Sprintf("%d lines, %d bills", nLines, len(q.bills)))
	}
	served := !q.blocked() && q.serr == nil && q.rw.msg != nil
	if served && exp != nil {
		if len(q.bills) == 0 {
			v("profile-query-not-billed", "a served request of device "+exp.id+" was not billed")
		}
		if exp.prof.qlog && w.fileEnabled && !logged {
			v("opted-in-profile-not-logged", "a served request of opted-in profile "+exp.prof.id+" left no record at QUERYLOG_PATH")
		}
	}
	for _, b := range q.bills {
		if exp != nil && (string(b.Dev) != exp.id || int(b.Proto) != docProto[sv.proto]) {
			v("bill-not-own-request", fmt.Sprintf("billing record %+v is not this request's (device %s, protocol %s)", b, exp.id, sv.proto))
		}
	}
	if !logged {
		return
	}
	if q.chunk[len(q.chunk)-1] != '\n' {
		v("line-not-terminated", "the record does not end with a line feed")
	}
	var obj struct {
		IP *string `json:"ip"`
		U  string  `json:"u"`
		B  string  `json:"b"`
		I  string  `json:"i"`
		N  string  `json:"n"`
		L  string  `json:"l"`
		M  string  `json:"m"`
		C  string  `json:"c"`
		Q  int     `json:"q"`
		P  int     `json:"p"`
		R  int     `json:"r"`
		T  int64   `json:"t"`
	}
	if err := json.Unmarshal(bytes.TrimRight(firstLine(q.chunk), "\n"), &obj); err != nil {
		v("line-not-json", fmt.Sprintf("%v: %q", err, truncateB(q.chunk, 200)))

		return
	}
	if exp != nil {
		own := obj.U == ridOf(q.idx).String() && obj.B == exp.prof.id && obj.I == exp.id && obj.N == q.name && obj.Q == int(q.qtype) &&
			obj.P == docProto[sv.proto] && obj.T == q.startMs
		if !own {
			v("line-not-own-request", fmt.Sprintf("record %q does not describe this request (profile %s, device %s, name %q, type %d, protocol %s=%d)",
				truncateB(q.chunk, 300), exp.prof.id, exp.id, q.name, q.qtype, sv.proto, docProto[sv.proto]))
		}
		if obj.IP != nil && (!exp.prof.iplog || *obj.IP != q.ip.String()) {
			v("ip-logged-with-iplog-disabled", fmt.Sprintf("record has ip=%s; profile %s has ip logging %v, client is %s", *obj.IP, exp.prof.id,
				exp.prof.iplog, q.ip))
		}
		if obj.IP == nil && exp.prof.iplog {
			v("ip-missing-with-iplog-enabled", "profile "+exp.prof.id+" has IP logging enabled but the record has no address")
		}
	}
	if q.rw.msg != nil && obj.R != q.rw.msg.Rcode {
		v("entry-wrong-rcode", fmt.Sprintf("record has r=%d, the client got %d", obj.R, q.rw.msg.Rcode))
	}
}

func wiredCampaign(o *hlib.Opts, r *hlib.Result, m *hlib.Model) {
	rng := o.Rand("wired")
	cases, per := 12, 200
	if o.Thorough() {
		cases, per = 150, 400
	}
	e := newWiredEnv()
	_, cwdErr := os.Stat("querylog.jsonl")
	idx := 0
	for c := 0; c < cases; c++ {
		w := genIntent(rng, e)
		wb := buildWired(e, w)
		var lines, gots, errs []string
		for i := 0; i < per; i++ {
			idx++
			q := genWReq(rng, w, idx)
			wb.serve(q)
			line, exp := wb.opLine(e, q)
			// Property oracle first, independent of the model.
			wb.wiredOracle(r, q, exp, line)
			lines = append(lines, line)
			gots = append(gots, wb.got(q))
			errs = append(errs, fmt.Sprint(q.serr))
			g := w.groups[q.g]
			class := "anon"
			switch {
			case q.blocked():
				class = "blocked"
			case exp != nil && len(q.chunk) > 0:
				class = "logged"
			case exp != nil:
				class = "profile-not-logged"
			case !g.profiles:
				class = "group-without-profiles"
			}
			r.Count("wired." + class)
			r.Count("wired.proto_" + g.servers[q.s].proto)
			r.Case("wired "+canonStack(line), class != "anon")
			if i < 40 && class == "logged" {
				r.Sample(map[string]any{"campaign": "wired", "op": line, "effects": gots[len(gots)-1]}, 9)
			}
		}
		r.Count("wired.cache_" + w.cache)
		r.Count("wired.file_" + b2s(w.fileEnabled))
		answers := m.Batch(lines)
		for i := range lines {
			if answers[i] != gots[i] {
				r.Disagree("wired", fmt.Sprintf("wired=%q model=%q", gots[i], answers[i]),
					map[string]any{"campaign": "wired", "config_yaml": wb.yaml, "ops": []string{lines[i]}, "how": wiredHow, "serve_error": errs[i]})

				break
			}
		}
		// The whole file: only complete records, and no file when the switch is off.
		data, err := os.ReadFile(wb.logPath)
		if !w.fileEnabled && err == nil {
			r.Violate("wired:logged-with-file-log-disabled", "query_log.file.enabled is false but a file exists at QUERYLOG_PATH",
				map[string]any{"campaign": "wired", "config_yaml": wb.yaml, "how": wiredHow})
		}
		if err == nil && len(data) > 0 {
			for _, l := range bytes.SplitAfter(data, []byte("\n")) {
				if len(l) == 0 {
					continue
				}
				var anyObj map[string]any
				if l[len(l)-1] != '\n' || json.Unmarshal(l, &anyObj) != nil {
					r.Violate("wired:line-not-json", fmt.Sprintf("the file has the piece %q", truncateB(l, 200)),
						map[string]any{"campaign": "wired", "config_yaml": wb.yaml, "how": wiredHow})

					break
				}
			}
		}
		ents, _ := os.ReadDir(filepath.Dir(wb.logPath))
		for _, en := range ents {
			if en.Name() != filepath.Base(wb.logPath) {
				r.Violate("wired:log-file-elsewhere", "a file other than QUERYLOG_PATH appeared next to it: "+en.Name(),
					map[string]any{"campaign": "wired", "config_yaml": wb.yaml, "how": wiredHow})
			}
		}
		if _, err = os.Stat("querylog.jsonl"); cwdErr != nil && err == nil {
			r.Violate("wired:log-file-elsewhere", "the default ./querylog.jsonl was written although QUERYLOG_PATH is set",
				map[string]any{"campaign": "wired", "config_yaml": wb.yaml, "how": wiredHow})
			_ = os.Remove("querylog.jsonl")
		}
		r.Traces++
	}
}
